import GceTcb.Base.Line
import GceTcb.Model.SecureJoin
import GceTcb.Model.SecureJoinEnv
import GceTcb.Model.Extract
/- Driver handler for stream `c16fs`: filepath-securejoin's SecureJoin, the kernel's path resolution
   and EfiVarFSReader.ReadVariable on a generated directory tree serialised on the protocol line. -/
namespace GceTcb.Drive.C16Fs
open GceTcb GceTcb.SecureJoin

def textOf (hex : String) : PathStr :=
  match hexDecode hex with
  | none => []
  | some bs => ((String.fromUTF8? ⟨bs.toArray⟩).getD "").toList

def hexOf (p : PathStr) : String := hexEncode (String.ofList p).toUTF8.toList

/-- location of an absolute clean path text -/
def locOf (p : PathStr) : List Name := (splitSlash p).filter (· ≠ [])

/-- "hexpath:d", "hexpath:f:id", "hexpath:l:hextarget", comma separated -/
def parseTable (s : String) : Table :=
  if s == "" then [] else
  (s.splitOn ",").filterMap fun e =>
    match e.splitOn ":" with
    | [p, "d"] => some (locOf (textOf p), .dir)
    | [p, "f", i] => some (locOf (textOf p), .file (i.toNat?.getD 0))
    | [p, "l", t] => some (locOf (textOf p), .link (textOf t))
    | _ => none

/-- contents the harness writes into file `id` -/
def contentOf (id : Nat) : Bytes :=
  if id ≥ 900 then [1, 2, UInt8.ofNat (id - 900)]
  else [7, 0, 0, 0] ++ ("FILE-" ++ toString id ++ "-END").toUTF8.toList

def showErrno : Errno → String
  | .noent => "noent" | .notdir => "notdir" | .loop => "loop" | .fault => "fault"

def showLoc (l : List Name) : String := hexOf (renderAbs l)

def showRes : Res → String
  | .ok loc (.file i) _ => s!"file:{i}:{showLoc loc}"
  | .ok loc .dir _ => s!"dir:{showLoc loc}"
  | .ok loc (.link t) _ => s!"link:{hexOf t}:{showLoc loc}"
  | .err e => "err:" ++ showErrno e

def showRead : ReadRes → String
  | .data loc i => s!"data:{i}:{showLoc loc}"
  | .isdir => "isdir"
  | .err e => "err:" ++ showErrno e

def showJoin : Joined → String
  | .ok p => "ok:" ++ hexOf p
  | .err e => "err:" ++ showErrno e

/-- the world of ReadVariable: SecureJoin and os.ReadFile on one (unchanged) file system -/
def envFor (fs : FS) (cwd : List Name) : Extract.Env :=
  envOf fs fs kernelLinkLimit maxSymlinkLimit cwd contentOf (fun _ => none)

def handle (f : Fields) : String :=
  let fs := (parseTable (f.get "fs")).toFS
  let cwd := locOf (textOf (f.get "cwd"))
  match f.get "op" with
  | "clean" => hexOf (clean (textOf (f.get "p")))
  | "resolve" =>
    showRes (resolve fs kernelLinkLimit cwd (f.bool "follow") (textOf (f.get "p")))
  | "join" =>
    -- the line-by-line transcription and the component model (proved equal: C16_fs_text_transcription)
    let j := secureJoinText fs kernelLinkLimit maxSymlinkLimit cwd (textOf (f.get "root")) (textOf (f.get "p"))
    let j' := secureJoin fs kernelLinkLimit maxSymlinkLimit cwd (textOf (f.get "root")) (textOf (f.get "p"))
    let r := match j with
      | .ok p => showRead (readFile fs kernelLinkLimit cwd p)
      | .err _ => "-"
    s!"join={showJoin j} read={r}" ++ (if j == j' then "" else " MODELS-DISAGREE")
  | "toctou" =>
    -- SecureJoin on the file system as it was, os.ReadFile on the file system as it is afterwards
    let fs2 := (parseTable (f.get "fs2")).toFS
    let j := secureJoinText fs kernelLinkLimit maxSymlinkLimit cwd (textOf (f.get "root")) (textOf (f.get "p"))
    let r := match j with
      | .ok p => showRead (readFile fs2 kernelLinkLimit cwd p)
      | .err _ => "-"
    s!"join={showJoin j} read={r}"
  | "readvar" =>
    let r := Extract.readVariable (envFor fs cwd) ((String.fromUTF8? ⟨(f.bytes "root").toArray⟩).getD "") (f.bytes "guid") (f.bytes "name")
    let out := match r.out with
      | .ok b => "ok out=" ++ hexEncode b
      | .err c => "err=" ++ c ++ " out="
      | .panic _ => "panic out="
    s!"{out} paths={";".intercalate (r.paths.map fun p => hexOf p.toList)}"
  | _ => "bad-op"

end GceTcb.Drive.C16Fs
