import GceTcb.Drive.EndorseIO
/- Driver handler for stream `c14` (RetrySubmit against a scripted backend). -/
namespace GceTcb.Drive.C14
open GceTcb GceTcb.Manifest GceTcb.Commit GceTcb.Drive.IO

def handle (f : Fields) : String :=
  match f.get "op" with
  | "retry" =>
    let c := parseCfg f
    let e : Entry := ⟨basename c.cand, f.get "dg", f.get "t"⟩
    let r := retrySubmit c e (f.int "budget") (parseScript (f.get "script"))
    s!"res={showRes r.2} log={showLog r.1}"
  | _ => "bad-op"

end GceTcb.Drive.C14
