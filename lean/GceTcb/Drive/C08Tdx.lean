import GceTcb.Base.Line
import GceTcb.Drive.C05
/- Driver handler for stream `c08tdx`: outcome classes of the TDX firmware-analysis entry points
   (computed without materialising declared memory) and the model's tick / allocation counters. -/
namespace GceTcb.Drive.C08Tdx
open GceTcb GceTcb.Intervals GceTcb.TdxMeta GceTcb.TdxHob GceTcb.Mrtd GceTcb.Drive.C05

def cls : Outcome Unit → String
  | .ok _ => "ok"
  | .err c => "reject=" ++ c
  | .panic _ => "panic"

def unit {α : Type} : Outcome α → Outcome Unit
  | .ok _ => .ok ()
  | .err c => .err c
  | .panic s => .panic s

/-- class of tdx.UnsignedTDX without hashing -/
def unsignedClass (table : List (String × Nat × Nat × Nat)) (fw : Bytes) (early : Bool) : List String → Outcome Unit
  | [] => mrtdClass {} fw
  | name :: rest =>
    match machineTypeToRAMBanks table name with
    | .ok banks =>
      match mrtdClass { banks := banks, measureAllRegions := true } fw with
      | .ok _ =>
        -- `meas2, _ := MRTD(options, uefi)`: an error is discarded, a panic is not
        match (if early then mrtdClass { banks := banks, measureAllRegions := true, disableUnacceptedMemory := true } fw else .ok ()) with
        | .panic p => .panic p
        | _ => unsignedClass table fw early rest
      | .err c => .err c
      | .panic p => .panic p
    | .err c => .err c
    | .panic p => .panic p

def handle (f : Fields) : String :=
  match f.get "op" with
  | "mrtd" =>
    let o : LaunchOptions := { banks := parseGprs (f.get "banks"), disableUnacceptedMemory := f.bool "du", measureAllRegions := f.bool "ma" }
    cls (mrtdClass o (f.bytes "img"))
  | "regions" =>
    let fw := f.bytes "img"
    let banks := parseGprs (f.get "banks")
    match f.nat "mode" with
    | 0 => cls (unit (extractDefault fw))
    | 1 => cls (unit (extractTDHOBBug fw banks))
    | _ => cls (unit (extractNoUnacceptedMemory fw banks))
  | "unsigned" => cls (unsignedClass Gen.TdxConsts.shapes (f.bytes "img") (f.bool "early") (f.list "shapes"))
  | "unacc" =>
    let out := unacceptedMemRanges (parseGprs (f.get "priv")) (parseGprs (f.get "ram"))
    "ok n=" ++ toString out.length
  | _ => "bad-op"

end GceTcb.Drive.C08Tdx
