import GceTcb.Base.Line
/- Driver handler for stream `c08tdx` (stub: replaced when the property's model lands). -/
namespace GceTcb.Drive.C08Tdx
open GceTcb

def handle (_f : Fields) : String := "unimplemented"

end GceTcb.Drive.C08Tdx
