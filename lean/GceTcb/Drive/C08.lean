import GceTcb.Base.Line
/- Driver handler for stream `c08` (stub: replaced when the property's model lands). -/
namespace GceTcb.Drive.C08
open GceTcb

def handle (_f : Fields) : String := "unimplemented"

end GceTcb.Drive.C08
