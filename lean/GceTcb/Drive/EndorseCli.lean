import GceTcb.Drive.EndorseIO
import GceTcb.Drive.C15
import GceTcb.Model.EndorseCli
import GceTcb.Gen.EndorseFlags
/-
Driver handler for `op=cli` lines (streams c06cli, c15cli and the command-line sub-stream of c15): the whole
`endorse` command — flag values, file-system state, environment — through `EndorseCli.cliRun`.

Parameters are instantiated as follows: `kds.ParseProductLine` by the table the extractor observed on the
linked function (Gen.EndorseFlags.productLines); `time.Parse(RFC3339, ·)` by the table on the line (computed by
the harness with direct `time.Parse` calls); `proto.Unmarshal` into SCRTMVersion by the Lean wire codec;
`hex.DecodeString(strings.TrimSpace(·))` and `uuid.Parse` by Lean transcriptions (ASCII input); the
measurement functions by the tables on the line (direct sev.LaunchDigest / tdx.MRTD calls), SHA-384 by the
Lean SHA-384.
-/
namespace GceTcb.Drive.EndorseCli
open GceTcb GceTcb.Endorse GceTcb.Commit GceTcb.VF GceTcb.Drive.IO GceTcb.EndorseCli

/-- comma-separated occurrences, `_` standing for the empty string -/
def occurrences (s : String) : List String :=
  if s == "" then [] else (s.splitOn ",").map fun x => if x == "_" then "" else x

def isAsciiSpace (b : UInt8) : Bool := b == 9 || b == 10 || b == 11 || b == 12 || b == 13 || b == 32

/-- hex.DecodeString(strings.TrimSpace(string(b))) on ASCII input -/
def decodeHexText (b : Bytes) : Option Bytes :=
  let t := ((b.dropWhile isAsciiSpace).reverse.dropWhile isAsciiSpace).reverse
  hexDecodeChars (t.map fun x => Char.ofNat x.toNat)

/-- `text@sec.nsec` or `text@E`, separated by `;` -/
def parseTimeTable (s : String) : List (String × Option (Int × Nat)) :=
  if s == "" then [] else
  (s.splitOn ";").filterMap fun e =>
    match e.splitOn "@" with
    | [k, v] => some (k, if v == "E" then none else some (parseTsField v))
    | _ => none

/-- `path@hex` separated by `;` -/
def parseFs (s : String) : List (String × Bytes) :=
  if s == "" then [] else
  (s.splitOn ";").filterMap fun e =>
    match e.splitOn "@" with
    | [k, v] => (hexDecode v).map fun b => (k, b)
    | _ => none

def mkParams (f : Fields) : Params :=
  let tt := parseTimeTable (f.get "tsparse")
  { parseProduct := fun s => (Gen.EndorseFlags.productLines.find? (fun p => p.1 == s)).bind (·.2)
    parseTime := fun s => (tt.find? (fun p => p.1 == s)).bind (·.2)
    unmarshalScrtm := unmarshalScrtmWire
    decodeHexText := decodeHexText }

def mkEnv (f : Fields) : Env :=
  let fs := parseFs (f.get "fs")
  let uefi := f.get "uefi"
  let img := f.bytes "img"
  let imgok := f.bool "imgok"
  { readFile := fun p => if imgok && p == uefi then some img else (fs.find? (fun q => q.1 == p)).map (·.2)
    now := parseTsField (f.get "now")
    rndImageId := f.get "rnd"
    root := f.get "root"
    globalPre := f.bool "gpre", appPre := f.bool "apre", globalInit := f.bool "ginit", appInit := f.bool "ainit" }

def mkFlags (f : Fields) : CliFlags :=
  { addSnp := f.bool "add_snp", addTdx := f.bool "add_tdx", uefi := f.get "uefi", svsmPath := f.get "svsm_path",
    svsmSnpMeasurementPath := f.get "svsm_meas_path", candidateName := f.get "cand",
    releaseBranch := f.get "branch", clspec := f.nat "cl", commit := f.get "commit",
    commitRetries := f.int "retries", outDir := f.get "out", dryRun := f.bool "dry",
    timestamp := occurrences (f.get "ts"), snpFamilyId := f.get "fam", snpImageId := f.get "iid",
    snpLaunchVmsas := f.nat "vm", snpProduct := occurrences (f.get "prod"),
    tdxIncludeEarlyAccept := f.bool "early", tdxMachineShapes := f.list "shapes",
    measurementOnly := f.bool "mo", snapshotDir := f.get "snap", overwrite := f.bool "ow" }

def b01 (b : Bool) : String := if b then "1" else "0"

def showSnpReq : Option SnpRequest → String
  | none => "-"
  | some r => s!"{r.svn}/{r.familyId}/{r.imageId}/{r.launchVmsas}/{r.product}"

def showTdxReq : Option TdxRequest → String
  | none => "-"
  | some t => s!"{t.svn}/{b01 t.includeEarlyAccept}/{"+".intercalate t.machineShapes}"

/-- The endorse.Context handed to endorse.VirtualFirmware, field by field. -/
def showEC (ec : EC) (ow : Bool) : String :=
  s!"snp={showSnpReq ec.snp} tdx={showTdxReq ec.tdx} cl={ec.clSpec} commit={hexEncode ec.commit} cand={ec.candidateName} branch={ec.releaseBranch} ts={ec.timestamp.1}.{ec.timestamp.2} retries={ec.commitRetries} out={ec.outDir} dry={b01 ec.dryRun} mo={b01 ec.measurementOnly} snap={ec.snapshotDir} imgname={ec.imageName} img={hexEncode (Sha384.sha384List ec.image)} svsmimg={ec.svsmImage.length} svsm_m={hexEncode ec.svsmSnpMeasurement} ow={b01 ow}"

/-- `parse:x` ↦ (`parse`, `-`): which flag cobra complains about first depends on argv order;
    `prerun:x` ↦ (`prerun`, x); `init:x` ↦ (`init`, x); anything else is a failure of the run itself. -/
def phaseOf (e : String) : String × String :=
  match e.splitOn ":" with
  | ["parse", _] => ("parse", "-")
  | ["prerun", c] => ("prerun", c)
  | ["init", c] => ("init", c)
  | _ => ("run", "-")

def handle (f : Fields) : String :=
  let P := mkParams f
  let Pr := mkPrims f
  let E := mkEnv f
  let fl := mkFlags f
  match ecOf P Pr.parseUuid E fl with
  | .err e => let p := phaseOf e; s!"phase={p.1} cls={p.2} req=- res=err eff="
  | .panic _ => "phase=panic cls=- req=- res=panic eff="
  | .ok (ec, ow) =>
    let r := cliRun P Pr genTables E fl (parseKeys f) (C15.parseVcs (f.get "vcs")) (C15.parseVcss (f.get "vcss"))
    let res := match r.result with | .ok _ => "ok" | .err _ => "err" | .panic _ => "panic"
    s!"phase=run cls=- req=[{showEC ec ow}] res={res} eff={",".intercalate (r.effects.map C15.showEff)}"

end GceTcb.Drive.EndorseCli
