import GceTcb.Base.Line
import GceTcb.Base.Sha384
import GceTcb.Model.Extract
import GceTcb.Model.Sp800155
/- Driver handler for stream `c16` (endorsement discovery: names, extraction decision logic,
   UEFI variable paths, emitted SP800-155 events). -/
namespace GceTcb.Drive.C16
open GceTcb GceTcb.Extract GceTcb.Sp800155

def strHex (s : String) : String := hexEncode s.toUTF8.toList

def hexOr (s : String) : Bytes := (hexDecode s).getD []

def showUrl : Url → String
  | .derived s => strHex s
  | .verbatim loc => hexEncode loc

def showOut : Outcome Bytes → String
  | .ok b => "ok out=" ++ hexEncode b
  | .err c => "err=" ++ c ++ " out="
  | .panic _ => "panic out="

def showRes (r : Res) (withPaths : Bool := true) : String :=
  showOut r.out ++ " urls=" ++ ";".intercalate (r.urls.map showUrl) ++
    " paths=" ++ (if withPaths then ";".intercalate (r.paths.map strHex) else "*") ++ s!" prov={r.provCalls}"

/-- `none`, `sev:meas:extra` (extra a dash when absent) or `tdx:mrtd` -/
def parseTee (s : String) : Option Tee :=
  match s.splitOn ":" with
  | ["sev", m, x] => some (.sev (hexOr m) (if x == "-" then none else some (hexOr x)))
  | ["tdx", m] => some (.tdx (hexOr m))
  | _ => none

/-- `et/loctype/mfr/locator`, or `et` followed by a slash and a dash for an event without RIM data -/
def parseLogEvent (s : String) : Option LogEvent :=
  match s.splitOn "/" with
  | [et, "-"] => some ⟨et.toNat?.getD 0, none⟩
  | [et, lt, mfr, loc] => some ⟨et.toNat?.getD 0, some ⟨hexOr mfr, lt.toNat?.getD 0, hexOr loc⟩⟩
  | _ => none

/-- "none" | "unreadable" | "p[;event]*" -/
def parseEventLog (s : String) : Option EventLog :=
  match s.splitOn ";" with
  | "p" :: evs => some (.parsed (evs.filterMap parseLogEvent))
  | ["unreadable"] => some .unreadable
  | _ => none

/-- "" | "pathhex:contenthex[,...]" -/
def parseFs (s : String) : List (String × Bytes) :=
  if s == "" then [] else
  (s.splitOn ",").filterMap fun e =>
    match e.splitOn ":" with
    | [p, c] => some (p, hexOr c)
    | _ => none

def mkEnv (fs : List (String × Bytes)) (getter : String) (sjOverride : Option (Option String)) : Env :=
  { secureJoin := fun root u => match sjOverride with
      | some r => r
      | none => secureJoinLex root u
    readFile := fun p => (fs.find? (fun e => e.1 == strHex p)).map (·.2)
    get := fun u => if getter == "ok" then some ("NET:".toUTF8.toList ++ (match u with
      | .derived s => s.toUTF8.toList
      | .verbatim loc => loc)) else none }

def modelRoot : String := "/efi"

def handleEndorse (f : Fields) : String :=
  let env := mkEnv (parseFs (f.get "fs")) (f.get "getter") none
  let prov : Option (Option (Option Tee)) :=
    match f.get "prov" with
    | "nil" => none
    | "fail" => some none
    | s => some (some (parseTee s))
  let o : Options :=
    { provider := prov
      hasGetter := f.get "getter" != "nil"
      manufacturer := f.bytes "mfr"
      eventLog := parseEventLog (f.get "el")
      reader := if f.bool "reader" then some modelRoot else none
      quote := parseTee (f.get "q")
      forceFetch := f.bool "force" }
  showRes (endorsement env o)

def handleReadVar (f : Fields) : String :=
  let sym := f.bool "sym"
  -- with symbolic links below the root the library's resolution is not modelled: the harness says
  -- what the resolved path holds and the path itself is not compared
  let fileAt : Option Bytes := if f.get "file" == "absent" then none else some (f.bytes "file")
  let env : Env := if sym then
      { secureJoin := fun root u => if f.get "file" == "sjerr" then none else (secureJoinLex root u).map (fun _ => "?")
        readFile := fun _ => fileAt
        get := fun _ => none }
    else mkEnv (parseFs (f.get "fs")) "nil" none
  let o : Options := { provider := none, hasGetter := false, manufacturer := [], eventLog := none,
                       reader := some modelRoot, quote := none, forceFetch := false }
  let r := locate env o ⟨[], Gen.Names.rimLocationVariable, f.bytes "loc"⟩
  -- error classes as far as they are observable from outside: was a path opened, and what was there
  let r' : Res := match r.out with
    | .err c => { r with out := .err (if c == "read" || c == "illformed" then c else "nopath") }
    | _ => r
  showRes r' (!sym)

def showEvent (tag : String) (e : Option Event3) : String :=
  match e with
  | none => s!" {tag}=undecodable"
  | some e => s!" {tag}g={hexEncode e.guid} {tag}t={e.rimLocatorType} {tag}l={hexEncode e.rimLocator} {tag}m={hexEncode e.firmwareManufacturerStr}" ++
      s!" {tag}pm={hexEncode e.platformManufacturerStr} {tag}id={e.platformManufacturerID}/{e.firmwareManufacturerID}" ++
      s!" {tag}mod={hexEncode e.platformModel} {tag}pv={hexEncode e.platformVersion} {tag}fv={hexEncode e.firmwareVersion}" ++
      s!" {tag}ct={e.platformCertLocatorType} {tag}cl={hexEncode e.platformCertLocator}"

def handleEvents (f : Fields) : String :=
  match makeEvents Sha384.sha384List utf8Bytes (f.bytes "rnd") (f.bytes "image") with
  | some [v, u] =>
    "ok var=" ++ hexEncode v ++ " uri=" ++ hexEncode u ++ showEvent "v" (parseEventData v) ++ showEvent "u" (parseEventData u)
  | _ => "err"

def handleParse (f : Fields) : String :=
  match parseEventData (f.bytes "data") with
  | none => "none"
  | some e => "ok" ++ showEvent "e" (some e)

def handleName (f : Fields) : String :=
  let m := f.bytes "meas"
  let obj := if f.get "tech" == "tdx" then tdxObjectName m else sevObjectName (f.get "fam") m
  "obj=" ++ strHex obj ++ " url=" ++ strHex (gceTcbURL obj)

def showUrls (us : List Url) : String := "urls=" ++ ";".intercalate (us.map showUrl)

def handle (f : Fields) : String :=
  match f.get "op" with
  | "name" => handleName f
  | "endorse" => handleEndorse f
  | "readvar" => handleReadVar f
  | "events" => handleEvents f
  | "parse" => handleParse f
  | "closure" =>
    let m : Option Bytes := if f.get "meas" == "nil" then none else some (f.bytes "meas")
    showUrls (closureFetch (f.get "fam") m (f.bool "ser") (f.bool "end") (f.bool "getter"))
  | "sevvalidate" =>
    showUrls (sevValidateFetch (f.bytes "meas") (f.bool "extra") (f.bool "getter"))
  | _ => "bad-op"

end GceTcb.Drive.C16
