import GceTcb.Base.Line
import GceTcb.Model.Policy
/- Shared line-protocol parsers for streams c02 and c17. -/
namespace GceTcb.Drive.PolicyLine
open GceTcb GceTcb.Policy

def hexB (s : String) : Bytes := (hexDecode s).getD []

def parseMeas (s : String) : List (Nat × Bytes) :=
  if s == "" then [] else
  (s.splitOn ",").filterMap fun kv =>
    match kv.splitOn "-" with
    | [k, v] => some (k.toNat?.getD 0, hexB v)
    | _ => none

/-- `none` or `policy/svn/meas/svsm/bundle` -/
def parseSev (s : String) : Option SevSnp :=
  match s.splitOn "/" with
  | [p, svn, m, svsm, b] => some ⟨p.toNat?.getD 0, svn.toNat?.getD 0, parseMeas m, hexB svsm, hexB b⟩
  | _ => none

def hexList (s : String) : List Bytes := if s == "" then [] else (s.splitOn ",").map hexB

/-- `none` or `policy/meas/minsvn/idkeys/authkeys` -/
def parseSevPolicy (s : String) : Option (SevPolicy Unit) :=
  match s.splitOn "/" with
  | [p, m, svn, ids, auths] => some ⟨p.toNat?.getD 0, hexB m, svn.toNat?.getD 0, hexList ids, hexList auths, ()⟩
  | _ => none

/-- pem facts: `in/type/bytes/rest;…`; anything else decodes to nil -/
def parsePem (s : String) : Pem :=
  let tbl : List (Bytes × String × Bytes × Bytes) :=
    if s == "" then [] else
    (s.splitOn ";").filterMap fun e =>
      match e.splitOn "/" with
      | [i, t, b, r] => some (hexB i, t, hexB b, hexB r)
      | _ => none
  fun inp => (tbl.find? (fun e => e.1 == inp)).map (·.2)

/-- rows `ram-ea-hex;…`, or `none` when the golden has no tdx section -/
def parseRows (s : String) : Option (List TdxRow) :=
  if s == "none" then none
  else if s == "" then some []
  else some ((s.splitOn ";").filterMap fun e =>
    match e.splitOn "-" with
    | [r, ea, m] => some ⟨r.toNat?.getD 0, ea == "1", hexB m⟩
    | _ => none)

/-- tdx base: `none` | `nobody` | `body/hex,hex` -/
def parseTdxBase (s : String) : Option (TdxPolicy Unit Unit) :=
  if s == "none" then none
  else if s == "nobody" then some ⟨none, ()⟩
  else match s.splitOn "/" with
    | [_, l] => some ⟨some ⟨hexList l, ()⟩, ()⟩
    | _ => some ⟨none, ()⟩

def showHexList (l : List Bytes) : String := ",".intercalate (l.map hexEncode)

def okrej (b : Bool) : String := if b then "ok" else "reject"

end GceTcb.Drive.PolicyLine
