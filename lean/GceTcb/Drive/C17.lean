import GceTcb.Base.Line
import GceTcb.Model.Policy
import GceTcb.Drive.PolicyLine
/- Driver handler for stream `c17` (policy derivation). -/
namespace GceTcb.Drive.C17
open GceTcb GceTcb.Policy GceTcb.Drive.PolicyLine

/-- the default policy SevPolicy builds without a base; its guest-policy value (computed by
    go-sev-guest's SnpPolicyToBytes) is observed from the implementation and passed as `dflt=` -/
def dfltSev (guestPolicy : Nat) : SevPolicy Unit := ⟨guestPolicy, [], 0, [], [], ()⟩

def handle (f : Fields) : String :=
  match f.get "op" with
  | "sev" =>
    let o : SevPolicyOptions Unit := ⟨parseSevPolicy (f.get "base"), f.nat "vmsas", f.bool "ow", f.bool "allow"⟩
    match sevPolicy (parsePem (f.get "pem")) (dfltSev (f.nat "dflt")) (parseSev (f.get "e")) o with
    | none => "reject"
    | some q => s!"ok policy={q.policy} meas={hexEncode q.measurement} minsvn={q.minimumGuestSvn} id={showHexList q.trustedIdKeys} auth={showHexList q.trustedAuthorKeys}"
  | "tdx" =>
    let o : TdxPolicyOptions Unit Unit := ⟨parseTdxBase (f.get "base"), f.int "ram", f.bool "ow"⟩
    match tdxPolicy () () (parseRows (f.get "rows")) o with
    | none => "reject"
    | some q => s!"ok mrtds={showHexList ((q.body.map (·.anyMrTd)).getD [])}"
  | _ => "bad-op"

end GceTcb.Drive.C17
