import GceTcb.Base.Line
import GceTcb.Model.PathAccess
/-
Driver handler for stream `c19` (field-path scanner, parser, evaluator, byte forms).

The driver is stateless, so every parse/eval/mask line carries the schema (`sch=`) the harness dumped
from the real protobuf descriptors; `op=schema` additionally echoes the parsed schema in canonical
form and evaluates `Schema.wf` on it, so that a schema the model misreads is a correspondence failure.

Encodings (no spaces):
  schema   msg|msg|…          msg = fullname!field;field;…    field = num:name:card:kind:ref
           card = o | l | m.<keykind>      kind = protoreflect.Kind names
  value    scalar  cls:payload   (payload decimal, or x<hex> for str/bytes)
           message {fullname|num~value|…}   list [v,v,…]   map <keycls|key~value|…>
  path     r:<root>/f:<num>:<name>/i:<n>/k:<cls>:<payload>
  mask     paths=p<hex>,p<hex>,…   (the `p` prefix lets the empty path be written)
-/
namespace GceTcb.Drive.C19
open GceTcb GceTcb.Path

def toStr (s : String) : Str := s.toUTF8.toList.map UInt8.toNat
def ofStr (s : Str) : String := String.ofList (s.map Char.ofNat)
def hexOf (s : Str) : String := hexEncode (s.map UInt8.ofNat)
def unhex (s : String) : Option Str := (hexDecode s).map (fun b => b.map UInt8.toNat)

def kindNames : List (String × Kind) := [
  ("bool", .bool), ("enum", .enum), ("int32", .int32), ("sint32", .sint32), ("uint32", .uint32),
  ("int64", .int64), ("sint64", .sint64), ("uint64", .uint64), ("sfixed32", .sfixed32),
  ("fixed32", .fixed32), ("float", .float), ("sfixed64", .sfixed64), ("fixed64", .fixed64),
  ("double", .double), ("string", .string), ("bytes", .bytes), ("message", .message), ("group", .group)]

def parseKind (s : String) : Option Kind := (kindNames.find? (fun p => p.1 == s)).map (·.2)
def showKind (k : Kind) : String := ((kindNames.find? (fun p => p.2 == k)).map (·.1)).getD "?"

def clsNames : List (String × VClass) := [
  ("bool", .bool), ("i32", .i32), ("i64", .i64), ("u32", .u32), ("u64", .u64), ("f32", .f32),
  ("f64", .f64), ("str", .str), ("bytes", .bytes), ("enum", .enum)]

def parseCls (s : String) : Option VClass := (clsNames.find? (fun p => p.1 == s)).map (·.2)
def showCls (c : VClass) : String := ((clsNames.find? (fun p => p.2 == c)).map (·.1)).getD "?"

/-! ### schema -/

def parseCard (s : String) : Option Card :=
  if s == "o" then some .single
  else if s == "l" then some .list
  else match s.splitOn "." with
    | ["m", k] => (parseKind k).map Card.map
    | _ => none

def showCard : Card → String
  | .single => "o"
  | .list => "l"
  | .map k => "m." ++ showKind k

def parseField (parent : Str) (s : String) : Option Field :=
  match s.splitOn ":" with
  | [num, name, card, kind, ref] => do
    let n ← num.toNat?
    let c ← parseCard card
    let k ← parseKind kind
    pure { number := n, name := toStr name, card := c, kind := k, ref := toStr ref, parent := parent }
  | _ => none

def parseMsgDesc (s : String) : Option MsgDesc :=
  match s.splitOn "!" with
  | [name, fields] => do
    let fs ← (if fields == "" then some [] else (fields.splitOn ";").mapM (parseField (toStr name)))
    pure { name := toStr name, fields := fs }
  | _ => none

def parseSchema (s : String) : Option Schema :=
  if s == "" then some [] else (s.splitOn "|").mapM parseMsgDesc

def showField (f : Field) : String :=
  s!"{f.number}:{ofStr f.name}:{showCard f.card}:{showKind f.kind}:{ofStr f.ref}"

def showMsgDesc (m : MsgDesc) : String :=
  ofStr m.name ++ "!" ++ ";".intercalate (m.fields.map showField)

def showSchema (s : Schema) : String := "|".intercalate (s.map showMsgDesc)

/-! ### values -/

def showPayload (s : Scalar) : String :=
  match s.cls with
  | .str | .bytes => "x" ++ hexOf s.str
  | _ => toString s.num

def showScalar (s : Scalar) : String := showCls s.cls ++ ":" ++ showPayload s

partial def showValue : Value → String
  | .scalar s => showScalar s
  | .msg ty fs => "{" ++ ofStr ty ++ String.join (fs.map (fun p => s!"|{p.1}~{showValue p.2}")) ++ "}"
  | .list xs => "[" ++ ",".intercalate (xs.map showValue) ++ "]"
  | .map kc es => "<" ++ showCls kc ++ String.join (es.map (fun p => s!"|{showScalar p.1}~{showValue p.2}")) ++ ">"

def isWordChar (c : Char) : Bool := c.isAlphanum || c == '.' || c == '_' || c == '-'

def takeWord (cs : List Char) : String × List Char :=
  (String.ofList (cs.takeWhile isWordChar), cs.dropWhile isWordChar)

def mkScalar (cls : String) (payload : String) : Option Scalar := do
  let c ← parseCls cls
  match c with
  | .str | .bytes =>
    if payload.startsWith "x" then do
      let b ← unhex (payload.drop 1).toString
      pure ⟨c, 0, b⟩
    else none
  | _ => do
    let n ← payload.toInt?
    pure ⟨c, n, []⟩

/-- scalar := word ':' word -/
def parseScalar (cs : List Char) : Option (Scalar × List Char) :=
  let (cls, r1) := takeWord cs
  match r1 with
  | ':' :: r2 =>
    let (pl, r3) := takeWord r2
    (mkScalar cls pl).map (fun s => (s, r3))
  | _ => none

mutual
partial def parseValue (cs : List Char) : Option (Value × List Char) :=
  match cs with
  | '{' :: r =>
    let (name, r1) := takeWord r
    (parseMsgFields r1 []).map (fun p => (.msg (toStr name) p.1, p.2))
  | '[' :: ']' :: r => some (.list [], r)
  | '[' :: r => (parseListElems r []).map (fun p => (.list p.1, p.2))
  | '<' :: r =>
    let (cls, r1) := takeWord r
    match parseCls cls with
    | none => none
    | some kc => (parseMapEntries r1 []).map (fun p => (.map kc p.1, p.2))
  | _ => (parseScalar cs).map (fun p => (.scalar p.1, p.2))

partial def parseMsgFields (cs : List Char) (acc : List (Nat × Value)) : Option (List (Nat × Value) × List Char) :=
  match cs with
  | '}' :: r => some (acc.reverse, r)
  | '|' :: r =>
    let (num, r1) := takeWord r
    match num.toNat?, r1 with
    | some n, '~' :: r2 =>
      match parseValue r2 with
      | some (v, r3) => parseMsgFields r3 ((n, v) :: acc)
      | none => none
    | _, _ => none
  | _ => none

partial def parseListElems (cs : List Char) (acc : List Value) : Option (List Value × List Char) :=
  match parseValue cs with
  | some (v, ',' :: r) => parseListElems r (v :: acc)
  | some (v, ']' :: r) => some ((v :: acc).reverse, r)
  | _ => none

partial def parseMapEntries (cs : List Char) (acc : List (Scalar × Value)) :
    Option (List (Scalar × Value) × List Char) :=
  match cs with
  | '>' :: r => some (acc.reverse, r)
  | '|' :: r =>
    match parseScalar r with
    | some (k, '~' :: r2) =>
      match parseValue r2 with
      | some (v, r3) => parseMapEntries r3 ((k, v) :: acc)
      | none => none
    | _ => none
  | _ => none
end

def parseValueAll (s : String) : Option Value :=
  match parseValue s.toList with
  | some (v, []) => some v
  | _ => none

/-! ### paths and tokens -/

def showStep : Step → String
  | .root n => "r:" ++ ofStr n
  | .field fd => s!"f:{fd.number}:{ofStr fd.name}"
  | .listIndex i => s!"i:{i}"
  | .mapIndex k => "k:" ++ showScalar k
  | .anyExpand n => "a:" ++ ofStr n
  | .unknown => "u"

def showPath (p : List Step) : String := "/".intercalate (p.map showStep)

def tokKindNum : TokKind → Nat
  | .ident => 0 | .intlit => 1 | .strlit => 2 | .dot => 3 | .oparen => 4 | .cparen => 5
  | .obrack => 6 | .cbrack => 7 | .illegal => 8 | .eof => 9

def showTok (p : Token × Nat) : String :=
  let t := p.1
  let text := match t.kind with
    | .ident | .intlit | .strlit => hexOf t.text
    | _ => ""
  s!"{tokKindNum t.kind}:{t.pos}:{p.2}:{text}"

def parseForm (s : String) : Option BytesForm :=
  match s with
  | "raw" => some .raw
  | "hex" => some .hex
  | "guid" => some .hexGuidify
  | "base64" => some .base64
  | "auto" => some .auto
  | _ => none

def outcomeTag {α : Type} : Outcome α → String
  | .ok _ => "ok"
  | .err _ => "reject"
  | .panic s => "panic=" ++ s

def handle (f : Fields) : String :=
  match f.get "op" with
  | "schema" =>
    match parseSchema (f.get "sch") with
    | none => "bad-schema"
    | some sch =>
      let nf := (sch.map (fun m => m.fields.length)).foldl (· + ·) 0
      s!"ok wf={if sch.wf then 1 else 0} msgs={sch.length} fields={nf} echo={showSchema sch}"
  | "scan" =>
    match unhex (f.get "path") with
    | none => "bad-op"
    | some buf =>
      match scanAll buf (buf.length + 2) 0 [] with
      | .ok toks => "ok toks=" ++ ",".intercalate (toks.map showTok)
      | r => outcomeTag r
  | "parse" =>
    match parseSchema (f.get "sch"), unhex (f.get "path") with
    | some sch, some path =>
      match parsePath sch (toStr (f.get "root")) path with
      | .ok p => "ok path=" ++ showPath p
      | r => outcomeTag r
    | _, _ => "bad-op"
  | "eval" =>
    match parseSchema (f.get "sch"), unhex (f.get "path"), parseValueAll (f.get "msg") with
    | some sch, some path, some v =>
      let root := toStr (f.get "root")
      let typed := s!"typed={if typedB sch root v then 1 else 0} "
      match parsePath sch root path with
      | .ok p =>
        let r := pathValues sch p v
        let w := walk p v
        let same : Bool := match r, w with
          | .ok a, .ok b => a.map showValue == b.map showValue
          | .err a, .err b => a == b
          | _, _ => false
        let spec := s!" spec={if same then 1 else 0}"
        match r with
        | .ok vs => typed ++ s!"ok n={vs.length} v={(vs.getLast?.map showValue).getD "none"}" ++ spec
        | .err _ => typed ++ "reject" ++ spec
        | .panic s => typed ++ "panic=" ++ s ++ spec
      | .err _ => typed ++ "reject-parse"
      | .panic s => typed ++ "panic=" ++ s
    | _, _, _ => "bad-op"
  | "bytes" =>
    match parseForm (f.get "form"), unhex (f.get "b") with
    | some form, some b => "ok out=" ++ hexOf (writeBytesForm b form (f.bool "term"))
    | _, _ => "bad-op"
  | "mask" =>
    match parseSchema (f.get "sch"), parseValueAll (f.get "msg"), parseForm (f.get "form"),
        (f.list "paths").mapM (fun s => if s.startsWith "p" then unhex (s.drop 1).toString else none) with
    | some sch, some v, some form, some paths =>
      match maskPaths sch (toStr (f.get "root")) v form (f.bool "term") paths 0 (some []) with
      | .ok (some out) => "ok out=" ++ hexOf out
      | .ok none => "unmodelled"
      | r => outcomeTag r
    | _, _, _, _ => "bad-op"
  | _ => "bad-op"

end GceTcb.Drive.C19
