import GceTcb.Base.Line
import GceTcb.Model.KeyHistory
import GceTcb.Model.KeyHistoryKms
/-
Driver handler for streams `c12` (key-management histories) and `c12kms` (the same on the Cloud KMS manager).

  c12 op=hist ca=memca|gcsca km=memkm|localkm seq=0|1 cli=0|1 cmds=<cmd>;<cmd>;…
      cmd = b:<ow><kg>:<rootCn>:<signCn>:<rootSerial>:<signSerial>:<now>
          | r:<ow><kg>:<cn>:<serial override, 0 = none>:<now>
          | w:<ow><kg>:<ca><keys>
    → the observation after the LAST command of the list:
      ok=<0|1> pr=<name> ps=<name> root=<cert|-> ents=<name>@<cert|->,… live=<name>,…
      cert = certSerial/subjSerial/cn/issuerCn/issuerSerial/isCA/keyUsage/sigAlg/notBefore/notAfter/
             self/vr/ir/km   (self: verifies under its own key; vr: verifies under the served root's key;
             ir: issuer name = served root's subject; km: the live key of that name is the subject key 1/0, x = not live)
  c12 op=bump s=<name>  → memkm.BumpName(name)
  c12 op=khist ring=<key ring resource name> rk=<root cryptoKey id> sk=<signing cryptoKey id> cmds=<cmd>;…
      cmd = b:<ow><kg>:<rootCn>:<signCn>:<rootSerial>:<signSerial>:<now>:<gen>:<deadline>:<wr><ws>
          | r:<ow><kg>:<cn>:<serial override, 0 = none>:<now>:<gen>:<deadline>
          | w:<ow><kg>:<ca><keys>
          | x:settle | x:disable:<cryptoKey id>:<version> | x:expire
      (gen, deadline: the Cloud KMS environment of the command — gen = cE / cD: CreateCryptoKeyVersion creates
       versions directly ENABLED / DISABLED —; wr / ws: whether the object named after the
       root / signing certificate of a FAILED bootstrap changed — they select the order in which gcsca.Finalize
       visited its Go map of certificates when the two orders differ)
    → ok=… pr=… ps=… root=… ents=… live=<names that can sign> vers=<id>:<n><E|P<gen>|D|S|X>,…;<id>:…
-/
namespace GceTcb.Drive.C12
open GceTcb GceTcb.KeyHistory

def b01 (b : Bool) : String := if b then "1" else "0"

def nameStr (k : KName) : String := if k.show == "" then "-" else k.show

def parseFlags (s : String) : Flags :=
  match s.toList with
  | [o, k] => ⟨o == '1', k == '1'⟩
  | _ => ⟨false, false⟩

def parseCmd (s : String) : Option Cmd :=
  match s.splitOn ":" with
  | ["b", fl, rcn, scn, rs, ss, now] =>
    some (.bootstrap (parseFlags fl) ⟨rcn, scn, rs.toNat?.getD 0, ss.toNat?.getD 0, now.toNat?.getD 0⟩)
  | ["r", fl, cn, ser, now] =>
    let n := ser.toNat?.getD 0
    some (.rotate (parseFlags fl) ⟨cn, if n = 0 then none else some n, now.toNat?.getD 0⟩)
  | ["w", fl, ck] =>
    match ck.toList with
    | [c, k] => some (.wipeout (parseFlags fl) (c == '1') (k == '1'))
    | _ => none
  | _ => none

def showCert (cfg : Cfg) (s : State) (n : KName) (c : Cert) : String :=
  let self := c.signerKey == c.subjectKey
  let (vr, ir) := match bundle cfg s.ca with
    | some r => (c.signerKey == r.subjectKey, c.issuerCn == r.cn && c.issuerSerial == r.subjSerial)
    | none => (false, false)
  let km := match get s.km.live n with
    | some k => b01 (k == c.subjectKey)
    | none => "x"
  "/".intercalate [toString c.certSerial, toString c.subjSerial, c.cn, c.issuerCn, toString c.issuerSerial,
    b01 c.isCA, toString c.keyUsage, toString c.sigAlg, toString c.notBefore, toString c.notAfter,
    b01 self, b01 vr, b01 ir, km]

def insertSorted (x : String) : List String → List String
  | [] => [x]
  | y :: ys => if x ≤ y then x :: y :: ys else y :: insertSorted x ys

def sortStrings (l : List String) : List String := l.foldr insertSorted []

def observe (cfg : Cfg) (s : State) (ok : Bool) : String :=
  let root := match bundle cfg s.ca with
    | some r => showCert cfg s s.ca.primaryRoot r
    | none => "-"
  let ents := sortStrings (s.ca.entries.map fun (n, p) =>
    nameStr n ++ "@" ++ (match get s.ca.objects p with | some c => showCert cfg s n c | none => "-"))
  let live := sortStrings (s.km.live.map fun (n, _) => nameStr n)
  s!"ok={b01 ok} pr={nameStr s.ca.primaryRoot} ps={nameStr s.ca.primarySigning} root={root} ents={",".intercalate ents} live={",".intercalate live}"

def runObs (cfg : Cfg) : State → Bool → List Cmd → State × Bool
  | s, ok, [] => (s, ok)
  | s, _, c :: rest => runObs cfg (step cfg s c).1 (step cfg s c).2 rest

/-! ### Cloud KMS manager -/

open GceTcb.KeyHistory.KmsH in
def kname (ring : String) (n : KName) : String :=
  if n == noName then "-" else GceTcb.CA.verName (ring ++ "/cryptoKeys/" ++ n.base) n.idx

open GceTcb.KeyHistory.KmsH in
/-- the `<gen>:<deadline>` slots of a command: a countdown, or `cE` / `cD` = CreateCryptoKeyVersion creates
    versions ENABLED / DISABLED (and its response says so) -/
def parseEnv (gen dl : String) : Env :=
  match gen with
  | "cE" => { gen := 0, deadline := dl == "1", created := some .enabled }
  | "cD" => { gen := 0, deadline := dl == "1", created := some .disabled }
  | _ => { gen := gen.toNat?.getD 0, deadline := dl == "1" }

open GceTcb.KeyHistory.KmsH in
def parseKCmd (s : String) : Option (KCmd × Bool × Bool) :=
  match s.splitOn ":" with
  | ["b", fl, rcn, scn, rs, ss, now, gen, dl, w] =>
    match w.toList with
    | [wr, ws] =>
      some (.bootstrap (parseFlags fl) ⟨rcn, scn, rs.toNat?.getD 0, ss.toNat?.getD 0, now.toNat?.getD 0⟩
        (parseEnv gen dl) false, wr == '1', ws == '1')
    | _ => none
  | ["r", fl, cn, ser, now, gen, dl] =>
    let n := ser.toNat?.getD 0
    some (.rotate (parseFlags fl) ⟨cn, if n = 0 then none else some n, now.toNat?.getD 0⟩ (parseEnv gen dl),
      false, false)
  | ["w", fl, ck] =>
    match ck.toList with
    | [c, k] => some (.wipeout (parseFlags fl) (c == '1') (k == '1'), false, false)
    | _ => none
  | ["x", "settle"] => some (.ext .settle, false, false)
  | ["x", "expire"] => some (.ext .expire, false, false)
  | ["x", "disable", k, i] => some (.ext (.disable ⟨k, i.toNat?.getD 0⟩), false, false)
  | _ => none

open GceTcb.KeyHistory.KmsH in
/-- One command; for a bootstrap the visiting order of Finalize's certificate map is the one that agrees with
    the observed object changes (root first when both or neither do). -/
def kStepObs (cfg : KCfg) (s : KState) (c : KCmd) (wr ws : Bool) : KState × Bool :=
  match c with
  | .bootstrap f a e _ =>
    let r0 := kBootstrap cfg f a e false s
    if r0.2 then r0
    else
      let pr := ObjKey.byCert a.rootCn a.rootSerial
      let ps := ObjKey.byCert a.signCn a.signSerial
      let wr0 := get r0.1.ca.objects pr != get s.ca.objects pr
      let ws0 := get r0.1.ca.objects ps != get s.ca.objects ps
      if wr0 == wr && ws0 == ws then r0 else kBootstrap cfg f a e true s
  | c => kStep cfg s c

open GceTcb.KeyHistory.KmsH in
def kRunObs (cfg : KCfg) : KState → Bool → List (KCmd × Bool × Bool) → KState × Bool
  | s, ok, [] => (s, ok)
  | s, _, (c, wr, ws) :: rest => kRunObs cfg (kStepObs cfg s c wr ws).1 (kStepObs cfg s c wr ws).2 rest

open GceTcb.KeyHistory.KmsH in
def showCertK (_ring : String) (s : KState) (n : KName) (c : Cert) : String :=
  let self := c.signerKey == c.subjectKey
  let (vr, ir) := match bundle caCfg s.ca with
    | some r => (c.signerKey == r.subjectKey, c.issuerCn == r.cn && c.issuerSerial == r.subjSerial)
    | none => (false, false)
  let km := match s.svc.signer? n with
    | some k => b01 (k == c.subjectKey)
    | none => "x"
  "/".intercalate [toString c.certSerial, toString c.subjSerial, c.cn, c.issuerCn, toString c.issuerSerial,
    b01 c.isCA, toString c.keyUsage, toString c.sigAlg, toString c.notBefore, toString c.notAfter,
    b01 self, b01 vr, b01 ir, km]

open GceTcb.KeyHistory.KmsH in
def stLetter : VSt → String
  | .pending g => s!"P{g}"
  | .enabled => "E"
  | .disabled => "D"
  | .scheduled => "S"
  | .destroyed => "X"

open GceTcb.KeyHistory.KmsH in
def observeK (ring : String) (s : KState) (ok : Bool) : String :=
  let root := match bundle caCfg s.ca with
    | some r => showCertK ring s s.ca.primaryRoot r
    | none => "-"
  let ents := sortStrings (s.ca.entries.map fun (n, p) =>
    kname ring n ++ "@" ++ (match get s.ca.objects p with | some c => showCertK ring s n c | none => "-"))
  let live := sortStrings (s.svc.live.map (kname ring))
  let vers := s.svc.keys.map fun k =>
    k ++ ":" ++ ",".intercalate ((List.range (s.svc.count k)).map fun i => s!"{i + 1}{stLetter (s.svc.ver ⟨k, i + 1⟩).st}")
  s!"ok={b01 ok} pr={kname ring s.ca.primaryRoot} ps={kname ring s.ca.primarySigning} root={root} ents={",".intercalate ents} live={",".intercalate live} vers={";".intercalate vers}"

def handle (f : Fields) : String :=
  match f.get "op" with
  | "khist" =>
    let cfg : KmsH.KCfg := ⟨f.get "rk", f.get "sk"⟩
    let raw := if f.get "cmds" == "" then [] else (f.get "cmds").splitOn ";"
    let cmds := raw.filterMap parseKCmd
    if cmds.length ≠ raw.length then "bad-op"
    else
      let (s, ok) := kRunObs cfg KmsH.KState.init true cmds
      observeK (f.get "ring") s ok
  | "hist" =>
    let cfg : Cfg := ⟨if f.get "ca" == "memca" then .memca else .gcsca,
                      if f.get "km" == "localkm" then .localkm else .memkm,
                      f.bool "seq", f.bool "cli", true⟩
    let raw := if f.get "cmds" == "" then [] else (f.get "cmds").splitOn ";"
    let cmds := raw.filterMap parseCmd
    if cmds.length ≠ raw.length then "bad-op"
    else
      let (s, ok) := runObs cfg State.init true cmds
      observe cfg s ok
  | "bump" => bumpNameStr (f.get "s")
  | "consts" =>
    s!"seq={b01 Gen.CertConsts.rotateSequential}"
  | _ => "bad-op"

end GceTcb.Drive.C12
