import GceTcb.Base.Line
/- Driver handler for stream `c12` (stub: replaced when the property's model lands). -/
namespace GceTcb.Drive.C12
open GceTcb

def handle (_f : Fields) : String := "unimplemented"

end GceTcb.Drive.C12
