import GceTcb.Base.Line
import GceTcb.Model.KeyHistory
/-
Driver handler for stream `c12` (key-management histories).

  c12 op=hist ca=memca|gcsca km=memkm|localkm seq=0|1 cli=0|1 cmds=<cmd>;<cmd>;…
      cmd = b:<ow><kg>:<rootCn>:<signCn>:<rootSerial>:<signSerial>:<now>
          | r:<ow><kg>:<cn>:<serial override, 0 = none>:<now>
          | w:<ow><kg>:<ca><keys>
    → the observation after the LAST command of the list:
      ok=<0|1> pr=<name> ps=<name> root=<cert|-> ents=<name>@<cert|->,… live=<name>,…
      cert = certSerial/subjSerial/cn/issuerCn/issuerSerial/isCA/keyUsage/sigAlg/notBefore/notAfter/
             self/vr/ir/km   (self: verifies under its own key; vr: verifies under the served root's key;
             ir: issuer name = served root's subject; km: the live key of that name is the subject key 1/0, x = not live)
  c12 op=bump s=<name>  → memkm.BumpName(name)
-/
namespace GceTcb.Drive.C12
open GceTcb GceTcb.KeyHistory

def b01 (b : Bool) : String := if b then "1" else "0"

def nameStr (k : KName) : String := if k.show == "" then "-" else k.show

def parseFlags (s : String) : Flags :=
  match s.toList with
  | [o, k] => ⟨o == '1', k == '1'⟩
  | _ => ⟨false, false⟩

def parseCmd (s : String) : Option Cmd :=
  match s.splitOn ":" with
  | ["b", fl, rcn, scn, rs, ss, now] =>
    some (.bootstrap (parseFlags fl) ⟨rcn, scn, rs.toNat?.getD 0, ss.toNat?.getD 0, now.toNat?.getD 0⟩)
  | ["r", fl, cn, ser, now] =>
    let n := ser.toNat?.getD 0
    some (.rotate (parseFlags fl) ⟨cn, if n = 0 then none else some n, now.toNat?.getD 0⟩)
  | ["w", fl, ck] =>
    match ck.toList with
    | [c, k] => some (.wipeout (parseFlags fl) (c == '1') (k == '1'))
    | _ => none
  | _ => none

def showCert (cfg : Cfg) (s : State) (n : KName) (c : Cert) : String :=
  let self := c.signerKey == c.subjectKey
  let (vr, ir) := match bundle cfg s.ca with
    | some r => (c.signerKey == r.subjectKey, c.issuerCn == r.cn && c.issuerSerial == r.subjSerial)
    | none => (false, false)
  let km := match get s.km.live n with
    | some k => b01 (k == c.subjectKey)
    | none => "x"
  "/".intercalate [toString c.certSerial, toString c.subjSerial, c.cn, c.issuerCn, toString c.issuerSerial,
    b01 c.isCA, toString c.keyUsage, toString c.sigAlg, toString c.notBefore, toString c.notAfter,
    b01 self, b01 vr, b01 ir, km]

def insertSorted (x : String) : List String → List String
  | [] => [x]
  | y :: ys => if x ≤ y then x :: y :: ys else y :: insertSorted x ys

def sortStrings (l : List String) : List String := l.foldr insertSorted []

def observe (cfg : Cfg) (s : State) (ok : Bool) : String :=
  let root := match bundle cfg s.ca with
    | some r => showCert cfg s s.ca.primaryRoot r
    | none => "-"
  let ents := sortStrings (s.ca.entries.map fun (n, p) =>
    nameStr n ++ "@" ++ (match get s.ca.objects p with | some c => showCert cfg s n c | none => "-"))
  let live := sortStrings (s.km.live.map fun (n, _) => nameStr n)
  s!"ok={b01 ok} pr={nameStr s.ca.primaryRoot} ps={nameStr s.ca.primarySigning} root={root} ents={",".intercalate ents} live={",".intercalate live}"

def runObs (cfg : Cfg) : State → Bool → List Cmd → State × Bool
  | s, ok, [] => (s, ok)
  | s, _, c :: rest => runObs cfg (step cfg s c).1 (step cfg s c).2 rest

def handle (f : Fields) : String :=
  match f.get "op" with
  | "hist" =>
    let cfg : Cfg := ⟨if f.get "ca" == "memca" then .memca else .gcsca,
                      if f.get "km" == "localkm" then .localkm else .memkm,
                      f.bool "seq", f.bool "cli", true⟩
    let raw := if f.get "cmds" == "" then [] else (f.get "cmds").splitOn ";"
    let cmds := raw.filterMap parseCmd
    if cmds.length ≠ raw.length then "bad-op"
    else
      let (s, ok) := runObs cfg State.init true cmds
      observe cfg s ok
  | "bump" => bumpNameStr (f.get "s")
  | "consts" =>
    s!"seq={b01 Gen.CertConsts.rotateSequential}"
  | _ => "bad-op"

end GceTcb.Drive.C12
