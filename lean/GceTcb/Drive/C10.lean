import GceTcb.Base.Line
import GceTcb.Model.RotateKms
/- Driver handler for stream `c10` (fault-scripted key rotation). -/
namespace GceTcb.Drive.C10
open GceTcb GceTcb.CA

def insertSorted (x : String) : List String → List String
  | [] => [x]
  | y :: ys => if x = y then y :: ys else if x < y then x :: y :: ys else y :: insertSorted x ys

/-- sorted, duplicates removed -/
def sortU (l : List String) : List String := l.foldr insertSorted []

def showCall : Call → String
  | .kmCreate => "km.create"
  | .kmDestroy k => "km.destroy." ++ k
  | .caPsk => "ca.psk"
  | .caPrk => "ca.prk"
  | .caBundle => "ca.bundle"
  | .caCert k => "ca.cert." ++ k
  | .caFin => "ca.fin"
  | .sgPub k => "sg.pub." ++ k
  | .sgSign k => "sg.sign." ++ k
  | .stR o => "st.r." ++ o
  | .stE o => "st.e." ++ o
  | .stW o => "st.w." ++ o
  | .stWr o => "st.wr." ++ o
  | .stC o => "st.c." ++ o
  | .kmsCreate => "kms.create"
  | .kmsGet k => "kms.get." ++ k
  | .kmsPub k => "kms.pub." ++ k
  | .kmsSign k => "kms.sign." ++ k
  | .kmsDestroy k => "kms.destroy." ++ k

def showFault : Fault → String
  | .ok => ""
  | .fail => "!"
  | .crash => "#"

def showLog (l : List (Call × Fault)) : String :=
  ",".intercalate (l.map fun p => showCall p.1 ++ showFault p.2)

def liveNames (s : St) : List String :=
  (sortU (s.keys.map (·.1))).filter fun n => (lookup s.keys n).isSome

def subjectOf (s : St) (c : Cert) : String :=
  match (liveNames s).find? (fun n => lookup s.keys n == some c.pub) with
  | some n => n
  | none => "-"

def b2s (b : Bool) : String := if b then "1" else "0"

def showState (cfg : Cfg) (s : St) : String :=
  let live := ",".intercalate (liveNames s)
  match cfg.ca with
  | .memca =>
    let names := sortU (s.memCerts.map (·.1))
    let root := lookup s.memCerts s.memRoot
    let chains := fun (c : Cert) => match root with
      | some r => decide (c.sigBy = r.pub)
      | none => false
    let ents := names.map fun n => n ++ ">" ++ n
    let objs := names.filterMap fun n => (lookup s.memCerts n).map fun c =>
      n ++ "~d~" ++ subjectOf s c ++ "~" ++ b2s (chains c)
    s!"live={live} man={s.memRoot}|{s.memPrimary}|{",".intercalate ents} objs={",".intercalate objs}"
  | .gcsca =>
    let man := match lookup s.store manifestName with
      | none => "none"
      | some (.manifest m) =>
        m.root ++ "|" ++ m.signing ++ "|" ++ ",".intercalate (m.entries.map fun (e : String × String) => e.1 ++ ">" ++ e.2)
      | some _ => "bad"
    let root := match lookup s.store cfg.rootPath with
      | some (.pem r) => some r
      | _ => none
    let chains := fun (c : Cert) => match root with
      | some r => decide (c.sigBy = r.pub)
      | none => false
    let paths := (sortU (s.store.map (·.1))).filter (· ≠ manifestName)
    let objs := paths.filterMap fun p => (lookup s.store p).map fun o =>
      match o with
      | .der c => p ++ "~d~" ++ subjectOf s c ++ "~" ++ b2s (chains c)
      | .pem c => p ++ "~p~" ++ subjectOf s c ++ "~" ++ b2s (chains c)
      | .manifest _ => p ++ "~x~-~0"
    s!"live={live} man={man} objs={",".intercalate objs}"

def parseScript (str : String) : Nat → Fault :=
  let items : List (Nat × Fault) := if str == "-" || str == "" then [] else
    (str.splitOn ",").filterMap fun t =>
      let cs := t.toList
      match cs.getLast? with
      | some 'f' => (String.ofList cs.dropLast).toNat?.map fun n => (n, Fault.fail)
      | some 'c' => (String.ofList cs.dropLast).toNat?.map fun n => (n, Fault.crash)
      | _ => none
  fun n => match items.find? (fun p => p.1 == n) with
    | some p => p.2
    | none => .ok

def mkCfg (f : Fields) (overwrite : Bool) : Cfg :=
  let pk := (f.get "pk").splitOn ","
  { ca := if f.get "ca" == "memca" then .memca else .gcsca
    km := if f.get "km" == "localkm" then .localkm else .memkm
    rootPath := "root.crt"
    certDir := "certs/"
    bump := bumpName
    pubPre := (pk.getD 0 "0").toNat?.getD 0
    pubPost := (pk.getD 1 "0").toNat?.getD 0
    overwrite := overwrite }

/-- bootstrapped state followed by `hist` fault-free rotations (serials 3, 4, …), reloaded -/
def initialState (cfg : Cfg) (hist : Nat) : St :=
  let cfg0 := { cfg with overwrite := false, km := .memkm }
  let s0 := (bootstrap cfg0 "root" "sk" ⟨"rootcn", 1⟩ ⟨"sigcn", 2⟩ false noFault St.init).state.reload
  (List.range hist).foldl (fun s i => (rotateKey cfg0 ⟨"sig", 3 + i⟩ noFault s).state.reload) s0

def showKState : KState → String
  | .pending n => "P" ++ toString n
  | .disabled => "D"
  | .scheduled => "S"
  | .destroyed => "X"
  | .genFailed => "F"

/-- states of the versions 1..kcount of the signing cryptoKey, in creation order -/
def showVers (parent : String) (s : St) : String :=
  let items := (List.range s.kcount).map fun i =>
    let n := verName parent (i + 1)
    let st := match lookup s.keys n with
      | some _ => "E"
      | none => match lookup s.kdead n with
        | some k => showKState k
        | none => "?"
    toString (i + 1) ++ ":" ++ st
  "vers=" ++ ",".intercalate items

def parseKState (str : String) : Option KState :=
  match str with
  | "D" => some .disabled
  | "S" => some .scheduled
  | "X" => some .destroyed
  | "F" => some .genFailed
  | _ => none

/-- `imm=1`: the service creates the version directly in its final state (`final=-`: ENABLED, `D`: DISABLED with
    key material — GetPublicKey answers —, `F`: GENERATION_FAILED) and the response reports that state -/
def createdOf (imm : Bool) (final : Option KState) : KInit :=
  if imm then
    match final with
    | none => .enabled
    | some .disabled => .disabled
    | some .genFailed => .genFailed
    | some _ => .pending
  else .pending

/-- key material GetPublicKey reports for a version that was created DISABLED (no ENABLED version has it) -/
def disabledMaterial : Nat := 1000000

/-- `resp=`: the state the response of CreateCryptoKeyVersion reports when it is not the created state -/
def parseResp (str : String) : Option KObs :=
  match str with
  | "E" => some .enabled
  | "P" => some .pending
  | "D" => some .other
  | "F" => some .other
  | _ => none

def kmsEnvOf (f : Fields) (parent : String) : KmsEnv :=
  let final := parseKState (f.get "final")
  let imm := f.bool "imm"
  { parent := parent, gen := f.nat "gen", final := final,
    deadline := f.bool "dl", corrupt := f.get "cor" != "-" && f.get "cor" != "",
    created := createdOf imm final, resp := parseResp (f.get "resp"), pubDisabled := if imm then some disabledMaterial else none }

/-- rotate.Bootstrap on the Cloud KMS stack (fault-free: root cryptoKey version 1, signing cryptoKey
    version 1), followed by `hist` fault-free rotations (serials 3, 4, …), reloaded -/
def initialStateKms (cfg : Cfg) (parent rootKey : String) (perm : Bool) (hist : Nat) : St :=
  let cfg0 := { cfg with overwrite := false }
  let s0 := (bootstrap cfg0 rootKey (verName parent 1) ⟨"rootcn", 1⟩ ⟨"sigcn", 2⟩ perm noFault St.init).state.reload
  let s0 := { s0 with kcount := 1 }
  (List.range hist).foldl (fun s i => (rotateKeyKms cfg0 { parent := parent } ⟨"sig", 3 + i⟩ noFault s).state.reload) s0

def showRes : Res String → String
  | .ok k _ => "ok." ++ k
  | .err _ => "err"
  | .crash _ => "crash"

def handle (f : Fields) : String :=
  match f.get "op" with
  | "rot" | "rotold" =>
    let cfg := mkCfg f (f.bool "ow")
    let s0 := initialState cfg (f.nat "hist")
    let run := if f.get "op" == "rot" then rotateKey else rotateKeyOld
    let r1 := run cfg ⟨f.get "cn", f.nat "serial"⟩ (parseScript (f.get "script")) s0
    let s1 := r1.state
    let s1' := s1.reload
    let r2 := run { cfg with overwrite := true } ⟨f.get "cn", f.nat "rserial"⟩ noFault s1'
    let s2 := r2.state
    s!"log={showLog s1.log} res={showRes r1} {showState cfg s1'} rlog={showLog s2.log} retry={showRes r2} {showState cfg s2.reload}"
  | "rotk" =>
    -- the Cloud KMS stack: gcpkms manager + gcpkms signer + gcsca
    let cfg := mkCfg f (f.bool "ow")
    let parent := f.get "parent"
    let env := kmsEnvOf f parent
    let s0 := initialStateKms cfg parent (f.get "rootkey") (f.bool "perm") (f.nat "hist")
    let run := if f.get "order" == "early" then rotateKeyKmsEarlyDestroy else rotateKeyKms
    let r1 := run cfg env ⟨f.get "cn", f.nat "serial"⟩ (parseScript (f.get "script")) s0
    let s1 := r1.state
    let s1' := s1.reload
    let r2 := run { cfg with overwrite := true } { parent := parent } ⟨f.get "cn", f.nat "rserial"⟩ noFault s1'
    let s2 := r2.state
    s!"log={showLog s1.log} res={showRes r1} {showState cfg s1'} {showVers parent s1'} rlog={showLog s2.log} retry={showRes r2} {showState cfg s2.reload} {showVers parent s2}"
  | _ => "bad-op"

end GceTcb.Drive.C10
