import GceTcb.Base.Line
import GceTcb.Model.Rotate
/- Driver handler for stream `c10` (fault-scripted key rotation). -/
namespace GceTcb.Drive.C10
open GceTcb GceTcb.CA

def insertSorted (x : String) : List String → List String
  | [] => [x]
  | y :: ys => if x = y then y :: ys else if x < y then x :: y :: ys else y :: insertSorted x ys

/-- sorted, duplicates removed -/
def sortU (l : List String) : List String := l.foldr insertSorted []

def showCall : Call → String
  | .kmCreate => "km.create"
  | .kmDestroy k => "km.destroy." ++ k
  | .caPsk => "ca.psk"
  | .caPrk => "ca.prk"
  | .caBundle => "ca.bundle"
  | .caCert k => "ca.cert." ++ k
  | .caFin => "ca.fin"
  | .sgPub k => "sg.pub." ++ k
  | .sgSign k => "sg.sign." ++ k
  | .stR o => "st.r." ++ o
  | .stE o => "st.e." ++ o
  | .stW o => "st.w." ++ o
  | .stWr o => "st.wr." ++ o
  | .stC o => "st.c." ++ o

def showFault : Fault → String
  | .ok => ""
  | .fail => "!"
  | .crash => "#"

def showLog (l : List (Call × Fault)) : String :=
  ",".intercalate (l.map fun p => showCall p.1 ++ showFault p.2)

def liveNames (s : St) : List String :=
  (sortU (s.keys.map (·.1))).filter fun n => (lookup s.keys n).isSome

def subjectOf (s : St) (c : Cert) : String :=
  match (liveNames s).find? (fun n => lookup s.keys n == some c.pub) with
  | some n => n
  | none => "-"

def b2s (b : Bool) : String := if b then "1" else "0"

def showState (cfg : Cfg) (s : St) : String :=
  let live := ",".intercalate (liveNames s)
  match cfg.ca with
  | .memca =>
    let names := sortU (s.memCerts.map (·.1))
    let root := lookup s.memCerts s.memRoot
    let chains := fun (c : Cert) => match root with
      | some r => decide (c.sigBy = r.pub)
      | none => false
    let ents := names.map fun n => n ++ ">" ++ n
    let objs := names.filterMap fun n => (lookup s.memCerts n).map fun c =>
      n ++ "~d~" ++ subjectOf s c ++ "~" ++ b2s (chains c)
    s!"live={live} man={s.memRoot}|{s.memPrimary}|{",".intercalate ents} objs={",".intercalate objs}"
  | .gcsca =>
    let man := match lookup s.store manifestName with
      | none => "none"
      | some (.manifest m) =>
        m.root ++ "|" ++ m.signing ++ "|" ++ ",".intercalate (m.entries.map fun (e : String × String) => e.1 ++ ">" ++ e.2)
      | some _ => "bad"
    let root := match lookup s.store cfg.rootPath with
      | some (.pem r) => some r
      | _ => none
    let chains := fun (c : Cert) => match root with
      | some r => decide (c.sigBy = r.pub)
      | none => false
    let paths := (sortU (s.store.map (·.1))).filter (· ≠ manifestName)
    let objs := paths.filterMap fun p => (lookup s.store p).map fun o =>
      match o with
      | .der c => p ++ "~d~" ++ subjectOf s c ++ "~" ++ b2s (chains c)
      | .pem c => p ++ "~p~" ++ subjectOf s c ++ "~" ++ b2s (chains c)
      | .manifest _ => p ++ "~x~-~0"
    s!"live={live} man={man} objs={",".intercalate objs}"

def parseScript (str : String) : Nat → Fault :=
  let items : List (Nat × Fault) := if str == "-" || str == "" then [] else
    (str.splitOn ",").filterMap fun t =>
      let cs := t.toList
      match cs.getLast? with
      | some 'f' => (String.ofList cs.dropLast).toNat?.map fun n => (n, Fault.fail)
      | some 'c' => (String.ofList cs.dropLast).toNat?.map fun n => (n, Fault.crash)
      | _ => none
  fun n => match items.find? (fun p => p.1 == n) with
    | some p => p.2
    | none => .ok

def mkCfg (f : Fields) (overwrite : Bool) : Cfg :=
  let pk := (f.get "pk").splitOn ","
  { ca := if f.get "ca" == "memca" then .memca else .gcsca
    km := if f.get "km" == "localkm" then .localkm else .memkm
    rootPath := "root.crt"
    certDir := "certs/"
    bump := bumpName
    pubPre := (pk.getD 0 "0").toNat?.getD 0
    pubPost := (pk.getD 1 "0").toNat?.getD 0
    overwrite := overwrite }

/-- bootstrapped state followed by `hist` fault-free rotations (serials 3, 4, …), reloaded -/
def initialState (cfg : Cfg) (hist : Nat) : St :=
  let cfg0 := { cfg with overwrite := false, km := .memkm }
  let s0 := (bootstrap cfg0 "root" "sk" ⟨"rootcn", 1⟩ ⟨"sigcn", 2⟩ false noFault St.init).state.reload
  (List.range hist).foldl (fun s i => (rotateKey cfg0 ⟨"sig", 3 + i⟩ noFault s).state.reload) s0

def showRes : Res String → String
  | .ok k _ => "ok." ++ k
  | .err _ => "err"
  | .crash _ => "crash"

def handle (f : Fields) : String :=
  match f.get "op" with
  | "rot" | "rotold" =>
    let cfg := mkCfg f (f.bool "ow")
    let s0 := initialState cfg (f.nat "hist")
    let run := if f.get "op" == "rot" then rotateKey else rotateKeyOld
    let r1 := run cfg ⟨f.get "cn", f.nat "serial"⟩ (parseScript (f.get "script")) s0
    let s1 := r1.state
    let s1' := s1.reload
    let r2 := run { cfg with overwrite := true } ⟨f.get "cn", f.nat "rserial"⟩ noFault s1'
    let s2 := r2.state
    s!"log={showLog s1.log} res={showRes r1} {showState cfg s1'} rlog={showLog s2.log} retry={showRes r2} {showState cfg s2.reload}"
  | _ => "bad-op"

end GceTcb.Drive.C10
