import GceTcb.Base.Line
/- Driver handler for stream `c10` (stub: replaced when the property's model lands). -/
namespace GceTcb.Drive.C10
open GceTcb

def handle (_f : Fields) : String := "unimplemented"

end GceTcb.Drive.C10
