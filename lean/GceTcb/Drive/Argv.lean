import GceTcb.Base.Line
import GceTcb.Model.Argv
import GceTcb.Model.ArgvTrees
import GceTcb.Drive.EndorseCli
import GceTcb.Drive.C12Cli
/-
Driver handler for `argv` lines (stream argv): one argv through `Argv.runTool` on one of the trees of
Model/ArgvTrees.lean, or the tree itself.

  op=tree tree=<rp|rs|np>                the tree with cobra's built-in commands, rows sorted
  op=run  tree=<t> a=<hex>,<hex>,…       argv words as UTF-8 bytes in hex (`_` = the empty word)

  op=endorse tree=<ap> a=<hex>,… unums=<hex text>@<n|E>;… inums=<hex text>@<n|E>;… + the environment fields of a `cli
             op=run` line (Drive/EndorseCli.lean; `uefi=` is where the image file IS, not what argv says)
             the whole `endorse` command from raw argv: runTool, endorseFlagsOf, EndorseCli.cliRun
             → tok=<run|help|err|other> phase=… cls=… req=… res=… eff=…  (as `cli op=run`)
  op=key  ca= km= seq= instr= lines=<as c12cli op=hist> av=<argv of line 1>;<argv of line 2>;…  (words hex, `_` empty)
             histories of bootstrap / rotate / wipeout command lines given as ARGV: runTool npTree, keyFlagsOf,
             KeyCli.cliStep; the flag columns of `lines=` are what the generator says the argv means and are compared
             with keyFlagsOf (`spec=differs` is printed when they differ); environment columns are used as they are
             → as c12cli op=hist

result of run:  res=run cmd=<a/b> occs=<name:hex[!],…> pos=<hex,…> hooks=</,/a,/a/b>
                res=help cmd= occs= pos=        res=err:<tag> [cmd=] occs=
Occurrences of cobra's own help flag are not printed (the harness cannot wrap a flag that is created inside execute);
the command of an error is not printed in Traverse mode; for `__complete` only the hooks are compared.
-/
namespace GceTcb.Drive.Argv
open GceTcb GceTcb.Argv GceTcb.ArgvTrees

def decodeWord (s : String) : Tok :=
  if s == "_" then []
  else
    match hexDecode s with
    | some bs => ((String.fromUTF8? (ByteArray.mk bs.toArray)).getD "?").toList
    | none => "?".toList

def encodeWord (t : Tok) : String :=
  if t.isEmpty then "_" else hexEncode (String.ofList t).toUTF8.toList

def showPath (p : List Tok) : String := "/".intercalate (p.map String.ofList)

def showOccs (os : List Occ) (bad : Bool) : String :=
  let keep := os.filter (fun o => o.1 != helpName)
  let n := os.length
  -- the refused occurrence is the last one
  let lastIsHelp := match os.getLast? with | some o => o.1 == helpName | none => false
  let strs := keep.map (fun o => String.ofList o.1 ++ ":" ++ encodeWord o.2)
  let strs := if bad && !lastIsHelp && n > 0 then
      (strs.dropLast ++ [(strs.getLast?.getD "") ++ "!"]) else strs
  ",".intercalate strs

def showRes (traverse : Bool) : Res → String
  | .run c os pos hooks =>
    let hk := ",".intercalate (hooks.map (fun h => "/" ++ showPath h))
    if c == [completeName] then "res=run cmd=__complete occs=? pos=? hooks=" ++ hk
    else "res=run cmd=" ++ showPath c ++ " occs=" ++ showOccs os false ++ " pos=" ++ ",".intercalate (pos.map encodeWord)
      ++ " hooks=" ++ hk
  | .help c os pos =>
    "res=help cmd=" ++ showPath c ++ " occs=" ++ showOccs os false ++ " pos=" ++ ",".intercalate (pos.map encodeWord)
  | .err c os e =>
    "res=err:" ++ e.tag ++ (if traverse then "" else " cmd=" ++ showPath c) ++ " occs=" ++ showOccs os (e == .badValue)

def showSpecs (fs : List FlagSpec) : String :=
  let l := fs.map fun f =>
    String.ofList f.name ++ "/" ++ (match f.short with | some c => String.singleton c | none => "-") ++ "/" ++
      (if f.noOpt.isEmpty then "-" else String.ofList f.noOpt)
  ",".intercalate (l.toArray.qsort (· < ·)).toList

def showCmd (c : Cmd) : String :=
  "/" ++ showPath c.path ++ "|" ++ ",".intercalate ((c.aliases.map String.ofList).toArray.qsort (· < ·)).toList ++
    "|run=" ++ toString c.runnable ++ "|args=" ++ (if c.args == .legacy then "nil" else "set") ++
    "|noparse=" ++ toString c.noParse ++ "|hook=" ++ toString c.hook ++ "|L:" ++ showSpecs c.lflags ++ "|P:" ++ showSpecs c.pflags

def showTree (T : Tree) : String :=
  "traverse=" ++ toString T.traverse ++ " runhooks=" ++ toString T.runHooks ++ " " ++
    ";".intercalate ((T.full.cmds.map showCmd).toArray.qsort (· < ·)).toList

/-! ### op=endorse -/

def unhexS (s : String) : String :=
  if s == "_" then "" else
  match hexDecode s with
  | some b => (String.fromUTF8? (ByteArray.mk b.toArray)).getD "?"
  | none => "?"

/-- `<hex text>@<integer | E>` separated by `;` -/
def numTable (s : String) : List (String × Option Int) :=
  if s == "" then [] else
  (s.splitOn ";").filterMap fun e =>
    match e.splitOn "@" with
    | [k, v] => some (unhexS k, if v == "E" then none else v.toInt?)
    | _ => none

/-- strconv.ParseUint / ParseInt(·, 0, n) as computed by the harness for every numeral text of the argv; the CSV
    reader on texts without quotes and line breaks (the generator draws no others). -/
def mkNumerals (f : Fields) : Numerals :=
  let ut := numTable (f.get "unums")
  let it := numTable (f.get "inums")
  { uint := fun s => ((ut.find? (fun e => e.1 == s)).bind (·.2)).map Int.toNat
    int := fun s => (it.find? (fun e => e.1 == s)).bind (·.2)
    csv := fun s => if s == "" then some [] else some (s.splitOn ",") }

open GceTcb.Endorse GceTcb.Commit GceTcb.VF GceTcb.Drive.IO GceTcb.EndorseCli GceTcb.Drive.EndorseCli in
def handleEndorse (T : Tree) (f : Fields) : String :=
  let argv := (f.list "a").map decodeWord
  match endorseOfArgv T (mkNumerals f) argv with
  | .usage => "tok=help phase=run cls=- req=- res=ok eff="
  | .other c => "tok=other:" ++ showPath c
  | .refused _ => "tok=err phase=parse cls=- req=- res=err eff="
  | .flags fl _ =>
    let P := mkParams f
    let Pr := mkPrims f
    let E := mkEnv f
    match ecOf P Pr.parseUuid E fl with
    | .err e =>
      let p := phaseOf e
      let tk := if p.1 == "parse" then "err" else "run"   -- a refusing Set of a repository flag type is a parse error too
      s!"tok={tk} phase={p.1} cls={p.2} req=- res=err eff="
    | .panic _ => "tok=run phase=panic cls=- req=- res=panic eff="
    | .ok (ec, ow) =>
      let r := cliRun P Pr genTables E fl (parseKeys f) (C15.parseVcs (f.get "vcs")) (C15.parseVcss (f.get "vcss"))
      let res := match r.result with | .ok _ => "ok" | .err _ => "err" | .panic _ => "panic"
      s!"tok=run phase=run cls=- req=[{showEC ec ow}] res={res} eff={",".intercalate (r.effects.map C15.showEff)}"

/-! ### op=key -/

open GceTcb.KeyCli GceTcb.KeyHistory GceTcb.Drive.C12Cli in
def sameFlags (a b : KeyCli.CliFlags) : Bool :=
  a.sub == b.sub && a.rootKeyCn == b.rootKeyCn && a.signingKeyCn == b.signingKeyCn && a.rootKeySerial == b.rootKeySerial &&
  a.initialSigningKeySerial == b.initialSigningKeySerial && a.rotatedKeySerialOverride == b.rotatedKeySerialOverride &&
  a.timestamp == b.timestamp && a.forceProdWipeout == b.forceProdWipeout && a.overwrite == b.overwrite &&
  a.keepGoing == b.keepGoing && a.args == b.args && a.keyDir == b.keyDir && a.bucketRoot == b.bucketRoot &&
  a.bucket == b.bucket && a.certDir == b.certDir && a.rootPath == b.rootPath

/-- the fields a sub-command does not register are not part of what its argv can say -/
def normFlags (a : KeyCli.CliFlags) : KeyCli.CliFlags :=
  match a.sub with
  | .bootstrap => { a with rotatedKeySerialOverride := [], forceProdWipeout := false }
  | .rotate => { a with rootKeyCn := "GCE-cc-tcb-root", rootKeySerial := [], initialSigningKeySerial := [], forceProdWipeout := false }
  | .wipeout => { a with rootKeyCn := "GCE-cc-tcb-root", signingKeyCn := "GCE-uefi-signer", rootKeySerial := [],
                         initialSigningKeySerial := [], rotatedKeySerialOverride := [], timestamp := [] }

open GceTcb.KeyCli GceTcb.KeyHistory GceTcb.Drive.C12Cli in
def handleKey (f : Fields) : String :=
  let W : Wiring := ⟨if f.get "ca" == "memca" then .memca else .gcsca,
                     if f.get "km" == "localkm" then .localkm else .memkm, f.bool "seq", true⟩
  let raw := if f.get "lines" == "" then [] else (f.get "lines").splitOn ";"
  let avs := if f.get "av" == "" then [] else (f.get "av").splitOn ";"
  let ls := raw.filterMap parseLine
  if ls.length ≠ raw.length || avs.length ≠ raw.length then "bad-op"
  else
    -- each line's flags are what tokenising its argv yields; an argv cobra / pflag refuse moves nothing
    let tokd : List (Option Line × Bool) := (ls.zip avs).map fun la =>
      let argv := ((la.2.splitOn ",").filter (· != "")).map decodeWord
      match runTool npTree argv with
      | .run c os pos _ =>
        match subOf c with
        | some sub =>
          let fl := keyFlagsOf sub os pos
          (some { la.1 with flags := fl }, sameFlags (normFlags fl) (normFlags la.1.flags))
        | none => (none, true)
      | _ => (none, true)
    let spec := if tokd.all (·.2) then "" else "spec=differs "
    let rec go (s : State) : List (Option Line × Bool) → String
      | [] => s!"phase=- cls=- ctx=- {observe W.cfg s true}"
      | [(some l, _)] => runLines W (f.bool "instr") s [l]
      | [(none, _)] => s!"phase=parse cls=- ctx=- {observe W.cfg s false}"
      | (some l, _) :: rest => go (cliStep W l.pt l.env s l.flags).1 rest
      | (none, _) :: rest => go s rest
    spec ++ go State.init tokd

def handle (f : Fields) : String :=
  if f.get "op" == "key" then handleKey f else
  match treeNamed (f.get "tree") with
  | none => "bad-tree"
  | some T =>
    match f.get "op" with
    | "tree" => showTree T
    | "run" =>
      let argv := (f.list "a").map decodeWord
      showRes T.traverse (runTool T argv)
    | "endorse" => handleEndorse T f
    | _ => "bad-op"

end GceTcb.Drive.Argv
