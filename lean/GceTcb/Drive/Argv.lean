import GceTcb.Base.Line
import GceTcb.Model.Argv
import GceTcb.Model.ArgvTrees
/-
Driver handler for `argv` lines (stream argv): one argv through `Argv.runTool` on one of the trees of
Model/ArgvTrees.lean, or the tree itself.

  op=tree tree=<rp|rs|np>                the tree with cobra's built-in commands, rows sorted
  op=run  tree=<t> a=<hex>,<hex>,…       argv words as UTF-8 bytes in hex (`_` = the empty word)

result of run:  res=run cmd=<a/b> occs=<name:hex[!],…> pos=<hex,…> hooks=</,/a,/a/b>
                res=help cmd= occs= pos=        res=err:<tag> [cmd=] occs=
Occurrences of cobra's own help flag are not printed (the harness cannot wrap a flag that is created inside execute);
the command of an error is not printed in Traverse mode; for `__complete` only the hooks are compared.
-/
namespace GceTcb.Drive.Argv
open GceTcb GceTcb.Argv GceTcb.ArgvTrees

def decodeWord (s : String) : Tok :=
  if s == "_" then []
  else
    match hexDecode s with
    | some bs => ((String.fromUTF8? (ByteArray.mk bs.toArray)).getD "?").toList
    | none => "?".toList

def encodeWord (t : Tok) : String :=
  if t.isEmpty then "_" else hexEncode (String.ofList t).toUTF8.toList

def showPath (p : List Tok) : String := "/".intercalate (p.map String.ofList)

def showOccs (os : List Occ) (bad : Bool) : String :=
  let keep := os.filter (fun o => o.1 != helpName)
  let n := os.length
  -- the refused occurrence is the last one
  let lastIsHelp := match os.getLast? with | some o => o.1 == helpName | none => false
  let strs := keep.map (fun o => String.ofList o.1 ++ ":" ++ encodeWord o.2)
  let strs := if bad && !lastIsHelp && n > 0 then
      (strs.dropLast ++ [(strs.getLast?.getD "") ++ "!"]) else strs
  ",".intercalate strs

def showRes (traverse : Bool) : Res → String
  | .run c os pos hooks =>
    let hk := ",".intercalate (hooks.map (fun h => "/" ++ showPath h))
    if c == [completeName] then "res=run cmd=__complete occs=? pos=? hooks=" ++ hk
    else "res=run cmd=" ++ showPath c ++ " occs=" ++ showOccs os false ++ " pos=" ++ ",".intercalate (pos.map encodeWord)
      ++ " hooks=" ++ hk
  | .help c os pos =>
    "res=help cmd=" ++ showPath c ++ " occs=" ++ showOccs os false ++ " pos=" ++ ",".intercalate (pos.map encodeWord)
  | .err c os e =>
    "res=err:" ++ e.tag ++ (if traverse then "" else " cmd=" ++ showPath c) ++ " occs=" ++ showOccs os (e == .badValue)

def showSpecs (fs : List FlagSpec) : String :=
  let l := fs.map fun f =>
    String.ofList f.name ++ "/" ++ (match f.short with | some c => String.singleton c | none => "-") ++ "/" ++
      (if f.noOpt.isEmpty then "-" else String.ofList f.noOpt)
  ",".intercalate (l.toArray.qsort (· < ·)).toList

def showCmd (c : Cmd) : String :=
  "/" ++ showPath c.path ++ "|" ++ ",".intercalate ((c.aliases.map String.ofList).toArray.qsort (· < ·)).toList ++
    "|run=" ++ toString c.runnable ++ "|args=" ++ (if c.args == .legacy then "nil" else "set") ++
    "|noparse=" ++ toString c.noParse ++ "|hook=" ++ toString c.hook ++ "|L:" ++ showSpecs c.lflags ++ "|P:" ++ showSpecs c.pflags

def showTree (T : Tree) : String :=
  "traverse=" ++ toString T.traverse ++ " runhooks=" ++ toString T.runHooks ++ " " ++
    ";".intercalate ((T.full.cmds.map showCmd).toArray.qsort (· < ·)).toList

def handle (f : Fields) : String :=
  match treeNamed (f.get "tree") with
  | none => "bad-tree"
  | some T =>
    match f.get "op" with
    | "tree" => showTree T
    | "run" =>
      let argv := (f.list "a").map decodeWord
      showRes T.traverse (runTool T argv)
    | _ => "bad-op"

end GceTcb.Drive.Argv
