import GceTcb.Base.Line
import GceTcb.Model.Reentrancy
import GceTcb.Gen.ClosureWrites
import GceTcb.Drive.C01
/-
Driver handler for stream `c09`.

One case = one batch of validator invocations that the harness ran concurrently (or successively) on
the real code: the primitive facts of the endorsements involved (same encoding as stream c01), the
options the caller configured, the calls, and a complete schedule drawn by the harness.  The handler
runs the interleaving model with the write lists REGENERATED from the source (Gen.ClosureWrites) under
that schedule and prints every thread's result and the caller's SNP options afterwards.  With empty write
lists the answer does not depend on the schedule (C09_isolated); the real results must agree.
-/
namespace GceTcb.Drive.C09
open GceTcb GceTcb.Verify GceTcb.Reentrancy

/-- `<measurement hex or nil>/<serialized ref>` -/
def parseCall (s : String) : Call :=
  match s.splitOn "/" with
  | [m, r] =>
    ⟨if m == "nil" then none else some ⟨1, (hexDecode m).getD [], []⟩, Drive.C01.refBytes r⟩
  | _ => ⟨none, none⟩

def showSnp : Option SNPOptions → String
  | none => "-"
  | some o =>
    s!"{o.expectedLaunchVMSAs}:" ++ (match o.measurement with | none => "nil" | some m => hexEncode m)

def showResult : Option Res → String
  | none => "unfinished"
  | some r => Drive.C01.showRes r

def handle (f : Fields) : String :=
  match f.get "op" with
  | "run" =>
    let callList := ((f.get "calls").splitOn ";").map parseCall
    let n := callList.length
    let cfg : Cfg Drive.C01.Cert Drive.C01.Roots Drive.C01.Time :=
      ⟨Drive.C01.mkPrims f, f.get "fam", Drive.C01.mkOptions f,
       Gen.ClosureWrites.constructorWrites, Gen.ClosureWrites.closureWrites⟩
    let calls : Fin n → Call := fun i => callList.getD i.val ⟨none, none⟩
    let σ : List (Fin n) := (f.list "sched").filterMap fun t =>
      match t.toNat? with
      | some k => if h : k < n then some ⟨k, h⟩ else none
      | none => none
    let s := runSched cfg calls σ
    let rs := (List.finRange n).map fun i => showResult (s.locals i).result
    s!"res={",".intercalate rs} snp={showSnp s.shared.snp}"
  | _ => "bad-op"

end GceTcb.Drive.C09
