import GceTcb.Base.Line
/- Driver handler for stream `c05` (stub: replaced when the property's model lands). -/
namespace GceTcb.Drive.C05
open GceTcb

def handle (_f : Fields) : String := "unimplemented"

end GceTcb.Drive.C05
