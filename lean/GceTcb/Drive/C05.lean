import GceTcb.Base.Line
import GceTcb.Base.Sha384
import GceTcb.Model.Mrtd
import GceTcb.Spec.Mrtd
import GceTcb.Gen.TdxConsts
/- Driver handler for stream `c05`: model of tdx.MRTD / ovmf.ExtractMaterialGuestPhysicalRegions* /
   ovmf.unacceptedMemRanges / regionsForShape / tdx.UnsignedTDX, and the independent specification. -/
namespace GceTcb.Drive.C05
open GceTcb GceTcb.Intervals GceTcb.TdxMeta GceTcb.TdxHob GceTcb.Mrtd

/-- "s:l;s:l" -/
def parseGprs (v : String) : List Gpr :=
  if v == "" || v == "-" then []
  else (v.splitOn ";").filterMap fun t =>
    match t.splitOn ":" with
    | [a, b] => some ⟨a.toNat?.getD 0, b.toNat?.getD 0⟩
    | _ => none

def showGprs (l : List Gpr) : String :=
  if l.isEmpty then "-" else ";".intercalate (l.map fun g => s!"{g.start}:{g.len}")

def fnv1a (b : Bytes) : Nat :=
  (b.foldl (fun (h : UInt64) (x : UInt8) => (h ^^^ x.toUInt64) * 1099511628211) 14695981039346656037).toNat

def trimZeros (b : Bytes) : Bytes := (b.reverse.dropWhile (· == 0)).reverse

/-- preconditions of C05_unaccepted_correct, decided on concrete lists -/
def noOverflow (l : List Gpr) : Bool := l.all fun g => g.start + g.len < 2 ^ 64
def disjointB : List Gpr → Bool
  | [] => true
  | a :: t => t.all (fun b => a.len == 0 || b.len == 0 || a.start + a.len ≤ b.start || b.start + b.len ≤ a.start) && disjointB t
def precond (ps rs : List Gpr) : Bool := noOverflow ps && noOverflow rs && disjointB ps && disjointB rs

def specDifference (rs ps : List Gpr) : List Gpr :=
  (Spec.Intervals.difference (rs.map fun g => ⟨g.start, g.start + g.len⟩) (ps.map fun g => ⟨g.start, g.start + g.len⟩)).map
    fun i => ⟨i.lo, i.hi - i.lo⟩

def sha (b : Bytes) : Bytes := Sha384.sha384List b

def specMode (du ma : Bool) : Spec.Mrtd.Mode :=
  if du then .measureAllEarly else if ma then .measureAll else .default

def toMeta (s : Codecs.TdxSection) : Spec.Mrtd.MetaSection :=
  ⟨s.dataOffset, s.dataSize, s.memoryBase, s.memorySize, s.sectionType, s.attributes⟩

def showRegion (r : Region) : String :=
  s!"{r.gpr.start}:{r.gpr.len}:{r.attrs}:{r.buf.length}:{fnv1a r.buf.toBytes}"

def showMeas (m : Measurement) : String := s!"{m.ramGib}:{if m.earlyAccept then 1 else 0}:{hexEncode m.mrtd}"

def handle (f : Fields) : String :=
  match f.get "op" with
  | "unacc" =>
    let ps := parseGprs (f.get "priv")
    let rs := parseGprs (f.get "ram")
    let out := unacceptedMemRanges ps rs
    "out=" ++ showGprs out ++ " spec=" ++ (if precond ps rs then showGprs (specDifference rs ps) else "na")
  | "mrtd" =>
    let fw := f.bytes "img"
    let banks := parseGprs (f.get "banks")
    let du := f.bool "du"
    let ma := f.bool "ma"
    let o : LaunchOptions := { banks := banks, disableUnacceptedMemory := du, measureAllRegions := ma }
    match mrtd sha o fw with
    | .ok d =>
      let spec :=
        match extractTDXMetadata fw with
        | .ok md =>
          let useBanks := if du || ma then banks else []
          if noOverflow useBanks && disjointB useBanks then
            match Spec.Mrtd.mrtdOf sha (specMode du ma) fw (useBanks.map fun g => (g.start, g.len)) (md.sections.map toMeta) with
            | some s => hexEncode s
            | none => "nofit"
          else "na"
        | _ => "nometa"
      "ok " ++ hexEncode d ++ " spec=" ++ spec
    | .err c => "reject=" ++ c
    | .panic s => "panic=" ++ s
  | "regions" =>
    let fw := f.bytes "img"
    let banks := parseGprs (f.get "banks")
    let r :=
      match f.nat "mode" with
      | 0 => extractDefault fw
      | 1 => extractTDHOBBug fw banks
      | _ => extractNoUnacceptedMemory fw banks
    match r with
    | .ok regions =>
      let hob := match regions.find? (fun r => r.buf.data.length ≥ 56 ∧ r.buf.data.take 4 == [1, 0, 56, 0]) with
        | some r => hexEncode (trimZeros r.buf.toBytes)
        | none => "-"
      "ok n=" ++ toString regions.length ++ " r=" ++ ";".intercalate (regions.map showRegion) ++ " hob=" ++ hob
    | .err c => "reject=" ++ c
    | .panic s => "panic=" ++ s
  | "shape" =>
    match machineTypeToRAMBanks Gen.TdxConsts.shapes (f.get "name") with
    | .ok b => "ok " ++ showGprs b
    | .err c => "reject=" ++ c
    | .panic s => "panic=" ++ s
  | "unsigned" =>
    let fw := f.bytes "img"
    match unsignedTDX sha Gen.TdxConsts.shapes fw (f.bool "early") (f.list "shapes") with
    | .ok ms => "ok " ++ ";".intercalate (ms.map showMeas)
    | .err c => "reject=" ++ c
    | .panic s => "panic=" ++ s
  | _ => "bad-op"

end GceTcb.Drive.C05
