import GceTcb.Base.Line
import GceTcb.Base.Sha384
import GceTcb.Model.Endorse
import GceTcb.Model.EndorseTables
import GceTcb.Model.Commit
/-
Protocol-line parsing and rendering shared by the drivers of C06, C14 and C15: requests, measurement
tables (instantiating the model's measurement parameters with values the harness computed by direct
sev.LaunchDigest / tdx.MRTD calls), UUID syntax (a Lean transcription of google/uuid.Parse, ASCII
input), key material, backend scripts and call logs.
-/
namespace GceTcb.Drive.IO
open GceTcb GceTcb.Endorse GceTcb.Manifest GceTcb.Commit

def isHex (c : Char) : Bool := (hexVal? c).isSome

/-- xxxxxxxx-xxxx-xxxx-xxxx-xxxxxxxxxxxx -/
def parseUuid36 (cs : List Char) : Option Bytes :=
  if cs.length != 36 then none
  else if cs[8]? != some '-' || cs[13]? != some '-' || cs[18]? != some '-' || cs[23]? != some '-' then none
  else
    [0, 2, 4, 6, 9, 11, 14, 16, 19, 21, 24, 26, 28, 30, 32, 34].mapM fun x => do
      let a ← hexVal? (cs.getD x ' ')
      let b ← hexVal? (cs.getD (x + 1) ' ')
      pure (UInt8.ofNat (a * 16 + b))

def lower (cs : List Char) : List Char := cs.map Char.toLower

/-- google/uuid.Parse -/
def parseUuid (s : String) : Option Bytes :=
  let cs := s.toList
  match cs.length with
  | 36 => parseUuid36 cs
  | 45 => if lower (cs.take 9) == "urn:uuid:".toList then parseUuid36 (cs.drop 9) else none
  | 38 => parseUuid36 ((cs.drop 1).take 36)
  | 32 => hexDecodeChars cs
  | _ => none

/-- `k:hex` or `k:E` entries separated by `;` -/
def parseTable (s : String) : List (String × Option Bytes) :=
  if s == "" then [] else
  (s.splitOn ";").filterMap fun e =>
    match e.splitOn ":" with
    | [k, v] => some (k, if v == "E" then none else hexDecode v)
    | _ => none

def lookupT (t : List (String × Option Bytes)) (k : String) : Outcome Bytes :=
  match t.find? (fun p => p.1 == k) with
  | some (_, some v) => .ok v
  | some (_, none) => .err "measurement"
  | none => .err "not-in-table"

def modeTag : TdxMode → String
  | .tdhobBug => "b" | .earlyAccept => "e" | .default => "d"

def mkPrims (f : Fields) : Prims :=
  let lds := parseTable (f.get "ld")
  let mrs := parseTable (f.get "mrtd")
  { sha384 := Sha384.sha384List
    launchDigest := fun _ k pr => lookupT lds s!"{k}/{pr}"
    mrtd := fun _ s m => lookupT mrs s!"{s}/{modeTag m}"
    parseUuid := parseUuid }

def insertSorted (x : Nat × Bytes) : List (Nat × Bytes) → List (Nat × Bytes)
  | [] => [x]
  | y :: ys => if x.1 ≤ y.1 then x :: y :: ys else y :: insertSorted x ys

def showSnp : Option SnpDoc → String
  | none => "-"
  | some s =>
    let ms := (s.measurements.foldr insertSorted []).map fun p => s!"{p.1}:{hexEncode p.2}"
    s!"{s.svn}/{hexEncode s.familyId}/{hexEncode s.imageId}/{s.policy}/{hexEncode s.svsm}/{";".intercalate ms}"

def showTdx : Option TdxDoc → String
  | none => "-"
  | some d =>
    let rs := d.rows.map fun r => s!"{r.ramGib}:{if r.earlyAccept then "1" else "0"}:{hexEncode r.mrtd}"
    s!"{d.svn}/{";".intercalate rs}"

def showTs : Option (Int × Nat) → String
  | none => "-"
  | some (s, n) => s!"{s}.{n}"

def showGolden (g : Golden) : String :=
  s!"digest={hexEncode g.digest} cl={g.clSpec} commit={hexEncode g.commit} snp={showSnp g.snp} tdx={showTdx g.tdx} cert={hexEncode (Sha384.sha384List g.cert)} bundle={hexEncode (Sha384.sha384List g.caBundle)} ts={showTs g.timestamp}"

def parseCtx (f : Fields) : Ctx :=
  { snp := if f.bool "snp" then
      some ⟨f.nat "svn", f.get "fam", f.get "iid", f.nat "vm", f.nat "prod"⟩ else none
    tdx := if f.bool "tdx" then some ⟨f.nat "tsvn", f.bool "early", f.list "shapes"⟩ else none
    image := f.bytes "img", clSpec := f.nat "cl", commit := f.bytes "commit",
    svsmMeasurement := f.bytes "svsm", rndImageId := f.get "rnd" }

def parseKeys (f : Fields) : Option Keys :=
  let caerr := f.get "caerr"
  let ca : CA :=
    { primary := if caerr == "primary" then .err "ca" else .ok "key"
      certificate := fun _ => if caerr == "cert" then .err "ca" else .ok (f.bytes "certv")
      bundle := fun _ => if caerr == "bundle" then .err "ca" else .ok (f.bytes "bundlev") }
  let signer : String → Golden → Outcome Bytes := fun _ _ => if f.bool "signerr" then .err "sign" else .ok []
  match f.get "keys" with
  | "none" => none
  | "noca" => some ⟨none, some signer⟩
  | "nosigner" => some ⟨some ca, none⟩
  | _ => some ⟨some ca, some signer⟩

def parseTsField (s : String) : Int × Nat :=
  match s.splitOn "." with
  | [a, b] => (a.toInt?.getD 0, b.toNat?.getD 0)
  | _ => (0, 0)

def parseEntry (s : String) : Option Entry :=
  match s.splitOn ":" with
  | [p, d, t] => some ⟨p, d, t⟩
  | _ => none

def parseEntries (s : String) : List Entry :=
  if s == "" then [] else (s.splitOn ";").filterMap parseEntry

def showEntries (m : List Entry) : String :=
  ";".intercalate (m.map fun e => s!"{e.path}:{e.digest}:{e.time}")

def parseMRead (s : String) : MRead :=
  if s == "N" then .notFound
  else if s == "G" then .garbage
  else .ok (parseEntries (s.drop 1).toString)

/-- `f/r/x/m` : failing ordinal or `-`, retriable, file exists, manifest as read (the manifest's paths
    may contain '/': everything after the third '/' is the manifest). -/
def parseAttempt (s : String) : Option Attempt :=
  match s.splitOn "/" with
  | f :: r :: x :: m :: ms =>
    some ⟨if f == "-" then none else f.toNat?, r == "1", parseMRead ("/".intercalate (m :: ms)), x == "1"⟩
  | _ => none

def parseScript (s : String) : List Attempt :=
  if s == "" then [] else (s.splitOn "|").filterMap parseAttempt

def showKind : Kind → String
  | .getOps => "getOps" | .readManifest => "readManifest" | .readFile => "readFile"
  | .writeFiles => "writeFiles" | .chmod => "chmod" | .writeManifest => "writeManifest"
  | .commit => "commit" | .destroy => "destroy" | .retriable => "retriable" | .result => "result"

def showEv (e : Ev) : String :=
  s!"{showKind e.kind}@{e.ws}@{if e.ok then "1" else "0"}@{e.arg}@{showEntries e.manifest}"

def showLog (l : List Ev) : String := ",".intercalate (l.map showEv)

def showRes : Res → String
  | .ok => "ok" | .err => "err" | .noRetries => "noretries" | .exhausted => "exhausted"

def parseCfg (f : Fields) : Cfg :=
  { dryRun := f.bool "dry", snapshot := f.bool "snap", overwrite := f.bool "ow", svsm := f.bool "svsm",
    scrtm := f.bool "scrtm", cand := f.get "cand", root := f.get "root", outDir := f.get "out",
    snapDir := f.get "sdir", imageName := f.get "img" }

end GceTcb.Drive.IO
