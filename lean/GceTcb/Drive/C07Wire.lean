import GceTcb.Base.Line
import GceTcb.Model.DecWire
import GceTcb.Drive.C01Wire
/-
Driver handler for stream `c07wire`: the verifier-glue model (`Model/DecTotal.lean`) with the two protobuf
parsers of the endorsement instantiated by the wire codec (`DecWire.wireParsers`), on raw bytes.

  op=shape  b=<input>            the parse shape of a golden measurement as Go's Unmarshal leaves it
                                 (nil-ness of every pointer / map, values of every field the glue reads)
  op=shapeE b=<input>            … of a container
  op=e2e    cont=<input> facts   verify.Endorsement end to end (`endorsementE2E`): outcome class
  op=policy b=<input> …          SevPolicy / TdxPolicy lookups on the decoded golden measurement

An input is hex, or a generator term the driver expands itself (large inputs): `rep:<hex unit>:<count>`
wrapped by `pre:<hex>` … see `expand`.  The crypto facts are those of stream `c01wire`.
-/
namespace GceTcb.Drive.C07Wire
open GceTcb GceTcb.ProtoWire GceTcb.DecTotal GceTcb.DecWire

/-- `<hex>` | `gen:<prefix hex>:<unit hex>:<count>:<suffix hex>` = prefix ++ unit^count ++ suffix -/
def expand (s : String) : Bytes :=
  if s.startsWith "gen:" then
    match s.splitOn ":" with
    | [_, pre, unit, n, suf] =>
      let u := (hexDecode unit).getD []
      (hexDecode pre).getD [] ++ (List.replicate (n.toNat?.getD 0) u).flatten ++ (hexDecode suf).getD []
    | _ => []
  else (hexDecode s).getD []

def showB (b : Bytes) : String :=
  if b.length ≤ 64 then "x" ++ hexEncode b else s!"#{b.length}.{(b.headD 0).toNat}.{(b.getLastD 0).toNat}"

def showMeas (m : List (Nat × Bytes)) : String :=
  ";".intercalate (m.map fun p => s!"{p.1}:{showB p.2}")

def showRows (rs : List (Option PTdxRow)) : String :=
  if rs.length > 64 then s!"#{rs.length}" else
  ";".intercalate (rs.map fun r => match r with | none => "nil" | some r => s!"{r.ramGib}:{showB r.mrtd}")

def showSnp : Option PSevSnp → String
  | none => "nil"
  | some s =>
    let m := match s.measurements with | none => "nil" | some m => "[" ++ showMeas m ++ "]"
    s!"({s.policy},{s.svn},{m},{showB s.svsm},{showB s.caBundle})"

def showGolden (g : PGolden) : String :=
  let ts := match g.timestamp with | none => "nil" | some t => s!"{t.secs}:{t.nanos}"
  let tdx := match g.tdx with | none => "nil" | some t => "[" ++ showRows t.rows ++ "]"
  s!"ts={ts} cl={g.clSpec} cm={showB g.commit} c={showB g.cert} d={showB g.digest} snp={showSnp g.sevSnp} tdx={tdx}"

abbrev Cert := Bytes
abbrev Roots := Unit
abbrev Time := Unit

def mkParsers (x : C01Wire.Facts) : Parsers Cert Roots Time :=
  { unmarshalEndorsement := fun _ => none
    unmarshalGolden := fun _ => none
    parseCert := x.parseCert
    verifyChain := fun c _ _ => x.chain c
    checkSig := x.sigOk
    pemDecode := fun b => (none, b)
    unmarshalTpm := fun _ => none
    unmarshalSevAtt := fun _ => none
    unmarshalReport := fun _ => none
    unmarshalQuoteV4 := fun _ => none
    hexDecode := fun _ => none
    base64Decode := fun _ => none
    certTableHeader := fun _ => none
    reportCertsToProto := fun _ => none
    certTableProto := fun _ => none
    certTableGet := fun _ => none
    quoteToProto := fun _ => .err "quote"
    defaultPolicyBits := 0
    sevPolicyToOptions := fun _ => true
    snpBaseChecks := fun _ _ => true
    tdxPolicyToOptions := fun _ => true
    tdxQuoteChecks := fun _ _ => true
    pathValue := fun _ _ _ => none }

def cls {α : Type} (x : M α) (vals : α → String) : String :=
  match x.out with
  | .ok a => let v := vals a; if v == "" then "ok" else "ok " ++ v
  | .err _ => "reject"
  | .panic _ => "panic"

def parseSnpo (s : String) : Option SNPOptions :=
  if s == "-" || s == "" then none else
  match s.splitOn ":" with
  | [v, m] => some ⟨if m == "nil" then none else some ((hexDecode m).getD []), v.toNat?.getD 0⟩
  | _ => none

def handle (f : Fields) : String :=
  match f.get "op" with
  | "shape" =>
    match decodeGolden (expand (f.get "b")) with
    | none => "reject"
    | some g => "ok " ++ showGolden (pGoldenOfWire g)
  | "shapeE" =>
    match decodeEndorsement (expand (f.get "b")) with
    | none => "reject"
    | some e => let p := pEndorsementOfWire e; s!"ok p={showB p.payload} s={showB p.signature}"
  | "e2e" =>
    let cont := expand (f.get "cont")
    let x := C01Wire.mkFacts f cont
    let o : Options Roots Time :=
      { snp := parseSnpo (f.get "snpo"), roots := (if f.get "roots" == "nil" then none else some ()),
        expectedUefiSha384 := f.bytes "exp", now := (), endorsement := none, getter := none }
    cls (endorsementE2E 64 (mkParsers x) cont (some o)) (fun _ => "")
  | "tdxpolicy" =>
    -- TdxPolicy on an endorsement message whose payload is the input: the row lookup over the decoded rows
    let e : PEndorsement := ⟨expand (f.get "b"), []⟩
    let P := wireParsers (mkParsers ⟨[], [], []⟩)
    cls (tdxPolicy P (some e) (some ⟨none, f.int "ram", false⟩)) fun p =>
      let ms := (p.body.getD none).getD []
      if ms.length > 16 then s!"mrtds=#{ms.length}" else "mrtds=" ++ ",".intercalate (ms.map showB)
  | "sevpolicy" =>
    let e : PEndorsement := ⟨expand (f.get "b"), []⟩
    let P := wireParsers { mkParsers ⟨[], [], []⟩ with defaultPolicyBits := f.nat "dp" }
    cls (sevPolicy P (some e) (some ⟨none, f.nat "vmsas", false, true⟩)) fun p =>
      s!"pol={p.policy} m=" ++ (match p.measurement with | some m => showB m | none => "nil")
  | _ => "bad-op"

end GceTcb.Drive.C07Wire
