import GceTcb.Base.Line
import GceTcb.Model.ProtoWire
import GceTcb.Model.ProtoEndorse
import GceTcb.Drive.EndorseIO
/-
Driver handler for stream `c03proto`: the Lean protobuf wire codec of the five endorsement messages
against google.golang.org/protobuf (encode byte for byte, decode value for value), and the signing
pipeline at the byte level (endorse.GoldenMeasurement + endorse.SignDoc payload = wire encoding of the
document the model of the pipeline builds).
-/
namespace GceTcb.Drive.C03Proto
open GceTcb GceTcb.ProtoWire

/-! canonical text of decoded messages (the harness prints the same from the Go structs) -/

def showTs : Option WTimestamp → String
  | none => "-"
  | some t => s!"T({t.seconds},{t.nanos},{hexEncode t.unknown})"

def showRow (r : WRow) : String :=
  s!"R({r.ramGib},{if r.earlyAccept then "1" else "0"},{hexEncode r.mrtd},{hexEncode r.unknown})"

def showTdx : Option WTdx → String
  | none => "-"
  | some d => s!"X({d.svn},[{";".intercalate (d.measurements.map showRow)}],{hexEncode d.unknown})"

def showMeas (m : List (Nat × Bytes)) : String :=
  ";".intercalate (m.map fun p => s!"{p.1}:{hexEncode p.2}")

def showSnp : Option WSevSnp → String
  | none => "-"
  | some s =>
    s!"S({s.svn},[{showMeas s.measurements}],{hexEncode s.familyId},{hexEncode s.imageId},{s.policy},{hexEncode s.caBundle},{hexEncode s.svsmMeasurement},{hexEncode s.unknown})"

def showGolden (g : WGolden) : String :=
  s!"G({showTs g.timestamp},{g.clSpec},{hexEncode g.commit},{hexEncode g.cert},{hexEncode g.digest},{hexEncode g.caBundle},{showSnp g.sevSnp},{showTdx g.tdx},{hexEncode g.unknown})"

def showEnd (e : WEndorsement) : String :=
  s!"E({hexEncode e.serializedUefiGolden},{hexEncode e.signature},{hexEncode e.unknown})"

/-! messages from the fields of a protocol line -/

def hexOr (s : String) : Bytes := (hexDecode s).getD []

def parseTs (s : String) : Option WTimestamp :=
  match s.splitOn ":" with
  | [a, b, u] => some ⟨a.toInt?.getD 0, b.toInt?.getD 0, hexOr u⟩
  | _ => none

def parseRow (s : String) : Option WRow :=
  match s.splitOn ":" with
  | [a, e, m, u] => some ⟨a.toNat?.getD 0, e == "1", hexOr m, hexOr u⟩
  | _ => none

def parseRows (s : String) : List WRow :=
  if s == "" then [] else (s.splitOn ";").filterMap parseRow

def parseMeas (s : String) : List (Nat × Bytes) :=
  if s == "" then [] else
  (s.splitOn ";").filterMap fun e =>
    match e.splitOn ":" with
    | [k, v] => some (k.toNat?.getD 0, hexOr v)
    | _ => none

def parseSnp (f : Fields) : WSevSnp :=
  ⟨f.nat "ssvn", parseMeas (f.get "smeas"), f.bytes "sfam", f.bytes "simg", f.nat "spol", f.bytes "scab",
   f.bytes "ssvsm", f.bytes "sunk"⟩

def parseTdx (f : Fields) : WTdx := ⟨f.nat "xsvn", parseRows (f.get "xrows"), f.bytes "xunk"⟩

def parseGolden (f : Fields) : WGolden :=
  ⟨parseTs (f.get "ts"), f.nat "cl", f.bytes "commit", f.bytes "cert", f.bytes "digest", f.bytes "cab",
   (if f.bool "snp" then some (parseSnp f) else none), (if f.bool "tdx" then some (parseTdx f) else none),
   f.bytes "gunk"⟩

def parseEnd (f : Fields) : WEndorsement := ⟨f.bytes "payload", f.bytes "sig", f.bytes "eunk"⟩

def natList (s : String) : List Nat := if s == "" then [] else (s.splitOn ",").map (fun x => x.toNat?.getD 0)

def withOrder (f : Fields) (s : WSevSnp) : WSevSnp :=
  { s with measurements := ProtoEndorse.reorder (natList (f.get "order")) s.measurements }

def rawPart (f : Fields) (enc : Unit → Bytes) : String :=
  if f.has "order" then " raw=" ++ hexEncode (enc ()) else ""

def showDec {α : Type} (sh : α → String) : Option α → String
  | none => "reject"
  | some a => sh a

def handle (f : Fields) : String :=
  match f.get "op" with
  | "enc" =>
    match f.get "t" with
    | "ts" =>
      match parseTs (f.get "ts") with
      | none => "bad-ts"
      | some t => let b := encodeTimestamp t; s!"det={hexEncode b} dec={showDec (fun x => showTs (some x)) (decodeTimestamp b)}"
    | "row" =>
      match parseRows (f.get "xrows") with
      | [r] => let b := encodeRow r; s!"det={hexEncode b} dec={showDec showRow (decodeRow b)}"
      | _ => "bad-row"
    | "tdx" => let b := encodeTdx (parseTdx f); s!"det={hexEncode b} dec={showDec (fun x => showTdx (some x)) (decodeTdx b)}"
    | "snp" =>
      let s := parseSnp f
      let b := encodeSevSnp s
      s!"det={hexEncode b} dec={showDec (fun x => showSnp (some x)) (decodeSevSnp b)}" ++
        rawPart f (fun _ => encodeSevSnpRaw (withOrder f s))
    | "gold" =>
      let g := parseGolden f
      let b := encodeGolden g
      s!"det={hexEncode b} dec={showDec showGolden (decodeGolden b)}" ++
        rawPart f (fun _ => encodeGoldenRaw { g with sevSnp := g.sevSnp.map (withOrder f) })
    | "end" => let b := encodeEndorsement (parseEnd f); s!"det={hexEncode b} dec={showDec showEnd (decodeEndorsement b)}"
    | _ => "bad-type"
  | "dec" =>
    let b := f.bytes "b"
    match f.get "t" with
    | "ts" => match decodeTimestamp b with
      | none => "reject" | some m => s!"ok {showTs (some m)} re={hexEncode (encodeTimestamp m)}"
    | "row" => match decodeRow b with
      | none => "reject" | some m => s!"ok {showRow m} re={hexEncode (encodeRow m)}"
    | "tdx" => match decodeTdx b with
      | none => "reject" | some m => s!"ok {showTdx (some m)} re={hexEncode (encodeTdx m)}"
    | "snp" => match decodeSevSnp b with
      | none => "reject" | some m => s!"ok {showSnp (some m)} re={hexEncode (encodeSevSnp m)}"
    | "gold" => match decodeGolden b with
      | none => "reject" | some m => s!"ok {showGolden m} re={hexEncode (encodeGolden m)}"
    | "end" => match decodeEndorsement b with
      | none => "reject" | some m => s!"ok {showEnd m} re={hexEncode (encodeEndorsement m)}"
    | _ => "bad-type"
  | "varint" => hexEncode (encodeVarint (f.nat "n"))
  | "uvarint" =>
    match decodeVarint (f.bytes "b") with
    | none => "reject"
    | some (v, r) => s!"ok {v} {r.length}"
  | "endorse" =>
    -- endorse.GoldenMeasurement + endorse.SignDoc: the payload that is signed and stored
    match Endorse.goldenMeasurement (Drive.IO.mkPrims f) Endorse.genTables (Drive.IO.parseCtx f) with
    | .ok g =>
      match Endorse.signDoc (Drive.IO.parseKeys f) (Drive.IO.parseTsField (f.get "ts")) g with
      | .ok (d, _) =>
        let w := ProtoEndorse.ofGolden d
        let payload := encodeGoldenRaw { w with sevSnp := w.sevSnp.map (withOrder f) }
        s!"payload={hexEncode payload} verifier={showDec showGolden (decodeGolden payload)}"
      | .err _ => "sign-reject"
      | .panic _ => "sign-panic"
    | .err _ => "golden-reject"
    | .panic _ => "golden-panic"
  | _ => "bad-op"

end GceTcb.Drive.C03Proto
