import GceTcb.Base.Line
import GceTcb.Model.Rotate
import GceTcb.Model.CAStore
/- Driver handler for stream `c11` (storage write logs of gcsca.Finalize and their prefixes). -/
namespace GceTcb.Drive.C11
open GceTcb GceTcb.CA

def insertSorted (x : String) : List String → List String
  | [] => [x]
  | y :: ys => if x = y then y :: ys else if x < y then x :: y :: ys else y :: insertSorted x ys

/-- sorted, duplicates removed -/
def sortU (l : List String) : List String := l.foldr insertSorted []

def b2s (b : Bool) : String := if b then "1" else "0"

def cfgOf (ow : Bool) : Cfg :=
  { ca := .gcsca, km := .memkm, rootPath := "root.crt", certDir := "certs/", bump := bumpName,
    pubPre := 0, pubPost := 0, overwrite := ow }

def rootCert : Cert := ⟨"rootcn", 1, 0, 0⟩
def firstCert : Cert := ⟨"sigcn", 2, 1, 0⟩

def keyName : Nat → String
  | 0 => "sk"
  | n + 1 => bumpName (keyName n)

/-- certificate of the j-th rotation (j ≥ 1): serial 2 + j, key material 1 + j, signed by the root -/
def rotCert (j : Nat) : Cert := ⟨"sig", 2 + j, 1 + j, 0⟩

def showObj : Obj → String
  | .der c => s!"d.{c.cn}-{c.serial}.{c.pub}.{c.sigBy}"
  | .pem c => s!"p.{c.cn}-{c.serial}.{c.pub}.{c.sigBy}"
  | .manifest m => "m." ++ m.root ++ "|" ++ m.signing ++ "|" ++
      ",".intercalate (m.entries.map fun (e : String × String) => e.1 ++ ">" ++ e.2)

def showStore (st : Store) : String :=
  let paths := sortU (st.map (·.1))
  ";".intercalate (paths.filterMap fun p => (lookup st p).map fun o => p ++ "=" ++ showObj o)

def showOp : StoreOp → String
  | .ex p => "e:" ++ p
  | .wr p _ => "w:" ++ p

def orderOf (names : List String) (pending : List (String × Cert)) : List (String × Cert) :=
  names.filterMap fun n => (lookup pending n).map fun c => (n, c)

def isPerm (names : List String) (pending : List (String × Cert)) : Bool :=
  sortU names == sortU (pending.map (·.1)) && names.length == pending.length

/-- the store after bootstrap (visiting order `border`) and `n` completed rotations, write-log model -/
def storeAfter (cfg : Cfg) (border : List String) : Nat → Store
  | 0 =>
    let mu := bootMut "root" "sk" rootCert firstCert
    applyWrites (fullWrites cfg Manifest.empty mu (orderOf border mu.certs)) []
  | n + 1 =>
    let st := storeAfter cfg border n
    let m := (storedManifest st).getD Manifest.empty
    let mu := rotMut (keyName (n + 1)) (rotCert (n + 1))
    applyWrites (fullWrites cfg m mu mu.certs) st

/-- the same history in the call-by-call model of Model/Rotate.lean (fault-free) -/
def runStoreAfter (cfg : Cfg) (border : List String) (n : Nat) : Store :=
  let perm := border.head? == some "sk"
  let s0 := (bootstrap cfg "root" "sk" ⟨"rootcn", 1⟩ ⟨"sigcn", 2⟩ perm noFault St.init).state.reload
  ((List.range n).foldl (fun s i => (rotateKey cfg ⟨"sig", 3 + i⟩ noFault s).state.reload) s0).store

def bits (l : List Bool) : String := String.join (l.map fun b => if b then "1" else "0")

def showManifest (st : Store) : String :=
  match lookup st manifestName with
  | some (.manifest m) => m.root ++ "|" ++ m.signing ++ "|" ++
      ",".intercalate (m.entries.map fun (e : String × String) => e.1 ++ ">" ++ e.2)
  | none => "none"
  | some _ => "bad"

def handle (f : Fields) : String :=
  match f.get "op" with
  | "fin" =>
    let i := f.nat "i"
    let border := f.list "border"
    let histCfg := cfgOf false
    let cfg := cfgOf (f.bool "ow")
    -- `coll`: the rotation AFTER the i-th asks for the i-th's serial (its object is recorded for key i)
    let coll := f.has "coll"
    -- state before the operation
    let st0 : Store := if coll then storeAfter histCfg border i else if i = 0 then [] else storeAfter histCfg border (i - 1)
    let st0 := if f.has "plant" then (f.get "plant", Obj.der ⟨"planted", 0, 99, 0⟩) :: st0 else st0
    let m := (storedManifest st0).getD Manifest.empty
    let mu := if coll then rotMut (keyName (i + 1)) ⟨"sig", 2 + i, 2 + i, 0⟩
      else if i = 0 then bootMut "root" "sk" rootCert firstCert else rotMut (keyName i) (rotCert i)
    let names := f.list "order"
    -- (a refused upload is not probed, so the harness cannot read the visiting order off the storage log: the
    --  one pending certificate of the colliding rotation is visited)
    let order := if coll then mu.certs else orderOf names mu.certs
    let log := finalizeLog cfg st0 m mu order
    let ws := writesOf log
    let cons := (List.range (ws.length + 1)).map fun k => consistentB cfg (applyPrefix k ws st0)
    let final := applyWrites ws st0
    -- cross-check with the call-by-call model when the run is a plain complete one
    let agree := f.has "plant" || coll || showStore (runStoreAfter histCfg border i) == showStore (if i = 0 then final else storeAfter histCfg border i)
    s!"perm={b2s (isPerm names mu.certs)} log={",".intercalate (log.map showOp)} cons={bits cons} man={showManifest final} agree={b2s agree}"
  | _ => "bad-op"

end GceTcb.Drive.C11
