import GceTcb.Base.Line
/- Driver handler for stream `c11` (stub: replaced when the property's model lands). -/
namespace GceTcb.Drive.C11
open GceTcb

def handle (_f : Fields) : String := "unimplemented"

end GceTcb.Drive.C11
