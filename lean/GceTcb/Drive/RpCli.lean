import GceTcb.Base.Line
import GceTcb.Model.RpCli
import GceTcb.Drive.C01
import GceTcb.Drive.PolicyLine
import GceTcb.Drive.C17
/-
Driver handler for `rpcli` lines (streams c01cli, c02cli, c17cli): one command line of the relying-party tool
`gcetcbendorsement` through `RpCli.run` / `RpCli.measure`.

  cmd=     command path with `.` for the blank (`sev.validate`; `root` = the root command)
  flags=   every flag occurrence in argv order, `name:value` separated by `,` (`_` = the empty value)
  args=    positional arguments, `,`-separated
  nums=    numeral table `text@value` (`E` = not a numeral) for the value texts of numeric flags: the VALUE written,
           computed by the harness; the size limits are the model's
  fs=      files `path:token`; tokens are synthetic names of file contents (as in stream c01):
             E<i> container of endorsement i    G garbage container    Z the empty file    A the attestation
             R the root-certificate data         X junk                 B<k> base policy file k (`bp<k>=` describes it)
  getter=  `nil`, or `ROOT:<token>` (what the getter returns for DefaultRootURL; `ROOT:-` = it fails)
  term= createfail= writefail=   `,`-separated paths

  view=v   (c01cli) facts of the endorsements / root data / attestation computed independently by the harness, as
           in stream c01; result: accept | reject:<coarse class> | panic, and the effect log
  view=m   (c02cli) the measurement tables themselves (as stream c02); result ok | reject
  view=p   (c17cli) the endorsement's table, the base policy, PEM facts (as stream c17); result: the policy
           written, its form and destination, the effect log
-/
namespace GceTcb.Drive.RpCli
open GceTcb GceTcb.RpCli GceTcb.Drive.PolicyLine

def unUnderscore (s : String) : String := if s == "_" then "" else s

def parseCmd (s : String) : String := if s == "root" then "" else s.replace "." " "

def parseFlags (s : String) : List (String × String) :=
  if s == "" then [] else
  (s.splitOn ",").filterMap fun e =>
    match e.splitOn ":" with
    | [k, v] => some (k, unUnderscore v)
    | _ => none

def parseArgs (s : String) : List String := if s == "" then [] else (s.splitOn ",").map unUnderscore

def parseNums (s : String) : List (String × Option Int) :=
  if s == "" then [] else
  (s.splitOn ";").filterMap fun e =>
    match e.splitOn "@" with
    | [k, v] => some (unUnderscore k, if v == "E" then none else v.toInt?)
    | _ => none

def mkLex (f : Fields) : Lex :=
  let tbl := parseNums (f.get "nums")
  let look : String → Option Int := fun s => (tbl.find? (fun p => p.1 == s)).bind (·.2)
  { parseUint := fun s => (look s).bind fun i => if i < 0 then none else some i.toNat
    parseInt := look }

def mkCmdLine (f : Fields) : CmdLine :=
  { cmd := parseCmd (f.get "cmd"), flags := parseFlags (f.get "flags"), args := parseArgs (f.get "args") }

/-! ### file contents by token -/

def junk : Bytes := [0x58]
def baseFile (k : Nat) : Bytes := [0xB0, Drive.C01.byteOf k]

def tokenBytes (t : String) : Option Bytes :=
  if t == "Z" then some []
  else if t == "G" then some Drive.C01.garbage
  else if t == "A" then some Drive.C01.attBytes
  else if t == "R" then some Drive.C01.rootBytes
  else if t == "X" then some junk
  else if t.startsWith "E" then some (Drive.C01.containerOf ((t.drop 1).toNat?.getD 0))
  else if t.startsWith "B" then some (baseFile ((t.drop 1).toNat?.getD 0))
  else none

def parseFsTokens (s : String) : List (String × Bytes) :=
  if s == "" then [] else
  (s.splitOn ";").filterMap fun e =>
    match e.splitOn ":" with
    | [k, v] => (tokenBytes v).map fun b => (k, b)
    | _ => none

def pathSet (s : String) : String → Bool :=
  let l := if s == "" then [] else s.splitOn ","
  fun p => l.contains p

def mkGetter (f : Fields) : Option Verify.Getter :=
  let g := f.get "getter"
  if g == "nil" || g == "" then none
  else
    let tok := (g.splitOn ":").getD 1 "-"
    some fun url => if url == Verify.defaultRootURL then tokenBytes tok else none

def mkEnv (f : Fields) : Env String :=
  let fs := parseFsTokens (f.get "fs")
  let cf := pathSet (f.get "createfail")
  let wf := pathSet (f.get "writefail")
  { readFile := fun p => (fs.find? (fun q => q.1 == p)).map (·.2)
    getter := mkGetter f
    now := "T"
    createOk := fun p => !cf p
    isTerminal := pathSet (f.get "term")
    writeOk := fun p => !wf p }

/-! ### primitives -/

/-- the root data `R` holds `rootpem` certificates that AppendCertsFromPEM would add (ids 100, 101, …), and parses
    as ONE DER certificate iff `rootder` -/
def rootPemIds (f : Fields) : List Nat := (List.range (f.nat "rootpem")).map (· + 100)

def expectedPoolIds (f : Fields) : List Nat :=
  if (rootPemIds f).isEmpty then (if f.bool "rootder" then [100] else []) else rootPemIds f

def poolName (l : List Nat) : String := "R" ++ toString l

/-- base policy file k as the line describes it (`bp<k>=` in the syntax of stream c17; `garbage` = does not
    unmarshal) -/
def sevBasePolicy (f : Fields) (b : Bytes) : Option (Policy.SevPolicy Unit) :=
  if b.isEmpty then some ⟨0, [], 0, [], [], ()⟩
  else match Drive.C01.idxOf 0xB0 b with
    | some k => parseSevPolicy (f.get s!"bp{k}")
    | none => none

def tdxBasePolicy (f : Fields) (b : Bytes) : Option (Policy.TdxPolicy Unit Unit) :=
  if b.isEmpty then some ⟨none, ()⟩
  else match Drive.C01.idxOf 0xB0 b with
    | some k => if f.get s!"bp{k}" == "garbage" || f.get s!"bp{k}" == "" then none else parseTdxBase (f.get s!"bp{k}")
    | none => none

/-- Verify.Prims from the facts of the line (as Drive.C01.mkPrims), with the policy primitives answering for the
    configuration the facts were computed for: `polvmsas` / `polram`, `polow`, `polbase` (0 = no base policy). -/
def mkVPrims (f : Fields) : Verify.Prims Nat String String :=
  let base := Drive.C01.mkPrims f
  let n := f.nat "ne"
  let facts : Nat → Option Drive.C01.EFacts := fun i => if i < n then some (Drive.C01.eFacts f i) else none
  { base with
    parseCert := fun b =>
      if b == Drive.C01.rootBytes then (if f.bool "rootder" then some 100 else none) else base.parseCert b
    verifyChain := fun c r t =>
      r == poolName (expectedPoolIds f) && t == "T" && (match facts c with | some x => x.chain | none => false)
    sevPolicyOptions := fun e vmsas ow tag =>
      if vmsas == f.nat "polvmsas" && ow == f.bool "polow" && tag == f.nat "polbase" then
        match Drive.C01.idxOf 0xA0 e.payload with
        | some i => match facts i with
          | some x => if x.sevVopts then some (i + 1) else none
          | none => none
        | none => none
      else none
    tdxPolicyOptions := fun e ram ow tag =>
      if ram == ramTag (f.int "polram") && ow == f.bool "polow" && tag == f.nat "polbase" then
        match Drive.C01.idxOf 0xA0 e.payload with
        | some i => match facts i with
          | some x => if x.tdxVopts then some (i + 1) else none
          | none => none
        | none => none
      else none }

def mkPrims (f : Fields) : Prims Nat String String Unit Unit :=
  { v := mkVPrims f
    pemCerts := fun b => if b == Drive.C01.rootBytes then rootPemIds f else []
    poolOf := poolName
    unmarshalSevPolicy := sevBasePolicy f
    unmarshalTdxPolicy := tdxBasePolicy f
    parseAttestation := Drive.C01.mkParse f }

/-- endorsement i's golden sections, for views m and p: `g<i>=` (sev, syntax of c17) / `rows<i>=` (tdx);
    `gbad<i>=1`: the payload does not unmarshal -/
def endoIdx (e : Verify.Endorsement) : Nat := (Drive.C01.idxOf 0xA0 e.payload).getD 0

def mkPolicyPrims (f : Fields) : PolicyPrims Unit Unit :=
  { pem := parsePem (f.get "pem")
    dflt := Drive.C17.dfltSev (f.nat "dflt")
    emptyQ := ()
    emptyR := ()
    goldenSev := fun e => if f.bool s!"gbad{endoIdx e}" then none else some (parseSev (f.get s!"g{endoIdx e}"))
    goldenTdx := fun e => if f.bool s!"gbad{endoIdx e}" then none else some (parseRows (f.get s!"rows{endoIdx e}")) }

def tagOf {α : Type} : Option α → Nat
  | none => 0
  | some _ => 1

def mkWorld (f : Fields) : World Nat String String Unit Unit :=
  { P := mkPrims f, L := mkLex f, G := mkPolicyPrims f, tagS := tagOf, tagT := tagOf }

def mkMeasure (f : Fields) : MeasurePrims :=
  { reportMeasurement := fun b => if b == Drive.C01.attBytes && f.get "attkind" == "sev" then some (f.bytes "rm") else none
    quoteMrtd := fun b => if b == Drive.C01.attBytes && f.get "attkind" == "tdx" then some (f.bytes "mrtd") else none
    extracted := fun _ =>
      if f.has "extracted" then
        let i := f.nat "extracted"
        some ⟨Drive.C01.payloadOf i, Drive.C01.signatureOf i⟩
      else none
    digest := fun e => f.bytes s!"gd{endoIdx e}"
    otherChecks := fun _ _ => f.bool "other" }

/-! ### printing -/

/-- the coarse class the harness can tell from the error text -/
def coarse (c : String) : String :=
  if c == "parse" || c == "args" || c == "outform" || c == "attestation-read" || c == "no-getter" || c == "root-parse"
      || c == "no-subcommand" || c == "create" || c == "write" || c == "unmodelled" then c
  else if c == "base-read" || c == "read" then "read"
  else if c == "base-unmarshal" || c == "endorsement-unmarshal" then "unmarshal"
  else if c == "root-read" || c == "root-fetch" then "root-get"
  else "lib"

def showForm : OutForm → String
  | .text => "text" | .raw => "raw" | .hex => "hex" | .base64 => "base64"

def showWritten : Written Unit Unit → String
  | .openssl path root => s!"openssl/{path}/{root}"
  | .sevPolicy form q =>
    s!"sev/{showForm form}/policy={q.policy}/meas={hexEncode q.measurement}/minsvn={q.minimumGuestSvn}/id={showHexList q.trustedIdKeys}/auth={showHexList q.trustedAuthorKeys}"
  | .tdxPolicy form q => s!"tdx/{showForm form}/mrtds={showHexList ((q.body.map (·.anyMrTd)).getD [])}"

def showEffect : Effect Unit Unit → String
  | .create p => s!"create:{p}"
  | .write p w => s!"write:{p}:{showWritten w}"

def showRun (r : Run Unit Unit) : String :=
  let res := match r.result with
    | .ok _ => "accept"
    | .err c => "reject:" ++ coarse c
    | .panic _ => "panic"
  s!"res={res} eff={",".intercalate (r.effects.map showEffect)}"

def handle (f : Fields) : String :=
  match f.get "op" with
  | "run" =>
    let W := mkWorld f
    let E := mkEnv f
    let cl := mkCmdLine f
    match f.get "view" with
    | "v" => showRun (run W E cl)
    | "p" => showRun (run W E cl)
    | "m" =>
      -- the command line must reach the library call (files, roots) for the measurement reading to apply
      match callOf W.P W.L E cl with
      | .ok c => if measureCall W.G (mkMeasure f) c then "res=accept" else "res=reject:lib"
      | .err c => "res=reject:" ++ coarse c
      | .panic _ => "res=panic"
    | _ => "bad-op"
  | _ => "bad-op"

end GceTcb.Drive.RpCli
