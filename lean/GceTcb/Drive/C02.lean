import GceTcb.Base.Line
/- Driver handler for stream `c02` (stub: replaced when the property's model lands). -/
namespace GceTcb.Drive.C02
open GceTcb

def handle (_f : Fields) : String := "unimplemented"

end GceTcb.Drive.C02
