import GceTcb.Base.Line
import GceTcb.Model.Policy
import GceTcb.Drive.PolicyLine
import GceTcb.Drive.C17
/- Driver handler for stream `c02` (measurement validation). -/
namespace GceTcb.Drive.C02
open GceTcb GceTcb.Policy GceTcb.Drive.PolicyLine

def handle (f : Fields) : String :=
  match f.get "op" with
  | "snp" =>
    let meas : Option Bytes := if f.get "meas" == "nil" then none else some (f.bytes "meas")
    okrej (snp (parseSev (f.get "g")) ⟨meas, f.nat "vmsas"⟩)
  | "closure" =>
    okrej (closureMeasurement (parseSev (f.get "g")) (f.bytes "gd") (f.bytes "ed") (f.bytes "rm") (f.nat "vmsas"))
  | "sevvalidate" =>
    okrej (sevValidateMeasurement (parsePem (f.get "pem")) (Drive.C17.dfltSev (f.nat "dflt")) (parseSev (f.get "g")) (f.bytes "gd")
      (f.bytes "rm") (parseSevPolicy (f.get "base")) (f.bool "ow") (f.nat "vmsas") (f.bool "other"))
  | "tdxvalidate" =>
    okrej (tdxValidateMeasurement () () (parseRows (f.get "rows")) (f.bytes "mrtd") (parseTdxBase (f.get "base"))
      (f.bool "ow") (f.int "ram") (f.bool "other"))
  | _ => "bad-op"

end GceTcb.Drive.C02
