import GceTcb.Base.Line
import GceTcb.Model.KeyCli
import GceTcb.Drive.C12
/-
Driver handler for stream `c12cli`: histories of COMMAND LINES of bootstrap / rotate / wipeout through the model of
the command-line wiring (Model/KeyCli.lean: cmdOf, then libStep).

  c12cli op=hist ca=memca|gcsca km=memkm|localkm seq=0|1 instr=0|1 lines=<line>;<line>;…
    line = <b|r|w>|<ow><kg><force>|<root_key_cn>|<signing_key_cn>|<root_key_serial occurrences>|
           <initial_signing_key_serial occ.>|<rotated_key_serial_override occ.>|<timestamp occ.>|<positional args>|
           <os.Stat(key_dir): d|f|n>|<key_dir>|<bucket_root>|<bucket>|<cert_dir>|<root_path>|<now sec.nsec>|<time table>
      strings are hex (UTF-8); occurrence lists are comma-separated hex items, `~` = the empty string, nothing = no
      occurrence; time table = <hex text>@<sec.nsec | E>,… : time.Parse(time.RFC3339, text) computed by the harness
    → the observation after the LAST line:
      phase=<parse|prerun|init|run> cls=<refusal class|-> ctx=<context handed to the library|-> ok=… pr=… ps=… root=… ents=… live=…
      (instr=0, the shipped testing/nonprod root command, has no probes between the phases: init and run are both
       `exec`, without class, and the context is the one read back after a SUCCESSFUL command)
  c12cli op=bigint s=<hex text>  → new(big.Int).SetString(text, 10): the decimal value, or E
-/
namespace GceTcb.Drive.C12Cli
open GceTcb GceTcb.KeyHistory GceTcb.KeyCli GceTcb.CliFlagTypes

def unhex (s : String) : String :=
  match hexDecode s with
  | some b => (String.fromUTF8? (ByteArray.mk b.toArray)).getD ""
  | none => ""

/-- occurrences: comma-separated hex items, `~` = empty string -/
def occ (s : String) : List String :=
  if s == "" then [] else (s.splitOn ",").map fun x => if x == "~" then "" else unhex x

def parseTs (s : String) : Int × Nat :=
  match s.splitOn "." with
  | [a, b] => (a.toInt?.getD 0, b.toNat?.getD 0)
  | [a] => (a.toInt?.getD 0, 0)
  | _ => (0, 0)

def parseTimeTable (s : String) : List (String × Option (Int × Nat)) :=
  if s == "" then [] else
  (s.splitOn ",").filterMap fun e =>
    match e.splitOn "@" with
    | [k, v] => some (unhex k, if v == "E" then none else some (parseTs v))
    | _ => none

structure Line where
  flags : CliFlags
  env : Env
  pt : String → Option (Int × Nat)

def parseLine (s : String) : Option Line :=
  match s.splitOn "|" with
  | [sub, bools, rcn, scn, rs, ss, ov, ts, args, kst, kd, br, bkt, cd, rp, now, tt] =>
    let sb : Option Sub := match sub with | "b" => some .bootstrap | "r" => some .rotate | "w" => some .wipeout | _ => none
    match sb, bools.toList with
    | some sb, [o, k, fo] =>
      let keyDir := unhex kd
      let table := parseTimeTable tt
      some {
        flags := { sub := sb, rootKeyCn := unhex rcn, signingKeyCn := unhex scn, rootKeySerial := occ rs,
                   initialSigningKeySerial := occ ss, rotatedKeySerialOverride := occ ov, timestamp := occ ts,
                   forceProdWipeout := fo == '1', overwrite := o == '1', keepGoing := k == '1', args := occ args,
                   keyDir := keyDir, bucketRoot := unhex br, bucket := unhex bkt, certDir := unhex cd, rootPath := unhex rp }
        env := { now := parseTs now
                 statDir := fun p => if p == keyDir then (match kst with | "d" => some true | "f" => some false | _ => none) else none }
        pt := fun t => (table.find? (fun e => e.1 == t)).bind (·.2) }
    | _, _ => none
  | _ => none

/-- harness `tok`: protocol-safe rendering of free text -/
def tok (s : String) : String :=
  String.ofList (s.toList.map fun c => if c == ' ' || c == '=' || c == ';' || c == ':' || c == ',' || c == '\n' then '_' else c)

def nameOrDash (s : String) : String := if s == "" then "-" else tok s

def showTs (t : Int × Nat) : String := s!"{t.1}.{t.2}"

def showSite : Option Site → String
  | none => "-"
  | some s => s!"{nameOrDash s.bucketRoot}+{nameOrDash s.bucket}+{nameOrDash s.certDir}+{nameOrDash s.rootPath}"

def showFlags (f : Flags) : String := C12.b01 f.overwrite ++ C12.b01 f.keepGoing

def showHanded (W : Wiring) (h : Handed) : String :=
  let kd := match W.km with | .localkm => nameOrDash h.keyDir | .memkm => "-"
  let c := match h.cmd with
    | .bootstrap o c => s!"b/{showFlags o}/{nameOrDash c.rootCn}/{nameOrDash c.signCn}/{c.rootSerial}/{c.signSerial}/{showTs c.now}"
    | .rotate o c => s!"r/{showFlags o}/{nameOrDash c.cn}/{c.serial}/{showTs c.now}"
    | .wipeout o c => s!"w/{showFlags o}/{C12.b01 c.force}{C12.b01 c.ca}{C12.b01 c.keys}"
  s!"{c}/{showSite h.site}/{kd}"

/-- certificate as stream c12 prints it, with model time (seconds since year 0) turned back into Unix seconds -/
def showCert (cfg : Cfg) (s : State) (n : KName) (c : Cert) : String :=
  let self := c.signerKey == c.subjectKey
  let (vr, ir) := match bundle cfg s.ca with
    | some r => (c.signerKey == r.subjectKey, c.issuerCn == r.cn && c.issuerSerial == r.subjSerial)
    | none => (false, false)
  let km := match get s.km.live n with
    | some k => C12.b01 (k == c.subjectKey)
    | none => "x"
  let unix (t : Nat) : Int := Int.ofNat t - epochShift
  "/".intercalate [toString c.certSerial, toString c.subjSerial, nameOrDash c.cn, nameOrDash c.issuerCn, toString c.issuerSerial,
    C12.b01 c.isCA, toString c.keyUsage, toString c.sigAlg, toString (unix c.notBefore), toString (unix c.notAfter),
    C12.b01 self, C12.b01 vr, C12.b01 ir, km]

def observe (cfg : Cfg) (s : State) (ok : Bool) : String :=
  let root := match bundle cfg s.ca with
    | some r => showCert cfg s s.ca.primaryRoot r
    | none => "-"
  let ents := C12.sortStrings (s.ca.entries.map fun (n, p) =>
    C12.nameStr n ++ "@" ++ (match get s.ca.objects p with | some c => showCert cfg s n c | none => "-"))
  let live := C12.sortStrings (s.km.live.map fun (n, _) => C12.nameStr n)
  s!"ok={C12.b01 ok} pr={C12.nameStr s.ca.primaryRoot} ps={C12.nameStr s.ca.primarySigning} root={root} ents={",".intercalate ents} live={",".intercalate live}"

def phaseOf (e : String) : String × String :=
  match e.splitOn ":" with
  | ["parse", _] => ("parse", "-")
  | ["prerun", c] => ("prerun", c)
  | ["init", c] => ("init", c)
  | _ => ("run", "-")

/-- all lines but the last only move the state; the last one is reported -/
def runLines (W : Wiring) (instr : Bool) : State → List Line → String
  | s, [] => s!"phase=- cls=- ctx=- {observe W.cfg s true}"
  | s, [l] =>
    match cmdOf W l.pt l.env s l.flags with
    | .ok h =>
      let r := libStep W.cfg s h.cmd
      let ph := if instr then "run" else "exec"
      let ctx := if instr || r.2 then showHanded W h else "-"
      s!"phase={ph} cls=- ctx={ctx} {observe W.cfg r.1 r.2}"
    | .err e =>
      let p := phaseOf e
      let p := if !instr && p.1 == "init" then ("exec", "-") else p
      s!"phase={p.1} cls={p.2} ctx=- {observe W.cfg s false}"
    | .panic _ => s!"phase=panic cls=- ctx=- {observe W.cfg s false}"
  | s, l :: rest => runLines W instr (cliStep W l.pt l.env s l.flags).1 rest

def handle (f : Fields) : String :=
  match f.get "op" with
  | "hist" =>
    let W : Wiring := ⟨if f.get "ca" == "memca" then .memca else .gcsca,
                       if f.get "km" == "localkm" then .localkm else .memkm, f.bool "seq", true⟩
    let raw := if f.get "lines" == "" then [] else (f.get "lines").splitOn ";"
    let ls := raw.filterMap parseLine
    if ls.length ≠ raw.length then "bad-op" else runLines W (f.bool "instr") State.init ls
  | "bigint" =>
    match parseBigDec (unhex (f.get "s")) with
    | some n => toString n
    | none => "E"
  | _ => "bad-op"

end GceTcb.Drive.C12Cli
