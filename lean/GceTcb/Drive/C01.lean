import GceTcb.Base.Line
import GceTcb.Model.Verify
/-
Driver handler for stream `c01`.

One case = one small "world": up to a few endorsements, each described by the primitive facts the
harness computed INDEPENDENTLY of the code under test (proto.Unmarshal, x509.ParseCertificate,
Certificate.Verify against the case's roots at the case's time, rsa.VerifyPSS with explicit options …),
plus the plumbing of the entry point (which bytes / options / files / getter responses the call gets).
The handler instantiates `Prims` from those facts, runs the model's entry point, prints accept/reject/panic.

Byte strings are synthetic names: container of endorsement i = [E0,i], its payload = [A0,i], its
signature = [5A,i], its certificate = [C0,i] (or empty), garbage container = [BA,D0], root file = [52],
unparsable root file = [BD], attestation file = [A7].  The model can only succeed by handing exactly the
payload name to both `unmarshalGolden` and `checkSigPss256`, and the caller's roots/time to `verifyChain`.
-/
namespace GceTcb.Drive.C01
open GceTcb GceTcb.Verify

def byteOf (n : Nat) : UInt8 := UInt8.ofNat n

def containerOf (i : Nat) : Bytes := [0xE0, byteOf i]
def payloadOf (i : Nat) : Bytes := [0xA0, byteOf i]
def signatureOf (i : Nat) : Bytes := [0x5A, byteOf i]
def certOf (i : Nat) : Bytes := [0xC0, byteOf i]
def garbage : Bytes := [0xBA, 0xD0]
def rootBytes : Bytes := [0x52]
def badRootBytes : Bytes := [0xBD]
def attBytes : Bytes := [0xA7]

def parseTs (s : String) : Option Timestamp :=
  match s.splitOn ":" with
  | [a, b] => some ⟨a.toInt?.getD 0, b.toInt?.getD 0⟩
  | _ => none

def parseMeasList (s : String) : List (Nat × Bytes) :=
  if s == "" then [] else
  (s.splitOn ",").filterMap fun t =>
    match t.splitOn ":" with
    | [k, h] => some (k.toNat?.getD 0, (hexDecode h).getD [])
    | _ => none

/-- `-` = absent; `<svsmhex>/<k>:<hex>,…` -/
def parseSnp (s : String) : Option SevSnp :=
  if s == "-" || s == "" then none else
  match s.splitOn "/" with
  | [sv, ms] => some ⟨(hexDecode sv).getD [], parseMeasList ms⟩
  | _ => none

/-- facts of endorsement `i` -/
structure EFacts where
  ser : Bool        -- its container bytes unmarshal
  golden : Option Golden
  parse : Bool
  chain : Bool
  sig : Bool
  sevVopts : Bool   -- SevPolicy + PolicyToOptions succeed
  snpBase : Bool    -- validate.SnpAttestation without the certificate-table validators succeeds
  tdxVopts : Bool
  tdxQuote : Bool

def eFacts (f : Fields) (i : Nat) : EFacts :=
  let k := fun (s : String) => s!"e{i}.{s}"
  let g : Option Golden :=
    if f.bool (k "g") then
      some { timestamp := parseTs (f.get (k "ts")), clSpec := f.nat (k "cl"),
             commit := List.replicate (f.nat (k "cm")) 0,
             cert := if f.bool (k "c") then certOf i else [],
             digest := f.bytes (k "d"), sevSnp := parseSnp (f.get (k "snp")),
             tdx := if f.bool (k "tdx") then some ⟨[]⟩ else none, other := [] }
    else none
  { ser := f.bool (k "ser"), golden := g, parse := f.bool (k "p"), chain := f.bool (k "ch"),
    sig := f.bool (k "s"), sevVopts := f.bool (k "pol"), snpBase := f.bool (k "base"),
    tdxVopts := f.bool (k "tpol"), tdxQuote := f.bool (k "quote") }

/-- index of a synthetic name with the given prefix -/
def idxOf (pfx : UInt8) (b : Bytes) : Option Nat :=
  match b with
  | [p, i] => if p == pfx then some i.toNat else none
  | _ => none

abbrev Cert := Nat
abbrev Roots := String
abbrev Time := String

def mkPrims (f : Fields) : Prims Cert Roots Time :=
  let n := f.nat "ne"
  let facts : Nat → Option EFacts := fun i => if i < n then some (eFacts f i) else none
  { unmarshalEndorsement := fun b =>
      if b.isEmpty then some ⟨[], []⟩      -- protobuf: empty input is the empty message
      else match idxOf 0xE0 b with
        | some i => match facts i with
          | some x => if x.ser then some ⟨payloadOf i, signatureOf i⟩ else none
          | none => none
        | none => none
    unmarshalGolden := fun b =>
      if b.isEmpty then some Golden.empty
      else match idxOf 0xA0 b with
        | some i => (facts i).bind (·.golden)
        | none => none
    timeFromNil := if f.get "nilts" == "panic" then none else some ⟨0, 0⟩
    parseCert := fun b =>
      match idxOf 0xC0 b with
      | some i => match facts i with
        | some x => if x.parse then some i else none
        | none => none
      | none => none
    verifyChain := fun c r t =>
      r == "R" && t == "T" && (match facts c with | some x => x.chain | none => false)
    checkSigPss256 := fun c m s =>
      m == payloadOf c && s == signatureOf c && (match facts c with | some x => x.sig | none => false)
    objectURL := fun fam m => fam ++ ":" ++ hexEncode m
    loadRootPool := fun b => if b == rootBytes then some "R" else none
    sevPolicyOptions := fun e vmsas ow base =>
      -- the facts were computed for this case's (vmsas, overwrite, base); any other request fails
      if vmsas == f.nat "vmsas" && ow == f.bool "overwrite" && base == 0 then
        match idxOf 0xA0 e.payload with
        | some i => match facts i with
          | some x => if x.sevVopts then some (i + 1) else none
          | none => none
        | none => none
      else none
    snpBaseChecks := fun tag vo =>
      tag == 1 && (match facts (vo - 1) with | some x => vo != 0 && x.snpBase | none => false)
    tdxPolicyOptions := fun e ram ow base =>
      if ram == 0 && ow == f.bool "overwrite" && base == 0 then
        match idxOf 0xA0 e.payload with
        | some i => match facts i with
          | some x => if x.tdxVopts then some (i + 1) else none
          | none => none
        | none => none
      else none
    tdxQuoteChecks := fun tag vo =>
      tag == 1 && (match facts (vo - 1) with | some x => vo != 0 && x.tdxQuote | none => false)
    tdxExtractEndorsement := fun _ => none }

/-- a reference to container bytes: `-` absent, `empty`, `garbage`, or an endorsement index -/
def refBytes (s : String) : Option Bytes :=
  if s == "-" || s == "" then none
  else if s == "empty" then some []
  else if s == "garbage" then some garbage
  else some (containerOf (s.toNat?.getD 0))

/-- a reference to an already unmarshalled endorsement (options that take the proto message) -/
def refEndorsement (s : String) : Option Endorsement :=
  if s == "-" || s == "" then none
  else if s == "empty" then some ⟨[], []⟩
  else let i := s.toNat?.getD 0; some ⟨payloadOf i, signatureOf i⟩

/-- `getter=nil|fail|<ref>` answering only the URL named by `geturl=<family>:<hex measurement>` -/
def mkGetter (f : Fields) (extra : String → Option Bytes := fun _ => none) : Option Getter :=
  let g := f.get "getter"
  if g == "nil" || g == "" then none
  else some fun url =>
    if url == f.get "geturl" then (if g == "fail" then none else refBytes g)
    else extra url

def parseSnpo (s : String) : Option SNPOptions :=
  if s == "-" || s == "" then none else
  match s.splitOn ":" with
  | [v, m] => some ⟨if m == "nil" then none else some ((hexDecode m).getD []), v.toNat?.getD 0⟩
  | _ => none

def mkOptions (f : Fields) : Options Roots Time :=
  { snp := parseSnpo (f.get "snpo"),
    roots := if f.get "roots" == "nil" then none else some "R",
    expectedUefiSha384 := f.bytes "exp",
    now := "T",
    endorsement := refEndorsement (f.get "optE"),
    getter := mkGetter f }

def parseExtras (s : String) : List (String × Bytes) :=
  if s == "" || s == "-" then [] else
  (s.splitOn ",").filterMap fun t =>
    match t.splitOn ":" with
    | [k, r] => (refBytes r).map fun b => (k, b)
    | _ => none

def mkAttestation (f : Fields) : Option Attestation :=
  let a := f.get "att"
  if a == "nil" then none
  else some ⟨1, (hexDecode a).getD [], parseExtras (f.get "extras")⟩

def mkParse (f : Fields) : Bytes → Option TeeAttestation := fun b =>
  if b != attBytes then none else
  match f.get "attparse" with
  | "sev" => (mkAttestation f).map .sevSnp
  | "tdx" => some (.tdx 1)
  | "other" => some .other
  | _ => none

def mkBackend (f : Fields) : Backend Time :=
  let rootGet : String → Option Bytes := fun url =>
    if url == defaultRootURL then
      match f.get "rootget" with
      | "ok" => some rootBytes
      | "bad" => some badRootBytes
      | _ => none
    else none
  { readFile := fun p =>
      if p == "att" then (if f.get "attfile" == "ok" then some attBytes else none)
      else if p == "endorsement" then refBytes (f.get "efile")
      else if p == "root" then
        match f.get "rootfile" with
        | "ok" => some rootBytes
        | "bad" => some badRootBytes
        | _ => none
      else none
    getter :=
      if f.get "rootget" == "nil" && (f.get "getter" == "nil" || f.get "getter" == "") then none
      else some fun url =>
        match (mkGetter f).bind (· url) with
        | some b => some b
        | none => rootGet url
    now := "T" }

def showRes : Res → String
  | .ok _ => "accept"
  | .err _ => "reject"
  | .panic _ => "panic"

def handle (f : Fields) : String :=
  let P := mkPrims f
  match f.get "op" with
  | "run" =>
    match f.get "ep" with
    | "endorsement" =>
      showRes (run P .endorsement ((refBytes (f.get "ser")).getD [], mkOptions f))
    | "proto" =>
      match refEndorsement (f.get "e") with
      | some e => showRes (run P .endorsementProto (e, mkOptions f))
      | none => "bad-op"
    | "closure" =>
      let i : ClosureInput Roots Time := ⟨f.get "fam", mkOptions f, mkAttestation f, refBytes (f.get "ser")⟩
      match refEndorsement (f.get "optE") with
      | some e => showRes (run P .snpClosurePre (i, e))
      | none => showRes (run P .snpClosure i)
    | "sev" =>
      showRes (run P .sevValidate (mkAttestation f,
        { endorsement := refEndorsement (f.get "optE"), basePolicy := 0, overwrite := f.bool "overwrite",
          roots := if f.get "roots" == "nil" then none else some "R", now := "T", getter := mkGetter f,
          expectedLaunchVmsas := f.nat "vmsas", testonlyForceGCS := f.bool "force" }))
    | "tdx" =>
      showRes (run P .tdxValidate (mkParse f, attBytes,
        { endorsement := refEndorsement (f.get "optE"), basePolicy := 0, overwrite := f.bool "overwrite",
          roots := if f.get "roots" == "nil" then none else some "R", now := "T", expectedRAMGiB := 0 }))
    | "cliverify" =>
      showRes (run P .cliVerify (mkBackend f, "endorsement", if f.bool "rootarg" then "root" else ""))
    | "clisev" =>
      showRes (run P .cliSevValidate (mkParse f, mkBackend f,
        { attestationPath := "att", endorsementPath := if f.get "efile" == "-" then "" else "endorsement",
          root := if f.bool "rootarg" then "root" else "", basePolicy := 0, overwrite := f.bool "overwrite",
          testonlyForceGCS := f.bool "force" }))
    | "clitdx" =>
      showRes (run P .cliTdxValidate (mkParse f, mkBackend f,
        { attestationPath := "att", endorsementPath := if f.get "efile" == "-" then "" else "endorsement",
          root := if f.bool "rootarg" then "root" else "", basePolicy := 0, overwrite := f.bool "overwrite",
          testonlyForceGCS := false }))
    | "ops" =>
      -- sign/ops.VerifySignatureFromCA: certificate 0, pool "R", facts e0.ch / e0.s
      showRes (opsVerifySignatureFromCA P (if f.bool "cert" then some 0 else none)
        (if f.bool "pool" then some "R" else none) "T" (payloadOf 0) (signatureOf 0))
    | _ => "bad-op"
  | _ => "bad-op"

end GceTcb.Drive.C01
