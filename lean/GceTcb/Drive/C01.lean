import GceTcb.Base.Line
/- Driver handler for stream `c01` (stub: replaced when the property's model lands). -/
namespace GceTcb.Drive.C01
open GceTcb

def handle (_f : Fields) : String := "unimplemented"

end GceTcb.Drive.C01
