import GceTcb.Base.Line
import GceTcb.Model.VerifyWire
/-
Driver handler for stream `c01wire`: the verification model with protobuf instantiated by the wire codec
(`VerifyWire.wirePrims`), run on the RAW container bytes of the case.

The line carries the container in hex and, as facts computed by the harness with the standard library
only, the cryptographic verdicts for every (payload, signature) pair the container could denote:

  cont=<hex>                      the container bytes handed to the entry point
  np=<n> p<i>=<off>:<len>         candidate payloads: byte ranges of the container
  p<i>.c=<off>:<len>|-            the certificate bytes inside payload i (range of the container), - = none
  p<i>.cp / p<i>.ch               x509.ParseCertificate ok / Certificate.Verify(roots, now) ok
  ns=<m> s<j>=<off>:<len>         candidate signatures
  sg=<i>.<j>,…                    pairs for which rsa.VerifyPSS(cert_i.key, SHA-256(payload_i), sig_j, salt 32) holds

Which payload and which signature the container denotes, and which certificate the payload carries, is
decided by the MODEL's decoders from the bytes; the facts are looked up by content.  A certificate is
represented by its DER bytes.
-/
namespace GceTcb.Drive.C01Wire
open GceTcb GceTcb.Verify GceTcb.VerifyWire

abbrev Cert := Bytes
abbrev Roots := String
abbrev Time := String

/-- `<off>:<len>` as a range of `cont`; `-` or malformed = none -/
def range (cont : Bytes) (s : String) : Option Bytes :=
  match s.splitOn ":" with
  | [a, b] =>
    match a.toNat?, b.toNat? with
    | some off, some len => some ((cont.drop off).take len)
    | _, _ => none
  | _ => none

structure PFact where
  payload : Bytes
  cert : Option Bytes
  parse : Bool
  chain : Bool

structure Facts where
  payloads : List PFact
  sigs : List Bytes
  good : List (Nat × Nat)

def parsePairs (s : String) : List (Nat × Nat) :=
  if s == "" || s == "-" then [] else
  (s.splitOn ",").filterMap fun t =>
    match t.splitOn "." with
    | [a, b] => some (a.toNat?.getD 0, b.toNat?.getD 0)
    | _ => none

def mkFacts (f : Fields) (cont : Bytes) : Facts :=
  let ps := (List.range (f.nat "np")).map fun i =>
    let k := s!"p{i}"
    { payload := (range cont (f.get k)).getD [], cert := range cont (f.get (k ++ ".c")),
      parse := f.bool (k ++ ".cp"), chain := f.bool (k ++ ".ch") : PFact }
  let ss := (List.range (f.nat "ns")).map fun j => (range cont (f.get s!"s{j}")).getD []
  ⟨ps, ss, parsePairs (f.get "sg")⟩

def Facts.parseCert (x : Facts) (b : Bytes) : Option Cert :=
  if x.payloads.any (fun p => p.cert == some b && p.parse) then some b else none

def Facts.chain (x : Facts) (c : Cert) : Bool := x.payloads.any (fun p => p.cert == some c && p.chain)

def Facts.sigOk (x : Facts) (c : Cert) (m s : Bytes) : Bool :=
  x.good.any fun (i, j) =>
    match x.payloads[i]?, x.sigs[j]? with
    | some p, some sg => p.cert == some c && p.payload == m && sg == s
    | _, _ => false

def rootBytes : Bytes := [0x52]

/-- the crypto / plumbing primitives of the case (the two protobuf fields are overridden by `wirePrims`) -/
def mkX (f : Fields) (x : Facts) : Prims Cert Roots Time :=
  { unmarshalEndorsement := fun _ => none
    unmarshalGolden := fun _ => none
    timeFromNil := if f.get "nilts" == "panic" then none else some ⟨0, 0⟩
    parseCert := x.parseCert
    verifyChain := fun c r t => r == "R" && t == "T" && x.chain c
    checkSigPss256 := x.sigOk
    objectURL := fun fam m => fam ++ ":" ++ hexEncode m
    loadRootPool := fun b => if b == rootBytes then some "R" else none
    sevPolicyOptions := fun _ _ _ _ => none
    snpBaseChecks := fun _ _ => false
    tdxPolicyOptions := fun _ _ _ _ => none
    tdxQuoteChecks := fun _ _ => false
    tdxExtractEndorsement := fun _ => none }

def parseSnpo (s : String) : Option SNPOptions :=
  if s == "-" || s == "" then none else
  match s.splitOn ":" with
  | [v, m] => some ⟨if m == "nil" then none else some ((hexDecode m).getD []), v.toNat?.getD 0⟩
  | _ => none

def showRes : Res → String
  | .ok _ => "accept"
  | .err _ => "reject"
  | .panic _ => "panic"

/-- which candidate pair the container denotes for the codec: `i.j`, `-` when it does not decode, `?` when
    the decoded payload / signature is not among the candidates -/
def showSel (x : Facts) (cont : Bytes) : String :=
  match ProtoWire.decodeEndorsement cont with
  | none => "-"
  | some e =>
    let i := x.payloads.findIdx? (fun p => p.payload == e.serializedUefiGolden)
    let j := x.sigs.findIdx? (fun s => s == e.signature)
    match i, j with
    | some i, some j => s!"{i}.{j}"
    | _, _ => "?"

def handle (f : Fields) : String :=
  let cont := f.bytes "cont"
  let x := mkFacts f cont
  let P := wirePrims (mkX f x)
  let roots : Option Roots := if f.get "roots" == "nil" then none else some "R"
  let opts : Options Roots Time :=
    { snp := parseSnpo (f.get "snpo"), roots := roots, expectedUefiSha384 := f.bytes "exp", now := "T",
      endorsement := none, getter := none }
  let res : Option Res :=
    match f.get "op" with
    | "endorsement" => some (run P .endorsement (cont, opts))
    | "closure" =>
      let att : Attestation := ⟨1, f.bytes "att", []⟩
      let fam := f.get "fam"
      if f.get "mode" == "get" then
        let getter : Getter := fun url => if url == fam ++ ":" ++ f.get "att" then some cont else none
        some (run P .snpClosure ⟨fam, { opts with getter := some getter }, some att, none⟩)
      else some (run P .snpClosure ⟨fam, opts, some att, some cont⟩)
    | "cliverify" =>
      let b : Backend Time :=
        { readFile := fun p => if p == "endorsement" then some cont else if p == "root" then some rootBytes else none
          getter := none, now := "T" }
      some (run P .cliVerify (b, "endorsement", "root"))
    | _ => none
  match res with
  | none => "bad-op"
  | some r => showRes r ++ " sel=" ++ showSel x cont

end GceTcb.Drive.C01Wire
