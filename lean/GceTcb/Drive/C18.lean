import GceTcb.Base.Line
/- Driver handler for stream `c18` (stub: replaced when the property's model lands). -/
namespace GceTcb.Drive.C18
open GceTcb

def handle (_f : Fields) : String := "unimplemented"

end GceTcb.Drive.C18
