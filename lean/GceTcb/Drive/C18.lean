import GceTcb.Base.Line
import GceTcb.Model.Codecs
import GceTcb.Model.EventLog
import GceTcb.Model.EventLogRecv
/-
Driver handler for stream `c18` (binary codecs).

  c18 op=put   s=<struct> <fields> buf=<hex>        Put / PutX into a buffer          → ok:<hex> | err | panic
  c18 op=dec   s=<struct> b=<hex>                   …FromBytes                         → ok:<fields> | err | panic
  c18 op=write s=<hob> <fields>                     WriteTo into an empty buffer       → ok:<hex> | err
  c18 op=create uuid=<hex> data=<hex>               CreateEFIHOBGUID + WriteTo         → ok:<fields>:<hex> | err
  c18 op=rd    s=<item> kind=buffer|reader b=<hex>  Unmarshal from a reader            → ok:<value> rest=<n> | eof | err
  c18 op=wr    s=<item> v=<value>                   Marshal                            → ok:<hex> | err
  c18 op=rdinto s=<item> kind=… prev=<hex>,<hex>…|- b=<hex>   Unmarshal of each `prev` input and then of `b` into ONE
        value that starts as the zero value (errors of the `prev` decodes are ignored: the receiver keeps what they left)
                                                     → ok:<value>[ rest=<n>] enc=<hex>|err  |  eof:<value> enc=…  |  err:<value> enc=…
        (<value> is what the receiver holds after the call — also after a failed one — and enc its Marshal result)
  c18 op=popinto prev=<hex>,…|- b=<hex>             FwGUIDEntry.PopulateFromBytes into one value → ok|err|panic:size=…,guid=…
  c18 op=putinto s=reset addr= size= guid= buf=<hex> PutSevEsResetBlock, the buffer on every path → ok|err:<hex>

`strictShortRead` selects the model of the event-log readers: `true` = the code as it is in the
repository after the event-log repair (readExact / io.ReadFull, log ends only at a clean end of input),
`false` = the code before it (readSizedArray ignored short reads, any io.EOF ended the log).
-/
namespace GceTcb.Drive.C18
open GceTcb GceTcb.Codec GceTcb.Codecs GceTcb.EventLog

/-- the version of eventlog/unmarshal.go this tree has -/
def strictShortRead : Bool := true

def showOutcome {α : Type} (f : α → String) : Outcome α → String
  | .ok a => "ok:" ++ f a
  | .err _ => "err"
  | .panic _ => "panic"

def hex (b : Bytes) : String := hexEncode b

def showGuid (g : EfiGuid) : String := s!"d1={g.d1},d2={g.d2},d3={g.d3},d4={hex g.d4}"
def getGuid (f : Fields) : EfiGuid := ⟨f.nat "d1", f.nat "d2", f.nat "d3", f.bytes "d4"⟩

def showTdxSection (s : TdxSection) : String :=
  s!"{s.dataOffset}:{s.dataSize}:{s.memoryBase}:{s.memorySize}:{s.sectionType}:{s.attributes}"

def parseTdxSection (s : String) : Option TdxSection :=
  match (s.splitOn ":").map (·.toNat?.getD 0) with
  | [a, b, c, d, e, g] => some ⟨a, b, c, d, e, g⟩
  | _ => none

def getTdxDesc (f : Fields) : TdxDescriptor := ⟨f.nat "signature", f.nat "length", f.nat "version", f.nat "count"⟩
def showTdxDesc (d : TdxDescriptor) : String :=
  s!"signature={d.signature},length={d.length},version={d.version},count={d.sectionCount}"

def semiList (s : String) : List String := if s == "" then [] else s.splitOn ";"

def handlePut (f : Fields) : String :=
  let buf := f.bytes "buf"
  match f.get "s" with
  | "guid" => showOutcome hex (efiGuidPut (getGuid f) buf)
  | "uuid" => showOutcome hex (putUUID (f.bytes "u") buf)
  | "fwentry" => showOutcome hex (fwGuidEntryPut ⟨f.nat "size", f.bytes "guid"⟩ buf)
  | "sevmeta" => showOutcome hex (sevMetadataPut ⟨f.nat "signature", f.nat "length", f.nat "version", f.nat "sections"⟩ buf)
  | "sevsec" => showOutcome hex (sevMetadataSectionPut ⟨f.nat "address", f.nat "length", f.nat "kind"⟩ buf)
  | "mdoff" => showOutcome hex (metadataOffsetPut ⟨f.nat "offset", ⟨f.nat "size", f.bytes "guid"⟩⟩ buf)
  | "reset" => showOutcome hex (putSevEsResetBlock ⟨f.nat "addr", f.nat "size", f.bytes "guid"⟩ buf)
  | "tdxdesc" => showOutcome hex (tdxDescriptorPut (getTdxDesc f) buf)
  | "tdxsec" =>
    match parseTdxSection (f.get "sec") with
    | some s => showOutcome hex (tdxSectionPut s buf)
    | none => "bad-op"
  | "tdxmeta" => showOutcome hex (tdxMetadataPut ⟨getTdxDesc f, (semiList (f.get "secs")).filterMap parseTdxSection⟩ buf)
  | "pageinfo" =>
    showOutcome hex (pageInfoPut ⟨f.bytes "digest", f.bytes "contents", f.nat "length", f.nat "type", f.nat "imi",
      f.nat "v1", f.nat "v2", f.nat "v3", f.nat "gpa"⟩ buf)
  | "vmcbseg" => showOutcome hex (putVmcbSeg ⟨f.nat "selector", f.nat "attrib", f.nat "limit", f.nat "base"⟩ buf)
  | _ => "bad-op"

def handleDec (f : Fields) : String :=
  let b := f.bytes "b"
  match f.get "s" with
  | "guid" => showOutcome showGuid (parseEFIGUID b)
  | "uuid" => showOutcome (fun u => "u=" ++ hex u) (fromEFIGUID b)
  | "fwentry" => showOutcome (fun e => s!"size={e.size},guid={hex e.guid}") (fwGuidEntryFromBytes b)
  | "sevmeta" =>
    showOutcome (fun s => s!"signature={s.signature},length={s.length},version={s.version},sections={s.sections}")
      (sevMetadataFromBytes b)
  | "sevsec" => showOutcome (fun s => s!"address={s.address},length={s.length},kind={s.kind}") (sevMetadataSectionFromBytes b)
  | "mdoff" => showOutcome (fun m => s!"offset={m.offset},size={m.entry.size},guid={hex m.entry.guid}") (metadataOffsetFromBytes b)
  | "reset" => showOutcome (fun r => s!"addr={r.addr},size={r.size},guid={hex r.guid}") (sevEsResetBlockFromBytes b)
  | "tdxdesc" => showOutcome showTdxDesc (tdxDescriptorFromBytes b)
  | "tdxsec" => showOutcome (fun s => "sec=" ++ showTdxSection s) (tdxSectionFromBytes b)
  | "tdxmeta" =>
    showOutcome (fun m => showTdxDesc m.header ++ ",secs=" ++ ";".intercalate (m.sections.map showTdxSection))
      (tdxMetadataFromBytes b)
  | _ => "bad-op"

def getHobHeader (f : Fields) : HobHeader := ⟨f.nat "type", f.nat "len"⟩

def handleWrite (f : Fields) : String :=
  match f.get "s" with
  | "hobhdr" => "ok:" ++ hex (hobHeaderWriteTo (getHobHeader f))
  | "handoff" =>
    "ok:" ++ hex (handoffWriteTo ⟨getHobHeader f, f.nat "version", f.nat "bootmode", f.nat "top", f.nat "bottom",
      f.nat "freetop", f.nat "freebottom", f.nat "end"⟩)
  | "resource" =>
    "ok:" ++ hex (resourceWriteTo ⟨getHobHeader f, getGuid f, f.nat "rtype", f.nat "rattr", f.nat "start", f.nat "rlen"⟩)
  | "guidhob" => showOutcome hex (guidHobWriteTo ⟨getHobHeader f, getGuid f, f.bytes "data"⟩)
  | _ => "bad-op"

def handleCreate (f : Fields) : String :=
  match createEFIHOBGUID (f.bytes "uuid") (f.bytes "data") with
  | .ok h => s!"ok:type={h.header.hobType},len={h.header.hobLength},{showGuid h.guid},datalen={h.data.length}:" ++
      showOutcome hex (guidHobWriteTo h)
  | .err _ => "err"
  | .panic _ => "panic"

/-! event log values as text -/

def showEvent3 (e : Event3) : String :=
  "/".intercalate [toString e.platformManufacturerId, hex e.referenceManifestGuid, hex e.platformManufacturerStr,
    hex e.platformModel, hex e.platformVersion, hex e.firmwareManufacturerStr, toString e.firmwareManufacturerId,
    hex e.firmwareVersion, toString e.rimLocatorType, hex e.rimLocator, toString e.platformCertLocatorType,
    hex e.platformCertLocator]

def hexD (s : String) : Bytes := (hexDecode s).getD []
def natD (s : String) : Nat := s.toNat?.getD 0

def parseEvent3 (s : String) : Option Event3 :=
  match s.splitOn "/" with
  | [a, b, c, d, e, g, h, i, j, k, l, m] =>
    some ⟨natD a, hexD b, hexD c, hexD d, hexD e, hexD g, natD h, hexD i, natD j, hexD k, natD l, hexD m⟩
  | _ => none

def showData : EventData → String
  | .raw d => "raw:" ++ hex d
  | .event3 e => "ev3:" ++ showEvent3 e

def parseData (s : String) : Option EventData :=
  if s.startsWith "raw:" then some (.raw (hexD (s.drop 4).toString))
  else if s.startsWith "ev3:" then (parseEvent3 (s.drop 4).toString).map .event3
  else none

def showDigest (d : Digest) : String := s!"{d.alg}:{hex d.digest}"
def showDigests (ds : List Digest) : String := if ds.isEmpty then "-" else "+".intercalate (ds.map showDigest)

def parseDigest (s : String) : Option Digest :=
  match s.splitOn ":" with
  | [a, d] => some ⟨natD a, hexD d⟩
  | _ => none

def parseDigests (s : String) : List Digest := if s == "-" || s == "" then [] else (s.splitOn "+").filterMap parseDigest

def showPcrEvent (e : PcrEvent) : String := s!"{e.pcrIndex}|{e.eventType}|{hex e.sha1}|{showData e.data}"
def showEvent2 (e : Event2) : String := s!"{e.pcrIndex}|{e.eventType}|{showDigests e.digests}|{showData e.data}"
def showLog (l : Log) : String := showPcrEvent l.header ++ "#" ++ ";".intercalate (l.events.map showEvent2)

def parsePcrEvent (s : String) : Option PcrEvent :=
  match s.splitOn "|" with
  | [a, b, c, d] => (parseData d).map fun x => ⟨natD a, natD b, hexD c, x⟩
  | _ => none

def parseEvent2 (s : String) : Option Event2 :=
  match s.splitOn "|" with
  | [a, b, c, d] => (parseData d).map fun x => ⟨natD a, natD b, parseDigests c, x⟩
  | _ => none

def parseLog (s : String) : Option Log :=
  match s.splitOn "#" with
  | [h, es] => (parsePcrEvent h).map fun hd => ⟨hd, (semiList es).filterMap parseEvent2⟩
  | _ => none

def showRes {α : Type} (f : α → String) (withRest : Bool) : Res α → String
  | .ok a rest => "ok:" ++ f a ++ (if withRest then s!" rest={rest.length}" else "")
  | .eof => "eof"
  | .fail => "err"

def showOpt : Option Bytes → String
  | some b => "ok:" ++ hex b
  | none => "err"

def handleRd (f : Fields) : String :=
  let b := f.bytes "b"
  let cfg : Cfg := ⟨strictShortRead, if f.get "kind" == "reader" then .reader else .buffer⟩
  match f.get "s" with
  | "cstr" => showRes hex true (readCStr cfg b)
  | "u32arr" => showRes hex true (readU32Array cfg b)
  | "guid" => showRes hex true (readGuid b)
  | "digest" => showRes showDigest true (readDigest b)
  | "pcrevent" => showRes showPcrEvent true (readPcrEvent cfg b)
  | "event2" => showRes showEvent2 true (readEvent2 cfg b)
  | "log" => showRes showLog false (readLog cfg b)
  | "event3" => showRes showEvent3 false (unmarshalEvent3 strictShortRead b)
  | _ => "bad-op"

def handleWr (f : Fields) : String :=
  let v := f.get "v"
  match f.get "s" with
  | "cstr" => showOpt (writeCStr (hexD v))
  | "u32arr" => showOpt (writeU32Array (hexD v))
  | "guid" => "ok:" ++ hex (writeGuid (hexD v))
  | "digest" => match parseDigest v with | some d => showOpt (writeDigest d) | none => "bad-op"
  | "pcrevent" => match parsePcrEvent v with | some e => showOpt (writePcrEvent e) | none => "bad-op"
  | "event2" => match parseEvent2 v with | some e => showOpt (writeEvent2 e) | none => "bad-op"
  | "log" => match parseLog v with | some l => showOpt (writeLog l) | none => "bad-op"
  | "event3" => match parseEvent3 v with | some e => showOpt (marshalEvent3 e) | none => "bad-op"
  | _ => "bad-op"

/-! decoding into a used receiver (Model/EventLogRecv.lean) -/

def showEnc : Option Bytes → String
  | some b => hex b
  | none => "err"

def showRRes {α : Type} (f : α → String) (enc : α → Option Bytes) (withRest : Bool) : RRes α → String
  | .ok a rest => "ok:" ++ f a ++ (if withRest then s!" rest={rest.length}" else "") ++ " enc=" ++ showEnc (enc a)
  | .eof a => "eof:" ++ f a ++ " enc=" ++ showEnc (enc a)
  | .fail a => "err:" ++ f a ++ " enc=" ++ showEnc (enc a)

def prevList (s : String) : List Bytes := if s == "-" then [] else (s.splitOn ",").map hexD

/-- the receiver after the `prev` inputs were decoded into the zero value one after the other, then `b` into it -/
def intoChain {α : Type} (step : α → Bytes → RRes α) (zero : α) (prevs : List Bytes) (b : Bytes) : RRes α :=
  step (prevs.foldl (fun r p => (step r p).recv) zero) b

def PcrEvent.zero : PcrEvent := ⟨0, 0, zeros 20, .raw []⟩

def handleRdInto (f : Fields) : String :=
  let b := f.bytes "b"
  let prevs := prevList (f.get "prev")
  let k : RKind := if f.get "kind" == "reader" then .reader else .buffer
  let v := Variant.tree
  match f.get "s" with
  | "cstr" => showRRes hex writeCStr true (intoChain (readCStrInto v k) [] prevs b)
  | "u32arr" => showRRes hex writeU32Array true (intoChain (readU32ArrayInto v k) [] prevs b)
  | "guid" => showRRes hex (fun g => some (writeGuid g)) true (intoChain readGuidInto (zeros 16) prevs b)
  | "digest" => showRRes showDigest writeDigest true (intoChain readDigestInto Digest.zero prevs b)
  | "pcrevent" => showRRes showPcrEvent writePcrEvent true (intoChain (readPcrEventInto v k) PcrEvent.zero prevs b)
  | "event2" => showRRes showEvent2 writeEvent2 true (intoChain (readEvent2Into v k) Event2.zero prevs b)
  | "log" => showRRes showLog writeLog false (intoChain (readLogInto v k) ⟨PcrEvent.zero, []⟩ prevs b)
  | "event3" => showRRes showEvent3 marshalEvent3 false (intoChain (unmarshalEvent3Into v) Event3.zero prevs b)
  | _ => "bad-op"

def showPop (r : Outcome Unit × FwGuidEntry) : String :=
  (match r.1 with | .ok _ => "ok" | .err _ => "err" | .panic _ => "panic") ++ s!":size={r.2.size},guid={hex r.2.guid}"

def handlePopInto (f : Fields) : String :=
  let zero : FwGuidEntry := ⟨0, zeros 16⟩
  let r0 := (prevList (f.get "prev")).foldl (fun r p => (fwGuidEntryPopulateInto r p).2) zero
  showPop (fwGuidEntryPopulateInto r0 (f.bytes "b"))

def handlePutInto (f : Fields) : String :=
  match f.get "s" with
  | "reset" =>
    let r := putSevEsResetBlockInto ⟨f.nat "addr", f.nat "size", f.bytes "guid"⟩ (f.bytes "buf")
    (match r.1 with | .ok _ => "ok:" | .err _ => "err:" | .panic _ => "panic:") ++ hex r.2
  | _ => "bad-op"

def handle (f : Fields) : String :=
  match f.get "op" with
  | "put" => handlePut f
  | "dec" => handleDec f
  | "write" => handleWrite f
  | "create" => handleCreate f
  | "rd" => handleRd f
  | "wr" => handleWr f
  | "rdinto" => handleRdInto f
  | "popinto" => handlePopInto f
  | "putinto" => handlePutInto f
  | _ => "bad-op"

end GceTcb.Drive.C18
