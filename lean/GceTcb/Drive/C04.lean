import GceTcb.Base.Line
import GceTcb.Base.Sha384
import GceTcb.Model.SevCfg
import GceTcb.Model.SevExample
import GceTcb.Spec.SnpLaunch
import GceTcb.Gen.SevLayout
/-
Driver handler for stream `c04` (also used by `c08sev` for the measurement entry points).

  c04 op=ld  vcpus=<int> product=<n> fw=<image>                     sev.LaunchDigest
  c04 op=snp family=<0|1> image=<0|1> vmsas=<n> product=<n> fw=<image>   sev.UnsignedSnp
  c04 op=vmsa ap=<0|1> addr=<n>                                       PutVmsa of the BSP / AP reset state
  c04 op=example name=<base|variant>                                  the bytes of the kernel-evaluated example image
                                                                      (Model/SevExample.lean; theorems C04_example_*)

`<image>` is a `;`-separated list of parts: `z<n>` n zero bytes, `b<hh>x<n>` one byte repeated,
`p<seed>x<n>` the pattern byte_i = (seed + 7 i + i/256) mod 256, `h<hex>` literal bytes.

Output of `ld`: `ok <model digest> <spec digest>` — the first from the MODEL of the Go code
(Model/SevLd.lean over the regenerated layout/template/widths), the second from the independent
SPEC (Spec/SnpLaunch.lean) applied to the sections and reset address the model parsed — or
`reject=<class>` / `panic=<site>`.
-/
namespace GceTcb.Drive.C04
open GceTcb GceTcb.Codecs GceTcb.SevLd

def H : Bytes → Bytes := Sha384.sha384List

def cfg : Cfg := genCfg

def hexNib (c : Char) : Nat := (hexVal? c).getD 0

/-- tail-recursive hex decoder into an array -/
def hexInto (acc : Array UInt8) : List Char → Array UInt8
  | a :: b :: rest => hexInto (acc.push (UInt8.ofNat (hexNib a * 16 + hexNib b))) rest
  | _ => acc

def pushN (acc : Array UInt8) (n : Nat) (f : Nat → UInt8) : Array UInt8 := Id.run do
  let mut a := acc
  for i in [0:n] do
    a := a.push (f i)
  return a

def partInto (acc : Array UInt8) (p : String) : Array UInt8 :=
  match p.toList with
  | 'z' :: rest => pushN acc (String.ofList rest).toNat! (fun _ => 0)
  | 'h' :: rest => hexInto acc rest
  | 'b' :: rest =>
    match (String.ofList rest).splitOn "x" with
    | [hh, n] => let v := (hexInto #[] hh.toList).getD 0 0; pushN acc n.toNat! (fun _ => v)
    | _ => acc
  | 'p' :: rest =>
    match (String.ofList rest).splitOn "x" with
    | [s, n] => let seed := s.toNat!; pushN acc n.toNat! (fun i => UInt8.ofNat ((seed + 7 * i + i / 256) % 256))
    | _ => acc
  | _ => acc

def image (s : String) : Bytes :=
  if s == "" then [] else ((s.splitOn ";").foldl partInto (Array.mkEmpty 4096)).toList

/-- the repository function of a panic site `pkg.Func#ordinal:kind` / `pkg.Func:kind` -/
def panicFn (site : String) : String :=
  String.ofList (site.toList.takeWhile fun ch => ch != '#' && ch != ':')

def specSections (secs : List SevMetadataSection) : List Spec.SnpLaunch.Section :=
  secs.map fun s => ⟨s.address, s.length, s.kind⟩

/-- the spec digest for what the model parsed from the image -/
def specDigest (o : Opts) (fw : Bytes) : String :=
  match SevMeta.extractFromFirmware true true fw with
  | .ok (some rb, some secs) =>
    hexEncode (Spec.SnpLaunch.snpSpec H fw (specSections secs) rb.addr o.vcpus.toNat (cfg.width o.product))
  | _ => "unparsed"

def ld (o : Opts) (fw : Bytes) : String :=
  match launchDigest H cfg o fw with
  | .ok d => "ok " ++ hexEncode d ++ " " ++ specDigest o fw
  | .err c => "reject=" ++ c
  | .panic s => "panic=" ++ panicFn s

def snp (f : Fields) (fw : Bytes) : String :=
  match unsignedSnp H cfg Gen.SevLayout.VmsaCounts (f.bool "family") (f.bool "image") (f.nat "vmsas") (f.nat "product") fw with
  | .ok ds => "ok " ++ ",".intercalate (ds.map fun p => toString p.1 ++ ":" ++ hexEncode p.2)
  | .err c => "reject=" ++ c
  | .panic s => "panic=" ++ panicFn s

def vmsa (f : Fields) : String :=
  let bsp := Vmsa.ofList cfg.template
  let (rip, csBase) := SevMeta.ripAndCsBase ⟨f.nat "addr", 0, []⟩
  let v := if f.bool "ap" then (bsp.set "Cs.Base" csBase).set "Rip" rip else bsp
  let specState := if f.bool "ap" then Spec.SnpLaunch.apState (f.nat "addr") else Spec.SnpLaunch.bspState
  match putVmsa cfg.layout cfg.sizeofVmsa v (zeros 4096) with
  | .ok b => "ok " ++ hexEncode (H b) ++ " " ++ hexEncode (H (Spec.SnpLaunch.vmsaBytes specState))
  | .err c => "reject=" ++ c
  | .panic s => "panic=" ++ panicFn s

/-- `c04 op=vmsax set=<Field>:<nat>;… rset=<Field>:<hex>;…` — PutVmsa of the reset state with the named numeric
    fields (`Rip`, `Cs.Selector`, `Reserved_9`, `Cpl`, …) and reserved byte fields overridden: the page hash, or the
    reject class. Used by the C18 strictness sub-stream (reserved-non-zero / out-of-range values are refused). -/
def vmsax (f : Fields) : String :=
  let bsp := Vmsa.ofList cfg.template
  let sets := ((f.get "set").splitOn ";").filterMap (fun e =>
    match e.splitOn ":" with
    | [n, x] => x.toNat?.map (fun k => (n, k))
    | _ => none)
  let rsets := ((f.get "rset").splitOn ";").filterMap (fun e =>
    match e.splitOn ":" with
    | [n, x] => (hexDecode x).map (fun b => (n, b))
    | _ => none)
  let v0 : Vmsa := sets.foldl (fun (v : Vmsa) (p : String × Nat) => v.set p.1 p.2) bsp
  let v : Vmsa := ⟨v0.f, fun n => ((rsets.find? (fun (p : String × Bytes) => p.1 == n)).map (fun p => p.2)).getD (v0.r n)⟩
  match putVmsa cfg.layout cfg.sizeofVmsa v (zeros 4096) with
  | .ok b => "ok " ++ hexEncode (H b)
  | .err _ => "reject"
  | .panic s => "panic=" ++ panicFn s

/-- the image the theorems `C04_example_*` are about, byte for byte (the harness builds it independently) -/
def exampleImage (name : String) : String :=
  if name == "base" then "ok " ++ hexEncode SevExample.exFw
  else if name == "wide" then "ok " ++ hexEncode SevExample.wideFw
  else if name == "two-page" then "ok " ++ hexEncode SevExample.twoPageFw
  else
    match SevExample.variants.find? (fun p => p.1 == name) with
    | some p => "ok " ++ hexEncode (SevExample.fwOf p.2)
    | none => "bad-name"

def handle (f : Fields) : String :=
  match f.get "op" with
  | "ld" => ld ⟨f.int "vcpus", f.nat "product"⟩ (image (f.get "fw"))
  | "snp" => snp f (image (f.get "fw"))
  | "vmsa" => vmsa f
  | "vmsax" => vmsax f
  | "example" => exampleImage (f.get "name")
  | _ => "bad-op"

end GceTcb.Drive.C04
