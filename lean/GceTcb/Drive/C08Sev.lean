import GceTcb.Base.Line
import GceTcb.Drive.C04
/-
Driver handler for stream `c08sev` (SEV half of C08: totality of firmware analysis).

  c08sev op=map fw=<image>                       ovmf.GetFwGUIDToBlockMap
  c08sev op=extract es=<0|1> snp=<0|1> fw=<image>  ovmf.SevData.ExtractFromFirmware
  c08sev op=ld … / op=snp …                      as in stream c04 (sev.LaunchDigest / sev.UnsignedSnp)
  c08sev op=ldclass vcpus= product= fw=          sev.LaunchDigest, outcome class only

Outputs: `ok …` with the parsed values in canonical form, `reject=<class>`, `panic=<site>`.
The image syntax is that of Drive/C04.lean.
-/
namespace GceTcb.Drive.C08Sev
open GceTcb GceTcb.Codecs GceTcb.GuidTable GceTcb.SevMeta

def insertSorted (x : String) : List String → List String
  | [] => [x]
  | y :: ys => if x ≤ y then x :: y :: ys else y :: insertSorted x ys

def sortStrings (l : List String) : List String := l.foldl (fun acc x => insertSorted x acc) []

def showMap (m : BlockMap) : String :=
  "ok n=" ++ toString m.length ++ " " ++
    ",".intercalate (sortStrings (m.map fun p => hexEncode p.1 ++ ":" ++ toString p.2.length ++ ":" ++ hexEncode (p.2.take 24)))

def map (fw : Bytes) : String :=
  match getFwGUIDToBlockMap fw with
  | .ok m => showMap m
  | .err c => "reject=" ++ c
  | .panic s => "panic=" ++ Drive.C04.panicFn s

def extract (es snp : Bool) (fw : Bytes) : String :=
  match extractFromFirmware es snp fw with
  | .ok (rb, secs) =>
    "ok reset=" ++ (match rb with
      | some r => toString r.addr ++ ":" ++ toString r.size ++ ":" ++ hexEncode r.guid
      | none => "none") ++
    " secs=" ++ (match secs with
      | some [] => "empty"
      | some l => ",".intercalate (l.map fun s => toString s.address ++ ":" ++ toString s.length ++ ":" ++ toString s.kind)
      | none => "none")
  | .err c => "reject=" ++ c
  | .panic s => "panic=" ++ Drive.C04.panicFn s

/-- sev.LaunchDigest, outcome class only: the model run with the trivial hash `H0` (control flow does
    not depend on the hash) -/
def ldclass (f : Fields) (fw : Bytes) : String :=
  match SevLd.launchDigest SevLd.H0 Drive.C04.cfg ⟨f.int "vcpus", f.nat "product"⟩ fw with
  | .ok _ => "ok"
  | .err c => "reject=" ++ c
  | .panic s => "panic=" ++ Drive.C04.panicFn s

def handle (f : Fields) : String :=
  match f.get "op" with
  | "map" => map (Drive.C04.image (f.get "fw"))
  | "extract" => extract (f.bool "es") (f.bool "snp") (Drive.C04.image (f.get "fw"))
  | "ldclass" => ldclass f (Drive.C04.image (f.get "fw"))
  | "ld" => Drive.C04.handle f
  | "snp" => Drive.C04.handle f
  | _ => "bad-op"

end GceTcb.Drive.C08Sev
