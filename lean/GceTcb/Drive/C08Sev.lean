import GceTcb.Base.Line
/- Driver handler for stream `c08sev` (stub: replaced when the property's model lands). -/
namespace GceTcb.Drive.C08Sev
open GceTcb

def handle (_f : Fields) : String := "unimplemented"

end GceTcb.Drive.C08Sev
