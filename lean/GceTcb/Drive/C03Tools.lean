import GceTcb.Base.Line
import GceTcb.Model.ToolChainRef
import GceTcb.Drive.C12Cli
import GceTcb.Drive.EndorseIO
/-
Driver handler for stream `c03tools`: histories of command lines of the THREE shipped tools over one shared world,
through the composition model (Model/ToolChain.lean) instantiated by the reference kit (Model/ToolChainRef.lean).

  c03tools op=hist seq=<0|1> steps=<step>;<step>;…      →  cls=<c>,<c>,…   (one class per step)
    step = K|<the 17 `|`-separated fields of a c12cli line>                                → ok | err
         | X|<hex destination>            copy the CA's root object there                 → ok | none
         | E|<7 bits: add_snp add_tdx dry_run measurement_only overwrite tdx_include_early_accept image_exists>|
             <snp_launch_vmsas>|<tdx machine shapes: comma-separated hex>|<hex out_dir or ~>|<hex candidate or ~>|
             <hex text of --timestamp>|<unix seconds it parses to>                          → ok | err
         | V|<verify|sev|tdx>|<endorsement: last|missing|junk>|<root: x:<hex>|ca|missing|foreign>|<unix seconds>|
             <n>|<attestation: listed|unlisted|->                                          → ok | err
-/
namespace GceTcb.Drive.C03Tools
open GceTcb GceTcb.ToolChain

def unhex (s : String) : String := if s == "~" then "" else Drive.C12Cli.unhex s

structure DState where
  w : World
  last : Option String          -- the file the last successful endorse wrote
  out : List String             -- classes, reversed

def fwPath : String := "fw.fd"
def caRootPath : String := "$ca-root"
def foreignPath : String := "$foreign-root"
def junkPath : String := "$junk"
def attPath : String := "$attestation"

def foreignRoot : KeyHistory.Cert :=
  { certSerial := 1, subjSerial := 1, cn := "foreign", issuerCn := "foreign", issuerSerial := 1, subjectKey := 999999,
    issuerKey := 999999, signerKey := 999999, isCA := true, keyUsage := 96, sigAlg := 13, notBefore := 0,
    notAfter := 400000000000 }

def setFile (w : World) (p : String) (b : Option Bytes) : World :=
  match b with
  | some x => { w with files := KeyHistory.put w.files p x }
  | none => { w with files := KeyHistory.erase w.files p }

def uuidText : String := "00000000-0000-4000-8000-000000000001"

def wiringFlags : KeyCli.CliFlags := { sub := .rotate, rootPath := "root.crt", bucketRoot := "store" }
def wiringEnv : KeyCli.Env := ⟨(1790000000, 250000000), fun _ => some true⟩

def parseShapes (s : String) : List String := if s == "" then [] else (s.splitOn ",").map unhex

abbrev RKit := Kit KeyHistory.Cert (List KeyHistory.Cert) Unit Unit

/-- the written endorsement as the relying party decodes it -/
def docOfFile (w : World) (p : String) : Option ProtoWire.WGolden :=
  match w.read p with
  | none => none
  | some b => (VerifyWire.unmarshalEndorsement b).bind Ref.goldenOf

def listedSev (w : World) (p : String) (n : Nat) : Option Bytes :=
  match docOfFile w p with
  | some g => g.sevSnp.bind fun s => (s.measurements.find? (fun x => x.1 == n)).map (·.2)
  | none => none

def listedTdx (w : World) (p : String) (n : Nat) : Option Bytes :=
  match docOfFile w p with
  | some g => g.tdx.bind fun d => (d.measurements.find? (fun r => r.ramGib == n)).map (·.mrtd)
  | none => none

def unlisted : Bytes := Ref.meas 9 9

def measurePrims : RpCli.MeasurePrims where
  reportMeasurement := fun b => match b with | 0x53 :: m => some m | _ => none
  quoteMrtd := fun b => match b with | 0x54 :: m => some m | _ => none
  extracted := fun _ => none
  digest := fun e => match Ref.goldenOf e with | some g => g.digest | none => []
  otherChecks := fun _ _ => true

def oneStep (K : RKit) (st : DState) (s : String) : Option DState :=
  match s.splitOn "|" with
  | "K" :: rest =>
    match Drive.C12Cli.parseLine ("|".intercalate rest) with
    | some l =>
      let r := step K st.w (.key l.env l.flags)
      some { st with w := r.1, out := r.2 :: st.out }
    | none => none
  | ["X", dst] =>
    let r := step K st.w (.exportRoot (unhex dst))
    some { st with w := r.1, out := r.2 :: st.out }
  | ["E", bits, vmsas, shapes, outDir, cand, ts, _unix] =>
    match bits.toList with
    | [snp, tdx, dry, mo, ow, early, img] =>
      let w0 := setFile st.w fwPath (if img == '1' then some [1] else none)
      let fl : EndorseCli.CliFlags :=
        { addSnp := snp == '1', addTdx := tdx == '1', uefi := fwPath, clspec := 123, outDir := unhex outDir,
          dryRun := dry == '1', timestamp := [unhex ts], snpLaunchVmsas := vmsas.toNat?.getD 0,
          tdxIncludeEarlyAccept := early == '1', tdxMachineShapes := parseShapes shapes,
          measurementOnly := mo == '1', candidateName := unhex cand, overwrite := ow == '1' }
      let E : EndorseEnv := ⟨(1790000000, 250000000), uuidText, "R"⟩
      let r := step K w0 (.endorse wiringEnv wiringFlags E fl)
      let last := match endorseWrites K w0 wiringEnv wiringFlags E fl with
        | some (p, _) => some p
        | none => st.last
      some { w := r.1, last := last, out := r.2 :: st.out }
    | _ => none
  | ["V", cmd, e, r, now, n, att] =>
    let ep := match e with
      | "last" => st.last.getD "$never-written"
      | "junk" => junkPath
      | _ => "$missing-endorsement"
    let w1 := if e == "junk" then setFile st.w junkPath (some [0xff]) else st.w
    let rp := if r == "ca" then caRootPath else if r == "foreign" then foreignPath
      else if r.startsWith "x:" then unhex (r.drop 2).toString else "$missing-root"
    let w2 := if r == "ca" then setFile w1 caRootPath ((KeyHistory.bundle K.W.cfg w1.keys.ca).map K.C.rootPem)
      else if r == "foreign" then setFile w1 foreignPath (some (K.C.rootPem foreignRoot)) else w1
    let t : Nat := (now.toInt?.getD 0 + KeyCli.epochShift).toNat
    let nn := n.toNat?.getD 0
    if cmd == "verify" then
      let c := (step K w2 (.rp t (verifyLine rp ep))).2
      some { st with out := c :: st.out }
    else if cmd == "sev" then
      let m := if att == "listed" then (listedSev w2 ep nn).getD unlisted else unlisted
      let w3 := setFile w2 attPath (some (0x53 :: m))
      let cl : RpCli.CmdLine := ⟨"sev validate", [("launch_vmsas", toString nn), ("endorsement", ep), ("root_cert", rp)], [attPath]⟩
      let ok := (rpRun K w3 t cl).result.isOk && RpCli.measure K.RW measurePrims (rpEnv w3 t) cl
      some { st with out := (if ok then "ok" else "err") :: st.out }
    else if cmd == "tdx" then
      let m := if att == "listed" then (listedTdx w2 ep nn).getD unlisted else unlisted
      let w3 := setFile w2 attPath (some (0x54 :: m))
      let cl : RpCli.CmdLine := ⟨"tdx validate", [("ram_gib", toString nn), ("endorsement", ep), ("root_cert", rp)], [attPath]⟩
      let ok := (rpRun K w3 t cl).result.isOk && RpCli.measure K.RW measurePrims (rpEnv w3 t) cl
      some { st with out := (if ok then "ok" else "err") :: st.out }
    else none
  | _ => none

/-- time.Parse(RFC3339, ·) of the whole history: the tables of the K lines and the (text, seconds) pairs of the E steps -/
def timeTable (steps : List String) : List (String × Option (Int × Nat)) :=
  steps.flatMap fun s =>
    match s.splitOn "|" with
    | "K" :: rest => (match rest.getLast? with | some tt => Drive.C12Cli.parseTimeTable tt | none => [])
    | ["E", _, _, _, _, _, ts, unix] => [(unhex ts, (unix.toInt?).map fun u => (u, 0))]
    | _ => []

def runSteps (K : RKit) : DState → List String → Option DState
  | st, [] => some st
  | st, s :: rest =>
    match oneStep K st s with
    | some st' => runSteps K st' rest
    | none => none

def handle (f : Fields) : String :=
  match f.get "op" with
  | "hist" =>
    let steps := if f.get "steps" == "" then [] else (f.get "steps").splitOn ";"
    let table := timeTable steps
    let pt : String → Option (Int × Nat) := fun t => (table.find? (fun e => e.1 == t)).bind (·.2)
    let K : RKit := Ref.kit (f.bool "seq") pt Drive.IO.parseUuid
    match runSteps K ⟨World.init, none, []⟩ steps with
    | some st => "cls=" ++ ",".intercalate st.out.reverse
    | none => "bad-op"
  | _ => "bad-op"

end GceTcb.Drive.C03Tools
