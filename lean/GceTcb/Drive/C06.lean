import GceTcb.Drive.EndorseIO
/-
Driver handler for stream `c06`.  The measurement functions are instantiated by the tables on the
protocol line (computed by the harness with direct calls of sev.LaunchDigest / tdx.MRTD, not through
the endorse pipeline); SHA-384 by the executable Lean SHA-384; UUID parsing by a Lean transcription
of google/uuid.Parse.
-/
namespace GceTcb.Drive.C06
open GceTcb GceTcb.Endorse GceTcb.Drive.IO

def handle (f : Fields) : String :=
  match f.get "op" with
  | "endorse" =>
    match goldenMeasurement (mkPrims f) genTables (parseCtx f) with
    | .ok g =>
      let signed :=
        if f.bool "sign" then
          match signDoc (parseKeys f) (parseTsField (f.get "ts")) g with
          | .ok (d, _) => "[" ++ showGolden d ++ "]"
          | .err _ => "reject"
          | .panic _ => "panic"
        else "-"
      s!"golden=[{showGolden g}] signed={signed}"
    | .err _ => "golden=reject signed=-"
    | .panic _ => "golden=panic signed=-"
  | "uuid" =>
    match parseUuid (f.get "s") with
    | some b => "ok " ++ hexEncode b
    | none => "reject"
  | _ => "bad-op"

end GceTcb.Drive.C06
