import GceTcb.Base.Line
import GceTcb.Model.Pipeline
import GceTcb.Gen.C03Consts
import GceTcb.Drive.PolicyLine
/- Driver handler for stream `c03` (sign → verify pipeline over key histories). -/
namespace GceTcb.Drive.C03
open GceTcb GceTcb.Policy GceTcb.Pipeline GceTcb.Drive.PolicyLine

def lifetimes : Lifetimes := ⟨Gen.C03Consts.rootValidDays * 86400, Gen.C03Consts.signValidDays * 86400⟩

def natList (s : String) : List Nat := if s == "" then [] else (s.splitOn ",").map (fun x => x.toNat?.getD 0)

def handle (f : Fields) : String :=
  let t0 := f.nat "t0"
  let rots := natList (f.get "rots")
  match f.get "op" with
  | "certs" =>
    -- validity window of the root and of the primary certificate after each state
    let states := (List.range (rots.length + 1)).map (fun i => history lifetimes t0 (rots.take i))
    let root := (history lifetimes t0 []).root
    s!"root={root.notBefore}-{root.notAfter} primary=" ++
      ",".intercalate (states.map fun ca => s!"{ca.primary.notBefore}-{ca.primary.notAfter}")
  | "verify" =>
    let issued := history lifetimes t0 (rots.take (f.nat "issued"))
    let later := history lifetimes t0 (rots.take (f.nat "state"))
    let req : Request := ⟨[1], (if f.bool "prov" then 7 else 0), [], f.nat "ts", none, none⟩
    let e := endorse refPrims issued req
    let roots : Option (List Cert) :=
      match f.get "roots" with
      | "own" => some [later.root]
      | "foreign" => some [⟨99, 99, later.root.notBefore, later.root.notAfter, true⟩]
      | "empty" => some []
      | _ => none
    okrej (verifyEndorsement refPrims Gen.C03Consts.releaseChangeUnix e ⟨roots, f.nat "now", [], none⟩)
  | "listed-snp" =>
    let meas : Option Bytes := some (f.bytes "m")
    okrej (snp (parseSev (f.get "g")) ⟨meas, f.nat "n"⟩)
  | "listed-tdx" =>
    okrej (tdxValidateMeasurement () () (parseRows (f.get "rows")) (f.bytes "mrtd") (none : Option (TdxPolicy Unit Unit))
      false (f.int "ram") true)
  | _ => "bad-op"

end GceTcb.Drive.C03
