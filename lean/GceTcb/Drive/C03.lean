import GceTcb.Base.Line
/- Driver handler for stream `c03` (stub: replaced when the property's model lands). -/
namespace GceTcb.Drive.C03
open GceTcb

def handle (_f : Fields) : String := "unimplemented"

end GceTcb.Drive.C03
