import GceTcb.Proofs.RpCli
import GceTcb.Props.C17
import GceTcb.Gen.RpFlags
/-
C17 at the command line — `gcetcbendorsement sev policy | tdx policy` with `--base FILE` / `--overwrite` / `--out`:
the base policy file is never modified, without `--overwrite` nothing set in it is weakened, and a refused command
line has no effect.

The caller's policy is a FILE here (`--base`, read as a binary-serialized policy; the flag is a persistent flag of
the parent commands `sev` / `tdx`), the result is written to `--out` (default `-`, standard output) in the form
`--outform` names.  Effects are the `Create` / write calls on the Backend's IO (`Run.effects`); `fsAfter` is the file
system after them.  Everything holds for every command line, file system, writer behaviour (Create / Write may fail,
the destination may be a terminal) and every choice of the decoding primitives.
-/
namespace GceTcb.RpCli
open GceTcb

variable {Cert Roots Time R Q : Type}

/-! ### obligations on the regenerated command-line facts -/

/-- `--overwrite` (default false), `--base`, `--allow_unspecified_vmsas` are persistent flags of `sev` / `tdx`, seen
    from `policy` and `validate`; `--out` (default `-`) and `--outform` (default auto) are local flags of the two
    `policy` commands; a command line without `--overwrite` has it false. -/
theorem C17_cli_flag_scope :
    ("sev", "persistent", "overwrite", "Bool", "false", "sevCommand.overwrite") ∈ Gen.RpFlags.flags ∧
    ("tdx", "persistent", "overwrite", "Bool", "false", "tdxCommand.overwrite") ∈ Gen.RpFlags.flags ∧
    ("sev", "persistent", "base", "String", "\"\"", "sevCommand.base") ∈ Gen.RpFlags.flags ∧
    ("tdx", "persistent", "base", "String", "\"\"", "tdxCommand.base") ∈ Gen.RpFlags.flags ∧
    ("sev policy", "local", "out", "String", "\"-\"", "sevPolicyCommand.out") ∈ Gen.RpFlags.flags ∧
    ("tdx policy", "local", "out", "String", "\"-\"", "tdxPolicyCommand.out") ∈ Gen.RpFlags.flags ∧
    flagTable = Gen.RpFlags.flags ∧
    (∀ c ∈ ["sev", "sev validate", "sev policy"], ownerOf c "overwrite" = some "sev" ∧ ownerOf c "base" = some "sev") ∧
    (∀ c ∈ ["tdx", "tdx validate", "tdx policy"], ownerOf c "overwrite" = some "tdx" ∧ ownerOf c "base" = some "tdx") ∧
    (∀ c ∈ ["", "verify", "extract", "inspect", "inspect mask"], ownerOf c "overwrite" = none ∧ ownerOf c "base" = none) ∧
    (∀ c ∈ ["sev", "sev validate", "tdx", "tdx validate", "verify"], ownerOf c "outform" = none) ∧
    (∀ cmd args, namedOverwrite ⟨cmd, [], args⟩ = false) :=
  ⟨by decide, by decide, by decide, by decide, by decide, by decide, by decide, by decide, by decide, by decide,
   by decide, fun _ _ => rfl⟩

/-- The RunE bodies of the policy commands fill Base / Overwrite / LaunchVmsas / AllowUnspecifiedVmsas / RAMGiB from
    the parent command's struct; the statement skeletons of the functions involved are the ones the model was
    written from; `ParseBytesForm` as linked agrees with the model on every probed spelling. -/
theorem C17_cli_wiring :
    Skeleton.wiringOf Gen.RpFlags.wiring "sevPolicyCommand.runE" =
      [("Base", "s.basePolicy"), ("Overwrite", "s.overwrite"), ("LaunchVmsas", "s.launchVmsas"),
       ("AllowUnspecifiedVmsas", "s.allowUnspecifiedVmsas")] ∧
    Skeleton.wiringOf Gen.RpFlags.wiring "tdxPolicyCommand.runE" =
      [("Base", "s.basePolicy"), ("Overwrite", "s.overwrite"), ("RAMGiB", "s.ramGiB")] ∧
    Skeleton.readProtoSteps = Gen.RpFlags.readProtoSteps ∧
    Skeleton.sevPreRunSteps = Gen.RpFlags.sevPreRunSteps ∧ Skeleton.tdxPreRunSteps = Gen.RpFlags.tdxPreRunSteps ∧
    Skeleton.sevPolicyPreRunSteps = Gen.RpFlags.sevPolicyPreRunSteps ∧
    Skeleton.sevPolicyRunSteps = Gen.RpFlags.sevPolicyRunSteps ∧
    Skeleton.tdxPolicyPreRunSteps = Gen.RpFlags.tdxPolicyPreRunSteps ∧
    Skeleton.tdxPolicyRunSteps = Gen.RpFlags.tdxPolicyRunSteps ∧
    commands = Gen.RpFlags.commands ∧
    (∀ p ∈ Gen.RpFlags.bytesForms, parseBytesForm p.1 = p.2) ∧
    bytesRaw = Gen.RpFlags.bytesRaw ∧ bytesHex = Gen.RpFlags.bytesHex ∧ bytesBase64 = Gen.RpFlags.bytesBase64 ∧
    bytesAuto = Gen.RpFlags.bytesAuto :=
  ⟨by decide, by decide, rfl, rfl, rfl, rfl, rfl, rfl, rfl, rfl, by decide, rfl, rfl, rfl, rfl⟩

/-! ### what the policy commands hand to the library -/

/-- `sev policy`: the options record is the command line's: Base = the decoding of the file `--base` names (no flag
    or the empty value: none — NOT "some default policy"), Overwrite / LaunchVmsas / AllowUnspecifiedVmsas as named,
    and the destination is `--out`. -/
theorem C17_cli_sev_options (W : World Cert Roots Time R Q) (E : Env Time) (cl : CmdLine)
    (e : Verify.Endorsement) (o : Policy.SevPolicyOptions R) (out : OutSpec) (hv : cl.cmd = "sev policy")
    (h : callOf W.P W.L E cl = .ok (.sevPolicy e o out)) :
    ((namedBase cl = "" ∧ o.base = none) ∨
     (namedBase cl ≠ "" ∧ ∃ b q, E.readFile (namedBase cl) = some b ∧ W.P.unmarshalSevPolicy b = some q ∧ o.base = some q)) ∧
    o.overwrite = namedOverwrite cl ∧ o.launchVmsas = namedVmsas W.L cl ∧
    o.allowUnspecifiedVmsas = namedAllow cl ∧ out.path = namedOut cl ∧
    ∃ path, cl.args = [path] ∧ Verify.readEndorsement W.P.vp E.backend path = .ok e := by
  have hw := callOf_ok_wellFormed _ _ _ _ _ h
  cases hh : helpFlag cl with
  | true =>
    rw [callOf_help _ _ _ _ hw (by simp [hv]) hh] at h
    cases h
  | false =>
    rw [callOf_sevPolicy _ _ _ _ hw hv hh] at h
    obtain ⟨base, path, out', e', hbase, hargs, hout, he, hc⟩ := sevPolicyCall_ok _ _ _ _ _ h
    cases hc
    have hb := sevBase_ok _ _ _ _ hbase
    rw [(parsed_sevBase W.L cl hv).1] at hb
    refine ⟨hb, parsed_sevOverwrite W.L cl (Or.inr hv), parsed_sevLaunchVmsas W.L cl (Or.inr hv),
      (parsed_sevBase W.L cl hv).2, ?_, path, hargs, he⟩
    rw [outSpecOf_path _ _ _ hout, (parsed_sevPolicyOut W.L cl hv).1]

/-- `tdx policy`: likewise. -/
theorem C17_cli_tdx_options (W : World Cert Roots Time R Q) (E : Env Time) (cl : CmdLine)
    (e : Verify.Endorsement) (o : Policy.TdxPolicyOptions Q R) (out : OutSpec) (hv : cl.cmd = "tdx policy")
    (h : callOf W.P W.L E cl = .ok (.tdxPolicy e o out)) :
    ((namedBase cl = "" ∧ o.base = none) ∨
     (namedBase cl ≠ "" ∧ ∃ b q, E.readFile (namedBase cl) = some b ∧ W.P.unmarshalTdxPolicy b = some q ∧ o.base = some q)) ∧
    o.overwrite = namedOverwrite cl ∧ o.ramGib = namedRamGiB W.L cl ∧ out.path = namedOut cl ∧
    ∃ path, cl.args = [path] ∧ Verify.readEndorsement W.P.vp E.backend path = .ok e := by
  have hw := callOf_ok_wellFormed _ _ _ _ _ h
  cases hh : helpFlag cl with
  | true =>
    rw [callOf_help _ _ _ _ hw (by simp [hv]) hh] at h
    cases h
  | false =>
    rw [callOf_tdxPolicy _ _ _ _ hw hv hh] at h
    obtain ⟨base, path, out', e', hbase, hargs, hout, he, hc⟩ := tdxPolicyCall_ok _ _ _ _ _ h
    cases hc
    have hb := tdxBase_ok _ _ _ _ hbase
    rw [parsed_tdxBase W.L cl hv] at hb
    refine ⟨hb, parsed_tdxOverwrite W.L cl (Or.inr hv), parsed_tdxRamGiB W.L cl (Or.inr hv), ?_, path, hargs, he⟩
    rw [outSpecOf_path _ _ _ hout, (parsed_tdxPolicyOut W.L cl hv).1]

/-- the library call of a policy command line and what a run of it is -/
theorem C17_cli_run_cases (W : World Cert Roots Time R Q) (E : Env Time) (cl : CmdLine)
    (hv : cl.cmd = "sev policy" ∨ cl.cmd = "tdx policy") :
    ((run W E cl).effects = []) ∨
    (∃ e o out q, cl.cmd = "sev policy" ∧ callOf W.P W.L E cl = .ok (.sevPolicy e o out) ∧
      (∃ g, W.G.goldenSev e = some g ∧ Policy.sevPolicy W.G.pem W.G.dflt g o = some q) ∧
      run W E cl = emit E out.path (.sevPolicy (outFormOf out (E.isTerminal out.path)) q)) ∨
    (∃ e o out q, cl.cmd = "tdx policy" ∧ callOf W.P W.L E cl = .ok (.tdxPolicy e o out) ∧
      (∃ rows, W.G.goldenTdx e = some rows ∧ Policy.tdxPolicy W.G.emptyQ W.G.emptyR rows o = some q) ∧
      run W E cl = emit E out.path (.tdxPolicy (outFormOf out (E.isTerminal out.path)) q)) := by
  unfold run
  cases hc : callOf W.P W.L E cl with
  | err c => exact Or.inl rfl
  | panic s => exact Or.inl rfl
  | ok c =>
    have hw := callOf_ok_wellFormed _ _ _ _ _ hc
    cases hh : helpFlag cl with
    | true =>
      have hne : cl.cmd ≠ "" := by rcases hv with hv | hv <;> simp [hv]
      rw [callOf_help _ _ _ _ hw hne hh] at hc
      cases hc
      exact Or.inl rfl
    | false =>
      rcases hv with hv | hv
      · have hc' := hc
        rw [callOf_sevPolicy _ _ _ _ hw hv hh] at hc'
        obtain ⟨base, path, out, e, _, _, _, _, hcc⟩ := sevPolicyCall_ok _ _ _ _ _ hc'
        subst hcc
        simp only [exec]
        cases hg : W.G.goldenSev e with
        | none => exact Or.inl rfl
        | some g =>
          dsimp only
          cases hq : Policy.sevPolicy W.G.pem W.G.dflt g
              ⟨base, (parsed W.L cl).sevLaunchVmsas, (parsed W.L cl).sevOverwrite, (parsed W.L cl).sevAllowUnspecifiedVmsas⟩ with
          | none => exact Or.inl rfl
          | some q => exact Or.inr (Or.inl ⟨e, _, out, q, hv, rfl, ⟨g, hg, hq⟩, rfl⟩)
      · have hc' := hc
        rw [callOf_tdxPolicy _ _ _ _ hw hv hh] at hc'
        obtain ⟨base, path, out, e, _, _, _, _, hcc⟩ := tdxPolicyCall_ok _ _ _ _ _ hc'
        subst hcc
        simp only [exec]
        cases hg : W.G.goldenTdx e with
        | none => exact Or.inl rfl
        | some rows =>
          dsimp only
          cases hq : Policy.tdxPolicy W.G.emptyQ W.G.emptyR rows
              ⟨base, (parsed W.L cl).tdxRamGiB, (parsed W.L cl).tdxOverwrite⟩ with
          | none => exact Or.inl rfl
          | some q => exact Or.inr (Or.inr ⟨e, _, out, q, hv, rfl, ⟨rows, hg, hq⟩, rfl⟩)

/-! ### effects -/

/-- Every effect of a policy command line is on its `--out` destination. -/
theorem C17_cli_effects_only_out (W : World Cert Roots Time R Q) (E : Env Time) (cl : CmdLine)
    (hv : cl.cmd = "sev policy" ∨ cl.cmd = "tdx policy") :
    ∀ eff ∈ (run W E cl).effects, eff.path = namedOut cl := by
  intro eff hm
  rcases C17_cli_run_cases W E cl hv with h0 | ⟨e, o, out, q, hc, hcall, _, hrun⟩ | ⟨e, o, out, q, hc, hcall, _, hrun⟩
  · rw [h0] at hm; cases hm
  · rw [hrun] at hm
    have := emit_effects_path E out.path _ eff hm
    rw [this, (C17_cli_sev_options W E cl e o out hc hcall).2.2.2.2.1]
  · rw [hrun] at hm
    have := emit_effects_path E out.path _ eff hm
    rw [this, (C17_cli_tdx_options W E cl e o out hc hcall).2.2.2.1]

/-- "`--base FILE` is never modified on disk": after ANY run of a policy command every file other than the `--out`
    destination holds what it held — in particular the base policy file, unless the caller names that very file
    as `--out`. -/
theorem C17_cli_base_file_untouched (W : World Cert Roots Time R Q) (E : Env Time) (cl : CmdLine)
    (render : Written R Q → Bytes) (hv : cl.cmd = "sev policy" ∨ cl.cmd = "tdx policy") :
    (∀ x, x ≠ namedOut cl → fsAfter render E.readFile (run W E cl).effects x = E.readFile x) ∧
    (namedBase cl ≠ namedOut cl →
      fsAfter render E.readFile (run W E cl).effects (namedBase cl) = E.readFile (namedBase cl)) := by
  have h := C17_cli_effects_only_out W E cl hv
  exact ⟨fun x hx => fsAfter_other render _ _ x h hx _, fun hx => fsAfter_other render _ _ _ h hx _⟩

/-- "Rejected command lines have no effect": a policy command line that does not exit 0 has created and written
    nothing — except when the destination could be created and the WRITE to it failed (then the destination was
    created / truncated, as the caller asked, and nothing else happened). -/
theorem C17_cli_refused_no_effect (W : World Cert Roots Time R Q) (E : Env Time) (cl : CmdLine)
    (hv : cl.cmd = "sev policy" ∨ cl.cmd = "tdx policy") (h : (run W E cl).result ≠ Verify.accept) :
    (run W E cl).effects = [] ∨
    ((run W E cl).effects = [.create (namedOut cl)] ∧ (run W E cl).result = .err "write" ∧
      E.createOk (namedOut cl) = true ∧ E.writeOk (namedOut cl) = false) := by
  rcases C17_cli_run_cases W E cl hv with h0 | ⟨e, o, out, q, hc, hcall, _, hrun⟩ | ⟨e, o, out, q, hc, hcall, _, hrun⟩
  · exact Or.inl h0
  · have hp := (C17_cli_sev_options W E cl e o out hc hcall).2.2.2.2.1
    rw [hrun] at h ⊢
    unfold emit at h ⊢
    by_cases h1 : E.createOk out.path = true
    · by_cases h2 : E.writeOk out.path = true
      · simp [h1, h2] at h
      · simp only [Bool.not_eq_true] at h2
        simp [h1, h2, ← hp]
    · simp only [Bool.not_eq_true] at h1
      simp [h1]
  · have hp := (C17_cli_tdx_options W E cl e o out hc hcall).2.2.2.1
    rw [hrun] at h ⊢
    unfold emit at h ⊢
    by_cases h1 : E.createOk out.path = true
    · by_cases h2 : E.writeOk out.path = true
      · simp [h1, h2] at h
      · simp only [Bool.not_eq_true] at h2
        simp [h1, h2, ← hp]
    · simp only [Bool.not_eq_true] at h1
      simp [h1]

/-! ### no weakening through the command line -/

/-- a write effect of a run of `emit` is the write of exactly what was emitted -/
theorem C17_cli_emit_write_mem (E : Env Time) (p path : String) (w w' : Written R Q)
    (h : Effect.write path w' ∈ (emit E p w).effects) : path = p ∧ w' = w := by
  rcases emit_cases E p w with hc | hc | hc <;> rw [hc] at h
  · cases h
  · simp at h
  · simp at h
    exact h

/-- `sev policy`: what the command writes is the library's result for the options the command line names
    (`Policy.modifyPolicy` on the policy decoded from `--base`, or on the default policy without the flag), it goes
    to `--out`, and: the minimum SVN and every unrelated field are the base's in every case; WITHOUT `--overwrite`
    (absent, or `--overwrite=false`) every value set in the base policy file survives — guest policy bits,
    measurement, minimum SVN (which moreover admits the endorsed SVN) — and the trusted key lists only grow. -/
theorem C17_cli_sev_no_weaken (W : World Cert Roots Time R Q) (E : Env Time) (cl : CmdLine) (hv : cl.cmd = "sev policy")
    (path : String) (form : OutForm) (q : Policy.SevPolicy R)
    (hw : Effect.write path (.sevPolicy form q) ∈ (run W E cl).effects) :
    ∃ e o out s, callOf W.P W.L E cl = .ok (.sevPolicy e o out) ∧ W.G.goldenSev e = some (some s) ∧
      Policy.modifyPolicy W.G.pem s (o.base.getD W.G.dflt) o = some q ∧ path = namedOut cl ∧
      q.rest = (o.base.getD W.G.dflt).rest ∧ q.minimumGuestSvn = (o.base.getD W.G.dflt).minimumGuestSvn ∧
      (namedOverwrite cl = false → ∀ p0, o.base = some p0 →
        (p0.policy ≠ 0 → q.policy = p0.policy) ∧ (p0.measurement ≠ [] → q.measurement = p0.measurement) ∧
        q.minimumGuestSvn = p0.minimumGuestSvn ∧ (p0.minimumGuestSvn ≠ 0 → p0.minimumGuestSvn ≤ s.svn) ∧
        (∃ l, q.trustedIdKeys = p0.trustedIdKeys ++ l) ∧ (∃ l, q.trustedAuthorKeys = p0.trustedAuthorKeys ++ l)) := by
  rcases C17_cli_run_cases W E cl (Or.inl hv) with h0 | ⟨e, o, out, q', hc, hcall, ⟨g, hg, hq⟩, hrun⟩ | ⟨_, _, _, _, hc, _⟩
  · rw [h0] at hw; cases hw
  · rw [hrun] at hw
    obtain ⟨hpath, hwq⟩ := C17_cli_emit_write_mem E _ _ _ _ hw
    injection hwq with _ hqq
    subst hqq
    have hopts := C17_cli_sev_options W E cl e o out hc hcall
    cases g with
    | none => simp [Policy.sevPolicy] at hq
    | some s =>
      have hm : Policy.modifyPolicy W.G.pem s (o.base.getD W.G.dflt) o = some q := hq
      have hrest := Policy.C17_sev_rest_preserved _ _ _ _ _ hm
      refine ⟨e, o, out, s, hcall, hg, hm, by rw [hpath, hopts.2.2.2.2.1], hrest.1, hrest.2, ?_⟩
      intro how p0 hb
      have how' : o.overwrite = false := by rw [hopts.2.1, how]
      have := Policy.C17_sev_no_weaken _ _ _ _ _ how' hm
      simpa [hb] using this
  · rw [hv] at hc; simp at hc

/-- `tdx policy`: what the command writes is the library's result for the options the command line names; unrelated
    fields are the base's; the allow-list placed in the result is exactly the endorsement's MRTDs for the RAM size
    named on the command line; and WITHOUT `--overwrite` an MRTD allow-list present in the base policy file is never
    replaced (the command is refused instead). -/
theorem C17_cli_tdx_no_weaken (W : World Cert Roots Time R Q) (E : Env Time) (cl : CmdLine) (hv : cl.cmd = "tdx policy")
    (path : String) (form : OutForm) (q : Policy.TdxPolicy Q R)
    (hw : Effect.write path (.tdxPolicy form q) ∈ (run W E cl).effects) :
    ∃ e o out rs, callOf W.P W.L E cl = .ok (.tdxPolicy e o out) ∧ W.G.goldenTdx e = some (some rs) ∧
      Policy.tdxPolicy W.G.emptyQ W.G.emptyR (some rs) o = some q ∧ path = namedOut cl ∧
      q.rest = (o.base.getD ⟨none, W.G.emptyR⟩).rest ∧
      (∃ b, q.body = some b ∧
        b.anyMrTd = (rs.filter (fun m => namedRamGiB W.L cl == 0 || m.ramGib == Policy.u32 (namedRamGiB W.L cl))).map (·.mrtd)) ∧
      (namedOverwrite cl = false → ∀ b0, (o.base.getD ⟨none, W.G.emptyR⟩).body = some b0 → b0.anyMrTd = []) := by
  rcases C17_cli_run_cases W E cl (Or.inr hv) with h0 | ⟨_, _, _, _, hc, _⟩ | ⟨e, o, out, q', hc, hcall, ⟨rows, hg, hq⟩, hrun⟩
  · rw [h0] at hw; cases hw
  · rw [hv] at hc; simp at hc
  · rw [hrun] at hw
    obtain ⟨hpath, hwq⟩ := C17_cli_emit_write_mem E _ _ _ _ hw
    injection hwq with _ hqq
    subst hqq
    have hopts := C17_cli_tdx_options W E cl e o out hc hcall
    cases rows with
    | none => simp [Policy.tdxPolicy] at hq
    | some rs =>
      obtain ⟨h1, ⟨b, hb, hl, _⟩, h3⟩ := Policy.C17_tdx _ _ _ _ _ hq
      refine ⟨e, o, out, rs, hcall, hg, hq, by rw [hpath, hopts.2.2.2.1], h1, ⟨b, hb, ?_⟩, ?_⟩
      · rw [hl, hopts.2.2.1]
      · intro how
        exact h3 (by rw [hopts.2.1, how])

/-! ### the output form -/

/-- What `--outform` selects (the usage text: "textproto|bin|hex|base64|auto … Auto means the default is textproto
    if writing to a terminal, otherwise bin"); any other value refuses the command line before anything is read. -/
theorem C17_cli_outform (out : String) (term : Bool) :
    (outSpecOf out "textproto").map (fun s => outFormOf s term) = some .text ∧
    (outSpecOf out "bin").map (fun s => outFormOf s term) = some .raw ∧
    (outSpecOf out "hex").map (fun s => outFormOf s term) = some .hex ∧
    (outSpecOf out "base64").map (fun s => outFormOf s term) = some .base64 ∧
    (outSpecOf out "auto").map (fun s => outFormOf s term) = some (if term then .text else .raw) ∧
    (∀ f, f ≠ "textproto" → parseBytesForm f = none → outSpecOf out f = none) := by
  refine ⟨by cases term <;> rfl, by cases term <;> rfl, by cases term <;> rfl, by cases term <;> rfl,
    by cases term <;> rfl, ?_⟩
  intro f hf hp
  have : (f == "textproto") = false := by simpa using hf
  simp [outSpecOf, this, hp]

/-! ### non-vacuity and a witness -/

open ExampleP in
/-- Non-vacuity: an agreeing base policy file is extended (its unrelated field 42 and its key carried over) and
    written to --out; the empty file is the empty policy (NOT the default policy: its `rest` is 0, not 7); junk, a
    missing file and an unknown --outform are refused with no effect. -/
example :
    (run W E (line "agree" [])).result = Verify.accept ∧
    (run W E (line "agree" [])).effects.map Effect.path = ["p.out", "p.out"] ∧
    (writtenSev (run W E (line "agree" [])).effects).map (fun q => (q.measurement, q.minimumGuestSvn, q.trustedIdKeys, q.rest))
      = some (m4, 3, [[1, 2]], 42) ∧
    (writtenSev (run W E (line "empty" [])).effects).map (·.rest) = some 0 ∧
    (writtenSev (run W E ⟨"sev policy", [("launch_vmsas", "4")], ["e"]⟩).effects).map (·.rest) = some 7 ∧
    ((run W E (line "junk" [])).result, (run W E (line "junk" [])).effects.length) = (.err "base-unmarshal", 0) ∧
    ((run W E (line "nosuchfile" [])).result, (run W E (line "nosuchfile" [])).effects.length) = (.err "base-read", 0) ∧
    ((run W E (line "agree" [("outform", "yaml")])).result, (run W E (line "agree" [("outform", "yaml")])).effects.length)
      = (.err "outform", 0) := by decide

open ExampleP in
/-- `--overwrite` stated exactly: a base policy file whose measurement conflicts with the endorsement's is refused
    without the flag (and with `--overwrite=false`), with no effect; with `--overwrite` the measurement is replaced —
    the weakening the caller asked for — and the base file is left as it was. -/
theorem C17_cli_overwrite_witness :
    ((run W E (line "conflict" [])).result, (run W E (line "conflict" [])).effects.length) = (.err "policy", 0) ∧
    (run W E (line "conflict" [("overwrite", "false")])).result = .err "policy" ∧
    (run W E (line "conflict" [("overwrite", "true")])).result = Verify.accept ∧
    (writtenSev (run W E (line "conflict" [("overwrite", "true")])).effects).map (·.measurement) = some m4 ∧
    fsAfter (fun _ => [0xFF]) E.readFile (run W E (line "conflict" [("overwrite", "true")])).effects "conflict" = some [0xB1] ∧
    fsAfter (fun _ => [0xFF]) E.readFile (run W E (line "conflict" [("overwrite", "true")])).effects "p.out" = some [0xFF] := by
  decide

end GceTcb.RpCli
