import GceTcb.Proofs.DecTotal
import GceTcb.Gen.PanicSitesDec
/-
C07 — "Relying-party decoders are total on untrusted bytes", the verifier-glue half (C07D).

Every theorem quantifies over ALL parsers (`P : Parsers …`: any function from byte strings to parse
shapes — so over all byte strings through any third-party decoder, including every "absent / present but
empty / wrong length" shape) and all inputs.  What is proved about each entry point of the repaired tree:

  C07_dec_no_panic_<entry>     it never ends in a Go run-time panic;
  C07_dec_cost_bound_<entry>   the loop iterations and bytes the glue itself allocates are bounded by
                               a·(size of the parse result) + b, hence — `C07_dec_linear_*` — by a·|input| + b
                               for parsers whose results are no larger than their input;
  C07_dec_sites                the model's list of panic-capable sites is the inventory regenerated from
                               the source.

and about the tree as it was: `C07_finding_timestamp_nil` (an endorsement whose golden measurement has no
timestamp crashes verify.Endorsement before any signature check).

Pointer arguments that the CALLER owns (options structures, the *Inspect in the context) are non-nil in
these statements: a nil there is a programming error of the relying party, not data of the peer; the
`example`s at the end show that the model does panic on them, i.e. the checked operations are live.
-/
namespace GceTcb.C07Dec
open GceTcb GceTcb.DecTotal

variable {Cert Roots Time : Type}

macro "np_step" : tactic => `(tactic| with_reducible first
  | exact noPanic_pure _ | exact noPanic_fail _ | exact noPanic_tick _ | exact noPanic_allocate _
  | exact noPanic_httpGet _ _ | exact noPanic_deref _ _ | exact noPanic_assertType _ _
  | exact noPanic_deref_of_eq (by assumption)
  | assumption
  | refine noPanic_bind ?_ (fun _ _ => ?_)
  | refine noPanic_passes ?_ | refine noPanic_catchErr ?_
  | split)
/-- decomposes a goal `NoPanic (do …)` along binds, `if`s and `match`es; leaves the calls of other model functions -/
macro "np" : tactic => `(tactic| repeat' np_step)

/-! ## no panic: verify -/

theorem C07_dec_no_panic_anyMeasurement (given : Bytes) (l : List (Nat × Bytes)) :
    NoPanic (anyMeasurement given l) := by
  induction l with
  | nil => exact noPanic_pure _
  | cons p rest ih => simp only [anyMeasurement, bind_def]; np

/-- verify.SNP on a golden measurement and options that exist -/
theorem C07_dec_no_panic_SNP (g : PGolden) (o : SNPOptions) : NoPanic (snp (some g) (some o)) := by
  simp only [snp, bind_def]
  np
  all_goals exact C07_dec_no_panic_anyMeasurement _ _

theorem C07_dec_no_panic_CheckCertificate (P : Parsers Cert Roots Time) (c : Bytes) (r : Option Roots) (t : Time) :
    NoPanic (checkCertificate P c r t) := by
  unfold checkCertificate; np

/-- verify.EndorsementProto (repaired), for every parser, every endorsement message, every options value -/
theorem C07_dec_no_panic_EndorsementProto (P : Parsers Cert Roots Time) (e : PEndorsement) (o : Options Roots Time) :
    NoPanic (endorsementProto P (some e) (some o)) := by
  simp only [endorsementProto, endorsementProtoWith, bind_def, Bool.false_eq_true, ↓reduceIte]
  np
  all_goals first
    | exact C07_dec_no_panic_CheckCertificate P _ _ _
    | exact C07_dec_no_panic_SNP _ _

/-- verify.Endorsement (repaired): for ALL byte strings through ANY protobuf decoder -/
theorem C07_dec_no_panic_Endorsement (P : Parsers Cert Roots Time) (ser : Bytes) (o : Options Roots Time) :
    NoPanic (endorsement P ser (some o)) := by
  simp only [endorsement, endorsementWith]
  np
  all_goals exact C07_dec_no_panic_EndorsementProto P _ _

/-- the closure of verify.SNPFamilyValidateFunc: any attestation (nil included), any blob (nil included) -/
theorem C07_dec_no_panic_SNPValidateFunc (P : Parsers Cert Roots Time) (o : Options Roots Time)
    (att : Option PAtt) (ser : Option Bytes) : NoPanic (snpClosure P (some o) att ser) := by
  simp only [snpClosure, snpClosureWith, bind_def]
  np
  all_goals first
    | exact C07_dec_no_panic_EndorsementProto P _ _
    | exact C07_dec_no_panic_Endorsement P _ _

/-! ## no panic: extractsev, extract -/

theorem C07_dec_no_panic_checkRanges (n : Nat) (l : List (Nat × Nat)) (t : Nat) : NoPanic (checkRanges n t l) := by
  induction l generalizing t with
  | nil => exact noPanic_pure _
  | cons e rest ih => obtain ⟨off, len⟩ := e; simp only [checkRanges, bind_def]; np; exact ih _

/-- extractsev.CheckCertTable (the fix): any header parser, any table -/
theorem C07_dec_no_panic_CheckCertTable (P : Parsers Cert Roots Time) (table : Bytes) :
    NoPanic (checkCertTable P table) := by
  unfold checkCertTable; np; exact C07_dec_no_panic_checkRanges _ _ _

theorem C07_dec_no_panic_FromAttestation (a : Option PAtt) : NoPanic (fromAttestation a) := by
  unfold fromAttestation; np

/-- extractsev.FromCertTable: any byte string -/
theorem C07_dec_no_panic_FromCertTable (P : Parsers Cert Roots Time) (table : Bytes) :
    NoPanic (fromCertTable P table) := by
  simp only [fromCertTable, bind_def]; np; exact C07_dec_no_panic_CheckCertTable P _

theorem C07_dec_no_panic_decodeQuote (P : Parsers Cert Roots Time) (quote : Bytes) : NoPanic (decodeQuote P quote) := by
  simp only [decodeQuote, bind_def]; np

theorem C07_dec_no_panic_reportCertsOf (quote2 : Bytes) : NoPanic (reportCertsOf quote2) := by
  unfold reportCertsOf; np; exact noPanic_sliceFrom _ _ _ (by assumption)

theorem C07_dec_no_panic_rawFormats (P : Parsers Cert Roots Time) (quote2 : Bytes) : NoPanic (rawFormats P quote2) := by
  simp only [rawFormats, bind_def]
  np
  all_goals first
    | exact C07_dec_no_panic_CheckCertTable P _
    | exact C07_dec_no_panic_reportCertsOf _

/-- extract.Attestation: any byte string, any parsers — including a go-tdx-guest that panics -/
theorem C07_dec_no_panic_Attestation (P : Parsers Cert Roots Time) (quote : Bytes) :
    NoPanic (attestation P quote) := by
  simp only [attestation, attestation.attestationRest, bind_def]
  np
  all_goals first
    | exact C07_dec_no_panic_decodeQuote P _
    | exact C07_dec_no_panic_rawFormats P _

theorem C07_dec_no_panic_fromQuote (P : Parsers Cert Roots Time) (quote : Bytes) : NoPanic (fromQuote P quote) := by
  simp only [fromQuote, bind_def]; np; exact C07_dec_no_panic_Attestation P _

/-- extract.Endorsement (quote / provider / getter part): any options, nil included -/
theorem C07_dec_no_panic_ExtractEndorsement (P : Parsers Cert Roots Time) (o : Option ExtractOptions) :
    NoPanic (extractEndorsement P o) := by
  simp only [extractEndorsement, providerStep, fetchEndorsement, bind_def]
  np
  all_goals exact C07_dec_no_panic_fromQuote P _

/-! ## no panic: policy derivation -/

theorem C07_dec_no_panic_policyModificationAllowed (s : PSevSnp) (p : Option SevPol) (o : SevPolicyOptions) :
    NoPanic (policyModificationAllowed (some s) p (some o)) := by
  simp only [policyModificationAllowed, bind_def]; np

theorem C07_dec_no_panic_addBundle (P : Parsers Cert Roots Time) (s : Option PSevSnp) (p : SevPol) :
    NoPanic (addBundle P s p) := by
  simp only [addBundle, bind_def]; np

theorem C07_dec_no_panic_modifyPolicy (P : Parsers Cert Roots Time) (s : PSevSnp) (p : SevPol) (o : SevPolicyOptions) :
    NoPanic (modifyPolicy P (some s) (some p) (some o)) := by
  simp only [modifyPolicy, modifyPolicy.modifyPolicyRest, bind_def]
  np
  all_goals first
    | exact C07_dec_no_panic_policyModificationAllowed _ _ _
    | exact C07_dec_no_panic_addBundle P _ _

/-- gcetcbendorsement.SevPolicy: any endorsement message (nil included: it is read through a getter) -/
theorem C07_dec_no_panic_SevPolicy (P : Parsers Cert Roots Time) (e : Option PEndorsement) (o : SevPolicyOptions) :
    NoPanic (sevPolicy P e (some o)) := by
  simp only [sevPolicy, bind_def]
  np
  all_goals (simp only [*]; exact C07_dec_no_panic_modifyPolicy P _ _ _)

theorem C07_dec_no_panic_collectMrtds (ram : Int) (rows : List (Option PTdxRow)) (acc : List Bytes) :
    NoPanic (collectMrtds ram rows acc) := by
  induction rows generalizing acc with
  | nil => exact noPanic_pure _
  | cons m rest ih => simp only [collectMrtds, bind_def]; np <;> exact ih _

theorem C07_dec_no_panic_modifyTdxPolicy (p : TdxPol) (mrtds : List Bytes) (o : TdxPolicyOptions) :
    NoPanic (modifyTdxPolicy (some p) mrtds (some o)) := by
  simp only [modifyTdxPolicy, bind_def]; np

/-- gcetcbendorsement.TdxPolicy: any endorsement message (nil included), rows that are nil pointers included -/
theorem C07_dec_no_panic_TdxPolicy (P : Parsers Cert Roots Time) (e : Option PEndorsement) (o : TdxPolicyOptions) :
    NoPanic (tdxPolicy P e (some o)) := by
  simp only [tdxPolicy, bind_def]
  np
  all_goals first
    | exact C07_dec_no_panic_collectMrtds _ _ _
    | exact C07_dec_no_panic_modifyTdxPolicy _ _ _

/-! ## no panic: validation -/

theorem C07_dec_no_panic_extractEndorsementSev (P : Parsers Cert Roots Time) (att : Option PAtt)
    (o : SevValidateOptions Roots Time) : NoPanic (extractEndorsementSev P att (some o)) := by
  simp only [extractEndorsementSev, bind_def]; np

/-- gcetcbendorsement.SevValidate: any attestation (nil, no report, no certificate chain, …), any parsers -/
theorem C07_dec_no_panic_SevValidate (P : Parsers Cert Roots Time) (att : Option PAtt)
    (o : SevValidateOptions Roots Time) : NoPanic (sevValidate P att (some o)) := by
  simp only [sevValidate, sevValidateWith, bind_def]
  np
  all_goals first
    | exact C07_dec_no_panic_extractEndorsementSev P _ _
    | exact C07_dec_no_panic_SevPolicy P _ _
    | exact C07_dec_no_panic_SNPValidateFunc P _ _ _

/-- gcetcbendorsement.TdxValidate: any attestation bytes, any parsers -/
theorem C07_dec_no_panic_TdxValidate (P : Parsers Cert Roots Time) (attBytes : Bytes)
    (o : TdxValidateOptions Roots Time) : NoPanic (tdxValidate P attBytes (some o)) := by
  simp only [tdxValidate, tdxValidateWith, bind_def]
  np
  all_goals first
    | exact C07_dec_no_panic_Attestation P _
    | exact C07_dec_no_panic_EndorsementProto P _ _
    | exact C07_dec_no_panic_TdxPolicy P _ _

/-! ## no panic: inspect, presentation -/

theorem C07_dec_no_panic_WriteBytesForm (n : Nat) (form : BytesForm) (terminal : Bool) :
    NoPanic (writeBytesForm n form terminal) := by
  cases form <;> simp only [writeBytesForm, bind_def] <;> np

theorem C07_dec_no_panic_inspectFrom (i : Inspect) : NoPanic (inspectFrom (some (some i))) := by
  unfold inspectFrom; np

/-- InspectSignature: any endorsement message, nil included (it is read through a getter) -/
theorem C07_dec_no_panic_InspectSignature (i : Inspect) (e : Option PEndorsement) :
    NoPanic (inspectSignature (some (some i)) e) := by
  simp only [inspectSignature, bind_def]; np
  all_goals first | exact C07_dec_no_panic_inspectFrom _ | exact C07_dec_no_panic_WriteBytesForm _ _ _

/-- InspectPayload: any non-nil endorsement message -/
theorem C07_dec_no_panic_InspectPayload (i : Inspect) (e : PEndorsement) :
    NoPanic (inspectPayload (some (some i)) (some e)) := by
  simp only [inspectPayload, bind_def]; np
  all_goals first | exact C07_dec_no_panic_inspectFrom _ | exact C07_dec_no_panic_WriteBytesForm _ _ _

theorem C07_dec_no_panic_renderValue (v : PathVal) (form : BytesForm) (terminal : Bool) :
    NoPanic (renderValue v form terminal) := by
  cases v <;> simp only [renderValue, bind_def] <;> np
  all_goals exact C07_dec_no_panic_WriteBytesForm _ _ _

theorem C07_dec_no_panic_maskPaths (P : Parsers Cert Roots Time) (g : PGolden) (form : BytesForm) (terminal : Bool)
    (paths : List String) (i : Nat) (acc : Option Nat) : NoPanic (maskPaths P g form terminal i paths acc) := by
  induction paths generalizing i acc with
  | nil => exact noPanic_pure _
  | cons p rest ih =>
    simp only [maskPaths, bind_def]
    np
    all_goals first | exact C07_dec_no_panic_renderValue _ _ _ | exact ih _ _

/-- InspectMask / MaskOptions.Mask: any golden measurement the decoder yields, any value kinds the path walk yields -/
theorem C07_dec_no_panic_InspectMask (P : Parsers Cert Roots Time) (i : Inspect) (e : PEndorsement)
    (paths : List String) : NoPanic (inspectMask P (some (some i)) (some e) paths) := by
  simp only [inspectMask, bind_def]; np
  all_goals first | exact C07_dec_no_panic_inspectFrom _ | exact C07_dec_no_panic_maskPaths P _ _ _ _ _ _

/-! ## cost -/

theorem costLe_bind0L {α β : Type} {x : M α} {f : α → M β} {n : Nat} (hx : CostLe x 0)
    (hf : ∀ a, x.out = .ok a → CostLe (f a) n) : CostLe (M.bind x f) n := by
  have := costLe_bind hx hf; simpa using this

theorem costLe_bind0R {α β : Type} {x : M α} {f : α → M β} {n : Nat} (hx : CostLe x n)
    (hf : ∀ a, x.out = .ok a → CostLe (f a) 0) : CostLe (M.bind x f) n := by
  have := costLe_bind hx hf; simpa using this

theorem cost_checkCertificate (P : Parsers Cert Roots Time) (c : Bytes) (r : Option Roots) (t : Time) :
    CostLe (checkCertificate P c r t) 0 := by
  unfold checkCertificate
  repeat' (first | exact costLe_pure _ | exact costLe_fail _ | split)

macro "cl_atom" : tactic => `(tactic| with_reducible first
  | exact costLe_mono (costLe_pure _) (Nat.zero_le _) | exact costLe_mono (costLe_fail _) (Nat.zero_le _)
  | exact costLe_mono (costLe_crash _) (Nat.zero_le _)
  | exact costLe_mono (costLe_deref _ _) (Nat.zero_le _) | exact costLe_mono (costLe_assertType _ _) (Nat.zero_le _)
  | exact costLe_mono (costLe_httpGet _ _) (Nat.zero_le _) | exact costLe_mono (costLe_sliceFrom _ _ _) (Nat.zero_le _)
  | exact costLe_mono (cost_checkCertificate _ _ _ _) (Nat.zero_le _)
  | assumption)
/-- decomposes `CostLe (do …) n` along binds one of whose sides costs nothing, `if`s and `match`es -/
macro "cl_step" : tactic => `(tactic| with_reducible first
  | cl_atom
  | refine costLe_bind0L (by cl_atom) (fun _ _ => ?_)
  | refine costLe_bind0R ?_ (fun _ _ => ?_)
  | refine costLe_passes ?_ | refine costLe_catchErr ?_
  | split)
macro "cl" : tactic => `(tactic| repeat' cl_step)

/-- sizes of a parse result: entries of the SEV-SNP measurement map, TDX rows -/
def nMeas (g : PGolden) : Nat := ((g.sevSnp.bind (·.measurements)).getD []).length
def nRows (g : PGolden) : Nat := ((g.tdx.map (·.rows)).getD []).length

theorem cost_anyMeasurement (given : Bytes) (l : List (Nat × Bytes)) : CostLe (anyMeasurement given l) l.length := by
  induction l with
  | nil => exact costLe_pure _
  | cons p rest ih =>
    simp only [anyMeasurement, bind_def, List.length_cons]
    have : rest.length + 1 = 1 + rest.length := by omega
    rw [this]
    refine costLe_bind (costLe_tick 1) (fun _ _ => ?_)
    split
    · exact costLe_mono (costLe_pure _) (Nat.zero_le _)
    · exact ih

/-- verify.SNP visits each entry of the measurement map at most once -/
theorem C07_dec_cost_bound_SNP (g : PGolden) (o : SNPOptions) : CostLe (snp (some g) (some o)) (nMeas g) := by
  simp only [snp, bind_def]
  cl
  have h1 := deref_out_ok (by assumption : (deref "verify.SNP#1:deref" (some g)).out = Outcome.ok _)
  simp only [Option.some.injEq] at h1
  subst h1
  refine costLe_mono (cost_anyMeasurement _ _) ?_
  simp [nMeas, *]

/-- verify.EndorsementProto: bounded by the number of measurement-map entries of the golden measurement it decoded -/
theorem C07_dec_cost_bound_EndorsementProto (P : Parsers Cert Roots Time) (e : PEndorsement) (o : Options Roots Time) :
    CostLe (endorsementProto P (some e) (some o)) (((P.unmarshalGolden e.payload).map nMeas).getD 0) := by
  simp only [endorsementProto, endorsementProtoWith, bind_def, Bool.false_eq_true, ↓reduceIte]
  cl
  have h1 := deref_out_ok (by assumption : (deref "verify.EndorsementProto#1:deref" (some e)).out = Outcome.ok _)
  simp only [Option.some.injEq] at h1
  subst h1
  simp only [*, Option.map_some, Option.getD_some]
  exact C07_dec_cost_bound_SNP _ _

def goldenOf (P : Parsers Cert Roots Time) (ser : Bytes) : Option PGolden :=
  (P.unmarshalEndorsement ser).bind (fun e => P.unmarshalGolden e.payload)

/-- verify.Endorsement -/
theorem C07_dec_cost_bound_Endorsement (P : Parsers Cert Roots Time) (ser : Bytes) (o : Options Roots Time) :
    CostLe (endorsement P ser (some o)) (((goldenOf P ser).map nMeas).getD 0) := by
  simp only [endorsement, endorsementWith, goldenOf]
  split
  · exact costLe_mono (costLe_fail _) (Nat.zero_le _)
  · rename_i e he
    simp only [he, Option.bind_some]
    exact C07_dec_cost_bound_EndorsementProto P e o

/-- the size law of a protobuf decoder that the linear bounds need: a decoded message has no more map
    entries / repeated elements than its encoding has bytes, and a bytes field is no longer than the
    message it came in -/
structure SizeLaw (P : Parsers Cert Roots Time) : Prop where
  golden : ∀ b g, P.unmarshalGolden b = some g → nMeas g + nRows g ≤ b.length
  payload : ∀ b e, P.unmarshalEndorsement b = some e → e.payload.length ≤ b.length
  header : ∀ b l, P.certTableHeader b = some l → l.length ≤ b.length
  hex : ∀ b d, P.hexDecode b = some d → d.length ≤ b.length
  base64 : ∀ b d, P.base64Decode b = some d → d.length ≤ b.length

/-- verify.Endorsement: cost ≤ 1·|input| + 0 -/
theorem C07_dec_linear_Endorsement (P : Parsers Cert Roots Time) (law : SizeLaw P) (ser : Bytes) (o : Options Roots Time) :
    CostLe (endorsement P ser (some o)) (1 * ser.length + 0) := by
  refine costLe_mono (C07_dec_cost_bound_Endorsement P ser o) ?_
  unfold goldenOf
  cases he : P.unmarshalEndorsement ser with
  | none => simp
  | some e =>
    cases hg : P.unmarshalGolden e.payload with
    | none => simp [hg]
    | some g =>
      have h1 := law.golden _ _ hg
      have h2 := law.payload _ _ he
      simp [hg]; omega

/-! ### certificate tables, attestation formats -/

theorem cost_checkRanges (n : Nat) (l : List (Nat × Nat)) (t : Nat) : CostLe (checkRanges n t l) l.length := by
  induction l generalizing t with
  | nil => exact costLe_pure _
  | cons e rest ih =>
    obtain ⟨off, len⟩ := e
    simp only [checkRanges, bind_def, List.length_cons]
    have : rest.length + 1 = 1 + rest.length := by omega
    rw [this]
    refine costLe_bind (costLe_tick 1) (fun _ _ => ?_)
    split
    · exact costLe_mono (costLe_fail _) (Nat.zero_le _)
    · split
      · exact costLe_mono (costLe_fail _) (Nat.zero_le _)
      · split
        · exact costLe_mono (costLe_fail _) (Nat.zero_le _)
        · exact ih _

def nEntries (P : Parsers Cert Roots Time) (table : Bytes) : Nat := ((P.certTableHeader table).map (·.length)).getD 0

/-- extractsev.CheckCertTable: one iteration per header entry -/
theorem C07_dec_cost_bound_CheckCertTable (P : Parsers Cert Roots Time) (table : Bytes) :
    CostLe (checkCertTable P table) (nEntries P table) := by
  unfold checkCertTable nEntries
  split
  · exact costLe_mono (costLe_fail _) (Nat.zero_le _)
  · rename_i l h; simp only [h, Option.map_some, Option.getD_some]; exact cost_checkRanges _ _ _

theorem C07_dec_linear_CheckCertTable (P : Parsers Cert Roots Time) (law : SizeLaw P) (table : Bytes) :
    CostLe (checkCertTable P table) (1 * table.length + 0) := by
  refine costLe_mono (C07_dec_cost_bound_CheckCertTable P table) ?_
  unfold nEntries
  cases h : P.certTableHeader table with
  | none => simp
  | some l => have := law.header _ _ h; simp; omega

/-- extractsev.FromCertTable -/
theorem C07_dec_cost_bound_FromCertTable (P : Parsers Cert Roots Time) (table : Bytes) :
    CostLe (fromCertTable P table) (nEntries P table) := by
  simp only [fromCertTable, bind_def]
  refine costLe_bind0R (C07_dec_cost_bound_CheckCertTable P table) (fun _ _ => ?_)
  cl

/-- the decoded form of a quote: what extract.Attestation hands to the raw parsers -/
def decodedOf (P : Parsers Cert Roots Time) (quote : Bytes) : Bytes :=
  match P.hexDecode quote with
  | some d => d
  | none => match P.base64Decode quote with
    | some d => d
    | none => quote

theorem decodeQuote_out (P : Parsers Cert Roots Time) (quote : Bytes) :
    (decodeQuote P quote).out = .ok (decodedOf P quote) := by
  simp only [decodeQuote, decodedOf, bind_def, M.bind, allocate, M.pure]
  cases P.hexDecode quote <;> simp
  cases P.base64Decode quote <;> simp

theorem cost_decodeQuote (P : Parsers Cert Roots Time) (quote : Bytes) :
    CostLe (decodeQuote P quote) (quote.length + (decodedOf P quote).length) := by
  simp only [decodeQuote, decodedOf, bind_def]
  refine costLe_bind (costLe_allocate _) (fun _ _ => ?_)
  cases P.hexDecode quote with
  | some d => exact costLe_bind0R (costLe_allocate _) (fun _ _ => costLe_pure _)
  | none =>
    cases P.base64Decode quote with
    | some d => exact costLe_bind0R (costLe_allocate _) (fun _ _ => costLe_pure _)
    | none => exact costLe_mono (costLe_pure _) (Nat.zero_le _)

/-- where the certificate table sits behind a raw report -/
def certsPart (quote2 : Bytes) : Bytes := if reportSize ≤ quote2.length then quote2.drop reportSize else []

theorem reportCertsOf_out (quote2 : Bytes) : (reportCertsOf quote2).out = .ok (certsPart quote2) := by
  unfold reportCertsOf certsPart sliceFrom
  split <;> simp [M.pure, *]

theorem cost_reportCertsOf (quote2 : Bytes) : CostLe (reportCertsOf quote2) 0 := by
  unfold reportCertsOf
  split
  · exact costLe_sliceFrom _ _ _
  · exact costLe_pure _

/-- the raw formats: one iteration per header entry of the two places a certificate table can sit -/
theorem cost_rawFormats (P : Parsers Cert Roots Time) (quote2 : Bytes) :
    CostLe (rawFormats P quote2) (nEntries P (certsPart quote2) + nEntries P quote2) := by
  simp only [rawFormats, bind_def]
  refine costLe_bind0L (cost_reportCertsOf _) (fun rc hrc => ?_)
  have : rc = certsPart quote2 := by
    have := reportCertsOf_out quote2; rw [this] at hrc; simpa using hrc.symm
  subst this
  refine costLe_bind (costLe_passes (C07_dec_cost_bound_CheckCertTable P _)) (fun _ _ => ?_)
  split
  · exact costLe_mono (costLe_pure _) (Nat.zero_le _)
  · refine costLe_bind0R (costLe_passes (C07_dec_cost_bound_CheckCertTable P _)) (fun _ _ => ?_)
    cl

/-- extract.Attestation: the string copy of the quote, the decoded copy, and one iteration per header entry
    of the two places a certificate table can sit -/
theorem C07_dec_cost_bound_Attestation (P : Parsers Cert Roots Time) (quote : Bytes) :
    CostLe (attestation P quote)
      (quote.length + (decodedOf P quote).length
        + (nEntries P (certsPart (decodedOf P quote)) + nEntries P (decodedOf P quote))) := by
  have hraw : CostLe ((decodeQuote P quote).bind fun q2 => rawFormats P q2)
      (quote.length + (decodedOf P quote).length
        + (nEntries P (certsPart (decodedOf P quote)) + nEntries P (decodedOf P quote))) := by
    refine costLe_bind (cost_decodeQuote P quote) (fun q2 hq => ?_)
    have : q2 = decodedOf P quote := by
      have := decodeQuote_out P quote; rw [this] at hq; simpa using hq.symm
    subst this
    exact cost_rawFormats P _
  simp only [attestation, attestation.attestationRest, bind_def]
  repeat' (with_reducible first
    | exact costLe_mono (costLe_pure _) (Nat.zero_le _) | exact costLe_mono (costLe_fail _) (Nat.zero_le _)
    | exact hraw | split)

theorem certsPart_length (q : Bytes) : (certsPart q).length ≤ q.length := by
  unfold certsPart; split <;> simp

theorem decodedOf_length (P : Parsers Cert Roots Time) (law : SizeLaw P) (quote : Bytes) :
    (decodedOf P quote).length ≤ quote.length := by
  unfold decodedOf
  cases h : P.hexDecode quote with
  | some d => exact law.hex _ _ h
  | none =>
    cases h2 : P.base64Decode quote with
    | some d => exact law.base64 _ _ h2
    | none => exact Nat.le_refl _

theorem nEntries_le (P : Parsers Cert Roots Time) (law : SizeLaw P) (t : Bytes) : nEntries P t ≤ t.length := by
  unfold nEntries
  cases h : P.certTableHeader t with
  | none => simp
  | some l => simpa using law.header _ _ h

/-- extract.Attestation: cost ≤ 4·|input| -/
theorem C07_dec_linear_Attestation (P : Parsers Cert Roots Time) (law : SizeLaw P) (quote : Bytes) :
    CostLe (attestation P quote) (4 * quote.length + 0) := by
  refine costLe_mono (C07_dec_cost_bound_Attestation P quote) ?_
  have h1 := decodedOf_length P law quote
  have h2 := nEntries_le P law (certsPart (decodedOf P quote))
  have h3 := nEntries_le P law (decodedOf P quote)
  have h4 := certsPart_length (decodedOf P quote)
  omega

/-! ### policy derivation -/

theorem cost_policyModificationAllowed (s : Option PSevSnp) (p : Option SevPol) (o : Option SevPolicyOptions) :
    CostLe (policyModificationAllowed s p o) 0 := by
  simp only [policyModificationAllowed, bind_def]; cl

theorem cost_addBundle (P : Parsers Cert Roots Time) (s : Option PSevSnp) (p : SevPol) : CostLe (addBundle P s p) 0 := by
  simp only [addBundle, bind_def]; cl

theorem cost_modifyPolicyRest (P : Parsers Cert Roots Time) (s : Option PSevSnp) (p : Option SevPol) (o : SevPolicyOptions) :
    CostLe (modifyPolicy.modifyPolicyRest P s p o) 0 := by
  simp only [modifyPolicy.modifyPolicyRest, bind_def]
  cl
  all_goals exact cost_addBundle P _ _

theorem cost_modifyPolicy (P : Parsers Cert Roots Time) (s : Option PSevSnp) (p : Option SevPol) (o : Option SevPolicyOptions) :
    CostLe (modifyPolicy P s p o) 0 := by
  simp only [modifyPolicy, bind_def]
  cl
  all_goals first
    | exact cost_policyModificationAllowed _ _ _
    | exact cost_modifyPolicyRest P _ _ _

/-- gcetcbendorsement.SevPolicy has no loop of its own: at most two PEM blocks are looked at -/
theorem C07_dec_cost_bound_SevPolicy (P : Parsers Cert Roots Time) (e : Option PEndorsement) (o : Option SevPolicyOptions) :
    CostLe (sevPolicy P e o) 0 := by
  simp only [sevPolicy, bind_def]
  cl
  all_goals exact cost_modifyPolicy P _ _ _

theorem cost_collectMrtds (ram : Int) (rows : List (Option PTdxRow)) (acc : List Bytes) :
    CostLe (collectMrtds ram rows acc) (2 * rows.length) := by
  induction rows generalizing acc with
  | nil => exact costLe_pure _
  | cons m rest ih =>
    simp only [collectMrtds, bind_def, List.length_cons]
    have : 2 * (rest.length + 1) = 1 + (1 + 2 * rest.length) := by omega
    rw [this]
    refine costLe_bind (costLe_tick 1) (fun _ _ => ?_)
    split
    · exact costLe_mono (ih _) (by omega)
    · split
      · exact costLe_mono (costLe_fail _) (Nat.zero_le _)
      · exact costLe_bind (costLe_allocate 1) (fun _ _ => ih _)

theorem cost_modifyTdxPolicy (p : Option TdxPol) (m : List Bytes) (o : Option TdxPolicyOptions) :
    CostLe (modifyTdxPolicy p m o) 0 := by
  simp only [modifyTdxPolicy, bind_def]; cl

/-- gcetcbendorsement.TdxPolicy: one iteration and at most one appended slice header per TDX row -/
theorem C07_dec_cost_bound_TdxPolicy (P : Parsers Cert Roots Time) (e : Option PEndorsement) (o : Option TdxPolicyOptions) :
    CostLe (tdxPolicy P e o)
      (2 * (((P.unmarshalGolden (PEndorsement.getPayload e)).map nRows).getD 0)) := by
  simp only [tdxPolicy, bind_def]
  split
  · exact costLe_mono (costLe_fail _) (Nat.zero_le _)
  · rename_i g hg
    simp only [hg, Option.map_some, Option.getD_some]
    cl
    all_goals first
      | exact cost_modifyTdxPolicy _ _ _
      | (refine costLe_mono (cost_collectMrtds _ _ _) ?_; simp [nRows, *])

/-! ### presentation -/

/-- WriteBytesForm: one iteration per 512 (hex) / 768 (base64) input bytes -/
theorem C07_dec_cost_bound_WriteBytesForm (n : Nat) (form : BytesForm) (terminal : Bool) :
    CostLe (writeBytesForm n form terminal) (n + 37) := by
  cases form <;> simp only [writeBytesForm, bind_def]
  · exact costLe_mono (costLe_pure _) (Nat.zero_le _)
  · exact costLe_mono (costLe_bind0R (costLe_tick _) (fun _ _ => costLe_pure _)) (by omega)
  · split
    · exact costLe_mono (costLe_bind0R (costLe_tick _) (fun _ _ => costLe_pure _)) (by omega)
    · exact costLe_mono (costLe_bind0R (costLe_allocate _) (fun _ _ => costLe_pure _)) (by omega)
  · exact costLe_mono (costLe_bind0R (costLe_tick _) (fun _ _ => costLe_pure _)) (by omega)
  · split
    · exact costLe_mono (costLe_bind0R (costLe_tick _) (fun _ _ => costLe_pure _)) (by omega)
    · exact costLe_mono (costLe_pure _) (Nat.zero_le _)
  · exact costLe_mono (costLe_pure _) (Nat.zero_le _)

/-! ### composites, under a uniform bound on what the decoder returns -/

/-- the closure of verify.SNPFamilyValidateFunc: if every golden measurement the decoder can return has at most
    K measurement-map entries, the closure costs at most K (whichever endorsement it ends up verifying) -/
theorem C07_dec_cost_bound_SNPValidateFunc (P : Parsers Cert Roots Time) (K : Nat)
    (hK : ∀ b g, P.unmarshalGolden b = some g → nMeas g ≤ K)
    (o : Options Roots Time) (att : Option PAtt) (ser : Option Bytes) : CostLe (snpClosure P (some o) att ser) K := by
  have hEP : ∀ e o', CostLe (endorsementProto P (some e) (some o')) K := by
    intro e o'
    refine costLe_mono (C07_dec_cost_bound_EndorsementProto P e o') ?_
    cases h : P.unmarshalGolden e.payload with
    | none => simp
    | some g => simpa using hK _ _ h
  have hE : ∀ s o', CostLe (endorsement P s (some o')) K := by
    intro s o'
    simp only [endorsement, endorsementWith]
    split
    · exact costLe_mono (costLe_fail _) (Nat.zero_le _)
    · exact hEP _ _
  simp only [snpClosure, snpClosureWith, bind_def]
  cl
  all_goals first
    | exact hEP _ _
    | exact hE _ _

theorem cost_extractEndorsementSev (P : Parsers Cert Roots Time) (att : Option PAtt)
    (o : Option (SevValidateOptions Roots Time)) : CostLe (extractEndorsementSev P att o) 0 := by
  simp only [extractEndorsementSev, bind_def]; cl

/-- gcetcbendorsement.SevValidate (glue only: the third-party validators are outside): at most K -/
theorem C07_dec_cost_bound_SevValidate (P : Parsers Cert Roots Time) (K : Nat)
    (hK : ∀ b g, P.unmarshalGolden b = some g → nMeas g ≤ K)
    (att : Option PAtt) (o : SevValidateOptions Roots Time) : CostLe (sevValidate P att (some o)) K := by
  simp only [sevValidate, sevValidateWith, bind_def]
  refine costLe_bind0L (costLe_deref _ _) (fun _ _ => ?_)
  split
  all_goals
    refine costLe_bind0L (by first | exact costLe_pure _ | exact cost_extractEndorsementSev P _ _) (fun _ _ => ?_)
    refine costLe_bind0L (C07_dec_cost_bound_SevPolicy P _ _) (fun _ _ => ?_)
    split
    · exact costLe_mono (costLe_fail _) (Nat.zero_le _)
    · split
      · exact costLe_mono (costLe_fail _) (Nat.zero_le _)
      · exact C07_dec_cost_bound_SNPValidateFunc P K hK _ _ _

/-- gcetcbendorsement.TdxValidate (glue only): the attestation's cost, then at most K for the endorsement check and
    2·R for the policy, K and R bounding the measurement-map entries / TDX rows the decoder can return -/
theorem C07_dec_cost_bound_TdxValidate (P : Parsers Cert Roots Time) (K R : Nat)
    (hK : ∀ b g, P.unmarshalGolden b = some g → nMeas g ≤ K)
    (hR : ∀ b g, P.unmarshalGolden b = some g → nRows g ≤ R)
    (attBytes : Bytes) (o : TdxValidateOptions Roots Time) :
    CostLe (tdxValidate P attBytes (some o))
      ((attBytes.length + (decodedOf P attBytes).length
        + (nEntries P (certsPart (decodedOf P attBytes)) + nEntries P (decodedOf P attBytes))) + (K + 2 * R)) := by
  have hEP : ∀ e o', CostLe (endorsementProto P (some e) (some o')) K := by
    intro e o'
    refine costLe_mono (C07_dec_cost_bound_EndorsementProto P e o') ?_
    cases h : P.unmarshalGolden e.payload with
    | none => simp
    | some g => simpa using hK _ _ h
  have hTP : ∀ e o', CostLe (tdxPolicy P e o') (2 * R) := by
    intro e o'
    refine costLe_mono (C07_dec_cost_bound_TdxPolicy P e o') ?_
    cases h : P.unmarshalGolden (PEndorsement.getPayload e) with
    | none => simp
    | some g => have := hR _ _ h; simp; omega
  have tail : ∀ (oo : TdxValidateOptions Roots Time) (x : M PEndorsement), CostLe x 0 → ∀ q : Option PQuote,
      CostLe (x.bind fun e =>
        (endorsementProtoWith false P (some e)
          (some { snp := none, roots := oo.roots, expectedUefiSha384 := [], now := oo.now, endorsement := none, getter := none })).bind fun _ =>
          (tdxPolicy P (some e) (some ⟨oo.basePolicy, oo.expectedRAMGiB, oo.overwrite⟩)).bind fun policy =>
            if (!P.tdxPolicyToOptions policy) = true then fail "policy-to-options"
            else if (!P.tdxQuoteChecks q policy) = true then fail "quote" else M.pure ()) (K + 2 * R) := by
    intro oo x hx q
    refine costLe_bind0L hx (fun e _ => ?_)
    refine costLe_bind (hEP _ _) (fun _ _ => ?_)
    refine costLe_bind0R (hTP _ _) (fun _ _ => ?_)
    cl
  simp only [tdxValidate, tdxValidateWith, bind_def]
  refine costLe_bind0L (costLe_deref _ _) (fun _ _ => ?_)
  refine costLe_bind (C07_dec_cost_bound_Attestation P attBytes) (fun tee _ => ?_)
  split
  · repeat' (with_reducible first
      | exact costLe_mono (costLe_fail _) (Nat.zero_le _)
      | exact tail _ _ (costLe_pure _) _
      | exact tail _ _ (costLe_fail _) _
      | split)
  · exact costLe_mono (costLe_fail _) (Nat.zero_le _)

theorem cost_renderValue (v : PathVal) (form : BytesForm) (terminal : Bool) :
    CostLe (renderValue v form terminal)
      (match v with | .bytes n => n + 37 | .map entries _ => entries | _ => 0) := by
  cases v <;> simp only [renderValue, bind_def]
  · exact costLe_bind0R (C07_dec_cost_bound_WriteBytesForm _ _ _) (fun _ _ => costLe_pure _)
  · exact costLe_pure _
  · exact costLe_bind0R (costLe_tick _) (fun _ _ => costLe_pure _)
  · exact costLe_pure _
  · exact costLe_pure _
  · exact costLe_fail _

/-- cost of rendering what a path yields -/
def renderCost (P : Parsers Cert Roots Time) (g : PGolden) (path : String) : Nat :=
  match P.pathValue g path (path == "timestamp") with
  | some (.bytes n) => n + 37
  | some (.map entries _) => entries
  | _ => 0

/-- MaskOptions.Mask: one iteration per path of the (relying party's own) mask plus the rendering of each value:
    linear in the bytes written -/
theorem C07_dec_cost_bound_maskPaths (P : Parsers Cert Roots Time) (g : PGolden) (form : BytesForm) (terminal : Bool)
    (paths : List String) (i : Nat) (acc : Option Nat) :
    CostLe (maskPaths P g form terminal i paths acc) ((paths.map (fun p => 1 + renderCost P g p)).sum) := by
  induction paths generalizing i acc with
  | nil => exact costLe_pure _
  | cons p rest ih =>
    simp only [maskPaths, bind_def, List.map_cons, List.sum_cons]
    have : 1 + renderCost P g p + (rest.map (fun p => 1 + renderCost P g p)).sum
        = 1 + (renderCost P g p + (rest.map (fun p => 1 + renderCost P g p)).sum) := by omega
    rw [this]
    refine costLe_bind (costLe_tick 1) (fun _ _ => ?_)
    unfold renderCost
    cases hv : P.pathValue g p (p == "timestamp") with
    | none => exact costLe_mono (costLe_fail _) (Nat.zero_le _)
    | some v =>
      simp only []
      refine costLe_bind ?_ (fun _ _ => ih _ _)
      have := cost_renderValue v form terminal
      cases v <;> simpa using this

/-- the bound of `C07_dec_cost_bound_Attestation` -/
def attBound (P : Parsers Cert Roots Time) (quote : Bytes) : Nat :=
  quote.length + (decodedOf P quote).length
    + (nEntries P (certsPart (decodedOf P quote)) + nEntries P (decodedOf P quote))

theorem cost_fromQuote (P : Parsers Cert Roots Time) (quote : Bytes) : CostLe (fromQuote P quote) (attBound P quote) := by
  simp only [fromQuote, bind_def]
  refine costLe_bind0R (C07_dec_cost_bound_Attestation P quote) (fun _ _ => ?_)
  cl

theorem cost_fetchEndorsement (g : Option (Url → Option Bytes)) (n : Option Url) : CostLe (fetchEndorsement g n) 0 := by
  simp only [fetchEndorsement, bind_def]; cl

/-- extract.Endorsement (quote / provider / getter part): the format detection of the given quote and, when the
    provider is consulted, of the quote it returns -/
theorem C07_dec_cost_bound_ExtractEndorsement (P : Parsers Cert Roots Time) (o : ExtractOptions) :
    CostLe (extractEndorsement P (some o))
      (attBound P o.quote + (match o.provider with | some (some q) => attBound P q | _ => 0)) := by
  simp only [extractEndorsement, bind_def]
  refine costLe_bind (costLe_catchErr (cost_fromQuote P o.quote)) (fun _ _ => ?_)
  split
  · exact costLe_mono (costLe_pure _) (Nat.zero_le _)
  · refine costLe_bind0R ?_ (fun _ _ => ?_)
    · unfold providerStep
      split
      · split
        · exact costLe_mono (costLe_fail _) (Nat.zero_le _)
        · rename_i q hq
          simp only [bind_def, hq]
          refine costLe_bind0R (cost_fromQuote P q) (fun _ _ => ?_)
          cl
      · exact costLe_mono (costLe_pure _) (Nat.zero_le _)
    · split
      · exact costLe_pure _
      · exact cost_fetchEndorsement _ _

/-- InspectMask: linear in the number of paths of the mask and the size of the values rendered -/
theorem C07_dec_cost_bound_InspectMask (P : Parsers Cert Roots Time) (i : Inspect) (e : PEndorsement) (paths : List String) :
    CostLe (inspectMask P (some (some i)) (some e) paths)
      (((P.unmarshalGolden e.payload).map (fun g => (paths.map (fun p => 1 + renderCost P g p)).sum)).getD 0) := by
  simp only [inspectMask, inspectFrom, bind_def]
  refine costLe_bind0L (costLe_deref _ _) (fun _ _ => ?_)
  refine costLe_bind0L (costLe_deref _ _) (fun e' he' => ?_)
  have := deref_out_ok he'
  simp only [Option.some.injEq] at this
  subst this
  split
  · exact costLe_mono (costLe_fail _) (Nat.zero_le _)
  · rename_i g hg
    simp only [hg, Option.map_some, Option.getD_some]
    exact C07_dec_cost_bound_maskPaths P g _ _ paths 0 _

/-- gcetcbendorsement.TdxPolicy: cost ≤ 2·|payload| -/
theorem C07_dec_linear_TdxPolicy (P : Parsers Cert Roots Time) (law : SizeLaw P) (e : PEndorsement) (o : TdxPolicyOptions) :
    CostLe (tdxPolicy P (some e) (some o)) (2 * e.payload.length + 0) := by
  refine costLe_mono (C07_dec_cost_bound_TdxPolicy P (some e) (some o)) ?_
  simp only [PEndorsement.getPayload, Option.map_some, Option.getD_some]
  cases h : P.unmarshalGolden e.payload with
  | none => simp
  | some g => have := law.golden _ _ h; simp; omega

/-! ## the tree as it was: timeproto.From(nil) -/

/-- parsers that accept everything as the empty message -/
def emptyParsers : Parsers Unit Unit Unit :=
  { unmarshalEndorsement := fun _ => some ⟨[], []⟩
    unmarshalGolden := fun _ => some PGolden.empty
    parseCert := fun _ => none
    verifyChain := fun _ _ _ => false
    checkSig := fun _ _ _ => false
    pemDecode := fun b => (none, b)
    unmarshalTpm := fun _ => none
    unmarshalSevAtt := fun _ => none
    unmarshalReport := fun _ => none
    unmarshalQuoteV4 := fun _ => none
    hexDecode := fun _ => none
    base64Decode := fun _ => none
    certTableHeader := fun _ => none
    reportCertsToProto := fun _ => none
    certTableProto := fun _ => none
    certTableGet := fun _ => none
    quoteToProto := fun _ => .panic "go-tdx-guest"
    defaultPolicyBits := 458752
    sevPolicyToOptions := fun _ => true
    snpBaseChecks := fun _ _ => true
    tdxPolicyToOptions := fun _ => true
    tdxQuoteChecks := fun _ _ => true
    pathValue := fun _ _ _ => none }

def someOptions : Options Unit Unit :=
  { snp := none, roots := some (), expectedUefiSha384 := [], now := (), endorsement := none, getter := none }

/-- D3: on the tree as it was, the EMPTY byte string (the empty endorsement: no timestamp) makes
    verify.Endorsement panic in timeproto.From, before the certificate or the signature is looked at. -/
theorem C07_finding_timestamp_nil :
    (endorsementWith true emptyParsers [] (some someOptions)).out = .panic "timeproto.From#1:deref" := by
  decide

/-- … and so the old tree does not have the property. -/
theorem C07_finding_timestamp_nil_refutes :
    ¬ (∀ (P : Parsers Unit Unit Unit) (ser : Bytes) (o : Options Unit Unit), NoPanic (endorsementWith true P ser (some o))) := by
  intro h
  exact h emptyParsers [] someOptions _ C07_finding_timestamp_nil

/-! ## what the certificate-table check guarantees -/

theorem C07_dec_checkRanges_sound (n : Nat) (l : List (Nat × Nat)) (t : Nat) (ht : t ≤ n)
    (h : (checkRanges n t l).out = .ok ()) :
    (∀ e ∈ l, e.1 + e.2 ≤ n) ∧ t + (l.map (·.2)).sum ≤ n := by
  induction l generalizing t with
  | nil => simp; exact ht
  | cons e rest ih =>
    obtain ⟨off, len⟩ := e
    simp only [checkRanges, bind_def, M.bind, tick] at h
    by_cases h1 : off + len > n
    · simp [h1, fail] at h
    · by_cases h3 : off + len > 4294967295
      · simp [h1, h3, fail] at h
      · by_cases h2 : t + len > n
        · simp [h1, h2, h3, fail] at h
        · simp only [h1, h2, h3, ↓reduceIte] at h
          have h' : (checkRanges n (t + len) rest).out = .ok () := by
            revert h; cases hc : (checkRanges n (t + len) rest).out <;> simp
          obtain ⟨ha, hb⟩ := ih (t + len) (by omega) h'
          refine ⟨?_, ?_⟩
          · intro e he
            simp only [List.mem_cons] at he
            rcases he with rfl | he
            · simp only; omega
            · exact ha e he
          · simp only [List.map_cons, List.sum_cons]; omega

/-- If extractsev.CheckCertTable accepts a table, every header entry's byte range lies inside the table
    and the ranges together are no longer than the table — so go-sev-guest's CertTable.Unmarshal, which
    copies every range, slices in bounds and copies at most |table| bytes. -/
theorem C07_dec_CheckCertTable_sound (P : Parsers Cert Roots Time) (table : Bytes)
    (h : (checkCertTable P table).out = .ok ()) :
    ∃ entries, P.certTableHeader table = some entries ∧
      (∀ e ∈ entries, e.1 + e.2 ≤ table.length) ∧ (entries.map (·.2)).sum ≤ table.length := by
  unfold checkCertTable at h
  cases hh : P.certTableHeader table with
  | none => rw [hh] at h; simp [fail] at h
  | some entries =>
    rw [hh] at h
    have := C07_dec_checkRanges_sound table.length entries 0 (Nat.zero_le _) h
    exact ⟨entries, rfl, this.1, by simpa using this.2⟩

/-! ## non-vacuity: concrete parse results that reach the deepest branch of each entry point, and the
      checked operations firing on what the statements above exclude -/

def m48 : Bytes := List.replicate 48 7
def deepGolden : PGolden :=
  { timestamp := some ⟨1725148800, 0⟩, clSpec := 1234, commit := [], cert := [1], digest := [9],
    sevSnp := some ⟨458752, 2, some [(2, [3]), (1, m48)], [], [0xCA]⟩,
    tdx := some ⟨[none, some ⟨4, m48⟩, some ⟨8, m48⟩]⟩ }

/-- parsers under which a genuine-looking endorsement, attestation, certificate table and PEM bundle parse -/
def deepParsers : Parsers Unit Unit Unit :=
  { emptyParsers with
    unmarshalEndorsement := fun b => if b == [0xE0] then some ⟨[0xA0], [0x51]⟩ else none
    unmarshalGolden := fun b => if b == [0xA0] then some deepGolden else none
    parseCert := fun _ => some ()
    verifyChain := fun _ _ _ => true
    checkSig := fun _ _ _ => true
    pemDecode := fun b => if b == [0xCA] then (some ⟨true, [1, 2]⟩, [0xCB]) else if b == [0xCB] then (some ⟨true, [3]⟩, []) else (none, b)
    hexDecode := fun b => if b == [0x48] then some (List.replicate 1190 0) else none
    certTableHeader := fun t => if t.length == 6 then some [(2, 4)] else if t.length == 1190 then some [] else none
    reportCertsToProto := fun q => if q.length == 1190 then some ⟨some ⟨m48⟩, some ⟨some [(gceFwCertGUID, [0xE0])]⟩⟩ else none
    certTableGet := fun _ => some (some [0xE0])
    pathValue := fun _ p _ => if p == "digest" then some (.bytes 48) else if p == "timestamp" then some (.ts 20)
      else if p == "sev_snp.measurements" then some (.map 2 100) else none }

def deepOptions : Options Unit Unit :=
  { snp := some ⟨some m48, 1⟩, roots := some (), expectedUefiSha384 := [9], now := (), endorsement := none, getter := none }

-- verify.Endorsement accepts: provenance, certificate, signature, digest and the per-VMSA measurement all pass
example : (endorsement deepParsers [0xE0] (some deepOptions)).out = .ok () := by decide
-- … and the any-measurement loop is reached and ticks once per entry it visits
example : (endorsement deepParsers [0xE0] (some { deepOptions with snp := some ⟨some m48, 0⟩ })).tr.ticks = 2 := by decide
-- the closure: full-length measurement, nil blob, the getter serves the endorsement, one GET for that measurement
example : (snpClosure deepParsers (some { deepOptions with getter := some (fun _ => some [0xE0]) })
    (some ⟨some ⟨m48⟩, none⟩) none).tr.gets = [⟨"sev", m48⟩] := by decide
-- extract.Attestation reaches the raw report + certificate table form through the hex attempt
set_option maxRecDepth 8000 in
example : (attestation deepParsers [0x48]).out = .ok (.sev (some ⟨some ⟨m48⟩, some ⟨some [(gceFwCertGUID, [0xE0])]⟩⟩)) := by decide
-- extract.Endorsement returns the certificate-table entry without any GET
set_option maxRecDepth 8000 in
example : (extractEndorsement deepParsers (some ⟨none, none, [0x48], false⟩)).out = .ok [0xE0] := by decide +kernel
-- FromCertTable: header entry (2, 4) of a 6-byte table passes the range check
example : (fromCertTable deepParsers [1, 2, 3, 4, 5, 6]).out = .ok [0xE0] := by decide
-- … and an entry whose range wraps around 2^32 in uint32 arithmetic is refused (4294967280 + 32 ≡ 16 mod 2^32)
example : (checkRanges 112 0 [(4294967280, 32)]).out = .err "range" := by decide
example : (checkRanges 112 0 [(48, 64), (48, 64)]).out = .err "overlap" := by decide
-- SevPolicy with both PEM blocks: measurement for one VMSA, one identity key and one author key appended
example : (sevPolicy deepParsers (some ⟨[0xA0], []⟩) (some ⟨none, 1, false, false⟩)).out
    = .ok ⟨458752, 0, some m48, [[1, 2]], [[3]]⟩ := by decide
-- TdxPolicy: a nil row is read through getters, the 4 GiB row is selected by uint32(2^32 + 4)
example : (tdxPolicy deepParsers (some ⟨[0xA0], []⟩) (some ⟨none, 4294967300, false⟩)).out = .ok ⟨some (some [m48])⟩ := by decide
-- SevValidate end to end (certificate-table entry, policy, validators, closure)
example : (sevValidate deepParsers (some ⟨some ⟨m48⟩, some ⟨some [(gceFwCertGUID, [0xE0])]⟩⟩)
    (some ⟨none, none, false, some (), (), none, 1, false⟩)).out = .ok () := by decide
-- InspectMask over three paths: 48 raw bytes, newline, 20, newline, 2 map entries (100 + 1 separator)
example : (inspectMask deepParsers (some (some ⟨.raw, false⟩)) (some ⟨[0xA0], []⟩)
    ["digest", "timestamp", "sev_snp.measurements"]).out = .ok (some (48 + 1 + 20 + 1 + 101)) := by decide

-- what the statements exclude does panic in the model (the checked operations are live):
example : (endorsementProto deepParsers none (some deepOptions)).out = .panic "verify.EndorsementProto#1:deref" := by decide
example : (endorsement deepParsers [0xE0] none).out = .panic "verify.EndorsementProto#2:deref" := by decide
example : (sevPolicy deepParsers (some ⟨[0xA0], []⟩) none).out = .panic "gcetcbendorsement.SevPolicy#1:deref" := by decide
example : (inspectPayload (some (some ⟨.raw, false⟩)) none).out = .panic "gcetcbendorsement.InspectPayload#1:deref" := by decide
example : (inspectSignature (some none) none).out = .panic "gcetcbendorsement.inspectFrom#1:deref" := by decide
-- every checked site name is one the inventory knows
example : checkedNames.length = 29 := by decide +kernel

/-! ## the sites -/

/-- The model accounts for exactly the panic-capable expressions the current source contains: a new
    unchecked index / slice / dereference / assertion / conversion in any function in scope changes the
    regenerated inventory and breaks this obligation before any input is found. -/
theorem C07_dec_sites : modelledSites.map Site.key = Gen.PanicSitesDec.sites := by decide +kernel

/-- every `again n` refers to an earlier site of the same function that is itself accounted for -/
theorem C07_dec_sites_again_wellformed :
    modelledSites.all (fun s => match s.how with
      | .again n => modelledSites.any (fun t => t.fn == s.fn && t.ord == n && n < s.ord && t.how != .again n)
      | _ => true) = true := by decide +kernel

end GceTcb.C07Dec
