import GceTcb.Proofs.Manifest
import GceTcb.Proofs.ManifestFS
/-
C13 — The endorsement manifest stays a faithful index over every endorse history.
Property theorems only (helper lemmas live in Proofs/Manifest.lean, Proofs/ManifestFS.lean,
Proofs/PathClean.lean).

Two models of `endorse.changeEndorsements` (not dry-run), both for ARBITRARY candidate names (the name
is cleaned and tested the way `defaultGenerateBasename` does it, through the model of Go's path.Clean):
* `endorseRun` — the output directory seen from inside: files keyed by their cleaned name, snapshot-mode
  runs elsewhere (theorems `C13_inv_step` … `C13_other_files_untouched`);
* `endorseRunP` — full paths: arbitrary root, --out_dir, --snapshot_dir, image name; every path through
  the model of path.Join; snapshot runs write their files into the same file map (theorems `…_paths`,
  `C13_canonical_names`, `C13_no_escape`, `C13_snapshot_*`). `C13_inside_view` relates the two.
-/
namespace GceTcb.Manifest
open GceTcb.Paths GceTcb.SecureJoin

/-- One run preserves the invariant: paths unique, digests unique, every entry's path names a file
    whose signed firmware digest equals the entry's digest. -/
theorem C13_inv_step (s : Store) (r : Run) (h : Inv s) : Inv (endorseRun s r).1 := by
  by_cases hsn : r.snapshot = true
  · simp only [endorseRun, hsn, if_true]; exact h
  by_cases hok : nameOk r.cand = true
  case neg => simp only [endorseRun, hsn, hok]; exact h
  by_cases hc : ((lookup s.files (basename r.cand)).isSome && !r.overwrite) = true
  · simp only [endorseRun, hsn, hok, hc, if_true]; exact h
  · simp only [endorseRun, hsn, hok, hc]
    exact ⟨unique_addEntry _ _ h.1, faithful_addEntry _ _ ⟨basename r.cand, r.digest, r.time⟩ h.1 h.2⟩

/-- Every reachable store (any history of runs from the empty store) satisfies the invariant. -/
theorem C13_inv_reachable (rs : List Run) : Inv (runAll Store.empty rs) := by
  have gen : ∀ (rs : List Run) (s : Store), Inv s → Inv (runAll s rs) := by
    intro rs
    induction rs with
    | nil => intro s h; exact h
    | cons r rs ih => intro s h; exact ih _ (C13_inv_step s r h)
  exact gen rs _ ⟨⟨by simp [Store.empty], by simp [Store.empty]⟩, by intro x hx; simp [Store.empty] at hx⟩

/-- The firmware digest of the latest successful run maps to the file that run wrote. -/
theorem C13_latest_maps (s : Store) (r : Run) (h : Inv s) (hsn : r.snapshot = false)
    (ok : (endorseRun s r).2 = true) :
    (⟨basename r.cand, r.digest, r.time⟩ : Entry) ∈ (endorseRun s r).1.manifest ∧
    lookup (endorseRun s r).1.files (basename r.cand) = some r.digest ∧
    (∀ x ∈ (endorseRun s r).1.manifest, x.digest = r.digest → x.path = basename r.cand) := by
  by_cases hok : nameOk r.cand = true
  case neg => simp [endorseRun, hsn, hok] at ok
  by_cases hc : ((lookup s.files (basename r.cand)).isSome && !r.overwrite) = true
  · simp [endorseRun, hsn, hok, hc] at ok
  · simp only [endorseRun, hsn, hok, hc]
    have hm := mem_addEntry s.manifest ⟨basename r.cand, r.digest, r.time⟩ h.1
    refine ⟨hm, by simp [lookup_writeFile], ?_⟩
    intro x hx hd
    have hu := unique_addEntry s.manifest ⟨basename r.cand, r.digest, r.time⟩ h.1
    have := inj_of_nodup_map (·.digest) _ hu.2 hx hm (by simpa using hd)
    rw [this]

/-- Without overwrite permission an existing endorsement file is never replaced (nothing changes). -/
theorem C13_no_overwrite_without_permission (s : Store) (r : Run)
    (hex : (lookup s.files (basename r.cand)).isSome = true) (hno : r.overwrite = false) :
    (endorseRun s r).1 = s ∧ (r.snapshot = false → (endorseRun s r).2 = false) := by
  unfold endorseRun
  by_cases hsn : r.snapshot = true
  · simp [hsn]
  · by_cases hok : nameOk r.cand = true <;> simp [hsn, hok, hex, hno]

/-- Files other than the one the run names are never touched. -/
theorem C13_other_files_untouched (s : Store) (r : Run) (q : String) (hq : q ≠ basename r.cand) :
    lookup (endorseRun s r).1.files q = lookup s.files q := by
  by_cases hsn : r.snapshot = true
  · simp only [endorseRun, hsn, if_true]
  by_cases hok : nameOk r.cand = true
  case neg => simp [endorseRun, hsn, hok]
  by_cases hc : ((lookup s.files (basename r.cand)).isSome && !r.overwrite) = true
  · simp [endorseRun, hsn, hok, hc]
  · simp [endorseRun, hsn, hok, hc, lookup_writeFile, hq]

/-! ## arbitrary names: the run over full paths -/

/-- A snapshot run whose files stay clear of the output directory's own names: none of the paths it
    writes is the path of a clean local name below --out_dir (the manifest and every file the manifest
    can list are such paths). True whenever --snapshot_dir and --out_dir are different directories that
    do not contain one another and the image name is a local name; `C13_snapshot_overlap_witness` shows
    that it cannot be dropped. -/
def SnapOutside (d : Dirs) (r : RunP) : Prop :=
  ∀ t ∈ snapTargets d r, ∀ b, LocalClean b → t.1 ≠ fullOut d b

/-- One run — any candidate name, root, --out_dir; snapshot runs clear of the output directory —
    preserves the invariant: the manifest parses, lists no path text and no digest twice, every listed
    path is canonical and local, no two entries name the same file, every entry's file is an endorsement
    carrying the entry's digest. -/
theorem C13_inv_step_paths (d : Dirs) (fs : FS) (r : RunP) (h : InvP d fs)
    (hs : r.snapDir ≠ "" → SnapOutside d r) : InvP d (endorseRunP d fs r).1 := by
  obtain ⟨m, hm, hu, hl, hnd, hf⟩ := h
  unfold endorseRunP
  by_cases hsn : r.snapDir = ""
  · simp only [hsn, bne_self_eq_false, Bool.false_eq_true, if_false, hm]
    by_cases hok : nameOk r.cand = true
    case neg => simp only [hok]; exact ⟨m, hm, hu, hl, hnd, hf⟩
    by_cases hc : ((look fs (fullOut d (basename r.cand))).isSome && !r.overwrite) = true
    · simp only [hok, hc, if_true, Bool.not_true, Bool.false_eq_true, if_false]; exact ⟨m, hm, hu, hl, hnd, hf⟩
    · simp only [hok, hc, Bool.not_true, Bool.false_eq_true, if_false]
      have hb : LocalClean (basename r.cand) := nameOk_local r.cand hok
      have hpM : fullOut d (basename r.cand) ≠ fullOut d manifestFile :=
        fullOut_ne_manifest d hb (basename_ne_manifestFile r.cand)
      have hu' := unique_addEntry m ⟨basename r.cand, r.digest, r.time⟩ hu
      have hl' : ∀ x ∈ addEntry m ⟨basename r.cand, r.digest, r.time⟩, LocalClean x.path := by
        intro x hx
        rcases addEntry_subset m _ x hx with hx | rfl
        · exact hl x hx
        · exact hb
      refine ⟨_, by simp [readM, look_put], hu', hl', files_nodup d _ hu' hl', ?_⟩
      -- every entry finds its digest: the merge seen through the full path of each name
      have key := faithful_addEntry_gen LocalClean (digestAt d fs)
        (digestAt d (put (put fs (fullOut d (basename r.cand)) (.endorsement r.digest)) (fullOut d manifestFile)
          (.manifest (addEntry m ⟨basename r.cand, r.digest, r.time⟩))))
        m ⟨basename r.cand, r.digest, r.time⟩ hu hl ?_ ?_ ?_
      · intro x hx
        have := key x hx
        unfold digestAt at this
        split at this
        · rename_i dg hlk; cases this; exact hlk
        · cases this
      · intro q hq
        show digestAt d _ q = if q = basename r.cand then some r.digest else digestAt d fs q
        unfold digestAt
        rw [look_put, look_put]
        by_cases hqM : fullOut d q = fullOut d manifestFile
        · have hqm : q = manifestFile := fullOut_inj d q manifestFile hq manifestFile_local hqM
          have hqb : q ≠ basename r.cand := fun e => basename_ne_manifestFile r.cand (e ▸ hqm)
          rw [if_pos hqM, if_neg hqb, hqM]
          simp only [readM] at hm
          split at hm <;> simp_all
        · rw [if_neg hqM]
          by_cases hqb : q = basename r.cand
          · subst hqb; simp
          · have : fullOut d q ≠ fullOut d (basename r.cand) := fun e => hqb (fullOut_inj d _ _ hq hb e)
            rw [if_neg this, if_neg hqb]
      · show digestAt d _ (basename r.cand) = some r.digest
        unfold digestAt
        rw [look_put, look_put, if_neg hpM]
        simp
      · intro x hx
        unfold digestAt
        rw [hf x hx]
  · have hsn' : (r.snapDir != "") = true := by simpa using hsn
    simp only [hsn', if_true]
    have hout := hs hsn
    have hM : look (putAll fs (snapTargets d r)) (fullOut d manifestFile) = look fs (fullOut d manifestFile) :=
      look_putAll _ fs _ (fun t ht => hout t ht manifestFile manifestFile_local)
    refine ⟨m, by simp only [readM, hM]; exact hm, hu, hl, hnd, ?_⟩
    intro x hx
    rw [look_putAll _ fs _ (fun t ht => hout t ht x.path (hl x hx))]
    exact hf x hx

/-- Every history — any candidate names, overwrite settings, root and --out_dir; snapshot runs clear of
    the output directory — ends in a state satisfying the invariant. -/
theorem C13_inv_reachable_paths (d : Dirs) (rs : List RunP)
    (hs : ∀ r ∈ rs, r.snapDir ≠ "" → SnapOutside d r) : InvP d (runAllP d [] rs) := by
  have gen : ∀ (rs : List RunP) (fs : FS), (∀ r ∈ rs, r.snapDir ≠ "" → SnapOutside d r) → InvP d fs →
      InvP d (runAllP d fs rs) := by
    intro rs
    induction rs with
    | nil => intro fs _ h; exact h
    | cons r rs ih =>
      intro fs hs h
      exact ih _ (fun x hx => hs x (List.mem_cons_of_mem _ hx))
        (C13_inv_step_paths d fs r h (hs r List.mem_cons_self))
  exact gen rs [] hs (invP_empty d)

/-- The firmware digest of the latest successful manifest-mode run maps to the file that run wrote:
    the new entry is in the manifest under the cleaned name, the file at that name's full path holds the
    endorsement of this digest, no other entry has the digest, and apart from the manifest that file is
    the only one whose contents the run changed. -/
theorem C13_latest_maps_paths (d : Dirs) (fs : FS) (r : RunP) (h : InvP d fs) (hsn : r.snapDir = "")
    (ok : (endorseRunP d fs r).2 = true) :
    ∃ m', readM (endorseRunP d fs r).1 (fullOut d manifestFile) = some m' ∧
      (⟨basename r.cand, r.digest, r.time⟩ : Entry) ∈ m' ∧
      look (endorseRunP d fs r).1 (fullOut d (basename r.cand)) = some (.endorsement r.digest) ∧
      (∀ x ∈ m', x.digest = r.digest → x.path = basename r.cand) ∧
      (∀ q, q ≠ fullOut d (basename r.cand) → q ≠ fullOut d manifestFile →
        look (endorseRunP d fs r).1 q = look fs q) := by
  obtain ⟨m, hm, hu, hl, hnd, hf⟩ := h
  unfold endorseRunP at ok ⊢
  simp only [hsn, bne_self_eq_false, Bool.false_eq_true, if_false, hm] at ok ⊢
  by_cases hok : nameOk r.cand = true
  case neg => simp [hok] at ok
  by_cases hc : ((look fs (fullOut d (basename r.cand))).isSome && !r.overwrite) = true
  · simp [hok, hc] at ok
  · simp only [hok, hc, Bool.not_true, Bool.false_eq_true, if_false]
    have hb : LocalClean (basename r.cand) := nameOk_local r.cand hok
    have hpM : fullOut d (basename r.cand) ≠ fullOut d manifestFile :=
      fullOut_ne_manifest d hb (basename_ne_manifestFile r.cand)
    have hmem := mem_addEntry m ⟨basename r.cand, r.digest, r.time⟩ hu
    have hu' := unique_addEntry m ⟨basename r.cand, r.digest, r.time⟩ hu
    refine ⟨_, by simp [readM, look_put], hmem, by rw [look_put, look_put, if_neg hpM]; simp, ?_, ?_⟩
    · intro x hx hd
      have := inj_of_nodup_map (·.digest) _ hu'.2 hx hmem (by simpa using hd)
      rw [this]
    · intro q h1 h2
      rw [look_put, look_put, if_neg h2, if_neg h1]

/-- Without overwrite permission an existing file at the candidate's full path is never replaced:
    the run fails and nothing changes. -/
theorem C13_no_overwrite_paths (d : Dirs) (fs : FS) (r : RunP) (hsn : r.snapDir = "")
    (hex : (look fs (fullOut d (basename r.cand))).isSome = true) (hno : r.overwrite = false) :
    endorseRunP d fs r = (fs, false) := by
  unfold endorseRunP
  simp only [hsn, bne_self_eq_false, Bool.false_eq_true, if_false]
  split
  · rfl
  · by_cases hok : nameOk r.cand = true <;> simp [hok, hex, hno]

/-- Canonical names. Every path the manifest records is in canonical form (path.Clean leaves it
    alone; it passes the name test; path.Clean is idempotent on every text), and two accepted candidate
    names denote the same file exactly when their cleaned basenames are equal — whatever root and
    --out_dir are, and for both kinds of ReleasePath. -/
theorem C13_canonical_names (d : Dirs) :
    (∀ s : String, pclean (pclean s) = pclean s) ∧
    (∀ cand : String, pclean (basename cand) = basename cand) ∧
    (∀ fs, InvP d fs → ∃ m, readM fs (fullOut d manifestFile) = some m ∧
        ∀ x ∈ m, pclean x.path = x.path ∧ localName x.path = true) ∧
    (∀ c₁ c₂ : String, nameOk c₁ = true → nameOk c₂ = true →
        (fullOut d (basename c₁) = fullOut d (basename c₂) ↔ basename c₁ = basename c₂)) := by
  refine ⟨pclean_idem, fun cand => pclean_idem _, ?_, ?_⟩
  · intro fs ⟨m, hm, _, hl, _, _⟩
    exact ⟨m, hm, fun x hx => ⟨(hl x hx).pclean_eq, (hl x hx).localName⟩⟩
  · intro c₁ c₂ h₁ h₂
    exact ⟨fullOut_inj d _ _ (nameOk_local c₁ h₁) (nameOk_local c₂ h₂), fun e => by rw [e]⟩

/-- Laws of path.Clean / path.Join used above, on all texts: Clean is idempotent and never empty; a clean
    local path is a fixed point; Join is associative up to Clean for a non-empty relative inner element —
    so for a relative --out_dir the path of a name is `path.Join(root, out_dir, name)` when ReleasePath joins. -/
theorem C13_path_laws :
    (∀ s, pclean (pclean s) = pclean s) ∧ (∀ s, pclean s ≠ "") ∧
    (∀ b, LocalClean b → pclean b = b ∧ localName b = true) ∧
    (∀ a b c, b ≠ "" → pisAbs b = false → pjoin [a, pjoin [b, c]] = pjoin [a, b, c]) ∧
    (∀ root outDir b, outDir ≠ "" → pisAbs outDir = false →
      fullOut ⟨.join, root, outDir⟩ b = pjoin [root, outDir, b]) :=
  ⟨pclean_idem, pclean_ne_empty, fun _ h => ⟨h.pclean_eq, h.localName⟩, pjoin_assoc,
    fun root outDir b h1 h2 => pjoin_assoc root outDir b h1 h2⟩

/-- Which names are refused: exactly those whose cleaned basename is rooted or starts with "../". -/
theorem C13_refused_iff (cand : String) :
    nameOk cand = false ↔ (pisAbs (basename cand) = true ∨ climbs (basename cand) = true) := by
  unfold nameOk localName
  cases pisAbs (basename cand) <;> cases climbs (basename cand) <;> simp

/-- No escape from the output directory. The manifest's full path is a fixed text (`pre`: empty for a
    ReleasePath that joins, root + "/" for one that concatenates) followed by a cleaned directory (rooted
    or not, components `T`) extended by "manifest.textproto". A manifest-mode run with a refused name
    (rooted, or climbing: "/rc0", "../x", "../out/rc0", "a/../../x") fails and writes nothing. A run with
    an accepted name can change the contents of two paths only — the manifest and the file of the cleaned
    name — and that file's path is `pre` followed by the SAME cleaned directory extended by the one or more
    normal components of the name: it lies in the manifest's directory or below it. -/
theorem C13_no_escape (d : Dirs) :
    ∃ (pre : PathStr) (rooted : Bool) (T : List Name),
      (fullOut d manifestFile).toList = pre ++ renderClean rooted (T ++ [manifestFile.toList]) ∧
      ∀ (fs : FS) (r : RunP), r.snapDir = "" →
        (nameOk r.cand = false → endorseRunP d fs r = (fs, false)) ∧
        (nameOk r.cand = true → ∃ ns, AllNormal ns ∧ ns ≠ [] ∧ (basename r.cand).toList = renderRel ns ∧
          (fullOut d (basename r.cand)).toList = pre ++ renderClean rooted (T ++ ns) ∧
          ∀ q, q ≠ fullOut d (basename r.cand) → q ≠ fullOut d manifestFile →
            look (endorseRunP d fs r).1 q = look fs q) := by
  obtain ⟨pre, rt, T, _, hE⟩ := outPath_ext d.mode d.root d.outDir
  obtain ⟨mns, hmn, hm0, hmb⟩ := manifestFile_local
  refine ⟨pre, rt, T, ?_, ?_⟩
  · have := hE manifestFile [manifestFile.toList] (by
      intro c hc; simp only [List.mem_singleton] at hc; rw [hc]
      exact ⟨by decide, by decide, by decide, by decide⟩) (by simp) (by decide)
    exact this
  · intro fs r hsn
    constructor
    · intro hno
      unfold endorseRunP
      simp only [hsn, bne_self_eq_false, Bool.false_eq_true, if_false]
      split
      · rfl
      · simp [hno]
    · intro hok
      obtain ⟨ns, hn, h0, hb⟩ := nameOk_local r.cand hok
      refine ⟨ns, hn, h0, hb, hE _ ns hn h0 hb, ?_⟩
      intro q h1 h2
      unfold endorseRunP
      simp only [hsn, bne_self_eq_false, Bool.false_eq_true, if_false]
      split
      · rfl
      · split
        · rfl
        · split
          · rfl
          · rw [look_put, look_put, if_neg h2, if_neg h1]

/-- Accepted and refused spellings, evaluated: redundant elements, a trailing slash, "." and ".." as
    whole names (they become "..binarypb" and "...binarypb"), unicode are accepted and cleaned; rooted and
    climbing names are refused. -/
theorem C13_name_examples :
    basename "x/../rc0" = "rc0.binarypb" ∧ basename "./a//b/" = "a/b/.binarypb" ∧ basename "" = "endorsement.binarypb" ∧
    basename "." = "..binarypb" ∧ basename ".." = "...binarypb" ∧ basename "é/日本" = "é/日本.binarypb" ∧
    (["x/../rc0", "./a//b/", "", ".", "..", "é/日本", "sub/../sub/rc2"].all nameOk) = true ∧
    (["/rc0", "../x", "../out/rc0", "a/../../x", "//", "/", "../"].any nameOk) = false := by
  decide +kernel

/-- The name test is what makes it hold. On the code before `fix: refuse candidate names …` (same run
    without the test) the history "rc0" with firmware aa, then "/rc0" with firmware bb and --overwrite
    (out dir "out") writes the SAME file twice and leaves two entries for it, the older claiming a digest
    the file no longer carries; the same with "../out/rc0" (`exNoTest1..3` in Proofs/ManifestFS.lean:
    root "/R", ReleasePath = path.Join). -/
theorem C13_name_test_needed :
    readM exNoTest2 (fullOut exDirs manifestFile) = some [⟨"rc0.binarypb", "aa", "1"⟩, ⟨"/rc0.binarypb", "bb", "2"⟩] ∧
    look exNoTest2 (fullOut exDirs "rc0.binarypb") = some (.endorsement "bb") ∧
    fullOut exDirs "/rc0.binarypb" = fullOut exDirs "rc0.binarypb" ∧
    readM exNoTest3 (fullOut exDirs manifestFile) = some [⟨"rc0.binarypb", "aa", "1"⟩, ⟨"../out/rc0.binarypb", "bb", "2"⟩] ∧
    look exNoTest3 (fullOut exDirs "rc0.binarypb") = some (.endorsement "bb") ∧
    ¬ InvP exDirs exNoTest2 := by
  have h1 : readM exNoTest2 (fullOut exDirs manifestFile) =
      some [⟨"rc0.binarypb", "aa", "1"⟩, ⟨"/rc0.binarypb", "bb", "2"⟩] := by decide +kernel
  have h2 : look exNoTest2 (fullOut exDirs "rc0.binarypb") = some (.endorsement "bb") := by decide +kernel
  refine ⟨h1, h2, by decide +kernel, by decide +kernel, by decide +kernel, ?_⟩
  intro ⟨m, hm, _, _, _, hf⟩
  rw [h1] at hm
  cases hm
  have := hf ⟨"rc0.binarypb", "aa", "1"⟩ (by simp)
  rw [h2] at this
  exact absurd this (by decide)

/-! ## snapshot runs -/

/-- What a snapshot run writes: the firmware path `fw = ReleasePath(Join(snapshot_dir, image name))` and
    the SVSM path with the fixed suffixes — nothing else, and the manifest is neither read nor written
    by it. -/
theorem C13_snapshot_paths (d : Dirs) (fs : FS) (r : RunP) (hsn : r.snapDir ≠ "") :
    endorseRunP d fs r = (putAll fs (snapTargets d r), true) ∧
    ∀ t ∈ snapTargets d r, ∃ base ∈ [release d.mode d.root (pjoin [r.snapDir, r.imageName]),
        release d.mode d.root (pjoin [r.snapDir, "svsm.igvm"])],
      ∃ suffix ∈ ["", ".signed", ".evts.pb", ".scrtm.pb"], t.1 = base ++ suffix := by
  constructor
  · unfold endorseRunP
    have : (r.snapDir != "") = true := by simpa using hsn
    simp [this]
  · intro t ht
    unfold snapTargets snapSigs snapFiles at ht
    cases hsv : r.svsm <;> cases hsc : r.scrtm <;> simp [hsv, hsc] at ht <;>
      rcases ht with rfl | rfl | rfl | rfl | rfl | rfl | rfl | rfl <;> simp

/-- A snapshot run with a clean local image name stays below the snapshot directory: the firmware
    path is the fixed text and cleaned directory of --snapshot_dir extended by the components of the
    image name (the other files are that path and the SVSM path with a suffix: same directories). -/
theorem C13_snapshot_confined (d : Dirs) (r : RunP) (h : LocalClean r.imageName) :
    ∃ (pre : PathStr) (rooted : Bool) (T : List Name) (ns : List Name), AllNormal ns ∧ ns ≠ [] ∧
      (release d.mode d.root (pjoin [r.snapDir, r.imageName])).toList = pre ++ renderClean rooted (T ++ ns) ∧
      (release d.mode d.root (pjoin [r.snapDir, "svsm.igvm"])).toList = pre ++ renderClean rooted (T ++ ["svsm.igvm".toList]) := by
  obtain ⟨pre, rt, T, _, hE⟩ := outPath_ext d.mode d.root r.snapDir
  obtain ⟨ns, hn, h0, hb⟩ := h
  refine ⟨pre, rt, T, ns, hn, h0, hE _ ns hn h0 hb, ?_⟩
  exact hE "svsm.igvm" ["svsm.igvm".toList] (by
    intro c hc; simp only [List.mem_singleton] at hc; rw [hc]
    exact ⟨by decide +kernel, by decide +kernel, by decide +kernel, by decide +kernel⟩) (by simp) (by decide +kernel)

/-- …and with an image name that is not local it does not (observation O-snap: `ImageName` is set by the
    command line to path.Base of the firmware path, so only a caller of the library can do this): the
    empty name and "." write "snap", "snap.signed", … BESIDE the snapshot directory "snap", "../q/fw.fd"
    writes into a sibling directory, "/" with --snapshot_dir "/" writes "<root>.signed" beside the root. -/
theorem C13_snapshot_escape_witness :
    let d : Dirs := ⟨.join, "/R", "out"⟩
    (snapTargets d ⟨"x", "aa", "1", false, "snap", "", false, false⟩).map (·.1) = ["/R/snap.signed", "/R/snap", "/R/snap.evts.pb"] ∧
    (snapTargets d ⟨"x", "aa", "1", false, "snap", "../q/fw.fd", false, false⟩).map (·.1) =
      ["/R/q/fw.fd.signed", "/R/q/fw.fd", "/R/q/fw.fd.evts.pb"] ∧
    (snapTargets d ⟨"x", "aa", "1", false, "/", "/", false, false⟩).map (·.1) = ["/R.signed", "/R", "/R.evts.pb"] := by
  decide +kernel

/-- `SnapOutside` cannot be dropped from `C13_inv_step_paths`: with --snapshot_dir equal to --out_dir
    and a firmware image named like an endorsement file, the snapshot run replaces the listed file by
    the firmware image; named like the manifest, it replaces the manifest, which then does not parse
    (observation O-overlap; the two directories are configured to be the same and the image carries a
    reserved name). -/
theorem C13_snapshot_overlap_witness :
    InvP exDirs exFs1 ∧ ¬ InvP exDirs exOverlapFile ∧ ¬ InvP exDirs exOverlapManifest ∧
    readM exOverlapManifest (fullOut exDirs manifestFile) = none := by
  have h3 : readM exOverlapManifest (fullOut exDirs manifestFile) = none := by decide +kernel
  refine ⟨C13_inv_step_paths _ _ _ (invP_empty _) (fun h => absurd rfl h), ?_, ?_, h3⟩
  · intro ⟨m, hm, _, _, _, hf⟩
    have h1 : readM exOverlapFile (fullOut exDirs manifestFile) = some [⟨"rc0.binarypb", "aa", "1"⟩] := by decide +kernel
    have h2 : look exOverlapFile (fullOut exDirs "rc0.binarypb") = some .blob := by decide +kernel
    rw [h1] at hm
    cases hm
    have := hf ⟨"rc0.binarypb", "aa", "1"⟩ (by simp)
    rw [h2] at this
    exact absurd this (by decide)
  · intro ⟨m, hm, _⟩
    rw [h3] at hm
    cases hm

/-! ## the inside view is the run over full paths -/

/-- The output directory seen from inside: the store `s` of `endorseRun` shows the manifest and, under
    every clean local name, what the file map holds at that name's full path. -/
def View (d : Dirs) (fs : FS) (s : Store) : Prop :=
  readM fs (fullOut d manifestFile) = some s.manifest ∧
  ∀ b, LocalClean b → b ≠ manifestFile → look fs (fullOut d b) = (lookup s.files b).map Content.endorsement

def RunP.inside (r : RunP) : Run := ⟨r.cand, r.digest, r.time, r.overwrite, r.snapDir != ""⟩

/-- `endorseRun` (the model the theorems `C13_inv_step` … `C13_other_files_untouched` are about) is the
    inside view of `endorseRunP`, for every candidate name, root and --out_dir: related states stay
    related and the two runs succeed or fail together. -/
theorem C13_inside_view (d : Dirs) (fs : FS) (s : Store) (r : RunP) (hv : View d fs s)
    (hs : r.snapDir ≠ "" → SnapOutside d r) :
    View d (endorseRunP d fs r).1 (endorseRun s r.inside).1 ∧
    (endorseRunP d fs r).2 = (endorseRun s r.inside).2 := by
  obtain ⟨hm, hfl⟩ := hv
  unfold endorseRunP endorseRun RunP.inside
  by_cases hsn : r.snapDir = ""
  · simp only [hsn, bne_self_eq_false, Bool.false_eq_true, if_false, hm]
    by_cases hok : nameOk r.cand = true
    case neg => simp [hok]; exact ⟨hm, hfl⟩
    have hb : LocalClean (basename r.cand) := nameOk_local r.cand hok
    have hbm := basename_ne_manifestFile r.cand
    have hex : (look fs (fullOut d (basename r.cand))).isSome = (lookup s.files (basename r.cand)).isSome := by
      rw [hfl _ hb hbm]; simp
    by_cases hc : ((lookup s.files (basename r.cand)).isSome && !r.overwrite) = true
    · simp only [hok, hex, hc, if_true, Bool.not_true, Bool.false_eq_true, if_false]; exact ⟨⟨hm, hfl⟩, trivial⟩
    · simp only [hok, hex, hc, Bool.not_true, Bool.false_eq_true, if_false]
      refine ⟨⟨by simp [readM, look_put], ?_⟩, trivial⟩
      intro b hbl hbn
      have h1 : fullOut d b ≠ fullOut d manifestFile := fullOut_ne_manifest d hbl hbn
      rw [look_put, look_put, if_neg h1, lookup_writeFile]
      by_cases hbb : b = basename r.cand
      · subst hbb; simp
      · have : fullOut d b ≠ fullOut d (basename r.cand) := fun e => hbb (fullOut_inj d _ _ hbl hb e)
        rw [if_neg this, if_neg hbb]
        exact hfl b hbl hbn
  · have hsn' : (r.snapDir != "") = true := by simpa using hsn
    simp only [hsn', if_true]
    have hout := hs hsn
    refine ⟨⟨?_, ?_⟩, trivial⟩
    · simp only [readM, look_putAll _ fs _ (fun t ht => hout t ht manifestFile manifestFile_local)]
      exact hm
    · intro b hbl hbn
      rw [look_putAll _ fs _ (fun t ht => hout t ht b hbl)]
      exact hfl b hbl hbn

/-- Non-vacuity (arbitrary names): a history over the full-path model with an uncanonical name, a
    trailing-slash out dir, a refused climbing name and a refused rooted alias; the state reached has one
    entry per file and satisfies the invariant. -/
example :
    let d : Dirs := ⟨.join, "/R", "./out//"⟩
    let rs : List RunP := [⟨"rc0", "aa", "1", false, "", "", false, false⟩, ⟨"x/../rc0", "bb", "2", true, "", "", false, false⟩,
      ⟨"../out/rc0", "cc", "3", true, "", "", false, false⟩, ⟨"/rc0", "cc", "4", true, "", "", false, false⟩,
      ⟨"sub/./rc1", "aa", "5", false, "", "", false, false⟩]
    readM (runAllP d [] rs) (fullOut d manifestFile) = some [⟨"rc0.binarypb", "bb", "2"⟩, ⟨"sub/rc1.binarypb", "aa", "5"⟩] ∧
    look (runAllP d [] rs) "/R/out/rc0.binarypb" = some (.endorsement "bb") ∧
    look (runAllP d [] rs) "/R/out/sub/rc1.binarypb" = some (.endorsement "aa") ∧
    InvP d (runAllP d [] rs) := by
  refine ⟨by decide +kernel, by decide +kernel, by decide +kernel, C13_inv_reachable_paths _ _ (by intro r hr h; simp at hr; rcases hr with rfl | rfl | rfl | rfl | rfl <;> exact absurd rfl h)⟩

/-- Non-vacuity: a concrete three-run history that exercises the path branch with stale-digest
    removal, ending in a two-entry store that satisfies the invariant. -/
example :
    let rs : List Run := [⟨"rc0", "aa", "1", false, false⟩, ⟨"rc1", "bb", "2", false, false⟩, ⟨"rc0", "bb", "3", true, false⟩]
    (runAll Store.empty rs).manifest = [⟨"rc0.binarypb", "bb", "3"⟩] ∧
    lookup (runAll Store.empty rs).files "rc0.binarypb" = some "bb" := by
  decide +kernel

end GceTcb.Manifest
