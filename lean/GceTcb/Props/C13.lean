import GceTcb.Proofs.Manifest
/-
C13 — The endorsement manifest stays a faithful index over every endorse history.
Property theorems only (helper lemmas live in Proofs/Manifest.lean).

Model scope: manifest mode of `endorse.changeEndorsements` (no snapshot directory, not dry-run),
candidate names in canonical spelling; snapshot-mode runs (separate snapshot directory) leave the
store of the output directory untouched.
-/
namespace GceTcb.Manifest

/-- One run preserves the invariant: paths unique, digests unique, every entry's path names a file
    whose signed firmware digest equals the entry's digest. -/
theorem C13_inv_step (s : Store) (r : Run) (h : Inv s) : Inv (endorseRun s r).1 := by
  by_cases hsn : r.snapshot = true
  · simp only [endorseRun, hsn, if_true]; exact h
  by_cases hc : ((lookup s.files (basename r.cand)).isSome && !r.overwrite) = true
  · simp only [endorseRun, hsn, hc, if_true]; exact h
  · simp only [endorseRun, hsn, hc]
    exact ⟨unique_addEntry _ _ h.1, faithful_addEntry _ _ ⟨basename r.cand, r.digest, r.time⟩ h.1 h.2⟩

/-- Every reachable store (any history of runs from the empty store) satisfies the invariant. -/
theorem C13_inv_reachable (rs : List Run) : Inv (runAll Store.empty rs) := by
  have gen : ∀ (rs : List Run) (s : Store), Inv s → Inv (runAll s rs) := by
    intro rs
    induction rs with
    | nil => intro s h; exact h
    | cons r rs ih => intro s h; exact ih _ (C13_inv_step s r h)
  exact gen rs _ ⟨⟨by simp [Store.empty], by simp [Store.empty]⟩, by intro x hx; simp [Store.empty] at hx⟩

/-- The firmware digest of the latest successful run maps to the file that run wrote. -/
theorem C13_latest_maps (s : Store) (r : Run) (h : Inv s) (hsn : r.snapshot = false)
    (ok : (endorseRun s r).2 = true) :
    (⟨basename r.cand, r.digest, r.time⟩ : Entry) ∈ (endorseRun s r).1.manifest ∧
    lookup (endorseRun s r).1.files (basename r.cand) = some r.digest ∧
    (∀ x ∈ (endorseRun s r).1.manifest, x.digest = r.digest → x.path = basename r.cand) := by
  by_cases hc : ((lookup s.files (basename r.cand)).isSome && !r.overwrite) = true
  · simp [endorseRun, hsn, hc] at ok
  · simp only [endorseRun, hsn, hc]
    have hm := mem_addEntry s.manifest ⟨basename r.cand, r.digest, r.time⟩ h.1
    refine ⟨hm, by simp [lookup_writeFile], ?_⟩
    intro x hx hd
    have hu := unique_addEntry s.manifest ⟨basename r.cand, r.digest, r.time⟩ h.1
    have := inj_of_nodup_map (·.digest) _ hu.2 hx hm (by simpa using hd)
    rw [this]

/-- Without overwrite permission an existing endorsement file is never replaced (nothing changes). -/
theorem C13_no_overwrite_without_permission (s : Store) (r : Run)
    (hex : (lookup s.files (basename r.cand)).isSome = true) (hno : r.overwrite = false) :
    (endorseRun s r).1 = s ∧ (r.snapshot = false → (endorseRun s r).2 = false) := by
  unfold endorseRun
  by_cases hsn : r.snapshot = true
  · simp [hsn]
  · simp [hsn, hex, hno]

/-- Files other than the one the run names are never touched. -/
theorem C13_other_files_untouched (s : Store) (r : Run) (q : String) (hq : q ≠ basename r.cand) :
    lookup (endorseRun s r).1.files q = lookup s.files q := by
  by_cases hsn : r.snapshot = true
  · simp only [endorseRun, hsn, if_true]
  by_cases hc : ((lookup s.files (basename r.cand)).isSome && !r.overwrite) = true
  · simp [endorseRun, hsn, hc]
  · simp [endorseRun, hsn, hc, lookup_writeFile, hq]

/-- Non-vacuity: a concrete three-run history that exercises the path branch with stale-digest
    removal, ending in a two-entry store that satisfies the invariant. -/
example :
    let rs : List Run := [⟨"rc0", "aa", "1", false, false⟩, ⟨"rc1", "bb", "2", false, false⟩, ⟨"rc0", "bb", "3", true, false⟩]
    (runAll Store.empty rs).manifest = [⟨"rc0.binarypb", "bb", "3"⟩] ∧
    lookup (runAll Store.empty rs).files "rc0.binarypb" = some "bb" := by
  decide

end GceTcb.Manifest
