import GceTcb.Proofs.EndorseCli
import GceTcb.Props.C15
import GceTcb.Props.C06Cli
/-
C15 at the command line — `endorse --dry_run` and `endorse --measurement_only` have no side effects, and a
refused command line has none either.

`cliRun P Pr T E fl keys vcs vcss` (Model/EndorseCli.lean) is the whole command: flag values `fl`, file
system and environment `E` → flag parsing, PersistentPreRunE, InitContext (`ecOf`) → the pipeline model
`VF.virtualFirmware` of C15 on the request built from the resulting endorse.Context.  Effects are the calls on
the CertificateAuthority, the Signer, every VersionControl and its workspaces, and lines on standard output.
The theorems hold for every command line, file system, environment, parameter, key material, set of back ends
and back-end behaviour.
-/
namespace GceTcb.EndorseCli
open GceTcb GceTcb.Endorse GceTcb.VF GceTcb.Commit

/-! ### the regenerated command-line facts (shared with C06: Props/C06Cli) -/

/-- `--dry_run`, `--measurement_only`, `--snapshot_dir`, `--candidate_name`, `--overwrite`, `--commit_retries`,
    `--out_dir` … are registered with the names, defaults and destinations the model assumes: the model's
    flag table is the one regenerated from the source on this run. -/
theorem C15_cli_flag_table : flagTable = Gen.EndorseFlags.flags := C06_cli_flag_table

/-- The modelled functions (PersistentPreRunE, InitContext, scrtmMain, the flag Set methods) and the order of
    the composition `Compose(app.Global, endorseCommand, app.Endorse)` / `ComposeRun(cmp,
    endorse.VirtualFirmware)` are the ones the model was written from. -/
theorem C15_cli_source_skeleton :
    Skeleton.preRunSteps = Gen.EndorseFlags.preRunSteps ∧ Skeleton.initSteps = Gen.EndorseFlags.initSteps ∧
    Skeleton.composeOrder = Gen.EndorseFlags.composeOrder ∧ Skeleton.composeRun = Gen.EndorseFlags.composeRun ∧
    Skeleton.persistentPreRunE = Gen.EndorseFlags.persistentPreRunE :=
  ⟨C06_cli_source_skeleton.1, C06_cli_source_skeleton.2.1, C06_cli_source_skeleton.2.2.2.2.2.2.2.1,
    C06_cli_source_skeleton.2.2.2.2.2.2.2.2.1, C06_cli_source_skeleton.2.2.2.2.2.2.2.2.2.1⟩

/-- (b) `--dry_run`, whatever else is on the command line (also `--measurement_only`, `--snapshot_dir`,
    `--overwrite`, any technology, any side file): no workspace is created, no file read, written or re-moded,
    nothing committed or destroyed — the only calls a VersionControl sees are Result without a commit and, for a
    refused `--candidate_name`, the RetriableError query about the refusal. -/
theorem C15_cli_dry_run_pure (P : Params) (Pr : Prims) (T : Tables) (E : Env) (fl : CliFlags) (keys : Option Keys)
    (vcs : Option (List Attempt)) (vcss : List (List Attempt)) (hd : fl.dryRun = true) :
    ∀ i ev, Eff.vcs i ev ∈ (cliRun P Pr T E fl keys vcs vcss).effects →
      (ev.kind = .result ∧ ev.ok = false) ∨ ev.kind = .retriable := by
  intro i ev h
  cases he : ecOf P Pr.parseUuid E fl with
  | err e =>
    rw [(cliRun_refused P Pr T E fl keys vcs vcss (by rw [he]; rfl)).1] at h; cases h
  | panic s =>
    rw [(cliRun_refused P Pr T E fl keys vcs vcss (by rw [he]; rfl)).1] at h; cases h
  | ok r =>
    obtain ⟨ec, ow⟩ := r
    rw [cliRun_accepted P Pr T E fl keys vcs vcss ec ow he] at h
    obtain ⟨commit, ts, prod, ok, v, img, svsm, m, _, rfl, rfl⟩ := (ecOf_ok_explicit P _ E fl ec ow).mp he
    exact C15_dry_run_pure Pr T _ keys _ _ vcs vcss hd i ev h

/-- (b) `--measurement_only`, whatever else is on the command line — in particular together with `--dry_run`:
    nothing but standard output is touched: no CertificateAuthority call, no Signer call (no document is
    signed), no VersionControl or workspace call. -/
theorem C15_cli_measurement_only_pure (P : Params) (Pr : Prims) (T : Tables) (E : Env) (fl : CliFlags)
    (keys : Option Keys) (vcs : Option (List Attempt)) (vcss : List (List Attempt))
    (hm : fl.measurementOnly = true) :
    ∀ eff ∈ (cliRun P Pr T E fl keys vcs vcss).effects, ∃ l, eff = Eff.stdout l := by
  intro eff h
  cases he : ecOf P Pr.parseUuid E fl with
  | err e =>
    rw [(cliRun_refused P Pr T E fl keys vcs vcss (by rw [he]; rfl)).1] at h; cases h
  | panic s =>
    rw [(cliRun_refused P Pr T E fl keys vcs vcss (by rw [he]; rfl)).1] at h; cases h
  | ok r =>
    obtain ⟨ec, ow⟩ := r
    rw [cliRun_accepted P Pr T E fl keys vcs vcss ec ow he] at h
    obtain ⟨commit, ts, prod, ok, v, img, svsm, m, _, rfl, rfl⟩ := (ecOf_ok_explicit P _ E fl ec ow).mp he
    exact C15_measurement_only_pure Pr T _ keys _ _ vcs vcss false hm eff h

/-- The second historic seeded change in one line: `--measurement_only --dry_run` TOGETHER sign nothing, ask the
    CA nothing and call no back end at all (not even Result). -/
theorem C15_cli_both_flags_pure (P : Params) (Pr : Prims) (T : Tables) (E : Env) (fl : CliFlags)
    (keys : Option Keys) (vcs : Option (List Attempt)) (vcss : List (List Attempt))
    (hm : fl.measurementOnly = true) (_hd : fl.dryRun = true) :
    (∀ k d, Eff.sign k d ∉ (cliRun P Pr T E fl keys vcs vcss).effects) ∧
    Eff.caPrimary ∉ (cliRun P Pr T E fl keys vcs vcss).effects ∧
    (∀ k, Eff.caCertificate k ∉ (cliRun P Pr T E fl keys vcs vcss).effects) ∧
    (∀ k, Eff.caBundle k ∉ (cliRun P Pr T E fl keys vcs vcss).effects) ∧
    (∀ i ev, Eff.vcs i ev ∉ (cliRun P Pr T E fl keys vcs vcss).effects) := by
  have h := C15_cli_measurement_only_pure P Pr T E fl keys vcs vcss hm
  refine ⟨?_, ?_, ?_, ?_, ?_⟩
  · intro k d hin; obtain ⟨l, hl⟩ := h _ hin; cases hl
  · intro hin; obtain ⟨l, hl⟩ := h _ hin; cases hl
  · intro k hin; obtain ⟨l, hl⟩ := h _ hin; cases hl
  · intro k hin; obtain ⟨l, hl⟩ := h _ hin; cases hl
  · intro i ev hin; obtain ⟨l, hl⟩ := h _ hin; cases hl

/-- Without `--measurement_only` the command prints nothing on standard output. -/
theorem C15_cli_stdout_only_when_asked (P : Params) (Pr : Prims) (T : Tables) (E : Env) (fl : CliFlags)
    (keys : Option Keys) (vcs : Option (List Attempt)) (vcss : List (List Attempt))
    (hm : fl.measurementOnly = false) :
    ∀ l, Eff.stdout l ∉ (cliRun P Pr T E fl keys vcs vcss).effects := by
  intro l h
  cases he : ecOf P Pr.parseUuid E fl with
  | err e =>
    rw [(cliRun_refused P Pr T E fl keys vcs vcss (by rw [he]; rfl)).1] at h; cases h
  | panic s =>
    rw [(cliRun_refused P Pr T E fl keys vcs vcss (by rw [he]; rfl)).1] at h; cases h
  | ok r =>
    obtain ⟨ec, ow⟩ := r
    rw [cliRun_accepted P Pr T E fl keys vcs vcss ec ow he] at h
    obtain ⟨commit, ts, prod, ok, v, img, svsm, m, _, rfl, rfl⟩ := (ecOf_ok_explicit P _ E fl ec ow).mp he
    exact C15_stdout_only_when_asked Pr T _ keys _ _ vcs vcss hm l h

/-! ### refusals: exactly which, and before any effect -/

/-- (c) The command line is accepted by flag parsing, PersistentPreRunE and InitContext — the pipeline is
    entered — EXACTLY when: the numeric flags are in range (`--clspec` < 2^64, `--snp_launch_vmsas` < 2^32,
    `--commit_retries` an int64); `--commit` is hexadecimal; every non-empty `--timestamp` parses and none
    follows a non-zero one; every non-empty `--snp_product` is a product line kds knows; the application's
    global component accepts; `--uefi` is given and ends in ".fd"; the side file consulted (if any, non-empty)
    decodes; with `--add_snp`, a non-empty family or image id is a UUID; the commit is empty or 20 bytes; the
    application's endorse component accepts; both initialise; the file at `--uefi` can be read; `--svsm_path`
    (if given) can be read; `--svsm_snp_measurement_path` (if given) can be read, is hexadecimal after
    trimming and is 48 bytes. -/
theorem C15_cli_accepts_iff (P : Params) (U : String → Option Bytes) (E : Env) (fl : CliFlags) :
    (ecOf P U E fl).isOk = true ↔
      ∃ commit ts prod ok v img svsm m, Accepted P U E fl commit ts prod ok v img svsm m := by
  constructor
  · intro h
    cases he : ecOf P U E fl with
    | err e => rw [he] at h; cases h
    | panic s => rw [he] at h; cases h
    | ok r =>
      obtain ⟨ec, ow⟩ := r
      obtain ⟨commit, ts, prod, ok, v, img, svsm, m, A, _, _⟩ := (ecOf_ok_explicit P U E fl ec ow).mp he
      exact ⟨commit, ts, prod, ok, v, img, svsm, m, A⟩
  · rintro ⟨commit, ts, prod, ok, v, img, svsm, m, A⟩
    rw [(ecOf_ok_explicit P U E fl _ _).mpr ⟨commit, ts, prod, ok, v, img, svsm, m, A, rfl, rfl⟩]
    rfl

/-- (c) A command line that is not accepted is refused BEFORE ANY EFFECT: no workspace, key, CA or back-end
    call, nothing printed; the command returns an error (never a panic of its own). -/
theorem C15_cli_refused_pure (P : Params) (Pr : Prims) (T : Tables) (E : Env) (fl : CliFlags) (keys : Option Keys)
    (vcs : Option (List Attempt)) (vcss : List (List Attempt))
    (h : (ecOf P Pr.parseUuid E fl).isOk = false) :
    (cliRun P Pr T E fl keys vcs vcss).effects = [] ∧
    ∃ e, (cliRun P Pr T E fl keys vcs vcss).result = .err e := by
  refine ⟨(cliRun_refused P Pr T E fl keys vcs vcss h).1, ?_⟩
  unfold cliRun contextOf
  cases he : ecOf P Pr.parseUuid E fl with
  | ok v => rw [he] at h; cases h
  | err e => exact ⟨e, rfl⟩
  | panic s => exact absurd he (ecOf_no_panic P _ E fl s)

/-- The refusals named in the property's anchors, each before any effect: a `--commit` that is not hexadecimal
    or decodes to neither 0 nor 20 bytes; a `--snp_product` kds does not know; with `--add_snp` a malformed
    family or image id; a `--uefi` that is missing or does not end in ".fd". -/
theorem C15_cli_named_refusals (P : Params) (Pr : Prims) (T : Tables) (E : Env) (fl : CliFlags) (keys : Option Keys)
    (vcs : Option (List Attempt)) (vcss : List (List Attempt))
    (h : (∀ c, hexDecode fl.commit = some c → c.length ≠ 0 ∧ c.length ≠ 20) ∨
         (∃ v ∈ fl.snpProduct, v ≠ "" ∧ P.parseProduct v = none) ∨
         (fl.addSnp = true ∧ fl.snpFamilyId ≠ "" ∧ Pr.parseUuid fl.snpFamilyId = none) ∨
         (fl.addSnp = true ∧ fl.snpImageId ≠ "" ∧ Pr.parseUuid fl.snpImageId = none) ∨
         fl.uefi = "" ∨ hasFdSuffix fl.uefi = false) :
    (cliRun P Pr T E fl keys vcs vcss).effects = [] ∧
    ∃ e, (cliRun P Pr T E fl keys vcs vcss).result = .err e := by
  apply C15_cli_refused_pure
  cases hok : (ecOf P Pr.parseUuid E fl).isOk with
  | false => rfl
  | true =>
    exfalso
    obtain ⟨commit, ts, prod, ok, v, img, svsm, m, A⟩ := (C15_cli_accepts_iff P _ E fl).mp hok
    rcases h with h | h | h | h | h | h
    · have := h commit A.commitHex
      have hl := A.commitLen
      unfold commitLenOk sha1Size at hl
      simp only [Bool.or_eq_true, beq_iff_eq] at hl
      omega
    · obtain ⟨v', hv, hne, hp⟩ := h
      have key : ∀ (l : List String) (cur p : Nat), productSetAll P cur l = .ok p →
          ∀ x ∈ l, x ≠ "" → P.parseProduct x ≠ none := by
        intro l
        induction l with
        | nil => intro _ _ _ x hx; cases hx
        | cons y ys ih =>
          intro cur p hp' x hx hxne
          unfold productSetAll productSet at hp'
          by_cases hy : y = ""
          · simp only [hy, if_true] at hp'
            rcases List.mem_cons.mp hx with rfl | hx'
            · exact absurd hy hxne
            · exact ih cur p hp' x hx' hxne
          · simp only [hy, if_false] at hp'
            cases hpy : P.parseProduct y with
            | none => rw [hpy] at hp'; cases hp'
            | some q =>
              rw [hpy] at hp'
              rcases List.mem_cons.mp hx with rfl | hx'
              · rw [hpy]; simp
              · exact ih q p hp' x hx' hxne
      exact key _ _ _ A.product v' hv hne hp
    · obtain ⟨ha, hne, hp⟩ := h
      have := A.ids
      unfold snpCheck at this
      rw [ha] at this
      simp only [if_true] at this
      have := ((validateSnpFlags_ok_iff _ _).mp this).1
      unfold idOk at this
      simp only [hp, Option.isSome_none, Bool.or_false, beq_iff_eq] at this
      exact hne this
    · obtain ⟨ha, hne, hp⟩ := h
      have := A.ids
      unfold snpCheck at this
      rw [ha] at this
      simp only [if_true] at this
      have := ((validateSnpFlags_ok_iff _ _).mp this).2
      unfold idOk at this
      simp only [hp, Option.isSome_none, Bool.or_false, beq_iff_eq] at this
      exact hne this
    · exact A.uefiGiven h
    · rw [A.uefiSuffix] at h; cases h

/-- (c) Neither `--add_snp` nor `--add_tdx`: whatever else is named (VMSA counts, shapes, ids, a side file), the
    run fails and nothing at all happens — nothing is measured into a document, signed, written or printed. -/
theorem C15_cli_no_technology (P : Params) (Pr : Prims) (T : Tables) (E : Env) (fl : CliFlags) (keys : Option Keys)
    (vcs : Option (List Attempt)) (vcss : List (List Attempt))
    (hs : fl.addSnp = false) (ht : fl.addTdx = false) :
    (cliRun P Pr T E fl keys vcs vcss).effects = [] ∧
    ∃ e, (cliRun P Pr T E fl keys vcs vcss).result = .err e := by
  cases he : ecOf P Pr.parseUuid E fl with
  | err e => exact C15_cli_refused_pure P Pr T E fl keys vcs vcss (by rw [he]; rfl)
  | panic s => exact C15_cli_refused_pure P Pr T E fl keys vcs vcss (by rw [he]; rfl)
  | ok r =>
    obtain ⟨ec, ow⟩ := r
    rw [cliRun_accepted P Pr T E fl keys vcs vcss ec ow he]
    obtain ⟨commit, ts, prod, ok, v, img, svsm, m, _, rfl, rfl⟩ := (ecOf_ok_explicit P _ E fl ec ow).mp he
    have hg : goldenMeasurement Pr T (ctxOf E (ecFinal E fl commit ts prod ok v img svsm m)) = .err "no-technology" := by
      unfold goldenMeasurement ctxOf
      simp only [ecFinal_snp, ecFinal_tdx, hs, ht]
      rfl
    unfold virtualFirmware
    rw [hg]
    exact ⟨rfl, _, rfl⟩

/-! ### same measurements -/

/-- Toggling the two mode flags changes nothing but those two fields of the endorse.Context: acceptance, the
    image, the requests, the SVN, ids, timestamp … are the same. -/
theorem C15_cli_modes_independent (P : Params) (U : String → Option Bytes) (E : Env) (fl : CliFlags) (ec : EC)
    (ow : Bool) (dry mo : Bool) (h : ecOf P U E fl = .ok (ec, ow)) :
    ecOf P U E { fl with dryRun := dry, measurementOnly := mo } =
      .ok ({ ec with dryRun := dry, measurementOnly := mo }, ow) := by
  obtain ⟨commit, ts, prod, ok, v, img, svsm, m, A, rfl, rfl⟩ := (ecOf_ok_explicit P U E fl ec ow).mp h
  apply (ecOf_ok_explicit P U E _ _ _).mpr
  exact ⟨commit, ts, prod, ok, v, img, svsm, m,
    ⟨A.numeric, A.commitHex, A.time, A.product, A.globalPre, A.uefiGiven, A.uefiSuffix, A.sideFile, A.ids,
      A.commitLen, A.appPre, A.globalInit, A.image, A.svsmImage, A.svsmMeasurement, A.appInit⟩, rfl, rfl⟩

/-- "Report the same measurements", at the command line: (a) with and without `--dry_run` the same documents are
    handed to the signer; (b) whatever a signing run hands to the signer, the `--measurement_only` run over the
    same command line prints the rendering of exactly its measured sections. -/
theorem C15_cli_same_measurements (P : Params) (Pr : Prims) (T : Tables) (E : Env) (fl : CliFlags)
    (keys : Option Keys) (vcs : Option (List Attempt)) (vcss : List (List Attempt)) :
    (∀ k d, Eff.sign k d ∈ (cliRun P Pr T E { fl with dryRun := true } keys vcs vcss).effects ↔
        Eff.sign k d ∈ (cliRun P Pr T E { fl with dryRun := false } keys vcs vcss).effects) ∧
    (∀ k d, Eff.sign k d ∈ (cliRun P Pr T E { fl with measurementOnly := false } keys vcs vcss).effects →
        (cliRun P Pr T E { fl with measurementOnly := true } keys vcs vcss).effects =
          (renderSnp (if fl.addSnp = true then fl.snpLaunchVmsas else 0) d.snp ++ renderTdx d.tdx).map Eff.stdout) := by
  cases he : ecOf P Pr.parseUuid E fl with
  | err e =>
    have hr : ∀ dry mo, (ecOf P Pr.parseUuid E { fl with dryRun := dry, measurementOnly := mo }).isOk = false := by
      intro dry mo
      cases h2 : ecOf P Pr.parseUuid E { fl with dryRun := dry, measurementOnly := mo } with
      | err _ => rfl
      | panic _ => rfl
      | ok r =>
        have := C15_cli_modes_independent P Pr.parseUuid E _ r.1 r.2 fl.dryRun fl.measurementOnly h2
        rw [show ({ ({ fl with dryRun := dry, measurementOnly := mo } : CliFlags) with
          dryRun := fl.dryRun, measurementOnly := fl.measurementOnly } : CliFlags) = fl from rfl, he] at this
        cases this
    constructor
    · intro k d
      rw [(cliRun_refused P Pr T E _ keys vcs vcss (hr true fl.measurementOnly)).1,
        (cliRun_refused P Pr T E _ keys vcs vcss (hr false fl.measurementOnly)).1]
    · intro k d h
      rw [(cliRun_refused P Pr T E _ keys vcs vcss (hr fl.dryRun false)).1] at h
      cases h
  | panic s => exact absurd he (ecOf_no_panic P _ E fl s)
  | ok r =>
    obtain ⟨ec, ow⟩ := r
    have hm := fun dry mo => C15_cli_modes_independent P Pr.parseUuid E fl ec ow dry mo he
    constructor
    · intro k d
      rw [cliRun_accepted P Pr T E _ keys vcs vcss _ ow (hm true fl.measurementOnly),
        cliRun_accepted P Pr T E _ keys vcs vcss _ ow (hm false fl.measurementOnly)]
      rw [sign_mem_iff, sign_mem_iff]
      exact Iff.rfl
    · intro k d h
      rw [cliRun_accepted P Pr T E _ keys vcs vcss _ ow (hm fl.dryRun false)] at h
      rw [cliRun_accepted P Pr T E _ keys vcs vcss _ ow (hm fl.dryRun true)]
      have hb := (C15_same_measurements Pr T (ctxOf E ec) keys ec.timestamp
        ⟨false, launchVmsasOf ec.snp, ec.commitRetries, cfgOf E ow { ec with dryRun := fl.dryRun, measurementOnly := false }⟩
        vcs vcss).2 k d h
      have hv : launchVmsasOf ec.snp = if fl.addSnp = true then fl.snpLaunchVmsas else 0 := by
        obtain ⟨commit, ts, prod, ok, v, img, svsm, m, _, rfl, _⟩ := (ecOf_ok_explicit P _ E fl ec ow).mp he
        rw [ecFinal_snp]
        cases fl.addSnp <;> rfl
      rw [← hv]
      exact hb

/-- The command never panics if the primitives and the key material do not: no phase of the command line
    handling panics, and the pipeline does not (C15_no_panic). -/
theorem C15_cli_no_panic (P : Params) (Pr : Prims) (T : Tables) (E : Env) (fl : CliFlags) (keys : Option Keys)
    (vcs : Option (List Attempt)) (vcss : List (List Attempt))
    (h1 : ∀ img k pr, (Pr.launchDigest img k pr).isPanic = false)
    (h2 : ∀ img s m, (Pr.mrtd img s m).isPanic = false)
    (h3 : ∀ ts g, (signDocEff keys ts g).2.isPanic = false) :
    (cliRun P Pr T E fl keys vcs vcss).result.isPanic = false := by
  cases he : ecOf P Pr.parseUuid E fl with
  | err e =>
    obtain ⟨_, e', hr⟩ := C15_cli_refused_pure P Pr T E fl keys vcs vcss (by rw [he]; rfl)
    rw [hr]; rfl
  | panic s => exact absurd he (ecOf_no_panic P _ E fl s)
  | ok r =>
    obtain ⟨ec, ow⟩ := r
    rw [cliRun_accepted P Pr T E fl keys vcs vcss ec ow he]
    exact C15_no_panic Pr T _ keys _ _ vcs vcss (h1 _) (h2 _) (h3 _)

/-! ### non-vacuity -/

/-- the real command makes 4 key calls and 8 back-end calls and prints nothing; with --dry_run the same 4 key
    calls and one Result call; with --measurement_only (also together with --dry_run) no call at all and 4
    lines; a command line with neither technology, or with a commit of one byte, has no effect. -/
example :
    let run := fun fl => cliRun exParams15 exP exT exEnv15 fl exKeys (some exScript) []
    let real := run (exFlags15 false false)
    let dry := run (exFlags15 true false)
    let mo := run (exFlags15 false true)
    let both := run (exFlags15 true true)
    let none := run { exFlags15 false false with addSnp := false, addTdx := false }
    let bad := run { exFlags15 false false with commit := "ab" }
    (countKeys real.effects, countVcs real.effects, stdoutLines real.effects) = (4, 8, []) ∧
    (countKeys dry.effects, countVcs dry.effects, stdoutLines dry.effects) = (4, 1, []) ∧
    (countKeys mo.effects, countVcs mo.effects, (stdoutLines mo.effects).length) = (0, 0, 4) ∧
    (countKeys both.effects, countVcs both.effects, (stdoutLines both.effects).length) = (0, 0, 4) ∧
    none.effects.length = 0 ∧ bad.effects.length = 0 ∧
    real.result = .ok () ∧ dry.result = .ok () ∧ both.result = .ok () ∧
    none.result = .err "no-technology" ∧ bad.result = .err "prerun:commit-length" := by
  decide

end GceTcb.EndorseCli
