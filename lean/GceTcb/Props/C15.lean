import GceTcb.Proofs.VirtualFirmware
/-
C15 — Dry-run and measurement-only runs have no side effects.

`virtualFirmware false P T c keys ts fl vcs vcss` is the model of endorse.VirtualFirmware (as fixed by
`fix: dry run no longer dereferences a nil ChangeOps`) as an effect log over the doubles:
CertificateAuthority and Signer calls, calls on each VersionControl and its workspaces, lines on
standard output.  Theorems hold for every image, request, primitive, key material, flag combination,
set of back ends and back-end behaviour (scripts).
-/
namespace GceTcb.VF
open GceTcb GceTcb.Endorse GceTcb.Manifest GceTcb.Commit

/-- With dry-run no workspace is created, no file is read, written or re-moded, nothing is
    committed or destroyed, whatever the other flags: the only calls a VersionControl sees are
    Result(nil, path) — with no commit handed over — and, when the candidate name is refused
    (`fix: refuse candidate names …`: the dry run then fails like the real one), the RetriableError
    query about that refusal. -/
theorem C15_dry_run_pure (P : Prims) (T : Tables) (c : Ctx) (keys : Option Keys) (ts : Int × Nat)
    (fl : Flags) (vcs : Option (List Attempt)) (vcss : List (List Attempt))
    (hd : fl.cfg.dryRun = true) :
    ∀ i ev, Eff.vcs i ev ∈ (virtualFirmware false P T c keys ts fl vcs vcss).effects →
      (ev.kind = .result ∧ ev.ok = false) ∨ ev.kind = .retriable := by
  intro i ev h
  unfold virtualFirmware at h
  cases hg : goldenMeasurement P T c with
  | err e => rw [hg] at h; simp at h
  | panic s => rw [hg] at h; simp at h
  | ok g =>
    rw [hg] at h
    simp only at h
    by_cases hm : fl.measurementOnly = true
    · simp [hm] at h
    · simp only [hm] at h
      have hk := signDocEff_kinds keys ts g
      cases hs : signDocEff keys ts g with
      | mk effs r =>
        rw [hs] at h hk
        cases r with
        | err e => exact absurd rfl ((hk _ h).1 i ev)
        | panic s => exact absurd rfl ((hk _ h).1 i ev)
        | ok v =>
          simp only at h
          rcases List.mem_append.mp h with h | h
          · exact absurd rfl ((hk _ h).1 i ev)
          · obtain ⟨i', ev', he, h1⟩ := (commitAll_dry fl.cfg _ fl.budget hd _).1 _ h
            cases he
            exact h1

/-- With measurement-only nothing but standard output is touched: no CertificateAuthority call, no
    Signer call, no VersionControl or workspace call — with or without dry-run, keys, back ends. -/
theorem C15_measurement_only_pure (P : Prims) (T : Tables) (c : Ctx) (keys : Option Keys)
    (ts : Int × Nat) (fl : Flags) (vcs : Option (List Attempt)) (vcss : List (List Attempt))
    (legacy : Bool) (hm : fl.measurementOnly = true) :
    ∀ eff ∈ (virtualFirmware legacy P T c keys ts fl vcs vcss).effects, ∃ l, eff = Eff.stdout l := by
  intro eff h
  unfold virtualFirmware at h
  cases hg : goldenMeasurement P T c with
  | err e => rw [hg] at h; simp at h
  | panic s => rw [hg] at h; simp at h
  | ok g =>
    rw [hg] at h
    simp only [hm, if_true] at h
    obtain ⟨l, _, rfl⟩ := List.mem_map.mp h
    exact ⟨l, rfl⟩

/-- A run that is not measurement-only prints nothing on standard output. -/
theorem C15_stdout_only_when_asked (P : Prims) (T : Tables) (c : Ctx) (keys : Option Keys)
    (ts : Int × Nat) (fl : Flags) (vcs : Option (List Attempt)) (vcss : List (List Attempt))
    (hm : fl.measurementOnly = false) :
    ∀ l, Eff.stdout l ∉ (virtualFirmware false P T c keys ts fl vcs vcss).effects := by
  intro l h
  unfold virtualFirmware at h
  cases hg : goldenMeasurement P T c with
  | err e => rw [hg] at h; simp at h
  | panic s => rw [hg] at h; simp at h
  | ok g =>
    rw [hg] at h
    simp only [hm, Bool.false_eq_true, if_false] at h
    have hk := signDocEff_kinds keys ts g
    cases hs : signDocEff keys ts g with
    | mk effs r =>
      rw [hs] at h hk
      cases r with
      | err e => exact absurd rfl ((hk _ h).2 l)
      | panic s => exact absurd rfl ((hk _ h).2 l)
      | ok v =>
        simp only at h
        rcases List.mem_append.mp h with h | h
        · exact absurd rfl ((hk _ h).2 l)
        · have gen : ∀ (lst : List (Nat × List Attempt)),
              Eff.stdout l ∉ (commitAll false fl.cfg (newEntry P c ts fl.cfg) fl.budget lst).1 := by
            intro lst
            induction lst with
            | nil => simp [commitAll]
            | cons x rest ih =>
              obtain ⟨i, s⟩ := x
              rw [commitAll_cons]
              split <;> simp [ih]
          exact gen _ h

/-- Both report the measurements a real run would sign.
    (a) dry-run on or off, the same documents are handed to the signer;
    (b) every document a signing run hands to the signer carries exactly the measured sections, and
        what measurement-only prints is the rendering of exactly those sections. -/
theorem C15_same_measurements (P : Prims) (T : Tables) (c : Ctx) (keys : Option Keys) (ts : Int × Nat)
    (fl : Flags) (vcs : Option (List Attempt)) (vcss : List (List Attempt)) :
    (∀ k d, Eff.sign k d ∈ (virtualFirmware false P T c keys ts
          { fl with cfg := { fl.cfg with dryRun := true } } vcs vcss).effects ↔
        Eff.sign k d ∈ (virtualFirmware false P T c keys ts
          { fl with cfg := { fl.cfg with dryRun := false } } vcs vcss).effects) ∧
    (∀ k d, Eff.sign k d ∈ (virtualFirmware false P T c keys ts
          { fl with measurementOnly := false } vcs vcss).effects →
        (virtualFirmware false P T c keys ts { fl with measurementOnly := true } vcs vcss).effects =
          (renderSnp fl.launchVmsas d.snp ++ renderTdx d.tdx).map Eff.stdout) := by
  constructor
  · intro k d
    rw [sign_mem_iff, sign_mem_iff]
  · intro k d h
    obtain ⟨_, g, hg, inSign⟩ := (sign_mem_iff P T c keys ts _ vcs vcss k d).mp h
    obtain ⟨_, h2, h3, _⟩ := signDocEff_docs keys ts g k d inSign
    unfold virtualFirmware
    rw [hg]
    simp [renderMeasurements, h2, h3]

/-- No panic: if the primitives and the key material do not panic, the fixed code never does — in
    particular the absent workspace of a dry run is never dereferenced. -/
theorem C15_no_panic (P : Prims) (T : Tables) (c : Ctx) (keys : Option Keys) (ts : Int × Nat)
    (fl : Flags) (vcs : Option (List Attempt)) (vcss : List (List Attempt))
    (h1 : ∀ k pr, (P.launchDigest c.image k pr).isPanic = false)
    (h2 : ∀ s m, (P.mrtd c.image s m).isPanic = false)
    (h3 : ∀ g, (signDocEff keys ts g).2.isPanic = false) :
    (virtualFirmware false P T c keys ts fl vcs vcss).result.isPanic = false := by
  have hgp := goldenMeasurement_noPanic P T c h1 h2
  unfold virtualFirmware
  cases hg : goldenMeasurement P T c with
  | err e => rfl
  | panic s => rw [hg] at hgp; cases hgp
  | ok g =>
    simp only
    split
    · rfl
    · have := h3 g
      cases hs : signDocEff keys ts g with
      | mk effs r =>
        rw [hs] at this
        cases r with
        | err e => rfl
        | panic s => cases this
        | ok v =>
          simp only
          have hc := commitAll_ne_panic fl.cfg (newEntry P c ts fl.cfg) fl.budget (effectiveVcss vcs vcss)
          cases hr : (commitAll false fl.cfg (newEntry P c ts fl.cfg) fl.budget (effectiveVcss vcs vcss)).2 with
          | ok => rfl
          | err => rfl
          | panic => exact absurd hr hc

/-- A dry run completes: when measuring and signing succeed and the candidate name is one the real run
    accepts (or the run is a snapshot, which uses no candidate name) it returns success, for every set
    of back ends (their behaviour is irrelevant; each only needs to exist). -/
theorem C15_dry_run_completes (P : Prims) (T : Tables) (c : Ctx) (keys : Option Keys) (ts : Int × Nat)
    (fl : Flags) (vcs : Option (List Attempt)) (vcss : List (List Attempt)) (g d : Golden) (sig : Bytes)
    (hd : fl.cfg.dryRun = true) (hm : fl.measurementOnly = false)
    (hg : goldenMeasurement P T c = .ok g) (hs : signDoc keys ts g = .ok (d, sig))
    (hne : ∀ x ∈ effectiveVcss vcs vcss, x.2 ≠ [])
    (hn : fl.cfg.snapshot = true ∨ nameOk fl.cfg.cand = true) :
    (virtualFirmware false P T c keys ts fl vcs vcss).result = .ok () := by
  unfold virtualFirmware
  rw [hg]
  simp only [hm, Bool.false_eq_true, if_false]
  unfold signDoc at hs
  cases hse : signDocEff keys ts g with
  | mk effs r =>
    rw [hse] at hs
    simp only at hs
    subst hs
    simp only
    rw [(commitAll_dry fl.cfg (newEntry P c ts fl.cfg) fl.budget hd _).2 hne hn]

/-- The defect the fix removes (D9), stated on the model of the code before the fix: every dry run
    that gets as far as committing — measuring and signing succeed, at least one back end is
    configured — panics on the nil ChangeOps, in manifest mode and in snapshot mode alike. -/
theorem C15_legacy_dry_run_panics (P : Prims) (T : Tables) (c : Ctx) (keys : Option Keys) (ts : Int × Nat)
    (fl : Flags) (vcs : Option (List Attempt)) (vcss : List (List Attempt)) (g d : Golden) (sig : Bytes)
    (hd : fl.cfg.dryRun = true) (hm : fl.measurementOnly = false)
    (hg : goldenMeasurement P T c = .ok g) (hs : signDoc keys ts g = .ok (d, sig))
    (hne : effectiveVcss vcs vcss ≠ []) :
    (virtualFirmware true P T c keys ts fl vcs vcss).result = .panic "nil ChangeOps" := by
  unfold virtualFirmware
  rw [hg]
  simp only [hm, Bool.false_eq_true, if_false]
  unfold signDoc at hs
  cases hse : signDocEff keys ts g with
  | mk effs r =>
    rw [hse] at hs
    simp only at hs
    subst hs
    simp only
    cases hl : effectiveVcss vcs vcss with
    | nil => exact absurd hl hne
    | cons x rest =>
      obtain ⟨i, s⟩ := x
      rw [commitAll_cons]
      simp [commitPhase, hd]

/-! ### non-vacuity -/

/-- a real run makes 4 key calls and 8 back-end calls and prints nothing; the same run with dry-run
    makes the same 4 key calls and one Result call; measurement-only makes none and prints 4 lines. -/
example :
    let real := virtualFirmware false exP exT exC exKeys (5, 0) (exFl false false false) (some exScript) []
    let dry := virtualFirmware false exP exT exC exKeys (5, 0) (exFl false true false) (some exScript) []
    let mo := virtualFirmware false exP exT exC exKeys (5, 0) (exFl true true false) (some exScript) []
    (countKeys real.effects, countVcs real.effects, stdoutLines real.effects) = (4, 8, []) ∧
    (countKeys dry.effects, countVcs dry.effects, stdoutLines dry.effects) = (4, 1, []) ∧
    (countKeys mo.effects, countVcs mo.effects) = (0, 0) ∧
    stdoutLines mo.effects = ["1 010109", "2 020109", "RAM:16 UnacceptedMemory:true MRTD:0d09", "RAM:0 UnacceptedMemory:true MRTD:0009"] ∧
    real.result = .ok () ∧ dry.result = .ok () ∧ mo.result = .ok () := by
  decide

/-- the model of the unfixed code panics on the same dry run, in both modes -/
example :
    (virtualFirmware true exP exT exC exKeys (5, 0) (exFl false true false) (some exScript) []).result = .panic "nil ChangeOps" ∧
    (virtualFirmware true exP exT exC exKeys (5, 0) (exFl false true true) (some exScript) []).result = .panic "nil ChangeOps" := by
  decide

end GceTcb.VF
