import GceTcb.Model.Pipeline
/-
C03 — Whatever the signer produces verifies, also after key rotations.

All theorems assume only `Laws P` (sign/verify agreement, unmarshal ∘ marshal = id, a certificate issued
by a self-signed CA root inside both validity windows chains) and hold for every hash-and-signature
scheme, every history `bootstrap; rotate*` with arbitrary times, every request and every verification
time inside both certificates' validity.
-/
namespace GceTcb.Pipeline
open GceTcb GceTcb.Policy

/-- What every reachable authority state satisfies. -/
structure WellFormed (ca : CA) : Prop where
  root_self : ca.root.issuer = ca.root.subject
  root_ca : ca.root.isCA = true
  root_key : ca.root.subject = ca.rootKey
  prim_issuer : ca.primary.issuer = ca.root.subject
  prim_key : ca.primary.subject = ca.primaryKey

theorem wf_bootstrap (L : Lifetimes) (t : Nat) : WellFormed (bootstrap L t) :=
  ⟨rfl, rfl, rfl, rfl, rfl⟩

theorem wf_rotate (L : Lifetimes) (ca : CA) (t : Nat) (h : WellFormed ca) : WellFormed (rotate L ca t) :=
  ⟨h.root_self, h.root_ca, h.root_key, h.root_key.symm ▸ rfl, rfl⟩

theorem wf_history (L : Lifetimes) (t0 : Nat) (rots : List Nat) : WellFormed (history L t0 rots) := by
  unfold history
  have gen : ∀ (rots : List Nat) (ca : CA), WellFormed ca → WellFormed (rots.foldl (rotate L) ca) := by
    intro rots
    induction rots with
    | nil => intro ca h; exact h
    | cons t ts ih => intro ca h; exact ih _ (wf_rotate L ca t h)
  exact gen rots _ (wf_bootstrap L t0)

theorem root_rotations (L : Lifetimes) (ca : CA) (rots : List Nat) :
    (rots.foldl (rotate L) ca).root = ca.root := by
  induction rots generalizing ca with
  | nil => rfl
  | cons t ts ih => simp only [List.foldl_cons]; rw [ih]; rfl

/-- Core lemma: an endorsement made in a well-formed state verifies under any root equal to that
    state's root, at any time inside both validity windows, for any options it satisfies. -/
theorem verify_endorse {β : Type} (P : Prims β) (hl : Laws P) (cd : Nat) (ca : CA) (hw : WellFormed ca)
    (r : Request) (hp : hasProvenance r) (t : Nat) (hr : ca.root.valid t) (hs : ca.primary.valid t)
    (ed : Bytes) (hed : ed = [] ∨ ed = r.digest) (so : Option SNPOptions)
    (hso : ∀ o, so = some o → snp r.sev o = true) :
    verifyEndorsement P cd (endorse P ca r) ⟨some [ca.root], t, ed, so⟩ = true := by
  unfold verifyEndorsement endorse
  simp only [hl.unmarshal_marshal]
  have hprov : (decide (r.timestamp > cd) && r.clSpec == 0 && r.commit.isEmpty) = false := by
    rcases hp with h | h
    · have : (r.clSpec == 0) = false := by simpa using h
      simp [this]
    · have : r.commit.isEmpty = false := by
        cases hc : r.commit with
        | nil => exact absurd hc h
        | cons _ _ => rfl
      simp [this]
  have hchain : P.verifyChain ca.primary [ca.root] t = true :=
    hl.chain_ok ca.primary ca.root t hw.prim_issuer hw.root_self hw.root_ca hr hs
  have hsig : P.checkSig ca.primary.subject
      (P.marshal ⟨r.digest, r.clSpec, r.commit, r.timestamp, some ca.primary, r.sev, r.tdx⟩)
      (P.sign ca.primaryKey (P.marshal ⟨r.digest, r.clSpec, r.commit, r.timestamp, some ca.primary, r.sev, r.tdx⟩)) = true := by
    rw [hw.prim_key]; exact hl.sig_ok _ _
  have hdig : (!ed.isEmpty && ed != r.digest) = false := by
    rcases hed with h | h
    · simp [h]
    · simp [h]
  simp only [gt_iff_lt, hprov, Bool.false_eq_true, if_false, hchain, Bool.not_true, hsig, hdig]
  cases so with
  | none => rfl
  | some o => exact hso o rfl

/-- The endorsement the pipeline writes is accepted under the authority's root certificate at any
    time inside the validity of both certificates — after bootstrap and after any number of rotations
    at any times. -/
theorem C03_signed_verifies {β : Type} (P : Prims β) (hl : Laws P) (L : Lifetimes) (cd t0 : Nat) (rots : List Nat)
    (r : Request) (hp : hasProvenance r) (t : Nat)
    (hr : (history L t0 rots).root.valid t) (hs : (history L t0 rots).primary.valid t) :
    verifyEndorsement P cd (endorse P (history L t0 rots) r) ⟨some [(history L t0 rots).root], t, [], none⟩ = true :=
  verify_endorse P hl cd _ (wf_history L t0 rots) r hp t hr hs [] (Or.inl rfl) none (by intro o h; cases h)

/-- …and also when the verifier names the firmware digest the document carries. -/
theorem C03_signed_verifies_digest {β : Type} (P : Prims β) (hl : Laws P) (L : Lifetimes) (cd t0 : Nat) (rots : List Nat)
    (r : Request) (hp : hasProvenance r) (t : Nat)
    (hr : (history L t0 rots).root.valid t) (hs : (history L t0 rots).primary.valid t) :
    verifyEndorsement P cd (endorse P (history L t0 rots) r) ⟨some [(history L t0 rots).root], t, r.digest, none⟩ = true :=
  verify_endorse P hl cd _ (wf_history L t0 rots) r hp t hr hs r.digest (Or.inr rfl) none (by intro o h; cases h)

/-- Endorsements issued before further rotations remain verifiable after them: the root is invariant
    under rotation, and the document carries its own signing certificate. -/
theorem C03_old_endorsements_survive {β : Type} (P : Prims β) (hl : Laws P) (L : Lifetimes) (cd t0 : Nat)
    (rots later : List Nat) (r : Request) (hp : hasProvenance r) (t : Nat)
    (hr : (history L t0 rots).root.valid t) (hs : (history L t0 rots).primary.valid t) :
    verifyEndorsement P cd (endorse P (history L t0 rots) r)
      ⟨some [(history L t0 (rots ++ later)).root], t, [], none⟩ = true := by
  have hroot : (history L t0 (rots ++ later)).root = (history L t0 rots).root := by
    unfold history
    rw [List.foldl_append, root_rotations]
  rw [hroot]
  exact C03_signed_verifies P hl L cd t0 rots r hp t hr hs

theorem mlookup_of_mem (m : List (Nat × Bytes)) (hn : (m.map (·.1)).Nodup) (n : Nat) (v : Bytes)
    (h : (n, v) ∈ m) : mlookup m n = some v := by
  induction m with
  | nil => cases h
  | cons a t ih =>
    simp only [List.map_cons, List.nodup_cons] at hn
    unfold mlookup
    rcases List.mem_cons.mp h with rfl | h'
    · simp
    · have hne : a.1 ≠ n := by
        intro heq
        exact hn.1 (heq ▸ List.mem_map_of_mem (f := (·.1)) h')
      have : (a.1 == n) = false := by simpa using hne
      simp only [List.find?_cons, this]
      exact ih hn.2 h'

/-- Every SEV-SNP measurement the document lists is accepted for its configuration: presenting the
    48-byte value listed for `n` launch VMSAs with `n` named verifies. -/
theorem C03_every_listed_snp_accepted {β : Type} (P : Prims β) (hl : Laws P) (L : Lifetimes) (cd t0 : Nat) (rots : List Nat)
    (r : Request) (hp : hasProvenance r) (t : Nat)
    (hr : (history L t0 rots).root.valid t) (hs : (history L t0 rots).primary.valid t)
    (s : SevSnp) (hsev : r.sev = some s) (hkeys : (s.measurements.map (·.1)).Nodup)
    (n : Nat) (m : Bytes) (hn : n ≠ 0) (hmem : (n, m) ∈ s.measurements) :
    verifyEndorsement P cd (endorse P (history L t0 rots) r)
      ⟨some [(history L t0 rots).root], t, [], some ⟨some m, n⟩⟩ = true := by
  apply verify_endorse P hl cd _ (wf_history L t0 rots) r hp t hr hs [] (Or.inl rfl)
  intro o ho
  cases ho
  have hl' := mlookup_of_mem s.measurements hkeys n m hmem
  have hne : s.measurements.isEmpty = false := by
    cases hq : s.measurements with
    | nil => rw [hq] at hmem; cases hmem
    | cons _ _ => rfl
  simp only [hsev, snp, hn, ne_eq, not_false_eq_true, if_true, hne, Bool.false_eq_true, if_false,
    Option.getD_some, hl']
  split
  · rfl
  · simp

/-- The SVSM measurement the document lists is accepted for its configuration, the single-VMSA
    launch — whether or not a measurement is also listed under one launch VMSA, and whichever other
    counts the request asked for — and also when no VMSA count is named. -/
theorem C03_listed_svsm_accepted {β : Type} (P : Prims β) (hl : Laws P) (L : Lifetimes) (cd t0 : Nat) (rots : List Nat)
    (r : Request) (hp : hasProvenance r) (t : Nat)
    (hr : (history L t0 rots).root.valid t) (hs : (history L t0 rots).primary.valid t)
    (s : SevSnp) (hsev : r.sev = some s) (hsv : s.svsm.isEmpty = false) (hne : s.measurements.isEmpty = false)
    (n : Nat) (hn : n = 1 ∨ n = 0) :
    verifyEndorsement P cd (endorse P (history L t0 rots) r)
      ⟨some [(history L t0 rots).root], t, [], some ⟨some s.svsm, n⟩⟩ = true := by
  apply verify_endorse P hl cd _ (wf_history L t0 rots) r hp t hr hs [] (Or.inl rfl)
  intro o ho
  cases ho
  rcases hn with rfl | rfl
  · simp [hsev, snp, hne, hsv]
  · simp [hsev, snp]

/-- Non-vacuity: a document that lists only the 4-VMSA measurement and an SVSM measurement meets the
    hypotheses, and the pre-check order matters — looking the VMSA count up first would refuse it. -/
example :
    let s : SevSnp := ⟨0, 1, [(4, [7])], [9], []⟩
    s.svsm.isEmpty = false ∧ s.measurements.isEmpty = false ∧ mlookup s.measurements 1 = none ∧
    snp (some s) ⟨some s.svsm, 1⟩ = true ∧ snp (some s) ⟨some s.svsm, 0⟩ = true := by decide

/-- Every TDX measurement the document lists is accepted for its configuration (the policy derived
    for the row's RAM size admits the row's MRTD), for well-formed tables (48-byte MRTDs). -/
theorem C03_every_listed_mrtd_accepted (rows : List TdxRow) (hwf : ∀ x ∈ rows, x.mrtd.length = mrTdSize)
    (row : TdxRow) (hmem : row ∈ rows) (hram : row.ramGib < 4294967296) :
    tdxValidateMeasurement () () (some rows) row.mrtd (none : Option (TdxPolicy Unit Unit)) false
      (row.ramGib : Int) true = true := by
  have hu : u32 (row.ramGib : Int) = row.ramGib := by
    unfold u32
    have : ((row.ramGib : Int) % 4294967296) = (row.ramGib : Int) := by
      apply Int.emod_eq_of_lt <;> omega
    rw [this]; simp
  unfold tdxValidateMeasurement tdxPolicy
  simp only [hu]
  have hsel : row ∈ rows.filter (fun m => ((row.ramGib : Int) == 0 || m.ramGib == row.ramGib)) := by
    apply List.mem_filter.mpr
    exact ⟨hmem, by simp⟩
  have hany : (rows.filter (fun m => ((row.ramGib : Int) == 0 || m.ramGib == row.ramGib))).any
      (fun m => decide (m.mrtd.length ≠ mrTdSize)) = false := by
    simp only [List.any_eq_false, decide_eq_true_eq, ne_eq, Decidable.not_not]
    intro x hx
    exact hwf x (List.mem_filter.mp hx).1
  have hne : (rows.filter (fun m => ((row.ramGib : Int) == 0 || m.ramGib == row.ramGib))).isEmpty = false := by
    cases hq : rows.filter (fun m => ((row.ramGib : Int) == 0 || m.ramGib == row.ramGib)) with
    | nil => rw [hq] at hsel; cases hsel
    | cons _ _ => rfl
  simp only [hany, Bool.false_eq_true, if_false, hne, Option.getD_none, modifyTdxPolicy,
    Option.map_some, Option.getD_some, Bool.true_and, Bool.and_eq_true]
  constructor
  · simp only [lengthCheckMany, List.all_eq_true, List.mem_map, Bool.or_eq_true, decide_eq_true_eq]
    rintro v ⟨x, hx, rfl⟩
    right; exact hwf x (List.mem_filter.mp hx).1
  · unfold byteCheckAny
    have hne2 : ((rows.filter (fun m => ((row.ramGib : Int) == 0 || m.ramGib == row.ramGib))).map (·.mrtd)).isEmpty = false := by
      cases hq : rows.filter (fun m => ((row.ramGib : Int) == 0 || m.ramGib == row.ramGib)) with
      | nil => rw [hq] at hsel; cases hsel
      | cons _ _ => rfl
    simp only [hne2, Bool.false_eq_true, if_false, List.any_eq_true]
    refine ⟨row.mrtd, List.mem_map_of_mem hsel, ?_⟩
    unfold byteCheck
    have h48 := hwf row hmem
    have h0 : ¬ (row.mrtd.length = 0) := by rw [h48]; decide
    simp [h0, h48]

/-- The signed bytes are stored and re-emitted verbatim: an independent signature check over the
    emitted payload and signature under the key of the emitted certificate succeeds. -/
theorem C03_bytes_verbatim {β : Type} (P : Prims β) (hl : Laws P) (ca : CA) (hw : WellFormed ca) (r : Request) :
    ∃ c, inspectCert P (endorse P ca r) = some c ∧ c = ca.primary ∧
      P.checkSig c.subject (inspectPayload (endorse P ca r)) (inspectSignature (endorse P ca r)) = true := by
  refine ⟨ca.primary, ?_, rfl, ?_⟩
  · simp [inspectCert, endorse, hl.unmarshal_marshal]
  · simp only [inspectPayload, inspectSignature, endorse]
    rw [hw.prim_key]; exact hl.sig_ok _ _

/-- Non-vacuity: the laws are satisfiable (the identity wire format with a signature scheme that
    records signer and message), and a history with two rotations has a non-empty window in which both
    certificates are valid. -/
example : Laws refPrims := by
  refine ⟨?_, ?_, ?_⟩
  · intro k m; simp [refPrims]
  · intro g; rfl
  · intro c r now h1 h2 h3 h4 h5
    simp [refPrims, h1, h2, h3, h4.1, h4.2, h5.1, h5.2]

example :
    let L : Lifetimes := ⟨9131 * 86400, 1826 * 86400⟩
    let ca := history L 1000 [2000, 3000]
    ca.primaryKey = 3 ∧ ca.root.valid 3500 ∧ ca.primary.valid 3500 := by
  simp [history, bootstrap, rotate, Cert.valid]

end GceTcb.Pipeline
