import GceTcb.Gen.AbiSizes
import GceTcb.Gen.EvlConsts
import GceTcb.Spec.AbiLayouts
import GceTcb.Proofs.Codecs
import GceTcb.Proofs.EventLog
/-
C18 — Binary codecs are mutually inverse, size-exact and strict.
Property theorems only (helper lemmas live in Proofs/Codecs.lean and Proofs/EventLog.lean).

For every structure S the clauses are
  (1) `C18_S_roundtrip`  decoding the encoding of an in-range value gives the value back;
  (2) `C18_S_size`       the encoding has the regenerated ABI size `Gen.AbiSizes.Sizeof…`, and
      `C18_S_layout`     the field offsets regenerated from the Go source equal the table written from
                         the external document, the table is contiguous, and the model uses its widths;
  (3) `C18_S_short`, `C18_S_strict_*`  short input, out-of-range fields and non-zero reserved fields are refused;
  (4) `C18_S_canon`      an accepted byte string re-encodes to the bytes that were consumed.
Prefix decoders (`…FromBytes` that read the start of a larger block) state (4) for the consumed prefix
`b.take size`; the exact-size decoders state it for the whole input.

`panic` outcomes: the four ovmf/abi decoders without a length check (`SevMetadataFromBytes`,
`SevMetadataSectionFromBytes`, `MetadataOffsetFromBytes`, `FwGUIDEntry.PopulateFromBytes`) panic on a short
slice; "refused" below means "not decoded" (`isOk = false`). That these panics are unreachable from the
firmware parsers is C08's subject.

Event log: `cfg.strict` selects the repaired (`true`) or original (`false`) size-prefixed readers,
`cfg.kind` the reader type (see Model/EventLog.lean).
-/
namespace GceTcb.C18
open GceTcb GceTcb.Codec GceTcb.Codecs GceTcb.EventLog
open GceTcb.Gen GceTcb.Spec

/-! ## EFI GUID (mixed-endian) -/

theorem C18_EfiGuid_roundtrip (g : EfiGuid) (h : g.InRange) : parseEFIGUID (efiGuidRec.enc g) = .ok g := by
  have := Rec.dec_enc efiGuidLaws .exact g h [] (fun _ => rfl)
  rwa [List.append_nil] at this

theorem C18_EfiGuid_put (g : EfiGuid) (data : Bytes) :
    (16 ≤ data.length → efiGuidPut g data = .ok (efiGuidRec.enc g ++ data.drop 16)) ∧
    (data.length < 16 → efiGuidPut g data = .err "short") :=
  ⟨Rec.put_ok efiGuidRec g data, Rec.put_short efiGuidRec g data⟩

theorem C18_EfiGuid_size (g : EfiGuid) : (efiGuidRec.enc g).length = 16 := Rec.enc_length _ _

theorem C18_EfiGuid_layout :
    AbiSizes.EfiGuidPutLayout = AbiLayouts.efiGuid ∧ AbiSizes.EfiGuidParseLayout = AbiLayouts.efiGuid ∧
    AbiSizes.EfiGuidConvertLayout = AbiLayouts.uuidOfEfiGuid ∧ AbiSizes.UuidPutLayout = AbiLayouts.efiGuidOfUuid ∧
    AbiLayouts.contiguous AbiLayouts.efiGuid = true ∧ efiGuidRec.ws = AbiLayouts.widths AbiLayouts.efiGuid ∧
    uuidRec.ws = AbiLayouts.widths AbiLayouts.efiGuidOfUuid := by decide

/-- parseEFIGUID / FromEFIGUID accept exactly 16 bytes -/
theorem C18_EfiGuid_strict_size (b : Bytes) (h : b.length ≠ 16) :
    parseEFIGUID b = .err "size" ∧ fromEFIGUID b = .err "size" := by
  have := Rec.dec_exact_long efiGuidRec b h
  exact ⟨this, by simp only [fromEFIGUID, parseEFIGUID, this]⟩

theorem C18_EfiGuid_canon (b : Bytes) (g : EfiGuid) (h : parseEFIGUID b = .ok g) :
    efiGuidRec.enc g = b ∧ g.InRange := by
  obtain ⟨h1, h2, _, h4⟩ := Rec.dec_canon efiGuidLaws .exact b g h
  have : b.length = 16 := h4 rfl
  refine ⟨?_, h2⟩
  rw [h1]; exact List.take_of_length_le (by rw [this]; exact Nat.le_refl 16)

/-- uuid.UUID → EFI_GUID bytes → uuid.UUID -/
theorem C18_Uuid_roundtrip (u : Bytes) (h : u.length = 16) : fromEFIGUID (uuidRec.enc u) = .ok u := by
  have hf := uuidLaws.fits u h
  have hp : parseEFIGUID (uuidRec.enc u) = .ok (efiGuidRec.ofVals (uuidRec.toVals u)) := by
    show efiGuidRec.dec .exact (encF efiGuidRec.ws (uuidRec.toVals u)) = _
    simp only [Rec.dec]
    rw [if_neg (by rw [encF_length]; exact fun h => h rfl)]
    simp only [Rec.decBody]
    have := decF_encF efiGuidRec.ws (uuidRec.toVals u) [] hf
    rw [List.append_nil] at this
    rw [this]; rfl
  simp only [fromEFIGUID, hp]
  have := uuidOfVals_uuidVals u h
  simp only [convertEFIGUID, efiGuidRec, uuidRec, uuidVals]
  simp only [uuidOfVals] at this
  rw [leBytes_leVal' _ 8 (field_length' u 8 8 (by omega))] at this ⊢
  exact congrArg Outcome.ok this

/-- EFI_GUID bytes → uuid.UUID → EFI_GUID bytes: every 16-byte string is the encoding of what it decodes to -/
theorem C18_Uuid_canon (b u : Bytes) (h : fromEFIGUID b = .ok u) : uuidRec.enc u = b ∧ u.length = 16 := by
  simp only [fromEFIGUID] at h
  cases hp : parseEFIGUID b with
  | err e => rw [hp] at h; cases h
  | panic s => rw [hp] at h; cases h
  | ok g =>
    rw [hp] at h
    injection h with h
    obtain ⟨h1, h2, _, h4⟩ := Rec.dec_canon efiGuidLaws .exact b g hp
    have hl : b.length = 16 := h4 rfl
    have hb : efiGuidRec.enc g = b := by rw [h1]; exact List.take_of_length_le (by rw [hl]; exact Nat.le_refl 16)
    -- g = ofVals (decF ws b), so u = uuidRec.ofVals (decF ws b)
    have hg : g = efiGuidRec.ofVals (decF efiGuidRec.ws b) := by
      have : parseEFIGUID b = .ok (efiGuidRec.ofVals (decF efiGuidRec.ws b)) := by
        simp only [parseEFIGUID, Rec.dec]
        rw [if_neg (by intro hh; exact hh hl)]
        rfl
      rw [hp] at this; injection this
    have hu : u = uuidRec.ofVals (decF uuidRec.ws b) := by
      rw [← h, hg]
      have hf := decF_fits efiGuidRec.ws b
      simp only [efiGuidRec, uuidRec, decF, Fits, convertEFIGUID, uuidOfVals] at hf ⊢
    subst hu
    refine ⟨?_, uuidLaws.inr b rfl⟩
    unfold Rec.enc
    rw [uuidLaws.to_of b rfl, encF_decF _ _ (by rw [hl]; exact Nat.le_refl 16)]
    exact List.take_of_length_le (by rw [hl]; exact Nat.le_refl 16)

/-- The mixed-endian rule itself (UEFI Appendix A): the EFI form of a UUID is the UUID with its first
    three fields byte-reversed and the last eight bytes unchanged. -/
theorem C18_Uuid_mixed_endian (u : Bytes) (h : u.length = 16) :
    uuidRec.enc u = (field u 0 4).reverse ++ (field u 4 2).reverse ++ (field u 6 2).reverse ++ field u 8 8 := by
  have e1 : leBytes 4 (beVal (field u 0 4)) = (field u 0 4).reverse := by
    have := leBytes_leVal' (field u 0 4).reverse 4 (by rw [List.length_reverse]; exact field_length' u 0 4 (by omega))
    exact this
  have e2 : leBytes 2 (beVal (field u 4 2)) = (field u 4 2).reverse :=
    leBytes_leVal' (field u 4 2).reverse 2 (by rw [List.length_reverse]; exact field_length' u 4 2 (by omega))
  have e3 : leBytes 2 (beVal (field u 6 2)) = (field u 6 2).reverse :=
    leBytes_leVal' (field u 6 2).reverse 2 (by rw [List.length_reverse]; exact field_length' u 6 2 (by omega))
  have e4 : leBytes 8 (leVal (field u 8 8)) = field u 8 8 := leBytes_leVal' _ 8 (field_length' u 8 8 (by omega))
  simp only [Rec.enc, uuidRec, uuidVals, encF, e1, e2, e3, e4, List.append_nil, List.append_assoc]

example : fromEFIGUID [0xde, 0x82, 0xb5, 0x96, 0xb2, 0x1f, 0xf7, 0x45, 0xba, 0xea, 0xa3, 0x66, 0xc5, 0x5a, 0x08, 0x2d]
    = .ok [0x96, 0xb5, 0x82, 0xde, 0x1f, 0xb2, 0x45, 0xf7, 0xba, 0xea, 0xa3, 0x66, 0xc5, 0x5a, 0x08, 0x2d] := by decide
example : (⟨0x96b582de, 0x1fb2, 0x45f7, [0xba, 0xea, 0xa3, 0x66, 0xc5, 0x5a, 0x08, 0x2d]⟩ : EfiGuid).InRange := by decide

/-! ## FwGUIDEntry -/

theorem C18_FwGuidEntry_roundtrip (e : FwGuidEntry) (t : Bytes) (h : e.InRange) :
    fwGuidEntryFromBytes (fwGuidEntryRec.enc e ++ t) = .ok e :=
  Rec.dec_enc fwGuidEntryLaws .panicShort e h t (by intro h; cases h)

theorem C18_FwGuidEntry_put (e : FwGuidEntry) (data : Bytes) :
    (AbiSizes.SizeofFwGUIDEntry ≤ data.length → fwGuidEntryPut e data = .ok (fwGuidEntryRec.enc e ++ data.drop 18)) ∧
    (data.length < AbiSizes.SizeofFwGUIDEntry → fwGuidEntryPut e data = .err "short") :=
  ⟨Rec.put_ok fwGuidEntryRec e data, Rec.put_short fwGuidEntryRec e data⟩

theorem C18_FwGuidEntry_size (e : FwGuidEntry) : (fwGuidEntryRec.enc e).length = AbiSizes.SizeofFwGUIDEntry :=
  Rec.enc_length _ _

theorem C18_FwGuidEntry_layout :
    AbiSizes.FwGuidEntryPutLayout = AbiLayouts.fwGuidEntryPut ∧
    AbiSizes.FwGuidEntryFromBytesLayout = AbiLayouts.fwGuidEntryFromBytes ∧
    AbiLayouts.contiguous AbiLayouts.fwGuidEntryPut = true ∧
    AbiLayouts.total AbiLayouts.fwGuidEntryPut = AbiLayouts.sizeofFwGuidEntry ∧
    AbiSizes.SizeofFwGUIDEntry = AbiLayouts.sizeofFwGuidEntry ∧
    fwGuidEntryRec.ws = [2] ++ uuidRec.ws ∧ AbiLayouts.widths AbiLayouts.fwGuidEntryPut = [2, uuidRec.ws.sum] := by decide

theorem C18_FwGuidEntry_short (b : Bytes) (h : b.length < AbiSizes.SizeofFwGUIDEntry) :
    (fwGuidEntryFromBytes b).isOk = false := Rec.dec_short fwGuidEntryRec .panicShort b h

theorem C18_FwGuidEntry_canon (b : Bytes) (e : FwGuidEntry) (h : fwGuidEntryFromBytes b = .ok e) :
    fwGuidEntryRec.enc e = b.take AbiSizes.SizeofFwGUIDEntry ∧ e.InRange := by
  have := Rec.dec_canon fwGuidEntryLaws .panicShort b e h
  exact ⟨this.1, this.2.1⟩

example : (⟨22, [0, 0xf7, 0x71, 0xde, 0x1a, 0x7e, 0x4f, 0xcb, 0x89, 0x0e, 0x68, 0xc7, 0x7e, 0x2f, 0xb4, 0x4e]⟩ : FwGuidEntry).InRange := by
  decide

/-! ## SevMetadata, SevMetadataSection -/

theorem C18_SevMetadata_roundtrip (s : SevMetadata) (t : Bytes) (h : s.InRange) :
    sevMetadataFromBytes (sevMetadataRec.enc s ++ t) = .ok s :=
  Rec.dec_enc sevMetadataLaws .panicShort s h t (by intro h; cases h)

theorem C18_SevMetadata_put (s : SevMetadata) (data : Bytes) :
    (AbiSizes.SizeofSevMetadata ≤ data.length → sevMetadataPut s data = .ok (sevMetadataRec.enc s ++ data.drop 16)) ∧
    (data.length < AbiSizes.SizeofSevMetadata → sevMetadataPut s data = .err "short") :=
  ⟨Rec.put_ok sevMetadataRec s data, Rec.put_short sevMetadataRec s data⟩

theorem C18_SevMetadata_size (s : SevMetadata) : (sevMetadataRec.enc s).length = AbiSizes.SizeofSevMetadata :=
  Rec.enc_length _ _

theorem C18_SevMetadata_layout :
    AbiSizes.SevMetadataPutLayout = AbiLayouts.sevMetadata ∧ AbiSizes.SevMetadataFromBytesLayout = AbiLayouts.sevMetadata ∧
    AbiLayouts.contiguous AbiLayouts.sevMetadata = true ∧ AbiLayouts.total AbiLayouts.sevMetadata = AbiLayouts.sizeofSevMetadata ∧
    AbiSizes.SizeofSevMetadata = AbiLayouts.sizeofSevMetadata ∧
    sevMetadataRec.ws = AbiLayouts.widths AbiLayouts.sevMetadata := by decide

theorem C18_SevMetadata_short (b : Bytes) (h : b.length < AbiSizes.SizeofSevMetadata) :
    (sevMetadataFromBytes b).isOk = false := Rec.dec_short sevMetadataRec .panicShort b h

theorem C18_SevMetadata_canon (b : Bytes) (s : SevMetadata) (h : sevMetadataFromBytes b = .ok s) :
    sevMetadataRec.enc s = b.take AbiSizes.SizeofSevMetadata ∧ s.InRange := by
  have := Rec.dec_canon sevMetadataLaws .panicShort b s h
  exact ⟨this.1, this.2.1⟩

example : (⟨0x56455341, 52, 1, 3⟩ : SevMetadata).InRange := by decide

theorem C18_SevMetadataSection_roundtrip (s : SevMetadataSection) (t : Bytes) (h : s.InRange) :
    sevMetadataSectionFromBytes (sevMetadataSectionRec.enc s ++ t) = .ok s :=
  Rec.dec_enc sevMetadataSectionLaws .panicShort s h t (by intro h; cases h)

theorem C18_SevMetadataSection_put (s : SevMetadataSection) (data : Bytes) :
    (AbiSizes.SizeofSevMetadataSection ≤ data.length →
      sevMetadataSectionPut s data = .ok (sevMetadataSectionRec.enc s ++ data.drop 12)) ∧
    (data.length < AbiSizes.SizeofSevMetadataSection → sevMetadataSectionPut s data = .err "short") :=
  ⟨Rec.put_ok sevMetadataSectionRec s data, Rec.put_short sevMetadataSectionRec s data⟩

theorem C18_SevMetadataSection_size (s : SevMetadataSection) :
    (sevMetadataSectionRec.enc s).length = AbiSizes.SizeofSevMetadataSection := Rec.enc_length _ _

theorem C18_SevMetadataSection_layout :
    AbiSizes.SevMetadataSectionPutLayout = AbiLayouts.sevMetadataSection ∧
    AbiSizes.SevMetadataSectionFromBytesLayout = AbiLayouts.sevMetadataSection ∧
    AbiLayouts.contiguous AbiLayouts.sevMetadataSection = true ∧
    AbiLayouts.total AbiLayouts.sevMetadataSection = AbiLayouts.sizeofSevMetadataSection ∧
    AbiSizes.SizeofSevMetadataSection = AbiLayouts.sizeofSevMetadataSection ∧
    sevMetadataSectionRec.ws = AbiLayouts.widths AbiLayouts.sevMetadataSection := by decide

theorem C18_SevMetadataSection_short (b : Bytes) (h : b.length < AbiSizes.SizeofSevMetadataSection) :
    (sevMetadataSectionFromBytes b).isOk = false := Rec.dec_short sevMetadataSectionRec .panicShort b h

theorem C18_SevMetadataSection_canon (b : Bytes) (s : SevMetadataSection) (h : sevMetadataSectionFromBytes b = .ok s) :
    sevMetadataSectionRec.enc s = b.take AbiSizes.SizeofSevMetadataSection ∧ s.InRange := by
  have := Rec.dec_canon sevMetadataSectionLaws .panicShort b s h
  exact ⟨this.1, this.2.1⟩

example : (⟨0x800000, 0x9000, 1⟩ : SevMetadataSection).InRange := by decide

/-! ## MetadataOffset -/

theorem C18_MetadataOffset_roundtrip (m : MetadataOffset) (t : Bytes) (h : m.InRange) :
    metadataOffsetFromBytes (metadataOffsetRec.enc m ++ t) = .ok m :=
  Rec.dec_enc metadataOffsetLaws .panicShort m h t (by intro h; cases h)

theorem C18_MetadataOffset_put (m : MetadataOffset) (data : Bytes) :
    (AbiSizes.SizeofMetadataOffset ≤ data.length → metadataOffsetPut m data = .ok (metadataOffsetRec.enc m ++ data.drop 22)) ∧
    (data.length < AbiSizes.SizeofMetadataOffset → metadataOffsetPut m data = .err "short") :=
  ⟨Rec.put_ok metadataOffsetRec m data, Rec.put_short metadataOffsetRec m data⟩

theorem C18_MetadataOffset_size (m : MetadataOffset) : (metadataOffsetRec.enc m).length = AbiSizes.SizeofMetadataOffset :=
  Rec.enc_length _ _

theorem C18_MetadataOffset_layout :
    AbiSizes.MetadataOffsetPutLayout = AbiLayouts.metadataOffsetPut ∧
    AbiSizes.MetadataOffsetFromBytesLayout = AbiLayouts.metadataOffsetFromBytes ∧
    AbiLayouts.contiguous AbiLayouts.metadataOffsetPut = true ∧
    AbiLayouts.total AbiLayouts.metadataOffsetPut = AbiLayouts.sizeofMetadataOffset ∧
    AbiSizes.SizeofMetadataOffset = AbiLayouts.sizeofMetadataOffset ∧
    metadataOffsetRec.ws = [4] ++ fwGuidEntryRec.ws ∧
    AbiLayouts.widths AbiLayouts.metadataOffsetPut = [4, fwGuidEntryRec.ws.sum] := by decide

theorem C18_MetadataOffset_short (b : Bytes) (h : b.length < AbiSizes.SizeofMetadataOffset) :
    (metadataOffsetFromBytes b).isOk = false := Rec.dec_short metadataOffsetRec .panicShort b h

theorem C18_MetadataOffset_canon (b : Bytes) (m : MetadataOffset) (h : metadataOffsetFromBytes b = .ok m) :
    metadataOffsetRec.enc m = b.take AbiSizes.SizeofMetadataOffset ∧ m.InRange := by
  have := Rec.dec_canon metadataOffsetLaws .panicShort b m h
  exact ⟨this.1, this.2.1⟩

example : (⟨0x1234, ⟨22, [0xdc, 0x88, 0x65, 0x66, 0x98, 0x4a, 0x47, 0x98, 0xa7, 0x5e, 0x55, 0x85, 0xa7, 0xbf, 0x67, 0xcc]⟩⟩ : MetadataOffset).InRange := by
  decide

/-! ## SEV-ES reset block -/

theorem C18_ResetBlock_roundtrip (r : ResetBlock) (h : r.InRange) :
    sevEsResetBlockFromBytes (resetBlockRec.enc r) = .ok r := by
  have := Rec.dec_enc resetBlockLaws .exact r h [] (fun _ => rfl)
  rwa [List.append_nil] at this

theorem C18_ResetBlock_put (r : ResetBlock) (data : Bytes) (h : r.InRange) (hd : AbiSizes.SizeofSevEsResetBlock ≤ data.length) :
    putSevEsResetBlock r data = .ok (resetBlockRec.enc r ++ data.drop 22) := by
  have hs : resetBlockRec.size = 22 := rfl
  have h22 : AbiSizes.SizeofSevEsResetBlock = 22 := rfl
  simp only [putSevEsResetBlock, hs]
  rw [if_neg (by omega), if_neg (by have := h.2.1; omega), if_neg (by have := h.2.2; omega)]

theorem C18_ResetBlock_size (r : ResetBlock) : (resetBlockRec.enc r).length = AbiSizes.SizeofSevEsResetBlock :=
  Rec.enc_length _ _

theorem C18_ResetBlock_layout :
    AbiSizes.ResetBlockPutLayout = AbiLayouts.resetBlockPut ∧ AbiSizes.ResetBlockFromBytesLayout = AbiLayouts.resetBlockFromBytes ∧
    AbiLayouts.contiguous AbiLayouts.resetBlockPut = true ∧
    AbiLayouts.total AbiLayouts.resetBlockPut = AbiLayouts.sizeofSevEsResetBlock ∧
    AbiSizes.SizeofSevEsResetBlock = AbiLayouts.sizeofSevEsResetBlock ∧
    resetBlockRec.ws = [4, 2] ++ uuidRec.ws ∧ AbiLayouts.widths AbiLayouts.resetBlockPut = [4, 2, uuidRec.ws.sum] := by decide

/-- a Size that does not fit 16 bits, or a Guid that is not 16 bytes, is refused (never truncated) -/
theorem C18_ResetBlock_strict_range (r : ResetBlock) (data : Bytes) (_ht : r.TypeOK) (h : ¬ r.InRange) :
    (putSevEsResetBlock r data).isOk = false := by
  simp only [putSevEsResetBlock]
  by_cases h1 : data.length < resetBlockRec.size
  · rw [if_pos h1]; rfl
  · rw [if_neg h1]
    by_cases h2 : r.size ≥ 2 ^ 16
    · rw [if_pos h2]; rfl
    · rw [if_neg h2]
      by_cases h3 : r.guid.length ≠ 16
      · rw [if_pos h3]; rfl
      · exfalso; apply h
        exact ⟨_ht.1, by omega, by omega⟩

/-- exactly 22 bytes are accepted: shorter and longer inputs are refused -/
theorem C18_ResetBlock_strict_size (b : Bytes) (h : b.length ≠ AbiSizes.SizeofSevEsResetBlock) :
    sevEsResetBlockFromBytes b = .err "size" := Rec.dec_exact_long resetBlockRec b h

theorem C18_ResetBlock_canon (b : Bytes) (r : ResetBlock) (h : sevEsResetBlockFromBytes b = .ok r) :
    resetBlockRec.enc r = b ∧ r.InRange := by
  obtain ⟨h1, h2, _, h4⟩ := Rec.dec_canon resetBlockLaws .exact b r h
  have : b.length = 22 := h4 rfl
  exact ⟨by rw [h1]; exact List.take_of_length_le (by rw [this]; exact Nat.le_refl 22), h2⟩

example : (⟨0xfffff000, 22, [0, 0xf7, 0x71, 0xde, 0x1a, 0x7e, 0x4f, 0xcb, 0x89, 0x0e, 0x68, 0xc7, 0x7e, 0x2f, 0xb4, 0x4e]⟩ : ResetBlock).InRange := by
  decide
example : (putSevEsResetBlock ⟨1, 0x10005, zeros 16⟩ (zeros 22)).isOk = false := by decide

/-! ## TDX metadata -/

theorem C18_TdxDescriptor_roundtrip (d : TdxDescriptor) (t : Bytes) (h : d.InRange) :
    tdxDescriptorFromBytes (tdxDescriptorRec.enc d ++ t) = .ok d :=
  Rec.dec_enc tdxDescriptorLaws .errShort d h t (by intro h; cases h)

theorem C18_TdxDescriptor_put (d : TdxDescriptor) (data : Bytes) :
    (AbiSizes.SizeofTDXMetadataDescriptor ≤ data.length → tdxDescriptorPut d data = .ok (tdxDescriptorRec.enc d ++ data.drop 16)) ∧
    (data.length < AbiSizes.SizeofTDXMetadataDescriptor → tdxDescriptorPut d data = .err "short") :=
  ⟨Rec.put_ok tdxDescriptorRec d data, Rec.put_short tdxDescriptorRec d data⟩

theorem C18_TdxDescriptor_size (d : TdxDescriptor) :
    (tdxDescriptorRec.enc d).length = AbiSizes.SizeofTDXMetadataDescriptor := Rec.enc_length _ _

theorem C18_TdxDescriptor_layout :
    AbiSizes.TdxDescriptorPutLayout = AbiLayouts.tdxDescriptor ∧ AbiSizes.TdxDescriptorFromBytesLayout = AbiLayouts.tdxDescriptor ∧
    AbiLayouts.contiguous AbiLayouts.tdxDescriptor = true ∧ AbiLayouts.total AbiLayouts.tdxDescriptor = AbiLayouts.sizeofTdxDescriptor ∧
    AbiSizes.SizeofTDXMetadataDescriptor = AbiLayouts.sizeofTdxDescriptor ∧
    tdxDescriptorRec.ws = AbiLayouts.widths AbiLayouts.tdxDescriptor := by decide

theorem C18_TdxDescriptor_short (b : Bytes) (h : b.length < AbiSizes.SizeofTDXMetadataDescriptor) :
    tdxDescriptorFromBytes b = .err "short" := by
  simp only [tdxDescriptorFromBytes, Rec.dec]; rw [if_pos (show b.length < tdxDescriptorRec.size from h)]

theorem C18_TdxDescriptor_canon (b : Bytes) (d : TdxDescriptor) (h : tdxDescriptorFromBytes b = .ok d) :
    tdxDescriptorRec.enc d = b.take AbiSizes.SizeofTDXMetadataDescriptor ∧ d.InRange := by
  have := Rec.dec_canon tdxDescriptorLaws .errShort b d h
  exact ⟨this.1, this.2.1⟩

theorem C18_TdxSection_roundtrip (s : TdxSection) (t : Bytes) (h : s.InRange) :
    tdxSectionFromBytes (tdxSectionRec.enc s ++ t) = .ok s :=
  Rec.dec_enc tdxSectionLaws .errShort s h t (by intro h; cases h)

theorem C18_TdxSection_put (s : TdxSection) (data : Bytes) :
    (AbiSizes.SizeofTDXMetdataSection ≤ data.length → tdxSectionPut s data = .ok (tdxSectionRec.enc s ++ data.drop 32)) ∧
    (data.length < AbiSizes.SizeofTDXMetdataSection → tdxSectionPut s data = .err "short") :=
  ⟨Rec.put_ok tdxSectionRec s data, Rec.put_short tdxSectionRec s data⟩

theorem C18_TdxSection_size (s : TdxSection) : (tdxSectionRec.enc s).length = AbiSizes.SizeofTDXMetdataSection :=
  Rec.enc_length _ _

theorem C18_TdxSection_layout :
    AbiSizes.TdxSectionPutLayout = AbiLayouts.tdxSection ∧ AbiSizes.TdxSectionFromBytesLayout = AbiLayouts.tdxSection ∧
    AbiLayouts.contiguous AbiLayouts.tdxSection = true ∧ AbiLayouts.total AbiLayouts.tdxSection = AbiLayouts.sizeofTdxSection ∧
    AbiSizes.SizeofTDXMetdataSection = AbiLayouts.sizeofTdxSection ∧
    tdxSectionRec.ws = AbiLayouts.widths AbiLayouts.tdxSection := by decide

theorem C18_TdxSection_short (b : Bytes) (h : b.length < AbiSizes.SizeofTDXMetdataSection) :
    tdxSectionFromBytes b = .err "short" := by
  simp only [tdxSectionFromBytes, Rec.dec]; rw [if_pos (show b.length < tdxSectionRec.size from h)]

theorem C18_TdxSection_canon (b : Bytes) (s : TdxSection) (h : tdxSectionFromBytes b = .ok s) :
    tdxSectionRec.enc s = b.take AbiSizes.SizeofTDXMetdataSection ∧ s.InRange := by
  have := Rec.dec_canon tdxSectionLaws .errShort b s h
  exact ⟨this.1, this.2.1⟩

theorem C18_TdxMetadata_roundtrip (m : TdxMetadata) (t : Bytes) (h : m.InRange) :
    tdxMetadataFromBytes (tdxMetadataEnc m ++ t) = .ok m := tdxMetadata_roundtrip m t h

theorem C18_TdxMetadata_put (m : TdxMetadata) (data : Bytes) (h : m.InRange) :
    (16 + 32 * m.sections.length ≤ data.length →
      tdxMetadataPut m data = .ok (tdxMetadataEnc m ++ data.drop (16 + 32 * m.sections.length))) ∧
    (data.length < 16 + 32 * m.sections.length → tdxMetadataPut m data = .err "short") :=
  ⟨tdxMetadataPut_ok m data h, tdxMetadataPut_short m data h⟩

theorem C18_TdxMetadata_size (m : TdxMetadata) :
    (tdxMetadataEnc m).length =
      AbiSizes.SizeofTDXMetadataDescriptor + AbiSizes.SizeofTDXMetdataSection * m.sections.length :=
  tdxMetadataEnc_length m

/-- a section count that differs from the number of sections is refused by Put -/
theorem C18_TdxMetadata_strict_count (m : TdxMetadata) (data : Bytes) (h : m.header.sectionCount ≠ m.sections.length) :
    tdxMetadataPut m data = .err "count" := tdxMetadataPut_count m data h

/-- short input: fewer than 16 bytes, or fewer bytes than the declared section count needs, is
    refused — the decoder never completes missing sections (no 32-bit wrap of `count * 32`) -/
theorem C18_TdxMetadata_short (b : Bytes) :
    (b.length < AbiSizes.SizeofTDXMetadataDescriptor → tdxMetadataFromBytes b = .err "short") ∧
    (∀ m, tdxMetadataFromBytes b = .ok m →
      AbiSizes.SizeofTDXMetadataDescriptor + AbiSizes.SizeofTDXMetdataSection * m.header.sectionCount ≤ b.length) := by
  refine ⟨tdxMetadata_short b, ?_⟩
  intro m hm
  obtain ⟨_, h2, h3, _⟩ := tdxMetadata_canon b m hm
  rw [h3]; exact h2

theorem C18_TdxMetadata_canon (b : Bytes) (m : TdxMetadata) (h : tdxMetadataFromBytes b = .ok m) :
    tdxMetadataEnc m = b.take (16 + 32 * m.sections.length) ∧ m.header.sectionCount = m.sections.length ∧
    m.header.InRange ∧ (∀ s ∈ m.sections, s.InRange) := by
  obtain ⟨h1, _, h3, h4, h5⟩ := tdxMetadata_canon b m h
  exact ⟨h1, h3, h4, h5⟩

example : (⟨⟨0x46564454, 80, 1, 2⟩, [⟨0, 0x1000, 0xfffff000, 0x1000, 0, 1⟩, ⟨0, 0, 0x809000, 0x2000, 2, 0⟩]⟩ : TdxMetadata).InRange := by
  refine ⟨by decide, rfl, ?_, by decide⟩
  intro s hs
  simp only [List.mem_cons, List.not_mem_nil, or_false] at hs
  rcases hs with h | h <;> subst h <;> decide
/-- a 16-byte block declaring 2^27 sections (the wrap-around input) is refused -/
example : tdxMetadataFromBytes (tdxDescriptorRec.enc ⟨0x46564454, 16, 1, 2 ^ 27⟩) = .err "short" := by decide

/-! ## PAGE_INFO and VMCB segment (light; the VMSA/PAGE_INFO tables are C04's) -/

theorem C18_PageInfo_roundtrip (p : PageInfo) (t : Bytes) (h : p.InRange) : pageInfoDec (pageInfoRec.enc p ++ t) = .ok p :=
  Rec.dec_enc pageInfoLaws .errShort p h t (by intro h; cases h)

theorem C18_PageInfo_put (p : PageInfo) (data : Bytes) :
    (AbiSizes.SizeofPageInfo ≤ data.length → pageInfoPut p data = .ok (pageInfoRec.enc p ++ data.drop 112)) ∧
    (data.length < AbiSizes.SizeofPageInfo → pageInfoPut p data = .err "short") :=
  ⟨Rec.put_ok pageInfoRec p data, Rec.put_short pageInfoRec p data⟩

theorem C18_PageInfo_size (p : PageInfo) : (pageInfoRec.enc p).length = AbiSizes.SizeofPageInfo := Rec.enc_length _ _

theorem C18_PageInfo_layout :
    AbiSizes.PageInfoPutLayout = AbiLayouts.pageInfo ∧ AbiLayouts.contiguous AbiLayouts.pageInfo = true ∧
    AbiLayouts.total AbiLayouts.pageInfo = AbiLayouts.sizeofPageInfo ∧ AbiSizes.SizeofPageInfo = AbiLayouts.sizeofPageInfo ∧
    pageInfoRec.ws = AbiLayouts.widths AbiLayouts.pageInfo := by decide

/-- the reserved byte 0x64 is written as zero and a reader refuses it when set -/
theorem C18_PageInfo_strict_reserved (b : Bytes) (h : pageInfoRec.valid (decF pageInfoRec.ws b) = false) :
    (pageInfoDec b).isOk = false := Rec.dec_reserved pageInfoRec .errShort b h

theorem C18_PageInfo_canon (b : Bytes) (p : PageInfo) (h : pageInfoDec b = .ok p) :
    pageInfoRec.enc p = b.take AbiSizes.SizeofPageInfo ∧ p.InRange := by
  have := Rec.dec_canon pageInfoLaws .errShort b p h
  exact ⟨this.1, this.2.1⟩

example : (⟨zeros 48, zeros 48, 0x70, 1, 0, 0, 0, 0, 0xfffff000⟩ : PageInfo).InRange := by decide
example : (pageInfoDec (zeros 100 ++ [1] ++ zeros 11)).isOk = false := by decide

theorem C18_VmcbSeg_roundtrip (s : VmcbSeg) (t : Bytes) (h : s.InRange) : vmcbSegDec (vmcbSegRec.enc s ++ t) = .ok s :=
  Rec.dec_enc vmcbSegLaws .errShort s h t (by intro h; cases h)

theorem C18_VmcbSeg_put (s : VmcbSeg) (data : Bytes) (h : s.InRange) (hd : AbiSizes.SizeofVmcbSeg ≤ data.length) :
    putVmcbSeg s data = .ok (vmcbSegRec.enc s ++ data.drop 16) := by
  have hs : vmcbSegRec.size = 16 := rfl
  have h16 : AbiSizes.SizeofVmcbSeg = 16 := rfl
  simp only [putVmcbSeg, hs]
  rw [if_neg (by omega), if_neg (by have := h.1; omega), if_neg (by have := h.2.1; omega)]

theorem C18_VmcbSeg_size (s : VmcbSeg) : (vmcbSegRec.enc s).length = AbiSizes.SizeofVmcbSeg := Rec.enc_length _ _

theorem C18_VmcbSeg_layout :
    AbiSizes.VmcbSegPutLayout = AbiLayouts.vmcbSeg ∧ AbiLayouts.contiguous AbiLayouts.vmcbSeg = true ∧
    AbiLayouts.total AbiLayouts.vmcbSeg = AbiLayouts.sizeofVmcbSeg ∧ AbiSizes.SizeofVmcbSeg = AbiLayouts.sizeofVmcbSeg ∧
    vmcbSegRec.ws = AbiLayouts.widths AbiLayouts.vmcbSeg := by decide

/-- a selector or attribute that does not fit 16 bits is refused -/
theorem C18_VmcbSeg_strict_range (s : VmcbSeg) (data : Bytes) (ht : s.TypeOK) (h : ¬ s.InRange) :
    (putVmcbSeg s data).isOk = false := by
  simp only [putVmcbSeg]
  by_cases h1 : data.length < vmcbSegRec.size
  · rw [if_pos h1]; rfl
  · rw [if_neg h1]
    by_cases h2 : s.selector ≥ 2 ^ 16
    · rw [if_pos h2]; rfl
    · rw [if_neg h2]
      by_cases h3 : s.attrib ≥ 2 ^ 16
      · rw [if_pos h3]; rfl
      · exfalso; apply h; exact ⟨by omega, by omega, ht.2.2.1, ht.2.2.2⟩

example : (⟨0xf000, 0x9b, 0xffff, 0xffff0000⟩ : VmcbSeg).InRange := by decide
example : (putVmcbSeg ⟨0x10000, 0, 0, 0⟩ (zeros 16)).isOk = false := by decide

/-! ## PI hand-off blocks -/

theorem C18_HobHeader_roundtrip (h : HobHeader) (t : Bytes) (hr : h.InRange) : hobHeaderDec (hobHeaderWriteTo h ++ t) = .ok h :=
  Rec.dec_enc hobHeaderLaws .errShort h hr t (by intro h; cases h)

theorem C18_HobHeader_size (h : HobHeader) : (hobHeaderWriteTo h).length = AbiSizes.SizeofHOBGenericHeader := Rec.enc_length _ _

theorem C18_HobHeader_layout :
    AbiSizes.HobHeaderWriteToLayout = AbiLayouts.hobHeader ∧ AbiLayouts.contiguous AbiLayouts.hobHeader = true ∧
    AbiLayouts.total AbiLayouts.hobHeader = AbiLayouts.sizeofHobHeader ∧ AbiSizes.SizeofHOBGenericHeader = AbiLayouts.sizeofHobHeader ∧
    hobHeaderRec.ws = AbiLayouts.widths AbiLayouts.hobHeader ∧
    AbiSizes.EFIHOBTypeHandoff = AbiLayouts.hobTypeHandoff ∧ AbiSizes.EFIHOBTypeResourceDescriptor = AbiLayouts.hobTypeResourceDescriptor ∧
    AbiSizes.EFIHOBTypeGUIDExtension = AbiLayouts.hobTypeGuidExtension ∧ AbiSizes.EFIHOBTypeEndOfHOBList = AbiLayouts.hobTypeEndOfHobList ∧
    AbiSizes.EFIHOBHandoffTableVersion = AbiLayouts.hobHandoffTableVersion := by decide

theorem C18_HobHeader_strict_reserved (b : Bytes) (h : hobHeaderRec.valid (decF hobHeaderRec.ws b) = false) :
    (hobHeaderDec b).isOk = false := Rec.dec_reserved hobHeaderRec .errShort b h

theorem C18_HobHeader_short (b : Bytes) (h : b.length < AbiSizes.SizeofHOBGenericHeader) : (hobHeaderDec b).isOk = false :=
  Rec.dec_short hobHeaderRec .errShort b h

theorem C18_HobHeader_canon (b : Bytes) (h : HobHeader) (hd : hobHeaderDec b = .ok h) :
    hobHeaderWriteTo h = b.take AbiSizes.SizeofHOBGenericHeader ∧ h.InRange := by
  have := Rec.dec_canon hobHeaderLaws .errShort b h hd
  exact ⟨this.1, this.2.1⟩

example : (⟨0xFFFF, 8⟩ : HobHeader).InRange := by decide
example : (hobHeaderDec [4, 0, 32, 0, 0, 0, 1, 0]).isOk = false := by decide

theorem C18_Handoff_roundtrip (t : HandoffInfoTable) (tl : Bytes) (h : t.InRange) : handoffDec (handoffWriteTo t ++ tl) = .ok t :=
  Rec.dec_enc handoffLaws .errShort t h tl (by intro h; cases h)

theorem C18_Handoff_size (t : HandoffInfoTable) : (handoffWriteTo t).length = AbiSizes.SizeOfEFIHOBHandoffInfoTable :=
  Rec.enc_length _ _

theorem C18_Handoff_layout :
    AbiSizes.HandoffWriteToLayout = AbiLayouts.handoff ∧ AbiLayouts.contiguous AbiLayouts.handoff = true ∧
    AbiLayouts.total AbiLayouts.handoff = AbiLayouts.sizeofHandoff ∧ AbiSizes.SizeOfEFIHOBHandoffInfoTable = AbiLayouts.sizeofHandoff ∧
    handoffRec.ws = hobHeaderRec.ws ++ (AbiLayouts.widths AbiLayouts.handoff).drop 1 ∧
    (AbiLayouts.widths AbiLayouts.handoff).take 1 = [hobHeaderRec.ws.sum] := by decide

theorem C18_Handoff_strict_reserved (b : Bytes) (h : handoffRec.valid (decF handoffRec.ws b) = false) :
    (handoffDec b).isOk = false := Rec.dec_reserved handoffRec .errShort b h

theorem C18_Handoff_short (b : Bytes) (h : b.length < AbiSizes.SizeOfEFIHOBHandoffInfoTable) : (handoffDec b).isOk = false :=
  Rec.dec_short handoffRec .errShort b h

theorem C18_Handoff_canon (b : Bytes) (t : HandoffInfoTable) (hd : handoffDec b = .ok t) :
    handoffWriteTo t = b.take AbiSizes.SizeOfEFIHOBHandoffInfoTable ∧ t.InRange := by
  have := Rec.dec_canon handoffLaws .errShort b t hd
  exact ⟨this.1, this.2.1⟩

example : (⟨⟨1, 56⟩, 9, 0, 0x80000000, 0x809000, 0x80000000, 0x80b000, 0x809100⟩ : HandoffInfoTable).InRange := by decide

theorem C18_Resource_roundtrip (d : ResourceDescriptor) (t : Bytes) (h : d.InRange) : resourceDec (resourceWriteTo d ++ t) = .ok d :=
  Rec.dec_enc resourceLaws .errShort d h t (by intro h; cases h)

theorem C18_Resource_size (d : ResourceDescriptor) : (resourceWriteTo d).length = AbiSizes.SizeofEFIHOBResourceDescriptor :=
  Rec.enc_length _ _

theorem C18_Resource_layout :
    AbiSizes.ResourceWriteToLayout = AbiLayouts.resource ∧ AbiLayouts.contiguous AbiLayouts.resource = true ∧
    AbiLayouts.total AbiLayouts.resource = AbiLayouts.sizeofResource ∧
    AbiSizes.SizeofEFIHOBResourceDescriptor = AbiLayouts.sizeofResource ∧
    resourceRec.ws = hobHeaderRec.ws ++ efiGuidRec.ws ++ (AbiLayouts.widths AbiLayouts.resource).drop 2 ∧
    (AbiLayouts.widths AbiLayouts.resource).take 2 = [hobHeaderRec.ws.sum, efiGuidRec.ws.sum] := by decide

theorem C18_Resource_strict_reserved (b : Bytes) (h : resourceRec.valid (decF resourceRec.ws b) = false) :
    (resourceDec b).isOk = false := Rec.dec_reserved resourceRec .errShort b h

theorem C18_Resource_short (b : Bytes) (h : b.length < AbiSizes.SizeofEFIHOBResourceDescriptor) : (resourceDec b).isOk = false :=
  Rec.dec_short resourceRec .errShort b h

theorem C18_Resource_canon (b : Bytes) (d : ResourceDescriptor) (hd : resourceDec b = .ok d) :
    resourceWriteTo d = b.take AbiSizes.SizeofEFIHOBResourceDescriptor ∧ d.InRange := by
  have := Rec.dec_canon resourceLaws .errShort b d hd
  exact ⟨this.1, this.2.1⟩

example : (⟨⟨3, 48⟩, ⟨0, 0, 0, zeros 8⟩, 7, 0x10000003, 0xffe00000, 0x200000⟩ : ResourceDescriptor).InRange := by decide

/-- WriteTo of an in-range GUID HOB succeeds and a PI-spec reader gets the HOB (and the rest) back -/
theorem C18_GuidHob_roundtrip (h : GuidHob) (t : Bytes) (hr : h.InRange) :
    ∃ bs, guidHobWriteTo h = .ok bs ∧ guidHobDec (bs ++ t) = .ok (h, t) :=
  ⟨_, guidHobWriteTo_ok h hr, guidHob_roundtrip h t hr⟩

/-- the bytes written are HobLength = 24 + len(Data) bytes -/
theorem C18_GuidHob_size (h : GuidHob) (bs : Bytes) (hw : guidHobWriteTo h = .ok bs) :
    bs.length = h.header.hobLength ∧ bs.length = AbiSizes.SizeofHOBGUID + h.data.length := by
  obtain ⟨h1, _, h3⟩ := guidHobWriteTo_length h bs hw
  exact ⟨h1, by rw [h1, h3]; rfl⟩

theorem C18_GuidHob_layout :
    AbiSizes.GuidHobWriteToLayout = AbiLayouts.guidHob ∧ AbiLayouts.contiguous AbiLayouts.guidHob = true ∧
    AbiLayouts.total AbiLayouts.guidHob = AbiLayouts.sizeofHobGuid ∧ AbiSizes.SizeofHOBGUID = AbiLayouts.sizeofHobGuid ∧
    AbiSizes.MaxGUIDHOBDataSize = AbiLayouts.maxGuidHobDataSize ∧ maxGuidHobDataSize = AbiSizes.MaxGUIDHOBDataSize ∧
    (AbiLayouts.widths AbiLayouts.guidHob).take 2 = [hobHeaderRec.ws.sum, efiGuidRec.ws.sum] := by decide

/-- a wrong HOB type, or a HobLength that is not 24 + len(Data), is refused by WriteTo -/
theorem C18_GuidHob_strict_header (h : GuidHob)
    (hn : ¬ (h.header.hobType = AbiSizes.EFIHOBTypeGUIDExtension ∧ h.header.hobLength = AbiSizes.SizeofHOBGUID + h.data.length)) :
    (guidHobWriteTo h).isOk = false := guidHobWriteTo_strict h hn

/-- CreateEFIHOBGUID: the HOB is accepted by WriteTo, its length is a multiple of 8 that fits 16 bits,
    and its data is the caller's data followed by fewer than 8 zero bytes -/
theorem C18_GuidHob_create (u d : Bytes) (h : GuidHob) (hu : u.length = 16) (hc : createEFIHOBGUID u d = .ok h) :
    h.InRange ∧ h.header.hobLength % 8 = 0 ∧ h.data = d ++ zeros (h.data.length - d.length) ∧
    h.data.length - d.length < 8 ∧ d.length ≤ h.data.length := createGuidHob_ok u d h hu hc

/-- CreateEFIHOBGUID refuses exactly the data whose padded size exceeds MaxGUIDHOBDataSize -/
theorem C18_GuidHob_strict_create (u d : Bytes) :
    ((d.length + 7) / 8 * 8 > AbiSizes.MaxGUIDHOBDataSize → createEFIHOBGUID u d = .err "long") ∧
    ((d.length + 7) / 8 * 8 ≤ AbiSizes.MaxGUIDHOBDataSize → (createEFIHOBGUID u d).isOk = true) :=
  ⟨createGuidHob_long u d, createGuidHob_fits u d⟩

/-- what the reader accepts is what WriteTo writes: nothing is completed or dropped -/
theorem C18_GuidHob_canon (b rest : Bytes) (h : GuidHob) (hd : guidHobDec b = .ok (h, rest)) :
    h.InRange ∧ ∃ bs, guidHobWriteTo h = .ok bs ∧ b = bs ++ rest := by
  obtain ⟨h1, h2⟩ := guidHob_canon b rest h hd
  exact ⟨h1, _, guidHobWriteTo_ok h h1, h2⟩

theorem C18_GuidHob_short (b : Bytes) (h : b.length < AbiSizes.SizeofHOBGenericHeader) : (guidHobDec b).isOk = false := by
  have : hobHeaderDec b = .err "short" := by
    simp only [hobHeaderDec, Rec.dec]; rw [if_pos (show b.length < hobHeaderRec.size from h)]
  simp only [guidHobDec, this]; rfl

example : (⟨⟨4, 32⟩, ⟨0xe2c3bc69, 0x615c, 0x4b5b, [0x8e, 0x5c, 0xa0, 0x33, 0xa9, 0xc2, 0x5e, 0xd6]⟩, [0x66, 0x6f, 0x6f, 0, 0, 0, 0, 0]⟩ : GuidHob).InRange := by
  decide
example : (createEFIHOBGUID (zeros 16) [0x66, 0x6f, 0x6f]).isOk = true := by decide

/-! ## size-prefixed strings and arrays -/

/-- full canonicity of the size-prefixed array reader (prefix width `w` bytes) -/
def SizedArrayCanon (cfg : Cfg) (w : Nat) : Prop :=
  ∀ b d rest, readSizedArray cfg w b = .ok d rest → b = leBytes w d.length ++ d ++ rest

theorem C18_SizedArray_roundtrip (cfg : Cfg) (w : Nat) (d t : Bytes) (h : d.length < 256 ^ w)
    (he : cfg.strict = true ∨ cfg.kind = .buffer ∨ d ++ t ≠ []) :
    ∃ bs, writeSizedArray w d = some bs ∧ bs.length = w + d.length ∧ readSizedArray cfg w (bs ++ t) = .ok d t := by
  refine ⟨_, writeSizedArray_eq w d h, by simp [encSized], readSizedArray_enc cfg w d t h he⟩

/-- with the repaired readers (`strictShortRead = true`) the full statement holds -/
theorem C18_SizedArray_canon (cfg : Cfg) (w : Nat) (hs : cfg.strict = true) : SizedArrayCanon cfg w := by
  intro b d rest h
  exact (readSizedArray_canon hs h).1

/-- D4/D11a: the original reader ignores the count returned by `r.Read`: the 6-byte input
    `05 00 00 00 01 02` is accepted as the 5-byte array `01 02 00 00 00` -/
theorem C18_finding_short_read (k : RKind) : ¬ SizedArrayCanon ⟨false, k⟩ 4 := by
  intro h
  have := h [5, 0, 0, 0, 1, 2] [1, 2, 0, 0, 0] [] (by cases k <;> decide)
  revert this; decide

/-- the original reader is canonical on inputs that are long enough for their declared size -/
theorem C18_SizedArray_canon_partial (cfg : Cfg) (w : Nat) (b d rest : Bytes) (hl : leVal (b.take w) ≤ b.length - w)
    (h : readSizedArray cfg w b = .ok d rest) : b = leBytes w d.length ++ d ++ rest :=
  (readSizedArray_canon_long hl h).1

/-- repaired readers: a declared size that exceeds what remains is refused -/
theorem C18_SizedArray_short (cfg : Cfg) (w : Nat) (b : Bytes) (hs : cfg.strict = true)
    (hl : b.length < w ∨ b.length - w < leVal (b.take w)) : (readSizedArray cfg w b).isOk = false :=
  readSizedArray_strict_short hs hl

/-- the writer refuses a length that does not fit the prefix -/
theorem C18_SizedArray_strict_length (w : Nat) (d : Bytes) (h : ¬ d.length < 256 ^ w) : writeSizedArray w d = none :=
  writeSizedArray_long w d h

/-- original readers over a bytes.Reader: an empty array at the very end of the input — a valid
    encoding — is rejected, because a zero-length Read at end of input returns io.EOF -/
theorem C18_finding_empty_at_eof :
    writeSizedArray 4 [] = some [0, 0, 0, 0] ∧ readSizedArray ⟨false, .reader⟩ 4 [0, 0, 0, 0] = .eof ∧
    readSizedArray ⟨false, .buffer⟩ 4 [0, 0, 0, 0] = .ok [] [] ∧
    (∀ k, readSizedArray ⟨true, k⟩ 4 [0, 0, 0, 0] = .ok [] []) := by
  refine ⟨by decide, by decide, by decide, ?_⟩
  intro k; cases k <;> decide

example : readSizedArray ⟨true, .reader⟩ 4 [5, 0, 0, 0, 1, 2] = .fail := by decide
example : readSizedArray ⟨true, .reader⟩ 4 [2, 0, 0, 0, 1, 2, 9] = .ok [1, 2] [9] := by decide

theorem C18_CStr_roundtrip (cfg : Cfg) (s t : Bytes) (h : s.length ≤ 254) :
    ∃ bs, writeCStr s = some bs ∧ bs.length = s.length + 2 ∧ readCStr cfg (bs ++ t) = .ok s t :=
  ⟨_, writeCStr_eq s h, by simp [encCStr]; omega, readCStr_enc cfg s t h⟩

theorem C18_CStr_canon (cfg : Cfg) (hs : cfg.strict = true) (b s rest : Bytes) (h : readCStr cfg b = .ok s rest) :
    ∃ bs, writeCStr s = some bs ∧ b = bs ++ rest := by
  obtain ⟨h1, h2⟩ := readCStr_canon hs h
  exact ⟨_, writeCStr_eq s h2, h1⟩

/-- a string longer than 254 bytes (255 with the terminator) is refused by Marshal -/
theorem C18_CStr_strict_length (s : Bytes) (h : 254 < s.length) : writeCStr s = none := writeCStr_long s h

/-- a body that does not end in the zero terminator is refused -/
theorem C18_CStr_strict_terminator (cfg : Cfg) (data t : Bytes) (h : data.length < 256) (hne : data ≠ [])
    (hl : data.getLast? ≠ some 0) : readCStr cfg (leBytes 1 data.length ++ data ++ t) = .fail :=
  readCStr_strict_terminator cfg data t h hne hl

example : readCStr ⟨true, .buffer⟩ [4, 0x66, 0x6f, 0x6f, 0, 7] = .ok [0x66, 0x6f, 0x6f] [7] := by decide
example : readCStr ⟨false, .buffer⟩ [5, 0x61, 0x62] = .ok [0x61, 0x62, 0, 0] [] := by decide
example : readCStr ⟨true, .buffer⟩ [5, 0x61, 0x62] = .fail := by decide

/-! ## tagged digests -/

theorem C18_Digest_roundtrip (d : Digest) (t : Bytes) (h : d.InRange) :
    ∃ bs, writeDigest d = some bs ∧ readDigest (bs ++ t) = .ok d t :=
  ⟨_, writeDigest_eq d h, readDigest_enc d t h⟩

/-- the encoding is the 2-byte algorithm id followed by a digest of the algorithm's size -/
theorem C18_Digest_size (d : Digest) (bs : Bytes) (sz : Nat) (ha : tpmAlgoSize d.alg = some sz) (h : writeDigest d = some bs) :
    bs.length = 2 + sz := by
  simp only [writeDigest, ha] at h
  by_cases hl : d.digest.length = sz
  · rw [if_pos hl] at h; injection h with h; subst h; simp [hl]
  · rw [if_neg hl] at h; cases h

theorem C18_Digest_layout :
    AbiSizes.tpmAlgoSize = AbiLayouts.tpmAlgoSize ∧
    (∀ p ∈ AbiLayouts.tpmAlgoSize, tpmAlgoSize p.1 = some p.2) ∧
    AbiSizes.DigestReadOrder = AbiLayouts.digestOrder ∧ AbiSizes.DigestWriteOrder = AbiLayouts.digestOrder := by decide

/-- the model's digest-size function IS the regenerated map: the same size for every listed algorithm id and
    `none` for every other id (C18_Digest_layout alone would admit a model that knows more algorithms) -/
theorem C18_Digest_table_exact (alg : Nat) : tpmAlgoSize alg = AbiSizes.tpmAlgoSize.lookup alg := by
  simp only [tpmAlgoSize, AbiSizes.tpmAlgoSize, List.lookup]
  by_cases h4 : alg = 4
  · subst h4; rfl
  · by_cases h11 : alg = 11
    · subst h11; rfl
    · by_cases h12 : alg = 12
      · subst h12; rfl
      · have e4 : (alg == 4) = false := by simpa using h4
        have e11 : (alg == 11) = false := by simpa using h11
        have e12 : (alg == 12) = false := by simpa using h12
        simp [h4, h11, h12, e4, e11, e12]

/-- the widths of the size prefixes / counts the readers of Model/EventLog.lean use (`readSizedArray cfg 1` in
    readCStr, `readSizedArray cfg 4` in readU32Array, `readLE 4` in readDigestArray and readEventData) are the
    widths of the `size` locals of the Go readers, regenerated from their static types -/
theorem C18_SizePrefix_widths :
    Gen.EvlConsts.sizePrefixWidths =
      [("eventlog.TCGEventData.Unmarshal", 4), ("eventlog.ByteSizedCStr.Unmarshal", 1),
       ("eventlog.Uint32SizedArray.Unmarshal", 4), ("eventlog.Uint32SizedArrayT.Unmarshal", 4)] := by decide

/-- an unknown algorithm, or a digest whose length is not the algorithm's, is refused by Marshal -/
theorem C18_Digest_strict_write (d : Digest) (h : ¬ d.InRange) : writeDigest d = none := writeDigest_strict d h

/-- an unknown algorithm id is refused by Unmarshal -/
theorem C18_Digest_strict_alg (b : Bytes) (h : b.length ≥ 2) (hu : tpmAlgoSize (leVal (b.take 2)) = none) :
    readDigest b = .fail := readDigest_unknown_alg b h hu

theorem C18_Digest_canon (b rest : Bytes) (d : Digest) (h : readDigest b = .ok d rest) :
    ∃ bs, writeDigest d = some bs ∧ b = bs ++ rest := by
  obtain ⟨h1, h2⟩ := readDigest_canon h
  exact ⟨_, writeDigest_eq d h2, h1⟩

example : (⟨4, zeros 20⟩ : Digest).InRange := by decide
example : readDigest ([4, 0] ++ zeros 19) = .fail := by decide
example : readDigest ([0xde, 0xc0] ++ zeros 48) = .fail := by decide

/-! ## SP800-155 Event3 -/

theorem C18_Event3_roundtrip (strict : Bool) (e : Event3) (k : Nat) (h : e.InRange)
    (hl : 16 + (encEvent3Fields e).length ≤ AbiSizes.MaxGUIDHOBDataSize) :
    ∃ f, marshalEvent3 e = some (event3Signature ++ f) ∧ unmarshalEvent3 strict (f ++ zeros k) = .ok e [] := by
  refine ⟨encEvent3Fields e, ?_, unmarshalEvent3_enc strict e k h⟩
  simp only [marshalEvent3, writeEvent3Fields_eq e h]
  rw [if_neg]
  have : maxGuidHobDataSize = AbiSizes.MaxGUIDHOBDataSize := rfl
  simp only [List.length_append, sig_length]; omega

theorem C18_Event3_layout :
    AbiSizes.Event3ReadOrder = AbiLayouts.event3Order ∧ AbiSizes.Event3WriteOrder = AbiLayouts.event3Order ∧
    AbiSizes.TcgSP800155Event3Signature = AbiLayouts.event3Signature ∧
    event3Signature.map UInt8.toNat = AbiLayouts.event3Signature ∧ AbiSizes.EventSignatureSize = event3Signature.length := by
  decide

/-- the documented tolerance, exactly: after the twelve fields any number of ZERO bytes may follow;
    with the repaired readers an accepted payload is the fields' encoding followed by zeros only -/
theorem C18_Event3_canon (data r : Bytes) (e : Event3) (h : unmarshalEvent3 true data = .ok e r) :
    e.InRange ∧ ∃ f k, writeEvent3Fields e = some f ∧ data = f ++ zeros k := by
  obtain ⟨_, h2, k, h3⟩ := unmarshalEvent3_canon h
  exact ⟨h2, _, k, writeEvent3Fields_eq e h2, h3⟩

/-- a non-zero byte after the fields is refused -/
theorem C18_Event3_strict_padding (strict : Bool) (e : Event3) (pad : Bytes) (h : e.InRange) (hp : allZero pad = false) :
    unmarshalEvent3 strict (encEvent3Fields e ++ pad) = .fail := unmarshalEvent3_strict_padding strict e pad h hp

/-- an event that would not fit a GUID HOB is refused by MarshalToBytes -/
theorem C18_Event3_strict_size (e : Event3) (h : e.InRange)
    (hl : 16 + (encEvent3Fields e).length > AbiSizes.MaxGUIDHOBDataSize) : marshalEvent3 e = none := by
  simp only [marshalEvent3, writeEvent3Fields_eq e h]
  rw [if_pos]
  have : maxGuidHobDataSize = AbiSizes.MaxGUIDHOBDataSize := rfl
  simp only [List.length_append, sig_length]; omega

def sampleEvent3 : Event3 :=
  ⟨0x2b03, zeros 16, [0x47], [0x47, 0x43, 0x45], [], [0x47], 11129, [0x31], 1, [0x68, 0x74, 0x74, 0x70], 0, []⟩
example : sampleEvent3.InRange := by decide
example : unmarshalEvent3 true (encEvent3Fields sampleEvent3 ++ zeros 5) = .ok sampleEvent3 [] := by decide
example : unmarshalEvent3 true (encEvent3Fields sampleEvent3 ++ [0, 1]) = .fail := by decide

/-! ## TCG_PCClientPCREvent, TCG_PCR_EVENT2 -/

theorem C18_PcrEvent_roundtrip (cfg : Cfg) (g : cfg.strict = true ∨ cfg.kind = .buffer) (e : PcrEvent) (t : Bytes) (h : e.InRange) :
    ∃ bs, writePcrEvent e = some bs ∧ readPcrEvent cfg (bs ++ t) = .ok e t :=
  ⟨_, writePcrEvent_eq e h, readPcrEvent_enc cfg e 0 t g h.pad⟩

theorem C18_PcrEvent_layout :
    AbiSizes.PcrEventReadOrder = AbiLayouts.pcrEventOrder ∧ AbiSizes.PcrEventWriteOrder = AbiLayouts.pcrEventOrder := by decide

/-- repaired readers: an accepted event is the encoding of the value, up to zero padding inside an
    SP800-155 payload (`k` bytes, counted by the size prefix) -/
theorem C18_PcrEvent_canon (cfg : Cfg) (hs : cfg.strict = true) (b rest : Bytes) (e : PcrEvent)
    (h : readPcrEvent cfg b = .ok e rest) : ∃ k, b = encPcrEventPad e k ++ rest ∧ e.InRangePad k :=
  readPcrEvent_canon hs h

theorem C18_PcrEvent_short (cfg : Cfg) (b : Bytes) (h : b.length < 32) : (readPcrEvent cfg b).isOk = false := by
  cases hr : readPcrEvent cfg b with
  | eof => rfl
  | fail => rfl
  | ok e rest =>
    exfalso
    simp only [readPcrEvent] at hr
    obtain ⟨v1, b1, r1, hr⟩ := andThen_ok_inv hr
    obtain ⟨v2, b2, r2, hr⟩ := andThen_ok_inv hr
    obtain ⟨v3, b3, r3, hr⟩ := andThen_ok_inv hr
    obtain ⟨v4, b4, r4, hr⟩ := andThen_ok_inv hr
    obtain ⟨sz, c1, c2, _⟩ := andThen_ok_inv r4
    obtain ⟨q1, _⟩ := readLE_ok_inv r1
    obtain ⟨q2, _⟩ := readLE_ok_inv r2
    obtain ⟨q3, p3⟩ := readFull_ok_inv r3
    obtain ⟨q4, _⟩ := readLE_ok_inv c2
    rw [q1, q2, q3, q4] at h
    simp only [List.length_append, leBytes_length, p3] at h
    omega

theorem C18_Event2_roundtrip (cfg : Cfg) (g : cfg.strict = true ∨ cfg.kind = .buffer) (e : Event2) (t : Bytes) (h : e.InRange) :
    ∃ bs, writeEvent2 e = some bs ∧ readEvent2 cfg (bs ++ t) = .ok e t :=
  ⟨_, writeEvent2_eq e h, readEvent2_enc cfg e 0 t g h.pad⟩

theorem C18_Event2_layout :
    AbiSizes.Event2ReadOrder = AbiLayouts.event2Order ∧ AbiSizes.Event2WriteOrder = AbiLayouts.event2Order := by decide

theorem C18_Event2_canon (cfg : Cfg) (hs : cfg.strict = true) (b rest : Bytes) (e : Event2)
    (h : readEvent2 cfg b = .ok e rest) : ∃ k, b = encEvent2Pad e k ++ rest ∧ e.InRangePad k :=
  readEvent2_canon hs h

/-- a digest that Marshal would refuse makes the whole event unencodable -/
theorem C18_Event2_strict_digest (e : Event2) (h : ¬ ∀ d ∈ e.digests, d.InRange) : writeEvent2 e = none := by
  simp only [writeEvent2, writeDigestArray, writeDigests_strict e.digests h, optAppend]

/-- original readers over a bytes.Reader: a valid event whose event data is empty, at the end of the
    input, is rejected (zero-length Read at end of input → io.EOF) -/
theorem C18_finding_empty_event_data :
    writeEvent2 ⟨1, 2, [], .raw []⟩ = some [1, 0, 0, 0, 2, 0, 0, 0, 0, 0, 0, 0, 0, 0, 0, 0] ∧
    readEvent2 ⟨false, .reader⟩ [1, 0, 0, 0, 2, 0, 0, 0, 0, 0, 0, 0, 0, 0, 0, 0] = .eof ∧
    readEvent2 ⟨true, .reader⟩ [1, 0, 0, 0, 2, 0, 0, 0, 0, 0, 0, 0, 0, 0, 0, 0] = .ok ⟨1, 2, [], .raw []⟩ [] := by
  decide

example : (⟨2, 5, zeros 20, .raw [0x66, 0x6f, 0x6f]⟩ : PcrEvent).InRange := by
  refine ⟨by decide, by decide, by decide, by decide, ?_⟩
  intro h; exact absurd h.1 (by decide)
example : (⟨3, 7, [⟨4, zeros 20⟩, ⟨11, zeros 32⟩], .event3 sampleEvent3⟩ : Event2).InRange := by
  refine ⟨by decide, by decide, by decide, ?_, by decide, by decide⟩
  intro d hd
  simp only [List.mem_cons, List.not_mem_nil, or_false] at hd
  rcases hd with h | h <;> subst h <;> decide

/-! ## crypto-agile log -/

/-- full canonicity of the log reader: an accepted input is an encoding of the returned log (up to
    Event3 zero padding) — nothing dropped, nothing completed -/
def LogCanon (cfg : Cfg) : Prop := ∀ b l r, readLog cfg b = .ok l r → LogEnc l b

theorem C18_Log_roundtrip (cfg : Cfg) (g : cfg.strict = true ∨ cfg.kind = .buffer) (l : Log) (h : l.InRange) :
    ∃ bs, writeLog l = some bs ∧ readLog cfg bs = .ok l [] :=
  ⟨_, writeLog_eq l h, readLog_enc cfg g l h⟩

/-- the repaired code (`strictShortRead = true`): the full statement holds — the log ends only where
    no byte of a further event remains, so nothing is dropped and nothing is completed -/
theorem C18_Log_canon (cfg : Cfg) (hs : cfg.strict = true) : LogCanon cfg := by
  intro b l r h
  exact readLog_canon hs h

/-- The ORIGINAL log reader took ANY error that wraps io.EOF as the end of the log, for every reader
    kind: the header event followed by the four bytes `01 00 00 00` — an event cut right after its PCR
    index — was accepted as a log with no events. (Repaired by bff5b71; `C18_Log_truncated_refused`.) -/
theorem C18_finding_log_truncated (k : RKind) : ¬ LogCanon ⟨false, k⟩ := by
  intro h
  have hb : readLog ⟨false, k⟩ ([0, 0, 0, 0, 3, 0, 0, 0] ++ zeros 20 ++ [1, 0, 0, 0, 0x61] ++ [1, 0, 0, 0]) =
      .ok ⟨⟨0, 3, zeros 20, .raw [0x61]⟩, []⟩ [] := by
    cases k <;> decide
  obtain ⟨k, tl, h1, _, h3⟩ := h _ _ _ hb
  simp only [EventsEnc] at h3
  subst h3
  have := congrArg List.length h1
  simp [encPcrEventPad, encEventDataPad, zeros] at this

/-- repaired code: that same truncated log is refused, over every reader kind -/
theorem C18_Log_truncated_refused (k : RKind) :
    readLog ⟨true, k⟩ ([0, 0, 0, 0, 3, 0, 0, 0] ++ zeros 20 ++ [1, 0, 0, 0, 0x61] ++ [1, 0, 0, 0]) = .fail := by
  cases k <;> decide

/-- repaired code: the decoded log does not depend on the kind of reader (no zero-length Read is issued) -/
theorem C18_Log_reader_independent (k k' : RKind) (b : Bytes) : readLog ⟨true, k⟩ b = readLog ⟨true, k'⟩ b :=
  readLog_kind_irrelevant k k' b

/-- a truncated header event is never accepted -/
theorem C18_Log_short (cfg : Cfg) (b : Bytes) (h : b.length < 32) : (readLog cfg b).isOk = false := by
  have := C18_PcrEvent_short cfg b h
  simp only [readLog]
  cases hr : readPcrEvent cfg b with
  | eof => rfl
  | fail => rfl
  | ok e rest => rw [hr] at this; cases this

example : readLog ⟨true, .reader⟩ ([0, 0, 0, 0, 3, 0, 0, 0] ++ zeros 20 ++ [0, 0, 0, 0] ++
    [1, 0, 0, 0, 2, 0, 0, 0, 1, 0, 0, 0, 4, 0] ++ zeros 20 ++ [2, 0, 0, 0, 7, 8]) =
    .ok ⟨⟨0, 3, zeros 20, .raw []⟩, [⟨1, 2, [⟨4, zeros 20⟩], .raw [7, 8]⟩]⟩ [] := by decide

end GceTcb.C18
