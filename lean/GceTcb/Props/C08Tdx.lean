import GceTcb.Model.Mrtd
import GceTcb.Gen.PanicSitesTdx
import GceTcb.Gen.TdxConsts
import GceTcb.Proofs.TdxNoPanic
import GceTcb.Proofs.TdxTicks
import GceTcb.Proofs.TdxShapes
import GceTcb.Proofs.TdxCompose
import GceTcb.Proofs.TdxHob
import GceTcb.Proofs.TdxUnsigned
import GceTcb.Proofs.TdxGlue
import GceTcb.Proofs.TdxIndexLimit
/-
C08 (TDX half) — firmware analysis is total and resource-bounded on arbitrary images:
tdx.MRTD, tdx.UnsignedTDX, ovmf.ExtractMaterialGuestPhysicalRegions*, TDX metadata extraction.
Quantifiers: every byte string `fw` (as `List UInt8`), every option combination, every bank list
(`Nat` fields read as uint64, wrap-around included).  The one size hypothesis `fw.length < 2^36`
(64 GiB) of the no-panic theorems is where the code stores the TD HOB section index in an int32;
`C08_parse_panics_exactly` says precisely which images beyond that bound panic.
-/
namespace GceTcb.Props.C08Tdx
open GceTcb GceTcb.Intervals GceTcb.TdxMeta GceTcb.TdxHob GceTcb.Mrtd

/-! ## inventory of panic-capable expressions -/

/-- The model's list of panic-capable expressions (with how each is treated) is exactly the inventory
    regenerated from the Go source: a new index / slice / make / conversion / Grow expression in any of
    the listed functions breaks this obligation. -/
theorem C08_sites : Mrtd.siteKeys = Gen.PanicSitesTdx.sites := by decide

/-- The GUID and magic constants of the model are the ones in the source. -/
theorem C08_guid_constants :
    Gen.TdxConsts.TDXMetadataOffsetGUID = "e47a6535-984a-4798-865e-4685a7bf8ec2" ∧
    Gen.TdxConsts.TDXMetadataGUID = "e9eaf9f3-168e-44d5-a8eb-7f4d8738f6ae" ∧
    Gen.TdxConsts.FwGUIDTableFooterGUID = "96b582de-1fb2-45f7-baea-a366c55a082d" ∧
    Gen.TdxConsts.TDXMetadataDescriptorMagic = TdxMeta.tdvfMagic ∧
    Gen.TdxConsts.maxTDVFInitialMemory = TdxMeta.maxInitialMemory ∧
    Gen.TdxConsts.maxTDVFPhysicalAddressBits = TdxMeta.maxPhysBits ∧
    Gen.TdxConsts.SizeofFwGUIDEntry = 18 ∧ Gen.TdxConsts.FwGUIDTableEndOffset = 32 ∧
    Gen.TdxConsts.SizeofTDXMetadataDescriptor = 16 ∧ Gen.TdxConsts.SizeofTDXMetdataSection = 32 := by
  decide

/-- The GUID bytes the models compare against are the regenerated GUID texts (uuid.MustParse of the
    constants; `uuidOfString` is kernel-evaluable), including the footer GUID of the shared GUID-table
    model. -/
theorem C08_guid_bytes :
    TdxMeta.tdxOffsetUuid = uuidOfString Gen.TdxConsts.TDXMetadataOffsetGUID ∧
    TdxMeta.tdxMetadataUuid = uuidOfString Gen.TdxConsts.TDXMetadataGUID ∧
    GuidTable.footerGuid = uuidOfString Gen.TdxConsts.FwGUIDTableFooterGUID := by
  decide

/-! ## no panic -/

/-- TDX metadata extraction (the shared GUID-table walk of Model/GuidTable.lean, offset arithmetic in
    uint32, descriptor and section decoding, validation) never panics — no size hypothesis. -/
theorem C08_no_panic_extract_metadata (fw : Bytes) : ¬ (extractTDXMetadata fw).isPanic :=
  extract_no_panic fw

/-- ovmf.ExtractMaterialGuestPhysicalRegions (default), …TDHOBBug, …NoUnacceptedMemory. -/
theorem C08_no_panic_extract_regions (fw : Bytes) (banks : List Gpr) (hfw : fw.length < 2 ^ 36) :
    ¬ (extractDefault fw).isPanic ∧ ¬ (extractTDHOBBug fw banks).isPanic ∧
    ¬ (extractNoUnacceptedMemory fw banks).isPanic :=
  ⟨parse_no_panic _ fw _ hfw, parse_no_panic _ fw _ hfw, parse_no_panic _ fw _ hfw⟩

/-- EXACTLY when tdxFwParser.parse (all three ExtractMaterialGuestPhysicalRegions* entry points) panics,
    with no hypothesis on the image: the metadata passes validation, its sections are pairwise
    disjoint, and 2^31 or more section entries precede the TD_HOB section — `int32(index)` is then
    negative and `p.Regions[tdHOBregionIndex.Value]` is out of range.  With 32 bytes per entry such
    an image has at least 64 GiB (`C08_validated_sections`), hence the hypothesis of the theorems above
    and below; the conversion is modelled exactly (`% 2^32 ≥ 2^31`), and SectionCount being a uint32
    rules out an index that wraps back into range. -/
theorem C08_parse_panics_exactly (o : ParserOpts) (fw : Bytes) (banks : List Gpr) :
    (parse o fw banks).isPanic = true ↔
      ∃ md, extractTDXMetadata fw = .ok md ∧ DisjointL (md.sections.map gprOf) ∧
        2 ^ 31 ≤ md.sections.findIdx isHob :=
  parse_panic_iff o fw banks

/-- … and validation does not exclude that condition: there is metadata (2^31 empty temporary-memory
    sections, then the TD_HOB section, then a 4 KiB boot firmware volume; a section count that fits the
    uint32 header field) that satisfies everything validateTDXMetadataSections checks for a 4 KiB
    firmware volume, has pairwise disjoint sections, and has its TD_HOB section at index 2^31.  So the
    size / index hypothesis of the no-panic theorems cannot be dropped; it can only fail for images of
    64 GiB or more (32 bytes per entry), which no run can present — the harness does not list it as a
    finding, the theorems state it as their one hypothesis. -/
theorem C08_index_limit_not_excluded_by_validation :
    ∃ md : Codecs.TdxMetadata, MetaValid 4096 md ∧ DisjointL (md.sections.map gprOf) ∧
      2 ^ 31 ≤ md.sections.findIdx isHob ∧ md.sections.length = md.header.sectionCount ∧
      md.header.sectionCount < 2 ^ 32 :=
  index_limit_consistent

/-- No panic under the exact condition instead of a size bound: if the TD_HOB section of the image's
    accepted metadata (if any) is among the first 2^31 entries (`IndexFits`; implied by
    `|image| < 2^36`, `C08_index_fits_of_small`), then none of the entry points panics — the three
    region extractions, tdx.MRTD (every hash, option combination, bank list) and tdx.UnsignedTDX. -/
theorem C08_no_panic_index_fits (H : Bytes → Bytes) (fw : Bytes) (hidx : IndexFits fw) :
    (∀ o banks, ¬ (parse o fw banks).isPanic) ∧ (∀ o, ¬ (mrtd H o fw).isPanic) ∧
    (∀ early names, ¬ (unsignedTDX H Gen.TdxConsts.shapes fw early names).isPanic) :=
  ⟨fun o banks => parse_no_panic_of_index o fw banks hidx, fun o => mrtd_no_panic_of_index H o fw hidx,
   fun early names => unsignedTDX_no_panic' H Gen.TdxConsts.shapes (by decide) fw
     (fun o => mrtd_no_panic_of_index H o fw hidx) early names⟩

theorem C08_index_fits_of_small (fw : Bytes) (hfw : fw.length < 2 ^ 36) : IndexFits fw :=
  indexFits_of_small fw hfw

/-- tdx.MRTD, every hash, every option combination, every bank list. -/
theorem C08_no_panic_mrtd (H : Bytes → Bytes) (o : LaunchOptions) (fw : Bytes) (hfw : fw.length < 2 ^ 36) :
    ¬ (mrtd H o fw).isPanic :=
  mrtd_no_panic H o fw hfw

/-- Every entry of the regenerated machine-shape table is well formed (in particular regionsForShape
    reaches neither `panic("bad shape constants")` nor a wrapped product on it). -/
theorem C08_shape_table_total : ∀ e ∈ Gen.TdxConsts.shapes, ShapeOK (shapeOfEntry e) := by decide

/-- tdx.UnsignedTDX (generateAllPossibleMRTDs): every hash, image, shape-name list (known or unknown
    names) and IncludeEarlyAccept value. -/
theorem C08_no_panic_unsigned_tdx (H : Bytes → Bytes) (fw : Bytes) (hfw : fw.length < 2 ^ 36) (early : Bool)
    (names : List String) : ¬ (unsignedTDX H Gen.TdxConsts.shapes fw early names).isPanic :=
  unsignedTDX_no_panic H Gen.TdxConsts.shapes C08_shape_table_total fw hfw early names

/-- The facts the repaired validation establishes for every section of accepted metadata: memory size
    at most 4 GiB, range inside the 52-bit physical address space, a supported type, and for firmware
    volumes a non-empty data range inside the file equal in size to the memory range; the declared
    sizes add up to at most 4 GiB; the section list fits the image. -/
theorem C08_validated_sections (fw : Bytes) (md : Codecs.TdxMetadata) (h : extractTDXMetadata fw = .ok md) :
    (∀ s ∈ md.sections, SecOK (fw.length % 2 ^ 32) s) ∧
    (md.sections.map (·.memorySize)).sum ≤ 4 * 1024 * 1024 * 1024 ∧ 32 * md.sections.length ≤ fw.length := by
  obtain ⟨hv, hl, _⟩ := extract_ok fw md h
  exact ⟨hv.secs, hv.total, hl⟩

/-! ## termination and iteration bounds -/

/-- ovmf.unacceptedMemRanges terminates on ALL inputs: `Intervals.inner` is the literal loop on
    wrap-around uint64 arithmetic and Lean's termination checker accepted it with the measure
    (|private| − privIndex, ramResource.Length) (`shrink_len_lt`).  Explicitly: the loop body runs at most
    2·(|private| + |banks|) times and at most that many ranges are returned — for unsorted, overlapping,
    empty and wrapping regions alike. -/
theorem C08_unaccepted_terminates (ps rs : List Gpr) :
    unacceptedTicks ps rs ≤ 2 * ps.length + 2 * rs.length ∧
    (unacceptedMemRanges ps rs).length ≤ 2 * ps.length + 2 * rs.length :=
  unaccepted_bounds ps rs

/-- the second component of the measure strictly decreases when the bank is shrunk and the loop continues -/
theorem C08_unaccepted_measure (r p : Gpr) (hr : r.len % 2 ^ 64 ≠ 0) (h0 : ¬ p.len % 2 ^ 64 = 0)
    (h1 : ¬ p.end_ ≤ r.start % 2 ^ 64) (h2 : ¬ p.start % 2 ^ 64 ≥ r.end_)
    (h3 : ¬ (shrink r (intersect r p)).len = 0) :
    (shrink r (intersect r p)).len % 2 ^ 64 < r.len % 2 ^ 64 :=
  shrink_len_lt r p hr h0 h1 h2 h3

/-- GUID-table walk (the shared model; the loop extractTDXMetadata runs first): at most |image| / 18 + 1
    iterations, the failing one included. -/
theorem C08_ticks_bound_guid_walk (fw : Bytes) : GuidTable.getFwGUIDToBlockMapTicks fw ≤ fw.length / 18 + 1 :=
  Proofs.SnpTotal.getFwGUIDToBlockMapTicks_le fw

/-- Section loop of parse, in the number n of sections (n ≤ |image| / 32): the overlap check runs at
    most n² times in total; the zero buffers requested from `make` add up to at most the memory the
    sections declare. -/
theorem C08_parse_loop_bounds (ma : Bool) (fw : Bytes) (md : Codecs.TdxMetadata) (st : PState)
    (hmd : extractTDXMetadata fw = .ok md) (h : parseLoop ma fw md.sections {} = .ok st) :
    st.ticks ≤ md.sections.length * md.sections.length ∧
    st.alloc ≤ (st.regions.map (·.gpr.len)).sum ∧ st.regions.length = md.sections.length := by
  obtain ⟨hv, _, _⟩ := extract_ok fw md hmd
  obtain ⟨inv, hidx, _⟩ := (parseLoop_ok ma fw md.sections {} hv.secs pinv_init).2 st h
  have hidx' : st.index = md.sections.length := by simpa using hidx
  exact ⟨by rw [← hidx']; exact inv.ticks, inv.alloc, by rw [inv.len, hidx']⟩

/-- What the three ExtractMaterialGuestPhysicalRegions* entry points can return (parser options `o`
    cover all three): one region per section with n = |regions| ≤ |image| / 32; every range inside the
    52-bit physical address space; the declared sizes add up to at most 4 GiB.  This is the justified
    constant cap behind the listed finding: everything below is bounded by it, not by the image size. -/
theorem C08_declared_memory_bound (o : ParserOpts) (fw : Bytes) (banks : List Gpr) (regions : List Region)
    (h : parse o fw banks = .ok regions) :
    (∀ r ∈ regions, r.gpr.start + r.gpr.len ≤ 2 ^ 52) ∧
    (regions.map (·.gpr.len)).sum ≤ 4 * 1024 * 1024 * 1024 ∧ 32 * regions.length ≤ fw.length :=
  parse_ok_facts o fw banks regions h

/-- tdx.MRTD, iterations of the InitMemoryRegion loops over all regions: the sum of Length/256, at most
    2^24 (= 4 GiB / 256) — a constant cap that does NOT depend on the image size (listed finding D5f);
    each iteration hashes at most 128 + 384 bytes. -/
theorem C08_ticks_bound_mrtd (o : ParserOpts) (fw : Bytes) (banks : List Gpr) (regions : List Region)
    (h : parse o fw banks = .ok regions) :
    (regions.map (fun r => r.gpr.len / 256)).sum ≤ 2 ^ 24 := by
  have h2 := (parse_ok_facts o fw banks regions h).2.1
  have e : regions.map (fun r => r.gpr.len / 256) = (regions.map (·.gpr.len)).map (· / 256) := by
    rw [List.map_map]; rfl
  rw [e]
  have := sum_div_le (regions.map (·.gpr.len))
  have hm : maxInitialMemory = 2 ^ 32 := by decide
  omega

/-- Allocation recorded by the model for one parse: the zero buffers requested from `make` in the
    section loop add up to at most the declared memory (≤ 4 GiB); the TD HOB buffer has exactly the
    declared size of its section (≤ 4 GiB) and its contents before padding take 64 + 48·(n + u) bytes
    with u ≤ 2n + 2·|banks| unaccepted ranges — linear in the number of sections and banks. -/
theorem C08_alloc_bound_mrtd (ma : Bool) (fw : Bytes) (md : Codecs.TdxMetadata) (st : PState) (banks : List Gpr)
    (hmd : extractTDXMetadata fw = .ok md) (h : parseLoop ma fw md.sections {} = .ok st) :
    st.alloc ≤ 4 * 1024 * 1024 * 1024 ∧
    (∀ hob dea, (hobContent hob st.priv (unacceptedMemRanges st.priv banks) dea).length
        ≤ 64 + 48 * (3 * md.sections.length + 2 * banks.length)) ∧
    (∀ hob dea buf, hob.len < 2 ^ 63 →
        getTDHOBList hob st.priv (unacceptedMemRanges st.priv banks) dea = .ok buf → buf.length = hob.len) := by
  obtain ⟨hv, _, _⟩ := extract_ok fw md hmd
  obtain ⟨inv, hidx, hsum⟩ := (parseLoop_ok ma fw md.sections {} hv.secs pinv_init).2 st h
  have hidx' : st.index = md.sections.length := by simpa using hidx
  refine ⟨?_, ?_, ?_⟩
  · have := inv.alloc
    have := hv.total
    simp only [List.map_nil, List.sum_nil, Nat.zero_add] at hsum
    have hm : maxInitialMemory = 4 * 1024 * 1024 * 1024 := rfl
    omega
  · intro hob dea
    rw [hobContent_length]
    have := (unaccepted_bounds st.priv banks).2
    have := inv.privLen
    omega
  · intro hob dea buf hl hb
    have hl' : hob.len % 2 ^ 64 = hob.len := by omega
    unfold getTDHOBList at hb
    rw [hl'] at hb
    rw [if_neg (by omega)] at hb
    by_cases hfit : (hobContent hob st.priv (unacceptedMemRanges st.priv banks) dea).length > hob.len
    · rw [if_pos hfit] at hb; simp at hb
    · rw [if_neg hfit] at hb
      injection hb with hb
      rw [← hb]; simp only [HostBuf.length]; omega

-- non-vacuity: an empty image is rejected (not a panic), and the hypotheses of the bounds are inhabited
example : extractTDXMetadata [] = .err "guidtable" := by decide
example : (unacceptedMemRanges [⟨10, 200⟩] [⟨100, 2 ^ 64 - 50⟩]).length ≤ 4 :=
  (C08_unaccepted_terminates [⟨10, 200⟩] [⟨100, 2 ^ 64 - 50⟩]).2

end GceTcb.Props.C08Tdx
