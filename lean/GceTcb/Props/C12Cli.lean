import GceTcb.Proofs.KeyCli
import GceTcb.Props.C12
import GceTcb.Model.KeyCliSource
import GceTcb.Model.EndorseCli
import GceTcb.Gen.KeyFlags
import GceTcb.Gen.EndorseFlags
/-
C12 at the command line — the chain-of-trust invariants hold over every history of COMMAND LINES of `bootstrap`,
`rotate` and `wipeout`, and every accepted command line hands the library exactly what it names.

`cliStep W pt E s f` (Model/KeyCli.lean) is one command line: the flag values `f` as cobra hands them to the flag
types, the environment `E` (clock, os.Stat of --key_dir), the stored state `s`, the application wiring `W` (which
key manager and certificate authority components cmd.AppComponents.Global composes), `pt` = time.Parse(RFC3339, ·):
`cmdOf` (flag parsing, PersistentPreRunE of Compose(app.Global, core, app.<Command>), InitContext, wipeout's RunE)
yields the context handed to rotate.Bootstrap / rotate.Key / rotate.Wipeout or the rejection; `libStep` is the
library.  The theorems hold for every wiring, `pt`, environment, state / history and command line.
-/
namespace GceTcb.KeyCli
open GceTcb GceTcb.KeyHistory GceTcb.CliFlagTypes GceTcb.Gen

/-! ### obligations on the regenerated command-line facts -/

/-- The model's flag tables are the tables the extractor reads off the `…Var(&dest, "name", default, …)` /
    `AddGoFlag(bigintVar(&dest, "name", "default", …))` calls of BootstrapCommand.AddFlags, RotateCommand.AddFlags,
    wipeoutBase, output.Options.AddFlags, localkm.T / localca.T / gcsca.CertificateAuthority.AddFlags: a new flag, a
    changed default, a flag bound to another field (e.g. `--keep_going` to `opts.Overwrite`) breaks this. -/
theorem C12_cli_flag_tables :
    bootstrapFlagTable = KeyFlags.bootstrapFlags ∧ rotateFlagTable = KeyFlags.rotateFlags ∧
    wipeoutFlagTable = KeyFlags.wipeoutFlags ∧ outputFlagTable = KeyFlags.outputFlags ∧
    wiringFlagTable = KeyFlags.wiringFlags := by decide

/-- The defaults the model's command-line record starts from are the defaults of the tables (the three big.Int
    defaults are the strings "1", "2", "0" of the tables, parsed by the model's own parser). -/
theorem C12_cli_defaults :
    (∀ row ∈ renderDefaults { sub := .bootstrap },
      ∃ t ∈ bootstrapFlagTable ++ wipeoutFlagTable ++ outputFlagTable ++ wiringFlagTable, t.1 = row.1 ∧ t.2.2.1 = row.2) ∧
    parseBigDec "1" = some rootSerialDefault ∧ parseBigDec "2" = some signSerialDefault ∧
    parseBigDec "0" = some overrideDefault ∧
    (bootstrapFlagTable.find? (·.1 == "root_key_serial")).map (·.2.2.1) = some "\"1\"" ∧
    (bootstrapFlagTable.find? (·.1 == "initial_signing_key_serial")).map (·.2.2.1) = some "\"2\"" ∧
    (rotateFlagTable.find? (·.1 == "rotated_key_serial_override")).map (·.2.2.1) = some "\"0\"" := by decide

/-- The functions the model was written from still have the statement skeletons it was written from: the
    non-flag statements of the AddFlags functions (context allocation + cmd.SetContext), PersistentPreRunE and
    InitContext of the bootstrap and rotate commands, wipeout's RunE (argument selection), `bigintFlag.Set`,
    `bigintVar`, `timeFlag.Set`, output.AllowOverwrite / AllowRecoverableError, the wiring components' hooks
    (localkm, localca incl. checkCerts, gcsca's root-path derivation and MustBeNonempty ×3), the composition
    functions of cmd/compose.go, the Compose(…) order of the three commands, what ComposeRun runs, and the
    components testing/nonprod.localApp composes. -/
theorem C12_cli_source_skeleton :
    Source.bootstrapOther = KeyFlags.bootstrapOther ∧ Source.bootstrapPreRunSteps = KeyFlags.bootstrapPreRunSteps ∧
    Source.bootstrapInitSteps = KeyFlags.bootstrapInitSteps ∧ Source.rotateOther = KeyFlags.rotateOther ∧
    Source.rotatePreRunSteps = KeyFlags.rotatePreRunSteps ∧ Source.rotateInitSteps = KeyFlags.rotateInitSteps ∧
    Source.wipeoutOther = KeyFlags.wipeoutOther ∧ Source.wipeoutBaseHooks = KeyFlags.wipeoutBaseHooks ∧
    Source.wipeoutRunESteps = KeyFlags.wipeoutRunESteps ∧
    Source.outputAllowOverwriteSteps = KeyFlags.outputAllowOverwriteSteps ∧
    Source.outputAllowRecoverableErrorSteps = KeyFlags.outputAllowRecoverableErrorSteps ∧
    Source.bigintSetSteps = KeyFlags.bigintSetSteps ∧ Source.bigintVarSteps = KeyFlags.bigintVarSteps ∧
    Source.timeSetSteps = KeyFlags.timeSetSteps ∧ Source.timeSetSteps = EndorseFlags.timeSetSteps ∧
    Source.localcaAddFlagsOther = KeyFlags.localcaAddFlagsOther ∧
    Source.localkmPreRunSteps = KeyFlags.localkmPreRunSteps ∧ Source.localkmInitSteps = KeyFlags.localkmInitSteps ∧
    Source.localcaPreRunSteps = KeyFlags.localcaPreRunSteps ∧ Source.localcaInitSteps = KeyFlags.localcaInitSteps ∧
    Source.localcaCheckCertsSteps = KeyFlags.localcaCheckCertsSteps ∧
    Source.gcscaPreRunSteps = KeyFlags.gcscaPreRunSteps ∧
    Source.composedPreRunSteps = KeyFlags.composedPreRunSteps ∧ Source.composedInitSteps = KeyFlags.composedInitSteps ∧
    Source.composeInitContextSteps = KeyFlags.composeInitContextSteps ∧ Source.composeRunSteps = KeyFlags.composeRunSteps ∧
    Source.bootstrapCompose = KeyFlags.bootstrapCompose ∧ Source.bootstrapPersistentPreRunE = KeyFlags.bootstrapPersistentPreRunE ∧
    Source.bootstrapComposeRun = KeyFlags.bootstrapComposeRun ∧
    Source.rotateCompose = KeyFlags.rotateCompose ∧ Source.rotatePersistentPreRunE = KeyFlags.rotatePersistentPreRunE ∧
    Source.rotateComposeRun = KeyFlags.rotateComposeRun ∧ Source.rotateRunFnSteps = KeyFlags.rotateRunFnSteps ∧
    Source.wipeoutCompose = KeyFlags.wipeoutCompose ∧ Source.wipeoutPersistentPreRunE = KeyFlags.wipeoutPersistentPreRunE ∧
    Source.nonprodGlobal = KeyFlags.nonprodGlobal ∧ Source.nonprodComponents = KeyFlags.nonprodComponents :=
  ⟨rfl, rfl, rfl, rfl, rfl, rfl, rfl, rfl, rfl, rfl, rfl, rfl, rfl, rfl, rfl, rfl, rfl, rfl, rfl, rfl, rfl, rfl, rfl, rfl,
   rfl, rfl, rfl, rfl, rfl, rfl, rfl, rfl, rfl, rfl, rfl, rfl, rfl⟩

/-- The time flag of the key-management commands is the time flag of `endorse` (one `timeFlag.Set` in cmd/flags.go,
    two transcriptions): the model of C06 / C15 and this one agree on every list of occurrences. -/
theorem C12_cli_time_flag_shared (P : EndorseCli.Params) (cur : Int × Nat) (vs : List String) :
    EndorseCli.timeSetAll P cur vs = timeSetAll P.parseTime cur vs := by
  induction vs generalizing cur with
  | nil => rfl
  | cons v t ih =>
    have h1 : EndorseCli.timeSet P cur v = timeSet P.parseTime cur v := rfl
    simp only [EndorseCli.timeSetAll, timeSetAll, h1]
    cases timeSet P.parseTime cur v with
    | ok x => exact ih x
    | err e => rfl
    | panic x => rfl

/-! ### the big.Int flags -/

/-- `new(big.Int).SetString(text, 10)` as transcribed accepts exactly: an optional sign followed by one or more
    ASCII digits; the value is the decimal value of the digits, negated after `-`. -/
theorem C12_cli_bigint_syntax (s : String) (n : Int) :
    parseBigDec s = some n ↔
      (∃ ds, s.toList = '-' :: ds ∧ allDigits ds = true ∧ n = -(Int.ofNat (digitsToNat ds))) ∨
      (∃ ds, s.toList = '+' :: ds ∧ allDigits ds = true ∧ n = Int.ofNat (digitsToNat ds)) ∨
      (allDigits s.toList = true ∧ n = Int.ofNat (digitsToNat s.toList)) := by
  have hm : allDigits ('-' :: ([] : List Char)) = false ∧ ∀ ds, allDigits ('-' :: ds) = false := by
    refine ⟨by decide, fun ds => ?_⟩
    simp [allDigits, Char.isDigit]
  have hp : ∀ ds, allDigits ('+' :: ds) = false := by
    intro ds; simp [allDigits, Char.isDigit]
  unfold parseBigDec
  constructor
  · intro h
    split at h
    · next ds heq =>
      by_cases hd : allDigits ds = true
      · simp only [hd, if_true, Option.some.injEq] at h; exact Or.inl ⟨ds, heq, hd, h.symm⟩
      · simp [hd] at h
    · next ds heq =>
      by_cases hd : allDigits ds = true
      · simp only [hd, if_true, Option.some.injEq] at h; exact Or.inr (Or.inl ⟨ds, heq, hd, h.symm⟩)
      · simp [hd] at h
    · next ds _ _ =>
      by_cases hd : allDigits s.toList = true
      · simp only [hd, if_true, Option.some.injEq] at h; exact Or.inr (Or.inr ⟨hd, h.symm⟩)
      · simp [hd] at h
  · rintro (⟨ds, heq, hd, hn⟩ | ⟨ds, heq, hd, hn⟩ | ⟨hd, hn⟩)
    · rw [heq]; simp only [hd, if_true, hn]
    · rw [heq]; simp only [hd, if_true, hn]
    · split
      · next ds heq => rw [heq, hm.2] at hd; cases hd
      · next ds heq => rw [heq, hp] at hd; cases hd
      · simp only [hd, if_true, hn]

/-- The value is positional decimal: appending a digit multiplies by ten and adds it. -/
theorem C12_cli_bigint_decimal (ds : List Char) (d : Char) :
    digitsToNat (ds ++ [d]) = digitsToNat ds * 10 + (d.toNat - 48) := by
  simp [digitsToNat, List.foldl_append]

/-- Boundary values: 0, 1, -1, 2^63, 2^64, 2^128, signs and leading zeros are read as written; text, blanks,
    underscores, a base prefix, an exponent, a bare sign and the empty string are refused. -/
theorem C12_cli_bigint_boundaries :
    parseBigDec "0" = some 0 ∧ parseBigDec "1" = some 1 ∧ parseBigDec "-1" = some (-1) ∧
    parseBigDec "9223372036854775808" = some (2 ^ 63) ∧ parseBigDec "18446744073709551616" = some (2 ^ 64) ∧
    parseBigDec "340282366920938463463374607431768211456" = some (2 ^ 128) ∧
    parseBigDec "+5" = some 5 ∧ parseBigDec "007" = some 7 ∧ parseBigDec "-0" = some 0 ∧
    parseBigDec "abc" = none ∧ parseBigDec "" = none ∧ parseBigDec " 1" = none ∧ parseBigDec "1_0" = none ∧
    parseBigDec "0x10" = none ∧ parseBigDec "1e3" = none ∧ parseBigDec "+" = none ∧ parseBigDec "-" = none ∧
    parseBigDec "--1" = none := by decide

/-- Occurrences of a big.Int flag: none keeps the default; an empty value keeps what is stored; otherwise the value
    must parse and replaces what is stored — so the LAST non-empty occurrence wins and ANY malformed one refuses. -/
theorem C12_cli_bigint_occurrences (cur : Int) (vs : List String) (v : String) :
    bigintSetAll cur [] = .ok cur ∧
    bigintSet cur "" = .ok cur ∧
    (v ≠ "" → bigintSet cur v = match parseBigDec v with | some n => .ok n | none => .err "parse:bigint") ∧
    bigintSetAll cur (vs ++ [v]) =
      (match bigintSetAll cur vs with
       | .ok n => bigintSet n v
       | .err e => .err e
       | .panic x => .panic x) :=
  ⟨rfl, rfl, fun h => by unfold bigintSet; rw [if_neg h]; cases parseBigDec v <;> rfl, bigintSetAll_append cur vs v⟩

/-! ### the timestamp -/

/-- `--timestamp`: not given → the stored time stays zero; one non-empty value → it must parse; once a non-zero
    time is stored every further occurrence (even an empty one) refuses; an empty value before that is ignored. -/
theorem C12_cli_timestamp (pt : String → Option (Int × Nat)) (v w : String) (t : Int × Nat) (vs : List String) :
    timeSetAll pt zeroTime [] = .ok zeroTime ∧
    timeSetAll pt zeroTime ("" :: vs) = timeSetAll pt zeroTime vs ∧
    (v ≠ "" → pt v = none → timeSetAll pt zeroTime (v :: vs) = .err "parse:timestamp") ∧
    (v ≠ "" → pt v = some t → t ≠ zeroTime → timeSetAll pt zeroTime [v] = .ok t ∧
      timeSetAll pt zeroTime (v :: w :: vs) = .err "parse:time-already-set") := by
  refine ⟨rfl, by simp [timeSetAll, timeSet], fun hv hp => by simp [timeSetAll, timeSet, hv, hp], fun hv hp ht => ?_⟩
  constructor
  · simp [timeSetAll, timeSet, hv, hp]
  · simp [timeSetAll, timeSet, hv, hp, ht]

/-- Observation: the zero time cannot be named.  `--timestamp 0001-01-01T00:00:00Z` (or any spelling of that
    instant with an offset) parses, is stored — and is then taken for "not given": the certificates get the clock. -/
theorem C12_cli_zero_timestamp_is_unset (pt : String → Option (Int × Nat)) (E : Env) (v : String)
    (hv : v ≠ "") (hp : pt v = some zeroTime) :
    timeSetAll pt zeroTime [v] = .ok zeroTime ∧ nowOf E zeroTime = E.now := by
  constructor
  · simp [timeSetAll, timeSet, hv, hp]
  · simp [nowOf]

/-! ### what an accepted command line hands to the library -/

/-- **bootstrap**: the library is handed the common names of `--root_key_cn` / `--signing_key_cn` as written, the
    serials the `--root_key_serial` / `--initial_signing_key_serial` occurrences parse to (defaults 1 and 2), the
    creation time `--timestamp` parses to (the clock of the run when none, or the zero time, is given), and the
    `--overwrite` / `--keep_going` of the command line. -/
theorem C12_cli_bootstrap_names (W : Wiring) (pt : String → Option (Int × Nat)) (E : Env) (s : State) (f : CliFlags)
    (h : Handed) (hs : f.sub = .bootstrap) (hc : cmdOf W pt E s f = .ok h) :
    ∃ rs ss ts, bigintSetAll 1 f.rootKeySerial = .ok rs ∧ bigintSetAll 2 f.initialSigningKeySerial = .ok ss ∧
      timeSetAll pt zeroTime f.timestamp = .ok ts ∧
      h.cmd = .bootstrap ⟨f.overwrite, f.keepGoing⟩
        ⟨f.rootKeyCn, f.signingKeyCn, rs, ss, if ts = zeroTime then E.now else ts⟩ := by
  obtain ⟨p, site, h1, _, _, h4, _, _⟩ := cmdOf_ok hc
  unfold parseFlags at h1
  rw [hs] at h1
  simp only [] at h1
  cases hr : bigintSetAll rootSerialDefault f.rootKeySerial with
  | err e => simp [hr] at h1
  | panic x => simp [hr] at h1
  | ok rs =>
    simp only [hr] at h1
    cases hss : bigintSetAll signSerialDefault f.initialSigningKeySerial with
    | err e => simp [hss] at h1
    | panic x => simp [hss] at h1
    | ok ss =>
      simp only [hss] at h1
      cases ht : timeSetAll pt zeroTime f.timestamp with
      | err e => simp [ht] at h1
      | panic x => simp [ht] at h1
      | ok ts =>
        simp only [ht, Outcome.ok.injEq] at h1
        subst h1
        unfold initCtx at h4
        rw [hs] at h4
        simp only [Outcome.ok.injEq] at h4
        exact ⟨rs, ss, ts, hr, hss, rfl, h4.symm⟩

/-- **rotate**: the common name of `--signing_key_cn`, the creation time as for bootstrap, the flags — and the
    serial: a non-zero `--rotated_key_serial_override` as written; otherwise (no override, or one that parses to
    0: "0", "-0", "+0", "000") the subject serial of the current primary signing certificate plus one. -/
theorem C12_cli_rotate_names (W : Wiring) (pt : String → Option (Int × Nat)) (E : Env) (s : State) (f : CliFlags)
    (h : Handed) (hs : f.sub = .rotate) (hc : cmdOf W pt E s f = .ok h) :
    ∃ ov ts n, bigintSetAll 0 f.rotatedKeySerialOverride = .ok ov ∧ timeSetAll pt zeroTime f.timestamp = .ok ts ∧
      h.cmd = .rotate ⟨f.overwrite, f.keepGoing⟩ ⟨f.signingKeyCn, n, if ts = zeroTime then E.now else ts⟩ ∧
      (ov ≠ 0 → n = ov) ∧
      (ov = 0 → ∃ p, certificate s.ca s.ca.primarySigning = some p ∧ n = Int.ofNat p.subjSerial + 1) := by
  obtain ⟨p, site, h1, _, _, h4, _, _⟩ := cmdOf_ok hc
  unfold parseFlags at h1
  rw [hs] at h1
  simp only [] at h1
  cases hr : bigintSetAll overrideDefault f.rotatedKeySerialOverride with
  | err e => simp [hr] at h1
  | panic x => simp [hr] at h1
  | ok ov =>
    simp only [hr] at h1
    cases ht : timeSetAll pt zeroTime f.timestamp with
    | err e => simp [ht] at h1
    | panic x => simp [ht] at h1
    | ok ts =>
      simp only [ht, Outcome.ok.injEq] at h1
      subst h1
      unfold initCtx at h4
      rw [hs] at h4
      simp only [] at h4
      by_cases hb : cliBlocked W.cfg s.ca = true
      · simp [hb] at h4
      · simp only [hb, Bool.false_eq_true, if_false] at h4
        cases hn : rotateSerial s.ca ov with
        | none => simp [hn] at h4
        | some n =>
          simp only [hn, Outcome.ok.injEq] at h4
          refine ⟨ov, ts, n, hr, rfl, h4.symm, ?_, ?_⟩
          · intro hov; simp [rotateSerial, hov] at hn; exact hn.symm
          · intro hov
            simp only [rotateSerial, hov, if_true, resolveSerial] at hn
            cases hp : certificate s.ca s.ca.primarySigning with
            | none => simp [hp] at hn
            | some q =>
              simp only [hp, Option.map_some, Option.some.injEq] at hn
              refine ⟨q, rfl, ?_⟩
              rw [← hn]
              have : CertConsts.rotateDefaultIncrement = 1 := by decide
              rw [this]; rfl

/-- **wipeout**: no argument selects the certificate authority AND the keys; a first argument `ca` only the
    authority, `keys` only the keys; any other first argument selects NOTHING (further arguments are ignored);
    `--force_prod_wipeout` and the output flags pass through. -/
theorem C12_cli_wipeout_selection (W : Wiring) (pt : String → Option (Int × Nat)) (E : Env) (s : State) (f : CliFlags)
    (h : Handed) (hs : f.sub = .wipeout) (hc : cmdOf W pt E s f = .ok h) :
    ∃ ca keys, h.cmd = .wipeout ⟨f.overwrite, f.keepGoing⟩ ⟨f.forceProdWipeout, ca, keys⟩ ∧
      (f.args = [] → ca = true ∧ keys = true) ∧
      (∀ a rest, f.args = a :: rest → ca = (a == "ca") ∧ keys = (a == "keys")) := by
  obtain ⟨p, site, _, _, _, h4, _, _⟩ := cmdOf_ok hc
  unfold initCtx at h4
  rw [hs] at h4
  simp only [] at h4
  by_cases hb : cliBlocked W.cfg s.ca = true
  · simp [hb] at h4
  · simp only [hb, Bool.false_eq_true, if_false, Outcome.ok.injEq] at h4
    refine ⟨wipeSel f.args "ca", wipeSel f.args "keys", h4.symm, ?_, ?_⟩
    · intro ha; rw [ha]; exact ⟨rfl, rfl⟩
    · intro a rest ha; rw [ha]; exact ⟨rfl, rfl⟩

/-- The store and the key directory the library works on are the ones the command line names: `--key_dir`,
    `--bucket_root`, `--bucket`, `--cert_dir` as written; `--root_path` as written, or — only for bootstrap, only
    when it is empty — the root common name with ".crt" appended. -/
theorem C12_cli_store_names (W : Wiring) (pt : String → Option (Int × Nat)) (E : Env) (s : State) (f : CliFlags)
    (h : Handed) (hc : cmdOf W pt E s f = .ok h) :
    h.keyDir = f.keyDir ∧
    (W.ca = .memca → h.site = none) ∧
    (W.ca = .gcsca → h.site = some ⟨f.bucketRoot, f.bucket, f.certDir, resolvedRootPath f⟩ ∧
      (f.rootPath ≠ "" → resolvedRootPath f = f.rootPath) ∧
      (f.rootPath = "" → f.sub = .bootstrap ∧ resolvedRootPath f = f.rootKeyCn ++ ".crt")) := by
  obtain ⟨p, site, _, _, h3, _, h5, h6⟩ := cmdOf_ok hc
  refine ⟨h6, fun hm => ?_, fun hg => ?_⟩
  · rw [h5]; simp [siteCheck, hm] at h3; exact h3.symm
  · simp only [siteCheck, hg] at h3
    by_cases hbad : f.bucket = "" ∨ resolvedRootPath f = "" ∨ f.certDir = ""
    · simp [hbad] at h3
    · simp only [hbad, if_false, Outcome.ok.injEq] at h3
      refine ⟨by rw [h5]; exact h3.symm, fun hr => by simp [resolvedRootPath, hr], fun hr => ?_⟩
      have hne : resolvedRootPath f ≠ "" := fun e => hbad (Or.inr (Or.inl e))
      unfold resolvedRootPath at hne ⊢
      simp only [hr, ne_eq, not_true_eq_false, if_false] at hne ⊢
      by_cases hb : f.sub = .bootstrap ∧ f.rootKeyCn ≠ ""
      · rw [if_pos hb]; exact ⟨hb.1, rfl⟩
      · simp [hb] at hne

/-! ### rejections -/

/-- **A command line is accepted exactly when** every occurrence of its big.Int and time flags is well-formed,
    `--key_dir` is a directory (localkm), `--bucket`, `--cert_dir` and the (possibly derived) root path are not
    empty (localca / gcsca), and — for rotate and wipeout — localca's checkCerts passes on the stored state and
    (rotate with no / a zero override) the current primary signing key has a certificate to take the serial from. -/
theorem C12_cli_accept_iff (W : Wiring) (pt : String → Option (Int × Nat)) (E : Env) (s : State) (f : CliFlags) :
    (cmdOf W pt E s f).isOk = true ↔
      ∃ p, parseFlags pt f = .ok p ∧
        (W.km = .localkm → E.statDir f.keyDir = some true) ∧
        (W.ca = .gcsca → f.bucket ≠ "" ∧ resolvedRootPath f ≠ "" ∧ f.certDir ≠ "") ∧
        (f.sub ≠ .bootstrap → cliBlocked W.cfg s.ca = false) ∧
        (f.sub = .rotate → (rotateSerial s.ca p.override).isSome = true) := by
  constructor
  · intro h
    cases hc : cmdOf W pt E s f with
    | err e => rw [hc] at h; cases h
    | panic x => rw [hc] at h; cases h
    | ok hd =>
      obtain ⟨p, site, h1, h2, h3, h4, _, _⟩ := cmdOf_ok hc
      refine ⟨p, h1, fun hk => ?_, fun hg => ?_, fun hb => ?_, fun hr => ?_⟩
      · simp only [keyDirCheck, hk] at h2
        cases hst : E.statDir f.keyDir with
        | none => simp [hst] at h2
        | some b => cases b <;> simp [hst] at h2 ⊢
      · simp only [siteCheck, hg] at h3
        by_cases hbad : f.bucket = "" ∨ resolvedRootPath f = "" ∨ f.certDir = ""
        · simp [hbad] at h3
        · simp only [not_or] at hbad; exact hbad
      · unfold initCtx at h4
        cases hsub : f.sub with
        | bootstrap => exact absurd hsub hb
        | rotate =>
          simp only [hsub] at h4
          by_cases hbl : cliBlocked W.cfg s.ca = true
          · simp [hbl] at h4
          · simpa using hbl
        | wipeout =>
          simp only [hsub] at h4
          by_cases hbl : cliBlocked W.cfg s.ca = true
          · simp [hbl] at h4
          · simpa using hbl
      · unfold initCtx at h4
        simp only [hr] at h4
        by_cases hbl : cliBlocked W.cfg s.ca = true
        · simp [hbl] at h4
        · simp only [hbl, Bool.false_eq_true, if_false] at h4
          cases hn : rotateSerial s.ca p.override with
          | none => simp [hn] at h4
          | some n => rfl
  · rintro ⟨p, h1, h2, h3, h4, h5⟩
    have k2 : keyDirCheck W E f = .ok () := by
      unfold keyDirCheck
      cases hk : W.km with
      | memkm => rfl
      | localkm => simp [h2 hk]
    have k3 : ∃ site, siteCheck W f = .ok site := by
      unfold siteCheck
      cases hg : W.ca with
      | memca => exact ⟨none, rfl⟩
      | gcsca =>
        obtain ⟨a, b, c⟩ := h3 hg
        exact ⟨some ⟨f.bucketRoot, f.bucket, f.certDir, resolvedRootPath f⟩, by simp [a, b, c]⟩
    obtain ⟨site, k3⟩ := k3
    have k4 : ∃ c, initCtx W s f p (nowOf E p.ts) = .ok c := by
      unfold initCtx
      cases hsub : f.sub with
      | bootstrap => exact ⟨_, rfl⟩
      | rotate =>
        have hb := h4 (by rw [hsub]; decide)
        have hr := h5 hsub
        simp only [hb, Bool.false_eq_true, if_false]
        cases hn : rotateSerial s.ca p.override with
        | none => rw [hn] at hr; cases hr
        | some n => exact ⟨_, rfl⟩
      | wipeout =>
        have hb := h4 (by rw [hsub]; decide)
        simp only [hb, Bool.false_eq_true, if_false]
        exact ⟨_, rfl⟩
    obtain ⟨c, k4⟩ := k4
    rw [cmdOf_of_parts h1 k2 k3 k4]; rfl

/-- **The rejections, exactly**: a command line that is not accepted is refused with one of the classes of
    `rejectionClasses` — a malformed big.Int value; a malformed timestamp; a second timestamp; `--key_dir` missing /
    not a directory; an empty `--bucket` / root path / `--cert_dir` (the three digits say which); localca's pre-check
    of the stored certificates (rotate, wipeout); no current certificate to take the next serial from (rotate) —
    never with a panic, and in none of these cases is the library entered: keys and certificates are unchanged. -/
theorem C12_cli_rejections (W : Wiring) (pt : String → Option (Int × Nat)) (E : Env) (s : State) (f : CliFlags)
    (h : (cmdOf W pt E s f).isOk = false) :
    (∃ e, cmdOf W pt E s f = .err e ∧ e ∈ rejectionClasses) ∧ cliStep W pt E s f = (s, false) := by
  have hstep : cliStep W pt E s f = (s, false) := by
    unfold cliStep
    cases hc : cmdOf W pt E s f with
    | ok hd => rw [hc] at h; cases h
    | err e => rfl
    | panic x => rfl
  refine ⟨?_, hstep⟩
  cases hc : cmdOf W pt E s f with
  | ok hd => rw [hc] at h; cases h
  | err e => exact ⟨e, rfl, cmdOf_err hc⟩
  | panic x => exact absurd hc cmdOf_no_panic

/-! ### composition with the KeyHistory model -/

/-- **cliStep = KeyHistory.step ∘ cmdOf.**  For every accepted command line whose context the certificate library
    can represent (serial numbers not negative, creation time with a UTC year of 0 … 9999 − 25), the command line
    does to keys and certificates exactly what the KeyHistory model's `step` does for the command `toCmd` reads off
    the context: bootstrap with the four names / serials and the time, rotate with the resolved serial, wipeout with
    the selection. -/
theorem C12_cli_compose (W : Wiring) (pt : String → Option (Int × Nat)) (E : Env) (s : State) (f : CliFlags) (h : Handed)
    (hc : cmdOf W pt E s f = .ok h) (hr : representable h.cmd = true) :
    cliStep W pt E s f = step W.cfg s (toCmd h.cmd) := by
  unfold cliStep
  rw [hc]
  exact libStep_eq_step W.cfg s h.cmd hr (cmdOf_cmd hc).2.2

/-- Observation: a context crypto/x509 refuses is NOT rejected by the command line.  `bootstrap` with a negative
    `--root_key_serial` is accepted, creates (and, with localkm, stores) the root key and the first signing key, and
    only then fails in x509.CreateCertificate; the certificate store of gcsca is untouched, the keys stay: the next
    `bootstrap` without `--overwrite` is refused because the keys exist. -/
theorem C12_cli_negative_serial_keeps_keys (W : Wiring) (pt : String → Option (Int × Nat)) (E : Env) (s : State)
    (f : CliFlags) (o : Flags) (c : BootCtx) (h : Handed) (hc : cmdOf W pt E s f = .ok h)
    (hcmd : h.cmd = .bootstrap o c) (hneg : c.rootSerial < 0)
    (hk1 : keyExists o s.km rootName = false) (hk2 : keyExists o (s.km.gen rootName) firstName = false) :
    (cliStep W pt E s f).2 = false ∧ (cliStep W pt E s f).1.km = (s.km.gen rootName).gen firstName ∧
    (W.ca = .gcsca → (cliStep W pt E s f).1.ca = s.ca) ∧
    keyExists ⟨false, o.keepGoing⟩ (cliStep W pt E s f).1.km rootName = true := by
  have hstep : cliStep W pt E s f = bootstrapX W.cfg o c s := by
    unfold cliStep; rw [hc]; show libStep W.cfg s h.cmd = _; rw [hcmd]; rfl
  have hcerts : bootCertsX W.cfg o c ((s.km.gen rootName).gen firstName) s.km.next (s.km.next + 1) s.ca =
      (bootView W.cfg s.ca, false) := by
    unfold bootCertsX
    cases hrt : rootTemplate W.cfg (bootView W.cfg s.ca) (.boot (bootArgs c)) s.km.next with
    | none => rfl
    | some rt =>
      have : refused c.rootSerial c.now rt = true := by simp [refused, hneg]
      simp only [this, if_true]
  rw [hstep]
  simp only [bootstrapX, hk1, hk2, Bool.false_eq_true, if_false, hcerts]
  refine ⟨trivial, trivial, fun hg => by simp [bootView, Wiring.cfg, hg], ?_⟩
  have hne : rootName ≠ firstName := fun e => firstName_ne_root e.symm
  simp [keyExists, KM.gen, get_put, hne]

/-! ### the invariants over every history of command lines -/

/-- **Root profile, all histories of command lines** (any wiring, flags, values — also the ones crypto/x509 refuses):
    the root certificate the authority serves is a self-signed CA certificate with certificate-signing usage and
    the 25-year lifetime. -/
theorem C12_cli_root_profile (W : Wiring) (pt : String → Option (Int × Nat)) (h : List (Env × CliFlags)) (r : Cert)
    (hb : bundle W.cfg (cliRun W pt State.init h).ca = some r) : RootProfile r :=
  RootInv_bundle (RootInv_cliRun W pt h State.init (RootInv_empty W.cfg)) hb

/-- FULL STATEMENT (fails today, see C12_cli_finding_rebootstrap): after any history of command lines every
    certificate the authority records, other than the root's entry, has the signing profile and is issued by the
    served root. -/
def C12_cli_signing_profile : Prop :=
  ∀ (W : Wiring), W.guard = true → ∀ (pt : String → Option (Int × Nat)) (h : List (Env × CliFlags)) (n : KName) (c : Cert),
    certificate (cliRun W pt State.init h).ca n = some c → n ≠ (cliRun W pt State.init h).ca.primaryRoot →
    SignProfile c ∧ ∃ r, bundle W.cfg (cliRun W pt State.init h).ca = some r ∧ IssuedBy r c

/-- Proved part: histories of command lines whose ACCEPTED bootstrap lines all run on a clean store — with any
    common names, serial texts (also negative: refused by crypto/x509 after the keys exist), timestamps, overwrite
    and keep_going flags, selectors, rejected lines in between.  Missing for the full statement: bootstrap over a
    populated store (known findings C12-K1…K4). -/
theorem C12_cli_signing_profile_partial (W : Wiring) (hg : W.guard = true) (pt : String → Option (Int × Nat))
    (h : List (Env × CliFlags)) (hc : CliCleanRun W pt State.init h) (n : KName) (c : Cert)
    (hn : certificate (cliRun W pt State.init h).ca n = some c)
    (hroot : n ≠ (cliRun W pt State.init h).ca.primaryRoot) :
    SignProfile c ∧ ∃ r, bundle W.cfg (cliRun W pt State.init h).ca = some r ∧ IssuedBy r c := by
  obtain ⟨hca, _⟩ := Inv_cliRun hg pt h State.init (Inv_init W.cfg) hc
  unfold certificate at hn
  cases he : KeyHistory.get (cliRun W pt State.init h).ca.entries n with
  | none => simp [he] at hn
  | some p =>
    simp only [he] at hn
    have hne : n ≠ rootName := by
      rcases hca.rootOrEmpty with h1 | ⟨_, h1⟩
      · rw [h1] at hroot; exact hroot
      · rw [h1] at he; simp [KeyHistory.get] at he
    exact hca.good n p c he hne hn

/-- Among the key versions the authority records, only the current primary can sign — after every history of
    command lines whose accepted bootstraps run on a clean store. -/
theorem C12_cli_only_primary_signs_partial (W : Wiring) (hg : W.guard = true) (pt : String → Option (Int × Nat))
    (h : List (Env × CliFlags)) (hc : CliCleanRun W pt State.init h) (n : KName) (c : Cert) (k : Nat)
    (hn : certificate (cliRun W pt State.init h).ca n = some c)
    (hroot : n ≠ (cliRun W pt State.init h).ca.primaryRoot)
    (hl : KeyHistory.get (cliRun W pt State.init h).km.live n = some k) :
    n = (cliRun W pt State.init h).ca.primarySigning := by
  obtain ⟨hca, hkm⟩ := Inv_cliRun hg pt h State.init (Inv_init W.cfg) hc
  have hsome : (KeyHistory.get (cliRun W pt State.init h).ca.entries n).isSome = true := by
    unfold certificate at hn
    cases he : KeyHistory.get (cliRun W pt State.init h).ca.entries n with
    | none => simp [he] at hn
    | some p => rfl
  have hne : n ≠ rootName := by
    rcases hca.rootOrEmpty with h1 | ⟨_, h1⟩
    · rw [h1] at hroot; exact hroot
    · rw [h1] at hsome; simp [KeyHistory.get] at hsome
  by_cases e : n = (cliRun W pt State.init h).ca.primarySigning
  · exact e
  · have := hkm.onlyPrimary n hsome hne e
    rw [this] at hl; cases hl

/-- The name the next rotation would create was neither certified nor destroyed since the last key wipeout. -/
theorem C12_cli_names_fresh_partial (W : Wiring) (hg : W.guard = true) (pt : String → Option (Int × Nat))
    (h : List (Env × CliFlags)) (hc : CliCleanRun W pt State.init h) :
    certificate (cliRun W pt State.init h).ca (bump (cliRun W pt State.init h).ca.primarySigning) = none ∧
    bump (cliRun W pt State.init h).ca.primarySigning ∉ (cliRun W pt State.init h).km.destroyed := by
  obtain ⟨hca, hkm⟩ := Inv_cliRun hg pt h State.init (Inv_init W.cfg) hc
  refine ⟨by simp [certificate, hca.kver_fresh], ?_⟩
  intro hmem
  obtain ⟨d1, d2⟩ := hkm.dfam _ hmem
  have := d2 (by rw [← d1]; rfl)
  simp only [bump_idx] at this
  omega

/-- gcsca, after every history of command lines: a bootstrap or rotate LINE without `--overwrite` — accepted,
    rejected, or refused by crypto/x509 half-way — leaves every existing certificate object and the root object as
    they were. -/
theorem C12_cli_no_clobber (W : Wiring) (hg : W.ca = .gcsca) (pt : String → Option (Int × Nat))
    (h : List (Env × CliFlags)) (E : Env) (f : CliFlags) (hw : f.sub ≠ .wipeout) (hf : f.overwrite = false) :
    (∀ p x, KeyHistory.get (cliRun W pt State.init h).ca.objects p = some x →
      KeyHistory.get (cliStep W pt E (cliRun W pt State.init h) f).1.ca.objects p = some x) ∧
    (∀ r, (cliRun W pt State.init h).ca.rootObj = some r →
      (cliStep W pt E (cliRun W pt State.init h) f).1.ca.rootObj = some r) := by
  generalize cliRun W pt State.init h = s
  unfold cliStep
  cases hc : cmdOf W pt E s f with
  | err e => exact ⟨fun _ _ hx => hx, fun _ hx => hx⟩
  | panic x => exact ⟨fun _ _ hx => hx, fun _ hx => hx⟩
  | ok hd =>
    obtain ⟨k1, k2, _⟩ := cmdOf_cmd hc
    have hnw : hd.cmd.isWipeout = false := by
      cases hq : hd.cmd.isWipeout with
      | false => rfl
      | true => exact absurd (k2.mp hq) hw
    exact libStep_no_clobber (cfg := W.cfg) hg s hd.cmd hnw (by rw [k1]; exact hf)

/-- **C12 over histories of command lines.**  For every wiring (memkm | localkm × memca | localca→gcsca, both
    sequencings of rotate.Key, the repaired gcsca.upload), every `time.Parse`, every history of command lines with
    their environments: the served root has the root profile; and when the accepted bootstrap lines run on a clean
    store, every recorded signing certificate has the signing profile and is issued by the served root, only the
    primary of the recorded key versions can sign, and the next rotation's name is fresh. -/
theorem C12_cli_history (W : Wiring) (hg : W.guard = true) (pt : String → Option (Int × Nat)) (h : List (Env × CliFlags)) :
    (∀ r, bundle W.cfg (cliRun W pt State.init h).ca = some r → RootProfile r) ∧
    (CliCleanRun W pt State.init h →
      (∀ n c, certificate (cliRun W pt State.init h).ca n = some c → n ≠ (cliRun W pt State.init h).ca.primaryRoot →
        SignProfile c ∧ ∃ r, bundle W.cfg (cliRun W pt State.init h).ca = some r ∧ IssuedBy r c) ∧
      (∀ n c k, certificate (cliRun W pt State.init h).ca n = some c → n ≠ (cliRun W pt State.init h).ca.primaryRoot →
        KeyHistory.get (cliRun W pt State.init h).km.live n = some k → n = (cliRun W pt State.init h).ca.primarySigning) ∧
      certificate (cliRun W pt State.init h).ca (bump (cliRun W pt State.init h).ca.primarySigning) = none ∧
      bump (cliRun W pt State.init h).ca.primarySigning ∉ (cliRun W pt State.init h).km.destroyed) :=
  ⟨fun r hb => C12_cli_root_profile W pt h r hb,
   fun hc => ⟨fun n c => C12_cli_signing_profile_partial W hg pt h hc n c,
     fun n c k => C12_cli_only_primary_signs_partial W hg pt h hc n c k,
     C12_cli_names_fresh_partial W hg pt h hc⟩⟩

/-! ### serial numbers through the command line -/

/-- **A rotation without override gets predecessor + 1 — through the command line.**  After any history of
    command lines, a successful `rotate` line whose `--rotated_key_serial_override` occurrences parse to 0 (none
    given, "0", "-0", "+0", "000", an empty value), without `--keep_going`, records for the new primary
    `BumpName(previous primary)` a certificate whose subject serial is the previous primary certificate's subject
    serial plus one, whose certificate serial equals its subject serial and whose common name is `--signing_key_cn`. -/
theorem C12_cli_serial_default (W : Wiring) (pt : String → Option (Int × Nat)) (h : List (Env × CliFlags)) (E : Env)
    (f : CliFlags) (hs : f.sub = .rotate) (hov : bigintSetAll 0 f.rotatedKeySerialOverride = .ok 0)
    (hk : f.keepGoing = false) (hok : (cliStep W pt E (cliRun W pt State.init h) f).2 = true) :
    ∃ p c, certificate (cliRun W pt State.init h).ca (cliRun W pt State.init h).ca.primarySigning = some p ∧
      (cliStep W pt E (cliRun W pt State.init h) f).1.ca.primarySigning = bump (cliRun W pt State.init h).ca.primarySigning ∧
      certificate (cliStep W pt E (cliRun W pt State.init h) f).1.ca
        (cliStep W pt E (cliRun W pt State.init h) f).1.ca.primarySigning = some c ∧
      c.subjSerial = p.subjSerial + 1 ∧ c.certSerial = c.subjSerial ∧ c.cn = f.signingKeyCn := by
  generalize cliRun W pt State.init h = s at hok ⊢
  obtain ⟨hd, hc, hst⟩ := cliStep_ok hok
  obtain ⟨ov, ts, n, h1, _, h3, _, h5⟩ := C12_cli_rotate_names W pt E s f hd hs hc
  rw [hov] at h1
  simp only [Outcome.ok.injEq] at h1
  obtain ⟨p, hp, hn⟩ := h5 h1.symm
  rw [hst, h3] at hok ⊢
  simp only [libStep] at hok ⊢
  obtain ⟨x, x1, x2, x3, x4, x5, _⟩ := rotateKeyX_ok_fields (by exact hk) hok
  refine ⟨p, x, hp, x1, by rw [x1]; exact x2, ?_, x4, x5⟩
  simp only [] at x3
  rw [hn] at x3
  exact Int.ofNat.inj (by simpa using x3)

/-- With an override that is not 0 the recorded subject serial (and certificate serial) is the override as written
    — 1, 2^63, 2^64, 2^128 alike. -/
theorem C12_cli_serial_override (W : Wiring) (pt : String → Option (Int × Nat)) (h : List (Env × CliFlags)) (E : Env)
    (f : CliFlags) (ov : Int) (hs : f.sub = .rotate) (hov : bigintSetAll 0 f.rotatedKeySerialOverride = .ok ov)
    (hne : ov ≠ 0) (hk : f.keepGoing = false) (hok : (cliStep W pt E (cliRun W pt State.init h) f).2 = true) :
    ∃ c, certificate (cliStep W pt E (cliRun W pt State.init h) f).1.ca
        (cliStep W pt E (cliRun W pt State.init h) f).1.ca.primarySigning = some c ∧
      Int.ofNat c.subjSerial = ov ∧ c.certSerial = c.subjSerial ∧ c.cn = f.signingKeyCn := by
  generalize cliRun W pt State.init h = s at hok ⊢
  obtain ⟨hd, hc, hst⟩ := cliStep_ok hok
  obtain ⟨ov', ts, n, h1, _, h3, h4, _⟩ := C12_cli_rotate_names W pt E s f hd hs hc
  rw [hov] at h1
  simp only [Outcome.ok.injEq] at h1
  subst h1
  have hn := h4 hne
  rw [hst, h3] at hok ⊢
  simp only [libStep] at hok ⊢
  obtain ⟨x, x1, x2, x3, x4, x5, _⟩ := rotateKeyX_ok_fields (by exact hk) hok
  refine ⟨x, by rw [x1]; exact x2, ?_, x4, x5⟩
  simp only [] at x3
  rw [hn] at x3; exact x3

/-! ### wipeout through the command line -/

/-- `wipeout` without an argument, when it succeeds, after any history: no key version can sign, no certificate is
    recorded, stored or served. -/
theorem C12_cli_wipeout_total (W : Wiring) (pt : String → Option (Int × Nat)) (h : List (Env × CliFlags)) (E : Env)
    (f : CliFlags) (hs : f.sub = .wipeout) (ha : f.args = [])
    (hok : (cliStep W pt E (cliRun W pt State.init h) f).2 = true) :
    (cliStep W pt E (cliRun W pt State.init h) f).1.km.live = [] ∧
    (∀ n, certificate (cliStep W pt E (cliRun W pt State.init h) f).1.ca n = none) ∧
    bundle W.cfg (cliStep W pt E (cliRun W pt State.init h) f).1.ca = none ∧
    (cliStep W pt E (cliRun W pt State.init h) f).1.ca.objects = [] := by
  generalize cliRun W pt State.init h = s at hok ⊢
  obtain ⟨hd, hc, hst⟩ := cliStep_ok hok
  obtain ⟨ca, keys, h1, h2, _⟩ := C12_cli_wipeout_selection W pt E s f hd hs hc
  obtain ⟨e1, e2⟩ := h2 ha
  subst e1; subst e2
  rw [hst, h1]
  simp only [libStep, wipeout, if_true]
  refine ⟨rfl, fun n => rfl, ?_, rfl⟩
  unfold bundle; cases W.cfg.ca <;> rfl

/-- `wipeout ca` leaves the keys alone and the authority empty; `wipeout keys` leaves the authority alone and no
    key able to sign; and — observation — `wipeout <anything else>` (a typo such as `key`, `CA`, `all`, an empty
    argument) is ACCEPTED, selects nothing, changes nothing and reports success. -/
theorem C12_cli_wipeout_parts (W : Wiring) (pt : String → Option (Int × Nat)) (E : Env) (s : State) (f : CliFlags)
    (a : String) (rest : List String) (hs : f.sub = .wipeout) (ha : f.args = a :: rest)
    (hacc : (cmdOf W pt E s f).isOk = true) :
    (cliStep W pt E s f).2 = true ∧
    (a = "ca" → (cliStep W pt E s f).1.ca = CA.empty ∧ (cliStep W pt E s f).1.km = s.km) ∧
    (a = "keys" → (cliStep W pt E s f).1.km.live = [] ∧ (cliStep W pt E s f).1.ca = s.ca) ∧
    (a ≠ "ca" → a ≠ "keys" → (cliStep W pt E s f).1 = s) := by
  cases hc : cmdOf W pt E s f with
  | err e => rw [hc] at hacc; cases hacc
  | panic x => rw [hc] at hacc; cases hacc
  | ok hd =>
    obtain ⟨ca, keys, h1, _, h3⟩ := C12_cli_wipeout_selection W pt E s f hd hs hc
    obtain ⟨e1, e2⟩ := h3 a rest ha
    have hst : cliStep W pt E s f = libStep W.cfg s hd.cmd := by unfold cliStep; rw [hc]
    rw [hst, h1, e1, e2]
    simp only [libStep, wipeout]
    refine ⟨trivial, fun e => ?_, fun e => ?_, fun n1 n2 => ?_⟩
    · subst e; exact ⟨rfl, rfl⟩
    · subst e; exact ⟨rfl, rfl⟩
    · have b1 : (a == "ca") = false := by simpa using n1
      have b2 : (a == "keys") = false := by simpa using n2
      simp [b1, b2]

/-! ### witnesses and non-vacuity: concrete command lines -/

/-- time.Parse(RFC3339, ·) on the timestamps of the examples -/
def exPt : String → Option (Int × Nat) := fun t =>
  if t = "2024-09-01T00:00:00Z" then some (1725148800, 0)
  else if t = "2024-10-01T12:00:00+02:00" then some (1727776800, 0)
  else if t = "2025-01-01T00:00:00-08:00" then some (1735718400, 0)
  else if t = "0001-01-01T00:00:00Z" then some zeroTime
  else none

def exEnv : Env := ⟨(1790000000, 250000000), fun p => if p = "keys" then some true else none⟩

/-- the shipped wiring: localkm × localca (gcsca), sequential rotate.Key, repaired upload -/
def exW : Wiring := ⟨.gcsca, .localkm, true, true⟩
def exMem : Wiring := ⟨.memca, .memkm, true, true⟩

def exB (ts : String) : CliFlags :=
  { sub := .bootstrap, keyDir := "keys", bucket := "bkt", certDir := "certs", rootPath := "root.crt", timestamp := [ts] }
def exR (ts : String) (ov : List String) : CliFlags :=
  { sub := .rotate, keyDir := "keys", bucket := "bkt", certDir := "certs", rootPath := "root.crt", timestamp := [ts],
    rotatedKeySerialOverride := ov }
def exWipe (args : List String) : CliFlags :=
  { sub := .wipeout, keyDir := "keys", bucket := "bkt", certDir := "certs", rootPath := "root.crt", args := args }

/-- `bootstrap; rotate; bootstrap --overwrite --root_key_cn rootB` as command lines -/
def exReboot : List (Env × CliFlags) :=
  [(exEnv, exB "2024-09-01T00:00:00Z"), (exEnv, exR "2024-10-01T12:00:00+02:00" []),
   (exEnv, { exB "2025-01-01T00:00:00-08:00" with overwrite := true, rootKeyCn := "rootB" })]

/-- D18 at the command line: after `bootstrap; rotate; bootstrap --overwrite` (three accepted command lines of the
    shipped wiring) the entry of the rotated key still carries the certificate issued by the previous root. -/
theorem C12_cli_finding_rebootstrap : ¬ C12_cli_signing_profile := by
  intro hfull
  have h := hfull exW rfl exPt exReboot ⟨"primarySigningKey", 1⟩
    ⟨3, 3, "GCE-uefi-signer", "GCE-cc-tcb-root", 1, 2, 0, 0, false, 1, 13, 1727776800 + 62167219200,
      1727776800 + 62167219200 + signLifetime⟩ (by decide) (by decide)
  obtain ⟨_, r, hr, hi, _⟩ := h
  have hr' : bundle exW.cfg (cliRun exW exPt State.init exReboot).ca =
      some ⟨1, 1, "rootB", "rootB", 1, 3, 3, 3, true, 96, 13, 1735718400 + 62167219200,
        1735718400 + 62167219200 + rootLifetime⟩ := by decide
  rw [hr'] at hr
  cases hr
  revert hi; decide

/-- `bootstrap; rotate; rotate --rotated_key_serial_override 9223372036854775808; rotate; wipeout ca; wipeout` -/
def exGood : List (Env × CliFlags) :=
  [(exEnv, exB "2024-09-01T00:00:00Z"), (exEnv, exR "2024-10-01T12:00:00+02:00" []),
   (exEnv, exR "2025-01-01T00:00:00-08:00" ["9223372036854775808"]), (exEnv, exR "0001-01-01T00:00:00Z" ["-0"])]

/-- The hypotheses of the theorems above are met by concrete command lines: the good history is a clean run on both
    wirings, every line is accepted and succeeds, the serials recorded are 2, 3, 2^63, 2^63 + 1, the last
    certificate (zero `--timestamp` = not given) is dated by the clock of the run, only the last key can sign. -/
example :
    CliCleanRun exW exPt State.init exGood ∧
    ((cliRun exW exPt State.init exGood).ca.objects.map (·.2.subjSerial)) = [1, 2, 3, 2 ^ 63, 2 ^ 63 + 1] ∧
    ((cliRun exW exPt State.init exGood).ca.objects.map (·.2.notBefore)).getLast? = some (1790000000 + 62167219200) ∧
    ((cliRun exW exPt State.init exGood).km.live.map (·.1.show)) = ["root", "primarySigningKey_3"] ∧
    (cliStep exW exPt exEnv (cliRun exW exPt State.init exGood) (exR "2024-09-01T00:00:00Z" [])).2 = true ∧
    (cliStep exW exPt exEnv (cliRun exW exPt State.init exGood) (exWipe [])).2 = true ∧
    ((cliRun exMem exPt State.init exGood).ca.entries.map (·.1.show)) =
      ["root", "primarySigningKey", "primarySigningKey_1", "primarySigningKey_2", "primarySigningKey_3"] := by
  refine ⟨⟨fun _ _ => ⟨rfl, rfl, rfl⟩, ⟨fun h => by simp [exR] at h, ⟨fun h => by simp [exR] at h, ⟨fun h => by simp [exR] at h, trivial⟩⟩⟩⟩, ?_⟩
  decide

/-- the class of an outcome: "ok", the refusal class, or "panic" -/
def rejClass (o : Outcome Handed) : String :=
  match o with
  | .ok _ => "ok"
  | .err e => e
  | .panic _ => "panic"

/-- Rejections are reachable, one per class family, and the x509 refusal is not a rejection: a negative root serial
    is accepted, fails in the library and leaves the two keys; the next plain bootstrap is then refused by the key
    manager (library), `--overwrite` recovers. -/
example :
    rejClass (cmdOf exW exPt exEnv State.init { exB "2024-09-01T00:00:00Z" with rootKeySerial := ["abc"] }) = "parse:bigint" ∧
    rejClass (cmdOf exW exPt exEnv State.init (exB "2024-09-01 00:00:00")) = "parse:timestamp" ∧
    rejClass (cmdOf exW exPt exEnv State.init { exB "2024-09-01T00:00:00Z" with timestamp := ["2024-09-01T00:00:00Z", ""] }) = "parse:time-already-set" ∧
    rejClass (cmdOf exW exPt exEnv State.init { exB "2024-09-01T00:00:00Z" with keyDir := "nowhere" }) = "prerun:key_dir-stat" ∧
    rejClass (cmdOf exW exPt exEnv State.init { exB "2024-09-01T00:00:00Z" with rootPath := "", rootKeyCn := "", certDir := "" }) = "prerun:nonempty-011" ∧
    rejClass (cmdOf exW exPt exEnv State.init (exR "2024-09-01T00:00:00Z" [])) = "init:check-certs" ∧
    rejClass (cmdOf exMem exPt exEnv State.init (exR "2024-09-01T00:00:00Z" [])) = "init:next-serial" ∧
    (cmdOf exW exPt exEnv State.init { exB "2024-09-01T00:00:00Z" with rootPath := "", rootKeyCn := "rootA" }).isOk = true ∧
    (cliStep exW exPt exEnv State.init { exB "2024-09-01T00:00:00Z" with rootKeySerial := ["-1"] }).2 = false ∧
    ((cliStep exW exPt exEnv State.init { exB "2024-09-01T00:00:00Z" with rootKeySerial := ["-1"] }).1.km.live.map (·.1.show))
      = ["root", "primarySigningKey"] ∧
    (cliStep exW exPt exEnv (cliStep exW exPt exEnv State.init { exB "2024-09-01T00:00:00Z" with rootKeySerial := ["-1"] }).1
      (exB "2024-09-01T00:00:00Z")).2 = false ∧
    (cliStep exW exPt exEnv (cliStep exW exPt exEnv State.init { exB "2024-09-01T00:00:00Z" with rootKeySerial := ["-1"] }).1
      { exB "2024-09-01T00:00:00Z" with overwrite := true }).2 = true := by
  decide

/-- wipeout selectors on a bootstrapped store: `ca` then `keys` — the second is refused by localca's pre-check (the
    store is empty), the keys stay; `key` (a typo) succeeds and wipes nothing. -/
example :
    (cliStep exW exPt exEnv (cliRun exW exPt State.init [(exEnv, exB "2024-09-01T00:00:00Z")]) (exWipe ["key"])).2 = true ∧
    (cliStep exW exPt exEnv (cliRun exW exPt State.init [(exEnv, exB "2024-09-01T00:00:00Z")]) (exWipe ["key"])).1.ca =
      (cliRun exW exPt State.init [(exEnv, exB "2024-09-01T00:00:00Z")]).ca ∧
    ((cliStep exW exPt exEnv (cliRun exW exPt State.init [(exEnv, exB "2024-09-01T00:00:00Z")]) (exWipe ["key"])).1.km.live.map (·.1.show))
      = ["root", "primarySigningKey"] ∧
    rejClass (cmdOf exW exPt exEnv (cliRun exW exPt State.init [(exEnv, exB "2024-09-01T00:00:00Z"), (exEnv, exWipe ["ca"])]) (exWipe ["keys"])) = "init:check-certs" ∧
    ((cliRun exW exPt State.init [(exEnv, exB "2024-09-01T00:00:00Z"), (exEnv, exWipe ["ca"]), (exEnv, exWipe ["keys"])]).km.live.map (·.1.show))
      = ["root", "primarySigningKey"] := by
  decide

end GceTcb.KeyCli
