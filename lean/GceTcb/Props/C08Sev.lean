import GceTcb.Model.SevCfg
import GceTcb.Model.SevSites
import GceTcb.Proofs.SnpBounds
import GceTcb.Proofs.SnpConst
import GceTcb.Gen.PanicSitesSev
import GceTcb.Props.C04
/-
C08 (SEV half) — firmware analysis is total and resource-bounded on arbitrary images: the GUIDed-table
walk, SEV-ES reset block and SEV-SNP metadata extraction, sev.LaunchDigest and sev.UnsignedSnp.

Every theorem quantifies over ALL byte strings (`fw : List UInt8`, any length) and all launch options
(`vcpus : Int`, any product value, any hash function).  "No panic": no checked operation of the model
(slice / index / make, Go semantics) fails.  "Ticks": iterations of the repository's own loops.
-/
namespace GceTcb.Props.C08Sev
open GceTcb GceTcb.GuidTable GceTcb.SevMeta GceTcb.SevLd
open GceTcb.Proofs

/-! ## the model's panic sites are the code's -/

set_option maxRecDepth 100000 in
/-- Every index / slice / make / conversion / type-assertion expression of the SEV firmware-analysis
    functions (regenerated inventory) is accounted for by the model, and nothing else is. -/
theorem C08_sites :
    SevSites.modelledSites.map (·.1) = Gen.PanicSitesSev.siteKeys ∧
    SevSites.modelledSites.map (·.2.1) = Gen.PanicSitesSev.siteSrcs := by decide +kernel

/-- the sites at which the model can produce `panic` are inventoried expressions -/
theorem C08_checked_sites_inventoried :
    SevSites.checkedSites.all (fun c => Gen.PanicSitesSev.siteKeys.contains c) = true := by
  decide +kernel

/-! ## no panic -/

theorem C08_no_panic_GetFwGUIDToBlockMap (fw : Bytes) (p : String) : getFwGUIDToBlockMap fw ≠ .panic p :=
  SnpTotal.getFwGUIDToBlockMap_no_panic fw p

theorem C08_no_panic_ExtractFromFirmware (sevEs sevSnp : Bool) (fw : Bytes) (p : String) :
    extractFromFirmware sevEs sevSnp fw ≠ .panic p :=
  SnpTotal.extractFromFirmware_no_panic sevEs sevSnp fw p

theorem C08_no_panic_LaunchDigest (H : Bytes → Bytes) (o : Opts) (fw : Bytes) (p : String) :
    launchDigest H genCfg o fw ≠ .panic p :=
  SnpBounds.launchDigest_no_panic H genCfg C04.C04_cfg_is_spec o fw p

theorem C08_no_panic_UnsignedSnp (H : Bytes → Bytes) (familyOk imageOk : Bool) (launchVmsas product : Nat)
    (fw : Bytes) (p : String) :
    unsignedSnp H genCfg Gen.SevLayout.VmsaCounts familyOk imageOk launchVmsas product fw ≠ .panic p :=
  SnpBounds.unsignedSnp_no_panic H genCfg C04.C04_cfg_is_spec _ familyOk imageOk launchVmsas product fw p

/-- the repaired checks: a metadata offset below the 16-byte header, and a section count whose
    `count*12+16` wraps in 32 bits to the stored length, are errors (were: slice panics, D5) -/
theorem C08_offset_and_count_checked (m : BlockMap) (fw : Bytes) (count : Nat) (start : Int)
    (h : sevMetadataHeader m fw = .ok (count, start)) :
    0 ≤ start ∧ start + 12 * (count : Int) ≤ fw.length ∧ 12 * count + 16 ≤ fw.length :=
  SnpTotal.sevMetadataHeader_ok h

/-! ## termination -/

/-- The GUID-table walk terminates: one iteration removes an entry of at least 18 bytes from the
    unprocessed length.  (`guidWalk` is defined by well-founded recursion on that length; this lemma is
    the decreasing proof Lean's termination checker accepted.)  Hence at most `n/18 + 1` iterations. -/
theorem C08_guid_walk_terminates (table : Bytes) (n : Nat) (acc : BlockMap) :
    (∀ n' acc', walkStep table n acc = .ok (n', acc') → n' + 18 ≤ n) ∧
    guidWalkTicks table n acc ≤ n / 18 + 1 :=
  ⟨fun _ _ h => walkStep_decreases h, SnpTotal.guidWalkTicks_le table n acc⟩

/-! ## cost bounds -/

/-- GetFwGUIDToBlockMap: iterations linear in the image length -/
theorem C08_ticks_bound_GetFwGUIDToBlockMap (fw : Bytes) : getFwGUIDToBlockMapTicks fw ≤ fw.length / 18 + 1 :=
  SnpTotal.getFwGUIDToBlockMapTicks_le fw

/-- ExtractFromFirmware: table walk plus one iteration per 12-byte descriptor inside the image -/
theorem C08_ticks_bound_ExtractFromFirmware (sevEs sevSnp : Bool) (fw : Bytes) :
    extractFromFirmwareTicks sevEs sevSnp fw ≤ fw.length / 18 + 1 + fw.length / 12 :=
  SnpTotal.extractFromFirmwareTicks_le sevEs sevSnp fw

/-- the descriptor list an image can declare is bounded by its size (so are `make` and `append` on it) -/
theorem C08_alloc_bound_ExtractFromFirmware (fw : Bytes) (rb : Codecs.ResetBlock) (secs : List SnpSections.Sec)
    (h : extractFromFirmware true true fw = .ok (some rb, some secs)) : 12 * secs.length + 16 ≤ fw.length := by
  rcases SnpTotal.extractFromFirmware_tt fw with ⟨e, he⟩ | ⟨rb', secs', hp, hl, _⟩
  · rw [he] at h; cases h
  · rw [hp] at h; injection h with h; injection h with _ h2; injection h2 with h2; subst h2; exact hl

/-- The full-strength reading of "time related to the image size" for LaunchDigest: iterations bounded
    by the image length and the vCPU count alone. -/
def C08_ticks_bound_LaunchDigest_full : Prop :=
  ∀ (o : Opts) (fw : Bytes), launchDigestTicks genCfg o fw ≤ fw.length / 2 + 4 + 2 * o.vcpus.toNat

/-- What is proved: the bound holds up to the pages the image's own metadata DECLARES
    (`declaredPagesOf fw`, the sum over the parsed descriptors of `length/4096 + 1`), which are hashed one
    PAGE_INFO each and are not bounded by the image size (a 12-byte descriptor declares up to 2^20 pages). -/
theorem C08_ticks_bound_LaunchDigest_partial (o : Opts) (fw : Bytes) :
    launchDigestTicks genCfg o fw ≤ fw.length / 2 + 4 + 2 * o.vcpus.toNat + SnpBounds.declaredPagesOf fw :=
  SnpBounds.launchDigestTicks_le genCfg o fw

/-- Witness of the known finding (time unrelated to the image size): one 12-byte descriptor of an
    unmeasured range of 0xFFFFD000 bytes makes the section loop hash 1 048 573 pages, whatever the image
    size.  (The whole-image replay is the harness case `gen:huge-sections`.) -/
theorem C08_finding_declared_pages :
    measureSectionsTicks (productHigh 48) [⟨0, 0xFFFFD000, kindUnmeasured⟩] = 1 + 1048573 ∧
    ¬ (∀ (high : Nat) (secs : List SnpSections.Sec), measureSectionsTicks high secs ≤ 12 * secs.length + 16) := by
  have h : measureSectionsTicks (productHigh 48) [⟨0, 0xFFFFD000, kindUnmeasured⟩] = 1 + 1048573 := by decide
  refine ⟨h, fun hall => ?_⟩
  have := hall (productHigh 48) [⟨0, 0xFFFFD000, kindUnmeasured⟩]
  rw [h] at this
  simp at this

/-- **What valid metadata can declare, absolutely.**  Descriptor addresses and lengths are 32-bit fields and
    validateSections accepts only non-empty whole-page lengths and pairwise disjoint ranges (64-bit ends),
    so the ranges lie side by side below 2^33 − 4097: an image that parses and passes validateSections
    declares at most 2^21 − 2 pages (8 GiB − 8 KiB) in at most 2^21 − 2 descriptors (also ≤ (|image| − 16)/12),
    and `declaredPagesOf` — the quantity in `C08_ticks_bound_LaunchDigest_partial` — is that page count plus
    one per descriptor. -/
theorem C08_declared_pages_bound (fw : Bytes) (rb : Codecs.ResetBlock) (secs : List SnpSections.Sec)
    (hp : extractFromFirmware true true fw = .ok (some rb, some secs)) (hv : validateSections secs = .ok ()) :
    SnpBounds.declaredPagesOf fw = SnpConst.totalPages secs + secs.length ∧
    SnpConst.totalPages secs ≤ 2 ^ 21 - 2 ∧ secs.length ≤ 2 ^ 21 - 2 ∧ 12 * secs.length + 16 ≤ fw.length ∧
    SnpBounds.declaredPagesOf fw ≤ 2 ^ 21 - 2 + (fw.length - 16) / 12 := by
  obtain ⟨h1, h2, h3, h4⟩ := SnpConst.declaredPagesOf_le fw rb secs hp hv
  exact ⟨h1, h2, h3, h4, by omega⟩

/-- The constant is attained by valid, page-aligned metadata of four descriptors (the section loop then runs
    4 + 2 097 150 iterations on Milan): the bound cannot be lowered without a policy on declared sizes. -/
theorem C08_declared_pages_bound_tight :
    SnpSections.SectionsValid SnpConst.maxSecs ∧ validateSections SnpConst.maxSecs = .ok () ∧
    SnpConst.totalPages SnpConst.maxSecs = 2 ^ 21 - 2 ∧
    measureSectionsTicks (productHigh 48) SnpConst.maxSecs = 4 + (2 ^ 21 - 2) :=
  ⟨SnpConst.maxSecs_valid, (SnpSections.validateSections_ok_iff _).mpr SnpConst.maxSecs_valid,
   SnpConst.maxSecs_pages.1, SnpConst.maxSecs_pages.2⟩

/-- **The known finding D5f made precise.**  The iterations of sev.LaunchDigest are bounded by the image
    length, the vCPU count and a CONSTANT independent of the image: the declared pages are hashed only after
    validateSections has accepted the metadata, and accepted metadata declares at most 2^21 − 2 pages.  So the
    time is bounded — by 2 097 150 PAGE_INFO hashes of 112 bytes beyond the linear part — but the bound is not
    a function of the image size, which `C08_ticks_bound_LaunchDigest_full` would require
    (`C08_finding_declared_pages`: a 4 KiB image reaches 2^20 of them). -/
theorem C08_ticks_bound_LaunchDigest_const (o : Opts) (fw : Bytes) :
    launchDigestTicks genCfg o fw ≤ fw.length / 2 + 4 + 2 * o.vcpus.toNat + (2 ^ 21 - 2) :=
  SnpConst.launchDigestTicks_le_const genCfg o fw

/-- A product without a known address width costs nothing: the refusal (the product-check fix) precedes every loop — no GUID
    walk, no page is hashed — so the bounds above hold for every product value, trivially for these. -/
theorem C08_ticks_unsupported_product (o : Opts) (hp : o.product ≠ 1 ∧ o.product ≠ 2) (fw : Bytes) :
    launchDigestTicks genCfg o fw = 0 ∧ launchDigestAlloc genCfg o fw = 8192 + 4112 * o.vcpus.toNat := by
  have hs := SnpExample.genSupported_false o.product hp
  have ht : launchDigestTicks genCfg o fw = 0 := by
    unfold launchDigestTicks
    split
    · rfl
    · simp [hs]
  exact ⟨ht, by unfold launchDigestAlloc; rw [ht]⟩

/-- allocation account likewise: linear part plus at most 128 bytes for each of the 2^21 − 2 pages (256 MiB
    of short-lived PAGE_INFO buffers in total, never live at once) -/
theorem C08_alloc_bound_LaunchDigest_const (o : Opts) (fw : Bytes) :
    launchDigestAlloc genCfg o fw ≤ 64 * fw.length + 4368 * o.vcpus.toNat + (8704 + 128 * (2 ^ 21 - 2)) :=
  SnpConst.launchDigestAlloc_le_const genCfg o fw

/-- UnsignedSnp with the constant: one LaunchDigest per requested count -/
theorem C08_ticks_bound_UnsignedSnp_const (launchVmsas product : Nat) (fw : Bytes) :
    unsignedSnpTicks genCfg Gen.SevLayout.VmsaCounts launchVmsas product fw ≤
      (vmsaCounts Gen.SevLayout.VmsaCounts launchVmsas).length * (fw.length / 2 + 4 + (2 ^ 21 - 2)) +
      2 * (vmsaCounts Gen.SevLayout.VmsaCounts launchVmsas).sum := by
  unfold unsignedSnpTicks
  generalize vmsaCounts Gen.SevLayout.VmsaCounts launchVmsas = cs
  induction cs with
  | nil => simp
  | cons n rest ih =>
    have := SnpConst.launchDigestTicks_le_const genCfg ⟨(n : Nat), product⟩ fw
    simp only [List.map_cons, List.sum_cons, List.length_cons, Int.toNat_natCast] at this ih ⊢
    rw [Nat.add_mul, Nat.one_mul]
    omega

/-- allocation account of LaunchDigest: linear in image length, vCPU count and declared pages -/
theorem C08_alloc_bound_LaunchDigest (o : Opts) (fw : Bytes) :
    launchDigestAlloc genCfg o fw ≤ 64 * fw.length + 4368 * o.vcpus.toNat + 128 * SnpBounds.declaredPagesOf fw + 8704 :=
  SnpBounds.launchDigestAlloc_le genCfg o fw

/-- UnsignedSnp: one LaunchDigest per requested count -/
theorem C08_ticks_bound_UnsignedSnp (launchVmsas product : Nat) (fw : Bytes) :
    unsignedSnpTicks genCfg Gen.SevLayout.VmsaCounts launchVmsas product fw ≤
      (vmsaCounts Gen.SevLayout.VmsaCounts launchVmsas).length * (fw.length / 2 + 4 + SnpBounds.declaredPagesOf fw) +
      2 * (vmsaCounts Gen.SevLayout.VmsaCounts launchVmsas).sum := by
  unfold unsignedSnpTicks
  generalize vmsaCounts Gen.SevLayout.VmsaCounts launchVmsas = cs
  induction cs with
  | nil => simp
  | cons n rest ih =>
    have := SnpBounds.launchDigestTicks_le genCfg ⟨(n : Nat), product⟩ fw
    simp only [List.map_cons, List.sum_cons, List.length_cons, Int.toNat_natCast] at this ih ⊢
    rw [Nat.add_mul, Nat.one_mul]
    omega

/-! ## non-vacuity -/

-- a table whose single entry has size 18 is walked in one step; size 17 is refused, never looped on
example : walkStep (Codecs.zeros 16 ++ [18, 0]).reverse.reverse 18 [] ≠ .err "x" := by decide
example : (vmsaCounts Gen.SevLayout.VmsaCounts 0).sum = 1079 := by decide
example : SnpBounds.declaredPages [⟨0, 0xFFFFD000, 1⟩] = 1048574 := by decide
-- Turin (3) on the example image: refused before any loop; Milan on the same image runs the loops
example : launchDigestTicks genCfg ⟨4, 3⟩ SevExample.exFw = 0 := (C08_ticks_unsupported_product ⟨4, 3⟩ (by decide) _).1
-- the hypotheses of `C08_declared_pages_bound` are inhabited: the kernel-evaluated example image of C04 (12 pages)
example : SnpBounds.declaredPagesOf SevExample.exFw = 12 + 4 := by
  have h := C08_declared_pages_bound _ _ _ SnpExample.ex_parse
    ((SnpSections.validateSections_ok_iff _).mpr SnpExample.ex_sectionsValid)
  rw [h.1]; decide

end GceTcb.Props.C08Sev
