import GceTcb.Proofs.Kms
import GceTcb.Proofs.Crc32c
/-
C20 — Cloud KMS signing and key lifecycle are integrity-checked and complete.
Property theorems only (helper lemmas live in Proofs/Kms.lean; the model in Model/Kms.lean).

The model is the code after the commit "fix: iterate KMS listings until the next-page token is empty"
(`Style.fixed`); the loop before the fix (`Style.old`) is kept for the two witnesses `C20_old_loop_*`.
Everything is stated for an arbitrary service: arbitrary pagers, version sets, fault scripts, poll answers.
CRC32C is an abstract `crc` in the general theorems; the single-bit corollary is stated for any `crc` with
`CrcSingleBit` and then, without hypothesis, for the executable CRC32C of the model (`C20_crc32c_single_bit`,
`C20_sign_detects_single_bit_crc32c`), which the driver compares with Go's hash/crc32 on every run.
-/
namespace GceTcb.Kms

/-! ## Signing -/

/-- A signature is returned only if the service answered the request Sign built, the answer's checksum
    matches the returned signature, and the service confirmed both request checksums. -/
theorem C20_sign_checked (crc : Bytes → Nat) (svc : SignReq → Option SignResp) (name : String) (digest : Bytes)
    (opts : SignerOpts) (sent : Option SignReq) (s : Bytes)
    (h : sign crc svc name digest opts = ⟨sent, .sig s⟩) :
    ∃ r, svc (mkSignReq crc name digest) = some r ∧ sent = some (mkSignReq crc name digest) ∧
      r.signature = s ∧ (crc s : Int) = r.sigCrc ∧ r.verifiedData = true ∧ r.verifiedDigest = true := by
  cases opts with
  | other => simp [sign] at h
  | nilPss => simp [sign] at h
  | pss sa ha =>
    rw [sign_pss] at h
    by_cases ho : optsOk (.pss sa ha) = true
    · rw [if_pos ho] at h
      cases hs : svc (mkSignReq crc name digest) with
      | none => rw [hs] at h; simp at h
      | some r =>
        rw [hs] at h
        simp only [SignResult.mk.injEq] at h
        obtain ⟨h1, h2⟩ := h
        unfold checkResp at h2
        by_cases c1 : (crc r.signature : Int) ≠ r.sigCrc
        · rw [if_pos c1] at h2; cases h2
        · rw [if_neg c1] at h2
          by_cases c2 : r.verifiedData = false
          · rw [if_pos c2] at h2; cases h2
          · rw [if_neg c2] at h2
            by_cases c3 : r.verifiedDigest = false
            · rw [if_pos c3] at h2; cases h2
            · rw [if_neg c3] at h2
              injection h2 with h2
              refine ⟨r, rfl, h1.symm, h2, ?_, by simpa using c2, by simpa using c3⟩
              rw [← h2]; exact Decidable.of_not_not c1
    · rw [if_neg ho] at h; simp at h

/-- Requests are sent, and signatures returned, only for `&rsa.PSSOptions{SaltLength: -1 (= hash length),
    Hash: crypto.SHA256 (5)}`; the request then carries the key version name, the digest and the CRCs
    of the digest and of the (empty) data. -/
theorem C20_sign_opts (crc : Bytes → Nat) (svc : SignReq → Option SignResp) (name : String) (digest : Bytes)
    (opts : SignerOpts)
    (h : (sign crc svc name digest opts).sent ≠ none ∨ ∃ s, (sign crc svc name digest opts).out = .sig s) :
    opts = .pss (-1) 5 ∧ (sign crc svc name digest opts).sent = some ⟨name, digest, crc digest, crc []⟩ := by
  cases opts with
  | other => simp [sign] at h
  | nilPss => simp [sign] at h
  | pss sa ha =>
    by_cases ho : optsOk (.pss sa ha) = true
    · have hsa : sa = -1 ∧ ha = 5 := by
        simp only [optsOk, Bool.and_eq_true, beq_iff_eq] at ho
        exact ⟨ho.1.trans (by decide), ho.2.trans (by decide)⟩
      refine ⟨by rw [hsa.1, hsa.2], ?_⟩
      rw [sign_pss, if_pos ho]
      cases svc (mkSignReq crc name digest) <;> rfl
    · rw [sign_pss, if_neg ho] at h
      simp at h

/-- The extracted option constants are RSA-PSS with salt length = hash length (−1) and SHA-256 (5, 32 bytes). -/
theorem C20_sign_opts_table :
    Gen.Kms.wantSalt = -1 ∧ Gen.Kms.wantHash = 5 ∧ Gen.Kms.wantHashSize = 32 := by decide

/-- The source of Sign still rejects on each of the four response fields (extracted from the `if`s). -/
theorem C20_sign_checks_extracted :
    Gen.Kms.signChecks = ["GetSignature", "GetSignatureCrc32C", "GetVerifiedDataCrc32C", "GetVerifiedDigestCrc32C"] := by
  decide

/-- A response whose checksum is wrong, or that does not confirm a request checksum, yields no signature. -/
theorem C20_sign_rejects_unconfirmed (crc : Bytes → Nat) (svc : SignReq → Option SignResp) (name : String)
    (digest : Bytes) (opts : SignerOpts) (r : SignResp) (hr : svc (mkSignReq crc name digest) = some r)
    (hbad : (crc r.signature : Int) ≠ r.sigCrc ∨ r.verifiedData = false ∨ r.verifiedDigest = false) :
    ∀ s, (sign crc svc name digest opts).out ≠ .sig s := by
  intro s hs
  obtain ⟨r', hr', _, h1, h2, h3, h4⟩ := C20_sign_checked crc svc name digest opts
    (sign crc svc name digest opts).sent s (by rw [← hs])
  rw [hr] at hr'; injection hr' with hr'; subst hr'
  rcases hbad with hb | hb | hb
  · rw [h1] at hb; exact hb h2
  · rw [hb] at h3; cases h3
  · rw [hb] at h4; cases h4

/-- Corollary under the trusted hypothesis `CrcSingleBit`: if the service computed the checksum over the
    signature it produced and one bit of the signature flipped in transit, no signature is returned. -/
theorem C20_sign_detects_single_bit (crc : Bytes → Nat) (crc_single_bit : CrcSingleBit crc)
    (svc : SignReq → Option SignResp) (name : String) (digest : Bytes) (opts : SignerOpts)
    (sig0 : Bytes) (i : Nat) (hi : i < 8 * sig0.length) (r : SignResp)
    (hr : svc (mkSignReq crc name digest) = some r)
    (hflip : r.signature = flipBit sig0 i) (hsum : r.sigCrc = crc sig0) :
    ∀ s, (sign crc svc name digest opts).out ≠ .sig s := by
  apply C20_sign_rejects_unconfirmed crc svc name digest opts r hr
  left
  rw [hflip, hsum]
  intro h
  exact crc_single_bit sig0 i hi (Int.ofNat.inj h)

/-- CRC32C itself (the executable `crc32c` the driver checks against hash/crc32) changes under every single
    flipped bit of every byte string: the former trusted hypothesis is a theorem. -/
theorem C20_crc32c_single_bit : CrcSingleBit crc32c := crc32c_single_bit

/-- The single-bit clause with nothing assumed about the checksum. -/
theorem C20_sign_detects_single_bit_crc32c
    (svc : SignReq → Option SignResp) (name : String) (digest : Bytes) (opts : SignerOpts)
    (sig0 : Bytes) (i : Nat) (hi : i < 8 * sig0.length) (r : SignResp)
    (hr : svc (mkSignReq crc32c name digest) = some r)
    (hflip : r.signature = flipBit sig0 i) (hsum : r.sigCrc = crc32c sig0) :
    ∀ s, (sign crc32c svc name digest opts).out ≠ .sig s :=
  C20_sign_detects_single_bit crc32c crc32c_single_bit svc name digest opts sig0 i hi r hr hflip hsum

/-- The clause "the response names the requested key version" (Cloud KMS data-integrity guidelines) —
    not part of the property text, and not checked by sign.go. -/
def SignNameChecked : Prop :=
  ∀ (crc : Bytes → Nat) (svc : SignReq → Option SignResp) (name : String) (digest : Bytes) (opts : SignerOpts)
    (sent : Option SignReq) (s : Bytes), sign crc svc name digest opts = ⟨sent, .sig s⟩ →
    ∃ r, svc (mkSignReq crc name digest) = some r ∧ r.name = name

/-- Observation outside the property text (not counted as a finding): a response that names another key
    version is accepted when its checksum and verified flags are consistent. -/
theorem C20_note_response_name_unchecked : ¬ SignNameChecked := by
  intro h
  obtain ⟨r, hr, hn⟩ := h (fun _ => 0) (fun _ => some ⟨[], 0, true, true, "other"⟩) "kv" [] (.pss (-1) 5)
    (some ⟨"kv", [], 0, 0⟩) [] (by decide)
  injection hr with hr
  rw [← hr] at hn
  revert hn; decide

/-- Non-vacuity: a clean response produces a signature; a flipped flag or checksum does not. -/
example :
    (sign (fun bs => bs.length) (fun _ => some ⟨[1, 2], 2, true, true, "kv"⟩) "kv" [7] (.pss (-1) 5)).out = .sig [1, 2] ∧
    (sign (fun bs => bs.length) (fun _ => some ⟨[1, 2], 3, true, true, "kv"⟩) "kv" [7] (.pss (-1) 5)).out = .err "signature_crc32c" ∧
    (sign (fun bs => bs.length) (fun _ => some ⟨[1, 2], 2, true, false, "kv"⟩) "kv" [7] (.pss (-1) 5)).out = .err "verified_digest_crc32c" ∧
    (sign (fun bs => bs.length) (fun _ => some ⟨[1, 2], 2, true, true, "kv"⟩) "kv" [7] (.pss 0 5)).sent = none := by
  decide

/-! ## The destroyable-state table -/

/-- Exactly ENABLED and DISABLED are destroyable, and every state of the kmspb enum except UNSPECIFIED has
    a row (so no real state is an "unknown key state" error). -/
theorem C20_destroyable_table :
    destroyableState stEnabled = some true ∧ destroyableState stDisabled = some true ∧
    (∀ p ∈ Gen.Kms.destroyableTable, p.2 = true → p.1 = stEnabled ∨ p.1 = stDisabled) ∧
    (∀ p ∈ Gen.Kms.allStates, p.1 ≠ 0 → (destroyableState p.1).isSome = true) := by
  decide

/-! ## Wipeout -/

/-- Explicit-pages form: legal pagers given as walks. -/
theorem C20_wipeout_complete_walks (svc : Svc) (st : St) (fuel : Nat) (kpages : List (Page String))
    (vp : String → List (Page String)) (hk : Walk svc.keys "" kpages)
    (hv : ∀ k ∈ flatItems kpages, Walk (svc.vers k) "" (vp k))
    (a : Acc) (hres : wipeout .fixed svc fuel st = some a) (hok : a.failed = false) :
    ∀ k ∈ flatItems kpages, ∀ v ∈ flatItems (vp k),
      a.st.state v ≠ stEnabled ∧ a.st.state v ≠ stDisabled :=
  wipeoutLoop_gone svc fuel vp kpages fuel "" ⟨st, false⟩ a hk hv hres hok

/-- Wipeout is complete: for ANY number of keys and versions, ANY legal paging of the key listing and of
    every version listing, ANY fault script — if Wipeout returns without error then no version of any key
    is left ENABLED or DISABLED. -/
theorem C20_wipeout_complete (svc : Svc) (st : St) (fuel : Nat) (allKeys : List String)
    (allVers : String → List String) (hk : LegalPager svc.keys allKeys)
    (hv : ∀ k ∈ allKeys, LegalPager (svc.vers k) (allVers k))
    (a : Acc) (hres : wipeout .fixed svc fuel st = some a) (hok : a.failed = false) :
    ∀ k ∈ allKeys, ∀ v ∈ allVers k, a.st.state v ≠ stEnabled ∧ a.st.state v ≠ stDisabled := by
  obtain ⟨kpages, hkw, hkf⟩ := hk
  subst hkf
  classical
  let vp : String → List (Page String) := fun k =>
    if h : k ∈ flatItems kpages then Classical.choose (hv k h) else []
  have hvp : ∀ k (h : k ∈ flatItems kpages), Walk (svc.vers k) "" (vp k) ∧ flatItems (vp k) = allVers k := by
    intro k h
    have := Classical.choose_spec (hv k h)
    simp only [vp, dif_pos h]
    exact this
  intro k hkm v hvm
  have := C20_wipeout_complete_walks svc st fuel kpages vp hkw (fun k h => (hvp k h).1) a hres hok k hkm v
  apply this
  rw [(hvp k hkm).2]; exact hvm

/-- Service errors never make Wipeout report success: a failed listing, a failed Destroy or an unknown
    state each leave the error flag set (any pager, any style). -/
theorem C20_wipeout_error_reported (sty : Style) (svc : Svc) (key : String) (fuel : Nat) (tok : String) (a r : Acc)
    (h : wipeoutKeyLoop sty svc key fuel tok a = some r) (ha : a.failed = true) : r.failed = true :=
  (wipeoutKeyLoop_mono sty svc key fuel tok a r h).1 ha

/-- The listing loops of Wipeout terminate on all legal pagers: there is one result `a` that every fuel
    `≥ F` produces (`F` any bound on the page counts), and the number of list calls is at most the number
    of pages (key pages + version pages of every key). -/
theorem C20_lists_terminate (svc : Svc) (st : St) (kpages : List (Page String))
    (vp : String → List (Page String)) (F : Nat) (hk : Walk svc.keys "" kpages)
    (hv : ∀ k ∈ flatItems kpages, Walk (svc.vers k) "" (vp k))
    (hF : kpages.length ≤ F ∧ ∀ k ∈ flatItems kpages, (vp k).length ≤ F) :
    ∃ a, (∀ fuel, F ≤ fuel → wipeout .fixed svc fuel st = some a) ∧
      nList a.st.log ≤ nList st.log + kpages.length + pagesOf vp (flatItems kpages) := by
  obtain ⟨a, ha, hn⟩ := wipeoutLoop_terminates svc F vp kpages F "" ⟨st, false⟩ hk hF.1
    (fun k h => ⟨hv k h, hF.2 k h⟩)
  refine ⟨a, ?_, hn⟩
  intro fuel hfuel
  have := wipeoutLoop_fuel_mono .fixed svc F F "" ⟨st, false⟩ a ha (fuel - F) (fuel - F)
  have e : F + (fuel - F) = fuel := by omega
  rw [e] at this
  exact this

/-- Per key: one list call per page, same result for every sufficient fuel. -/
theorem C20_lists_terminate_key (svc : Svc) (key : String) (pages : List (Page String)) (a : Acc)
    (hw : Walk (svc.vers key) "" pages) :
    ∃ r, (∀ fuel, pages.length ≤ fuel → wipeoutKeyLoop .fixed svc key fuel "" a = some r) ∧
      nList r.st.log ≤ nList a.st.log + pages.length := by
  obtain ⟨r, hr, hn⟩ := wipeoutKeyLoop_terminates svc key pages pages.length "" a hw (Nat.le_refl _)
  refine ⟨r, ?_, hn⟩
  intro fuel hfuel
  have := wipeoutKeyLoop_fuel_mono .fixed svc key pages.length "" a r hr (fuel - pages.length)
  have e : pages.length + (fuel - pages.length) = fuel := by omega
  rw [e] at this
  exact this

/-- Bootstrap's listing loop: never out of fuel on a legal pager, at most one list call per page,
    whatever the faults and totals. -/
theorem C20_lists_terminate_bootstrap (svc : Svc) (key : String) (pages : List (Page String)) (fuel : Nat)
    (pend : Option Ver) (st : St) (hw : Walk (svc.vers key) "" pages) (hfuel : pages.length ≤ fuel) :
    (gepLoop .fixed svc key fuel "" pend st).2 ≠ .diverged ∧
    (gepLoop .fixed svc key fuel "" pend st).1.log.length ≤ st.log.length + pages.length :=
  gepLoop_terminates svc key pages fuel "" pend st hw hfuel

/-! ## Bootstrap -/

/-- Selection: on a legal pager (honest non-zero totals, no listing fault) the listing loop returns the
    FIRST ENABLED version of the whole listing if there is one, else the LAST PENDING_GENERATION one, else
    ErrNoKeyVersions — however the listing is cut into pages. -/
theorem C20_bootstrap_selects (svc : Svc) (key : String) (st : St) (pages : List (Page String)) (fuel : Nat)
    (hfail : ∀ i, svc.fail i = false) (hw : Walk (svc.vers key) "" pages) (hfuel : pages.length ≤ fuel)
    (htot : ∀ pg ∈ pages, pg.total ≠ 0) :
    (gepLoop .fixed svc key fuel "" none st).2 =
      (match (snapshot st (flatItems pages)).find? isEn with
       | some v => .found v
       | none => gepEnd (lastPending (snapshot st (flatItems pages)) none)) := by
  rw [(gepLoop_walk svc key hfail pages fuel "" none st hw hfuel htot).1, scanPage_eq]
  cases (snapshot st (flatItems pages)).find? isEn <;> rfl

/-- … so when an ENABLED version exists, waitForKeyGen returns its name without polling or creating
    (the final state is the listing loop's). -/
theorem C20_bootstrap_selects_enabled (svc : Svc) (key : String) (st : St) (pages : List (Page String))
    (fuelL fuelP : Nat) (hfail : ∀ i, svc.fail i = false) (hw : Walk (svc.vers key) "" pages)
    (hfuel : pages.length ≤ fuelL) (htot : ∀ pg ∈ pages, pg.total ≠ 0)
    (v : Ver) (hv : (snapshot st (flatItems pages)).find? isEn = some v) :
    waitForKeyGen .fixed svc key fuelL fuelP st = ((gepLoop .fixed svc key fuelL "" none st).1, .ok v.name) ∧
    v ∈ snapshot st (flatItems pages) ∧ v.state = stEnabled := by
  have hsel := C20_bootstrap_selects svc key st pages fuelL hfail hw hfuel htot
  rw [hv] at hsel
  have hen : v.state = stEnabled := by
    have := List.find?_some hv
    simpa [isEn] using this
  refine ⟨?_, List.mem_of_find?_eq_some hv, hen⟩
  unfold waitForKeyGen
  cases hg : gepLoop .fixed svc key fuelL "" none st with
  | mk st1 g =>
    rw [hg] at hsel
    simp only at hsel
    subst hsel
    simp only [awaitVersion, if_pos hen]

/-- … when none is ENABLED but some version is PENDING_GENERATION, waitForKeyGen waits for (polls) the
    last pending one and creates nothing. -/
theorem C20_bootstrap_waits_pending (svc : Svc) (key : String) (st : St) (pages : List (Page String))
    (fuelL fuelP : Nat) (hfail : ∀ i, svc.fail i = false) (hw : Walk (svc.vers key) "" pages)
    (hfuel : pages.length ≤ fuelL) (htot : ∀ pg ∈ pages, pg.total ≠ 0)
    (hnone : (snapshot st (flatItems pages)).find? isEn = none)
    (v : Ver) (hv : lastPending (snapshot st (flatItems pages)) none = some v) :
    waitForKeyGen .fixed svc key fuelL fuelP st = poll svc v.name fuelP 0 (gepLoop .fixed svc key fuelL "" none st).1 ∧
    v ∈ snapshot st (flatItems pages) ∧ v.state = stPending := by
  have hsel := C20_bootstrap_selects svc key st pages fuelL hfail hw hfuel htot
  rw [hnone, hv] at hsel
  have hpe : v ∈ snapshot st (flatItems pages) ∧ v.state = stPending := by
    rcases lastPending_some _ _ _ hv with h | h
    · exact h
    · cases h
  refine ⟨?_, hpe⟩
  have hne : ¬ v.state = stEnabled := by rw [hpe.2]; decide
  unfold waitForKeyGen
  cases hg : gepLoop .fixed svc key fuelL "" none st with
  | mk st1 g =>
    rw [hg] at hsel
    simp only [gepEnd] at hsel
    subst hsel
    simp only [awaitVersion, if_neg hne]

/-- … and when there is neither, a new version is created (and awaited). -/
theorem C20_bootstrap_creates (svc : Svc) (key : String) (st : St) (pages : List (Page String))
    (fuelL fuelP : Nat) (hfail : ∀ i, svc.fail i = false) (hw : Walk (svc.vers key) "" pages)
    (hfuel : pages.length ≤ fuelL) (htot : ∀ pg ∈ pages, pg.total ≠ 0)
    (hnone : (snapshot st (flatItems pages)).find? isEn = none)
    (hnop : lastPending (snapshot st (flatItems pages)) none = none) :
    waitForKeyGen .fixed svc key fuelL fuelP st =
      awaitVersion svc fuelP svc.createVer
        ((gepLoop .fixed svc key fuelL "" none st).1.push (.createVer key) true) ∧
    (∀ v ∈ snapshot st (flatItems pages), v.state ≠ stEnabled ∧ v.state ≠ stPending) := by
  have hsel := C20_bootstrap_selects svc key st pages fuelL hfail hw hfuel htot
  rw [hnone, hnop] at hsel
  constructor
  · unfold waitForKeyGen
    cases hg : gepLoop .fixed svc key fuelL "" none st with
    | mk st1 g =>
      rw [hg] at hsel
      simp only [gepEnd] at hsel
      subst hsel
      have hf : ¬ svc.fail st1.idx = true := by rw [hfail]; simp
      simp only [createVersion, if_neg hf]
  · intro v hv
    refine ⟨?_, lastPending_none _ hnop v hv⟩
    have := List.find?_eq_none.mp hnone v hv
    simpa [isEn] using this

/-- Safety for ANY pager, style and fault script: a name returned by CreateNewRootKey was reported
    ENABLED by the service (in the listing, by CreateCryptoKeyVersion, or by a poll). -/
theorem C20_bootstrap_enabled_only (sty : Style) (svc : Svc) (keep : Bool) (id key : String)
    (fuelL fuelP : Nat) (st st' : St) (n : String)
    (h : createNewRootKey sty svc keep id key fuelL fuelP st = (st', .ok n)) :
    ReportedEnabled svc key st.state n :=
  createNewRootKey_ok sty svc keep id key fuelL fuelP st st' n h

/-- The same for CreateFirstSigningKey. -/
theorem C20_bootstrap_enabled_only_signing (sty : Style) (svc : Svc) (keep : Bool) (id key : String)
    (fuelL fuelP : Nat) (st st' : St) (n : String)
    (h : createFirstSigningKey sty svc keep id key fuelL fuelP st = (st', .ok n)) :
    ReportedEnabled svc key st.state n :=
  createFirstSigningKey_ok sty svc keep id key fuelL fuelP st st' n h

/-! ## Polling and rotation -/

/-- Version polling terminates: at most `fuel + 1` GetCryptoKeyVersion calls (fuel = polls the deadline
    still allows after the first). -/
theorem C20_poll_terminates (svc : Svc) (name : String) (fuel i : Nat) (st : St) :
    (poll svc name fuel i st).1.log.length ≤ st.log.length + fuel + 1 :=
  poll_calls svc name fuel i st

/-- Rotation returns only an ENABLED version: the returned name comes from a poll answer in state
    ENABLED for the created version, all earlier answers having been PENDING_GENERATION — whatever state
    CreateCryptoKeyVersion itself reported. -/
theorem C20_rotate_enabled_only (svc : Svc) (key : String) (fuelP : Nat) (st st' : St) (n : String)
    (h : createNewSigningKeyVersion svc key fuelP st = (st', .ok n)) :
    ∃ j w, j ≤ fuelP ∧ svc.gets j svc.createVer.name = some w ∧ w.state = stEnabled ∧ w.name = n ∧
      ∀ j', j' < j → ∃ w', svc.gets j' svc.createVer.name = some w' ∧ w'.state = stPending := by
  unfold createNewSigningKeyVersion createVersion at h
  by_cases hf : svc.fail st.idx = true
  · rw [if_pos hf] at h; simp at h
  · rw [if_neg hf] at h
    dsimp only at h
    obtain ⟨j, w, _, h2, hg, hen, hn, hall⟩ := poll_ok svc svc.createVer.name fuelP 0 _ st' n h
    exact ⟨j, w, by omega, hg, hen, hn, fun j' hj => hall j' (Nat.zero_le _) hj⟩

/-- Non-vacuity (rotation): created PENDING, polled PENDING then ENABLED → returned; polled PENDING only
    → not returned. -/
example :
    let svc : Svc := ⟨fun _ => ⟨[], "", 0⟩, fun _ _ => ⟨[], "", 0⟩, fun _ => false, false, false, ⟨"K/c", stPending⟩,
      fun i nm => if i = 0 then some ⟨nm, stPending⟩ else some ⟨nm, stEnabled⟩⟩
    (createNewSigningKeyVersion svc "K" 1 ⟨fun _ => 0, []⟩).2 = .ok "K/c" ∧
    (createNewSigningKeyVersion svc "K" 0 ⟨fun _ => 0, []⟩).2 = .err "timeout" := by
  decide

/-! ## The loop before the fix -/

/-- Old loop, full last page (all pages full, e.g. exactly `keyPageSize` versions in one page): for every
    fuel the per-key loop runs out of fuel — after the last page it restarts from the first, forever. -/
theorem C20_old_loop_diverges (svc : Svc) (key : String) (ps : Nat) (pages : List (Page String))
    (hfail : ∀ i, svc.fail i = false) (hw : Walk (svc.vers key) "" pages)
    (hfull : ∀ pg ∈ pages, ps ≤ pg.items.length) :
    ∀ (n : Nat) (a : Acc), wipeoutKeyLoop (.old ps) svc key n "" a = none :=
  fun n a => oldKeyLoop_none svc key ps pages hfail hw hfull n "" a ⟨[], pages, rfl, hw⟩

/-- A legal pager with a full last page (exactly `keyPageSize` = 100 versions in one page, as
    testing/testkms would return them): legal, the old loop diverges on it, the fixed loop ends after one
    list call. -/
example :
    let svc : Svc := ⟨fun _ => ⟨[], "", 0⟩, fun _ _ => ⟨List.replicate 100 "v", "", 100⟩, fun _ => false, false, false,
      ⟨"", 0⟩, fun _ _ => none⟩
    LegalPager (svc.vers "k") (List.replicate 100 "v") ∧
    (∀ n a, wipeoutKeyLoop (.old Gen.Kms.keyPageSize) svc "k" n "" a = none) ∧
    (∀ a, (wipeoutKeyLoop .fixed svc "k" 1 "" a).isSome = true) := by
  intro svc
  have hw : Walk (svc.vers "k") "" [⟨List.replicate 100 "v", "", 100⟩] := walk_single.mpr ⟨rfl, rfl⟩
  refine ⟨⟨_, hw, by simp [flatItems]⟩, ?_, ?_⟩
  · exact C20_old_loop_diverges svc "k" Gen.Kms.keyPageSize _ (fun _ => rfl) hw
      (by intro pg hpg; simp only [List.mem_singleton] at hpg; subst hpg; simp [Gen.Kms.keyPageSize])
  · intro a
    obtain ⟨r, hr, _⟩ := C20_lists_terminate_key svc "k" _ a hw
    rw [hr 1 (by simp)]; rfl

/-- Old loop, short page that carries a token: a legal pager on which the old loop reports success and
    leaves a listed version ENABLED (it never asks for the second page). -/
theorem C20_old_loop_misses :
    ∃ (svc : Svc) (st : St) (all : List String) (r : Acc),
      LegalPager (svc.vers "k") all ∧ (∀ i, svc.fail i = false) ∧
      wipeoutKeyLoop (.old Gen.Kms.keyPageSize) svc "k" 10 "" ⟨st, false⟩ = some r ∧ r.failed = false ∧
      ∃ v ∈ all, r.st.state v = stEnabled := by
  let p : Pager String := fun tok => if tok = "" then ⟨["a"], "t1", 2⟩ else ⟨["b"], "", 2⟩
  refine ⟨⟨fun _ => ⟨[], "", 0⟩, fun _ => p, fun _ => false, false, false, ⟨"", 0⟩, fun _ _ => none⟩,
    ⟨fun _ => stEnabled, []⟩, ["a", "b"], _, ⟨[⟨["a"], "t1", 2⟩, ⟨["b"], "", 2⟩], ?_, rfl⟩, fun _ => rfl, rfl, ?_, "b", ?_, ?_⟩
  · exact walk_cons_cons.mpr ⟨by decide, by decide, walk_single.mpr ⟨by decide, rfl⟩⟩
  · decide
  · decide
  · decide

/-- The fixed loop on the same pager (a short page with a token) visits both pages and destroys both. -/
example :
    let p : Pager String := fun tok => if tok = "" then ⟨["a"], "t1", 2⟩ else ⟨["b"], "", 2⟩
    let svc : Svc := ⟨fun _ => ⟨["k"], "", 1⟩, fun _ => p, fun _ => false, false, false, ⟨"", 0⟩, fun _ _ => none⟩
    LegalPager p ["a", "b"] ∧
    (∃ a, wipeout .fixed svc 5 ⟨fun _ => stEnabled, []⟩ = some a ∧ a.failed = false ∧
      a.st.state "a" = stDestroyScheduled ∧ a.st.state "b" = stDestroyScheduled ∧ nList a.st.log = 3) := by
  refine ⟨⟨[⟨["a"], "t1", 2⟩, ⟨["b"], "", 2⟩], walk_cons_cons.mpr ⟨by decide, by decide, walk_single.mpr ⟨by decide, rfl⟩⟩, rfl⟩,
    _, rfl, by decide, by decide, by decide, by decide⟩

/-- Non-vacuity (bootstrap): pages [DISABLED | token | PENDING, ENABLED]: the ENABLED version on the
    second page is selected; without it the PENDING one is awaited; with neither a version is created
    (and, being PENDING, polled). -/
example :
    let p : Pager String := fun tok => if tok = "" then ⟨["v1"], "t1", 3⟩ else ⟨["v2", "v3"], "", 3⟩
    let svc : Svc := ⟨fun _ => ⟨[], "", 0⟩, fun _ => p, fun _ => false, false, false, ⟨"c", stPending⟩,
      fun _ nm => some ⟨nm, stEnabled⟩⟩
    let s1 : String → Nat := fun n => if n = "v1" then stDisabled else if n = "v2" then stPending else stEnabled
    let s2 : String → Nat := fun n => if n = "v1" then stDisabled else if n = "v2" then stPending else stDisabled
    (waitForKeyGen .fixed svc "K" 5 0 ⟨s1, []⟩).2 = .ok "v3" ∧ (waitForKeyGen .fixed svc "K" 5 0 ⟨s1, []⟩).1.log.length = 2 ∧
    let s3 : String → Nat := fun _ => stDisabled
    (waitForKeyGen .fixed svc "K" 5 0 ⟨s2, []⟩).2 = .ok "v2" ∧
    ((waitForKeyGen .fixed svc "K" 5 0 ⟨s2, []⟩).1.log.head?.map (·.call)) = some (.get "v2") ∧
    (waitForKeyGen .fixed svc "K" 5 0 ⟨s3, []⟩).2 = .ok "c" ∧
    ((waitForKeyGen .fixed svc "K" 5 0 ⟨s3, []⟩).1.log.map (·.call)) =
      [.get "c", .createVer "K", .listVers "K" "t1", .listVers "K" ""] := by
  decide

end GceTcb.Kms
