import GceTcb.Proofs.CAStore
/-
C11 — The certificate-authority store is consistent at every crash point.
Property theorems only (helper lemmas live in Proofs/CAStore.lean; the write-log model of gcsca.Finalize in
Model/CAStore.lean).

Scope (the property's own): the storage writes of a bootstrap of a store that has no manifest yet, and of
every later rotation, at object granularity; every order in which Go's map iteration may visit the
pending certificates (`order` ranges over all permutations of the mutation's certificates); every prefix
length `k` (a crash after `k` completed object writes; a refused upload — object exists, overwrite off —
just ends the log earlier: `C11_log_writes_prefix`).  Re-bootstrap over a populated store is outside.

Certificates are records; "verifies under the root r" is `sigBy = r.pub`; that the certificates of one
operation are signed by the root in force is a hypothesis (it is what C10/C12 establish about rotate.Key
and rotate.Bootstrap), as is that certificate object names are not the manifest's or the root's name.
-/
namespace GceTcb.CA

/-- **Bootstrap of an empty store**: for every visiting order of the two pending certificates and every
    crash point, the store reloads consistently. -/
theorem C11_prefix_consistent_bootstrap (cfg : Cfg) (st : Store) (rootK signK : String) (rc sc : Cert)
    (hno : lookup st manifestName = none) (hrm : cfg.rootPath ≠ manifestName)
    (hself : rc.sigBy = rc.pub) (hsig : sc.sigBy = rc.pub)
    (hn1 : ¬ Bad cfg (certObjectName cfg rc)) (hn2 : ¬ Bad cfg (certObjectName cfg sc))
    (order : List (String × Cert)) (hperm : order.Perm (bootMut rootK signK rc sc).certs) (k : Nat) :
    Consistent cfg (applyPrefix k (fullWrites cfg Manifest.empty (bootMut rootK signK rc sc) order) st) := by
  have hmem : ∀ kc, kc ∈ order ↔ kc ∈ [(rootK, rc), (signK, sc)] := fun kc => hperm.mem_iff
  refine (finalize_boot hno hrm _ rc rfl order ?_ ?_ ?_).1 k
  · intro e; rw [e] at hperm; exact absurd hperm.symm.eq_nil (by simp [bootMut])
  · intro kc hkc
    rcases List.mem_cons.mp ((hmem kc).mp hkc) with h | h
    · rw [h]; exact ⟨hn1, hself⟩
    · simp at h; rw [h]; exact ⟨hn2, hsig⟩
  · intro k' hk' _
    have : k' = signK := by simp [bootMut] at hk'; exact hk'.symm
    exact ⟨(signK, sc), (hmem _).mpr (by simp), this.symm⟩

/-- **A rotation from a good store**: for every visiting order of the pending certificate(s) and every
    crash point, the store reloads consistently. -/
theorem C11_prefix_consistent_rotation (cfg : Cfg) (st : Store) (m : Manifest) (r : Cert) (kv : String) (c : Cert)
    (hg : Good cfg m r st) (hsig : c.sigBy = r.pub) (hn : ¬ Bad cfg (certObjectName cfg c))
    (order : List (String × Cert)) (hperm : order.Perm (rotMut kv c).certs) (k : Nat) :
    Consistent cfg (applyPrefix k (fullWrites cfg m (rotMut kv c) order) st) := by
  have hmem : ∀ kc, kc ∈ order ↔ kc ∈ [(kv, c)] := fun kc => hperm.mem_iff
  refine (finalize_rot hg _ rfl order ?_ ?_).1 k
  · intro kc hkc
    have := (hmem kc).mp hkc
    simp at this; rw [this]; exact ⟨hn, hsig⟩
  · intro k' hk' _
    have : k' = kv := by simp [rotMut] at hk'; exact hk'.symm
    exact Or.inr ⟨(kv, c), (hmem _).mpr (by simp), this.symm⟩

/-- induction over the history: every reachable store is good -/
theorem C11_reachable_good (cfg : Cfg) (st : Store) (m : Manifest) (r : Cert) (h : Reachable cfg st m r) :
    Good cfg m r st := by
  induction h with
  | boot st rootK signK rc sc order mf hno hrm hself hsig hn1 hn2 hperm hmf =>
    have hmem : ∀ kc, kc ∈ order ↔ kc ∈ [(rootK, rc), (signK, sc)] := fun kc => hperm.mem_iff
    obtain ⟨mf', hg⟩ := (finalize_boot hno hrm (bootMut rootK signK rc sc) rc rfl order
      (by intro e; rw [e] at hperm; exact absurd hperm.symm.eq_nil (by simp [bootMut]))
      (by
        intro kc hkc
        rcases List.mem_cons.mp ((hmem kc).mp hkc) with h | h
        · rw [h]; exact ⟨hn1, hself⟩
        · simp at h; rw [h]; exact ⟨hn2, hsig⟩)
      (by
        intro k' hk' _
        have : k' = signK := by simp [bootMut] at hk'; exact hk'.symm
        exact ⟨(signK, sc), (hmem _).mpr (by simp), this.symm⟩)).2
    have : mf' = mf := by
      have := hg.man; rw [hmf] at this
      injection this with this; injection this with this; exact this.symm
    rw [← this]; exact hg
  | rot st m r kv c order mf hprev hsig hn hperm hmf ih =>
    have hmem : ∀ kc, kc ∈ order ↔ kc ∈ [(kv, c)] := fun kc => hperm.mem_iff
    obtain ⟨mf', hg⟩ := (finalize_rot ih (rotMut kv c) rfl order
      (by
        intro kc hkc
        have := (hmem kc).mp hkc
        simp at this; rw [this]; exact ⟨hn, hsig⟩)
      (by
        intro k' hk' _
        have : k' = kv := by simp [rotMut] at hk'; exact hk'.symm
        exact Or.inr ⟨(kv, c), (hmem _).mpr (by simp), this.symm⟩)).2
    have : mf' = mf := by
      have := hg.man; rw [hmf] at this
      injection this with this; injection this with this; exact this.symm
    rw [← this]; exact hg

/-- **Every crash point of every rotation in any history**: after a first bootstrap and any number of
    completed rotations, the next rotation's writes — in any visiting order, cut at any prefix — leave a
    store that reloads consistently. -/
theorem C11_prefix_consistent (cfg : Cfg) (st : Store) (m : Manifest) (r : Cert) (hreach : Reachable cfg st m r)
    (kv : String) (c : Cert) (hsig : c.sigBy = r.pub) (hn : ¬ Bad cfg (certObjectName cfg c))
    (order : List (String × Cert)) (hperm : order.Perm (rotMut kv c).certs) (k : Nat) :
    Consistent cfg (applyPrefix k (fullWrites cfg m (rotMut kv c) order) st) :=
  C11_prefix_consistent_rotation cfg st m r kv c (C11_reachable_good cfg st m r hreach) hsig hn order hperm k

/-- **The manifest is written last**, and never ahead of the certificates it references: the writes of one
    Finalize are certificate/root writes to other objects, optionally followed by ONE manifest write, and
    every entry of the written manifest is an old entry or names an object written earlier in the same
    Finalize. -/
theorem C11_manifest_last (cfg : Cfg) (m : Manifest) (mu : Mut) (order : List (String × Cert)) (rp : Nat)
    (hrm : cfg.rootPath ≠ manifestName)
    (hpaths : ∀ e ∈ m.entries, ¬ Bad cfg e.2)
    (hord : ∀ kc ∈ order, ¬ Bad cfg (certObjectName cfg kc.2) ∧ kc.2.sigBy = rp) :
    ∃ pre mf, (∀ w ∈ pre, w.1 ≠ manifestName) ∧
      (fullWrites cfg m mu order = pre ∨ fullWrites cfg m mu order = pre ++ [(manifestName, .manifest mf)]) ∧
      (∀ e ∈ mf.entries, e ∈ m.entries ∨ e.2 ∈ pre.map (·.1)) := by
  have hp1 : ∀ e ∈ (applyPrimaries mu m).entries, ¬ Bad cfg e.2 := by
    rw [applyPrimaries_entries]; exact hpaths
  obtain ⟨i1, i2, i3, _⟩ := uploadWrites_facts cfg rp order (applyPrimaries mu m) hp1 hord
  refine ⟨(uploadWrites cfg (applyPrimaries mu m) order).1 ++ rootWrites cfg mu,
    (uploadWrites cfg (applyPrimaries mu m) order).2, ?_, ?_, ?_⟩
  · intro w hw
    rcases List.mem_append.mp hw with h | h
    · exact (upW_path_ne (i1 w h)).1
    · unfold rootWrites at h
      cases hr : mu.rootCert with
      | none => rw [hr] at h; cases h
      | some rc => rw [hr] at h; simp at h; rw [h]; exact hrm
  · unfold fullWrites
    by_cases hc : manifestChanged mu m order = true
    · rw [if_pos hc]; exact Or.inr rfl
    · rw [if_neg hc, List.append_nil]; exact Or.inl rfl
  · intro e he
    rcases i3 e he with h | h
    · rw [applyPrimaries_entries] at h; exact Or.inl h
    · refine Or.inr ?_
      rw [List.map_append]; exact List.mem_append_left _ h

/-- **Entries come with their upload**: a manifest entry that was not there before is appended only for a
    certificate whose DER object is written by the same Finalize. -/
theorem C11_entries_with_upload (cfg : Cfg) (m : Manifest) (mu : Mut) (order : List (String × Cert)) (rp : Nat)
    (hpaths : ∀ e ∈ m.entries, ¬ Bad cfg e.2)
    (hord : ∀ kc ∈ order, ¬ Bad cfg (certObjectName cfg kc.2) ∧ kc.2.sigBy = rp)
    (e : String × String) (he : e ∈ (uploadWrites cfg (applyPrimaries mu m) order).2.entries)
    (hnew : e ∉ m.entries) :
    ∃ c, (e.2, Obj.der c) ∈ (uploadWrites cfg (applyPrimaries mu m) order).1 := by
  have hp1 : ∀ e ∈ (applyPrimaries mu m).entries, ¬ Bad cfg e.2 := by
    rw [applyPrimaries_entries]; exact hpaths
  obtain ⟨i1, _, i3, _⟩ := uploadWrites_facts cfg rp order (applyPrimaries mu m) hp1 hord
  rcases i3 e he with h | h
  · rw [applyPrimaries_entries] at h; exact absurd h hnew
  · obtain ⟨w, hw, hw1⟩ := List.mem_map.mp h
    obtain ⟨_, c, hc, _⟩ := i1 w hw
    refine ⟨c, ?_⟩
    obtain ⟨p, o⟩ := w
    simp only at hw1 hc
    rw [← hw1, ← hc]; exact hw

/-- the writes of the probing log (with refusals) are a prefix of the planned writes, so the prefix
    theorems cover it -/
theorem C11_log_writes_prefix (cfg : Cfg) (st : Store) (m : Manifest) (mu : Mut) (order : List (String × Cert)) :
    ∃ j, writesOf (finalizeLog cfg st m mu order) = (fullWrites cfg m mu order).take j := by
  unfold finalizeLog
  obtain ⟨j, hj⟩ := writesOf_runPlan_prefix cfg.overwrite st (planned cfg m mu order)
  exact ⟨j, by rw [hj, planned_writes]⟩

/-- **An upload onto another key version's object makes no storage call**: when the first certificate Finalize
    visits would go to an object that the manifest records for a different key version (gcsca.upload after its
    "fix:" commit), the storage log of that Finalize is empty — with and without overwrite — so the store is
    left exactly as it was. -/
theorem C11_claimed_upload_writes_nothing (cfg : Cfg) (st : Store) (m : Manifest) (mu : Mut) (k : String) (c : Cert)
    (rest : List (String × Cert))
    (h : heldByOther (applyPrimaries mu m) (uploadName cfg (applyPrimaries mu m) k c) k = true) :
    finalizeLog cfg st m mu ((k, c) :: rest) = [] := by
  unfold finalizeLog planned
  simp only [uploadPlan, List.map_cons, List.cons_append, runPlan, h, if_true]

/-- the executable check the driver prints is implied by `Consistent` -/
theorem C11_consistentB_of (cfg : Cfg) (st : Store) (h : Consistent cfg st) : consistentB cfg st = true := by
  unfold Consistent at h; unfold consistentB
  cases hm : lookup st manifestName with
  | none => rfl
  | some o =>
    rw [hm] at h
    cases o with
    | der c => exact absurd h (by simp)
    | pem c => exact absurd h (by simp)
    | manifest m =>
      simp only at h ⊢
      obtain ⟨h1, h2⟩ := h
      have ha : (m.entries.all fun e => isDer st e.2) = true := by
        rw [List.all_eq_true]
        intro e he
        obtain ⟨c, hc⟩ := h1 e he
        unfold isDer; rw [hc]
      rw [ha]
      by_cases hs : m.signing = ""
      · simp [hs]
      · obtain ⟨path, c, r, e1, e2, e3, e4⟩ := h2 hs
        have : primaryChainsB cfg st m = true := by
          unfold primaryChainsB; rw [e1, e3]; simp only; rw [e2]; simp [e4]
        simp [this]

/-! ### non-vacuity -/

/-- Non-vacuity (bootstrap): the hypotheses hold for the empty store; with the signing certificate
    visited first the four writes are sigcn-2, rootcn-1, root.crt, manifest; the store after three of them
    has no manifest yet (consistent, as proved); WRITING THE MANIFEST FIRST instead would not be: a store
    holding only the final manifest fails the check. -/
example :
    let ws := fullWrites c11Cfg Manifest.empty (bootMut "root" "sk" c11Rc c11Sc) [("sk", c11Sc), ("root", c11Rc)]
    ws.map (·.1) = ["certs/sigcn-2.crt", "certs/rootcn-1.crt", "root.crt", manifestName] ∧
    consistentB c11Cfg (applyPrefix 3 ws []) = true ∧ consistentB c11Cfg (applyPrefix 4 ws []) = true ∧
    consistentB c11Cfg (applyWrites (ws.drop 3) []) = false := by
  decide

/-- Non-vacuity (rotation): from the bootstrapped store, the rotation's two writes; after the first the
    old manifest still rules, after the second the new key is primary and chains. -/
example :
    let st0 := applyWrites (fullWrites c11Cfg Manifest.empty (bootMut "root" "sk" c11Rc c11Sc) [("root", c11Rc), ("sk", c11Sc)]) []
    let m0 : Manifest := ⟨[("root", "certs/rootcn-1.crt"), ("sk", "certs/sigcn-2.crt")], "root", "sk"⟩
    let ws := fullWrites c11Cfg m0 (rotMut "sk_1" ⟨"sig", 3, 2, 0⟩) [("sk_1", ⟨"sig", 3, 2, 0⟩)]
    lookup st0 manifestName = some (.manifest m0) ∧
    ws.map (·.1) = ["certs/sig-3.crt", manifestName] ∧
    consistentB c11Cfg (applyPrefix 1 ws st0) = true ∧ consistentB c11Cfg (applyPrefix 2 ws st0) = true ∧
    storedManifest (applyPrefix 2 ws st0) = some ⟨[("root", "certs/rootcn-1.crt"), ("sk", "certs/sigcn-2.crt"), ("sk_1", "certs/sig-3.crt")], "root", "sk_1"⟩ := by
  decide

/-- Non-vacuity (refusal): a rotation whose certificate carries the common name and serial of the recorded
    primary's (object certs/sigcn-2.crt, held by "sk") makes no storage call even with overwrite allowed; the same
    certificate under a fresh serial is probed and written. -/
example :
    let st0 := applyWrites (fullWrites c11Cfg Manifest.empty (bootMut "root" "sk" c11Rc c11Sc) [("root", c11Rc), ("sk", c11Sc)]) []
    let m0 : Manifest := ⟨[("root", "certs/rootcn-1.crt"), ("sk", "certs/sigcn-2.crt")], "root", "sk"⟩
    finalizeLog { c11Cfg with overwrite := true } st0 m0 (rotMut "sk_1" ⟨"sigcn", 2, 2, 0⟩) [("sk_1", ⟨"sigcn", 2, 2, 0⟩)] = [] ∧
    (finalizeLog { c11Cfg with overwrite := true } st0 m0 (rotMut "sk_1" ⟨"sigcn", 3, 2, 0⟩) [("sk_1", ⟨"sigcn", 3, 2, 0⟩)]).length = 3 := by
  decide

end GceTcb.CA
