import GceTcb.Proofs.AttestChain
import GceTcb.Proofs.AttestBridge
/-
C16 — "extraction returns … the attestation's certificate-table entry byte for byte", from the BYTES of the
quote: the quote path of extract.Attestation / extract.Endorsement end to end (text forms included).

Models: Model/HexB64.lean (encoding/hex.DecodeString; base64.NewDecoder(StdEncoding) + io.ReadAll),
Model/AttestChain.lean (go-sev-guest certificate table and report acceptance, extractsev.CheckCertTable,
the chain of extract.Attestation in the order of the code, `teeOf` = the `Tee` that Model/Extract takes as a
parameter).  Lemmas: Proofs/HexB64.lean, Proofs/AttestChain.lean.  Parameters: the four proto.Unmarshal
readings and go-tdx-guest's QuoteToProto (`Protos`), with the two laws `ProtoLaws` (compared with the real
functions by stream c16wire ops `law` / `lawtdx`).

A well-formed table is `TableOk table hs body`: header entries `hs`, the all-zero terminator, any `body`;
every entry's range lies behind the header and inside the table, the ranges together are no longer than the
table, the table is shorter than 4 GiB.  Ranges may be in any order, with gaps and trailing bytes;
`C16_wire_marshal_wellformed` shows that what abi.CertTable.Marshal produces for ANY list of (GUID, blob)
pairs is such a table whose entries are those pairs.
-/
namespace GceTcb.AttestChain
open GceTcb GceTcb.Codec GceTcb.DecTotal
open GceTcb.HexB64 hiding hexDecode hexEncode

/-! ## text decoders -/

/-- hex.DecodeString(hex.EncodeToString(b)) = b for every byte string (lower case) … -/
theorem C16_wire_hex_roundtrip (b : Bytes) : HexB64.hexDecode (HexB64.hexEncode b) = some b := hexDecode_hexEncode b
/-- … and for upper-case digits -/
theorem C16_wire_hex_upper_roundtrip (b : Bytes) : HexB64.hexDecode (hexEncodeUpper b) = some b := hexDecode_hexEncodeUpper b

/-- the streaming base64 decoder returns b for StdEncoding.EncodeToString(b), for every byte string … -/
theorem C16_wire_base64_roundtrip (b : Bytes) : b64Decode (b64Encode b) = some b := b64Decode_b64Encode b
/-- … and for every text that is that encoding with '\r' and '\n' inserted anywhere (wrapped lines, a
    trailing newline, CRLF) -/
theorem C16_wire_base64_newlines (t b : Bytes) (h : dropNL t = b64Encode b) : b64Decode t = some b :=
  b64Decode_of_dropNL t b h

/-- hex does NOT skip anything: one byte that is no hex digit (a newline, a space) or an odd length and
    DecodeString fails -/
theorem C16_wire_hex_strict (t : Bytes) (c : UInt8) (hc : c ∈ t) (hn : hexNib c = none) : HexB64.hexDecode t = none :=
  hexDecode_none_of_mem t c hc hn

theorem C16_wire_hex_odd (t : Bytes) (h : t.length % 2 = 1) : HexB64.hexDecode t = none := hexDecode_odd t h

/-- base64: a byte outside the alphabet, '=', CR, LF anywhere and the decoder fails (a space, a tab, NUL,
    '-' / '_' of the URL alphabet) -/
theorem C16_wire_base64_strict (t : Bytes) (c : UInt8) (hc : c ∈ t) (hl : b64Legal c = false) : b64Decode t = none :=
  b64Decode_none_of_mem t c hc hl

/-- when Go's chunked decoder accepts more (a padded quantum in the interior that happens to end a chunk) the
    result extends the strict reading: on everything the strict decoder accepts they agree -/
theorem C16_wire_base64_loose_agrees (t d : Bytes) (h : b64Decode t = some d) : b64DecodeLoose t = some d :=
  loose_of_strict _ _ h

example : HexB64.hexDecode [48, 65, 102, 70] = some [0x0a, 0xff] := by decide
example : b64Decode [81, 85, 13, 10, 70, 66, 10] = some [65, 65, 65] := by decide     -- "QU\r\nFB\n"
example : b64Decode [81, 81, 61, 61] = some [65] ∧ b64Decode [81, 81, 61] = none ∧ b64Decode [81, 81] = none := by decide

/-! ## the certificate table -/

/-- go-sev-guest reads from a well-formed table exactly the entries the header names, each with the bytes of
    its range, and extractsev.CheckCertTable passes it -/
theorem C16_wire_table_entries (table : Bytes) (hs : List Hdr) (body : Bytes) (w : TableOk table hs body) :
    checkCertTable table = true ∧ unmarshal table = .ok (entriesOf table hs) :=
  ⟨checkCertTable_wellformed table hs body w, unmarshal_wellformed table hs body w⟩

/-! ## report ++ table, table alone -/

/-- the report's version field is 2 or 3 (what the ABI defines; abi.ReportToProto itself leaves the version to
    validation) -/
def VersionOk (report : Bytes) : Prop := ∃ (v : UInt8) (rest : Bytes), report = v :: 0 :: 0 :: 0 :: rest ∧ (v = 2 ∨ v = 3)

/-- the hypotheses on a raw quote: a report that abi.ReportToProto accepts, followed by a well-formed table
    whose LAST entry under the GCE GUID names the range holding `blob` -/
structure RawQuote (report table : Bytes) (pre : List Hdr) (hg : Hdr) (post : List Hdr) (body blob : Bytes) : Prop where
  size : report.length = reportSize
  accepted : reportAccepted report = true
  version : VersionOk report
  wf : TableOk table (pre ++ hg :: post) body
  guid : hg.guid = gceGuid
  last : ∀ h ∈ post, h.guid ≠ gceGuid
  blob : (table.drop hg.off).take hg.len = blob

theorem zero_mem_report (report : Bytes) (h : VersionOk report) : (0 : UInt8) ∈ report := by
  obtain ⟨v, rest, rfl, _⟩ := h
  simp

theorem rejects_of_version (X : Protos) (L : ProtoLaws X) (report tail : Bytes) (h : VersionOk report) :
    protoRejects X (report ++ tail) := by
  obtain ⟨v, rest, rfl, hv⟩ := h
  simp only [List.cons_append]
  apply L.field0
  rcases hv with rfl | rfl <;> decide

/-- what the raw decoders make of report ++ table -/
theorem raw_reading (X : Protos) {report table : Bytes} {pre post : List Hdr} {hg : Hdr} {body blob : Bytes}
    (q : RawQuote report table pre hg post body blob) :
    rawFormats X (report ++ table) = .ok (.sevRaw (reportMeasurement report) (entriesOf table (pre ++ hg :: post)))
    ∧ teeOf (.sevRaw (reportMeasurement report) (entriesOf table (pre ++ hg :: post)))
        = some (.sev (reportMeasurement report) (some blob)) := by
  refine ⟨rawFormats_report_table X report table _ body q.size q.accepted q.wf, ?_⟩
  simp only [teeOf, extrasGet_gce table pre post hg q.guid q.last, q.blob]

/-- extract.Attestation on the RAW bytes report ++ table: the SEV-SNP reading with the report's measurement
    and, under the GCE GUID, exactly the bytes of the entry — for every report the ABI parser accepts, every
    well-formed table, every blob (any length, any first / last byte). -/
theorem C16_wire_raw_attestation_exact (X : Protos) (L : ProtoLaws X) {report table : Bytes} {pre post : List Hdr}
    {hg : Hdr} {body blob : Bytes} (q : RawQuote report table pre hg post body blob) :
    ∃ a, attestation X (report ++ table) = .ok a ∧ teeOf a = some (.sev (reportMeasurement report) (some blob)) := by
  have hne : (report ++ table).length ≠ 0 := by simp only [List.length_append, q.size, reportSize]; omega
  have hz : (0 : UInt8) ∈ report ++ table := List.mem_append_left _ (zero_mem_report report q.version)
  refine ⟨_, ?_, (raw_reading X q).2⟩
  rw [attestation, attestation_of_rejects _ X _ hne (rejects_of_version X L report table q.version)]
  simp only [afterProtos, goVariant, Bool.false_eq_true, if_false]
  have := textDecode_of_zero _ hz
  simp only [goVariant] at this
  rw [this]; exact (raw_reading X q).1

/-- the same for the certificate table ALONE (the protobuf decoders and the report reading must not claim the
    bytes: see C16_wire_proto_reading_wins / C16_wire_report_reading_wins), with `Measurement: []byte{0}` -/
theorem C16_wire_table_attestation_exact (X : Protos) {table : Bytes} {pre post : List Hdr} {hg : Hdr} {body blob : Bytes}
    (w : TableOk table (pre ++ hg :: post) body) (hk : hg.guid = gceGuid) (hlast : ∀ h ∈ post, h.guid ≠ gceGuid)
    (hblob : (table.drop hg.off).take hg.len = blob)
    (hp : protoRejects X table) (hnr : reportAccepted (table.take reportSize) = false) :
    ∃ a, attestation X table = .ok a ∧ teeOf a = some (.sev [0] (some blob)) := by
  have hlen := table_length table _ body w
  have hne : table.length ≠ 0 := by simp only [hlen, entrySize]; omega
  refine ⟨.sevRaw [0] (entriesOf table (pre ++ hg :: post)), ?_, ?_⟩
  · rw [attestation, attestation_of_rejects _ X _ hne hp]
    simp only [afterProtos, goVariant, Bool.false_eq_true, if_false]
    have := textDecode_of_zero _ (zero_mem_table table _ body w)
    simp only [goVariant] at this
    rw [this]; exact rawFormats_table X table _ body w hnr
  · simp only [teeOf, extrasGet_gce table pre post hg hk hlast, hblob]

/-! ## extract.Endorsement -/

/-- Model/Extract's extract.Endorsement with the quote READ FROM ITS BYTES, no event log, no forced fetch (any
    provider, getter, reader) -/
def endorsementOfQuote (v : Variant) (X : Protos) (env : Extract.Env) (o : Extract.Options) (quote : Bytes) : Extract.Res :=
  Extract.endorsement env { o with quote := quoteTee v X quote, eventLog := none, forceFetch := false }

theorem endorsement_of_tee (v : Variant) (X : Protos) (env : Extract.Env) (o : Extract.Options) (quote : Bytes)
    (a : Att) (m blob : Bytes) (ha : attestationWith v X quote = .ok a) (ht : teeOf a = some (.sev m (some blob)))
    (hb : blob ≠ []) :
    endorsementOfQuote v X env o quote = { out := .ok blob, urls := [], paths := [], provCalls := 0 } := by
  have hq : quoteTee v X quote = some (.sev m (some blob)) := by simp only [quoteTee, ha, ht]
  have he : (!blob.isEmpty) = true := by cases blob with | nil => exact absurd rfl hb | cons _ _ => rfl
  simp only [endorsementOfQuote, Extract.endorsement, Extract.endorsementWith, Option.isSome_none, Bool.false_and,
    Bool.false_eq_true, if_false, Extract.quotePhase, hq, Extract.fromQuote, Option.getD_some]
  split <;> simp_all

/-- C16 on the raw quote: Endorsement with Quote = report ++ table and no event log returns exactly `blob`
    (a non-empty one: Go's `len(endorsement) > 0`), asks no getter, opens no path, calls no provider. -/
theorem C16_wire_raw_blob_exact (X : Protos) (L : ProtoLaws X) (env : Extract.Env) (o : Extract.Options)
    {report table : Bytes} {pre post : List Hdr} {hg : Hdr} {body blob : Bytes}
    (q : RawQuote report table pre hg post body blob) (hb : blob ≠ []) :
    endorsementOfQuote goVariant X env o (report ++ table) = { out := .ok blob, urls := [], paths := [], provCalls := 0 } := by
  obtain ⟨a, ha, ht⟩ := C16_wire_raw_attestation_exact X L q
  exact endorsement_of_tee goVariant X env o _ a _ blob ha ht hb

theorem C16_wire_table_blob_exact (X : Protos) (env : Extract.Env) (o : Extract.Options)
    {table : Bytes} {pre post : List Hdr} {hg : Hdr} {body blob : Bytes}
    (w : TableOk table (pre ++ hg :: post) body) (hk : hg.guid = gceGuid) (hlast : ∀ h ∈ post, h.guid ≠ gceGuid)
    (hblob : (table.drop hg.off).take hg.len = blob)
    (hp : protoRejects X table) (hnr : reportAccepted (table.take reportSize) = false) (hb : blob ≠ []) :
    endorsementOfQuote goVariant X env o table = { out := .ok blob, urls := [], paths := [], provCalls := 0 } := by
  obtain ⟨a, ha, ht⟩ := C16_wire_table_attestation_exact X w hk hlast hblob hp hnr
  exact endorsement_of_tee goVariant X env o _ a _ blob ha ht hb

/-! ## text forms -/

/-- any text the protobuf decoders do not claim and that the hex / base64 attempt turns into report ++ table -/
theorem text_reading (X : Protos) {report table : Bytes} {pre post : List Hdr} {hg : Hdr} {body blob : Bytes}
    (q : RawQuote report table pre hg post body blob) (t : Bytes) (hne : t.length ≠ 0) (hp : protoRejects X t)
    (hd : textDecode goVariant t = report ++ table) :
    ∃ a, attestation X t = .ok a ∧ teeOf a = some (.sev (reportMeasurement report) (some blob)) := by
  refine ⟨_, ?_, (raw_reading X q).2⟩
  rw [attestation, attestation_of_rejects _ X _ hne hp]
  simp only [afterProtos, goVariant, Bool.false_eq_true, if_false]
  simp only [goVariant] at hd
  rw [hd]; exact (raw_reading X q).1

/-- every text that hex.DecodeString turns into report ++ table (lower, upper, mixed case) -/
theorem C16_wire_hextext_attestation_exact (X : Protos) {report table : Bytes} {pre post : List Hdr} {hg : Hdr}
    {body blob : Bytes} (q : RawQuote report table pre hg post body blob) (t : Bytes)
    (ht : HexB64.hexDecode t = some (report ++ table)) (hp : protoRejects X t) :
    ∃ a, attestation X t = .ok a ∧ teeOf a = some (.sev (reportMeasurement report) (some blob)) := by
  have hne : t.length ≠ 0 := by
    intro h0
    have : t = [] := List.eq_nil_of_length_eq_zero h0
    subst this
    simp only [HexB64.hexDecode, Option.some.injEq] at ht
    have := congrArg List.length ht
    simp only [List.length_nil, List.length_append, q.size, reportSize] at this
    omega
  exact text_reading X q t hne hp (by simp only [textDecode, goVariant, id, ht])

/-- C16 through hex(report ++ table) -/
theorem C16_wire_hex_blob_exact (X : Protos) (env : Extract.Env) (o : Extract.Options)
    {report table : Bytes} {pre post : List Hdr} {hg : Hdr} {body blob : Bytes}
    (q : RawQuote report table pre hg post body blob) (hb : blob ≠ [])
    (hp : protoRejects X (HexB64.hexEncode (report ++ table))) :
    endorsementOfQuote goVariant X env o (HexB64.hexEncode (report ++ table))
      = { out := .ok blob, urls := [], paths := [], provCalls := 0 } := by
  obtain ⟨a, ha, ht⟩ := C16_wire_hextext_attestation_exact X q _ (hexDecode_hexEncode _) hp
  exact endorsement_of_tee goVariant X env o _ a _ blob ha ht hb

theorem C16_wire_hex_upper_blob_exact (X : Protos) (env : Extract.Env) (o : Extract.Options)
    {report table : Bytes} {pre post : List Hdr} {hg : Hdr} {body blob : Bytes}
    (q : RawQuote report table pre hg post body blob) (hb : blob ≠ [])
    (hp : protoRejects X (hexEncodeUpper (report ++ table))) :
    endorsementOfQuote goVariant X env o (hexEncodeUpper (report ++ table))
      = { out := .ok blob, urls := [], paths := [], provCalls := 0 } := by
  obtain ⟨a, ha, ht⟩ := C16_wire_hextext_attestation_exact X q _ (hexDecode_hexEncodeUpper _) hp
  exact endorsement_of_tee goVariant X env o _ a _ blob ha ht hb

theorem hexNib_g : hexNib (b64Char 32) = none ∧ hexNib (b64Char 48) = none := by decide

/-- the base64 text of a version 2 / 3 report is never a hex text: its second character is 'g' or 'w' -/
theorem b64_not_hex (report tail t : Bytes) (h : VersionOk report) (ht : dropNL t = b64Encode (report ++ tail)) :
    HexB64.hexDecode t = none := by
  obtain ⟨v, rest, rfl, hv⟩ := h
  have hmem : ∀ c, c ∈ b64Encode (v :: 0 :: 0 :: 0 :: rest ++ tail) → c ∈ t := by
    intro c hc
    rw [← ht] at hc
    exact (List.mem_filter.mp hc).1
  rcases hv with rfl | rfl
  · apply hexDecode_none_of_mem t (b64Char 32) (hmem _ _) hexNib_g.1
    simp only [List.cons_append, b64Encode]
    exact List.mem_cons_of_mem _ List.mem_cons_self
  · apply hexDecode_none_of_mem t (b64Char 48) (hmem _ _) hexNib_g.2
    simp only [List.cons_append, b64Encode]
    exact List.mem_cons_of_mem _ List.mem_cons_self

/-- every text that is base64(report ++ table) with CR / LF inserted anywhere -/
theorem C16_wire_b64text_attestation_exact (X : Protos) {report table : Bytes} {pre post : List Hdr} {hg : Hdr}
    {body blob : Bytes} (q : RawQuote report table pre hg post body blob) (t : Bytes)
    (ht : dropNL t = b64Encode (report ++ table)) (hp : protoRejects X t) :
    ∃ a, attestation X t = .ok a ∧ teeOf a = some (.sev (reportMeasurement report) (some blob)) := by
  have hne : t.length ≠ 0 := by
    intro h0
    have : t = [] := List.eq_nil_of_length_eq_zero h0
    subst this
    obtain ⟨v, rest, hr, _⟩ := q.version
    rw [hr] at ht
    simp [dropNL, b64Encode] at ht
  exact text_reading X q t hne hp (by
    simp only [textDecode, goVariant, id, b64_not_hex report table t q.version ht, b64Decode_of_dropNL t _ ht])

/-- C16 through base64(report ++ table) -/
theorem C16_wire_base64_blob_exact (X : Protos) (env : Extract.Env) (o : Extract.Options)
    {report table : Bytes} {pre post : List Hdr} {hg : Hdr} {body blob : Bytes}
    (q : RawQuote report table pre hg post body blob) (hb : blob ≠ [])
    (hp : protoRejects X (b64Encode (report ++ table))) :
    endorsementOfQuote goVariant X env o (b64Encode (report ++ table))
      = { out := .ok blob, urls := [], paths := [], provCalls := 0 } := by
  obtain ⟨a, ha, ht⟩ := C16_wire_b64text_attestation_exact X q _ (dropNL_encode _) hp
  exact endorsement_of_tee goVariant X env o _ a _ blob ha ht hb

/-! ## what abi.CertTable.Marshal lays out is well formed -/

/-- for ANY list of (GUID, blob) pairs — blobs of any length and content — the table go-sev-guest's Marshal
    produces is well formed and reads back as exactly those pairs -/
theorem C16_wire_marshal_wellformed (es : List (Bytes × Bytes)) (hg : ∀ e ∈ es, e.1.length = 16)
    (hsmall : (marshal es).length < u32) :
    TableOk (marshal es) (layoutHdrs ((es.length + 1) * entrySize) es) (blobsOf es)
    ∧ unmarshal (marshal es) = .ok es := by
  obtain ⟨w, he⟩ := marshal_wellformed es hg hsmall
  exact ⟨w, by rw [unmarshal_wellformed _ _ _ w, he]⟩

/-- extract.Attestation on a marshalled table alone: the blob stored last under the GCE GUID, whatever
    surrounds it -/
theorem C16_wire_marshal_table_exact (X : Protos) (before after : List (Bytes × Bytes)) (blob : Bytes)
    (hg : ∀ e ∈ before ++ (gceGuid, blob) :: after, e.1.length = 16)
    (hafter : ∀ e ∈ after, e.1 ≠ gceGuid)
    (hsmall : (marshal (before ++ (gceGuid, blob) :: after)).length < u32)
    (hp : protoRejects X (marshal (before ++ (gceGuid, blob) :: after)))
    (hnr : reportAccepted ((marshal (before ++ (gceGuid, blob) :: after)).take reportSize) = false) :
    ∃ a, attestation X (marshal (before ++ (gceGuid, blob) :: after)) = .ok a ∧ teeOf a = some (.sev [0] (some blob)) := by
  obtain ⟨w, he⟩ := marshal_wellformed _ hg hsmall
  have hlen := table_length _ _ _ w
  have hne : (marshal (before ++ (gceGuid, blob) :: after)).length ≠ 0 := by simp only [hlen, entrySize]; omega
  refine ⟨.sevRaw [0] (before ++ (gceGuid, blob) :: after), ?_, ?_⟩
  · rw [attestation, attestation_of_rejects _ X _ hne hp]
    simp only [afterProtos, goVariant, Bool.false_eq_true, if_false]
    have := textDecode_of_zero _ (zero_mem_table _ _ _ w)
    simp only [goVariant] at this
    rw [this, rawFormats_table X _ _ _ w hnr, he]
  · simp only [teeOf, extrasGet, gce_not_amd, Bool.false_eq_true, if_false]
    rw [lookupLast_last gceGuid blob after hafter before]

/-! ## the caller's bytes reach the decoders untouched -/

/-- Each raw decoder of the chain is applied to the caller's bytes themselves, or to exactly what
    hex.DecodeString / the base64 decoder make of the caller's bytes: no trimming, no normalisation. -/
def BytesUntouched (v : Variant) : Prop :=
  ∀ (X : Protos) (q : Bytes), q.length ≠ 0 → protoRejects X q →
    attestationWith v X q = rawFormats X
      (match HexB64.hexDecode q with
       | some d => d
       | none => match b64Decode q with
         | some d => d
         | none => q)

theorem C16_wire_bytes_untouched : BytesUntouched goVariant := by
  intro X q hne hp
  rw [attestation_of_rejects _ X _ hne hp]
  simp only [afterProtos, goVariant, Bool.false_eq_true, if_false, textDecode, id]
  rfl

/-- decoders that refuse everything: an instance of the parameters that meets the laws -/
def noProtos : Protos :=
  ⟨fun _ => none, fun _ => none, fun _ => none, fun _ => none, fun _ => .err "tdx"⟩

theorem noProtos_laws : ProtoLaws noProtos where
  field0 := fun _ _ _ => ⟨rfl, rfl, rfl, rfl⟩
  tdxVersion := fun _ _ r h => by simp [noProtos] at h
  tdxShort := fun _ _ r h => by simp [noProtos] at h

/-- a table whose only entry is the GCE entry "A\n" -/
def trimWitness : Bytes := marshal [(gceGuid, [65, 10])]

/-- the variant of seeded/C16-G (`quote = bytes.TrimSpace(quote)` before the hex attempt) is a counter-model:
    the raw decoders no longer see the caller's bytes -/
theorem C16_wire_trim_is_countermodel : ¬ BytesUntouched trimVariant := by
  intro h
  have := h noProtos trimWitness (by decide) ⟨rfl, rfl, rfl, rfl⟩
  revert this
  decide

/-- … and what that costs: an entry that ends in '\n' at the end of the table is returned by the code as it
    is, and is lost (the table's last range now points outside the bytes) with the trim -/
theorem C16_wire_trim_breaks :
    (∃ a, attestation noProtos trimWitness = .ok a ∧ teeOf a = some (.sev [0] (some [65, 10])))
    ∧ attestationWith trimVariant noProtos trimWitness = .err "unknown-format" := by
  constructor
  · exact ⟨.sevRaw [0] [(gceGuid, [65, 10])], by decide, by decide⟩
  · decide

/-! ## which reading wins -/

/-- protobuf first: bytes that proto.Unmarshal accepts as an attest.Attestation are that, whatever the hex,
    base64 or raw readings of the same bytes would be (a hex text such as "3030" is a well-formed message of
    unknown fields) -/
theorem C16_wire_proto_reading_wins (v : Variant) (X : Protos) (q : Bytes) (t : Tee) (hne : q.length ≠ 0)
    (h : X.unmarshalTpm q = some t) : attestationWith v X q = .ok (.proto t) := by
  simp only [attestationWith, hne, if_false, h]

/-- hex before base64: every hex text of a length divisible by four is also a base64 text; the hex reading is
    taken -/
theorem C16_wire_hex_wins_over_base64 (q d : Bytes) (h : HexB64.hexDecode q = some d) : textDecode goVariant q = d := by
  simp only [textDecode, goVariant, id, h]

example : HexB64.hexDecode [48, 48, 48, 48] = some [0, 0] ∧ b64Decode [48, 48, 48, 48] = some [0xd3, 0x4d, 0x34] := by decide

/-- a quote that one of the raw SEV-SNP decoders accepts is never taken for text: an accepted report has its
    must-be-zero bytes, a table its terminator, and a zero byte is neither a hex digit nor base64 -/
theorem C16_wire_raw_never_text (q : Bytes)
    (h : reportAccepted q = true ∨ (q ≠ [] ∧ checkCertTable q = true)) : textDecode goVariant q = q := by
  apply textDecode_of_zero
  rcases h with h | ⟨hne, h⟩
  · exact zero_mem_of_reportAccepted q h
  · exact zero_mem_of_checkCertTable q hne h

/-- report + table before table alone: bytes whose first 1184 read as a report and whose rest passes as a
    table are read that way, even if the whole is also a well-formed table (a crafted first GUID can carry the
    policy bits; stream c16wire has such a table) -/
theorem C16_wire_report_reading_wins (X : Protos) (q : Bytes) (es : List (Bytes × Bytes))
    (hl : reportSize ≤ q.length) (ha : reportAccepted (q.take reportSize) = true)
    (hc : checkCertTable (q.drop reportSize) = true) (hu : unmarshal (q.drop reportSize) = .ok es) :
    rawFormats X q = .ok (.sevRaw (reportMeasurement q) es) := by
  simp only [rawFormats, reportCertsToProto, hl, if_true, hc, ha, hu]

/-- two entries under the GCE GUID: extract.Attestation / Endorsement return the LAST (abi.CertTable.Proto
    fills a map), extractsev.FromCertTable the FIRST (abi.CertTable.GetByGUIDString) -/
theorem C16_wire_duplicate_last_wins (l1 l2 : List (Bytes × Bytes)) (b : Bytes) (h2 : ∀ e ∈ l2, e.1 ≠ gceGuid) :
    extrasGet (l1 ++ (gceGuid, b) :: l2) gceGuid = some b := by
  simp only [extrasGet, gce_not_amd, Bool.false_eq_true, if_false]
  exact lookupLast_last gceGuid b l2 h2 l1

theorem C16_wire_duplicate_first_wins (l1 l2 : List (Bytes × Bytes)) (b : Bytes) (h1 : ∀ e ∈ l1, e.1 ≠ gceGuid) :
    lookupFirst (l1 ++ (gceGuid, b) :: l2) gceGuid = some b := lookupFirst_first gceGuid b l2 l1 h1

example : extrasGet [(gceGuid, [1]), (gceGuid, [2])] gceGuid = some [2]
    ∧ fromCertTable (marshal [(gceGuid, [1]), (gceGuid, [2])]) = .ok [1] := by decide

/-! ## totality of the byte-level part -/

/-- No decoder of the byte-level part panics, on ANY byte string (with the repair of this property in
    extractsev.CheckCertTable: go-sev-guest adds Offset + Length in 32 bits, and the check in front of it now
    keeps every range end below 2^32 whatever the length of the table). -/
theorem C16_wire_no_panic (X : Protos) (q : Bytes) (s : String) : attestation X q ≠ .panic s := by
  have h1 : ∀ s, rawFormats X (textDecode goVariant q) ≠ .panic s := fun s => rawFormats_no_panic X _ s
  simp only [attestation, attestationWith, afterSevAtt, afterProtos, goVariant, Bool.false_eq_true, if_false]
  simp only [goVariant] at h1
  split
  · simp
  · split
    · simp
    · split
      · split
        · simp
        · split
          · simp
          · split
            · simp
            · exact h1 s
      · split
        · simp
        · split
          · simp
          · exact h1 s

/-- the check as it was lets a range through that ends beyond 2^32 in a table longer than that; go-sev-guest
    then slices from the offset to the wrapped end: `certs[4294967286:10]` (confirmed on the real code with a
    table of 2^32 + 58 bytes: "slice bounds out of range [4294967286:10]") -/
theorem C16_wire_old_check_lets_wrap_through (n : Nat) (hn : 4294967306 ≤ n) :
    checkRangesOld n 0 [⟨gceGuid, 4294967286, 20⟩] = true
    ∧ checkRanges n 0 [⟨gceGuid, 4294967286, 20⟩] = false
    ∧ ∀ certs : Bytes, certs.length = n → n % u32 ≥ 10 →
        entryBlob certs ⟨gceGuid, 4294967286, 20⟩ = .panic "abi.CertTable.Unmarshal:slice" := by
  refine ⟨?_, ?_, ?_⟩
  · have c1 : ¬ 4294967286 + 20 > n := by omega
    have c2 : ¬ 0 + 20 > n := by omega
    simp only [checkRangesOld, c1, c2, if_false]
  · have c1 : ¬ 4294967286 + 20 > n := by omega
    have c3 : 4294967286 + 20 > 4294967295 := by decide
    simp only [checkRanges, c1, c3, if_false, if_true]
  · intro certs hl hm
    have e : (4294967286 + 20) % u32 = 10 := by decide
    have c1 : ¬ 10 > certs.length % u32 := by rw [hl]; omega
    have c4 : 4294967286 > 10 := by decide
    simp only [entryBlob, e, c1, c4, if_false, if_true]

/-! ## constants -/

/-- the GUID bytes the model keys on are the regenerated sev.GCEFwCertGUID in uuid.UUID.String() form -/
theorem C16_wire_gce_guid : Extract.uuidString gceGuid = Gen.Names.gceFwCertGUID := by decide

/-! ## non-vacuity: a concrete raw quote -/

def exReport : Bytes := [2, 0, 0, 0] ++ zeros 4 ++ [0, 0, 2, 0, 0, 0, 0, 0] ++ zeros 1168
def exTable : Bytes := marshal [(vcekGuid, [1, 2, 3]), (gceGuid, [32, 65, 10]), (arkGuid, [9])]

theorem exReport_length : exReport.length = reportSize := by
  simp only [exReport, List.length_append, zeros_length, List.length_cons, List.length_nil, reportSize]

set_option maxRecDepth 100000 in
theorem exReport_accepted : reportAccepted exReport = true := by decide +kernel

example : ∃ pre hg post body, RawQuote exReport exTable pre hg post body [32, 65, 10] := by
  obtain ⟨w, _⟩ := marshal_wellformed [(vcekGuid, [1, 2, 3]), (gceGuid, [32, 65, 10]), (arkGuid, [9])]
    (by decide) (by decide)
  exact ⟨[⟨vcekGuid, 96, 3⟩], ⟨gceGuid, 99, 3⟩, [⟨arkGuid, 102, 1⟩], _,
    ⟨exReport_length, exReport_accepted, ⟨2, _, rfl, Or.inl rfl⟩, w, rfl, by decide, by decide⟩⟩

/-! ## larger witnesses (kernel evaluation) -/

/-- the raw quote of the seeded scenario: report ++ table whose GCE entry "A\n" ends the quote -/
def trimQuote : Bytes := exReport ++ marshal [(gceGuid, [65, 10])]

set_option maxRecDepth 100000 in
/-- with the TrimSpace variant the report + table quote is no longer readable at all … -/
theorem C16_wire_trim_breaks_raw_quote : attestationWith trimVariant noProtos trimQuote = .err "unknown-format" := by
  decide +kernel

set_option maxRecDepth 100000 in
/-- … while the code as it is returns the entry, newline included -/
theorem C16_wire_trim_breaks_raw_quote_go :
    (match attestation noProtos trimQuote with
     | .ok a => teeOf a
     | _ => none) = some (.sev (zeros 48) (some [65, 10])) := by
  decide +kernel

/-- 1184 bytes that are BOTH a well-formed certificate table (first GUID 02 00 00 00 | 00 00 00 00 | 00 00 02 00 …
    carries version 2 and the policy's reserved bit; the GCE entry's 64 bytes lie where a report has its
    REPORT_DATA) AND a report that abi.ReportToProto accepts -/
def tableOrReport : Bytes :=
  [2, 0, 0, 0, 0, 0, 0, 0, 0, 0, 2, 0, 0, 0, 0, 0] ++ le32 72 ++ le32 8 ++ gceGuid ++ le32 80 ++ le32 64
    ++ zeros 24 ++ zeros 8 ++ List.replicate 64 65 ++ zeros 1040

set_option maxRecDepth 100000 in
/-- the report reading is taken (no certificates), not the table reading (which has the GCE entry) -/
theorem C16_wire_table_or_report_witness :
    rawFormats noProtos tableOrReport = .ok (.sevRaw (List.replicate 48 0) [])
    ∧ (match tableOrTdx noProtos tableOrReport with
       | .ok a => teeOf a
       | _ => none) = some (.sev [0] (some (List.replicate 64 65))) := by
  decide +kernel

/-! ## the chain of C07 -/

/-- Model/DecTotal's extract.Attestation (for which Props/C07Dec proves: no panic, bounded work, for every
    instance of its third-party parameters) with the hex, base64 and certificate-table parameters instantiated
    by the models of this property IS this chain, on every quote below 4 GiB. -/
theorem C16_wire_is_C07_chain {Cert Roots Time : Type} (P : Parsers Cert Roots Time) (q : Bytes) (hs : q.length < u32) :
    (DecTotal.attestation (wireParsers P) q).out = mapOut toTee (attestation (protosOf P) q) :=
  attestation_bridge P q hs

/-! ## tables beyond the line protocol -/

/-- the evaluation the driver uses for tables longer than 4 GiB (op `tblbig`: the header as bytes, the rest of
    the table zero) IS the model's CheckCertTable / FromCertTable on that table -/
theorem C16_wire_sparse_is_model (pre : Bytes) (k : Nat) (es : List Hdr) (hh : headerLoop (pre.length + 1) pre = some es) :
    fromCertTableSparse false pre (pre.length + k) = (checkCertTable (pre ++ zeros k), fromCertTable (pre ++ zeros k)) :=
  fromCertTableSparse_eq pre k es hh

example : fromCertTableSparse true (gceGuid ++ le32 4294967286 ++ le32 20 ++ zeros 24) 4294967354
    = (true, .panic "abi.CertTable.Unmarshal:slice")
  ∧ fromCertTableSparse false (gceGuid ++ le32 4294967286 ++ le32 20 ++ zeros 24) 4294967354 = (false, .err "check") := by
  decide

end GceTcb.AttestChain
