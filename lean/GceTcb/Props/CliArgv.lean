import GceTcb.Proofs.Argv
import GceTcb.Model.ArgvTrees
import GceTcb.Props.C01Cli
import GceTcb.Props.C17Cli
import GceTcb.Props.C12Cli
import GceTcb.Props.C15Cli
import GceTcb.Gen.ArgvFlags
/-
argv tokenising (spf13/pflag `FlagSet.Parse` as cobra calls it) and cobra's command resolution, for the command lines
of C01 / C02 / C17 (gcetcbendorsement), C06 / C15 (endorse) and C12 (bootstrap / rotate / wipeout).
Model: Model/Argv.lean, trees: Model/ArgvTrees.lean, lemmas: Proofs/Argv.lean.  The theorems named `C06_argv_*` are
the laws of pflag's `parseArgs` for EVERY flag table (all three tools rest on them); `C01_argv_*`, `C12_argv_*`,
`C17_argv_*` are about cobra's resolution on the concrete trees and the composition with the command-line models.
`C06_argv_cli_*` / `C15_argv_cli_*`: the headline theorems of Props/C06Cli and Props/C15Cli restated over RAW ARGV
(`endorseRun` = EndorseCli.cliRun ∘ endorseFlagsOf ∘ runTool), with the spellings of the Bool flags as theorems;
`C*_argv_flag_defs` / `C*_argv_flag_kinds`: the trees' per-flag columns equal the rows regenerated from the
flag-defining calls (Gen.ArgvFlags.flagDefs).
-/
namespace GceTcb.Props.CliArgv
open GceTcb GceTcb.Argv GceTcb.ArgvTrees

/-! ## pflag: laws for every flag table -/

/-- Canonical rendering round-trip: `--name=value` for every occurrence in order, then `--`, then the positionals, is
    read back as exactly those occurrences and positionals — for ANY value texts and ANY positional texts; the side
    condition (`renderable`, decidable) is on flag NAMES only: defined in the table, not empty, no `=`, no leading
    `-` or `=`. -/
theorem C06_argv_roundtrip (fs : List FlagSpec) (inter : Bool) (occs : List Occ) (pos : List Tok)
    (h : ∀ o ∈ occs, renderable fs o = true) :
    parseArgs fs inter (occs.map renderOcc ++ ['-', '-'] :: pos) = { occs := occs, pos := pos, err := none } :=
  parseArgs_render fs inter occs pos h

/-- Order and repetition are preserved: a rendered occurrence in front of ANY rest of the command line becomes the
    first occurrence, and the rest is read as it would be alone. -/
theorem C06_argv_order_preserved (fs : List FlagSpec) (inter : Bool) (o : Occ) (rest : List Tok)
    (h : renderable fs o = true) :
    parseArgs fs inter (renderOcc o :: rest) = (parseArgs fs inter rest).addOccs [o] :=
  parseArgs_renderOcc fs inter o rest h

/-- `--` terminator law: whatever follows `--` is positional, word for word; no flag is set, no error arises. -/
theorem C06_argv_dashdash_terminates (fs : List FlagSpec) (inter : Bool) (rest : List Tok) :
    parseArgs fs inter (['-', '-'] :: rest) = { occs := [], pos := rest, err := none } :=
  parseArgs_dashdash fs inter rest

/-- A value is never reinterpreted as a flag: `--name value` for a flag that needs a value consumes exactly the next
    word as its value — also when that word is `--`, `--help`, `-x` or another flag of the table — and reading goes
    on after it. -/
theorem C06_argv_value_not_reinterpreted (fs : List FlagSpec) (inter : Bool) (n v : Tok) (f : FlagSpec)
    (rest : List Tok) (hl : lookupLong fs n = some f) (hv : f.noOpt = []) (hne : n ≠ [])
    (hh : ∀ c cs, n = c :: cs → c ≠ '-' ∧ c ≠ '=') (heq : n.contains '=' = false) :
    parseArgs fs inter (('-' :: '-' :: n) :: v :: rest) = (parseArgs fs inter rest).addOccs [(n, v)] := by
  rw [parseArgs]
  simp only [List.head?_cons]
  rw [classify_long_value fs n v f hl hv hne hh heq]

/-- … and therefore the swallowed word sets nothing: with `--name --other` the flag `other` is NOT set by that word. -/
theorem C06_argv_swallowed_flag_not_set (fs : List FlagSpec) (n m : Tok) (f : FlagSpec)
    (hl : lookupLong fs n = some f) (hv : f.noOpt = []) (hne : n ≠ [])
    (hh : ∀ c cs, n = c :: cs → c ≠ '-' ∧ c ≠ '=') (heq : n.contains '=' = false) :
    parseArgs fs true [('-' :: '-' :: n), ('-' :: '-' :: m)] = { occs := [(n, '-' :: '-' :: m)], pos := [], err := none } := by
  rw [C06_argv_value_not_reinterpreted fs true n _ f [] hl hv hne hh heq]
  simp [parseArgs, Parse.addOccs]

/-- Interspersed positionals (cobra leaves pflag's `interspersed` on): a word that is empty, is `-`, or does not
    begin with `-` is a positional wherever it stands, and reading goes on. -/
theorem C06_argv_interspersed (fs : List FlagSpec) (s : Tok) (rest : List Tok) (h : plainWord s = true) :
    parseArgs fs true (s :: rest) = (parseArgs fs true rest).addPos s :=
  parseArgs_plain fs s rest h

/-- A value flag as the last word is an error (`flag needs an argument`), not a default. -/
theorem C06_argv_value_flag_at_end (fs : List FlagSpec) (inter : Bool) (n : Tok) (f : FlagSpec)
    (hl : lookupLong fs n = some f) (hv : f.noOpt = []) (hne : n ≠ [])
    (hh : ∀ c cs, n = c :: cs → c ≠ '-' ∧ c ≠ '=') (heq : n.contains '=' = false) :
    parseArgs fs inter [('-' :: '-' :: n)] = { occs := [], pos := [], err := some .needsArg } := by
  cases n with
  | nil => exact absurd rfl hne
  | cons c cs =>
    have hc := hh c cs rfl
    have hs := splitEq_noEq (c :: cs) heq
    simp [parseArgs, classify, parseLong, hc.1, hc.2, hs, hl, hv]

/-- The error classes pflag's parsing can end in (what a flag's own `Set` refuses is `badValue`, added by
    `Res.withSet`).  There is no panic outcome: `parseArgs` is a total function, and pflag's `parseArgs` has no panic
    site on any argv (its panics are at flag DEFINITION: a redefined name or shorthand, a shorthand longer than one
    byte — and `FlagSet.Parse` under `PanicOnError`, which cobra does not use: `ContinueOnError`). -/
def pflagErrs : List (Option Err) :=
  [none, some .badSyntax, some .unknownFlag, some .unknownShorthand, some .needsArg, some .helpRequested]

theorem C06_argv_parseLong_class (fs : List FlagSpec) (name : Tok) (next : Option Tok) :
    ∀ os e, parseLong fs name next = .err os e → some e ∈ pflagErrs := by
  intro os e h
  unfold parseLong at h
  split at h
  · cases h; simp [pflagErrs]
  · split at h
    · cases h; simp [pflagErrs]
    · split at h
      · split at h <;> cases h <;> simp [pflagErrs]
      · split at h
        · cases h
        · split at h
          · cases h
          · split at h <;> cases h
            simp [pflagErrs]

theorem C06_argv_parseShorts_class (fs : List FlagSpec) (next : Option Tok) (cs : List Char) :
    ∀ os e, parseShorts fs next cs = .err os e → some e ∈ pflagErrs := by
  induction cs with
  | nil => intro os e h; simp [parseShorts] at h
  | cons c outs ih =>
    intro os e h
    unfold parseShorts at h
    split at h
    · cases h
    · split at h
      · split at h <;> cases h <;> simp [pflagErrs]
      · split at h
        · cases h
        · split at h
          · cases hr : parseShorts fs next outs with
            | pos => simp [hr, Step.cons] at h
            | dashdash => simp [hr, Step.cons] at h
            | flags a b => simp [hr, Step.cons] at h
            | err os' e' =>
              simp only [hr, Step.cons, Step.err.injEq] at h
              exact h.2 ▸ ih os' e' hr
          · split at h
            · cases h
            · split at h <;> cases h
              simp [pflagErrs]

theorem C06_argv_classify_class (fs : List FlagSpec) (s : Tok) (next : Option Tok) :
    ∀ os e, classify fs s next = .err os e → some e ∈ pflagErrs := by
  intro os e h
  unfold classify at h
  split at h
  · cases h
  · exact C06_argv_parseLong_class fs _ next os e h
  · exact C06_argv_parseShorts_class fs next _ os e h
  · cases h

/-- Totality with the classes listed: every argv, for every flag table, ends without an error or in one of five
    classes. -/
theorem C06_argv_total (fs : List FlagSpec) (inter : Bool) (argv : List Tok) :
    (parseArgs fs inter argv).err ∈ pflagErrs := by
  induction argv using parseArgs.induct fs inter with
  | case1 => simp [parseArgs, pflagErrs]
  | case2 s rest hc hi ih => rw [parseArgs, hc]; simpa [Parse.addPos, hi] using ih
  | case3 s rest hc hi => rw [parseArgs, hc]; simp [pflagErrs, hi]
  | case4 s rest hc => rw [parseArgs, hc]; simp [pflagErrs]
  | case5 s rest os e hc =>
    rw [parseArgs, hc]; exact C06_argv_classify_class fs s _ os e hc
  | case6 s rest os hc ih => rw [parseArgs, hc]; simpa [Parse.addOccs] using ih
  | case7 s os hc => rw [parseArgs, hc]; simp [pflagErrs]
  | case8 s os head rest' hc ih => rw [parseArgs, hc]; simpa [Parse.addOccs] using ih


/-! ## cobra: resolution of a canonical command line (Find mode) -/

theorem find_chain (T : Tree) (path R : List Tok) (hc : chain T [] path = true) (hR : ∀ fs, stripFlags fs R = []) :
    (find T (path ++ R)).path = path ∧ (find T (path ++ R)).rest = R ∧ (find T (path ++ R)).err = none := by
  have h := innerFind_chain T path [] R ((path ++ R).length + 1) [] hc hR (by simp; omega)
  simp only [List.nil_append] at h
  obtain ⟨h1, h2⟩ := h
  refine ⟨by simp only [find]; exact h1, by simp only [find]; exact h2, ?_⟩
  simp only [find, h1, h2, legacyErr, hR]
  simp

theorem withComplete_of_ne (T : Tree) (args : List Tok)
    (h : (find { T with cmds := T.cmds ++ [completeCmd] } args).path ≠ [completeName]) : T.withComplete args = T := by
  unfold Tree.withComplete
  exact if_neg (fun hh => h hh.2)

theorem full_traverse (T : Tree) : T.full.traverse = T.traverse := by
  unfold Tree.full; split <;> rfl

/-- The decidable conditions on (tree, command path) under which the canonical rendering resolves to the command:
    Find mode; every word of the path is a command word (not empty, no leading `-`) naming the next sub-command, in
    the tree as ExecuteC sees it (cobra's `help` / `completion` added) with and without the hidden `__complete`; the
    command is runnable, parses its flags, and is not `__complete` itself. -/
def canon (T0 : Tree) (path : List Tok) : Bool :=
  !T0.traverse && chain T0.full [] path &&
    chain { T0.full with cmds := T0.full.cmds ++ [completeCmd] } [] path && path != [completeName] &&
    (match T0.full.cmd path with
     | some c => !c.noParse && c.runnable
     | none => false)

/-- Canonical rendering round-trip through cobra (Find mode): for every command `path` meeting `canon`, EVERY
    occurrence list whose flag names are visible from the command (`renderable`; any value texts) without a true
    `--help`, and EVERY positional list the command's `Args` validator admits (any texts: they stand after `--`),
    `ExecuteC` on the rendering reaches the command's hooks and Run with exactly these occurrences, in order, and
    exactly these positionals. -/
theorem C01_argv_roundtrip (T0 : Tree) (path : List Tok) (occs : List Occ) (pos : List Tok)
    (hc : canon T0 path = true)
    (ho : ∀ o ∈ occs, renderable (T0.full.withHelp path) o = true)
    (hh : helpVal occs = false)
    (ha : argsErr (argsOf T0.full path) pos = none) :
    executeC T0 (render path occs pos) = .run path occs pos (hooksFor T0.full path) := by
  simp only [canon, Bool.and_eq_true, Bool.not_eq_true', bne_iff_ne, ne_eq] at hc
  obtain ⟨⟨⟨⟨htr, hc1⟩, hc2⟩, hne⟩, hcmd⟩ := hc
  have hR : ∀ fs, stripFlags fs (occs.map renderOcc ++ ['-', '-'] :: pos) = [] :=
    fun fs => stripFlags_tail fs occs pos
  have hf2 := find_chain _ path _ hc2 hR
  have hf1 := find_chain _ path _ hc1 hR
  have hwc : (T0.full).withComplete (render path occs pos) = T0.full := by
    apply withComplete_of_ne
    simp only [render]
    rw [hf2.1]; exact hne
  cases hcm : T0.full.cmd path with
  | none => simp [hcm] at hcmd
  | some c =>
    simp only [hcm, Bool.and_eq_true, Bool.not_eq_true'] at hcmd
    have hargs : argsOf T0.full path = c.args := by simp [argsOf, hcm]
    rw [hargs] at ha
    unfold executeC
    simp only [hwc, full_traverse, htr, Bool.false_eq_true, if_false]
    simp only [render] at hf1 ⊢
    simp only [hf1.1, hf1.2.1, hf1.2.2, execute, hcm, hcmd.1, Bool.false_eq_true, if_false,
      parseArgs_render _ true occs pos ho, List.nil_append, hh, hcmd.2, Bool.not_true, ha]

/-- Every command of the three tools that cobra resolves with Find meets `canon` (the two policy / validate levels,
    the key-management commands, `endorse`). -/
theorem C01_argv_canon_rp :
    ∀ p ∈ ["verify", "sev", "sev validate", "sev policy", "tdx", "tdx validate", "tdx policy", "extract", "inspect",
            "inspect mask", "inspect payload", "inspect signature"], canon rpTree (pathOf p) = true := by
  decide +kernel

theorem C12_argv_canon_np :
    ∀ p ∈ ["endorse", "bootstrap", "rotate", "wipeout"], canon npTree (pathOf p) = true := by
  decide +kernel

/-- … and of cmd.MakeApp over components without flags of their own (the tree of streams c06cli / c15cli). -/
theorem C06_argv_canon_ap :
    ∀ p ∈ ["endorse", "bootstrap", "rotate", "wipeout"], canon apTree (pathOf p) = true := by
  decide +kernel


/-- … and through `runTool` (Bool texts checked): if moreover every Bool occurrence carries a text strconv.ParseBool
    accepts, the tool run on the rendering IS the run of the command with these occurrences and positionals. -/
theorem C01_argv_runTool_roundtrip (T0 : Tree) (path : List Tok) (occs : List Occ) (pos : List Tok)
    (hc : canon T0 path = true)
    (ho : ∀ o ∈ occs, renderable (T0.full.withHelp path) o = true)
    (hh : helpVal occs = false)
    (ha : argsErr (argsOf T0.full path) pos = none)
    (hb : firstBad (boolOk (T0.full.withHelp path)) [] occs = none) :
    runTool T0 (render path occs pos) = .run path occs pos (hooksFor T0.full path) := by
  have hx := C01_argv_roundtrip T0 path occs pos hc ho hh ha
  have hwc : (T0.full).withComplete (render path occs pos) = T0.full := by
    simp only [canon, Bool.and_eq_true, Bool.not_eq_true', bne_iff_ne, ne_eq] at hc
    obtain ⟨⟨⟨⟨_, _⟩, hc2⟩, hne⟩, _⟩ := hc
    have hR : ∀ fs, stripFlags fs (occs.map renderOcc ++ ['-', '-'] :: pos) = [] :=
      fun fs => stripFlags_tail fs occs pos
    have hf2 := find_chain _ path _ hc2 hR
    apply withComplete_of_ne
    simp only [render]
    rw [hf2.1]; exact hne
  unfold runTool
  simp only [hx, Res.withSet, Res.occs, Res.cmd, hwc, hb]

/-! ## observations on the concrete trees (each replayed on the real commands by stream `argv`, generator
    "observation") -/

def ws (l : List String) : List Tok := l.map String.toList

/-- `verify --root_cert --show e.binarypb`: the value flag swallows `--show` — the root file is the text "--show",
    `--show` is NOT set, so the endorsement IS verified (against a root file of that name: fail-closed). -/
theorem C01_argv_value_swallows_flag :
    runTool rpTree (ws ["verify", "--root_cert", "--show", "e.binarypb"]) =
      .run (ws ["verify"]) [("root_cert".toList, "--show".toList)] (ws ["e.binarypb"]) [ws ["verify"]] := by
  decide +kernel

/-- `verify --show --root_cert`: a value flag at the end is an error, not "no roots". -/
theorem C01_argv_root_cert_at_end_refused :
    runTool rpTree (ws ["verify", "--show", "--root_cert"]) =
      .err (ws ["verify"]) [("show".toList, "true".toList)] .needsArg := by
  decide +kernel

/-- Find mode: a bare Bool flag in front of the command word eats the command word (`stripFlags` does not know the
    flag on the root): "unknown command", nothing runs. -/
theorem C01_argv_bool_before_command_refused :
    runTool rpTree (ws ["--show", "verify", "e.binarypb"]) = .err [] [] .unknownCommand := by
  decide +kernel

/-- The shipped RootCmd (TraverseChildren): `--` does NOT end command resolution — `sev -- x validate` runs
    `sev validate` WITHOUT positionals (the `x` is parsed away by `sev`), where MakeRoot's tree (Find) runs `sev` with
    the positionals `x validate`. -/
theorem C01_argv_shipped_dashdash_keeps_resolving :
    runTool rsTree (ws ["sev", "--", "x", "validate"]) =
      .run (ws ["sev", "validate"]) [] [] [[], ws ["sev"], ws ["sev", "validate"]] ∧
    runTool rpTree (ws ["sev", "--", "x", "validate"]) =
      .run (ws ["sev"]) [] (ws ["x", "validate"]) [ws ["sev"]] := by
  constructor <;> decide +kernel

/-- The shipped RootCmd: `--help=true` before the command word is an ERROR (pflag.ErrHelp from the root's own
    ParseFlags, whose flag set has no help flag yet), exit status 1; an unknown word is help, exit status 0 (Traverse has
    no `legacyArgs` check) where MakeRoot's tree reports "unknown command". -/
theorem C01_argv_shipped_help_and_unknown_word :
    runTool rsTree (ws ["--help=true", "sev", "validate"]) = .err [] [] .helpRequested ∧
    runTool rsTree (ws ["bogus"]) = .help [] [] (ws ["bogus"]) ∧
    runTool rpTree (ws ["bogus"]) = .err [] [] .unknownCommand := by
  refine ⟨?_, ?_, ?_⟩ <;> decide +kernel

/-- A Bool flag takes no value word: `wipeout --force_prod_wipeout false` FORCES, and "false" is the positional
    that selects what to wipe (`C12_cli_wipeout_parts`: a word other than `ca` / `keys` wipes nothing). -/
theorem C12_argv_bool_takes_no_value :
    runTool npTree (ws ["wipeout", "--force_prod_wipeout", "false"]) =
      .run (ws ["wipeout"]) [("force_prod_wipeout".toList, "true".toList)] (ws ["false"]) [ws ["wipeout"]] := by
  decide +kernel

/-- pflag skips a word `-test.…` silently. -/
theorem C06_argv_test_prefix_skipped :
    runTool npTree (ws ["endorse", "-test.v", "--uefi=f.fd"]) =
      .run (ws ["endorse"]) [("uefi".toList, "f.fd".toList)] [] [ws ["endorse"]] := by
  decide +kernel

/-! ## the relying-party tool over raw argv: `RpCli.run ∘ tokenise` -/

section Rp
open GceTcb.RpCli
variable {Cert Roots Time R Q : Type}

def strOcc (o : Occ) : String × String := (String.ofList o.1, String.ofList o.2)

/-- cobra's own commands (`help`, `completion …`, `__complete`): no code of the repository runs. -/
abbrev builtin : List Tok → Bool := builtinCmd

def rpCmdLine (c : List Tok) (os : List Occ) (pos : List Tok) : CmdLine :=
  { cmd := pathString c, flags := os.map strOcc, args := pos.map String.ofList }

/-- `gcetcbendorsement <argv>` (MakeRoot's tree): tokenising, then the command-line model on what tokenising yields.
    A usage outcome of the root command ignores its positionals (they stand after `--`; before it cobra refuses them). -/
def rpRun (W : World Cert Roots Time R Q) (E : Env Time) (argv : List String) : RpCli.Run R Q :=
  match runTool rpTree (argv.map String.toList) with
  | .err _ _ _ => ⟨[], .err "parse"⟩
  | .help c os pos =>
    if builtin c then ⟨[], Verify.accept⟩ else RpCli.run W E (rpCmdLine c os (if c = [] then [] else pos))
  | .run c os pos _ => if builtin c then ⟨[], Verify.accept⟩ else RpCli.run W E (rpCmdLine c os pos)

/-- C01 over raw argv.  If `gcetcbendorsement argv` exits 0 and cobra resolved argv to `verify`, `sev validate` or
    `tdx validate` (reaching its Run), then — with `cl` the command line tokenising yields — `--help` was given, or it
    is `verify --show`, or the endorsement is authentic for exactly the certificates of the root data `--root_cert`
    names, of which there is at least one, at the Backend's time. -/
theorem C01_argv_exit0_authentic (W : World Cert Roots Time R Q) (E : Env Time) (argv : List String)
    (c : List Tok) (os : List Occ) (pos : List Tok) (hooks : List (List Tok))
    (hr : runTool rpTree (argv.map String.toList) = .run c os pos hooks)
    (hv : c = pathOf "verify" ∨ c = pathOf "sev validate" ∨ c = pathOf "tdx validate")
    (h : (rpRun W E argv).result = Verify.accept) :
    helpFlag (rpCmdLine c os pos) = true ∨
    ((rpCmdLine c os pos).cmd = "verify" ∧ namedShow (rpCmdLine c os pos) = true) ∨
    ∃ k e data, callOf W.P W.L E (rpCmdLine c os pos) = .ok k ∧ callEndorsement W k = some e ∧
      rootData E (namedRoot (rpCmdLine c os pos)) = some data ∧ certsIn W.P data ≠ [] ∧
      Verify.Authentic W.P.vp e (W.P.poolOf (certsIn W.P data)) E.now := by
  have hb : builtin c = false := by rcases hv with rfl | rfl | rfl <;> decide
  have hcmd : (rpCmdLine c os pos).cmd = "verify" ∨ (rpCmdLine c os pos).cmd = "sev validate" ∨
      (rpCmdLine c os pos).cmd = "tdx validate" := by
    rcases hv with rfl | rfl | rfl
    · exact Or.inl (show pathString (pathOf "verify") = "verify" by decide)
    · exact Or.inr (Or.inl (show pathString (pathOf "sev validate") = "sev validate" by decide))
    · exact Or.inr (Or.inr (show pathString (pathOf "tdx validate") = "tdx validate" by decide))
  simp only [rpRun, hr, hb, Bool.false_eq_true, if_false] at h
  exact C01_cli_exit0_authentic W E _ hcmd h

/-- Whatever argv is: an exit status 0 of the tool is one of — cobra printed usage / ran one of its own commands;
    or the run of the command-line model on the tokenised command line accepted. -/
theorem C01_argv_exit0_cases (W : World Cert Roots Time R Q) (E : Env Time) (argv : List String)
    (h : (rpRun W E argv).result = Verify.accept) :
    (∃ c os pos, runTool rpTree (argv.map String.toList) = .help c os pos) ∨
    (∃ c os pos hooks, runTool rpTree (argv.map String.toList) = .run c os pos hooks ∧
      (builtin c = true ∨ (RpCli.run W E (rpCmdLine c os pos)).result = Verify.accept)) := by
  unfold rpRun at h
  cases hr : runTool rpTree (argv.map String.toList) with
  | err c os e => simp [hr, Verify.accept] at h
  | help c os pos => exact Or.inl ⟨c, os, pos, rfl⟩
  | run c os pos hooks =>
    refine Or.inr ⟨c, os, pos, hooks, rfl, ?_⟩
    simp only [hr] at h
    by_cases hb : builtin c = true
    · exact Or.inl hb
    · simp only [hb, Bool.false_eq_true, if_false] at h
      exact Or.inr h

/-- C17 over raw argv: after ANY `gcetcbendorsement argv` that cobra resolves to `sev policy` / `tdx policy`, every
    file other than the `--out` destination of the tokenised command line holds what it held — in particular the
    `--base` file. -/
theorem C17_argv_base_file_untouched (W : World Cert Roots Time R Q) (E : Env Time) (argv : List String)
    (render : Written R Q → Bytes) (c : List Tok) (os : List Occ) (pos : List Tok) (hooks : List (List Tok))
    (hr : runTool rpTree (argv.map String.toList) = .run c os pos hooks)
    (hv : c = pathOf "sev policy" ∨ c = pathOf "tdx policy") :
    (∀ x, x ≠ namedOut (rpCmdLine c os pos) →
        fsAfter render E.readFile (rpRun W E argv).effects x = E.readFile x) ∧
    (namedBase (rpCmdLine c os pos) ≠ namedOut (rpCmdLine c os pos) →
      fsAfter render E.readFile (rpRun W E argv).effects (namedBase (rpCmdLine c os pos)) =
        E.readFile (namedBase (rpCmdLine c os pos))) := by
  have hb : builtin c = false := by rcases hv with rfl | rfl <;> decide
  have hcmd : (rpCmdLine c os pos).cmd = "sev policy" ∨ (rpCmdLine c os pos).cmd = "tdx policy" := by
    rcases hv with rfl | rfl
    · exact Or.inl (show pathString (pathOf "sev policy") = "sev policy" by decide)
    · exact Or.inr (show pathString (pathOf "tdx policy") = "tdx policy" by decide)
  have := C17_cli_base_file_untouched W E (rpCmdLine c os pos) render hcmd
  simpa only [rpRun, hr, hb, Bool.false_eq_true, if_false] using this

/-- … and every argv that cobra refuses, answers with usage, or resolves to one of its own commands has no effect on
    any file. -/
theorem C17_argv_refused_no_effect (W : World Cert Roots Time R Q) (E : Env Time) (argv : List String)
    (h : ∀ c os pos hooks, runTool rpTree (argv.map String.toList) = .run c os pos hooks → builtin c = true)
    (hh : ∀ c os pos, runTool rpTree (argv.map String.toList) = .help c os pos → builtin c = true) :
    (rpRun W E argv).effects = [] := by
  unfold rpRun
  cases hr : runTool rpTree (argv.map String.toList) with
  | err c os e => rfl
  | help c os pos => simp [hh c os pos hr]
  | run c os pos hooks => simp [h c os pos hooks hr]

end Rp

/-! ## the key-management commands over raw argv -/

section Key
open GceTcb.KeyCli GceTcb.KeyHistory

/-- `nonprod <argv>` as far as the key-management commands go: the context handed to rotate.Bootstrap / Key /
    Wipeout, or the refusal (`none`: argv is not one of the three commands reaching its Run). -/
def keyCmdOf (W : Wiring) (pt : String → Option (Int × Nat)) (E : KeyCli.Env) (s : State) (argv : List String) :
    Option (Outcome Handed) :=
  match runTool npTree (argv.map String.toList) with
  | .run c os pos _ => (subOf c).map (fun sub => cmdOf W pt E s (keyFlagsOf sub os pos))
  | _ => none

/-- C12 over raw argv: an argv that cobra resolves to `bootstrap` / `rotate` / `wipeout` is accepted exactly under the
    conditions of `C12_cli_accept_iff` on the record tokenising yields. -/
theorem C12_argv_accept_iff (W : Wiring) (pt : String → Option (Int × Nat)) (E : KeyCli.Env) (s : State)
    (argv : List String) (c : List Tok) (os : List Occ) (pos : List Tok) (hooks : List (List Tok)) (sub : Sub)
    (hr : runTool npTree (argv.map String.toList) = .run c os pos hooks) (hs : subOf c = some sub) :
    ∃ o, keyCmdOf W pt E s argv = some o ∧
      (o.isOk = true ↔
        ∃ p, parseFlags pt (keyFlagsOf sub os pos) = .ok p ∧
          (W.km = .localkm → E.statDir (keyFlagsOf sub os pos).keyDir = some true) ∧
          (W.ca = .gcsca → (keyFlagsOf sub os pos).bucket ≠ "" ∧ resolvedRootPath (keyFlagsOf sub os pos) ≠ "" ∧
            (keyFlagsOf sub os pos).certDir ≠ "") ∧
          ((keyFlagsOf sub os pos).sub ≠ .bootstrap → cliBlocked W.cfg s.ca = false) ∧
          ((keyFlagsOf sub os pos).sub = .rotate → (rotateSerial s.ca p.override).isSome = true)) := by
  refine ⟨cmdOf W pt E s (keyFlagsOf sub os pos), by simp [keyCmdOf, hr, hs], ?_⟩
  exact C12_cli_accept_iff W pt E s (keyFlagsOf sub os pos)

/-- `wipeout --force_prod_wipeout false` through the glue: the record `keyFlagsOf` reads has the force flag SET and
    the positional `false` — so (C12_cli_wipeout_selection) an accepted run hands the library a forced wipeout that
    selects neither the certificate authority nor the keys. -/
theorem C12_argv_force_false_word (W : Wiring) (pt : String → Option (Int × Nat)) (E : KeyCli.Env) (s : State) (h : Handed)
    (hc : keyCmdOf W pt E s ["wipeout", "--force_prod_wipeout", "false"] = some (.ok h)) :
    h.cmd = .wipeout ⟨false, false⟩ ⟨true, false, false⟩ := by
  have hr : runTool npTree (List.map String.toList ["wipeout", "--force_prod_wipeout", "false"]) =
      .run (ws ["wipeout"]) [("force_prod_wipeout".toList, "true".toList)] (ws ["false"]) [ws ["wipeout"]] :=
    C12_argv_bool_takes_no_value
  have hs : subOf (ws ["wipeout"]) = some .wipeout := by decide
  simp only [keyCmdOf, hr, hs, Option.map_some, Option.some.injEq] at hc
  obtain ⟨ca, keys, h1, _, h3⟩ := C12_cli_wipeout_selection W pt E s _ h rfl hc
  have := h3 "false" [] (by decide)
  rw [h1, this.1, this.2]
  rfl

/-- Anything cobra refuses or answers with usage never reaches a key-management command. -/
theorem C12_argv_refused_reaches_nothing (W : Wiring) (pt : String → Option (Int × Nat)) (E : KeyCli.Env) (s : State)
    (argv : List String) (h : ∀ c os pos hooks, runTool npTree (argv.map String.toList) ≠ .run c os pos hooks) :
    keyCmdOf W pt E s argv = none := by
  unfold keyCmdOf
  cases hr : runTool npTree (argv.map String.toList) with
  | run c os pos hooks => exact absurd hr (h c os pos hooks)
  | help c os pos => rfl
  | err c os e => rfl

end Key


/-! ## the `endorse` command over raw argv: `EndorseCli.cliRun ∘ endorseFlagsOf ∘ tokenise` -/

section EndorseArgv
open GceTcb.EndorseCli GceTcb.Endorse GceTcb.Endorse.Spec GceTcb.VF GceTcb.Commit

/-- What `endorseFlagsOf` accepts is the record read off the occurrences: last occurrence for String / Bool /
    numeric flags, every occurrence in order for `--timestamp`, `--snp_product` and (through the CSV reader)
    `--tdx_machine_shapes`, the trimmed last `--commit`; and every numeral occurrence was a numeral in range, every
    `--commit` occurrence hexadecimal. -/
theorem C06_argv_cli_flags_of (N : Numerals) (os : List Occ) (fl : CliFlags) (h : endorseFlagsOf N os = .ok fl) :
    ∃ shapes, csvAll N (everyOcc "tdx_machine_shapes" os) = some shapes ∧
      uintsOk N (2 ^ 64) (everyOcc "clspec" os) = true ∧ uintsOk N (2 ^ 32) (everyOcc "snp_launch_vmsas" os) = true ∧
      intsOk N (everyOcc "commit_retries" os) = true ∧
      (everyOcc "commit" os).all (fun t => (hexDecode (trimSpace t)).isSome) = true ∧
      fl = { addSnp := lastBool "add_snp" os, addTdx := lastBool "add_tdx" os, uefi := lastStr "uefi" "" os,
             svsmPath := lastStr "svsm_path" "" os,
             svsmSnpMeasurementPath := lastStr "svsm_snp_measurement_path" "" os,
             candidateName := lastStr "candidate_name" "" os, releaseBranch := lastStr "release_branch" "" os,
             clspec := lastUint N "clspec" 0 os, commit := trimSpace (lastStr "commit" "" os),
             commitRetries := lastInt N "commit_retries" 5 os, outDir := lastStr "out_dir" "" os,
             dryRun := lastBool "dry_run" os, timestamp := everyOcc "timestamp" os,
             snpFamilyId := lastStr "snp_family_id" "" os, snpImageId := lastStr "snp_image_id" "" os,
             snpLaunchVmsas := lastUint N "snp_launch_vmsas" 0 os, snpProduct := everyOcc "snp_product" os,
             tdxIncludeEarlyAccept := lastBool "tdx_include_early_accept" os, tdxMachineShapes := shapes,
             measurementOnly := lastBool "measurement_only" os, snapshotDir := lastStr "snapshot_dir" "" os,
             overwrite := lastBool "overwrite" os } := by
  unfold endorseFlagsOf at h
  split at h
  · cases h
  · split at h
    · cases h
    · split at h
      · cases h
      · split at h
        · cases h
        · split at h
          · cases h
          · rename_i h1 h2 h3 h4 _ shapes hs
            simp only [Outcome.ok.injEq] at h
            refine ⟨shapes, hs, by simpa using h1, by simpa using h2, by simpa using h3,
              by simpa [Option.isSome_iff_ne_none] using h4, h.symm⟩

/-- A run over raw argv that has ANY effect is a run of `EndorseCli.cliRun` on the record tokenising yields: cobra
    resolved argv to `endorse` and reached its hooks, every built-in value type accepted its texts. -/
theorem C06_argv_cli_reduces (T : Tree) (N : Numerals) (P : Params) (Pr : Prims) (Tb : Tables) (E : Env)
    (keys : Option Keys) (vcs : Option (List Attempt)) (vcss : List (List Attempt)) (argv : List String)
    (eff : Eff) (h : eff ∈ (endorseRun T N P Pr Tb E keys vcs vcss argv).effects) :
    ∃ os pos hooks fl, runTool T (argv.map String.toList) = .run endorsePath os pos hooks ∧
      endorseFlagsOf N os = .ok fl ∧
      endorseRun T N P Pr Tb E keys vcs vcss argv = cliRun P Pr Tb E fl keys vcs vcss := by
  unfold endorseRun endorseOfArgv at h ⊢
  cases hr : runTool T (argv.map String.toList) with
  | err c os e => simp [hr] at h
  | help c os pos => simp [hr] at h
  | run c os pos hooks =>
    simp only [hr] at h ⊢
    by_cases hc : c = endorsePath
    · subst hc
      simp only [if_true] at h ⊢
      cases hf : endorseFlagsOf N os with
      | ok fl => exact ⟨os, pos, hooks, fl, rfl, hf, rfl⟩
      | err e => simp [hf] at h
      | panic s => simp [hf] at h
    · by_cases hb : builtinCmd c = true <;> simp [hc, hb] at h

/-- C06 (a) over raw argv: for every argv that cobra resolves to `endorse` and whose command line is accepted, the
    endorse.Context handed to the pipeline carries what the ARGV names — last `--add_snp` / `--add_tdx` texts decide
    the sections; in every section the SVN of the side file beside the last `--uefi`; the last `--snp_family_id`,
    `--snp_image_id`, `--snp_launch_vmsas` numeral; the product after all `--snp_product` occurrences in order; the
    shapes of all `--tdx_machine_shapes` occurrences concatenated; the last `--clspec` numeral; the trimmed last
    `--commit` decoded; the time after all `--timestamp` occurrences (or the time of the run); the bytes of the file
    at the last `--uefi`; the last texts of the mode flags and directories.  Positional words change nothing. -/
theorem C06_argv_cli_request (T : Tree) (N : Numerals) (P : Params) (U : String → Option Bytes) (E : Env)
    (argv : List String) (os : List Occ) (pos : List Tok) (hooks : List (List Tok)) (fl : CliFlags) (ec : EC) (ow : Bool)
    (_hr : runTool T (argv.map String.toList) = .run endorsePath os pos hooks)
    (hf : endorseFlagsOf N os = .ok fl) (h : ecOf P U E fl = .ok (ec, ow)) :
    (ec.snp.isSome = lastBool "add_snp" os ∧ ec.tdx.isSome = lastBool "add_tdx" os) ∧
    (∀ r, ec.snp = some r → r.svn = sideSvn P E (lastStr "uefi" "" os) ∧
        r.familyId = lastStr "snp_family_id" "" os ∧ r.imageId = lastStr "snp_image_id" "" os ∧
        r.launchVmsas = lastUint N "snp_launch_vmsas" 0 os ∧
        productSetAll P defaultProduct (everyOcc "snp_product" os) = .ok r.product) ∧
    (∀ t, ec.tdx = some t → t.svn = sideSvn P E (lastStr "uefi" "" os) ∧
        t.includeEarlyAccept = lastBool "tdx_include_early_accept" os ∧
        csvAll N (everyOcc "tdx_machine_shapes" os) = some t.machineShapes) ∧
    (ec.clSpec = lastUint N "clspec" 0 os ∧ hexDecode (trimSpace (lastStr "commit" "" os)) = some ec.commit) ∧
    (∃ ts, timeSetAll P zeroTime (everyOcc "timestamp" os) = .ok ts ∧
        ec.timestamp = if ts = zeroTime then E.now else ts) ∧
    (E.readFile (lastStr "uefi" "" os) = some ec.image ∧ ec.imageName = pathBase (lastStr "uefi" "" os)) ∧
    (ec.dryRun = lastBool "dry_run" os ∧ ec.measurementOnly = lastBool "measurement_only" os ∧
      ow = lastBool "overwrite" os ∧ ec.snapshotDir = lastStr "snapshot_dir" "" os ∧
      ec.candidateName = lastStr "candidate_name" "" os ∧ ec.outDir = lastStr "out_dir" "" os ∧
      ec.commitRetries = lastInt N "commit_retries" 5 os ∧ ec.releaseBranch = lastStr "release_branch" "" os) := by
  obtain ⟨shapes, hs, _, _, _, _, rfl⟩ := C06_argv_cli_flags_of N os fl hf
  obtain ⟨h1, h2, h3, h4, h5, h6, _, h8⟩ := C06_cli_request P U E _ ec ow h
  refine ⟨h1, h2, ?_, h4, h5, h6, h8⟩
  intro t ht
  obtain ⟨a, b, c⟩ := h3 t ht
  exact ⟨a, b, by rw [hs, c]⟩

/-- C06 over raw argv, the document: every document `endorse argv` hands to the signer is a document of
    `C06_cli_document` for the record tokenising yields — it describes the image at the last `--uefi` and the command
    line the argv spells. -/
theorem C06_argv_cli_document (T : Tree) (N : Numerals) (P : Params) (Pr : Prims) (Tb : Tables) (E : Env)
    (keys : Option Keys) (vcs : Option (List Attempt)) (vcss : List (List Attempt)) (argv : List String)
    (hT : Tb.vmsaCounts.Nodup) (k : String) (d : Golden)
    (hsign : Eff.sign k d ∈ (endorseRun T N P Pr Tb E keys vcs vcss argv).effects) :
    ∃ os pos hooks shapes img commit ts prod,
      runTool T (argv.map String.toList) = .run endorsePath os pos hooks ∧
      csvAll N (everyOcc "tdx_machine_shapes" os) = some shapes ∧
      E.readFile (lastStr "uefi" "" os) = some img ∧
      hexDecode (trimSpace (lastStr "commit" "" os)) = some commit ∧
      timeSetAll P zeroTime (everyOcc "timestamp" os) = .ok ts ∧
      productSetAll P defaultProduct (everyOcc "snp_product" os) = .ok prod ∧
      lastBool "measurement_only" os = false ∧
      d.digest = Pr.sha384 img ∧ d.clSpec = lastUint N "clspec" 0 os ∧ d.commit = commit ∧
      d.timestamp = some (if ts = zeroTime then E.now else ts) ∧
      (lastBool "add_snp" os = false → d.snp = none) ∧
      (lastBool "add_snp" os = true → ∃ s, d.snp = some s ∧ s.svn = sideSvn P E (lastStr "uefi" "" os) ∧
        s.measurements.map (·.1) = snpCounts Tb.vmsaCounts (lastUint N "snp_launch_vmsas" 0 os) ∧
        (∀ p ∈ s.measurements, Pr.launchDigest img p.1 prod = .ok p.2)) ∧
      (lastBool "add_tdx" os = false → d.tdx = none) ∧
      (lastBool "add_tdx" os = true → ∃ t, d.tdx = some t ∧ t.svn = sideSvn P E (lastStr "uefi" "" os) ∧
        Paired (WrittenRow Pr Tb img) (tdxConfigs shapes (lastBool "tdx_include_early_accept" os)) t.rows) := by
  obtain ⟨os, pos, hooks, fl, hr, hf, hrun⟩ := C06_argv_cli_reduces T N P Pr Tb E keys vcs vcss argv _ hsign
  rw [hrun] at hsign
  obtain ⟨shapes, hs, _, _, _, _, rfl⟩ := C06_argv_cli_flags_of N os fl hf
  obtain ⟨img, commit, ts, prod, a1, a2, a3, a4, a5, a6, a7, a8, a9, a10, a11, a12, a13⟩ :=
    C06_cli_document P Pr Tb E _ keys vcs vcss hT k d hsign
  refine ⟨os, pos, hooks, shapes, img, commit, ts, prod, hr, hs, a1, a2, a3, a4, a5, a6, a7, a8, a9, a10, ?_, a12, a13⟩
  intro hsn
  obtain ⟨s, b1, b2, b3, b4, _⟩ := a11 hsn
  exact ⟨s, b1, b2, b3, b4⟩

/-! ### C15 over raw argv -/

/-- `--dry_run` as the argv spells it: IF the last `--dry_run` occurrence tokenising yields reads true (every
    spelling below), then whatever else argv holds, the only calls a VersionControl sees are Result without a commit
    and the RetriableError query — no workspace, no file, no commit. -/
theorem C15_argv_cli_dry_run_pure (T : Tree) (N : Numerals) (P : Params) (Pr : Prims) (Tb : Tables) (E : Env)
    (keys : Option Keys) (vcs : Option (List Attempt)) (vcss : List (List Attempt)) (argv : List String)
    (hd : ∀ os pos hooks, runTool T (argv.map String.toList) = .run endorsePath os pos hooks →
      lastBool "dry_run" os = true) :
    ∀ i ev, Eff.vcs i ev ∈ (endorseRun T N P Pr Tb E keys vcs vcss argv).effects →
      (ev.kind = .result ∧ ev.ok = false) ∨ ev.kind = .retriable := by
  intro i ev h
  obtain ⟨os, pos, hooks, fl, hr, hf, hrun⟩ := C06_argv_cli_reduces T N P Pr Tb E keys vcs vcss argv _ h
  rw [hrun] at h
  obtain ⟨shapes, _, _, _, _, _, rfl⟩ := C06_argv_cli_flags_of N os fl hf
  exact C15_cli_dry_run_pure P Pr Tb E _ keys vcs vcss (hd os pos hooks hr) i ev h

/-- `--measurement_only` as the argv spells it: nothing but standard output is touched. -/
theorem C15_argv_cli_measurement_only_pure (T : Tree) (N : Numerals) (P : Params) (Pr : Prims) (Tb : Tables)
    (E : Env) (keys : Option Keys) (vcs : Option (List Attempt)) (vcss : List (List Attempt)) (argv : List String)
    (hm : ∀ os pos hooks, runTool T (argv.map String.toList) = .run endorsePath os pos hooks →
      lastBool "measurement_only" os = true) :
    ∀ eff ∈ (endorseRun T N P Pr Tb E keys vcs vcss argv).effects, ∃ l, eff = Eff.stdout l := by
  intro eff h
  obtain ⟨os, pos, hooks, fl, hr, hf, hrun⟩ := C06_argv_cli_reduces T N P Pr Tb E keys vcs vcss argv _ h
  rw [hrun] at h
  obtain ⟨shapes, _, _, _, _, _, rfl⟩ := C06_argv_cli_flags_of N os fl hf
  exact C15_cli_measurement_only_pure P Pr Tb E _ keys vcs vcss (hm os pos hooks hr) eff h

/-- (c) over raw argv: an argv that cobra / pflag refuse (unknown flag, value flag at the end, a Bool text that is
    no Bool, unknown command), answer with usage, or resolve to another command; a numeral that is none or out of
    range; a `--commit` that is not hexadecimal; a command line the command refuses — NO effect at all, and unless
    it is usage (the help flag, or one of cobra's own commands) the run is an error. -/
theorem C15_argv_cli_refused_pure (T : Tree) (N : Numerals) (P : Params) (Pr : Prims) (Tb : Tables) (E : Env)
    (keys : Option Keys) (vcs : Option (List Attempt)) (vcss : List (List Attempt)) (argv : List String)
    (h : ∀ fl pos, endorseOfArgv T N (argv.map String.toList) = .flags fl pos →
      (ecOf P Pr.parseUuid E fl).isOk = false) :
    (endorseRun T N P Pr Tb E keys vcs vcss argv).effects = [] ∧
    (endorseOfArgv T N (argv.map String.toList) ≠ .usage →
      ∃ e, (endorseRun T N P Pr Tb E keys vcs vcss argv).result = .err e) := by
  unfold endorseRun
  cases ho : endorseOfArgv T N (argv.map String.toList) with
  | flags fl pos =>
    obtain ⟨h1, e, h2⟩ := C15_cli_refused_pure P Pr Tb E fl keys vcs vcss (h fl pos ho)
    exact ⟨h1, fun _ => ⟨e, h2⟩⟩
  | refused e => exact ⟨rfl, fun _ => ⟨e, rfl⟩⟩
  | other c => exact ⟨rfl, fun _ => ⟨_, rfl⟩⟩
  | usage => exact ⟨rfl, fun hh => absurd rfl hh⟩

/-! ### spellings of a Bool flag (pflag laws for every flag table, then the `endorse` trees) -/

/-- A bare Bool flag (`--name` of a flag with a NoOptDefVal) sets its NoOptDefVal and takes NO value word: whatever
    the next word is, it is read on its own. -/
theorem C15_argv_bool_takes_no_value_word (fs : List FlagSpec) (inter : Bool) (n : Tok) (f : FlagSpec) (rest : List Tok)
    (hl : lookupLong fs n = some f) (hv : f.noOpt ≠ []) (hne : n ≠ [])
    (hh : ∀ c cs, n = c :: cs → c ≠ '-' ∧ c ≠ '=') (heq : n.contains '=' = false) :
    parseArgs fs inter (('-' :: '-' :: n) :: rest) = (parseArgs fs inter rest).addOccs [(n, f.noOpt)] := by
  have hn := lookupLong_name hl
  have hc : classify fs ('-' :: '-' :: n) rest.head? = .flags [(n, f.noOpt)] false := by
    cases n with
    | nil => exact absurd rfl hne
    | cons c cs =>
      have hcc := hh c cs rfl
      have hs := splitEq_noEq (c :: cs) heq
      simp [classify, parseLong, hcc.1, hcc.2, hs, hl, hv, hn]
  rw [parseArgs, hc]

/-- … so `--name false` does NOT switch the flag off: the flag is set to its NoOptDefVal ("true") and `false` is a
    positional word. -/
theorem C15_argv_bool_false_word_is_positional (fs : List FlagSpec) (n : Tok) (f : FlagSpec) (rest : List Tok)
    (hl : lookupLong fs n = some f) (hv : f.noOpt ≠ []) (hne : n ≠ [])
    (hh : ∀ c cs, n = c :: cs → c ≠ '-' ∧ c ≠ '=') (heq : n.contains '=' = false) :
    parseArgs fs true (('-' :: '-' :: n) :: "false".toList :: rest) =
      ((parseArgs fs true rest).addPos "false".toList).addOccs [(n, f.noOpt)] := by
  rw [C15_argv_bool_takes_no_value_word fs true n f _ hl hv hne hh heq,
    parseArgs_plain fs "false".toList rest (by decide)]

/-- Repetition and position: the LAST occurrence decides, wherever it stands among the other flags. -/
theorem C15_argv_last_occurrence_wins (n : String) (a b : List Occ) :
    lastBool n (a ++ b) = if (lastOcc n.toList b).isSome then lastBool n b else lastBool n a := by
  unfold lastBool
  rw [lastOcc_append]
  cases lastOcc n.toList b <;> rfl

/-- the reading of Bool flag `n` when argv reaches `endorse` -/
def boolOf (n : String) (T : Tree) (argv : List String) : Option Bool :=
  match runTool T (argv.map String.toList) with
  | .run c os _ _ => if c = endorsePath then some (lastBool n os) else none
  | _ => none

def dryOf (T : Tree) (argv : List String) : Option Bool := boolOf "dry_run" T argv

def refusedByCobra (T : Tree) (argv : List String) : Bool :=
  match runTool T (argv.map String.toList) with
  | .err _ _ _ => true
  | _ => false

/-- Every accepted spelling of `--dry_run` on both `endorse` trees (cmd.MakeApp over flag-less components, and the
    non-production application) reads true: bare, `=true`, `=1`, `=T`, before and after other flags, after a
    `--dry_run=false`, written `--dry_run=true` in FRONT of the command word (a bare `--dry_run` there is refused:
    `C15_argv_cli_dry_run_refused`) — and `--dry_run false` (the word `false` is a positional the command ignores). -/
theorem C15_argv_cli_dry_run_spellings :
    ∀ T ∈ [apTree, npTree], ∀ argv ∈
      [["endorse", "--dry_run"], ["endorse", "--dry_run=true"], ["endorse", "--dry_run=1"], ["endorse", "--dry_run=T"],
       ["endorse", "--uefi", "fw.fd", "--dry_run"], ["endorse", "--dry_run", "--uefi", "fw.fd"],
       ["endorse", "--dry_run", "--uefi=fw.fd", "--dry_run"], ["endorse", "--dry_run=false", "--dry_run"],
       ["endorse", "--uefi", "fw.fd", "--dry_run", "false"], ["endorse", "--dry_run", "false", "--add_snp"],
       ["endorse", "x", "--dry_run"], ["endorse", "--measurement_only", "--dry_run"], ["--dry_run=true", "endorse"]],
      dryOf T argv = some true := by
  decide +kernel

/-- The spellings that switch it off or do not set it: `=false`, `=0`, a later `=false`, after `--` (positional),
    swallowed as the value of a value flag. -/
theorem C15_argv_cli_dry_run_off :
    ∀ T ∈ [apTree, npTree], ∀ argv ∈
      [["endorse"], ["endorse", "--dry_run=false"], ["endorse", "--dry_run=0"], ["endorse", "--dry_run", "--dry_run=false"],
       ["endorse", "--", "--dry_run"], ["endorse", "--uefi", "--dry_run"]],
      dryOf T argv = some false := by
  decide +kernel

/-- … and the ones cobra / pflag refuse before any hook: a Bool text that is no Bool, an `=`-less value glued on,
    the flag in front of the command word (the root does not know it). -/
theorem C15_argv_cli_dry_run_refused :
    ∀ T ∈ [apTree, npTree], ∀ argv ∈
      [["endorse", "--dry_run=maybe"], ["endorse", "--dry_run="], ["endorse", "--dry_runs"], ["--dry_run", "endorse"],
       ["endorse", "-dry_run"]],
      refusedByCobra T argv = true := by
  decide +kernel

/-- `endorse --uefi fw.fd --add_snp --dry_run false` IS a dry run, on every environment: the no-side-effect
    conclusion of C15 holds for it (and for every argv of `C15_argv_cli_dry_run_spellings`, by the same proof). -/
theorem C15_argv_cli_dry_run_false_is_dry (N : Numerals) (P : Params) (Pr : Prims) (Tb : Tables) (E : Env)
    (keys : Option Keys) (vcs : Option (List Attempt)) (vcss : List (List Attempt)) :
    runTool apTree (ws ["endorse", "--uefi", "fw.fd", "--add_snp", "--dry_run", "false"]) =
      .run endorsePath [("uefi".toList, "fw.fd".toList), ("add_snp".toList, "true".toList), ("dry_run".toList, "true".toList)]
        (ws ["false"]) [endorsePath] ∧
    ∀ i ev, Eff.vcs i ev ∈ (endorseRun apTree N P Pr Tb E keys vcs vcss
        ["endorse", "--uefi", "fw.fd", "--add_snp", "--dry_run", "false"]).effects →
      (ev.kind = .result ∧ ev.ok = false) ∨ ev.kind = .retriable := by
  have hr : runTool apTree (ws ["endorse", "--uefi", "fw.fd", "--add_snp", "--dry_run", "false"]) =
      .run endorsePath [("uefi".toList, "fw.fd".toList), ("add_snp".toList, "true".toList), ("dry_run".toList, "true".toList)]
        (ws ["false"]) [endorsePath] := by decide +kernel
  refine ⟨hr, ?_⟩
  apply C15_argv_cli_dry_run_pure
  intro os pos hooks h
  have : runTool apTree (List.map String.toList ["endorse", "--uefi", "fw.fd", "--add_snp", "--dry_run", "false"]) =
      runTool apTree (ws ["endorse", "--uefi", "fw.fd", "--add_snp", "--dry_run", "false"]) := rfl
  rw [this, hr] at h
  cases h
  decide

/-- EVERY canonical command line of `endorse` whose last `--dry_run` occurrence reads true — any other occurrences
    (names visible from `endorse`, any value texts, Bool texts strconv.ParseBool accepts, no true `--help`), in any
    order, any repetition, any positional words — has the no-side-effect conclusion of C15, on both trees. -/
theorem C15_argv_cli_canonical_dry_run (T : Tree) (hT : T = apTree ∨ T = npTree) (N : Numerals) (P : Params) (Pr : Prims)
    (Tb : Tables) (E : Env) (keys : Option Keys) (vcs : Option (List Attempt)) (vcss : List (List Attempt))
    (occs : List Occ) (pos : List Tok)
    (ho : ∀ o ∈ occs, renderable (T.full.withHelp endorsePath) o = true)
    (hh : helpVal occs = false)
    (hb : firstBad (boolOk (T.full.withHelp endorsePath)) [] occs = none)
    (hd : lastBool "dry_run" occs = true) :
    ∀ i ev, Eff.vcs i ev ∈ (endorseRun T N P Pr Tb E keys vcs vcss
        ((render endorsePath occs pos).map String.ofList)).effects →
      (ev.kind = .result ∧ ev.ok = false) ∨ ev.kind = .retriable := by
  have hc : canon T endorsePath = true := by
    rcases hT with rfl | rfl
    · exact C06_argv_canon_ap "endorse" (by simp)
    · exact C12_argv_canon_np "endorse" (by simp)
  have ha : argsErr (argsOf T.full endorsePath) pos = none := by
    have : argsOf T.full endorsePath = .legacy := by rcases hT with rfl | rfl <;> decide +kernel
    rw [this]; rfl
  have hr := C01_argv_runTool_roundtrip T endorsePath occs pos hc ho hh ha hb
  apply C15_argv_cli_dry_run_pure
  intro os pos' hooks h
  have hm : List.map String.toList (List.map String.ofList (render endorsePath occs pos)) = render endorsePath occs pos := by
    rw [List.map_map]
    conv => rhs; rw [← List.map_id (render endorsePath occs pos)]
    apply List.map_congr_left
    intro a _
    simp
  rw [hm, hr] at h
  cases h
  exact hd

/-- Positional words change nothing: two argv that reach `endorse` with the same occurrences are the same run. -/
theorem C06_argv_cli_positionals_ignored (T : Tree) (N : Numerals) (P : Params) (Pr : Prims) (Tb : Tables) (E : Env)
    (keys : Option Keys) (vcs : Option (List Attempt)) (vcss : List (List Attempt)) (a b : List String)
    (os : List Occ) (pa pb : List Tok) (ha' hb' : List (List Tok))
    (ha : runTool T (a.map String.toList) = .run endorsePath os pa ha')
    (hb : runTool T (b.map String.toList) = .run endorsePath os pb hb') :
    endorseRun T N P Pr Tb E keys vcs vcss a = endorseRun T N P Pr Tb E keys vcs vcss b := by
  unfold endorseRun endorseOfArgv
  simp only [ha, hb, if_true]
  cases endorseFlagsOf N os <;> rfl

/-- The same for `--measurement_only`: every accepted spelling reads true, `--measurement_only false` included. -/
theorem C15_argv_cli_measurement_only_spellings :
    ∀ T ∈ [apTree, npTree], ∀ argv ∈
      [["endorse", "--measurement_only"], ["endorse", "--measurement_only=true"],
       ["endorse", "--add_tdx", "--measurement_only", "--uefi", "fw.fd"],
       ["endorse", "--measurement_only=false", "--measurement_only"], ["endorse", "--measurement_only", "false"]],
      boolOf "measurement_only" T argv = some true := by
  decide +kernel

end EndorseArgv

/-! ## regenerated facts (extract/xargv.go → Gen/ArgvFlags.lean) -/

/-- The library versions the model was transcribed from are the ones both go.mod files pin. -/
theorem C01_argv_versions :
    Gen.ArgvFlags.versions =
      [("go.mod", "github.com/spf13/cobra", "v1.8.0"), ("go.mod", "github.com/spf13/pflag", "v1.0.5"),
       ("gcetcbendorsement/go.mod", "github.com/spf13/cobra", "v1.8.0"),
       ("gcetcbendorsement/go.mod", "github.com/spf13/pflag", "v1.0.5")] := by decide

/-- How the repository uses cobra / pflag, as the model assumes: `TraverseChildren` is set in one place (the shipped
    RootCmd: `rsTree`), `EnableTraverseRunHooks` in one (MakeRoot), 70 flag-defining calls, and NONE of: a shorthand
    definition (`…VarP`), an `Args:` validator, aliases, `DisableFlagParsing`, `SetInterspersed`, a parse-error
    whitelist, a normalisation function, `NoOptDefVal`, required flags / flag groups, `Version:`, prefix or
    case-insensitive matching, completion options, replaced help / flag-error functions. -/
theorem C01_argv_settings :
    Gen.ArgvFlags.settings =
      [("TraverseChildren", 1), ("EnableTraverseRunHooks", 1), ("EnablePrefixMatching", 0),
       ("EnableCaseInsensitive", 0), ("DisableFlagParsing", 0), ("SetInterspersed", 0), ("FParseErrWhitelist", 0),
       ("NormalizeFunc", 0), ("NoOptDefVal", 0), ("RequiredFlag", 0), ("ArgsValidator", 0), ("Aliases", 0),
       ("Version", 0), ("ShorthandDefinition", 0), ("FlagDefinition", 70), ("CompletionOptions", 0),
       ("SetHelpCommand", 0)] := by decide

/-- The trees carry what the census says: no shorthand anywhere, a NoOptDefVal only "true", no flag named `help`,
    legacy `Args` everywhere, only `rsTree` traverses. -/
theorem C01_argv_trees_flags :
    ([rpTree, rsTree, npTree, apTree].all fun T => T.cmds.all fun c =>
      (c.lflags ++ c.pflags).all (fun f => f.short == none && (f.noOpt == [] || f.noOpt == "true".toList) &&
        f.name != helpName) && c.args == .legacy && !c.noParse && c.aliases == []) = true ∧
    [rpTree.traverse, rsTree.traverse, npTree.traverse, apTree.traverse] = [false, true, false, false] := by
  constructor <;> decide +kernel

/-! ### per-flag rows regenerated from the flag-defining calls (Gen.ArgvFlags.flagDefs) -/

def wiringSources : List String :=
  ["testing/nonprod/localkm.T.AddFlags", "testing/nonprod/localca.T.AddFlags", "sign/gcsca.CertificateAuthority.AddFlags"]

/-- Which functions' flag definitions land on which command: the constructors of gcetcbendorsement/cmd define the
    flags of the command they make (`rs`: the shipped RootCmd's `init` adds two to the root); cmd.MakeApp puts
    output.Options.AddFlags on the root and, on every command, app.Global's AddFlags (testing/nonprod: localkm.T,
    localca.T → gcsca.CertificateAuthority; nothing in `ap`), the command's own and its application component's. -/
def flagSources (tree cmd : String) : List String :=
  let w := if tree = "np" then wiringSources else []
  if tree = "rp" ∨ tree = "rs" then
    (if cmd = "" then (if tree = "rs" then ["gcetcbendorsement/cmd.init"] else [])
     else if cmd = "extract" then ["gcetcbendorsement/cmd.makeExtract"]
     else if cmd = "inspect" then ["gcetcbendorsement/cmd.makeInspect"]
     else if cmd = "inspect mask" then ["gcetcbendorsement/cmd.makeMaskCmd"]
     else if cmd = "sev" then ["gcetcbendorsement/cmd.makeSevCommand"]
     else if cmd = "sev validate" then ["gcetcbendorsement/cmd.makeSevValidateCommand"]
     else if cmd = "sev policy" then ["gcetcbendorsement/cmd.makeSevPolicyCommand"]
     else if cmd = "tdx" then ["gcetcbendorsement/cmd.makeTdxCommand"]
     else if cmd = "tdx validate" then ["gcetcbendorsement/cmd.makeTdxValidateCommand"]
     else if cmd = "tdx policy" then ["gcetcbendorsement/cmd.makeTdxPolicyCommand"]
     else if cmd = "verify" then ["gcetcbendorsement/cmd.makeVerify"]
     else [])
  else
    (if cmd = "" then w ++ ["cmd/output.Options.AddFlags"]
     else if cmd = "endorse" then
       w ++ ["cmd.endorseCommand.AddFlags"] ++ (if tree = "np" then ["testing/nonprod/localnonvcs.T.AddFlags"] else [])
     else if cmd = "bootstrap" then w ++ ["cmd.BootstrapCommand.AddFlags"]
     else if cmd = "rotate" then w ++ ["cmd.RotateCommand.AddFlags"]
     else if cmd = "wipeout" then w ++ ["cmd.wipeoutBase"]
     else [])

/-- the rows of the given functions and scope as flag specs: name, shorthand, NoOptDefVal -/
def genSpecs (srcs : List String) (scope : String) : List FlagSpec :=
  (Gen.ArgvFlags.flagDefs.filter (fun r => srcs.contains r.1 && r.2.1 == scope)).map fun r =>
    { name := r.2.2.1.toList, short := r.2.2.2.1.toList.head?, noOpt := r.2.2.2.2.2.toList }

def sameSpecs (a b : List FlagSpec) : Bool := a.length == b.length && a.all b.contains && b.all a.contains

def treeMatchesDefs (tree : String) (T : Tree) : Bool :=
  T.cmds.all fun c =>
    sameSpecs c.lflags (genSpecs (flagSources tree (pathString c.path)) "local") &&
    sameSpecs c.pflags (genSpecs (flagSources tree (pathString c.path)) "persistent")

/-- Every flag of every command of the four trees — name, shorthand, NoOptDefVal, and whether it was defined through
    `cmd.Flags()` or `cmd.PersistentFlags()` — is a row regenerated from the flag-defining call in the source, and
    every regenerated row of the command's constructors is in the tree: a flag turned from String to Bool, a new
    shorthand, a flag moved between the two flag sets, a flag added or dropped breaks this. -/
theorem C01_argv_flag_defs : treeMatchesDefs "rp" rpTree = true ∧ treeMatchesDefs "rs" rsTree = true := by
  constructor <;> decide +kernel

theorem C12_argv_flag_defs : treeMatchesDefs "np" npTree = true := by decide +kernel

theorem C06_argv_flag_defs : treeMatchesDefs "ap" apTree = true := by decide +kernel

def kindName (k : String) : String := if k.startsWith "Go:" then (k.drop 3).toString else k

/-- (flag, kind) of the given functions -/
def genKinds (srcs : List String) : List (String × String) :=
  (Gen.ArgvFlags.flagDefs.filter (fun r => srcs.contains r.1)).map fun r => (r.2.2.1, kindName r.2.2.2.2.1)

def sameKinds (a b : List (String × String)) : Bool := a.length == b.length && a.all b.contains && b.all a.contains

/-- The type column of the command-line models' flag tables is the kind of the defining call (pflag's method stem;
    the Go type of the Value for `AddGoFlag`): the glue (`endorseFlagsOf`, `keyFlagsOf`) treats a flag by that
    column — last occurrence / every occurrence / Bool text. -/
theorem C06_argv_flag_kinds :
    sameKinds (EndorseCli.flagTable.map fun r => (r.1, r.2.1))
      (genKinds ["cmd.endorseCommand.AddFlags", "cmd/output.Options.AddFlags"]) = true := by decide +kernel

theorem C12_argv_flag_kinds :
    sameKinds (KeyCli.bootstrapFlagTable.map fun r => (r.1, r.2.1)) (genKinds ["cmd.BootstrapCommand.AddFlags"]) = true ∧
    sameKinds (KeyCli.rotateFlagTable.map fun r => (r.1, r.2.1)) (genKinds ["cmd.RotateCommand.AddFlags"]) = true ∧
    sameKinds (KeyCli.wipeoutFlagTable.map fun r => (r.1, r.2.1)) (genKinds ["cmd.wipeoutBase"]) = true ∧
    sameKinds (KeyCli.outputFlagTable.map fun r => (r.1, r.2.1)) (genKinds ["cmd/output.Options.AddFlags"]) = true ∧
    sameKinds (KeyCli.wiringFlagTable.map fun r => (r.1, r.2.1)) (genKinds wiringSources) = true := by
  refine ⟨?_, ?_, ?_, ?_, ?_⟩ <;> decide +kernel

theorem C01_argv_flag_kinds :
    RpCli.flagTable.all (fun r => (genKinds (flagSources "rp" r.1)).contains (r.2.2.1, r.2.2.2.1)) = true ∧
    RpCli.flagTable.length =
      (Gen.ArgvFlags.flagDefs.filter (fun r => r.1.startsWith "gcetcbendorsement/cmd.make")).length := by
  constructor <;> decide +kernel

/-! ## non-vacuity -/

example : renderable (npTree.full.withHelp (ws ["rotate"])) ("timestamp".toList, "--quiet".toList) = true := by
  decide +kernel

example : executeC npTree (render (ws ["rotate"]) [("timestamp".toList, "--quiet".toList), ("timestamp".toList, [])]
    (ws ["--help", "-x", ""])) =
    .run (ws ["rotate"]) [("timestamp".toList, "--quiet".toList), ("timestamp".toList, [])] (ws ["--help", "-x", ""])
      [ws ["rotate"]] := by
  decide +kernel

example : subOf (ws ["rotate"]) = some .rotate := by decide

def splitComma : List Char → List (List Char)
  | [] => [[]]
  | c :: cs =>
    if c = ',' then [] :: splitComma cs
    else
      match splitComma cs with
      | [] => [[c]]
      | w :: ws => (c :: w) :: ws

/-- a few numerals, shapes split at commas: enough for the examples -/
def exNumerals : Numerals :=
  { uint := fun s => if s = "77" then some 77 else if s = "2" then some 2 else if s = "0x10" then some 16 else none
    int := fun s => if s = "2" then some 2 else if s = "-1" then some (-1) else none
    csv := fun s => if s = "" then some [] else some ((splitComma s.toList).map String.ofList) }

section
open GceTcb.EndorseCli GceTcb.VF

/-- End to end on a concrete environment (that of the C15Cli example): the argv below — value flags in both spellings,
    a Bool flag overridden, `--dry_run false` — reaches the pipeline, makes the 4 key calls and the single Result call
    of a dry run, prints nothing; the same argv without `--dry_run false` makes 8 back-end calls; with
    `--measurement_only false` no call at all and 4 lines; `--dry_run=maybe` and `--clspec 0x` have no effect. -/
example :
    let run := fun argv => endorseRun apTree exNumerals exParams15 exP exT exEnv15 exKeys (some exScript) [] argv
    let common := ["endorse", "--uefi", "fw.fd", "--add_snp=false", "--add_snp", "--add_tdx=1", "--out_dir=out",
                   "--tdx_machine_shapes", "c3-standard-4", "--candidate_name", "rc0", "--clspec=0x10"]
    let dry := run (common ++ ["--dry_run", "false"])
    let real := run common
    let mo := run (common ++ ["--measurement_only", "false"])
    let bad := run (common ++ ["--dry_run=maybe"])
    let badnum := run (common ++ ["--clspec", "0x"])
    (countKeys dry.effects, countVcs dry.effects, stdoutLines dry.effects) = (4, 1, []) ∧
    (countKeys real.effects, countVcs real.effects, stdoutLines real.effects) = (4, 8, []) ∧
    (countKeys mo.effects, countVcs mo.effects, (stdoutLines mo.effects).length) = (0, 0, 4) ∧
    bad.effects.length = 0 ∧ bad.result = .err "parse:argv" ∧
    badnum.effects.length = 0 ∧ badnum.result = .err "parse:clspec" ∧
    dry.result = .ok () ∧ real.result = .ok () := by
  decide +kernel

/-- the hypotheses of `C15_argv_cli_canonical_dry_run` are met by occurrence lists with awkward value texts -/
example :
    let occs : List Occ := [("dry_run".toList, "false".toList), ("uefi".toList, "--dry_run=false".toList),
                            ("dry_run".toList, "T".toList), ("snp_product".toList, [])]
    (occs.all fun o => renderable (apTree.full.withHelp endorsePath) o) = true ∧ helpVal occs = false ∧
    firstBad (boolOk (apTree.full.withHelp endorsePath)) [] occs = none ∧ lastBool "dry_run" occs = true := by
  decide +kernel

end


end GceTcb.Props.CliArgv
