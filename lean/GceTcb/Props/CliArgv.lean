import GceTcb.Proofs.Argv
import GceTcb.Model.ArgvTrees
import GceTcb.Props.C01Cli
import GceTcb.Props.C17Cli
import GceTcb.Props.C12Cli
import GceTcb.Gen.ArgvFlags
/-
argv tokenising (spf13/pflag `FlagSet.Parse` as cobra calls it) and cobra's command resolution, for the command lines
of C01 / C02 / C17 (gcetcbendorsement), C06 / C15 (endorse) and C12 (bootstrap / rotate / wipeout).
Model: Model/Argv.lean, trees: Model/ArgvTrees.lean, lemmas: Proofs/Argv.lean.  The theorems named `C06_argv_*` are
the laws of pflag's `parseArgs` for EVERY flag table (all three tools rest on them); `C01_argv_*`, `C12_argv_*`,
`C17_argv_*` are about cobra's resolution on the concrete trees and the composition with the command-line models.
-/
namespace GceTcb.Props.CliArgv
open GceTcb GceTcb.Argv GceTcb.ArgvTrees

/-! ## pflag: laws for every flag table -/

/-- Canonical rendering round-trip: `--name=value` for every occurrence in order, then `--`, then the positionals, is
    read back as exactly those occurrences and positionals — for ANY value texts and ANY positional texts; the side
    condition (`renderable`, decidable) is on flag NAMES only: defined in the table, not empty, no `=`, no leading
    `-` or `=`. -/
theorem C06_argv_roundtrip (fs : List FlagSpec) (inter : Bool) (occs : List Occ) (pos : List Tok)
    (h : ∀ o ∈ occs, renderable fs o = true) :
    parseArgs fs inter (occs.map renderOcc ++ ['-', '-'] :: pos) = { occs := occs, pos := pos, err := none } :=
  parseArgs_render fs inter occs pos h

/-- Order and repetition are preserved: a rendered occurrence in front of ANY rest of the command line becomes the
    first occurrence, and the rest is read as it would be alone. -/
theorem C06_argv_order_preserved (fs : List FlagSpec) (inter : Bool) (o : Occ) (rest : List Tok)
    (h : renderable fs o = true) :
    parseArgs fs inter (renderOcc o :: rest) = (parseArgs fs inter rest).addOccs [o] :=
  parseArgs_renderOcc fs inter o rest h

/-- `--` terminator law: whatever follows `--` is positional, word for word; no flag is set, no error arises. -/
theorem C06_argv_dashdash_terminates (fs : List FlagSpec) (inter : Bool) (rest : List Tok) :
    parseArgs fs inter (['-', '-'] :: rest) = { occs := [], pos := rest, err := none } :=
  parseArgs_dashdash fs inter rest

/-- A value is never reinterpreted as a flag: `--name value` for a flag that needs a value consumes exactly the next
    word as its value — also when that word is `--`, `--help`, `-x` or another flag of the table — and reading goes
    on after it. -/
theorem C06_argv_value_not_reinterpreted (fs : List FlagSpec) (inter : Bool) (n v : Tok) (f : FlagSpec)
    (rest : List Tok) (hl : lookupLong fs n = some f) (hv : f.noOpt = []) (hne : n ≠ [])
    (hh : ∀ c cs, n = c :: cs → c ≠ '-' ∧ c ≠ '=') (heq : n.contains '=' = false) :
    parseArgs fs inter (('-' :: '-' :: n) :: v :: rest) = (parseArgs fs inter rest).addOccs [(n, v)] := by
  rw [parseArgs]
  simp only [List.head?_cons]
  rw [classify_long_value fs n v f hl hv hne hh heq]

/-- … and therefore the swallowed word sets nothing: with `--name --other` the flag `other` is NOT set by that word. -/
theorem C06_argv_swallowed_flag_not_set (fs : List FlagSpec) (n m : Tok) (f : FlagSpec)
    (hl : lookupLong fs n = some f) (hv : f.noOpt = []) (hne : n ≠ [])
    (hh : ∀ c cs, n = c :: cs → c ≠ '-' ∧ c ≠ '=') (heq : n.contains '=' = false) :
    parseArgs fs true [('-' :: '-' :: n), ('-' :: '-' :: m)] = { occs := [(n, '-' :: '-' :: m)], pos := [], err := none } := by
  rw [C06_argv_value_not_reinterpreted fs true n _ f [] hl hv hne hh heq]
  simp [parseArgs, Parse.addOccs]

/-- Interspersed positionals (cobra leaves pflag's `interspersed` on): a word that is empty, is `-`, or does not
    begin with `-` is a positional wherever it stands, and reading goes on. -/
theorem C06_argv_interspersed (fs : List FlagSpec) (s : Tok) (rest : List Tok) (h : plainWord s = true) :
    parseArgs fs true (s :: rest) = (parseArgs fs true rest).addPos s :=
  parseArgs_plain fs s rest h

/-- A value flag as the last word is an error (`flag needs an argument`), not a default. -/
theorem C06_argv_value_flag_at_end (fs : List FlagSpec) (inter : Bool) (n : Tok) (f : FlagSpec)
    (hl : lookupLong fs n = some f) (hv : f.noOpt = []) (hne : n ≠ [])
    (hh : ∀ c cs, n = c :: cs → c ≠ '-' ∧ c ≠ '=') (heq : n.contains '=' = false) :
    parseArgs fs inter [('-' :: '-' :: n)] = { occs := [], pos := [], err := some .needsArg } := by
  cases n with
  | nil => exact absurd rfl hne
  | cons c cs =>
    have hc := hh c cs rfl
    have hs := splitEq_noEq (c :: cs) heq
    simp [parseArgs, classify, parseLong, hc.1, hc.2, hs, hl, hv]

/-- The error classes pflag's parsing can end in (what a flag's own `Set` refuses is `badValue`, added by
    `Res.withSet`).  There is no panic outcome: `parseArgs` is a total function, and pflag's `parseArgs` has no panic
    site on any argv (its panics are at flag DEFINITION: a redefined name or shorthand, a shorthand longer than one
    byte — and `FlagSet.Parse` under `PanicOnError`, which cobra does not use: `ContinueOnError`). -/
def pflagErrs : List (Option Err) :=
  [none, some .badSyntax, some .unknownFlag, some .unknownShorthand, some .needsArg, some .helpRequested]

theorem C06_argv_parseLong_class (fs : List FlagSpec) (name : Tok) (next : Option Tok) :
    ∀ os e, parseLong fs name next = .err os e → some e ∈ pflagErrs := by
  intro os e h
  unfold parseLong at h
  split at h
  · cases h; simp [pflagErrs]
  · split at h
    · cases h; simp [pflagErrs]
    · split at h
      · split at h <;> cases h <;> simp [pflagErrs]
      · split at h
        · cases h
        · split at h
          · cases h
          · split at h <;> cases h
            simp [pflagErrs]

theorem C06_argv_parseShorts_class (fs : List FlagSpec) (next : Option Tok) (cs : List Char) :
    ∀ os e, parseShorts fs next cs = .err os e → some e ∈ pflagErrs := by
  induction cs with
  | nil => intro os e h; simp [parseShorts] at h
  | cons c outs ih =>
    intro os e h
    unfold parseShorts at h
    split at h
    · cases h
    · split at h
      · split at h <;> cases h <;> simp [pflagErrs]
      · split at h
        · cases h
        · split at h
          · cases hr : parseShorts fs next outs with
            | pos => simp [hr, Step.cons] at h
            | dashdash => simp [hr, Step.cons] at h
            | flags a b => simp [hr, Step.cons] at h
            | err os' e' =>
              simp only [hr, Step.cons, Step.err.injEq] at h
              exact h.2 ▸ ih os' e' hr
          · split at h
            · cases h
            · split at h <;> cases h
              simp [pflagErrs]

theorem C06_argv_classify_class (fs : List FlagSpec) (s : Tok) (next : Option Tok) :
    ∀ os e, classify fs s next = .err os e → some e ∈ pflagErrs := by
  intro os e h
  unfold classify at h
  split at h
  · cases h
  · exact C06_argv_parseLong_class fs _ next os e h
  · exact C06_argv_parseShorts_class fs next _ os e h
  · cases h

/-- Totality with the classes listed: every argv, for every flag table, ends without an error or in one of five
    classes. -/
theorem C06_argv_total (fs : List FlagSpec) (inter : Bool) (argv : List Tok) :
    (parseArgs fs inter argv).err ∈ pflagErrs := by
  induction argv using parseArgs.induct fs inter with
  | case1 => simp [parseArgs, pflagErrs]
  | case2 s rest hc hi ih => rw [parseArgs, hc]; simpa [Parse.addPos, hi] using ih
  | case3 s rest hc hi => rw [parseArgs, hc]; simp [pflagErrs, hi]
  | case4 s rest hc => rw [parseArgs, hc]; simp [pflagErrs]
  | case5 s rest os e hc =>
    rw [parseArgs, hc]; exact C06_argv_classify_class fs s _ os e hc
  | case6 s rest os hc ih => rw [parseArgs, hc]; simpa [Parse.addOccs] using ih
  | case7 s os hc => rw [parseArgs, hc]; simp [pflagErrs]
  | case8 s os head rest' hc ih => rw [parseArgs, hc]; simpa [Parse.addOccs] using ih


/-! ## cobra: resolution of a canonical command line (Find mode) -/

theorem find_chain (T : Tree) (path R : List Tok) (hc : chain T [] path = true) (hR : ∀ fs, stripFlags fs R = []) :
    (find T (path ++ R)).path = path ∧ (find T (path ++ R)).rest = R ∧ (find T (path ++ R)).err = none := by
  have h := innerFind_chain T path [] R ((path ++ R).length + 1) [] hc hR (by simp; omega)
  simp only [List.nil_append] at h
  obtain ⟨h1, h2⟩ := h
  refine ⟨by simp only [find]; exact h1, by simp only [find]; exact h2, ?_⟩
  simp only [find, h1, h2, legacyErr, hR]
  simp

theorem withComplete_of_ne (T : Tree) (args : List Tok)
    (h : (find { T with cmds := T.cmds ++ [completeCmd] } args).path ≠ [completeName]) : T.withComplete args = T := by
  unfold Tree.withComplete
  exact if_neg (fun hh => h hh.2)

theorem full_traverse (T : Tree) : T.full.traverse = T.traverse := by
  unfold Tree.full; split <;> rfl

/-- The decidable conditions on (tree, command path) under which the canonical rendering resolves to the command:
    Find mode; every word of the path is a command word (not empty, no leading `-`) naming the next sub-command, in
    the tree as ExecuteC sees it (cobra's `help` / `completion` added) with and without the hidden `__complete`; the
    command is runnable, parses its flags, and is not `__complete` itself. -/
def canon (T0 : Tree) (path : List Tok) : Bool :=
  !T0.traverse && chain T0.full [] path &&
    chain { T0.full with cmds := T0.full.cmds ++ [completeCmd] } [] path && path != [completeName] &&
    (match T0.full.cmd path with
     | some c => !c.noParse && c.runnable
     | none => false)

/-- Canonical rendering round-trip through cobra (Find mode): for every command `path` meeting `canon`, EVERY
    occurrence list whose flag names are visible from the command (`renderable`; any value texts) without a true
    `--help`, and EVERY positional list the command's `Args` validator admits (any texts: they stand after `--`),
    `ExecuteC` on the rendering reaches the command's hooks and Run with exactly these occurrences, in order, and
    exactly these positionals. -/
theorem C01_argv_roundtrip (T0 : Tree) (path : List Tok) (occs : List Occ) (pos : List Tok)
    (hc : canon T0 path = true)
    (ho : ∀ o ∈ occs, renderable (T0.full.withHelp path) o = true)
    (hh : helpVal occs = false)
    (ha : argsErr (argsOf T0.full path) pos = none) :
    executeC T0 (render path occs pos) = .run path occs pos (hooksFor T0.full path) := by
  simp only [canon, Bool.and_eq_true, Bool.not_eq_true', bne_iff_ne, ne_eq] at hc
  obtain ⟨⟨⟨⟨htr, hc1⟩, hc2⟩, hne⟩, hcmd⟩ := hc
  have hR : ∀ fs, stripFlags fs (occs.map renderOcc ++ ['-', '-'] :: pos) = [] :=
    fun fs => stripFlags_tail fs occs pos
  have hf2 := find_chain _ path _ hc2 hR
  have hf1 := find_chain _ path _ hc1 hR
  have hwc : (T0.full).withComplete (render path occs pos) = T0.full := by
    apply withComplete_of_ne
    simp only [render]
    rw [hf2.1]; exact hne
  cases hcm : T0.full.cmd path with
  | none => simp [hcm] at hcmd
  | some c =>
    simp only [hcm, Bool.and_eq_true, Bool.not_eq_true'] at hcmd
    have hargs : argsOf T0.full path = c.args := by simp [argsOf, hcm]
    rw [hargs] at ha
    unfold executeC
    simp only [hwc, full_traverse, htr, Bool.false_eq_true, if_false]
    simp only [render] at hf1 ⊢
    simp only [hf1.1, hf1.2.1, hf1.2.2, execute, hcm, hcmd.1, Bool.false_eq_true, if_false,
      parseArgs_render _ true occs pos ho, List.nil_append, hh, hcmd.2, Bool.not_true, ha]

/-- Every command of the three tools that cobra resolves with Find meets `canon` (the two policy / validate levels,
    the key-management commands, `endorse`). -/
theorem C01_argv_canon_rp :
    ∀ p ∈ ["verify", "sev", "sev validate", "sev policy", "tdx", "tdx validate", "tdx policy", "extract", "inspect",
            "inspect mask", "inspect payload", "inspect signature"], canon rpTree (pathOf p) = true := by
  decide +kernel

theorem C12_argv_canon_np :
    ∀ p ∈ ["endorse", "bootstrap", "rotate", "wipeout"], canon npTree (pathOf p) = true := by
  decide +kernel


/-! ## observations on the concrete trees (each replayed on the real commands by stream `argv`, generator
    "observation") -/

def ws (l : List String) : List Tok := l.map String.toList

/-- `verify --root_cert --show e.binarypb`: the value flag swallows `--show` — the root file is the text "--show",
    `--show` is NOT set, so the endorsement IS verified (against a root file of that name: fail-closed). -/
theorem C01_argv_value_swallows_flag :
    runTool rpTree (ws ["verify", "--root_cert", "--show", "e.binarypb"]) =
      .run (ws ["verify"]) [("root_cert".toList, "--show".toList)] (ws ["e.binarypb"]) [ws ["verify"]] := by
  decide +kernel

/-- `verify --show --root_cert`: a value flag at the end is an error, not "no roots". -/
theorem C01_argv_root_cert_at_end_refused :
    runTool rpTree (ws ["verify", "--show", "--root_cert"]) =
      .err (ws ["verify"]) [("show".toList, "true".toList)] .needsArg := by
  decide +kernel

/-- Find mode: a bare Bool flag in front of the command word eats the command word (`stripFlags` does not know the
    flag on the root): "unknown command", nothing runs. -/
theorem C01_argv_bool_before_command_refused :
    runTool rpTree (ws ["--show", "verify", "e.binarypb"]) = .err [] [] .unknownCommand := by
  decide +kernel

/-- The shipped RootCmd (TraverseChildren): `--` does NOT end command resolution — `sev -- x validate` runs
    `sev validate` WITHOUT positionals (the `x` is parsed away by `sev`), where MakeRoot's tree (Find) runs `sev` with
    the positionals `x validate`. -/
theorem C01_argv_shipped_dashdash_keeps_resolving :
    runTool rsTree (ws ["sev", "--", "x", "validate"]) =
      .run (ws ["sev", "validate"]) [] [] [[], ws ["sev"], ws ["sev", "validate"]] ∧
    runTool rpTree (ws ["sev", "--", "x", "validate"]) =
      .run (ws ["sev"]) [] (ws ["x", "validate"]) [ws ["sev"]] := by
  constructor <;> decide +kernel

/-- The shipped RootCmd: `--help=true` before the command word is an ERROR (pflag.ErrHelp from the root's own
    ParseFlags, whose flag set has no help flag yet), exit status 1; an unknown word is help, exit status 0 (Traverse has
    no `legacyArgs` check) where MakeRoot's tree reports "unknown command". -/
theorem C01_argv_shipped_help_and_unknown_word :
    runTool rsTree (ws ["--help=true", "sev", "validate"]) = .err [] [] .helpRequested ∧
    runTool rsTree (ws ["bogus"]) = .help [] [] (ws ["bogus"]) ∧
    runTool rpTree (ws ["bogus"]) = .err [] [] .unknownCommand := by
  refine ⟨?_, ?_, ?_⟩ <;> decide +kernel

/-- A Bool flag takes no value word: `wipeout --force_prod_wipeout false` FORCES, and "false" is the positional
    that selects what to wipe (`C12_cli_wipeout_parts`: a word other than `ca` / `keys` wipes nothing). -/
theorem C12_argv_bool_takes_no_value :
    runTool npTree (ws ["wipeout", "--force_prod_wipeout", "false"]) =
      .run (ws ["wipeout"]) [("force_prod_wipeout".toList, "true".toList)] (ws ["false"]) [ws ["wipeout"]] := by
  decide +kernel

/-- pflag skips a word `-test.…` silently. -/
theorem C06_argv_test_prefix_skipped :
    runTool npTree (ws ["endorse", "-test.v", "--uefi=f.fd"]) =
      .run (ws ["endorse"]) [("uefi".toList, "f.fd".toList)] [] [ws ["endorse"]] := by
  decide +kernel

/-! ## the relying-party tool over raw argv: `RpCli.run ∘ tokenise` -/

section Rp
open GceTcb.RpCli
variable {Cert Roots Time R Q : Type}

def strOcc (o : Occ) : String × String := (String.ofList o.1, String.ofList o.2)

/-- cobra's own commands (`help`, `completion …`, `__complete`): no code of the repository runs. -/
def builtin : List Tok → Bool
  | w :: _ => w == "help".toList || w == "completion".toList || w == completeName
  | [] => false

def rpCmdLine (c : List Tok) (os : List Occ) (pos : List Tok) : CmdLine :=
  { cmd := pathString c, flags := os.map strOcc, args := pos.map String.ofList }

/-- `gcetcbendorsement <argv>` (MakeRoot's tree): tokenising, then the command-line model on what tokenising yields.
    A usage outcome of the root command ignores its positionals (they stand after `--`; before it cobra refuses them). -/
def rpRun (W : World Cert Roots Time R Q) (E : Env Time) (argv : List String) : RpCli.Run R Q :=
  match runTool rpTree (argv.map String.toList) with
  | .err _ _ _ => ⟨[], .err "parse"⟩
  | .help c os pos =>
    if builtin c then ⟨[], Verify.accept⟩ else RpCli.run W E (rpCmdLine c os (if c = [] then [] else pos))
  | .run c os pos _ => if builtin c then ⟨[], Verify.accept⟩ else RpCli.run W E (rpCmdLine c os pos)

/-- C01 over raw argv.  If `gcetcbendorsement argv` exits 0 and cobra resolved argv to `verify`, `sev validate` or
    `tdx validate` (reaching its Run), then — with `cl` the command line tokenising yields — `--help` was given, or it
    is `verify --show`, or the endorsement is authentic for exactly the certificates of the root data `--root_cert`
    names, of which there is at least one, at the Backend's time. -/
theorem C01_argv_exit0_authentic (W : World Cert Roots Time R Q) (E : Env Time) (argv : List String)
    (c : List Tok) (os : List Occ) (pos : List Tok) (hooks : List (List Tok))
    (hr : runTool rpTree (argv.map String.toList) = .run c os pos hooks)
    (hv : c = pathOf "verify" ∨ c = pathOf "sev validate" ∨ c = pathOf "tdx validate")
    (h : (rpRun W E argv).result = Verify.accept) :
    helpFlag (rpCmdLine c os pos) = true ∨
    ((rpCmdLine c os pos).cmd = "verify" ∧ namedShow (rpCmdLine c os pos) = true) ∨
    ∃ k e data, callOf W.P W.L E (rpCmdLine c os pos) = .ok k ∧ callEndorsement W k = some e ∧
      rootData E (namedRoot (rpCmdLine c os pos)) = some data ∧ certsIn W.P data ≠ [] ∧
      Verify.Authentic W.P.vp e (W.P.poolOf (certsIn W.P data)) E.now := by
  have hb : builtin c = false := by rcases hv with rfl | rfl | rfl <;> decide
  have hcmd : (rpCmdLine c os pos).cmd = "verify" ∨ (rpCmdLine c os pos).cmd = "sev validate" ∨
      (rpCmdLine c os pos).cmd = "tdx validate" := by
    rcases hv with rfl | rfl | rfl
    · exact Or.inl (show pathString (pathOf "verify") = "verify" by decide)
    · exact Or.inr (Or.inl (show pathString (pathOf "sev validate") = "sev validate" by decide))
    · exact Or.inr (Or.inr (show pathString (pathOf "tdx validate") = "tdx validate" by decide))
  simp only [rpRun, hr, hb, Bool.false_eq_true, if_false] at h
  exact C01_cli_exit0_authentic W E _ hcmd h

/-- Whatever argv is: an exit status 0 of the tool is one of — cobra printed usage / ran one of its own commands;
    or the run of the command-line model on the tokenised command line accepted. -/
theorem C01_argv_exit0_cases (W : World Cert Roots Time R Q) (E : Env Time) (argv : List String)
    (h : (rpRun W E argv).result = Verify.accept) :
    (∃ c os pos, runTool rpTree (argv.map String.toList) = .help c os pos) ∨
    (∃ c os pos hooks, runTool rpTree (argv.map String.toList) = .run c os pos hooks ∧
      (builtin c = true ∨ (RpCli.run W E (rpCmdLine c os pos)).result = Verify.accept)) := by
  unfold rpRun at h
  cases hr : runTool rpTree (argv.map String.toList) with
  | err c os e => simp [hr, Verify.accept] at h
  | help c os pos => exact Or.inl ⟨c, os, pos, rfl⟩
  | run c os pos hooks =>
    refine Or.inr ⟨c, os, pos, hooks, rfl, ?_⟩
    simp only [hr] at h
    by_cases hb : builtin c = true
    · exact Or.inl hb
    · simp only [hb, Bool.false_eq_true, if_false] at h
      exact Or.inr h

/-- C17 over raw argv: after ANY `gcetcbendorsement argv` that cobra resolves to `sev policy` / `tdx policy`, every
    file other than the `--out` destination of the tokenised command line holds what it held — in particular the
    `--base` file. -/
theorem C17_argv_base_file_untouched (W : World Cert Roots Time R Q) (E : Env Time) (argv : List String)
    (render : Written R Q → Bytes) (c : List Tok) (os : List Occ) (pos : List Tok) (hooks : List (List Tok))
    (hr : runTool rpTree (argv.map String.toList) = .run c os pos hooks)
    (hv : c = pathOf "sev policy" ∨ c = pathOf "tdx policy") :
    (∀ x, x ≠ namedOut (rpCmdLine c os pos) →
        fsAfter render E.readFile (rpRun W E argv).effects x = E.readFile x) ∧
    (namedBase (rpCmdLine c os pos) ≠ namedOut (rpCmdLine c os pos) →
      fsAfter render E.readFile (rpRun W E argv).effects (namedBase (rpCmdLine c os pos)) =
        E.readFile (namedBase (rpCmdLine c os pos))) := by
  have hb : builtin c = false := by rcases hv with rfl | rfl <;> decide
  have hcmd : (rpCmdLine c os pos).cmd = "sev policy" ∨ (rpCmdLine c os pos).cmd = "tdx policy" := by
    rcases hv with rfl | rfl
    · exact Or.inl (show pathString (pathOf "sev policy") = "sev policy" by decide)
    · exact Or.inr (show pathString (pathOf "tdx policy") = "tdx policy" by decide)
  have := C17_cli_base_file_untouched W E (rpCmdLine c os pos) render hcmd
  simpa only [rpRun, hr, hb, Bool.false_eq_true, if_false] using this

/-- … and every argv that cobra refuses, answers with usage, or resolves to one of its own commands has no effect on
    any file. -/
theorem C17_argv_refused_no_effect (W : World Cert Roots Time R Q) (E : Env Time) (argv : List String)
    (h : ∀ c os pos hooks, runTool rpTree (argv.map String.toList) = .run c os pos hooks → builtin c = true)
    (hh : ∀ c os pos, runTool rpTree (argv.map String.toList) = .help c os pos → builtin c = true) :
    (rpRun W E argv).effects = [] := by
  unfold rpRun
  cases hr : runTool rpTree (argv.map String.toList) with
  | err c os e => rfl
  | help c os pos => simp [hh c os pos hr]
  | run c os pos hooks => simp [h c os pos hooks hr]

end Rp

/-! ## the key-management commands over raw argv -/

section Key
open GceTcb.KeyCli GceTcb.KeyHistory

def lastStr (n : String) (dflt : String) (os : List Occ) : String :=
  match lastOcc n.toList os with
  | some v => String.ofList v
  | none => dflt

/-- pflag Bool: the last occurrence (its text was checked by `runTool`), default false. -/
def lastBool (n : String) (os : List Occ) : Bool :=
  match lastOcc n.toList os with
  | some v => (parseBool v).getD false
  | none => false

/-- every occurrence in order (the flag types whose `Set` is repository code) -/
def everyOcc (n : String) (os : List Occ) : List String :=
  (os.filter (fun o => o.1 == n.toList)).map (fun o => String.ofList o.2)

/-- The record of Model/KeyCli.lean from what tokenising yields. -/
def keyFlagsOf (sub : Sub) (os : List Occ) (pos : List Tok) : CliFlags :=
  { sub := sub
    rootKeyCn := lastStr "root_key_cn" "GCE-cc-tcb-root" os
    signingKeyCn := lastStr "signing_key_cn" "GCE-uefi-signer" os
    rootKeySerial := everyOcc "root_key_serial" os
    initialSigningKeySerial := everyOcc "initial_signing_key_serial" os
    rotatedKeySerialOverride := everyOcc "rotated_key_serial_override" os
    timestamp := everyOcc "timestamp" os
    forceProdWipeout := lastBool "force_prod_wipeout" os
    overwrite := lastBool "overwrite" os
    keepGoing := lastBool "keep_going" os
    args := pos.map String.ofList
    keyDir := lastStr "key_dir" "private_keys" os
    bucketRoot := lastStr "bucket_root" "" os
    bucket := lastStr "bucket" "certs-dev" os
    certDir := lastStr "cert_dir" "signer_certs" os
    rootPath := lastStr "root_path" "" os }

def subOf (c : List Tok) : Option Sub :=
  if c = ws ["bootstrap"] then some .bootstrap else if c = ws ["rotate"] then some .rotate
  else if c = ws ["wipeout"] then some .wipeout else none

/-- `nonprod <argv>` as far as the key-management commands go: the context handed to rotate.Bootstrap / Key /
    Wipeout, or the refusal (`none`: argv is not one of the three commands reaching its Run). -/
def keyCmdOf (W : Wiring) (pt : String → Option (Int × Nat)) (E : KeyCli.Env) (s : State) (argv : List String) :
    Option (Outcome Handed) :=
  match runTool npTree (argv.map String.toList) with
  | .run c os pos _ => (subOf c).map (fun sub => cmdOf W pt E s (keyFlagsOf sub os pos))
  | _ => none

/-- C12 over raw argv: an argv that cobra resolves to `bootstrap` / `rotate` / `wipeout` is accepted exactly under the
    conditions of `C12_cli_accept_iff` on the record tokenising yields. -/
theorem C12_argv_accept_iff (W : Wiring) (pt : String → Option (Int × Nat)) (E : KeyCli.Env) (s : State)
    (argv : List String) (c : List Tok) (os : List Occ) (pos : List Tok) (hooks : List (List Tok)) (sub : Sub)
    (hr : runTool npTree (argv.map String.toList) = .run c os pos hooks) (hs : subOf c = some sub) :
    ∃ o, keyCmdOf W pt E s argv = some o ∧
      (o.isOk = true ↔
        ∃ p, parseFlags pt (keyFlagsOf sub os pos) = .ok p ∧
          (W.km = .localkm → E.statDir (keyFlagsOf sub os pos).keyDir = some true) ∧
          (W.ca = .gcsca → (keyFlagsOf sub os pos).bucket ≠ "" ∧ resolvedRootPath (keyFlagsOf sub os pos) ≠ "" ∧
            (keyFlagsOf sub os pos).certDir ≠ "") ∧
          ((keyFlagsOf sub os pos).sub ≠ .bootstrap → cliBlocked W.cfg s.ca = false) ∧
          ((keyFlagsOf sub os pos).sub = .rotate → (rotateSerial s.ca p.override).isSome = true)) := by
  refine ⟨cmdOf W pt E s (keyFlagsOf sub os pos), by simp [keyCmdOf, hr, hs], ?_⟩
  exact C12_cli_accept_iff W pt E s (keyFlagsOf sub os pos)

/-- Anything cobra refuses or answers with usage never reaches a key-management command. -/
theorem C12_argv_refused_reaches_nothing (W : Wiring) (pt : String → Option (Int × Nat)) (E : KeyCli.Env) (s : State)
    (argv : List String) (h : ∀ c os pos hooks, runTool npTree (argv.map String.toList) ≠ .run c os pos hooks) :
    keyCmdOf W pt E s argv = none := by
  unfold keyCmdOf
  cases hr : runTool npTree (argv.map String.toList) with
  | run c os pos hooks => exact absurd hr (h c os pos hooks)
  | help c os pos => rfl
  | err c os e => rfl

end Key


/-! ## regenerated facts (extract/xargv.go → Gen/ArgvFlags.lean) -/

/-- The library versions the model was transcribed from are the ones both go.mod files pin. -/
theorem C01_argv_versions :
    Gen.ArgvFlags.versions =
      [("go.mod", "github.com/spf13/cobra", "v1.8.0"), ("go.mod", "github.com/spf13/pflag", "v1.0.5"),
       ("gcetcbendorsement/go.mod", "github.com/spf13/cobra", "v1.8.0"),
       ("gcetcbendorsement/go.mod", "github.com/spf13/pflag", "v1.0.5")] := by decide

/-- How the repository uses cobra / pflag, as the model assumes: `TraverseChildren` is set in one place (the shipped
    RootCmd: `rsTree`), `EnableTraverseRunHooks` in one (MakeRoot), 70 flag-defining calls, and NONE of: a shorthand
    definition (`…VarP`), an `Args:` validator, aliases, `DisableFlagParsing`, `SetInterspersed`, a parse-error
    whitelist, a normalisation function, `NoOptDefVal`, required flags / flag groups, `Version:`, prefix or
    case-insensitive matching, completion options, replaced help / flag-error functions. -/
theorem C01_argv_settings :
    Gen.ArgvFlags.settings =
      [("TraverseChildren", 1), ("EnableTraverseRunHooks", 1), ("EnablePrefixMatching", 0),
       ("EnableCaseInsensitive", 0), ("DisableFlagParsing", 0), ("SetInterspersed", 0), ("FParseErrWhitelist", 0),
       ("NormalizeFunc", 0), ("NoOptDefVal", 0), ("RequiredFlag", 0), ("ArgsValidator", 0), ("Aliases", 0),
       ("Version", 0), ("ShorthandDefinition", 0), ("FlagDefinition", 70), ("CompletionOptions", 0),
       ("SetHelpCommand", 0)] := by decide

/-- The trees carry what the census says: no shorthand anywhere, a NoOptDefVal only "true", no flag named `help`,
    legacy `Args` everywhere, only `rsTree` traverses. -/
theorem C01_argv_trees_flags :
    ([rpTree, rsTree, npTree].all fun T => T.cmds.all fun c =>
      (c.lflags ++ c.pflags).all (fun f => f.short == none && (f.noOpt == [] || f.noOpt == "true".toList) &&
        f.name != helpName) && c.args == .legacy && !c.noParse && c.aliases == []) = true ∧
    [rpTree.traverse, rsTree.traverse, npTree.traverse] = [false, true, false] := by
  constructor <;> decide +kernel

/-! ## non-vacuity -/

example : renderable (npTree.full.withHelp (ws ["rotate"])) ("timestamp".toList, "--quiet".toList) = true := by
  decide +kernel

example : executeC npTree (render (ws ["rotate"]) [("timestamp".toList, "--quiet".toList), ("timestamp".toList, [])]
    (ws ["--help", "-x", ""])) =
    .run (ws ["rotate"]) [("timestamp".toList, "--quiet".toList), ("timestamp".toList, [])] (ws ["--help", "-x", ""])
      [ws ["rotate"]] := by
  decide +kernel

example : subOf (ws ["rotate"]) = some .rotate := by decide

end GceTcb.Props.CliArgv
