import GceTcb.Proofs.EventLogCost
import GceTcb.Model.EventLogSites
import GceTcb.Gen.PanicSitesEvl
import GceTcb.Gen.EvlConsts
import GceTcb.Gen.AbiSizes
/-
C07 (event-log half, checked under id C07E) — relying-party decoders are total on untrusted bytes:
TCG event-log and SP800-155 event parsing, and the locator decoding built on it.

Statements are over ALL byte strings.  `xRead…` is the checked, cost-instrumented model of the REPAIRED
readers (Model/EventLogCost.lean); `rt : Runtime` carries the two Go-runtime allocation functions
(`append` growth, `io.ReadAll`) with their laws `rt.Lawful` as an explicit hypothesis (measured by the
harness on the running toolchain).  The reader kind (bytes.Buffer / bytes.Reader / os.File) does not
occur: the repaired readers issue no zero-length Read (C18_Log_reader_independent).

The model is tied to the source by facts regenerated on every run (extract/xc07evl.go): `C07_evl_funcs`,
`C07_evl_sites`, `C07_evl_consts`, `C07_evl_factories`, `C07_evl_widths`, `C07_evl_libcalls`, `C07_evl_tpmAlgoSize`,
`C07_evl_guards`, `C07_evl_shape` at the end of this file.
-/
namespace GceTcb.C07Evl
open GceTcb GceTcb.Codec GceTcb.Codecs GceTcb.EventLog GceTcb.EvlCost

/-! ## no panic -/

theorem C07_evl_no_panic_log (rt : Runtime) (b : Bytes) (p : String) : (xReadLog rt b).res ≠ .panic p := by
  rw [xReadLog_sim rt .buffer b]; exact lift_ne_panic _ p

theorem C07_evl_no_panic_event2 (rt : Runtime) (b : Bytes) (p : String) : (xReadEvent2 rt b).res ≠ .panic p := by
  rw [xReadEvent2_sim rt .buffer b]; exact lift_ne_panic _ p

theorem C07_evl_no_panic_pcrevent (rt : Runtime) (b : Bytes) (p : String) : (xReadPcrEvent rt b).res ≠ .panic p := by
  rw [xReadPcrEvent_sim rt .buffer b]; exact lift_ne_panic _ p

/-- TCGEventData.Unmarshal, including a nested SP800-155 payload -/
theorem C07_evl_no_panic_eventdata (rt : Runtime) (b : Bytes) (p : String) : (xReadEventData rt b).res ≠ .panic p := by
  rw [xReadEventData_sim rt .buffer b]; exact lift_ne_panic _ p

/-- SP800155Event3.UnmarshalFromBytes -/
theorem C07_evl_no_panic_event3 (rt : Runtime) (data : Bytes) (p : String) : (xUnmarshalEvent3 rt data).res ≠ .panic p := by
  rw [xUnmarshalEvent3_sim rt data]; exact lift_ne_panic _ p

theorem C07_evl_no_panic_digests (rt : Runtime) (b : Bytes) (p : String) : (xReadDigestArray rt b).res ≠ .panic p := by
  rw [xReadDigestArray_sim rt b]; exact lift_ne_panic _ p

theorem C07_evl_no_panic_cstr (b : Bytes) (p : String) : (xReadCStr b).res ≠ .panic p := by
  rw [xReadCStr_sim .buffer b]; exact lift_ne_panic _ p

theorem C07_evl_no_panic_sized_array (w : Nat) (hw : w ≤ 4) (b : Bytes) (p : String) : (xReadSizedArray w b).res ≠ .panic p := by
  rw [xReadSizedArray_sim .buffer w hw b]; exact lift_ne_panic _ p

/-- readExact for every declared size that a 4-byte prefix can carry (and far beyond) -/
theorem C07_evl_no_panic_readExact (size : Nat) (hs : size < 2 ^ 63) (rest : Bytes) (p : String) :
    (xReadExact size rest).res ≠ .panic p := by
  rw [(xReadExact_spec .buffer false size rest hs).1]; exact lift_ne_panic _ p

theorem C07_evl_no_panic_variableLocatorDecode (loc : Bytes) (p : String) : xVariableLocatorDecode loc ≠ .panic p :=
  (xVariableLocatorDecode_spec loc).1 p

/-- ucs2toUTF8 panics (`utf8encoding[len-1]` on an empty decoding) exactly on the empty name … -/
theorem C07_evl_ucs2toUTF8_panic_iff (name : Bytes) : (∃ p, xUcs2toUTF8 name = .panic p) ↔ name = [] :=
  xUcs2toUTF8_panic_iff name

/-- … which Locate never hands it: a name variableLocatorDecode returns has at least 4 bytes. -/
theorem C07_evl_no_panic_ucs2toUTF8 (loc g name : Bytes) (h : xVariableLocatorDecode loc = .ok (g, name)) (p : String) :
    xUcs2toUTF8 name ≠ .panic p := by
  intro hp
  have := (xUcs2toUTF8_panic_iff name).mp ⟨p, hp⟩
  subst this
  have := ((xVariableLocatorDecode_spec loc).2 g [] h).2.1
  simp at this

/-- the pure part of exel.Locate on an untrusted (locator type, locator) -/
theorem C07_evl_no_panic_locate (t : Nat) (loc : Bytes) (p : String) : xLocateReq t loc ≠ .panic p :=
  xLocateReq_no_panic t loc p

/-- the parsing half of EfiVarFSReader.ReadVariable on the contents of a variable file -/
theorem C07_evl_no_panic_efivar (contents : Bytes) (p : String) : xEfiVarContents contents ≠ .panic p :=
  xEfiVarContents_no_panic contents p

/-- the event-log path of extract.Endorsement on the bytes of an event-log file: parse, RIM-event
    selection, locator decoding -/
theorem C07_evl_no_panic_fromEventLog (rt : Runtime) (mfr b : Bytes) (p : String) : xFromEventLog rt mfr b ≠ .panic p :=
  xFromEventLog_no_panic rt mfr b p

/-! ## values: the checked model is the C18 model of the repaired code (so C18's theorems apply to it) -/

theorem C07_evl_refines_C18 (rt : Runtime) (k : RKind) (b : Bytes) : (xReadLog rt b).res = lift (readLog ⟨true, k⟩ b) :=
  xReadLog_sim rt k b

/-- totality on what C18's canonicity theorems exclude: a declared size beyond the remaining input is an
    error (never a value, never a panic), whatever the size -/
theorem C07_evl_oversize_is_error (size : Nat) (hs : size < 2 ^ 63) (rest : Bytes) (h : rest.length < size) :
    (xReadExact size rest).res = (if rest.isEmpty then .eof else .fail) := by
  rw [(xReadExact_spec .buffer false size rest hs).1]
  have h0 : size ≠ 0 := by omega
  simp only [readBody, readFull, h0, if_false, if_true]
  have : ¬ size ≤ rest.length := by omega
  simp only [this, if_false]
  cases rest <;> rfl

/-! ## termination and cost -/

/-- every accepted event consumes at least 16 bytes: the event loop makes at most |b|/16 + 1 iterations -/
theorem C07_evl_event_consumes (rt : Runtime) (hrt : rt.Lawful) (b rest : Bytes) (e : Event2)
    (h : (xReadEvent2 rt b).res = .ok e rest) : rest.length + 16 ≤ b.length :=
  ((xReadEvent2_lin rt hrt b).ok e rest h).1

theorem C07_evl_events_read_bound (b : Bytes) : 16 * eventsRead (b.length + 1) b ≤ b.length :=
  eventsRead_le _ b

/-- allocation + ticks of CryptoAgileLog.Unmarshal, for every byte string -/
theorem C07_evl_cost_bound (rt : Runtime) (hrt : rt.Lawful) (b : Bytes) :
    (xReadLog rt b).alloc + (xReadLog rt b).ticks ≤ 43 * b.length + 8600 :=
  xReadLog_cost rt hrt b

theorem C07_evl_alloc_bound (rt : Runtime) (hrt : rt.Lawful) (b : Bytes) : (xReadLog rt b).alloc ≤ 43 * b.length + 8600 := by
  have := xReadLog_cost rt hrt b; unfold Step.total at this; omega

/-- termination as a ticks bound (Lean's checker accepts the model by structural recursion on fuel
    `|b| + 1`, which `EventLog.readEvents_fuel` shows is never exhausted) -/
theorem C07_evl_terminates (rt : Runtime) (hrt : rt.Lawful) (b : Bytes) : (xReadLog rt b).ticks ≤ 43 * b.length + 8600 := by
  have := xReadLog_cost rt hrt b; unfold Step.total at this; omega

/-- readExact: memory in proportion to the bytes delivered, not to the declared size -/
theorem C07_evl_alloc_bound_readExact (size : Nat) (hs : size < 2 ^ 63) (rest : Bytes) :
    (xReadExact size rest).alloc ≤ 4 * rest.length + 4096 ∧ (xReadExact size rest).alloc ≤ 3 * size := by
  obtain ⟨_, h2, h3, _⟩ := xReadExact_spec .buffer false size rest hs
  exact ⟨h3, h2⟩

theorem C07_evl_alloc_bound_digests (rt : Runtime) (hrt : rt.Lawful) (b : Bytes) :
    (xReadDigestArray rt b).alloc ≤ 14 * b.length + 90 := by
  have := (xReadDigestArray_lin rt hrt b).any; unfold Step.total at this; omega

theorem C07_evl_alloc_bound_eventdata (rt : Runtime) (hrt : rt.Lawful) (b : Bytes) :
    (xReadEventData rt b).alloc ≤ 34 * b.length + 8478 := by
  have := (xReadEventData_lin rt hrt b).any; unfold Step.total at this; omega

theorem C07_evl_alloc_bound_event3 (rt : Runtime) (hrt : rt.Lawful) (data : Bytes) :
    (xUnmarshalEvent3 rt data).alloc ≤ 9 * data.length + 8233 := by
  have := (xUnmarshalEvent3_cost rt hrt data).1; unfold Step.total at this; omega

/-- the runtime laws are satisfiable: the instance the driver evaluates -/
theorem C07_evl_runtime_upper_lawful : Runtime.upper.Lawful := ⟨fun _ => Nat.le_refl _, fun _ => Nat.le_refl _⟩

/-! ## non-vacuity: the inputs of D4 -/

/-- the 44-byte log whose digest count is 0x7fffffff (16 GiB before the repair): an error, 204 bytes -/
def d4Log : Bytes := [0, 0, 0, 0, 3, 0, 0, 0] ++ zeros 20 ++ [0, 0, 0, 0] ++ [1, 0, 0, 0, 2, 0, 0, 0, 0xff, 0xff, 0xff, 0x7f]

example : d4Log.length = 44 := by decide
example : (xReadLog Runtime.upper d4Log).res = .fail := by decide
example : (xReadLog Runtime.upper d4Log).alloc ≤ 256 := by decide

/-- a 32-byte header whose event size is 0x7fffffff (2 GiB before the repair): one 4096-byte buffer -/
example : (xReadPcrEvent Runtime.upper ([0, 0, 0, 0, 3, 0, 0, 0] ++ zeros 20 ++ [0xff, 0xff, 0xff, 0x7f])).alloc = 4108 := by decide
example : (xReadPcrEvent Runtime.upper ([0, 0, 0, 0, 3, 0, 0, 0] ++ zeros 20 ++ [0xff, 0xff, 0xff, 0x7f])).res = .eof := by decide

/-- a complete log is accepted, with its cost -/
example : (xReadLog Runtime.upper ([0, 0, 0, 0, 3, 0, 0, 0] ++ zeros 20 ++ [0, 0, 0, 0] ++
    [1, 0, 0, 0, 2, 0, 0, 0, 1, 0, 0, 0, 4, 0] ++ zeros 20 ++ [2, 0, 0, 0, 7, 8])).res =
    .ok ⟨⟨0, 3, zeros 20, .raw []⟩, [⟨1, 2, [⟨4, zeros 20⟩], .raw [7, 8]⟩]⟩ [] := by decide

example : xVariableLocatorDecode (zeros 16 ++ [0x56, 0, 0, 0]) = .ok (zeros 16, [0x56, 0, 0, 0]) := by decide
example : xVariableLocatorDecode (zeros 16 ++ [0x56, 0]) = .err "short" := by decide
example : xEfiVarContents [7, 0, 0, 0, 1, 2] = .ok [1, 2] := by decide

/-! ## regenerated facts: the model accounts for what the current source contains -/

/-- The functions the model covers are exactly those reachable, in the static call graph of the source, from
    the decoder entry points; the calls that leave for other packages of the repository are those the model
    replaces by C18's / C16's codecs. -/
theorem C07_evl_funcs :
    modelledFuncs.map (·.1) = Gen.PanicSitesEvl.funcs ∧ modelledExternalCalls = Gen.PanicSitesEvl.externalCalls := by
  decide +kernel

/-- The model accounts for exactly the panic-capable expressions the current source contains: a new
    index / slice / make / append-in-a-loop / Grow / type assertion / narrowing conversion / dereference /
    dynamic call / division in any function in scope changes the regenerated inventory and breaks this
    obligation before any input is found. -/
theorem C07_evl_sites : modelledSites.map Site.key = Gen.PanicSitesEvl.sites := by decide +kernel

/-- the checked operations of the model, by the names they carry (grep Model/EventLogCost.lean) -/
theorem C07_evl_sites_checked :
    checkedNames =
      ["eventlog.TCGEventData.Unmarshal#1:slice", "eventlog.TCGEventData.Unmarshal#4:slice",
       "eventlog.TaggedDigest.Unmarshal#1:make",
       "eventlog.ByteSizedCStr.Unmarshal#1:index", "eventlog.ByteSizedCStr.Unmarshal#2:slice",
       "eventlog.readExact#1:make", "eventlog.readExact#2:slice", "eventlog.readExact#5:make",
       "exel.ucs2toUTF8#2:index", "exel.EfiVarFSReader.ReadVariable#1:slice",
       "exel.variableLocatorDecode#1:slice", "exel.variableLocatorDecode#2:slice",
       "exel.variableLocatorDecode#3:index", "exel.variableLocatorDecode#4:index"] := by decide +kernel

/-- the one checked site that does fire — and only there: ucs2toUTF8 on the empty name -/
theorem C07_evl_ucs2toUTF8_panic_site (name : Bytes) (p : String) (h : xUcs2toUTF8 name = .panic p) :
    p ∈ checkedNames := by
  rw [xUcs2toUTF8_panic_site name p h]; decide +kernel

/-- The sizes the cost model charges are those of the current source: every `&T{…}` / `new(T)` / in-memory
    reader constructor in scope with its gc/amd64 size, `maxPrealloc`, and the signature size (the literal 16 of
    `xReadEventData`; `hexKeyAlloc` is the 2·16-byte buffer and the 2·16-byte string of hex.EncodeToString). -/
theorem C07_evl_consts :
    modelledAllocs = Gen.EvlConsts.allocs ∧
    maxPrealloc = Gen.EvlConsts.maxPrealloc ∧
    Gen.EvlConsts.eventSignatureSize = 16 ∧ hexKeyAlloc = 4 * Gen.EvlConsts.eventSignatureSize := by
  decide +kernel

/-- The event-factory registry is the one the model has: a single key, the Event3 signature, whose factory
    allocates an SP800155Event3 (of the size the model charges); no function of the package writes to the
    registry — its only use is the lookup in TCGEventData.Unmarshal. -/
theorem C07_evl_factories :
    modelledFactoryKeys = Gen.EvlConsts.eventFactoryKeyBytes ∧
    modelledFactoryTypes = Gen.EvlConsts.eventFactoryTypes ∧
    modelledFactoryUses = Gen.EvlConsts.eventFactoriesUses := by
  decide +kernel

/-- The width of every size prefix / count, the fixed fields of the two event structures — hence the 16 bytes
    every accepted TCGPCREvent2 occupies at least (C07_evl_event_consumes) — and the EFI_GUID scratch. -/
theorem C07_evl_widths :
    modelledPrefixWidths = Gen.EvlConsts.sizePrefixWidths ∧
    modelledFixedFields = Gen.EvlConsts.fixedFields ∧
    minEvent2Size Gen.EvlConsts.fixedFields Gen.EvlConsts.sizePrefixWidths = 16 ∧
    modelledLocalArrays = Gen.EvlConsts.localArrays := by
  decide +kernel

/-- Every call that leaves the three packages (standard library, x/text, securejoin, go-sev-guest's getter) is
    one the cost model knows — charged, on an error path, free, metered only, or a parameter — and so is every
    []byte <-> string conversion. -/
theorem C07_evl_libcalls :
    modelledLibCalls.map (fun c => (c.1, c.2.1, c.2.2.1)) = Gen.EvlConsts.libCalls ∧
    modelledStringConvs = Gen.EvlConsts.stringConvs := by
  decide +kernel

/-- the digest-size table of the model is the regenerated map, entry for entry and nothing else -/
theorem C07_evl_tpmAlgoSize (alg : Nat) : tpmAlgoSize alg = Gen.AbiSizes.tpmAlgoSize.lookup alg := by
  simp only [tpmAlgoSize, Gen.AbiSizes.tpmAlgoSize, List.lookup]
  by_cases h4 : alg = 4
  · subst h4; rfl
  · by_cases h11 : alg = 11
    · subst h11; rfl
    · by_cases h12 : alg = 12
      · subst h12; rfl
      · have e4 : (alg == 4) = false := by simpa using h4
        have e11 : (alg == 11) = false := by simpa using h11
        have e12 : (alg == 12) = false := by simpa using h12
        simp [h4, h11, h12, e4, e11, e12]

/-- the control skeleton of the functions in scope — every condition other than a bare `err != nil`, every
    loop, range operand, switch tag and case, in source order — is the one the model's branches were written from -/
theorem C07_evl_guards : modelledGuards = Gen.EvlConsts.guards := by decide +kernel

/-- the body of readExact, line by line: first buffer min(size, maxPrealloc), one io.ReadFull per iteration into
    buf[read:], io.EOF after at least one byte becomes io.ErrUnexpectedEOF, doubling capped at the declared size -/
theorem C07_evl_shape : readExactShape = Gen.EvlConsts.readExactShape := by decide +kernel

/-- non-vacuity: the checked operations are live — each returns its panic exactly when Go would -/
example : (xIndex [] 0 "eventlog.ByteSizedCStr.Unmarshal#1:index" []).res = .panic "eventlog.ByteSizedCStr.Unmarshal#1:index" := by decide
example : (xSlice [1, 2] 3 2 "eventlog.readExact#2:slice" []).res = .panic "eventlog.readExact#2:slice" := by decide
example : (xMake (2 ^ 63) "eventlog.readExact#1:make" []).res = .panic "eventlog.readExact#1:make" := by decide
example : xUcs2toUTF8 [] = .panic "exel.ucs2toUTF8#2:index" := by
  unfold xUcs2toUTF8 Extract.ucs2toUTF8 Extract.decodeUtf16; rfl
example : modelledSites.length = 53 ∧ checkedNames.length = 14 := by decide +kernel

end GceTcb.C07Evl
