import GceTcb.Proofs.Endorse
import GceTcb.Model.EndorseTables
/-
C06 — The signed document describes exactly the supplied image.

Model: `goldenMeasurement P T c` (endorse.GoldenMeasurement → sev.UnsignedSnp, tdx.UnsignedTDX) and
`signDoc` (endorse.SignDoc).  The measurement functions (`P.launchDigest`, `P.mrtd`), SHA-384 and UUID
parsing are parameters: every theorem holds for all of them, all tables `T` (with the stated
obligations on the regenerated ones), all images and all requests.
-/
namespace GceTcb.Endorse
open GceTcb GceTcb.Endorse.Spec

/-! ### obligations on the regenerated tables -/

/-- The default VMSA-count list is the documented list of GCE-supported vCPU counts. -/
theorem C06_table_vmsa :
    Gen.C06Tables.vmsaCounts = [1, 2, 4, 8, 16, 24, 32, 48, 64, 80, 96, 112, 128, 224, 240] := by decide

/-- … without repetition and without the "none requested" marker 0. -/
theorem C06_table_vmsa_wf : Gen.C06Tables.vmsaCounts.Nodup ∧ ∀ k ∈ Gen.C06Tables.vmsaCounts, 0 < k := by
  decide

/-- The machine-shape table is the documented C3 table; names are unique. -/
theorem C06_table_shapes :
    Gen.C06Tables.shapes =
      [("c3-standard-4", 16, 1, 176), ("c3-standard-8", 32, 1, 176), ("c3-standard-22", 88, 1, 176),
       ("c3-standard-44", 176, 1, 176), ("c3-standard-88", 352, 2, 176), ("c3-standard-176", 704, 4, 176)] ∧
    (Gen.C06Tables.shapes.map (·.1)).Nodup := by decide

/-- Default family id and production policy (SMT and migration agent allowed, debug not). -/
theorem C06_table_ids :
    Gen.C06Tables.gceFamilyId = "f73a6949-e8f3-473b-9553-e40e056fa3a2" ∧
    Gen.C06Tables.prodPolicy = 0x70000 ∧ Gen.C06Tables.prodPolicyDebug = false := by decide

/-! ### the document -/

/-- The digest field is the hash of the supplied image bytes. -/
theorem C06_digest (P : Prims) (T : Tables) (c : Ctx) (g : Golden)
    (h : goldenMeasurement P T c = .ok g) : g.digest = P.sha384 c.image := by
  obtain ⟨_, snp, tdx, _, _, rfl⟩ := goldenMeasurement_ok P T c g h
  rfl

/-- SNP keys are exactly the requested count, or exactly the supported-count table when none is
    requested, and each value is the launch digest of this image for that count and product. -/
theorem C06_snp_keys (P : Prims) (T : Tables) (c : Ctx) (g : Golden) (hT : T.vmsaCounts.Nodup)
    (h : goldenMeasurement P T c = .ok g) :
    (c.snp = none → g.snp = none) ∧
    ∀ r, c.snp = some r → ∃ s, g.snp = some s ∧
      s.measurements.map (·.1) = snpCounts T.vmsaCounts r.launchVmsas ∧
      ∀ p ∈ s.measurements, P.launchDigest c.image p.1 r.product = .ok p.2 := by
  obtain ⟨_, snp, tdx, hs, _, rfl⟩ := goldenMeasurement_ok P T c g h
  constructor
  · intro hn
    unfold snpPart at hs
    rw [hn] at hs
    simp only [Outcome.ok.injEq] at hs
    exact hs.symm
  · intro r hr
    obtain ⟨fam, iid, lds, _, _, hl, rfl⟩ := snpPart_some P T c r hr snp hs
    have hnd : (vmsaCounts T r).Nodup := by
      unfold vmsaCounts; split
      · exact hT
      · simp
    obtain ⟨k1, k2⟩ := generateLDs_ok P c.image r.product (vmsaCounts T r) [] lds hnd (by simp) hl
    refine ⟨_, rfl, ?_, ?_⟩
    · simpa [vmsaCounts, snpCounts] using k1
    · intro p hp
      rcases k2 p hp with h0 | ⟨_, hv⟩
      · cases h0
      · exact hv

/-- For the current tree's table the keys are the documented list. -/
theorem C06_snp_keys_gen (P : Prims) (c : Ctx) (g : Golden) (r : SnpRequest) (hr : c.snp = some r)
    (h0 : r.launchVmsas = 0) (h : goldenMeasurement P genTables c = .ok g) :
    ∃ s, g.snp = some s ∧
      s.measurements.map (·.1) = [1, 2, 4, 8, 16, 24, 32, 48, 64, 80, 96, 112, 128, 224, 240] := by
  obtain ⟨s, h1, h2, _⟩ := (C06_snp_keys P genTables c g C06_table_vmsa_wf.1 h).2 r hr
  refine ⟨s, h1, ?_⟩
  rw [h2, snpCounts, if_pos h0]
  exact C06_table_vmsa

/-- TDX rows: one (two with early accept) per requested shape, in request order, then the default
    row; each labelled with its shape's RAM size and mode; each value the MRTD of this image for that
    configuration — except that an early-accept row holds the zero placeholder if that (second)
    measurement returned an error, which the code drops. -/
theorem C06_tdx_rows (P : Prims) (T : Tables) (c : Ctx) (g : Golden)
    (h : goldenMeasurement P T c = .ok g) :
    (c.tdx = none → g.tdx = none) ∧
    ∀ t, c.tdx = some t → ∃ d, g.tdx = some d ∧ d.svn = t.svn ∧
      Paired (WrittenRow P T c.image) (tdxConfigs t.machineShapes t.includeEarlyAccept) d.rows := by
  obtain ⟨_, snp, tdx, _, ht, rfl⟩ := goldenMeasurement_ok P T c g h
  constructor
  · intro hn
    unfold tdxPart at ht
    rw [hn] at ht
    simp only [Outcome.ok.injEq] at ht
    exact ht.symm
  · intro t htt
    obtain ⟨rows, hm, rfl⟩ := tdxPart_some P T c t htt tdx ht
    obtain ⟨tail, hrows, hp⟩ := generateMRTDs_ok P T c.image t.includeEarlyAccept t.machineShapes [] rows hm
    refine ⟨_, rfl, rfl, ?_⟩
    simpa [hrows] using hp

/-- All or nothing: a document is produced exactly when a technology is requested, both ids parse,
    every requested launch digest is computed, every requested shape is known and measured, and the
    default MRTD is computed.  Any failing constituent means an error and no document at all. -/
theorem C06_all_or_nothing (P : Prims) (T : Tables) (c : Ctx) :
    (goldenMeasurement P T c).isOk = true ↔
      (c.snp.isSome = true ∨ c.tdx.isSome = true) ∧
      (∀ r, c.snp = some r →
        (P.parseUuid (canonFamily T r)).isSome = true ∧
        (P.parseUuid (canonImage c.rndImageId r)).isSome = true ∧
        ∀ k ∈ vmsaCounts T r, (P.launchDigest c.image k r.product).isOk = true) ∧
      (∀ t, c.tdx = some t →
        (∀ s ∈ t.machineShapes, (shapeSize T s).isSome = true ∧ (P.mrtd c.image s .tdhobBug).isOk = true ∧
            (t.includeEarlyAccept = true → (P.mrtd c.image s .earlyAccept).isPanic = false)) ∧
        (P.mrtd c.image "" .default).isOk = true) := by
  rw [← snpPart_isOk, ← tdxPart_isOk]
  unfold goldenMeasurement
  by_cases hn : (c.tdx.isNone && c.snp.isNone) = true
  · simp only [hn, if_true]
    simp only [Bool.and_eq_true, Option.isNone_iff_eq_none] at hn
    simp [Outcome.isOk, hn.1, hn.2]
  · simp only [hn]
    have hsome : c.snp.isSome = true ∨ c.tdx.isSome = true := by
      cases hs : c.snp <;> cases ht : c.tdx <;> simp_all
    cases hs : snpPart P T c with
    | err e => simp [Outcome.isOk]
    | panic s => simp [Outcome.isOk]
    | ok snp =>
      cases ht : tdxPart P T c with
      | err e => simp [Outcome.isOk]
      | panic s => simp [Outcome.isOk]
      | ok tdx => simp [Outcome.isOk, hsome]

/-- If the two TDX modes fail together (`hagree`: whenever the first measurement of a shape
    succeeds, so does its early-accept measurement — true of tdx.MRTD, whose two modes differ only in
    an attribute bit; checked on every generated image by the harness), no row is a placeholder:
    every row's value is the measurement of its configuration. -/
theorem C06_no_placeholder (P : Prims) (T : Tables) (c : Ctx) (g : Golden) (t : TdxRequest) (d : TdxDoc)
    (h : goldenMeasurement P T c = .ok g) (ht : c.tdx = some t) (hd : g.tdx = some d)
    (hagree : ∀ s, (P.mrtd c.image s .tdhobBug).isOk = true → (P.mrtd c.image s .earlyAccept).isOk = true) :
    Paired (MeasuredRow P T c.image) (tdxConfigs t.machineShapes t.includeEarlyAccept) d.rows := by
  obtain ⟨d', hd', _, hp⟩ := (C06_tdx_rows P T c g h).2 t ht
  rw [hd] at hd'; cases hd'
  have hok := (C06_all_or_nothing P T c).mp (by rw [h]; rfl)
  apply paired_imp_mem hp
  intro cfg row hmem hw
  refine ⟨hw.1, ?_⟩
  rcases hw.2 with hm | ⟨hmode, ⟨e, he⟩, _⟩
  · exact hm
  · exfalso
    have hcfg : cfg = (cfg.1, TdxMode.earlyAccept) := by rw [← hmode]
    rw [hcfg, mem_tdxConfigs_early] at hmem
    have := hagree cfg.1 ((hok.2.2 t ht).1 cfg.1 hmem.2).2.1
    rw [he] at this
    cases this

/-- Exactly when the dropped error matters: the document is free of placeholder rows if and only
    if no requested shape's early-accept measurement fails. -/
theorem C06_placeholder_iff (P : Prims) (T : Tables) (c : Ctx) (g : Golden) (t : TdxRequest) (d : TdxDoc)
    (h : goldenMeasurement P T c = .ok g) (ht : c.tdx = some t) (hd : g.tdx = some d) :
    Paired (MeasuredRow P T c.image) (tdxConfigs t.machineShapes t.includeEarlyAccept) d.rows ↔
      (t.includeEarlyAccept = true → ∀ s ∈ t.machineShapes, (P.mrtd c.image s .earlyAccept).isOk = true) := by
  obtain ⟨d', hd', _, hp⟩ := (C06_tdx_rows P T c g h).2 t ht
  rw [hd] at hd'; cases hd'
  constructor
  · intro hm he s hs
    have hmem : (s, TdxMode.earlyAccept) ∈ tdxConfigs t.machineShapes t.includeEarlyAccept :=
      (mem_tdxConfigs_early s _ _).mpr ⟨he, hs⟩
    obtain ⟨row, _, hr⟩ := paired_exists hm _ hmem
    have := hr.2
    simp only at this
    rw [this]; rfl
  · intro hall
    apply paired_imp_mem hp
    intro cfg row hmem hw
    refine ⟨hw.1, ?_⟩
    rcases hw.2 with hm | ⟨hmode, ⟨e, he⟩, _⟩
    · exact hm
    · exfalso
      have hcfg : cfg = (cfg.1, TdxMode.earlyAccept) := by rw [← hmode]
      rw [hcfg, mem_tdxConfigs_early] at hmem
      have := hall hmem.1 cfg.1 hmem.2
      rw [he] at this
      cases this

/-- SVN, ids, policy, SVSM measurement and provenance are copied from the request. -/
theorem C06_fields (P : Prims) (T : Tables) (c : Ctx) (g : Golden)
    (h : goldenMeasurement P T c = .ok g) :
    g.clSpec = c.clSpec ∧ g.commit = c.commit ∧
    (∀ r s, c.snp = some r → g.snp = some s →
      s.svn = r.svn ∧ P.parseUuid (canonFamily T r) = some s.familyId ∧
      P.parseUuid (canonImage c.rndImageId r) = some s.imageId ∧
      s.policy = T.policy ∧ s.svsm = c.svsmMeasurement) ∧
    (∀ t d, c.tdx = some t → g.tdx = some d → d.svn = t.svn) := by
  obtain ⟨_, snp, tdx, hs, ht, rfl⟩ := goldenMeasurement_ok P T c g h
  refine ⟨rfl, rfl, ?_, ?_⟩
  · intro r s hr hg
    obtain ⟨fam, iid, lds, h1, h2, _, rfl⟩ := snpPart_some P T c r hr snp hs
    simp only [Option.some.injEq] at hg
    subst hg
    exact ⟨rfl, h1, h2, rfl, rfl⟩
  · intro t d htt hg
    obtain ⟨rows, _, rfl⟩ := tdxPart_some P T c t htt tdx ht
    simp only [Option.some.injEq] at hg
    subst hg
    rfl

/-- Signing fills in the certificate and bundle of the CA's primary signing key and the timestamp,
    changes nothing else, and signs exactly the document it returns. -/
theorem C06_sign_fields (keys : Option Keys) (ts : Int × Nat) (doc d : Golden) (sig : Bytes)
    (h : signDoc keys ts doc = .ok (d, sig)) :
    ∃ k ca signer key, keys = some k ∧ k.ca = some ca ∧ k.signer = some signer ∧
      ca.primary = .ok key ∧ ca.certificate key = .ok d.cert ∧ ca.bundle key = .ok d.caBundle ∧
      d.timestamp = some ts ∧ signer key d = .ok sig ∧
      d.digest = doc.digest ∧ d.clSpec = doc.clSpec ∧ d.commit = doc.commit ∧
      d.snp = doc.snp ∧ d.tdx = doc.tdx := by
  unfold signDoc signDocEff at h
  cases keys with
  | none => cases h
  | some k =>
    simp only at h
    cases hca : k.ca with
    | none => rw [hca] at h; cases h
    | some ca =>
      rw [hca] at h; simp only at h
      cases hsg : k.signer with
      | none => rw [hsg] at h; cases h
      | some signer =>
        rw [hsg] at h; simp only at h
        cases hp : ca.primary with
        | err e => rw [hp] at h; cases h
        | panic s => rw [hp] at h; cases h
        | ok key =>
          rw [hp] at h; simp only at h
          cases hc : ca.certificate key with
          | err e => rw [hc] at h; cases h
          | panic s => rw [hc] at h; cases h
          | ok cert =>
            rw [hc] at h; simp only at h
            cases hb : ca.bundle key with
            | err e => rw [hb] at h; cases h
            | panic s => rw [hb] at h; cases h
            | ok bundle =>
              rw [hb] at h; simp only at h
              cases hs : signer key { doc with cert := cert, caBundle := bundle, timestamp := some ts } with
              | err e => rw [hs] at h; cases h
              | panic s => rw [hs] at h; cases h
              | ok sg =>
                rw [hs] at h
                simp only [Outcome.ok.injEq, Prod.mk.injEq] at h
                obtain ⟨rfl, rfl⟩ := h
                exact ⟨k, ca, signer, key, rfl, hca, hsg, hp, hc, hb, rfl, hs, rfl, rfl, rfl, rfl, rfl⟩

/-! ### non-vacuity -/

/-- a request with default counts and one good shape: full document, no placeholder -/
example :
    goldenMeasurement exPrims exTables (exCtx 0 ["c3-standard-4"]) =
      .ok ⟨[0xAA, 9], 77, [1, 2],
        some ⟨5, [36], [36], 7, [(1, [1, 1, 9]), (2, [2, 1, 9]), (4, [4, 1, 9])], [3]⟩,
        some ⟨6, [⟨16, false, [13, 1, 9]⟩, ⟨16, true, [13, 2, 9]⟩, ⟨0, false, [0, 3, 9]⟩]⟩, [], [], none⟩ := by
  decide

/-- the dropped error is expressible: a shape whose early-accept measurement fails yields the
    all-zero placeholder row (so `C06_placeholder_iff` is not vacuous in either direction) … -/
example :
    (match goldenMeasurement exPrims exTables (exCtx 1 ["c3-standard-8"]) with
     | .ok g => g.tdx.map (fun d => d.rows.map (·.mrtd))
     | _ => none) = some [[13, 1, 9], zeros48, [0, 3, 9]] := by
  decide

/-- … an unknown shape, an unsupported explicit count and a bad id are errors with no document. -/
example :
    goldenMeasurement exPrims exTables (exCtx 1 ["c3-standard-4", "n2d-standard-2"]) = .err "unknown-shape" ∧
    goldenMeasurement exPrims exTables (exCtx 101 []) = .err "ld" ∧
    goldenMeasurement exPrims exTables { exCtx 1 [] with snp := some ⟨5, "nope", "", 1, 1⟩ } = .err "family_id" := by
  decide

end GceTcb.Endorse
