import GceTcb.Model.SevCfg
import GceTcb.Proofs.SnpBounds
import GceTcb.Proofs.SnpExample
import GceTcb.Gen.AbiSizes
/-
C04 — SEV-SNP golden measurement equals the AMD launch-digest definition.

Model: Model/GuidTable.lean, Model/SevMeta.lean, Model/SevLd.lean (sev.LaunchDigest and everything it
calls, function by function, over the regenerated tables `genCfg`).  Specification:
Spec/SnpLaunch.lean (`snpSpec`, written from the AMD SEV-SNP ABI and the APM).  `H` (SHA-384) is a
parameter: every theorem holds for every `H` whose output has the 48 bytes of Go's `[48]byte`.
-/
namespace GceTcb.Props.C04
open GceTcb GceTcb.Codec GceTcb.GuidTable GceTcb.SevMeta GceTcb.SevLd
open GceTcb.Codecs (ResetBlock zeros)
open GceTcb.Proofs.SnpSections (Sec SectionsValid Disjoint count)
open GceTcb.Proofs.SnpChain (WidthOK KindKnown toSpec)
open GceTcb.Proofs.SnpDigest (CfgIsSpec Accepts)
open GceTcb.Proofs

/-! ## regenerated facts = specification tables -/

/-- the statements of sev.PutVmsa (regenerated from the source) are the expected statement table -/
theorem C04_gen_vmsa_layout :
    Gen.SevLayout.VmsaLayout = Spec.SnpLaunch.vmsaLayout ∧ Gen.SevLayout.SizeofVmsaCheck = Spec.SnpLaunch.sizeofVmsa ∧
    Gen.SevLayout.SizeofVmsa = Spec.SnpLaunch.sizeofVmsa := by decide

/-- the segment encoder's stores (C18's regenerated table) are the four stores `expand` uses for `seg` -/
theorem C04_gen_vmcbseg_layout :
    Gen.AbiSizes.VmcbSegPutLayout = [(0, 2, "le:Selector"), (2, 2, "le:Attrib"), (4, 4, "le:Limit"), (8, 8, "le:Base")] := by
  decide

/-- `sev.VmsaV1`, evaluated with the repository's proto type, is the GCE reset state of the specification -/
theorem C04_template :
    Gen.SevLayout.VmsaTemplate = Spec.SnpLaunch.gceResetState ∧ Gen.SevLayout.TemplateReserved = [] := by decide

/-- address widths, page-type and section-kind encodings, page size, ROM top, PAGE_INFO size, vCPU counts -/
theorem C04_gen_constants :
    Gen.SevLayout.BitWidths = Spec.SnpLaunch.productWidths ∧
    Gen.SevLayout.PageTypes = [Spec.SnpLaunch.pageTypeNormal, Spec.SnpLaunch.pageTypeVmsa, Spec.SnpLaunch.pageTypeZero,
      Spec.SnpLaunch.pageTypeUnmeasured, Spec.SnpLaunch.pageTypeSecrets, Spec.SnpLaunch.pageTypeCpuid] ∧
    Gen.SevLayout.PageTypes = [pageTypeNormal, pageTypeVmsa, pageTypeZero, pageTypeUnmeasured, pageTypeSecret, pageTypeCpuid] ∧
    Gen.SevLayout.SectionKinds = [kindUnmeasured, kindSecret, kindCpuid, kindSvsmCaa] ∧
    Gen.SevLayout.KindSwitch = Gen.SevLayout.SectionKinds.map (fun k => (k, Spec.SnpLaunch.kindPageType k)) ∧
    (∀ k ∈ Gen.SevLayout.SectionKinds, sectionPageType k = some (Spec.SnpLaunch.kindPageType k)) ∧
    Gen.SevLayout.PageSize = 4096 ∧ Gen.SevLayout.RomTop = 2 ^ 32 ∧ Gen.SevLayout.SizeofPageInfo = 0x70 ∧
    Gen.SevLayout.VmsaCounts = Spec.SnpLaunch.gceVmsaCounts := by decide

theorem C04_cfg_is_spec : CfgIsSpec genCfg :=
  ⟨C04_gen_vmsa_layout.1, C04_gen_vmsa_layout.2.1, C04_template.1, C04_gen_constants.1⟩

/-- the supported products have the address widths of the specification: Milan 48, Genoa 52 -/
theorem C04_widths (product : Nat) (h : product = 1 ∨ product = 2) :
    WidthOK (genCfg.width product) ∧
    (Spec.SnpLaunch.productWidths.find? (fun p => p.1 == product)).map (·.2) = some (genCfg.width product) := by
  rcases h with rfl | rfl
  · exact ⟨⟨by decide, by decide⟩, by decide⟩
  · exact ⟨⟨by decide, by decide⟩, by decide⟩

/-! ## the digest -/

/-- the products sev.LaunchDigest measures for — those with an entry in `bitWidth` — are Milan (enum value 1)
    and Genoa (2), the products of the specification's width table -/
theorem C04_supported_products (product : Nat) :
    (genCfg.supported product = true ↔ product = 1 ∨ product = 2) ∧
    ((Spec.SnpLaunch.productWidths.find? (fun p => p.1 == product)).isSome = true ↔ product = 1 ∨ product = 2) := by
  have h := SnpDigest.supported_iff genCfg C04_cfg_is_spec product
  refine ⟨h, ?_⟩
  rw [← h, Cfg.supported, C04_cfg_is_spec.widths]

/-- **Main theorem — total over launch options.** For every hash `H`, every image (a Go slice: length below
    2^63), every vCPU count and EVERY product value: sev.LaunchDigest returns `d` exactly when the product is
    supported (Milan or Genoa), it accepts the image (`Accepts`: at least one vCPU, the GUIDed table / reset block /
    SNP metadata parse to `rb`, `secs`, the ROM is a whole number of pages and fits below 4 GiB, the metadata is
    well-formed, every kind is known and every range page-aligned) and `d` is the SNP_LAUNCH_UPDATE chain of the
    specification over the ROM pages, the declared sections in declared order and `vcpus` VMSA pages at the
    product's highest page. -/
theorem C04_digest_eq_spec (H : Bytes → Bytes) (hH : ∀ x, (H x).length = 48) (o : Opts)
    (fw : Bytes) (hfw : fw.length < 2 ^ 63) (d : Bytes) :
    launchDigest H genCfg o fw = .ok d ↔
      (o.product = 1 ∨ o.product = 2) ∧
      ∃ rb secs, Accepts o fw rb secs ∧
        d = Spec.SnpLaunch.snpSpec H fw (secs.map toSpec) rb.addr o.vcpus.toNat (genCfg.width o.product) :=
  SnpDigest.launchDigest_total H hH genCfg C04_cfg_is_spec o fw hfw d

/-- **A product without a known address width is refused** — UNKNOWN (0), Turin (3, which `--snp_product`
    accepts), any other number — for every image, every hash and every vCPU count ≥ 1, before the image is
    looked at (the product-check fix; `C04_old_unsupported_product_*` say what happened before). -/
theorem C04_rejects_unsupported_product (H : Bytes → Bytes) (o : Opts) (hp : o.product ≠ 1 ∧ o.product ≠ 2)
    (hv : 1 ≤ o.vcpus) (fw : Bytes) : launchDigest H genCfg o fw = .err "product" :=
  SnpExample.unsupported_rejected H o hp hv fw

/-- … so no product value outside {Milan, Genoa} ever yields a digest (no hypothesis on vCPUs, image or hash) -/
theorem C04_no_digest_for_unsupported_product (H : Bytes → Bytes) (o : Opts) (hp : o.product ≠ 1 ∧ o.product ≠ 2)
    (fw : Bytes) (d : Bytes) : launchDigest H genCfg o fw ≠ .ok d := by
  intro h
  by_cases hv : 1 ≤ o.vcpus
  · rw [C04_rejects_unsupported_product H o hp hv fw] at h; cases h
  · unfold launchDigest at h; rw [if_pos (by omega)] at h; cases h

/-- for Milan and Genoa the product check changes nothing: LaunchDigest is the measurement it always was -/
theorem C04_supported_product_unchanged (H : Bytes → Bytes) (o : Opts) (hp : o.product = 1 ∨ o.product = 2) (fw : Bytes) :
    launchDigest H genCfg o fw = launchDigestOld H genCfg o fw :=
  SnpDigest.launchDigest_supported H genCfg o fw ((C04_supported_products o.product).1.mpr hp)

/-- the ways the property names in which SNP metadata is malformed -/
inductive Malformed (secs : List Sec) : Prop
  | misaligned (s : Sec) (h : s ∈ secs) (hm : s.address % 4096 ≠ 0 ∨ s.length % 4096 ≠ 0)
  | empty (s : Sec) (h : s ∈ secs) (hm : s.length = 0)
  | overlap (h : ¬ secs.Pairwise Disjoint)
  | duplicateCpuid (h : 2 ≤ count kindCpuid secs)
  | duplicateSecrets (h : 2 ≤ count kindSecret secs)
  | missingUnmeasured (h : count kindUnmeasured secs = 0)
  | missingSecrets (h : count kindSecret secs = 0)
  | missingCpuid (h : count kindCpuid secs = 0)
  | unknownKind (s : Sec) (h : s ∈ secs) (hm : ¬ KindKnown s)

/-- Malformed SNP metadata is rejected with an error (never a digest, never a panic), one clause per
    malformation named in the property — for every product value. -/
theorem C04_rejects_malformed (H : Bytes → Bytes) (hH : ∀ x, (H x).length = 48) (o : Opts)
    (fw : Bytes) (hfw : fw.length < 2 ^ 63) (rb : ResetBlock) (secs : List Sec)
    (hparse : extractFromFirmware true true fw = .ok (some rb, some secs)) (hm : Malformed secs) :
    ∃ e, launchDigest H genCfg o fw = .err e := by
  cases hl : launchDigest H genCfg o fw with
  | err e => exact ⟨e, rfl⟩
  | panic p => exact absurd hl (SnpBounds.launchDigest_no_panic H genCfg C04_cfg_is_spec o fw p)
  | ok d =>
    exfalso
    obtain ⟨_, rb', secs', ha, _⟩ := (C04_digest_eq_spec H hH o fw hfw d).mp hl
    have := ha.parsed; rw [hparse] at this
    injection this with this; injection this with _ h2; injection h2 with h2
    subst h2
    cases hm with
    | misaligned s h hm =>
      rcases hm with hm | hm
      · exact hm (ha.measurable s h).2
      · exact hm (ha.valid.lengths s h).1
    | empty s h hm => exact (ha.valid.lengths s h).2 hm
    | overlap h => exact h ha.valid.disjoint
    | duplicateCpuid h => have := ha.valid.oneCpuid; omega
    | duplicateSecrets h => have := ha.valid.oneSecret; omega
    | missingUnmeasured h => have := ha.valid.hasUnmeasured; omega
    | missingSecrets h => have := ha.valid.hasSecret; omega
    | missingCpuid h => have := ha.valid.hasCpuid; omega
    | unknownKind s h hm => exact hm (ha.measurable s h).1

/-- fewer than one vCPU is rejected before the image is looked at -/
theorem C04_rejects_vcpus (H : Bytes → Bytes) (o : Opts) (fw : Bytes) (h : o.vcpus < 1) :
    launchDigest H genCfg o fw = .err "vcpus" := by
  unfold launchDigest; rw [if_pos h]

/-! ## layouts -/

/-- PutVmsa as regenerated from the source writes, on a fresh 4 KiB page, the bytes the APM layout
    prescribes for the register state `v.f` — for every VMSA value that passes its range and
    must-be-zero checks. -/
theorem C04_vmsa_layout (v : Vmsa) (h : SnpVmsa.entriesOk v 4096 Gen.SevLayout.VmsaLayout) :
    putVmsa Gen.SevLayout.VmsaLayout Gen.SevLayout.SizeofVmsaCheck v (zeros 4096) = .ok (Spec.SnpLaunch.vmsaBytes v.f) := by
  rw [C04_gen_vmsa_layout.1, C04_gen_vmsa_layout.2.1] at *
  exact SnpVmsa.putVmsa_spec_layout v h

/-- **Strictness of PutVmsa** (the converse of `C04_vmsa_layout`): on a fresh 4 KiB page the regenerated PutVmsa
    returns a page exactly when every statement's check passes, and the page is then the APM-layout bytes. -/
theorem C04_vmsa_strict (v : Vmsa) (page : Bytes) :
    putVmsa Gen.SevLayout.VmsaLayout Gen.SevLayout.SizeofVmsaCheck v (zeros 4096) = .ok page ↔
      SnpVmsa.entriesOk v 4096 Gen.SevLayout.VmsaLayout ∧ page = Spec.SnpLaunch.vmsaBytes v.f := by
  rw [C04_gen_vmsa_layout.1, C04_gen_vmsa_layout.2.1]
  exact SnpVmsa.putVmsa_spec_iff v page

/-- Hence every accepted save area has: segment selectors and attributes below 2^16, CPL below 2^8, every 64-bit
    reserved field (incl. X87_STATE_GPA, which PutVmsa does not write) zero, and every reserved byte field — incl.
    VALID_BITMAP and the 1016-byte reserved_12 beyond the written area — absent or of exactly its ABI size and all
    zero.  Nothing is dropped silently (D23) and the ABI size of reserved_11 is 48 bytes, 0x3B8–0x3E7 (D11b). -/
theorem C04_vmsa_accepted_fields (v : Vmsa) (page : Bytes)
    (h : putVmsa Gen.SevLayout.VmsaLayout Gen.SevLayout.SizeofVmsaCheck v (zeros 4096) = .ok page) :
    (∀ e ∈ Gen.SevLayout.VmsaLayout, SnpVmsa.EntryStrict v e) ∧
    v.f "X87StateGpa" = 0 ∧ v.f "Reserved_8" = 0 ∧ v.f "Reserved_9" = 0 ∧
    ((v.r "ValidBitmap").length = 0 ∨ ((v.r "ValidBitmap").length = 16 ∧ allZero (v.r "ValidBitmap") = true)) ∧
    ((v.r "Reserved_11").length = 0 ∨ ((v.r "Reserved_11").length = 48 ∧ allZero (v.r "Reserved_11") = true)) ∧
    ((v.r "Reserved_12").length = 0 ∨ ((v.r "Reserved_12").length = 1016 ∧ allZero (v.r "Reserved_12") = true)) := by
  have hok := ((C04_vmsa_strict v page).mp h).1
  have hs : ∀ e ∈ Gen.SevLayout.VmsaLayout, SnpVmsa.EntryStrict v e := fun e he => SnpVmsa.entryCheck_strict v 4096 e (hok e he)
  refine ⟨hs, ?_, ?_, ?_, ?_, ?_, ?_⟩
  · exact (hs ("resv64", 0x400, 0x408, "X87StateGpa") (by decide)).2.2.1 rfl
  · exact (hs ("resv64", 0x300, 0x308, "Reserved_8") (by decide)).2.2.1 rfl
  · exact (hs ("resv64", 0x320, 0x328, "Reserved_9") (by decide)).2.2.1 rfl
  · exact (hs ("resv", 0x3F0, 0x400, "ValidBitmap") (by decide)).2.2.2 (Or.inl rfl)
  · exact (hs ("resv", 0x3B8, 0x3E8, "Reserved_11") (by decide)).2.2.2 (Or.inl rfl)
  · exact (hs ("mbz", 0x408, 0x800, "Reserved_12") (by decide)).2.2.2 (Or.inr rfl)

/-- a VMSA value that fails a check of PutVmsa is refused with an error: e.g. a 17-bit selector -/
theorem C04_vmsa_rejects_wide_selector (v : Vmsa) (h : v.f "Es.Selector" ≥ 2 ^ 16) :
    putVmsa Gen.SevLayout.VmsaLayout Gen.SevLayout.SizeofVmsaCheck v (zeros 4096) = .err "selector-range" := by
  rw [C04_gen_vmsa_layout.1, C04_gen_vmsa_layout.2.1]
  have hl : (zeros 4096).length = 4096 := List.length_replicate
  unfold putVmsa
  rw [if_neg (by rw [hl]; decide)]
  unfold Spec.SnpLaunch.vmsaLayout
  rw [putEntries]
  have : putEntry v (zeros 4096) ("seg", 0x00, 0x10, "Es") = .err "selector-range" := by
    unfold putEntry entryCheck
    rw [hl]
    simp only [if_true]
    rw [if_neg (by decide), if_neg (by decide), if_pos (by simpa using h)]
  rw [this]

/-- the PAGE_INFO bytes the code hashes are the ABI structure (IMI 0, VMPL permissions 0, LENGTH 0x70) -/
theorem C04_pageinfo_layout (d c : Bytes) (pt gpa : Nat) (hd : d.length = 48) (hc : c.length = 48) (hpt : pt < 256) :
    pageInfoBytes d c pt gpa = Spec.SnpLaunch.pageInfo d c pt gpa ∧
    (gpa < 2 ^ 64 → (pageInfoBytes d c pt gpa).length = Gen.SevLayout.SizeofPageInfo) := by
  refine ⟨SnpChain.pageInfoBytes_eq d c pt gpa hd hc hpt, fun _ => ?_⟩
  rw [SnpChain.pageInfoBytes_eq d c pt gpa hd hc hpt]
  simp [Spec.SnpLaunch.pageInfo, hd, hc]
  decide

/-! ## VMSAs -/

/-- the AP reset vector is split into RIP (low 16 bits) and CS.base (the rest): the unique split with
    `rip < 2^16`, `csBase` a multiple of 2^16 and `rip + csBase = addr` -/
theorem C04_ap_split (rb : ResetBlock) :
    (ripAndCsBase rb).1 = rb.addr % 2 ^ 16 ∧ (ripAndCsBase rb).2 = rb.addr - rb.addr % 2 ^ 16 ∧
    (ripAndCsBase rb).1 < 2 ^ 16 ∧ (ripAndCsBase rb).2 % 2 ^ 16 = 0 ∧ (ripAndCsBase rb).1 + (ripAndCsBase rb).2 = rb.addr := by
  refine ⟨rfl, rfl, ?_, ?_, ?_⟩ <;> simp only [ripAndCsBase] <;> omega

/-- one VMSA for the boot processor (the reset state) and `vcpus − 1` identical ones for the APs (reset
    state with CS.base/RIP from the reset block): `vcpus` pages in all, each measured as a VMSA page at
    the product's highest guest-physical page `2^width − 4096` -/
theorem C04_counts (vcpus : Int) (hv : 1 ≤ vcpus) (rb : ResetBlock) (product : Nat) (hp : product = 1 ∨ product = 2) :
    prepareVmsas genCfg.template vcpus (some rb)
      = .ok (SnpVmsa.bspVmsa :: List.replicate (vcpus.toNat - 1) (SnpVmsa.apVmsa rb)) ∧
    (SnpVmsa.bspVmsa :: List.replicate (vcpus.toNat - 1) (SnpVmsa.apVmsa rb)).length = vcpus.toNat ∧
    SnpVmsa.bspVmsa.f = Spec.SnpLaunch.bspState ∧ (SnpVmsa.apVmsa rb).f = Spec.SnpLaunch.apState rb.addr ∧
    productHigh (genCfg.width product) = 2 ^ genCfg.width product - 4096 ∧
    productHigh (genCfg.width product) = Spec.SnpLaunch.productHigh (genCfg.width product) := by
  have hw := (C04_widths product hp).1
  refine ⟨SnpDigest.prepareVmsas_eq _ C04_template.1 vcpus hv rb, ?_, rfl, rfl, SnpChain.productHigh_eq _ hw, ?_⟩
  · simp; omega
  · rw [SnpChain.productHigh_eq _ hw, SnpChain.specProductHigh_eq _ hw]

/-- sev.UnsignedSnp: one measurement per requested count, each the LaunchDigest for that count -/
theorem C04_unsigned_snp (H : Bytes → Bytes) (launchVmsas product : Nat) (fw : Bytes) (ds : List (Nat × Bytes))
    (h : unsignedSnp H genCfg Gen.SevLayout.VmsaCounts true true launchVmsas product fw = .ok ds) :
    ds.map (·.1) = vmsaCounts Spec.SnpLaunch.gceVmsaCounts launchVmsas ∧
    ∀ p ∈ ds, launchDigest H genCfg ⟨(p.1 : Nat), product⟩ fw = .ok p.2 := by
  unfold unsignedSnp at h
  simp only [Bool.not_true, Bool.false_eq_true, if_false] at h
  rw [C04_gen_constants.2.2.2.2.2.2.2.2.2] at h
  generalize vmsaCounts Spec.SnpLaunch.gceVmsaCounts launchVmsas = cs at h
  induction cs generalizing ds with
  | nil => simp only [generateLDs] at h; cases h; simp
  | cons n rest ih =>
    rw [generateLDs] at h
    cases hl : launchDigest H genCfg ⟨n, product⟩ fw with
    | err e => rw [hl] at h; cases h
    | panic q => rw [hl] at h; cases h
    | ok d =>
      rw [hl] at h
      simp only at h
      cases hr : generateLDs H genCfg product fw rest with
      | err e => rw [hr] at h; cases h
      | panic q => rw [hr] at h; cases h
      | ok ds' =>
        rw [hr] at h
        cases h
        obtain ⟨h1, h2⟩ := ih ds' hr
        refine ⟨by simp [h1], ?_⟩
        intro p hp
        rcases List.mem_cons.mp hp with rfl | hp
        · exact hl
        · exact h2 p hp


/-! ## a concrete image, evaluated by the kernel

`SevExample.exFw` (Model/SevExample.lean) is a 4 KiB image: SEV metadata at offset 0 declaring, in this
order, a secrets page 0x80D000, nine unmeasured pages from 0x800000, a CPUID page 0x80E000 and an SVSM
calling area 0x80C000; GUIDed table with the metadata-offset block and the SEV-ES reset block (AP reset
vector 0x0080B004) before the footer.  The harness builds the same bytes independently, compares them with
the driver's (`c04 op=example`) and runs the real sev.LaunchDigest on them. -/

open GceTcb.SevExample in
/-- The right-hand side of `C04_digest_eq_spec` is inhabited: the example image meets `Accepts` for every
    vCPU count ≥ 1 and any product — and its declared order is not the ascending one. -/
theorem C04_example_accepts (o : Opts) (hv : 1 ≤ o.vcpus) :
    Accepts o exFw exRb exSecs ∧ exFw.length = 4096 ∧ exRb.addr = 0x80B004 ∧
    ¬ exSecs.Pairwise (fun a b => a.address ≤ b.address) :=
  ⟨SnpExample.ex_accepts o hv, SnpExample.ex_length, rfl, by decide⟩

open GceTcb.SevExample in
/-- sev.LaunchDigest on the example image returns the specification's SNP_LAUNCH_UPDATE chain — for every
    hash with 48-byte output (nothing is hashed in this proof), every vCPU count ≥ 1, Milan and Genoa. -/
theorem C04_example_digest (H : Bytes → Bytes) (hH : ∀ x, (H x).length = 48) (o : Opts)
    (hp : o.product = 1 ∨ o.product = 2) (hv : 1 ≤ o.vcpus) :
    launchDigest H genCfg o exFw =
      .ok (Spec.SnpLaunch.snpSpec H exFw (exSecs.map toSpec) 0x80B004 o.vcpus.toNat (genCfg.width o.product)) :=
  SnpExample.ex_digest H hH C04_cfg_is_spec o hp hv

open GceTcb.SevExample in
/-- … and that chain runs over these pages (PAGE_TYPE, GPA, has contents), then `vcpus` VMSA pages: the ROM
    page below 4 GiB, then the metadata ranges in DECLARED order (not sorted by address). -/
theorem C04_example_pages :
    (Spec.SnpLaunch.romPages exFw ++ (exSecs.map toSpec).flatMap Spec.SnpLaunch.sectionPages).map
        (fun p => (p.pageType, p.gpa, p.data.isSome)) =
      [(1, 0xFFFFF000, true), (5, 0x80D000, false),
       (4, 0x800000, false), (4, 0x801000, false), (4, 0x802000, false), (4, 0x803000, false), (4, 0x804000, false),
       (4, 0x805000, false), (4, 0x806000, false), (4, 0x807000, false), (4, 0x808000, false),
       (6, 0x80E000, false), (3, 0x80C000, false)] ∧
    (∀ vcpus, (Spec.SnpLaunch.vmsaPages 0x80B004 vcpus (Spec.SnpLaunch.productHigh 48)).map (fun p => (p.pageType, p.gpa)) =
      (2, 0xFFFFFFFFF000) :: List.replicate (vcpus - 1) (2, 0xFFFFFFFFF000)) := by
  refine ⟨SnpExample.ex_spec_pages, fun vcpus => ?_⟩
  simp [Spec.SnpLaunch.vmsaPages, Spec.SnpLaunch.vmsaPage, List.map_replicate, Spec.SnpLaunch.productHigh,
    Spec.SnpLaunch.pageTypeVmsa]

open GceTcb.SevExample in
/-- Each edit of ONE descriptor of the example realises one malformation named in the property (the clause
    of `Malformed` in the same position), and the edited image still parses — so the hypotheses of
    `C04_rejects_malformed` are inhabited clause by clause. -/
theorem C04_example_malformed :
    Malformed vMisAddr ∧ Malformed vMisLen ∧ Malformed vEmpty ∧ Malformed vOverlap ∧ Malformed vDupCpuid ∧
    Malformed vDupSecret ∧ Malformed vNoUnmeasured ∧ Malformed vNoSecret ∧ Malformed vNoCpuid ∧ Malformed vUnknown ∧
    (variants.map (·.2)).all (fun v => v.length == 4 && (List.zip v exSecs).countP (fun p => p.1 != p.2) == 1) = true :=
  ⟨.misaligned ⟨0x810800, 0x1000, kindSecret⟩ (by decide) (Or.inl (by decide)),
   .misaligned ⟨0x800000, 0x8800, kindUnmeasured⟩ (by decide) (Or.inr (by decide)),
   .empty ⟨0x80C000, 0, kindSvsmCaa⟩ (by decide) rfl,
   .overlap (by decide), .duplicateCpuid (by decide), .duplicateSecrets (by decide),
   .missingUnmeasured (by decide), .missingSecrets (by decide), .missingCpuid (by decide),
   .unknownKind ⟨0x80C000, 0x1000, 5⟩ (by decide) (by unfold KindKnown; decide), by decide⟩

section rejected
open GceTcb.SevExample
variable (H : Bytes → Bytes) (hH : ∀ x, (H x).length = 48) (o : Opts) (hp : o.product = 1 ∨ o.product = 2) (hv : 1 ≤ o.vcpus)
include hH hp hv

/-- the secrets page moved to 0x810800: refused by the first iteration of the section loop -/
theorem C04_example_rejected_misaligned_address : launchDigest H genCfg o (fwOf vMisAddr) = .err "align-addr" :=
  SnpExample.rejected_misaligned_address H hH o hp hv
/-- the unmeasured range shortened to 8.5 pages -/
theorem C04_example_rejected_misaligned_length : launchDigest H genCfg o (fwOf vMisLen) = .err "section-length" :=
  SnpExample.rejected_misaligned_length H hH o hp hv
/-- the SVSM calling area with length 0 -/
theorem C04_example_rejected_empty : launchDigest H genCfg o (fwOf vEmpty) = .err "section-length" :=
  SnpExample.rejected_empty H hH o hp hv
/-- the SVSM calling area moved into the unmeasured range -/
theorem C04_example_rejected_overlap : launchDigest H genCfg o (fwOf vOverlap) = .err "overlap" :=
  SnpExample.rejected_overlap H hH o hp hv
theorem C04_example_rejected_duplicate_cpuid : launchDigest H genCfg o (fwOf vDupCpuid) = .err "dup-kind" :=
  SnpExample.rejected_duplicate_cpuid H hH o hp hv
theorem C04_example_rejected_duplicate_secrets : launchDigest H genCfg o (fwOf vDupSecret) = .err "dup-kind" :=
  SnpExample.rejected_duplicate_secrets H hH o hp hv
theorem C04_example_rejected_missing_unmeasured : launchDigest H genCfg o (fwOf vNoUnmeasured) = .err "no-unmeasured" :=
  SnpExample.rejected_missing_unmeasured H hH o hp hv
theorem C04_example_rejected_missing_secrets : launchDigest H genCfg o (fwOf vNoSecret) = .err "no-secret" :=
  SnpExample.rejected_missing_secrets H hH o hp hv
theorem C04_example_rejected_missing_cpuid : launchDigest H genCfg o (fwOf vNoCpuid) = .err "no-cpuid" :=
  SnpExample.rejected_missing_cpuid H hH o hp hv
/-- descriptor kind 5: the three ranges before it are measured, then the kind switch refuses it -/
theorem C04_example_rejected_unknown_kind : launchDigest H genCfg o (fwOf vUnknown) = .err "unknown-kind" :=
  SnpExample.rejected_unknown_kind H hH o hp hv

end rejected

/-! ## the library sort

`sort.Slice` is library code; the model uses `List.mergeSort`.  The only thing assumed about the library is its
documented contract (`SnpSections.SortsBy`): the slice is rearranged so that no later element is `less` than
an earlier one; it need not be stable. -/

/-- With ANY sorting function that meets the contract of `sort.Slice(checkData, start_i < start_j)` in place of
    the model's merge sort, validateSections returns the same outcome on every descriptor list: the verdict of
    the sort-based overlap check does not depend on the algorithm (pdqsort in Go 1.19+), on stability, or on the
    order it leaves descriptors with equal start addresses in. -/
theorem C04_sort_model_immaterial (sort : List Sec → List Sec) (h : SnpSections.SortsBy SnpSections.startLt sort)
    (secs : List Sec) : SnpSections.validateSectionsWith sort secs = validateSections secs :=
  SnpSections.validateSectionsWith_eq sort h secs

/-! ## product values outside {Milan, Genoa}: what sev.LaunchDigest did BEFORE the product check

`C04_digest_eq_spec` and `C04_rejects_unsupported_product` are about the code as repaired (the product-check fix).  The
theorems of this section are about the model variant `launchDigestOld` — the same measurement without the
product check, i.e. sev.LaunchDigest as it was — and record the defect: `bitWidth[product]` read 0 for a missing
key, `ProductHighAddress` was 0 and the range arithmetic wrapped.  Reachability: the CLI flag `--snp_product` is
parsed by go-sev-guest's `kds.ParseProductLine`, which accepts "Turin" (enum value 3) besides "Milan" and
"Genoa"; `sev.UnsignedSnp` and `endorse` pass the value on unchecked. -/

/-- The pre-repair sev.LaunchDigest for EVERY product value and every image up to 4 GiB: it returned `d` exactly
    when the image parses, the ROM range and every section range pass the code's alignment and range checks
    evaluated in uint64 at `high = ProductHighAddress(product)`, the metadata is valid with known kinds — and `d`
    is the digest chain with all VMSA pages at `high`. -/
theorem C04_old_any_product_behaviour (H : Bytes → Bytes) (hH : ∀ x, (H x).length = 48) (o : Opts) (fw : Bytes)
    (hfw : fw.length ≤ 2 ^ 32) (d : Bytes) :
    launchDigestOld H genCfg o fw = .ok d ↔
      ∃ rb secs, SnpAnyProduct.AcceptsAt (productHigh (genCfg.width o.product)) o fw rb secs ∧
        d = SnpAnyProduct.chainAt H fw (secs.map toSpec) rb.addr o.vcpus.toNat (productHigh (genCfg.width o.product)) :=
  SnpAnyProduct.launchDigestOld_any H hH genCfg C04_cfg_is_spec o fw hfw d

/-- a product that is not a key of `bitWidth` has width 0 and `ProductHighAddress` 0 (still true of the exported
    sev.ProductHighAddress, which LaunchDigest no longer reaches for such a product) -/
theorem C04_old_unsupported_product_width (product : Nat) (hp : product ≠ 1 ∧ product ≠ 2) :
    genCfg.width product = 0 ∧ productHigh (genCfg.width product) = 0 ∧ Spec.SnpLaunch.productHigh 0 = 0 := by
  rw [SnpExample.genWidth_zero product hp]
  exact ⟨rfl, by decide, by decide⟩

/-- **What happened for an unsupported product** (UNKNOWN = 0, Turin = 3, any other number), images up to 4 GiB:
    the product was not refused.  A digest was returned exactly for the images `Accepts` describes whose ROM has at
    least two pages and whose every metadata range has at least two pages or starts at address 0 (the range check
    `gpa > 0 + 0x1000 − len` wraps around 2^64 for `len > 0x1000`, and reads `gpa > 0` for one page); that digest
    is the chain with every VMSA page at guest-physical address 0 — `snpSpec` for "address width 0" — which is the
    launch digest of no AMD product.  All other images were refused (`C04_old_unsupported_product_witness`: a
    one-page range above address 0 gave "address range is larger than the product can represent"). -/
theorem C04_old_unsupported_product_behaviour (H : Bytes → Bytes) (hH : ∀ x, (H x).length = 48) (o : Opts)
    (hp : o.product ≠ 1 ∧ o.product ≠ 2) (fw : Bytes) (hfw : fw.length ≤ 2 ^ 32) (d : Bytes) :
    launchDigestOld H genCfg o fw = .ok d ↔
      ∃ rb secs, Accepts o fw rb secs ∧ 0x2000 ≤ fw.length ∧ (∀ s ∈ secs, 0x2000 ≤ s.length ∨ s.address = 0) ∧
        d = Spec.SnpLaunch.snpSpec H fw (secs.map toSpec) rb.addr o.vcpus.toNat 0 :=
  SnpAnyProduct.launchDigestOld_width_zero H hH genCfg C04_cfg_is_spec o (SnpExample.genWidth_zero _ hp) fw hfw d

open GceTcb.SevExample in
/-- Concrete witnesses, kernel-evaluated (Model/SevExample.lean): (1) `wideFw`, 8 KiB, secrets / CPUID / SVSM
    ranges of two pages: the pre-repair code measured it for every unsupported product, VMSA pages at GPA 0 — on
    Milan the same image has them at 0xFFFFFFFFF000 (old and repaired code alike); (2) the 4 KiB example image: was
    refused at the ROM; (3) `twoPageFw`, 8 KiB with the example's one-page secrets and CPUID ranges (what OVMF
    declares): was refused at the first section, both with the range error; (4) the repaired code refuses all
    three for the product itself. -/
theorem C04_old_unsupported_product_witness (H : Bytes → Bytes) (hH : ∀ x, (H x).length = 48) (o : Opts)
    (hp : o.product ≠ 1 ∧ o.product ≠ 2) (hv : 1 ≤ o.vcpus) :
    launchDigestOld H genCfg o wideFw = .ok (Spec.SnpLaunch.snpSpec H wideFw (wideSecs.map toSpec) 0x80B004 o.vcpus.toNat 0) ∧
    (Spec.SnpLaunch.vmsaPages 0x80B004 o.vcpus.toNat (Spec.SnpLaunch.productHigh 0)).map (·.gpa) =
      List.replicate (1 + (o.vcpus.toNat - 1)) 0 ∧
    launchDigest H genCfg ⟨o.vcpus, 1⟩ wideFw =
      .ok (Spec.SnpLaunch.snpSpec H wideFw (wideSecs.map toSpec) 0x80B004 o.vcpus.toNat 48) ∧
    (Spec.SnpLaunch.vmsaPages 0x80B004 o.vcpus.toNat (Spec.SnpLaunch.productHigh 48)).map (·.gpa) =
      List.replicate (1 + (o.vcpus.toNat - 1)) 0xFFFFFFFFF000 ∧
    launchDigestOld H genCfg o exFw = .err "range" ∧
    launchDigestOld H genCfg o twoPageFw = .err "range" ∧
    launchDigest H genCfg o wideFw = .err "product" ∧ launchDigest H genCfg o exFw = .err "product" ∧
    launchDigest H genCfg o twoPageFw = .err "product" := by
  refine ⟨SnpExample.wide_digest_unsupported H hH C04_cfg_is_spec o hp hv, ?_,
    SnpExample.wide_digest_supported H hH C04_cfg_is_spec ⟨o.vcpus, 1⟩ (Or.inl rfl) hv, ?_,
    SnpExample.ex_unsupported_rejected H o hp hv, SnpExample.twoPage_unsupported_rejected H hH o hp hv,
    C04_rejects_unsupported_product H o hp hv _, C04_rejects_unsupported_product H o hp hv _,
    C04_rejects_unsupported_product H o hp hv _⟩
  · simp [Spec.SnpLaunch.vmsaPages, Spec.SnpLaunch.vmsaPage, Spec.SnpLaunch.productHigh, List.replicate_succ,
      Nat.add_comm 1]
  · simp [Spec.SnpLaunch.vmsaPages, Spec.SnpLaunch.vmsaPage, Spec.SnpLaunch.productHigh, List.replicate_succ,
      Nat.add_comm 1]

/-- why that digest is the launch digest of no supported product, stated on the hash inputs: the VMSA pages of
    the chain for "width 0" sit at guest-physical address 0, those of Milan and Genoa at 2^width − 4096, so the
    page sequences differ for every reset vector and every vCPU count ≥ 1 -/
theorem C04_old_unsupported_product_gpa_differs (resetAddr vcpus : Nat) (hv : 1 ≤ vcpus) (product : Nat)
    (hp : product = 1 ∨ product = 2) :
    Spec.SnpLaunch.vmsaPages resetAddr vcpus (Spec.SnpLaunch.productHigh 0) ≠
      Spec.SnpLaunch.vmsaPages resetAddr vcpus (Spec.SnpLaunch.productHigh (genCfg.width product)) := by
  intro h
  have h0 : Spec.SnpLaunch.productHigh 0 = 0 := by decide
  have hw : Spec.SnpLaunch.productHigh (genCfg.width product) ≠ 0 := by
    rcases hp with rfl | rfl <;> decide
  have := congrArg (fun l => (l.map (·.gpa)).head?) h
  obtain ⟨n, rfl⟩ : ∃ n, vcpus = n + 1 := ⟨vcpus - 1, by omega⟩
  simp [Spec.SnpLaunch.vmsaPages, Spec.SnpLaunch.vmsaPage, h0] at this
  exact hw this.symm

/-- sev.UnsignedSnp inherits the refusal: with well-formed ids, any requested VMSA count and any image, an
    unsupported product yields the product error (every requested count is ≥ 1, so the first LaunchDigest
    reaches the product check) — no `Measurements` map is ever built for such a product -/
theorem C04_unsigned_snp_rejects_unsupported_product (H : Bytes → Bytes) (launchVmsas product : Nat)
    (hp : product ≠ 1 ∧ product ≠ 2) (fw : Bytes) :
    unsignedSnp H genCfg Gen.SevLayout.VmsaCounts true true launchVmsas product fw = .err "product" := by
  unfold unsignedSnp
  simp only [Bool.not_true, Bool.false_eq_true, if_false]
  have hfirst : ∃ n rest, vmsaCounts Gen.SevLayout.VmsaCounts launchVmsas = n :: rest ∧ 1 ≤ n := by
    unfold vmsaCounts
    by_cases h0 : launchVmsas = 0
    · rw [if_pos h0]; exact ⟨1, Gen.SevLayout.VmsaCounts.tail, by decide, by decide⟩
    · rw [if_neg h0]; exact ⟨launchVmsas, [], rfl, by omega⟩
  obtain ⟨n, rest, hc, hn⟩ := hfirst
  rw [hc, generateLDs, C04_rejects_unsupported_product H ⟨(n : Nat), product⟩ hp (by simp; omega) fw]

/-! ## non-vacuity -/

-- a hash with 48-byte output exists (SHA-384 in the driver; here the constant one)
example : ∀ x : Bytes, ((fun _ => zeros 48) x).length = 48 := fun _ => List.length_replicate
-- the reset state passes the checks of PutVmsa, so `C04_vmsa_layout` applies to it (and to every AP state)
example : SnpVmsa.entriesOk SnpVmsa.bspVmsa 4096 Gen.SevLayout.VmsaLayout := by
  rw [C04_gen_vmsa_layout.1]; exact SnpVmsa.bsp_ok
example : SnpVmsa.entriesOk (SnpVmsa.apVmsa ⟨0x80b004, 22, []⟩) 4096 Gen.SevLayout.VmsaLayout := by
  rw [C04_gen_vmsa_layout.1]; exact SnpVmsa.ap_ok _
-- well-formed metadata exists, and each malformation is realised by a concrete descriptor list
example : SectionsValid [⟨0x800000, 0x3000, 1⟩, ⟨0x803000, 0x1000, 2⟩, ⟨0x804000, 0x1000, 3⟩] :=
  ⟨by decide, by decide, by decide, by decide, by decide, by decide, by decide⟩
-- … which validateSections therefore accepts
example : validateSections [⟨0x800000, 0x3000, 1⟩, ⟨0x803000, 0x1000, 2⟩, ⟨0x804000, 0x1000, 3⟩] = .ok () :=
  (SnpSections.validateSections_ok_iff _).mpr ⟨by decide, by decide, by decide, by decide, by decide, by decide, by decide⟩
example : Malformed [⟨0xFFFFE000, 0x3000, 1⟩, ⟨0xFFFFF000, 0x1000, 2⟩, ⟨0x1000, 0x1000, 3⟩] :=
  .overlap (by decide)
-- `Accepts` is inhabited for 1 and 4 vCPUs; the digest theorem applies to them on Milan and on Genoa
example : Accepts ⟨1, 1⟩ SevExample.exFw SevExample.exRb SevExample.exSecs := (C04_example_accepts _ (by decide)).1
example : Accepts ⟨4, 2⟩ SevExample.exFw SevExample.exRb SevExample.exSecs := (C04_example_accepts _ (by decide)).1
example (H : Bytes → Bytes) (hH : ∀ x, (H x).length = 48) : ∃ d, launchDigest H genCfg ⟨1, 1⟩ SevExample.exFw = .ok d :=
  ⟨_, C04_example_digest H hH ⟨1, 1⟩ (Or.inl rfl) (by decide)⟩
example (H : Bytes → Bytes) (hH : ∀ x, (H x).length = 48) : ∃ d, launchDigest H genCfg ⟨4, 2⟩ SevExample.exFw = .ok d :=
  ⟨_, C04_example_digest H hH ⟨4, 2⟩ (Or.inr rfl) (by decide)⟩
-- unsupported product values exist in the enum: UNKNOWN = 0 and Turin = 3 (accepted by the `--snp_product` flag);
-- the pre-repair variant returned a digest for Turin on `wideFw`, the repaired code refuses it
example (H : Bytes → Bytes) (hH : ∀ x, (H x).length = 48) : ∃ d, launchDigestOld H genCfg ⟨4, 3⟩ SevExample.wideFw = .ok d :=
  ⟨_, (C04_old_unsupported_product_witness H hH ⟨4, 3⟩ (by decide) (by decide)).1⟩
example (H : Bytes → Bytes) : launchDigest H genCfg ⟨4, 3⟩ SevExample.wideFw = .err "product" :=
  C04_rejects_unsupported_product H ⟨4, 3⟩ (by decide) (by decide) _
example (H : Bytes → Bytes) : unsignedSnp H genCfg Gen.SevLayout.VmsaCounts true true 0 3 SevExample.wideFw = .err "product" :=
  C04_unsigned_snp_rejects_unsupported_product H 0 3 (by decide) _
-- both sides of the total main theorem are inhabited: a digest on Genoa (above), none on product 0 or 3
example (H : Bytes → Bytes) (d : Bytes) : launchDigest H genCfg ⟨1, 0⟩ SevExample.exFw ≠ .ok d :=
  C04_no_digest_for_unsupported_product H ⟨1, 0⟩ (by decide) _ d
-- the sort contract is satisfiable (the model's merge sort meets it), and ties really may come out either way
example : SnpSections.SortsBy SnpSections.startLt (fun l => l.mergeSort startLe) := SnpSections.mergeSort_sortsBy
example : overlapSorted [⟨0x1000, 0x1000, 1⟩, ⟨0x1000, 0x2000, 2⟩] = true ∧ overlapSorted [⟨0x1000, 0x2000, 2⟩, ⟨0x1000, 0x1000, 1⟩] = true :=
  SnpSections.tie_order_immaterial _ _ rfl (by decide) (by decide) []
example : (ripAndCsBase ⟨0x80b004, 22, []⟩) = (0xb004, 0x800000) := by decide

end GceTcb.Props.C04
