import GceTcb.Model.SevCfg
import GceTcb.Proofs.SnpBounds
import GceTcb.Gen.AbiSizes
/-
C04 — SEV-SNP golden measurement equals the AMD launch-digest definition.

Model: Model/GuidTable.lean, Model/SevMeta.lean, Model/SevLd.lean (sev.LaunchDigest and everything it
calls, function by function, over the regenerated tables `genCfg`).  Specification:
Spec/SnpLaunch.lean (`snpSpec`, written from the AMD SEV-SNP ABI and the APM).  `H` (SHA-384) is a
parameter: every theorem holds for every `H` whose output has the 48 bytes of Go's `[48]byte`.
-/
namespace GceTcb.Props.C04
open GceTcb GceTcb.Codec GceTcb.GuidTable GceTcb.SevMeta GceTcb.SevLd
open GceTcb.Codecs (ResetBlock zeros)
open GceTcb.Proofs.SnpSections (Sec SectionsValid Disjoint count)
open GceTcb.Proofs.SnpChain (WidthOK KindKnown toSpec)
open GceTcb.Proofs.SnpDigest (CfgIsSpec Accepts)
open GceTcb.Proofs

/-! ## regenerated facts = specification tables -/

/-- the statements of sev.PutVmsa (regenerated from the source) are the expected statement table -/
theorem C04_gen_vmsa_layout :
    Gen.SevLayout.VmsaLayout = Spec.SnpLaunch.vmsaLayout ∧ Gen.SevLayout.SizeofVmsaCheck = Spec.SnpLaunch.sizeofVmsa ∧
    Gen.SevLayout.SizeofVmsa = Spec.SnpLaunch.sizeofVmsa := by decide

/-- the segment encoder's stores (C18's regenerated table) are the four stores `expand` uses for `seg` -/
theorem C04_gen_vmcbseg_layout :
    Gen.AbiSizes.VmcbSegPutLayout = [(0, 2, "le:Selector"), (2, 2, "le:Attrib"), (4, 4, "le:Limit"), (8, 8, "le:Base")] := by
  decide

/-- `sev.VmsaV1`, evaluated with the repository's proto type, is the GCE reset state of the specification -/
theorem C04_template :
    Gen.SevLayout.VmsaTemplate = Spec.SnpLaunch.gceResetState ∧ Gen.SevLayout.TemplateReserved = [] := by decide

/-- address widths, page-type and section-kind encodings, page size, ROM top, PAGE_INFO size, vCPU counts -/
theorem C04_gen_constants :
    Gen.SevLayout.BitWidths = Spec.SnpLaunch.productWidths ∧
    Gen.SevLayout.PageTypes = [Spec.SnpLaunch.pageTypeNormal, Spec.SnpLaunch.pageTypeVmsa, Spec.SnpLaunch.pageTypeZero,
      Spec.SnpLaunch.pageTypeUnmeasured, Spec.SnpLaunch.pageTypeSecrets, Spec.SnpLaunch.pageTypeCpuid] ∧
    Gen.SevLayout.PageTypes = [pageTypeNormal, pageTypeVmsa, pageTypeZero, pageTypeUnmeasured, pageTypeSecret, pageTypeCpuid] ∧
    Gen.SevLayout.SectionKinds = [kindUnmeasured, kindSecret, kindCpuid, kindSvsmCaa] ∧
    Gen.SevLayout.KindSwitch = Gen.SevLayout.SectionKinds.map (fun k => (k, Spec.SnpLaunch.kindPageType k)) ∧
    (∀ k ∈ Gen.SevLayout.SectionKinds, sectionPageType k = some (Spec.SnpLaunch.kindPageType k)) ∧
    Gen.SevLayout.PageSize = 4096 ∧ Gen.SevLayout.RomTop = 2 ^ 32 ∧ Gen.SevLayout.SizeofPageInfo = 0x70 ∧
    Gen.SevLayout.VmsaCounts = Spec.SnpLaunch.gceVmsaCounts := by decide

theorem C04_cfg_is_spec : CfgIsSpec genCfg :=
  ⟨C04_gen_vmsa_layout.1, C04_gen_vmsa_layout.2.1, C04_template.1, C04_gen_constants.1⟩

/-- the supported products have the address widths of the specification: Milan 48, Genoa 52 -/
theorem C04_widths (product : Nat) (h : product = 1 ∨ product = 2) :
    WidthOK (genCfg.width product) ∧
    (Spec.SnpLaunch.productWidths.find? (fun p => p.1 == product)).map (·.2) = some (genCfg.width product) := by
  rcases h with rfl | rfl
  · exact ⟨⟨by decide, by decide⟩, by decide⟩
  · exact ⟨⟨by decide, by decide⟩, by decide⟩

/-! ## the digest -/

/-- **Main theorem.** For every hash `H`, every image (a Go slice: length below 2^63), every launch
    option with a supported product: sev.LaunchDigest returns `d` exactly when it accepts the image
    (`Accepts`: at least one vCPU, the GUIDed table / reset block / SNP metadata parse to `rb`, `secs`,
    the ROM is a whole number of pages and fits below 4 GiB, the metadata is well-formed, every kind is
    known and every range page-aligned) and `d` is the SNP_LAUNCH_UPDATE chain of the specification over
    the ROM pages, the declared sections in declared order and `vcpus` VMSA pages. -/
theorem C04_digest_eq_spec (H : Bytes → Bytes) (hH : ∀ x, (H x).length = 48) (o : Opts)
    (hp : o.product = 1 ∨ o.product = 2) (fw : Bytes) (hfw : fw.length < 2 ^ 63) (d : Bytes) :
    launchDigest H genCfg o fw = .ok d ↔
      ∃ rb secs, Accepts o fw rb secs ∧
        d = Spec.SnpLaunch.snpSpec H fw (secs.map toSpec) rb.addr o.vcpus.toNat (genCfg.width o.product) :=
  SnpDigest.launchDigest_iff H hH genCfg C04_cfg_is_spec o (C04_widths o.product hp).1 fw hfw d

/-- the ways the property names in which SNP metadata is malformed -/
inductive Malformed (secs : List Sec) : Prop
  | misaligned (s : Sec) (h : s ∈ secs) (hm : s.address % 4096 ≠ 0 ∨ s.length % 4096 ≠ 0)
  | empty (s : Sec) (h : s ∈ secs) (hm : s.length = 0)
  | overlap (h : ¬ secs.Pairwise Disjoint)
  | duplicateCpuid (h : 2 ≤ count kindCpuid secs)
  | duplicateSecrets (h : 2 ≤ count kindSecret secs)
  | missingUnmeasured (h : count kindUnmeasured secs = 0)
  | missingSecrets (h : count kindSecret secs = 0)
  | missingCpuid (h : count kindCpuid secs = 0)
  | unknownKind (s : Sec) (h : s ∈ secs) (hm : ¬ KindKnown s)

/-- Malformed SNP metadata is rejected with an error (never a digest, never a panic), one clause per
    malformation named in the property. -/
theorem C04_rejects_malformed (H : Bytes → Bytes) (hH : ∀ x, (H x).length = 48) (o : Opts)
    (hp : o.product = 1 ∨ o.product = 2) (fw : Bytes) (hfw : fw.length < 2 ^ 63) (rb : ResetBlock) (secs : List Sec)
    (hparse : extractFromFirmware true true fw = .ok (some rb, some secs)) (hm : Malformed secs) :
    ∃ e, launchDigest H genCfg o fw = .err e := by
  cases hl : launchDigest H genCfg o fw with
  | err e => exact ⟨e, rfl⟩
  | panic p => exact absurd hl (SnpBounds.launchDigest_no_panic H genCfg C04_cfg_is_spec o fw p)
  | ok d =>
    exfalso
    obtain ⟨rb', secs', ha, _⟩ := (C04_digest_eq_spec H hH o hp fw hfw d).mp hl
    have := ha.parsed; rw [hparse] at this
    injection this with this; injection this with _ h2; injection h2 with h2
    subst h2
    cases hm with
    | misaligned s h hm =>
      rcases hm with hm | hm
      · exact hm (ha.measurable s h).2
      · exact hm (ha.valid.lengths s h).1
    | empty s h hm => exact (ha.valid.lengths s h).2 hm
    | overlap h => exact h ha.valid.disjoint
    | duplicateCpuid h => have := ha.valid.oneCpuid; omega
    | duplicateSecrets h => have := ha.valid.oneSecret; omega
    | missingUnmeasured h => have := ha.valid.hasUnmeasured; omega
    | missingSecrets h => have := ha.valid.hasSecret; omega
    | missingCpuid h => have := ha.valid.hasCpuid; omega
    | unknownKind s h hm => exact hm (ha.measurable s h).1

/-- fewer than one vCPU is rejected before the image is looked at -/
theorem C04_rejects_vcpus (H : Bytes → Bytes) (o : Opts) (fw : Bytes) (h : o.vcpus < 1) :
    launchDigest H genCfg o fw = .err "vcpus" := by
  unfold launchDigest; rw [if_pos h]

/-! ## layouts -/

/-- PutVmsa as regenerated from the source writes, on a fresh 4 KiB page, the bytes the APM layout
    prescribes for the register state `v.f` — for every VMSA value that passes its range and
    must-be-zero checks. -/
theorem C04_vmsa_layout (v : Vmsa) (h : SnpVmsa.entriesOk v 4096 Gen.SevLayout.VmsaLayout) :
    putVmsa Gen.SevLayout.VmsaLayout Gen.SevLayout.SizeofVmsaCheck v (zeros 4096) = .ok (Spec.SnpLaunch.vmsaBytes v.f) := by
  rw [C04_gen_vmsa_layout.1, C04_gen_vmsa_layout.2.1] at *
  exact SnpVmsa.putVmsa_spec_layout v h

/-- a VMSA value that fails a check of PutVmsa is refused with an error: e.g. a 17-bit selector -/
theorem C04_vmsa_rejects_wide_selector (v : Vmsa) (h : v.f "Es.Selector" ≥ 2 ^ 16) :
    putVmsa Gen.SevLayout.VmsaLayout Gen.SevLayout.SizeofVmsaCheck v (zeros 4096) = .err "selector-range" := by
  rw [C04_gen_vmsa_layout.1, C04_gen_vmsa_layout.2.1]
  have hl : (zeros 4096).length = 4096 := List.length_replicate
  unfold putVmsa
  rw [if_neg (by rw [hl]; decide)]
  unfold Spec.SnpLaunch.vmsaLayout
  rw [putEntries]
  have : putEntry v (zeros 4096) ("seg", 0x00, 0x10, "Es") = .err "selector-range" := by
    unfold putEntry entryCheck
    rw [hl]
    simp only [if_true]
    rw [if_neg (by decide), if_neg (by decide), if_pos (by simpa using h)]
  rw [this]

/-- the PAGE_INFO bytes the code hashes are the ABI structure (IMI 0, VMPL permissions 0, LENGTH 0x70) -/
theorem C04_pageinfo_layout (d c : Bytes) (pt gpa : Nat) (hd : d.length = 48) (hc : c.length = 48) (hpt : pt < 256) :
    pageInfoBytes d c pt gpa = Spec.SnpLaunch.pageInfo d c pt gpa ∧
    (gpa < 2 ^ 64 → (pageInfoBytes d c pt gpa).length = Gen.SevLayout.SizeofPageInfo) := by
  refine ⟨SnpChain.pageInfoBytes_eq d c pt gpa hd hc hpt, fun _ => ?_⟩
  rw [SnpChain.pageInfoBytes_eq d c pt gpa hd hc hpt]
  simp [Spec.SnpLaunch.pageInfo, hd, hc]
  decide

/-! ## VMSAs -/

/-- the AP reset vector is split into RIP (low 16 bits) and CS.base (the rest): the unique split with
    `rip < 2^16`, `csBase` a multiple of 2^16 and `rip + csBase = addr` -/
theorem C04_ap_split (rb : ResetBlock) :
    (ripAndCsBase rb).1 = rb.addr % 2 ^ 16 ∧ (ripAndCsBase rb).2 = rb.addr - rb.addr % 2 ^ 16 ∧
    (ripAndCsBase rb).1 < 2 ^ 16 ∧ (ripAndCsBase rb).2 % 2 ^ 16 = 0 ∧ (ripAndCsBase rb).1 + (ripAndCsBase rb).2 = rb.addr := by
  refine ⟨rfl, rfl, ?_, ?_, ?_⟩ <;> simp only [ripAndCsBase] <;> omega

/-- one VMSA for the boot processor (the reset state) and `vcpus − 1` identical ones for the APs (reset
    state with CS.base/RIP from the reset block): `vcpus` pages in all, each measured as a VMSA page at
    the product's highest guest-physical page `2^width − 4096` -/
theorem C04_counts (vcpus : Int) (hv : 1 ≤ vcpus) (rb : ResetBlock) (product : Nat) (hp : product = 1 ∨ product = 2) :
    prepareVmsas genCfg.template vcpus (some rb)
      = .ok (SnpVmsa.bspVmsa :: List.replicate (vcpus.toNat - 1) (SnpVmsa.apVmsa rb)) ∧
    (SnpVmsa.bspVmsa :: List.replicate (vcpus.toNat - 1) (SnpVmsa.apVmsa rb)).length = vcpus.toNat ∧
    SnpVmsa.bspVmsa.f = Spec.SnpLaunch.bspState ∧ (SnpVmsa.apVmsa rb).f = Spec.SnpLaunch.apState rb.addr ∧
    productHigh (genCfg.width product) = 2 ^ genCfg.width product - 4096 ∧
    productHigh (genCfg.width product) = Spec.SnpLaunch.productHigh (genCfg.width product) := by
  have hw := (C04_widths product hp).1
  refine ⟨SnpDigest.prepareVmsas_eq _ C04_template.1 vcpus hv rb, ?_, rfl, rfl, SnpChain.productHigh_eq _ hw, ?_⟩
  · simp; omega
  · rw [SnpChain.productHigh_eq _ hw, SnpChain.specProductHigh_eq _ hw]

/-- sev.UnsignedSnp: one measurement per requested count, each the LaunchDigest for that count -/
theorem C04_unsigned_snp (H : Bytes → Bytes) (launchVmsas product : Nat) (fw : Bytes) (ds : List (Nat × Bytes))
    (h : unsignedSnp H genCfg Gen.SevLayout.VmsaCounts true true launchVmsas product fw = .ok ds) :
    ds.map (·.1) = vmsaCounts Spec.SnpLaunch.gceVmsaCounts launchVmsas ∧
    ∀ p ∈ ds, launchDigest H genCfg ⟨(p.1 : Nat), product⟩ fw = .ok p.2 := by
  unfold unsignedSnp at h
  simp only [Bool.not_true, Bool.false_eq_true, if_false] at h
  rw [C04_gen_constants.2.2.2.2.2.2.2.2.2] at h
  generalize vmsaCounts Spec.SnpLaunch.gceVmsaCounts launchVmsas = cs at h
  induction cs generalizing ds with
  | nil => simp only [generateLDs] at h; cases h; simp
  | cons n rest ih =>
    rw [generateLDs] at h
    cases hl : launchDigest H genCfg ⟨n, product⟩ fw with
    | err e => rw [hl] at h; cases h
    | panic q => rw [hl] at h; cases h
    | ok d =>
      rw [hl] at h
      simp only at h
      cases hr : generateLDs H genCfg product fw rest with
      | err e => rw [hr] at h; cases h
      | panic q => rw [hr] at h; cases h
      | ok ds' =>
        rw [hr] at h
        cases h
        obtain ⟨h1, h2⟩ := ih ds' hr
        refine ⟨by simp [h1], ?_⟩
        intro p hp
        rcases List.mem_cons.mp hp with rfl | hp
        · exact hl
        · exact h2 p hp

/-! ## non-vacuity -/

-- a hash with 48-byte output exists (SHA-384 in the driver; here the constant one)
example : ∀ x : Bytes, ((fun _ => zeros 48) x).length = 48 := fun _ => List.length_replicate
-- the reset state passes the checks of PutVmsa, so `C04_vmsa_layout` applies to it (and to every AP state)
example : SnpVmsa.entriesOk SnpVmsa.bspVmsa 4096 Gen.SevLayout.VmsaLayout := by
  rw [C04_gen_vmsa_layout.1]; exact SnpVmsa.bsp_ok
example : SnpVmsa.entriesOk (SnpVmsa.apVmsa ⟨0x80b004, 22, []⟩) 4096 Gen.SevLayout.VmsaLayout := by
  rw [C04_gen_vmsa_layout.1]; exact SnpVmsa.ap_ok _
-- well-formed metadata exists, and each malformation is realised by a concrete descriptor list
example : SectionsValid [⟨0x800000, 0x3000, 1⟩, ⟨0x803000, 0x1000, 2⟩, ⟨0x804000, 0x1000, 3⟩] :=
  ⟨by decide, by decide, by decide, by decide, by decide, by decide, by decide⟩
-- … which validateSections therefore accepts
example : validateSections [⟨0x800000, 0x3000, 1⟩, ⟨0x803000, 0x1000, 2⟩, ⟨0x804000, 0x1000, 3⟩] = .ok () :=
  (SnpSections.validateSections_ok_iff _).mpr ⟨by decide, by decide, by decide, by decide, by decide, by decide, by decide⟩
example : Malformed [⟨0xFFFFE000, 0x3000, 1⟩, ⟨0xFFFFF000, 0x1000, 2⟩, ⟨0x1000, 0x1000, 3⟩] :=
  .overlap (by decide)
example : (ripAndCsBase ⟨0x80b004, 22, []⟩) = (0xb004, 0x800000) := by decide

end GceTcb.Props.C04
