import GceTcb.Proofs.RpCli
import GceTcb.Gen.RpFlags
/-
C01 at the command line — a command line of `gcetcbendorsement verify | sev validate | tdx validate` that exits 0
names an authentic endorsement, under the roots and at the time it names.

`run W E cl` (Model/RpCli.lean) is one run of the tool: the command cobra resolves, the flag occurrences and the
positional arguments `cl`; files, getter and clock `E`; `callOf` (flag scoping, pflag's ranges, the chain of
PersistentPreRunE hooks, RunE up to the library call) then `exec` (the library models of Model/Verify.lean).  The
theorems hold for every command line, every file system / getter / clock and every choice of the primitives
(protobuf, X.509, RSA-PSS, PEM, third-party validators, attestation format detection, numeral syntax).

What the command line can name: the endorsement (positional file of `verify`; `--endorsement` file of the validate
commands, else what the library extracts from the attestation), the root data (`--root_cert` file, else the object the
getter returns for the pinned DefaultRootURL).  It can NOT name the verification time (there is no such flag): the
time is the Backend's clock.
-/
namespace GceTcb.RpCli
open GceTcb

variable {Cert Roots Time R Q : Type}

/-! ### obligations on the regenerated command-line facts -/

/-- The model's flag table — which command each flag is DEFINED on, persistent or local, type, default, Go
    destination — is the table the extractor reads off the `cmd.PersistentFlags()` / `cmd.Flags()` registrations of
    the constructors MakeRoot reaches. -/
theorem C01_cli_flag_table : flagTable = Gen.RpFlags.flags := by decide

/-- The command tree (path, parent, constructor, PersistentPreRunE and RunE bindings) is the one MakeRoot builds, and
    MakeRoot switches cobra to running every PersistentPreRunE from the root down. -/
theorem C01_cli_command_tree :
    commands = Gen.RpFlags.commands ∧ traverseRunHooks = Gen.RpFlags.traverseRunHooks := ⟨rfl, rfl⟩

/-- The defaults the model's flag record starts from are the defaults of the table (row by destination). -/
theorem C01_cli_defaults :
    ∀ row ∈ renderDefaults (parsed ⟨fun _ => none, fun _ => none⟩ { cmd := "" }),
      ∃ t ∈ flagTable, t.2.2.2.2.2 = row.1 ∧ t.2.2.2.2.1 = row.2 := by decide

/-- The functions the model was written from still have the statement skeleton it was written from (options
    literals in full): ReadProto, rootOfTrust, and PersistentPreRunE / RunE of verify, sev, sev validate, tdx,
    tdx validate; the pinned root URL is the linked constant. -/
theorem C01_cli_source_skeleton :
    Skeleton.readProtoSteps = Gen.RpFlags.readProtoSteps ∧ Skeleton.rootOfTrustSteps = Gen.RpFlags.rootOfTrustSteps ∧
    Skeleton.verifyPreRunSteps = Gen.RpFlags.verifyPreRunSteps ∧ Skeleton.verifyRunSteps = Gen.RpFlags.verifyRunSteps ∧
    Skeleton.sevPreRunSteps = Gen.RpFlags.sevPreRunSteps ∧
    Skeleton.sevValidatePreRunSteps = Gen.RpFlags.sevValidatePreRunSteps ∧
    Skeleton.sevValidateRunSteps = Gen.RpFlags.sevValidateRunSteps ∧
    Skeleton.tdxPreRunSteps = Gen.RpFlags.tdxPreRunSteps ∧
    Skeleton.tdxValidatePreRunSteps = Gen.RpFlags.tdxValidatePreRunSteps ∧
    Skeleton.tdxValidateRunSteps = Gen.RpFlags.tdxValidateRunSteps ∧
    Verify.defaultRootURL = Gen.RpFlags.defaultRootURL ∧ defaultRootCmd = Gen.RpFlags.defaultRootCmd :=
  ⟨rfl, rfl, rfl, rfl, rfl, rfl, rfl, rfl, rfl, rfl, rfl, rfl⟩

/-- How the three verifying commands fill roots, time, getter and endorsement of the options record. -/
theorem C01_cli_wiring :
    Skeleton.wiringOf Gen.RpFlags.wiring "verifyCommand.runE" =
      [("Now", "backend.Now"), ("Getter", "backend.Getter"), ("RootsOfTrust", "rot")] ∧
    (∀ fn ∈ ["sevValidateCommand.runE", "tdxValidateCommand.runE"],
      ∀ row ∈ [("Now", "backend.Now"), ("Getter", "backend.Getter"), ("Endorsement", "c.endorsement"),
               ("RootsOfTrust", "rot")], row ∈ Skeleton.wiringOf Gen.RpFlags.wiring fn) := by decide

/-! ### roots -/

/-- `rootOfTrust` succeeds exactly with the pool of the certificates of the root data the `--root_cert` value names
    (the file; absent or empty: what the getter returns for the pinned URL), and there is at least one: never an
    empty pool, never a nil pool (which `x509` would read as "the system roots"). -/
theorem C01_cli_roots_named (P : Prims Cert Roots Time R Q) (E : Env Time) (root : String) (r : Roots)
    (h : Verify.rootOfTrust P.vp E.backend root = .ok r) :
    ∃ data, rootData E root = some data ∧ certsIn P data ≠ [] ∧ r = P.poolOf (certsIn P data) :=
  rootOfTrust_ok P E root r h

/-- What `certsIn` is: the certificates of the PEM bundle when it has any; otherwise the data as one DER
    certificate; otherwise nothing.  In particular the empty file holds no certificate whatever the primitives
    say about non-empty data, given only that empty input is neither a PEM certificate nor a DER certificate. -/
theorem C01_cli_certs_in (P : Prims Cert Roots Time R Q) (data : Bytes) :
    (P.pemCerts data ≠ [] → certsIn P data = P.pemCerts data) ∧
    (P.pemCerts data = [] → ∀ c, P.v.parseCert data = some c → certsIn P data = [c]) ∧
    (P.pemCerts data = [] → P.v.parseCert data = none → certsIn P data = []) := by
  refine ⟨fun h => ?_, fun h c hc => ?_, fun h hc => ?_⟩
  · unfold certsIn
    cases hp : P.pemCerts data with
    | nil => exact absurd hp h
    | cons x xs => simp
  · simp [certsIn, h, hc]
  · simp [certsIn, h, hc]

/-! ### the main theorem -/

/-- A verifying call that the library models accept decides about an endorsement that is authentic for the roots
    and the time in the call's options. -/
theorem C01_cli_call_accept_authentic (W : World Cert Roots Time R Q) (E : Env Time) (c : Call Roots Time R Q)
    (hv : c.verifying = true) (h : (exec W E c).result = Verify.accept) :
    ∃ e r, callEndorsement W c = some e ∧ callRoots c = some r ∧ Verify.Authentic W.P.vp e r (callNow E.now c) := by
  cases c with
  | verify e o =>
    obtain ⟨r, hr, ha⟩ := Verify.endorsementProto_accept W.P.vp e o h
    exact ⟨e, r, rfl, hr, ha⟩
  | sevValidate content o =>
    simp only [exec] at h
    cases hp : W.P.parseAttestation content with
    | none => simp [hp] at h
    | some t =>
      cases t with
      | sevSnp sa =>
        simp only [hp] at h
        obtain ⟨e, r, he, hr, ha⟩ := Verify.sevValidate_accept W.P.vp _ _ h
        exact ⟨e, r, by simp [callEndorsement, hp, he, Verify.exceptToOption], hr, ha⟩
      | tdx q => simp [hp] at h
      | other => simp [hp] at h
  | tdxValidate content o =>
    obtain ⟨e, r, he, hr, ha⟩ := Verify.tdxValidate_accept W.P.vp _ _ _ h
    exact ⟨e, r, by simp [callEndorsement, he, Verify.exceptToOption], hr, ha⟩
  | help => cases hv
  | noSubcommand => cases hv
  | unmodelled => cases hv
  | showCmds _ _ => cases hv
  | sevPolicy _ _ _ => cases hv
  | tdxPolicy _ _ _ => cases hv

/-- What a command line of a verifying command amounts to: usage (`--help`), the openssl text (`verify --show`), or
    a verifying call whose roots are the pool of the certificates of the root data `--root_cert` names — at least
    one certificate — and whose time is the Backend's clock.  No other flag or flag combination changes this. -/
theorem C01_cli_options (W : World Cert Roots Time R Q) (E : Env Time) (cl : CmdLine) (c : Call Roots Time R Q)
    (hv : cl.cmd = "verify" ∨ cl.cmd = "sev validate" ∨ cl.cmd = "tdx validate")
    (h : callOf W.P W.L E cl = .ok c) :
    (helpFlag cl = true ∧ c = .help) ∨
    (cl.cmd = "verify" ∧ namedShow cl = true ∧ ∃ path, cl.args = [path] ∧
      c = .showCmds path (if namedRoot cl == "" then defaultRootCmd else namedRoot cl)) ∨
    (helpFlag cl = false ∧ (cl.cmd = "verify" → namedShow cl = false) ∧ c.verifying = true ∧
      callNow E.now c = E.now ∧
      ∃ data, rootData E (namedRoot cl) = some data ∧ certsIn W.P data ≠ [] ∧
        callRoots c = some (W.P.poolOf (certsIn W.P data))) := by
  have hw := callOf_ok_wellFormed _ _ _ _ _ h
  have hne : cl.cmd ≠ "" := by rcases hv with hv | hv | hv <;> simp [hv]
  cases hh : helpFlag cl with
  | true =>
    rw [callOf_help _ _ _ _ hw hne hh] at h
    cases h
    exact Or.inl ⟨rfl, rfl⟩
  | false =>
    right
    rcases hv with hv | hv | hv
    · rw [callOf_verify _ _ _ _ hw hv hh] at h
      obtain ⟨path, hargs, hc⟩ := verifyCall_ok _ _ _ _ _ h
      rw [parsed_verifyShow _ _ hv, parsed_verifyRoot _ _ hv] at hc
      rcases hc with ⟨hs, hc⟩ | ⟨hs, e, rot, _, hrot, hc⟩
      · exact Or.inl ⟨hv, hs, path, hargs, hc⟩
      · right
        obtain ⟨data, hd, hne', hr⟩ := rootOfTrust_ok _ _ _ _ hrot
        subst hc
        exact ⟨rfl, fun _ => hs, rfl, rfl, data, hd, hne', by simp [callRoots, hr]⟩
    · rw [callOf_sevValidate _ _ _ _ hw hv hh] at h
      obtain ⟨base, att, content, oe, rot, _, _, _, _, hrot, hc⟩ := sevValidateCall_ok _ _ _ _ _ h
      rw [parsed_sevValidateRoot _ _ hv] at hrot
      obtain ⟨data, hd, hne', hr⟩ := rootOfTrust_ok _ _ _ _ hrot
      subst hc
      exact Or.inr ⟨rfl, fun hh' => by rw [hv] at hh'; simp at hh', rfl, rfl, data, hd, hne', by simp [callRoots, hr]⟩
    · rw [callOf_tdxValidate _ _ _ _ hw hv hh] at h
      obtain ⟨base, att, content, oe, rot, _, _, _, _, hrot, hc⟩ := tdxValidateCall_ok _ _ _ _ _ h
      rw [parsed_tdxValidateRoot _ _ hv] at hrot
      obtain ⟨data, hd, hne', hr⟩ := rootOfTrust_ok _ _ _ _ hrot
      subst hc
      exact Or.inr ⟨rfl, fun hh' => by rw [hv] at hh'; simp at hh', rfl, rfl, data, hd, hne', by simp [callRoots, hr]⟩

/-- C01 through the command line.  A `verify` / `sev validate` / `tdx validate` command line that exits 0 either
    carries `--help` (usage is printed), or is `verify --show` (the openssl commands are printed) — both verify
    NOTHING — or amounts to a library call about an endorsement that is authentic for exactly the certificates of the
    root data its `--root_cert` names (file; else the pinned URL through the getter), of which there is at least one,
    at the Backend's time. -/
theorem C01_cli_exit0_authentic (W : World Cert Roots Time R Q) (E : Env Time) (cl : CmdLine)
    (hv : cl.cmd = "verify" ∨ cl.cmd = "sev validate" ∨ cl.cmd = "tdx validate")
    (h : (run W E cl).result = Verify.accept) :
    helpFlag cl = true ∨ (cl.cmd = "verify" ∧ namedShow cl = true) ∨
    ∃ c e data, callOf W.P W.L E cl = .ok c ∧ callEndorsement W c = some e ∧
      rootData E (namedRoot cl) = some data ∧ certsIn W.P data ≠ [] ∧
      Verify.Authentic W.P.vp e (W.P.poolOf (certsIn W.P data)) E.now := by
  unfold run at h
  cases hc : callOf W.P W.L E cl with
  | err c => simp [hc] at h
  | panic s => simp [hc] at h
  | ok c =>
    simp only [hc] at h
    rcases C01_cli_options W E cl c hv hc with ⟨hh, _⟩ | ⟨hv', hs, _⟩ | ⟨_, _, hver, hnow, data, hd, hne, hr⟩
    · exact Or.inl hh
    · exact Or.inr (Or.inl ⟨hv', hs⟩)
    · obtain ⟨e, r, he, hr', ha⟩ := C01_cli_call_accept_authentic W E c hver h
      rw [hr] at hr'
      cases hr'
      rw [hnow] at ha
      exact Or.inr (Or.inr ⟨c, e, data, rfl, he, hd, hne, ha⟩)

/-- "A missing or empty roots flag does not mean trust everything": whenever the root data the command line names
    does not exist (no file; flag absent and no getter, or the getter fails) or holds no certificate (an empty
    file, junk), a verifying command line without `--help` / `--show` does not exit 0. -/
theorem C01_cli_no_certificate_no_exit0 (W : World Cert Roots Time R Q) (E : Env Time) (cl : CmdLine)
    (hv : cl.cmd = "verify" ∨ cl.cmd = "sev validate" ∨ cl.cmd = "tdx validate")
    (hh : helpFlag cl = false) (hs : cl.cmd = "verify" → namedShow cl = false)
    (hroot : ∀ data, rootData E (namedRoot cl) = some data → certsIn W.P data = []) :
    (run W E cl).result ≠ Verify.accept := by
  intro h
  rcases C01_cli_exit0_authentic W E cl hv h with h1 | ⟨hv', h2⟩ | ⟨_, _, data, _, _, hd, hne, _⟩
  · rw [hh] at h1; cases h1
  · rw [hs hv'] at h2; cases h2
  · exact hne (hroot data hd)

/-- The endorsement `verify` decides about is the one in the file its positional argument names. -/
theorem C01_cli_verify_endorsement_named (W : World Cert Roots Time R Q) (E : Env Time) (cl : CmdLine)
    (e : Verify.Endorsement) (o : Verify.Options Roots Time) (hv : cl.cmd = "verify")
    (h : callOf W.P W.L E cl = .ok (.verify e o)) :
    ∃ path, cl.args = [path] ∧ Verify.readEndorsement W.P.vp E.backend path = .ok e ∧
      o.snp = none ∧ o.expectedUefiSha384 = [] ∧ o.endorsement = none ∧ o.getter = E.getter ∧ o.now = E.now := by
  have hw := callOf_ok_wellFormed _ _ _ _ _ h
  cases hh : helpFlag cl with
  | true =>
    rw [callOf_help _ _ _ _ hw (by simp [hv]) hh] at h
    cases h
  | false =>
    rw [callOf_verify _ _ _ _ hw hv hh] at h
    obtain ⟨path, hargs, hc⟩ := verifyCall_ok _ _ _ _ _ h
    rcases hc with ⟨_, hc⟩ | ⟨_, e', rot, he, _, hc⟩
    · cases hc
    · cases hc
      exact ⟨path, hargs, he, rfl, rfl, rfl, rfl, rfl⟩

/-- The validate commands: the attestation is the content of the positional file; the pre-supplied endorsement is
    the content of the `--endorsement` file (no flag, none: the library then extracts one from the attestation). -/
theorem C01_cli_validate_inputs_named (W : World Cert Roots Time R Q) (E : Env Time) (cl : CmdLine)
    (c : Call Roots Time R Q) (h : callOf W.P W.L E cl = .ok c) :
    (cl.cmd = "sev validate" → ∀ content o, c = .sevValidate content o →
      ∃ att, cl.args = [att] ∧ E.readFile att = some content ∧
        Verify.cliEndorsement W.P.vp E.backend (parsed W.L cl).sevValidateEndorsementPath = .ok o.endorsement ∧
        o.getter = E.getter ∧ o.now = E.now) ∧
    (cl.cmd = "tdx validate" → ∀ content o, c = .tdxValidate content o →
      ∃ att, cl.args = [att] ∧ E.readFile att = some content ∧
        Verify.cliEndorsement W.P.vp E.backend (parsed W.L cl).tdxValidateEndorsementPath = .ok o.endorsement ∧
        o.now = E.now) := by
  have hw := callOf_ok_wellFormed _ _ _ _ _ h
  constructor
  · intro hv content o hc
    subst hc
    cases hh : helpFlag cl with
    | true =>
      rw [callOf_help _ _ _ _ hw (by simp [hv]) hh] at h
      cases h
    | false =>
      rw [callOf_sevValidate _ _ _ _ hw hv hh] at h
      obtain ⟨base, att, content', oe, rot, _, hargs, hcontent, hoe, _, hc⟩ := sevValidateCall_ok _ _ _ _ _ h
      cases hc
      exact ⟨att, hargs, hcontent, hoe, rfl, rfl⟩
  · intro hv content o hc
    subst hc
    cases hh : helpFlag cl with
    | true =>
      rw [callOf_help _ _ _ _ hw (by simp [hv]) hh] at h
      cases h
    | false =>
      rw [callOf_tdxValidate _ _ _ _ hw hv hh] at h
      obtain ⟨base, att, content', oe, rot, _, hargs, hcontent, hoe, _, hc⟩ := tdxValidateCall_ok _ _ _ _ _ h
      cases hc
      exact ⟨att, hargs, hcontent, hoe, rfl⟩

/-! ### what `--show` and `--help` are, exactly -/

/-- `verify PATH --show` reads no file, loads no root, calls no verifier: its run is the printing of the openssl
    text for (PATH, the `--root_cert` text or the default curl expression) on standard output, whatever the files,
    the getter, the clock and the primitives are.  It exits 0 iff standard output can be written. -/
theorem C01_cli_show_verifies_nothing (W : World Cert Roots Time R Q) (E : Env Time) (cl : CmdLine) (path : String)
    (hw : wellFormed W.L cl = true) (hv : cl.cmd = "verify") (hh : helpFlag cl = false)
    (hs : namedShow cl = true) (hargs : cl.args = [path]) :
    run W E cl = emit E "-" (.openssl path (if namedRoot cl == "" then defaultRootCmd else namedRoot cl)) := by
  unfold run
  rw [callOf_verify _ _ _ _ hw hv hh]
  simp [verifyCall, hargs, parsed_verifyShow _ _ hv, parsed_verifyRoot _ _ hv, hs, exec]

/-- `--help` on any command: usage, exit 0, no file read, nothing verified, no effect. -/
theorem C01_cli_help_verifies_nothing (W : World Cert Roots Time R Q) (E : Env Time) (cl : CmdLine)
    (hw : wellFormed W.L cl = true) (hc : cl.cmd ≠ "") (hh : helpFlag cl = true) :
    run W E cl = ⟨[], Verify.accept⟩ := by
  unfold run
  rw [callOf_help _ _ _ _ hw hc hh]
  rfl

/-- The verifying calls have no effect on the Backend's IO (no file is created or written). -/
theorem C01_cli_verifying_no_effects (W : World Cert Roots Time R Q) (E : Env Time) (c : Call Roots Time R Q)
    (hv : c.verifying = true) : (exec W E c).effects = [] := by
  cases c <;> first | rfl | cases hv

/-! ### composition with the entry points of Model/Verify.lean -/

/-- `verify PATH [--root_cert ROOT]` without --show / --help IS the entry point `cliVerify` of Model/Verify.lean
    (C01_accept_authentic's `.cliVerify`) on (PATH, the `--root_cert` value), run with the pool construction of
    `rootOfTrust`. -/
theorem C01_cli_verify_composes (W : World Cert Roots Time R Q) (E : Env Time) (cl : CmdLine) (path : String)
    (hw : wellFormed W.L cl = true) (hv : cl.cmd = "verify") (hh : helpFlag cl = false)
    (hs : namedShow cl = false) (hargs : cl.args = [path]) :
    (run W E cl).result = Verify.run W.P.vp .cliVerify (E.backend, path, namedRoot cl) ∧ (run W E cl).effects = [] := by
  unfold run
  rw [callOf_verify _ _ _ _ hw hv hh]
  simp only [verifyCall, hargs, parsed_verifyShow _ _ hv, parsed_verifyRoot _ _ hv, hs, Verify.run, Verify.cliVerify]
  cases he : Verify.readEndorsement W.P.vp E.backend path with
  | error c => simp [Verify.reject]
  | ok e =>
    cases hr : Verify.rootOfTrust W.P.vp E.backend (namedRoot cl) with
    | error c => simp [Verify.reject]
    | ok rot => simp [exec, Env.backend]

/-- `sev validate ATT [--endorsement E] [--root_cert ROOT] [--overwrite] [--testonly_force_gcs]` without `--base`
    and without a named VMSA count IS the entry point `cliSevValidate` of Model/Verify.lean (which was written
    before the repair of D2b and hands configuration 0 to the library): the command-line model specialises to it, and
    extends it with the `--launch_vmsas` / `--base` wiring. -/
theorem C01_cli_sev_validate_composes (W : World Cert Roots Time R Q) (E : Env Time) (cl : CmdLine) (att : String)
    (hw : wellFormed W.L cl = true) (hv : cl.cmd = "sev validate") (hh : helpFlag cl = false)
    (hargs : cl.args = [att]) (hb : namedBase cl = "") (hn : namedVmsas W.L cl = 0) :
    (run W E cl).result = Verify.run W.P.vp .cliSevValidate (W.P.parseAttestation, E.backend,
      ⟨att, namedEndorsementPath cl, namedRoot cl, W.tagS none, namedOverwrite cl, namedForceGCS cl⟩) := by
  unfold run
  rw [callOf_sevValidate _ _ _ _ hw hv hh]
  obtain ⟨h1, h2, h3⟩ := parsed_sevValidate_rest W.L cl hv
  have hbase : sevBase W.P E (parsed W.L cl) = .ok none := by simp [sevBase, h3, hb]
  simp only [sevValidateCall, hbase, hargs, h1, h2, parsed_sevValidateRoot _ _ hv, parsed_sevOverwrite W.L cl (Or.inl hv),
    parsed_sevLaunchVmsas W.L cl (Or.inl hv), hn, Verify.run, Verify.cliSevValidate, Env.backend]
  cases hf : E.readFile att with
  | none => simp [Verify.reject]
  | some content =>
    simp only []
    cases he : Verify.cliEndorsement W.P.vp ⟨E.readFile, E.getter, E.now⟩ (namedEndorsementPath cl) with
    | error c => simp [Verify.reject]
    | ok oe =>
      simp only []
      cases hr : Verify.rootOfTrust W.P.vp ⟨E.readFile, E.getter, E.now⟩ (namedRoot cl) with
      | error c => simp [Verify.reject]
      | ok rot =>
        simp only [exec]
        cases hp : W.P.parseAttestation content with
        | none => rfl
        | some t => cases t <;> rfl

/-- `tdx validate ATT [--endorsement E] [--root_cert ROOT] [--overwrite]` without `--base` and without a named RAM
    size IS the entry point `cliTdxValidate` of Model/Verify.lean. -/
theorem C01_cli_tdx_validate_composes (W : World Cert Roots Time R Q) (E : Env Time) (cl : CmdLine) (att : String)
    (hw : wellFormed W.L cl = true) (hv : cl.cmd = "tdx validate") (hh : helpFlag cl = false)
    (hargs : cl.args = [att]) (hb : namedBase cl = "") (hn : namedRamGiB W.L cl = 0) :
    (run W E cl).result = Verify.run W.P.vp .cliTdxValidate (W.P.parseAttestation, E.backend,
      ⟨att, namedEndorsementPath cl, namedRoot cl, W.tagT none, namedOverwrite cl, false⟩) := by
  unfold run
  rw [callOf_tdxValidate _ _ _ _ hw hv hh]
  obtain ⟨h1, h3⟩ := parsed_tdxValidate_rest W.L cl hv
  have hbase : tdxBase W.P E (parsed W.L cl) = .ok none := by simp [tdxBase, h3, hb]
  simp only [tdxValidateCall, hbase, hargs, h1, parsed_tdxValidateRoot _ _ hv, parsed_tdxOverwrite W.L cl (Or.inl hv),
    parsed_tdxRamGiB W.L cl (Or.inl hv), hn, Verify.run, Verify.cliTdxValidate, Env.backend]
  cases hf : E.readFile att with
  | none => simp [Verify.reject]
  | some content =>
    simp only []
    cases he : Verify.cliEndorsement W.P.vp ⟨E.readFile, E.getter, E.now⟩ (namedEndorsementPath cl) with
    | error c => simp [Verify.reject]
    | ok oe =>
      simp only []
      cases hr : Verify.rootOfTrust W.P.vp ⟨E.readFile, E.getter, E.now⟩ (namedRoot cl) with
      | error c => simp [Verify.reject]
      | ok rot => simp [exec, TdxValidateOptions.toVerify, ramTag]

/-! ### non-vacuity and witnesses -/

open Example in
/-- `verify e --root_cert r` exits 0 at a time inside the certificate's validity, and `sev validate a --root_cert r`
    does (the endorsement comes out of the attestation's certificate table) … -/
example :
    (run W (E 150) ⟨"verify", [("root_cert", "r")], ["e"]⟩).result = Verify.accept ∧
    (run W (E 150) ⟨"sev validate", [("root_cert", "r")], ["a"]⟩).result = Verify.accept := by decide

open Example in
/-- … and not: outside the validity, with the empty file or junk as root data, without the flag and without a
    getter, with the flag of another command (`--endorsement` is not a flag of `verify`; `--launch_vmsas` is not a
    flag of `tdx validate`), with a malformed Bool value. -/
example :
    (run W (E 201) ⟨"verify", [("root_cert", "r")], ["e"]⟩).result = Verify.reject "chain" ∧
    (run W (E 150) ⟨"verify", [("root_cert", "z")], ["e"]⟩).result = Verify.reject "root-parse" ∧
    (run W (E 150) ⟨"verify", [("root_cert", "j")], ["e"]⟩).result = Verify.reject "root-parse" ∧
    (run W (E 150) ⟨"verify", [], ["e"]⟩).result = Verify.reject "no-getter" ∧
    (run W (E 150) ⟨"verify", [("root_cert", "")], ["e"]⟩).result = Verify.reject "no-getter" ∧
    (run W (E 150) ⟨"verify", [("root_cert", "r"), ("endorsement", "e")], ["e"]⟩).result = Verify.reject "parse" ∧
    (run W (E 150) ⟨"tdx validate", [("root_cert", "r"), ("launch_vmsas", "1")], ["a"]⟩).result = Verify.reject "parse" ∧
    (run W (E 150) ⟨"verify", [("root_cert", "r"), ("show", "perhaps")], ["e"]⟩).result = Verify.reject "parse" := by
  decide

open Example in
/-- `--show` stated exactly: a command line naming a file that does not exist, junk as roots, at a time outside
    every validity, exits 0 — it prints two openssl commands and verifies nothing; without `--show` the same command
    line is refused. -/
theorem C01_cli_show_witness :
    (run W (E 999) ⟨"verify", [("root_cert", "j"), ("show", "true")], ["nosuchfile"]⟩).result = Verify.accept ∧
    (run W (E 999) ⟨"verify", [("root_cert", "j")], ["nosuchfile"]⟩).result = Verify.reject "read" := by decide

end GceTcb.RpCli
