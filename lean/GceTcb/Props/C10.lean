import GceTcb.Proofs.RotateFinal
import GceTcb.Proofs.RotateKms
/-
C10 — Signing-key rotation is failure-atomic.
Property theorems only (the program logic and the step specifications live in Proofs/Hoare.lean,
Proofs/RotateDefs.lean, Proofs/RotateGcs.lean, Proofs/RotateMem.lean).

The model (Model/CA.lean, Model/Rotate.lean) is the rotation of rotate/rotate.go AFTER the "fix:" commit
(steps in sequence, stop at the first error, destroy the old key after Finalize).  Every theorem
quantifies over ALL fault scripts `sc : Nat → Fault` (any number of failed calls and a crash at any
call), both authorities (`cfg.ca`), both key managers (`cfg.km`), every number of public-key calls the
X.509 library makes (`cfg.pubPre`, `cfg.pubPost`) and every starting state satisfying the invariant.

Hypotheses (all explicit): `BumpOK cfg` — the key manager hands out a name that differs from the current
one and is not empty; `Inv cfg s` — the invariant (PrimaryOK + the root key is live and matches the
stored root certificate + name hygiene); `Fresh cfg req s` — the object the new certificate is written
to is not the manifest object or the root certificate object.  The object holding the PRIMARY's
certificate (a serial override equal to the primary's serial with the same common name — finding D22)
is no longer excluded: gcsca.upload (after its "fix:" commit) refuses an object that the manifest
records for another key version before any storage call, whatever --overwrite says, and the model
follows (`heldByOther`); the pre-fix upload is kept as `rotateKeyNoGuard` with the witness
`C10_old_upload_clobbers_primary`.  The theorems that assert SUCCESS of a rotation need, in addition,
that the request is not refused in that way (`Unclaimed`); `C10_collision_refused` is the other half.
Runs start from `s.reload`: a fresh authority instance (no cached manifest) and an empty call log.
-/
namespace GceTcb.CA

/-- **Failure atomicity.**  Whatever faults and crash the script injects into one rotation, the state that
    survives — reloaded through a fresh authority instance — satisfies the invariant again: the recorded
    primary signing key is live, its certificate is stored, is for that key and verifies under the stored
    root. -/
theorem C10_primary_live (cfg : Cfg) (req : Req) (sc : Nat → Fault) (s : St)
    (hb : BumpOK cfg) (hi : Inv cfg s) (hf : Fresh cfg req s) :
    Inv cfg (rotateKey cfg req sc s.reload).state.reload := by
  have := rotate_run_facts cfg req sc s hb hi hf
  rw [Inv_reload]
  cases hr : rotateKey cfg req sc s.reload with
  | ok k s' => rw [hr] at this; exact this.1
  | err s' => rw [hr] at this; exact this.1.1
  | crash s' => rw [hr] at this; exact this.1.1

/-- … in the words of the property: endorsing keeps working with the recorded primary. -/
theorem C10_primary_usable (cfg : Cfg) (req : Req) (sc : Nat → Fault) (s : St)
    (hb : BumpOK cfg) (hi : Inv cfg s) (hf : Fresh cfg req s) :
    PrimaryOK cfg (rotateKey cfg req sc s.reload).state.reload :=
  (C10_primary_live cfg req sc s hb hi hf).primaryOK

/-- **Destroy after commit.**  In the call log of every run, a DestroyKeyVersion that reached the key
    manager is preceded by the completed call that makes the new primary durable (gcsca: Close of the
    manifest object; memca: Finalize). -/
theorem C10_destroy_after_commit (cfg : Cfg) (req : Req) (sc : Nat → Fault) (s : St)
    (hb : BumpOK cfg) (hi : Inv cfg s) (hf : Fresh cfg req s) :
    DAC cfg (rotateKey cfg req sc s.reload).state.log := by
  have := rotate_run_facts cfg req sc s hb hi hf
  cases hr : rotateKey cfg req sc s.reload with
  | ok k s' => rw [hr] at this; exact this.2.1
  | err s' => rw [hr] at this; exact this.1.2
  | crash s' => rw [hr] at this; exact this.1.2

/-- a fault-free rotation with overwrite allowed succeeds from any good state, unless its certificate
    would go to an object that another key version holds -/
theorem C10_fault_free_succeeds (cfg : Cfg) (req : Req) (s : St) (how : cfg.overwrite = true)
    (hb : BumpOK cfg) (hi : Inv cfg s) (hf : Fresh cfg req s) (hu : Unclaimed cfg req s) :
    ∃ k s', rotateKey cfg req noFault s.reload = .ok k s' ∧ Inv cfg s'.reload ∧
      primaryOf cfg s' = k ∧ k = cfg.bump (primaryOf cfg s) := by
  have := rotate_run_facts cfg req noFault s hb hi hf
  cases hr : rotateKey cfg req noFault s.reload with
  | ok k s' =>
    rw [hr] at this
    exact ⟨k, s', rfl, (Inv_reload cfg s').mpr this.1, this.2.2.1, this.2.2.2.1⟩
  | err s' =>
    rw [hr] at this
    rcases this.2 with h | h | h
    · exact absurd noFault_noFault h
    · rw [how] at h; cases h
    · exact absurd h (not_claimed_of_unclaimed hu)
  | crash s' =>
    rw [hr] at this
    exact absurd noFault_noFault this.2

/-- **Retry succeeds.**  After a rotation that was hit by any faults, a later fault-free rotation that is
    allowed to overwrite succeeds (for every request whose target object is fresh in the surviving state,
    in particular the same request when the failed attempt did not commit — `C10_retry_same_request`),
    the key it returns is recorded as primary, and the invariant holds again. -/
theorem C10_retry_succeeds (cfg : Cfg) (req req' : Req) (sc : Nat → Fault) (s : St)
    (hb : BumpOK cfg) (hi : Inv cfg s) (hf : Fresh cfg req s)
    (hf' : Fresh cfg.allowOverwrite req' (rotateKey cfg req sc s.reload).state.reload)
    (hu' : Unclaimed cfg.allowOverwrite req' (rotateKey cfg req sc s.reload).state.reload) :
    ∃ k s', rotateKey cfg.allowOverwrite req' noFault (rotateKey cfg req sc s.reload).state.reload = .ok k s' ∧
      Inv cfg s'.reload ∧ primaryOf cfg s' = k ∧
      k = cfg.bump (primaryOf cfg (rotateKey cfg req sc s.reload).state.reload) := by
  have h1 := C10_primary_live cfg req sc s hb hi hf
  have h1' := (Inv_allowOverwrite cfg _).mpr h1
  obtain ⟨k, s', hr, hinv, hp, hk⟩ := C10_fault_free_succeeds cfg.allowOverwrite req' _ rfl hb h1' hf' hu'
  refine ⟨k, s', ?_, (Inv_allowOverwrite cfg _).mp hinv, hp, hk⟩
  have : (rotateKey cfg req sc s.reload).state.reload.reload = (rotateKey cfg req sc s.reload).state.reload := rfl
  rw [this] at hr
  exact hr

/-- `Fresh` and `Unclaimed` only look at the stored manifest: a failed attempt that did not change the stored
    manifest leaves the same request admissible for the retry (its leftover object is overwritten). -/
theorem C10_retry_same_request (cfg : Cfg) (req : Req) (s s1 : St) (hf : Fresh cfg req s) (hu : Unclaimed cfg req s)
    (hsame : lookup s1.store manifestName = lookup s.store manifestName) :
    Fresh cfg.allowOverwrite req s1 ∧ Unclaimed cfg.allowOverwrite req s1 := by
  unfold Fresh Unclaimed Cfg.allowOverwrite at *
  cases hca : cfg.ca with
  | memca => simp
  | gcsca =>
    simp only [hca] at hf hu ⊢
    constructor
    · intro m hm
      rw [hsame] at hm
      exact hf m hm
    · intro m hm
      rw [hsame] at hm
      exact hu m hm

/-- **A colliding request is refused, atomically** (the input class of finding D22, now inside the
    statement).  When the stored manifest records the object the new certificate would go to for a key
    version other than the new one — in particular the object holding the PRIMARY's certificate — no
    script lets the rotation return normally, `--overwrite` or not; the state that survives satisfies the
    invariant (this is `C10_primary_live`; restated for the reader), so the recorded primary is still the
    old key, live and certified. -/
theorem C10_collision_refused (cfg : Cfg) (req : Req) (sc : Nat → Fault) (s : St)
    (hb : BumpOK cfg) (hi : Inv cfg s) (hf : Fresh cfg req s) (hc : Claimed cfg req s) :
    (∀ k s', rotateKey cfg req sc s.reload ≠ .ok k s') ∧
    Inv cfg (rotateKey cfg req sc s.reload).state.reload := by
  refine ⟨?_, C10_primary_live cfg req sc s hb hi hf⟩
  intro k s' hr
  have := rotate_run_facts cfg req sc s hb hi hf
  rw [hr] at this
  exact this.2.2.2.2 hc

/-- the primary's own certificate object is such an object: a request whose target is the entry of the
    recorded primary is `Claimed` -/
theorem C10_primary_object_claimed (cfg : Cfg) (req : Req) (s : St) (hca : cfg.ca = .gcsca) (hb : BumpOK cfg)
    (m : Manifest) (hm : lookup s.store manifestName = some (.manifest m))
    (ht : lookup m.entries m.signing = some (target cfg req m)) : Claimed cfg req s :=
  ⟨hca, m, hm, heldByOther_of_lookup ht (Ne.symm (hb.1 _))⟩

/-! ### the order matters: the rotation as it was before the fix -/

/-- **The old order breaks the invariant** (memca): with the steps evaluated as arguments of one
    error-combining call, ONE failed signing call (position 10: `Signer.Sign` with the root key) leaves
    an uncertified key recorded as primary and the old key destroyed — from a state that satisfies every
    hypothesis of `C10_primary_live`. -/
theorem C10_old_order_breaks :
    Inv (demoCfg .memca) demoM ∧ Fresh (demoCfg .memca) ⟨"sig", 3⟩ demoM ∧ BumpOK (demoCfg .memca) ∧
    ¬ PrimaryOK (demoCfg .memca) (rotateKeyOld (demoCfg .memca) ⟨"sig", 3⟩ (failAt 10) demoM.reload).state.reload := by
  refine ⟨demoM_inv, trivial, demoBump_ok .memca, ?_⟩
  intro h
  have := primaryOKb_of _ _ h
  revert this
  decide

/-- … and on the deferred authority ONE failed storage call (position 22: Close of the manifest object)
    leaves the stored manifest naming a key that has already been destroyed. -/
theorem C10_old_order_breaks_gcsca :
    Inv (demoCfg .gcsca) demoG ∧ Fresh (demoCfg .gcsca) ⟨"sig", 3⟩ demoG ∧ BumpOK (demoCfg .gcsca) ∧
    ¬ PrimaryOK (demoCfg .gcsca) (rotateKeyOld (demoCfg .gcsca) ⟨"sig", 3⟩ (failAt 22) demoG.reload).state.reload := by
  refine ⟨demoG_inv, demoG_fresh _ (by decide) (by decide), demoBump_ok .gcsca, ?_⟩
  intro h
  have := primaryOKb_of _ _ h
  revert this
  decide

/-! ### the refusal matters: gcsca.upload as it was before its fix -/

def demoCfgOw : Cfg := (demoCfg .gcsca).allowOverwrite

/-- **The old upload clobbers the primary's certificate** (finding D22): with `--overwrite`, a request
    whose common name and serial are the current primary's (⟨"sigcn", 2⟩ in `demoG`) satisfies every
    hypothesis of `C10_primary_live` as it is stated now; on gcsca.upload WITHOUT the refusal ONE crash
    (position 19: Close of the certificate object, i.e. before the manifest write) — or one failed call
    (position 20: opening the manifest's writer) — leaves the stored manifest naming the old key "sk" as
    primary while the object its entry points to certifies the new key: `PrimaryOK` fails.  On the
    repaired upload the same run is refused before any storage call and `PrimaryOK` holds. -/
theorem C10_old_upload_clobbers_primary :
    Inv demoCfgOw demoG ∧ Fresh demoCfgOw ⟨"sigcn", 2⟩ demoG ∧ BumpOK demoCfgOw ∧ Claimed demoCfgOw ⟨"sigcn", 2⟩ demoG ∧
    ¬ PrimaryOK demoCfgOw (rotateKeyNoGuard demoCfgOw ⟨"sigcn", 2⟩ (crashAt 19) demoG.reload).state.reload ∧
    ¬ PrimaryOK demoCfgOw (rotateKeyNoGuard demoCfgOw ⟨"sigcn", 2⟩ (failAt 20) demoG.reload).state.reload ∧
    (rotateKey demoCfgOw ⟨"sigcn", 2⟩ (crashAt 19) demoG.reload).tag = "err" ∧
    PrimaryOK demoCfgOw (rotateKey demoCfgOw ⟨"sigcn", 2⟩ (crashAt 19) demoG.reload).state.reload := by
  have hinv : Inv demoCfgOw demoG := (Inv_allowOverwrite _ _).mpr demoG_inv
  have hfr : Fresh demoCfgOw ⟨"sigcn", 2⟩ demoG := by
    intro m hm
    rw [demoG_manifest hm]
    exact ⟨by decide, by decide⟩
  have hbo : BumpOK demoCfgOw := demoBump_ok .gcsca
  refine ⟨hinv, hfr, hbo, ?_, ?_, ?_, by decide, ?_⟩
  · exact ⟨rfl, _, (by decide : lookup demoG.store manifestName = some (.manifest
      ⟨[("root", "certs/rootcn-1.crt"), ("sk", "certs/sigcn-2.crt")], "root", "sk"⟩)), by decide⟩
  · intro h
    have := primaryOKb_of _ _ h
    revert this
    decide
  · intro h
    have := primaryOKb_of _ _ h
    revert this
    decide
  · exact (C10_primary_live demoCfgOw ⟨"sigcn", 2⟩ (crashAt 19) demoG hbo hinv hfr).primaryOK

/-! ### non-vacuity -/

/-- Non-vacuity of `C10_fault_free_succeeds` / `C10_retry_succeeds`: the usual request (next serial) is not
    claimed in `demoG`. -/
example : Unclaimed (demoCfg .gcsca) ⟨"sig", 3⟩ demoG := demoG_unclaimed

/-- Non-vacuity of `C10_collision_refused`: the colliding request of `C10_old_upload_clobbers_primary`,
    fault-free and with overwrite allowed, ends in an error after 16 calls (the last one is Finalize: no
    storage call was made), both keys live, the store unchanged, and the usual retry then succeeds. -/
example :
    let r := rotateKey demoCfgOw ⟨"sigcn", 2⟩ noFault demoG.reload
    let r2 := rotateKey demoCfgOw ⟨"sig", 3⟩ noFault r.state.reload
    r.tag = "err" ∧ r.state.log.length = 16 ∧ r.state.store = demoG.store ∧
    lookup r.state.keys "sk" = some 1 ∧ primaryOKb demoCfgOw r.state.reload = true ∧
    r2.tag = "ok" ∧ primaryOf demoCfgOw r2.state = "sk_n" ∧ primaryOKb demoCfgOw r2.state.reload = true := by
  decide

/-- Non-vacuity of `C10_primary_live` / `C10_destroy_after_commit`: the hypotheses hold for `demoG`
    (`demoG_inv`, `demoG_fresh`, `demoBump_ok`), and the fixed rotation under the same single fault that
    breaks the old order (Close of the manifest fails) ends in an error with BOTH keys live, the leftover
    certificate object written, the old key still recorded as primary, and no destroy call in the log;
    a crash right after the manifest's Close leaves the NEW key recorded and both keys live. -/
example :
    let r := rotateKey (demoCfg .gcsca) ⟨"sig", 3⟩ (failAt 22) demoG.reload
    r.tag = "err" ∧ lookup r.state.keys "sk" = some 1 ∧ lookup r.state.keys "sk_n" = some 2 ∧
    (lookup r.state.store "certs/sig-3.crt").isSome = true ∧
    primaryOf (demoCfg .gcsca) r.state = "sk" ∧ primaryOKb (demoCfg .gcsca) r.state.reload = true ∧
    r.state.log.length = 23 := by
  decide

example :
    let r := rotateKey (demoCfg .gcsca) ⟨"sig", 3⟩ (crashAt 22) demoG.reload
    r.tag = "crash" ∧ lookup r.state.keys "sk" = some 1 ∧ lookup r.state.keys "sk_n" = some 2 ∧
    primaryOf (demoCfg .gcsca) r.state = "sk_n" ∧ primaryOKb (demoCfg .gcsca) r.state.reload = true := by
  decide

/-- Non-vacuity of `C10_retry_succeeds`: after the failed attempt above the SAME request is fresh again
    (`C10_retry_same_request` applies: the stored manifest is unchanged), and the fault-free retry with
    overwrite returns the new key, which is then the recorded primary; the old key is gone. -/
example :
    let s1 := (rotateKey (demoCfg .gcsca) ⟨"sig", 3⟩ (failAt 22) demoG.reload).state.reload
    let r2 := rotateKey (demoCfg .gcsca).allowOverwrite ⟨"sig", 3⟩ noFault s1
    lookup s1.store manifestName = lookup demoG.store manifestName ∧
    r2.tag = "ok" ∧ primaryOf (demoCfg .gcsca) r2.state = "sk_n" ∧ lookup r2.state.keys "sk" = none ∧
    primaryOKb (demoCfg .gcsca) r2.state.reload = true := by
  decide

/-- … and on the immediate authority, with two faults in one run (a swallowed failure of the template's
    certificate read, then a crash after DestroyKeyVersion). -/
example :
    let sc : Nat → Fault := fun i => if i = 7 then .fail else if i = 13 then .crash else .ok
    let r := rotateKey (demoCfg .memca) ⟨"sig", 3⟩ sc demoM.reload
    r.tag = "crash" ∧ primaryOf (demoCfg .memca) r.state = "sk_n" ∧ lookup r.state.keys "sk" = none ∧
    primaryOKb (demoCfg .memca) r.state.reload = true ∧ r.state.log.length = 14 := by
  decide

/-! ## the Cloud KMS stack (gcpkms.Manager + gcpkms.Signer, deferred authority)

`rotateKeyKms` (Model/RotateKms.lean) is rotate.Key with keys/gcpkms underneath: every Cloud KMS client call
(CreateCryptoKeyVersion, every GetCryptoKeyVersion poll, GetPublicKey, AsymmetricSign,
DestroyCryptoKeyVersion) is a numbered fault position nested inside the manager / signer call that makes
it.  The theorems quantify over ALL fault scripts and ALL environments `env` (how many polls a new version
stays PENDING_GENERATION, what it turns into — ENABLED, DISABLED, DESTROYED, GENERATION_FAILED —, whether
the context expires during the wait, whether the AsymmetricSign response fails an integrity check).

What became of the hypotheses of the nonprod theorems: `BumpOK` (the new name differs from the current one
and is not empty) and the clause `broot` of `Inv` (the manager never hands out the root's name) are no
longer assumed — they follow from the naming scheme `<cryptoKey>/cryptoKeyVersions/<count+1>` and the
hygiene `KHyg` of the key service (no usable key carries a number the cryptoKey has not handed out), which
is part of `InvKms` and is PRESERVED by every run (`C10_kms_primary_live`); see `C10_kms_names_fresh`.
`Fresh` (two clauses: not the manifest, not the root certificate object) stays as `FreshKms`; the success
theorems need `UnclaimedKms` (the target object is not recorded for another key version), and
`C10_kms_collision_refused` is the other half; `cfg.ca = .gcsca` restricts to the shipped authority. -/

/-- **The naming scheme discharges `BumpOK` / `broot`.**  In a state satisfying the invariant the name the
    next CreateCryptoKeyVersion hands out is not the name of a usable key — in particular neither the
    recorded primary nor the root —, it is not empty, and it differs from every name handed out before
    (version numbers strictly increase, distinct numbers give distinct names). -/
theorem C10_kms_names_fresh (cfg : Cfg) (env : KmsEnv) (s : St) (hca : cfg.ca = .gcsca) (hi : InvKms cfg env s) :
    lookup s.keys (nextName env s) = none ∧ nextName env s ≠ primaryOf cfg s ∧ nextName env s ≠ "" ∧
    (∀ m r c p, InvG cfg.kmsView m r c p s → nextName env s ≠ m.root) ∧
    (∀ n, n ≤ s.kcount → verName env.parent n ≠ nextName env s) := by
  have hn := hi.2.next_not_live
  refine ⟨hn, ?_, verName_ne_empty _ _, ?_, ?_⟩
  · have h1 := hi.1
    unfold Inv at h1
    rw [show cfg.kmsView.ca = CAKind.gcsca from hca] at h1
    obtain ⟨m, r, c, p, h⟩ := h1
    unfold primaryOf
    rw [hca, h.man]
    intro e
    rw [e, h.kprim] at hn
    cases hn
  · intro m r c p h e
    rw [e, h.kroot] at hn
    cases hn
  · intro n hle e
    have := verName_inj _ _ _ e
    omega

/-- **Failure atomicity on the Cloud KMS stack.**  Whatever faults and crash the script injects into one
    rotation and whatever Cloud KMS does with the new version, the state that survives — reloaded through
    a fresh authority instance — satisfies the invariant again: the recorded primary is an ENABLED
    version, its certificate is stored, is for that key and verifies under the stored root; and the key
    service's hygiene holds again. -/
theorem C10_kms_primary_live (cfg : Cfg) (env : KmsEnv) (req : Req) (sc : Nat → Fault) (s : St)
    (hca : cfg.ca = .gcsca) (hi : InvKms cfg env s) (hf : FreshKms cfg env req s) :
    InvKms cfg env (rotateKeyKms cfg env req sc s.reload).state.reload := by
  have := rotateKms_run_facts cfg env req sc s hca hi hf
  rw [InvKms_reload]
  cases hr : rotateKeyKms cfg env req sc s.reload with
  | ok k s' => rw [hr] at this; exact this.1
  | err s' => rw [hr] at this; exact this.1.1
  | crash s' => rw [hr] at this; exact this.1.1

/-- … in the words of the property: endorsing keeps working with the recorded primary. -/
theorem C10_kms_primary_usable (cfg : Cfg) (env : KmsEnv) (req : Req) (sc : Nat → Fault) (s : St)
    (hca : cfg.ca = .gcsca) (hi : InvKms cfg env s) (hf : FreshKms cfg env req s) :
    PrimaryOK cfg (rotateKeyKms cfg env req sc s.reload).state.reload :=
  (C10_kms_primary_live cfg env req sc s hca hi hf).primaryOK

/-- **Destroy after commit, at both levels.**  In the call log of every run a DestroyKeyVersion that
    reached the manager, and a DestroyCryptoKeyVersion request that reached Cloud KMS, is preceded by the
    completed Close of the manifest object that records the new primary. -/
theorem C10_kms_destroy_after_commit (cfg : Cfg) (env : KmsEnv) (req : Req) (sc : Nat → Fault) (s : St)
    (hca : cfg.ca = .gcsca) (hi : InvKms cfg env s) (hf : FreshKms cfg env req s) :
    DAC cfg (rotateKeyKms cfg env req sc s.reload).state.log ∧
    DACK cfg (rotateKeyKms cfg env req sc s.reload).state.log := by
  have := rotateKms_run_facts cfg env req sc s hca hi hf
  cases hr : rotateKeyKms cfg env req sc s.reload with
  | ok k s' => rw [hr] at this; exact ⟨this.2.1, this.2.2.1⟩
  | err s' => rw [hr] at this; exact this.1.2
  | crash s' => rw [hr] at this; exact this.1.2

/-- … on the surviving state: the old primary can have stopped being usable (DESTROY_SCHEDULED) only if
    the stored manifest no longer names it. -/
theorem C10_kms_old_destroyed_only_if_replaced (cfg : Cfg) (env : KmsEnv) (req : Req) (sc : Nat → Fault) (s : St)
    (hca : cfg.ca = .gcsca) (hi : InvKms cfg env s) (hf : FreshKms cfg env req s)
    (hgone : lookup (rotateKeyKms cfg env req sc s.reload).state.keys (primaryOf cfg s) = none) :
    primaryOf cfg (rotateKeyKms cfg env req sc s.reload).state ≠ primaryOf cfg s := by
  have h := C10_kms_primary_usable cfg env req sc s hca hi hf
  unfold PrimaryOK at h
  rw [hca] at h
  obtain ⟨m, r, c, path, h1, _, _, _, h5, _⟩ := h
  intro e
  have hp : primaryOf cfg (rotateKeyKms cfg env req sc s.reload).state = m.signing := by
    unfold primaryOf
    rw [hca]
    have h1' : lookup (rotateKeyKms cfg env req sc s.reload).state.store manifestName = some (.manifest m) := h1
    rw [h1']
  rw [← e, hp] at hgone
  have h5' : lookup (rotateKeyKms cfg env req sc s.reload).state.keys m.signing = some c.pub := h5
  rw [h5'] at hgone
  cases hgone

/-- **A rotation that reports success has retired the old version**: whatever the script and the
    environment, when rotate.Key returns normally the previous primary is no longer usable and is
    DESTROY_SCHEDULED, the returned name is the next version name, and it is the recorded primary. -/
theorem C10_kms_success_retires_old (cfg : Cfg) (env : KmsEnv) (req : Req) (sc : Nat → Fault) (s : St)
    (hca : cfg.ca = .gcsca) (hi : InvKms cfg env s) (hf : FreshKms cfg env req s)
    (k : String) (s' : St) (hr : rotateKeyKms cfg env req sc s.reload = .ok k s') :
    k = nextName env s ∧ primaryOf cfg s' = k ∧ lookup s'.keys (primaryOf cfg s) = none ∧
    lookup s'.kdead (primaryOf cfg s) = some .scheduled := by
  have := rotateKms_run_facts cfg env req sc s hca hi hf
  rw [hr] at this
  exact ⟨this.2.2.2.2.1, this.2.2.2.1, this.2.2.2.2.2.1, this.2.2.2.2.2.2.1⟩

/-- a fault-free rotation with overwrite allowed in a benign environment (any generation countdown)
    succeeds from any good state and returns the next version name -/
theorem C10_kms_fault_free_succeeds (cfg : Cfg) (env : KmsEnv) (req : Req) (s : St) (how : cfg.overwrite = true)
    (hben : env.benign = true) (hca : cfg.ca = .gcsca) (hi : InvKms cfg env s) (hf : FreshKms cfg env req s)
    (hu : UnclaimedKms cfg env req s) :
    ∃ k s', rotateKeyKms cfg env req noFault s.reload = .ok k s' ∧ InvKms cfg env s'.reload ∧
      primaryOf cfg s' = k ∧ k = nextName env s := by
  have := rotateKms_run_facts cfg env req noFault s hca hi hf
  cases hr : rotateKeyKms cfg env req noFault s.reload with
  | ok k s' =>
    rw [hr] at this
    exact ⟨k, s', rfl, (InvKms_reload cfg env s').mpr this.1, this.2.2.2.1, this.2.2.2.2.1⟩
  | err s' =>
    rw [hr] at this
    rcases this.2 with h | h | h | h
    · exact absurd noFault_noFault h
    · rw [how] at h; cases h
    · exact absurd h (not_claimed_of_unclaimed hu)
    · rw [hben] at h; cases h
  | crash s' =>
    rw [hr] at this
    exact absurd noFault_noFault this.2

/-- **Retry succeeds.**  After a rotation that was hit by any faults in any environment — leaving, e.g., a
    PENDING_GENERATION, DISABLED or unreferenced ENABLED version behind —, a later fault-free rotation in
    a benign environment that is allowed to overwrite succeeds, returns a version name that did not exist
    before, records it as primary, and the invariant holds again. -/
theorem C10_kms_retry_succeeds (cfg : Cfg) (env env' : KmsEnv) (req req' : Req) (sc : Nat → Fault) (s : St)
    (hpar : env'.parent = env.parent) (hben : env'.benign = true)
    (hca : cfg.ca = .gcsca) (hi : InvKms cfg env s) (hf : FreshKms cfg env req s)
    (hf' : FreshKms cfg.allowOverwrite env' req' (rotateKeyKms cfg env req sc s.reload).state.reload)
    (hu' : UnclaimedKms cfg.allowOverwrite env' req' (rotateKeyKms cfg env req sc s.reload).state.reload) :
    ∃ k s', rotateKeyKms cfg.allowOverwrite env' req' noFault (rotateKeyKms cfg env req sc s.reload).state.reload = .ok k s' ∧
      InvKms cfg env' s'.reload ∧ primaryOf cfg s' = k ∧
      k = nextName env' (rotateKeyKms cfg env req sc s.reload).state.reload := by
  have h1 := C10_kms_primary_live cfg env req sc s hca hi hf
  have h1' : InvKms cfg.allowOverwrite env' (rotateKeyKms cfg env req sc s.reload).state.reload := by
    refine (InvKms_allowOverwrite cfg env' _).mpr ⟨h1.1, ?_⟩
    intro n hn
    have := h1.2 n hn
    rw [hpar]; exact this
  obtain ⟨k, s', hr, hinv, hp, hk⟩ := C10_kms_fault_free_succeeds cfg.allowOverwrite env' req' _ rfl hben hca h1' hf' hu'
  refine ⟨k, s', ?_, (InvKms_allowOverwrite cfg env' _).mp hinv, hp, hk⟩
  have : (rotateKeyKms cfg env req sc s.reload).state.reload.reload = (rotateKeyKms cfg env req sc s.reload).state.reload := rfl
  rw [this] at hr
  exact hr

/-- **A colliding request is refused, atomically, on the Cloud KMS stack.** -/
theorem C10_kms_collision_refused (cfg : Cfg) (env : KmsEnv) (req : Req) (sc : Nat → Fault) (s : St)
    (hca : cfg.ca = .gcsca) (hi : InvKms cfg env s) (hf : FreshKms cfg env req s) (hc : ClaimedKms cfg env req s) :
    (∀ k s', rotateKeyKms cfg env req sc s.reload ≠ .ok k s') ∧
    InvKms cfg env (rotateKeyKms cfg env req sc s.reload).state.reload := by
  refine ⟨?_, C10_kms_primary_live cfg env req sc s hca hi hf⟩
  intro k s' hr
  have := rotateKms_run_facts cfg env req sc s hca hi hf
  rw [hr] at this
  exact this.2.2.2.2.2.2.2 hc

/-- `FreshKms` / `UnclaimedKms` in the usual situation: the stored manifest does not list the next version
    name (Cloud KMS has never handed it out), so the certificate goes to `<certDir><cn>-<serial>.crt`; that
    object must not be the manifest or the root certificate object (`FreshKms`), and for the rotation to
    succeed no entry of the manifest may name it (`UnclaimedKms`; with the CLI's default serial it is new
    or a leftover). -/
theorem C10_kms_fresh_of_unlisted (cfg : Cfg) (env : KmsEnv) (req : Req) (s : St) (hca : cfg.ca = .gcsca)
    (h : ∀ m, lookup s.store manifestName = some (.manifest m) →
      lookup m.entries (nextName env s) = none ∧ objName cfg req ≠ manifestName ∧ objName cfg req ≠ cfg.rootPath ∧
      ∀ e ∈ m.entries, e.2 ≠ objName cfg req) :
    FreshKms cfg env req s ∧ UnclaimedKms cfg env req s := by
  unfold FreshKms UnclaimedKms Fresh Unclaimed
  rw [show (cfg.withNew (nextName env s)).ca = CAKind.gcsca from hca]
  have ht : ∀ m, lookup m.entries (nextName env s) = none → target (cfg.withNew (nextName env s)) req m = objName cfg req := by
    intro m h1
    unfold target
    show (lookup m.entries (nextName env s)).getD _ = _
    rw [h1]; rfl
  constructor
  · intro m hm
    obtain ⟨h1, h2, h3, _⟩ := h m hm
    rw [ht m h1]
    exact ⟨h2, h3⟩
  · intro m hm
    obtain ⟨h1, _, _, h4⟩ := h m hm
    unfold claimed
    rw [ht m h1]
    unfold heldByOther
    cases hany : m.entries.any fun e => e.2 == objName cfg req && e.1 != (cfg.withNew (nextName env s)).bump m.signing with
    | false => rfl
    | true =>
      rw [List.any_eq_true] at hany
      obtain ⟨e, he, hc⟩ := hany
      simp only [Bool.and_eq_true, beq_iff_eq] at hc
      exact absurd hc.1 (h4 e he)

/-! ### the order matters on this stack too -/

/-- a good durable state of the Cloud KMS stack: root key "root" (material 0), signing cryptoKey "sk" with
    its first version ENABLED (material 1) and certified as sigcn-2, as left by a bootstrap -/
def demoK : St :=
  { St.init with
    keys := [("sk/cryptoKeyVersions/1", 1), ("root", 0)], nextMat := 2, kcount := 1,
    store := [(manifestName, .manifest ⟨[("root", "certs/rootcn-1.crt"), ("sk/cryptoKeyVersions/1", "certs/sigcn-2.crt")],
                "root", "sk/cryptoKeyVersions/1"⟩),
              ("root.crt", .pem ⟨"rootcn", 1, 0, 0⟩),
              ("certs/sigcn-2.crt", .der ⟨"sigcn", 2, 1, 0⟩),
              ("certs/rootcn-1.crt", .der ⟨"rootcn", 1, 0, 0⟩)] }

def demoEnv : KmsEnv := { parent := "sk" }

theorem demoK_inv : InvKms (demoCfg .gcsca) demoEnv demoK := by
  refine ⟨?_, ?_⟩
  · refine ⟨⟨[("root", "certs/rootcn-1.crt"), ("sk/cryptoKeyVersions/1", "certs/sigcn-2.crt")], "root", "sk/cryptoKeyVersions/1"⟩,
      ⟨"rootcn", 1, 0, 0⟩, ⟨"sigcn", 2, 1, 0⟩, "certs/sigcn-2.crt", ?_⟩
    exact ⟨by decide, by decide, by decide, by decide, by decide, by decide, by decide, by decide, by decide,
      by decide, by decide, by decide, fun _ => by show ("" : String) ≠ "root"; decide⟩
  · intro n hn
    have hn' : 1 < n := hn
    show lookup [("sk/cryptoKeyVersions/1", 1), ("root", 0)] (verName "sk" n) = none
    have h1 : "sk/cryptoKeyVersions/1" ≠ verName "sk" n := by
      intro e
      have : verName "sk" 1 = verName "sk" n := e
      have := verName_inj _ _ _ this
      omega
    have h2 : "root" ≠ verName "sk" n := by
      intro e
      have hl := congrArg String.toList e
      unfold verName at hl
      simp only [String.toList_append] at hl
      have h1 : "root".toList = ['r', 'o', 'o', 't'] := by decide
      have h2 : "sk".toList = ['s', 'k'] := by decide
      rw [h1, h2] at hl
      simp at hl
    simp [lookup, h1, h2]

theorem demoK_fresh_unclaimed :
    FreshKms (demoCfg .gcsca) demoEnv ⟨"sig", 3⟩ demoK ∧ UnclaimedKms (demoCfg .gcsca) demoEnv ⟨"sig", 3⟩ demoK := by
  refine C10_kms_fresh_of_unlisted _ _ _ _ rfl ?_
  intro m hm
  have : m = ⟨[("root", "certs/rootcn-1.crt"), ("sk/cryptoKeyVersions/1", "certs/sigcn-2.crt")], "root", "sk/cryptoKeyVersions/1"⟩ := by
    have h : lookup demoK.store manifestName =
        some (.manifest ⟨[("root", "certs/rootcn-1.crt"), ("sk/cryptoKeyVersions/1", "certs/sigcn-2.crt")], "root", "sk/cryptoKeyVersions/1"⟩) := by decide
    rw [h] at hm
    injection hm with hm
    injection hm with hm
    exact hm.symm
  subst this
  refine ⟨by decide, by decide, by decide, ?_⟩
  intro e he
  simp only [List.mem_cons, List.mem_nil_iff, or_false] at he
  rcases he with he | he <;> (rw [he]; decide)

theorem demoK_fresh : FreshKms (demoCfg .gcsca) demoEnv ⟨"sig", 3⟩ demoK := demoK_fresh_unclaimed.1

/-- **Destroying before Finalize breaks the invariant on the Cloud KMS stack**: with the destroy request
    moved in front of Finalize, ONE failed storage call (position 27: Close of the manifest object) leaves
    the stored manifest naming a version that is already DESTROY_SCHEDULED — from a state that satisfies
    every hypothesis of `C10_kms_primary_live`. -/
theorem C10_kms_early_destroy_breaks :
    InvKms (demoCfg .gcsca) demoEnv demoK ∧ FreshKms (demoCfg .gcsca) demoEnv ⟨"sig", 3⟩ demoK ∧
    ¬ PrimaryOK (demoCfg .gcsca)
      (rotateKeyKmsEarlyDestroy (demoCfg .gcsca) demoEnv ⟨"sig", 3⟩ (failAt 27) demoK.reload).state.reload := by
  refine ⟨demoK_inv, demoK_fresh, ?_⟩
  intro h
  have := primaryOKb_of _ _ h
  revert this
  decide

/-! ### what the response of CreateCryptoKeyVersion says, and what state a version is created in

All theorems above quantify over `env.created` (the version is created PENDING_GENERATION, or directly ENABLED,
DISABLED, GENERATION_FAILED), `env.resp` (what state the response reports, truthfully or not) and
`env.pubDisabled` (whether GetPublicKey answers for a DISABLED version).  They hold because
CreateNewSigningKeyVersion never reads the response's state and always polls: -/

/-- **The response's state is ignored.**  Whatever state CreateCryptoKeyVersion's response reports, every run
    of the rotation (same script, same start state) is the same: only what the polls report matters. -/
theorem C10_kms_create_response_ignored (cfg : Cfg) (env : KmsEnv) (o : Option KObs) (req : Req)
    (sc : Nat → Fault) (s : St) :
    rotateKeyKms cfg { env with resp := o } req sc s = rotateKeyKms cfg env req sc s := by
  rw [rotateKeyKms_resp]

/-- The changed rotation (skip the wait unless the response says PENDING_GENERATION) is the shipped one for
    as long as responses do say PENDING_GENERATION — which is why no test with such a service sees it. -/
theorem C10_kms_trust_response_same_when_pending (cfg : Cfg) (env : KmsEnv) (req : Req) (h : env.respObs = .pending) :
    rotateKeyKmsTrustResponse cfg env req = rotateKeyKms cfg env req := by
  unfold rotateKeyKmsTrustResponse rotateKeyKms
  rw [kmCreateKTrust_pending env h]

/-- Cloud KMS creates versions DISABLED (with key material: GetPublicKey answers) and says so in the response -/
def demoEnvDisabled : KmsEnv := { parent := "sk", created := .disabled, pubDisabled := some 7 }

/-- **Trusting the response breaks the property.**  From a state that satisfies every hypothesis of
    `C10_kms_primary_live`, with NO fault at all: a version created DISABLED whose public key is retrievable
    is certified and recorded as primary without ever having been seen ENABLED, the rotation reports
    success, the old primary is DESTROY_SCHEDULED, and the recorded primary is not a usable key — whereas
    the shipped rotation stops at the first poll with nothing changed. -/
theorem C10_kms_trust_response_breaks :
    InvKms (demoCfg .gcsca) demoEnvDisabled demoK ∧ FreshKms (demoCfg .gcsca) demoEnvDisabled ⟨"sig", 3⟩ demoK ∧
    (let r := rotateKeyKmsTrustResponse (demoCfg .gcsca) demoEnvDisabled ⟨"sig", 3⟩ noFault demoK.reload
     r.tag = "ok" ∧ primaryOf (demoCfg .gcsca) r.state = "sk/cryptoKeyVersions/2" ∧
     lookup r.state.keys "sk/cryptoKeyVersions/2" = none ∧
     lookup r.state.kdead "sk/cryptoKeyVersions/2" = some .disabled ∧
     lookup r.state.keys "sk/cryptoKeyVersions/1" = none ∧
     lookup r.state.kdead "sk/cryptoKeyVersions/1" = some .scheduled ∧
     ¬ PrimaryOK (demoCfg .gcsca) r.state.reload) ∧
    (let r := rotateKeyKms (demoCfg .gcsca) demoEnvDisabled ⟨"sig", 3⟩ noFault demoK.reload
     r.tag = "err" ∧ r.state.log.length = 3 ∧ primaryOf (demoCfg .gcsca) r.state = "sk/cryptoKeyVersions/1" ∧
     lookup r.state.keys "sk/cryptoKeyVersions/1" = some 1) := by
  refine ⟨demoK_inv, demoK_fresh, ⟨by decide, by decide, by decide, by decide, by decide, by decide, ?_⟩, by decide⟩
  intro h
  have := primaryOKb_of _ _ h
  revert this
  decide

/-! ### non-vacuity (Cloud KMS stack) -/

/-- Non-vacuity of `C10_kms_primary_live` / `C10_kms_destroy_after_commit`: the hypotheses hold for `demoK`
    (`demoK_inv`, `demoK_fresh`); the rotation under the single fault that breaks the early-destroy order
    (Close of the manifest fails: position 25 here) ends in an error with BOTH versions ENABLED, the old
    one still recorded, no destroy call in the log; a failed poll (position 2) leaves version 2
    PENDING_GENERATION and the fault-free retry hands out version 3, never reusing the leftover's name. -/
example :
    let r := rotateKeyKms (demoCfg .gcsca) demoEnv ⟨"sig", 3⟩ (failAt 25) demoK.reload
    r.tag = "err" ∧ lookup r.state.keys "sk/cryptoKeyVersions/1" = some 1 ∧
    lookup r.state.keys "sk/cryptoKeyVersions/2" = some 2 ∧
    primaryOf (demoCfg .gcsca) r.state = "sk/cryptoKeyVersions/1" ∧ primaryOKb (demoCfg .gcsca) r.state.reload = true ∧
    r.state.log.length = 26 := by
  decide

example :
    let r := rotateKeyKms (demoCfg .gcsca) { demoEnv with gen := 1 } ⟨"sig", 3⟩ (failAt 2) demoK.reload
    let r2 := rotateKeyKms (demoCfg .gcsca).allowOverwrite demoEnv ⟨"sig", 3⟩ noFault r.state.reload
    r.tag = "err" ∧ lookup r.state.kdead "sk/cryptoKeyVersions/2" = some (.pending 1) ∧ r.state.kcount = 2 ∧
    r2.tag = "ok" ∧ primaryOf (demoCfg .gcsca) r2.state = "sk/cryptoKeyVersions/3" ∧
    lookup r2.state.keys "sk/cryptoKeyVersions/1" = none ∧
    lookup r2.state.kdead "sk/cryptoKeyVersions/1" = some .scheduled ∧
    lookup r2.state.kdead "sk/cryptoKeyVersions/2" = some (.pending 1) ∧
    primaryOKb (demoCfg .gcsca) r2.state.reload = true := by
  decide

/-- … a destroy request that fails after the commit (position 27) leaves the OLD version ENABLED beside the
    new primary — allowed by the property (destroyed ONLY after, not necessarily); a corrupted AsymmetricSign
    response and a version that ends up DISABLED stop the rotation before anything durable changed. -/
example :
    let r := rotateKeyKms (demoCfg .gcsca) demoEnv ⟨"sig", 3⟩ (failAt 27) demoK.reload
    r.tag = "err" ∧ primaryOf (demoCfg .gcsca) r.state = "sk/cryptoKeyVersions/2" ∧
    lookup r.state.keys "sk/cryptoKeyVersions/1" = some 1 ∧ primaryOKb (demoCfg .gcsca) r.state.reload = true := by
  decide

example :
    let r := rotateKeyKms (demoCfg .gcsca) { demoEnv with corrupt := true } ⟨"sig", 3⟩ noFault demoK.reload
    let r' := rotateKeyKms (demoCfg .gcsca) { demoEnv with final := some .disabled } ⟨"sig", 3⟩ noFault demoK.reload
    r.tag = "err" ∧ r.state.log.length = 16 ∧ primaryOKb (demoCfg .gcsca) r.state.reload = true ∧
    r'.tag = "err" ∧ r'.state.log.length = 3 ∧ lookup r'.state.kdead "sk/cryptoKeyVersions/2" = some .disabled ∧
    primaryOKb (demoCfg .gcsca) r'.state.reload = true := by
  decide

/-- … versions created without a generation phase: created ENABLED, the rotation succeeds after one poll (28
    calls like gen = 0); a crash right after CreateCryptoKeyVersion (position 1) then leaves version 2 ENABLED
    and unreferenced, the recorded primary untouched, and the retry hands out version 3; created DISABLED or
    GENERATION_FAILED, the first poll stops the rotation (3 calls) with the version left as created — also
    when the response claims ENABLED. -/
example :
    let r := rotateKeyKms (demoCfg .gcsca) { demoEnv with created := .enabled } ⟨"sig", 3⟩ noFault demoK.reload
    let c := rotateKeyKms (demoCfg .gcsca) { demoEnv with created := .enabled } ⟨"sig", 3⟩ (crashAt 1) demoK.reload
    let c2 := rotateKeyKms (demoCfg .gcsca).allowOverwrite demoEnv ⟨"sig", 3⟩ noFault c.state.reload
    let d := rotateKeyKms (demoCfg .gcsca) { demoEnv with created := .disabled, resp := some .enabled } ⟨"sig", 3⟩ noFault demoK.reload
    let g := rotateKeyKms (demoCfg .gcsca) { demoEnv with created := .genFailed } ⟨"sig", 3⟩ noFault demoK.reload
    r.tag = "ok" ∧ r.state.log.length = 28 ∧ primaryOKb (demoCfg .gcsca) r.state.reload = true ∧
    c.tag = "crash" ∧ c.state.log.length = 2 ∧ lookup c.state.keys "sk/cryptoKeyVersions/2" = some 2 ∧
    primaryOf (demoCfg .gcsca) c.state = "sk/cryptoKeyVersions/1" ∧ primaryOKb (demoCfg .gcsca) c.state.reload = true ∧
    c2.tag = "ok" ∧ primaryOf (demoCfg .gcsca) c2.state = "sk/cryptoKeyVersions/3" ∧
    d.tag = "err" ∧ d.state.log.length = 3 ∧ lookup d.state.kdead "sk/cryptoKeyVersions/2" = some .disabled ∧
    g.tag = "err" ∧ g.state.log.length = 3 ∧ lookup g.state.kdead "sk/cryptoKeyVersions/2" = some .genFailed ∧
    primaryOKb (demoCfg .gcsca) g.state.reload = true := by
  decide

/-- … the role of `pubDisabled` and of a response that misreports: when GetPublicKey refuses DISABLED versions the
    changed rotation fails at the subject's public key (4 calls) with nothing durable changed; a response that
    claims ENABLED for a version that is still PENDING_GENERATION makes the changed rotation fail where the
    shipped one (which polls) succeeds. -/
example :
    let t := rotateKeyKmsTrustResponse (demoCfg .gcsca) { demoEnvDisabled with pubDisabled := none } ⟨"sig", 3⟩ noFault demoK.reload
    let l := rotateKeyKmsTrustResponse (demoCfg .gcsca) { demoEnv with gen := 1, resp := some .enabled } ⟨"sig", 3⟩ noFault demoK.reload
    let g := rotateKeyKms (demoCfg .gcsca) { demoEnv with gen := 1, resp := some .enabled } ⟨"sig", 3⟩ noFault demoK.reload
    t.tag = "err" ∧ primaryOKb (demoCfg .gcsca) t.state.reload = true ∧ lookup t.state.keys "sk/cryptoKeyVersions/1" = some 1 ∧
    l.tag = "err" ∧ lookup l.state.kdead "sk/cryptoKeyVersions/2" = some (.pending 1) ∧
    g.tag = "ok" ∧ primaryOf (demoCfg .gcsca) g.state = "sk/cryptoKeyVersions/2" ∧ primaryOKb (demoCfg .gcsca) g.state.reload = true := by
  decide

end GceTcb.CA
