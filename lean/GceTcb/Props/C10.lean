import GceTcb.Proofs.RotateFinal
/-
C10 — Signing-key rotation is failure-atomic.
Property theorems only (the program logic and the step specifications live in Proofs/Hoare.lean,
Proofs/RotateDefs.lean, Proofs/RotateGcs.lean, Proofs/RotateMem.lean).

The model (Model/CA.lean, Model/Rotate.lean) is the rotation of rotate/rotate.go AFTER the "fix:" commit
(steps in sequence, stop at the first error, destroy the old key after Finalize).  Every theorem
quantifies over ALL fault scripts `sc : Nat → Fault` (any number of failed calls and a crash at any
call), both authorities (`cfg.ca`), both key managers (`cfg.km`), every number of public-key calls the
X.509 library makes (`cfg.pubPre`, `cfg.pubPost`) and every starting state satisfying the invariant.

Hypotheses (all explicit): `BumpOK cfg` — the key manager hands out a name that differs from the current
one and is not empty; `Inv cfg s` — the invariant (PrimaryOK + the root key is live and matches the
stored root certificate + name hygiene); `Fresh cfg req s` — the object the new certificate is written
to is not the manifest, the root certificate or the primary's certificate.  Runs start from
`s.reload`: a fresh authority instance (no cached manifest) and an empty call log.
-/
namespace GceTcb.CA

/-- **Failure atomicity.**  Whatever faults and crash the script injects into one rotation, the state that
    survives — reloaded through a fresh authority instance — satisfies the invariant again: the recorded
    primary signing key is live, its certificate is stored, is for that key and verifies under the stored
    root. -/
theorem C10_primary_live (cfg : Cfg) (req : Req) (sc : Nat → Fault) (s : St)
    (hb : BumpOK cfg) (hi : Inv cfg s) (hf : Fresh cfg req s) :
    Inv cfg (rotateKey cfg req sc s.reload).state.reload := by
  have := rotate_run_facts cfg req sc s hb hi hf
  rw [Inv_reload]
  cases hr : rotateKey cfg req sc s.reload with
  | ok k s' => rw [hr] at this; exact this.1
  | err s' => rw [hr] at this; exact this.1.1
  | crash s' => rw [hr] at this; exact this.1.1

/-- … in the words of the property: endorsing keeps working with the recorded primary. -/
theorem C10_primary_usable (cfg : Cfg) (req : Req) (sc : Nat → Fault) (s : St)
    (hb : BumpOK cfg) (hi : Inv cfg s) (hf : Fresh cfg req s) :
    PrimaryOK cfg (rotateKey cfg req sc s.reload).state.reload :=
  (C10_primary_live cfg req sc s hb hi hf).primaryOK

/-- **Destroy after commit.**  In the call log of every run, a DestroyKeyVersion that reached the key
    manager is preceded by the completed call that makes the new primary durable (gcsca: Close of the
    manifest object; memca: Finalize). -/
theorem C10_destroy_after_commit (cfg : Cfg) (req : Req) (sc : Nat → Fault) (s : St)
    (hb : BumpOK cfg) (hi : Inv cfg s) (hf : Fresh cfg req s) :
    DAC cfg (rotateKey cfg req sc s.reload).state.log := by
  have := rotate_run_facts cfg req sc s hb hi hf
  cases hr : rotateKey cfg req sc s.reload with
  | ok k s' => rw [hr] at this; exact this.2.1
  | err s' => rw [hr] at this; exact this.1.2
  | crash s' => rw [hr] at this; exact this.1.2

/-- a fault-free rotation with overwrite allowed succeeds from any good state -/
theorem C10_fault_free_succeeds (cfg : Cfg) (req : Req) (s : St) (how : cfg.overwrite = true)
    (hb : BumpOK cfg) (hi : Inv cfg s) (hf : Fresh cfg req s) :
    ∃ k s', rotateKey cfg req noFault s.reload = .ok k s' ∧ Inv cfg s'.reload ∧
      primaryOf cfg s' = k ∧ k = cfg.bump (primaryOf cfg s) := by
  have := rotate_run_facts cfg req noFault s hb hi hf
  cases hr : rotateKey cfg req noFault s.reload with
  | ok k s' =>
    rw [hr] at this
    exact ⟨k, s', rfl, (Inv_reload cfg s').mpr this.1, this.2.2.1, this.2.2.2⟩
  | err s' =>
    rw [hr] at this
    rcases this.2 with h | h
    · exact absurd noFault_noFault h
    · rw [how] at h; cases h
  | crash s' =>
    rw [hr] at this
    exact absurd noFault_noFault this.2

/-- **Retry succeeds.**  After a rotation that was hit by any faults, a later fault-free rotation that is
    allowed to overwrite succeeds (for every request whose target object is fresh in the surviving state,
    in particular the same request when the failed attempt did not commit — `C10_retry_same_request`),
    the key it returns is recorded as primary, and the invariant holds again. -/
theorem C10_retry_succeeds (cfg : Cfg) (req req' : Req) (sc : Nat → Fault) (s : St)
    (hb : BumpOK cfg) (hi : Inv cfg s) (hf : Fresh cfg req s)
    (hf' : Fresh cfg.allowOverwrite req' (rotateKey cfg req sc s.reload).state.reload) :
    ∃ k s', rotateKey cfg.allowOverwrite req' noFault (rotateKey cfg req sc s.reload).state.reload = .ok k s' ∧
      Inv cfg s'.reload ∧ primaryOf cfg s' = k ∧
      k = cfg.bump (primaryOf cfg (rotateKey cfg req sc s.reload).state.reload) := by
  have h1 := C10_primary_live cfg req sc s hb hi hf
  have h1' := (Inv_allowOverwrite cfg _).mpr h1
  obtain ⟨k, s', hr, hinv, hp, hk⟩ := C10_fault_free_succeeds cfg.allowOverwrite req' _ rfl hb h1' hf'
  refine ⟨k, s', ?_, (Inv_allowOverwrite cfg _).mp hinv, hp, hk⟩
  have : (rotateKey cfg req sc s.reload).state.reload.reload = (rotateKey cfg req sc s.reload).state.reload := rfl
  rw [this] at hr
  exact hr

/-- `Fresh` only looks at the stored manifest: a failed attempt that did not change the stored manifest
    leaves the same request admissible for the retry (its leftover object is overwritten). -/
theorem C10_retry_same_request (cfg : Cfg) (req : Req) (s s1 : St) (hf : Fresh cfg req s)
    (hsame : lookup s1.store manifestName = lookup s.store manifestName) :
    Fresh cfg.allowOverwrite req s1 := by
  unfold Fresh Cfg.allowOverwrite at *
  cases hca : cfg.ca with
  | memca => simp
  | gcsca =>
    simp only [hca] at hf ⊢
    intro m hm
    rw [hsame] at hm
    exact hf m hm

/-! ### the order matters: the rotation as it was before the fix -/

/-- **The old order breaks the invariant** (memca): with the steps evaluated as arguments of one
    error-combining call, ONE failed signing call (position 10: `Signer.Sign` with the root key) leaves
    an uncertified key recorded as primary and the old key destroyed — from a state that satisfies every
    hypothesis of `C10_primary_live`. -/
theorem C10_old_order_breaks :
    Inv (demoCfg .memca) demoM ∧ Fresh (demoCfg .memca) ⟨"sig", 3⟩ demoM ∧ BumpOK (demoCfg .memca) ∧
    ¬ PrimaryOK (demoCfg .memca) (rotateKeyOld (demoCfg .memca) ⟨"sig", 3⟩ (failAt 10) demoM.reload).state.reload := by
  refine ⟨demoM_inv, trivial, demoBump_ok .memca, ?_⟩
  intro h
  have := primaryOKb_of _ _ h
  revert this
  decide

/-- … and on the deferred authority ONE failed storage call (position 22: Close of the manifest object)
    leaves the stored manifest naming a key that has already been destroyed. -/
theorem C10_old_order_breaks_gcsca :
    Inv (demoCfg .gcsca) demoG ∧ Fresh (demoCfg .gcsca) ⟨"sig", 3⟩ demoG ∧ BumpOK (demoCfg .gcsca) ∧
    ¬ PrimaryOK (demoCfg .gcsca) (rotateKeyOld (demoCfg .gcsca) ⟨"sig", 3⟩ (failAt 22) demoG.reload).state.reload := by
  refine ⟨demoG_inv, demoG_fresh, demoBump_ok .gcsca, ?_⟩
  intro h
  have := primaryOKb_of _ _ h
  revert this
  decide

/-! ### non-vacuity -/

/-- Non-vacuity of `C10_primary_live` / `C10_destroy_after_commit`: the hypotheses hold for `demoG`
    (`demoG_inv`, `demoG_fresh`, `demoBump_ok`), and the fixed rotation under the same single fault that
    breaks the old order (Close of the manifest fails) ends in an error with BOTH keys live, the leftover
    certificate object written, the old key still recorded as primary, and no destroy call in the log;
    a crash right after the manifest's Close leaves the NEW key recorded and both keys live. -/
example :
    let r := rotateKey (demoCfg .gcsca) ⟨"sig", 3⟩ (failAt 22) demoG.reload
    r.tag = "err" ∧ lookup r.state.keys "sk" = some 1 ∧ lookup r.state.keys "sk_n" = some 2 ∧
    (lookup r.state.store "certs/sig-3.crt").isSome = true ∧
    primaryOf (demoCfg .gcsca) r.state = "sk" ∧ primaryOKb (demoCfg .gcsca) r.state.reload = true ∧
    r.state.log.length = 23 := by
  decide

example :
    let r := rotateKey (demoCfg .gcsca) ⟨"sig", 3⟩ (crashAt 22) demoG.reload
    r.tag = "crash" ∧ lookup r.state.keys "sk" = some 1 ∧ lookup r.state.keys "sk_n" = some 2 ∧
    primaryOf (demoCfg .gcsca) r.state = "sk_n" ∧ primaryOKb (demoCfg .gcsca) r.state.reload = true := by
  decide

/-- Non-vacuity of `C10_retry_succeeds`: after the failed attempt above the SAME request is fresh again
    (`C10_retry_same_request` applies: the stored manifest is unchanged), and the fault-free retry with
    overwrite returns the new key, which is then the recorded primary; the old key is gone. -/
example :
    let s1 := (rotateKey (demoCfg .gcsca) ⟨"sig", 3⟩ (failAt 22) demoG.reload).state.reload
    let r2 := rotateKey (demoCfg .gcsca).allowOverwrite ⟨"sig", 3⟩ noFault s1
    lookup s1.store manifestName = lookup demoG.store manifestName ∧
    r2.tag = "ok" ∧ primaryOf (demoCfg .gcsca) r2.state = "sk_n" ∧ lookup r2.state.keys "sk" = none ∧
    primaryOKb (demoCfg .gcsca) r2.state.reload = true := by
  decide

/-- … and on the immediate authority, with two faults in one run (a swallowed failure of the template's
    certificate read, then a crash after DestroyKeyVersion). -/
example :
    let sc : Nat → Fault := fun i => if i = 7 then .fail else if i = 13 then .crash else .ok
    let r := rotateKey (demoCfg .memca) ⟨"sig", 3⟩ sc demoM.reload
    r.tag = "crash" ∧ primaryOf (demoCfg .memca) r.state = "sk_n" ∧ lookup r.state.keys "sk" = none ∧
    primaryOKb (demoCfg .memca) r.state.reload = true ∧ r.state.log.length = 14 := by
  decide

end GceTcb.CA
