import GceTcb.Proofs.Extract
import GceTcb.Proofs.ExtractLocal
import GceTcb.Proofs.ExtractPath
import GceTcb.Proofs.Sp800155
/-
C16 — Endorsement discovery is deterministic, local-first and confined.
Property theorems only (helper lemmas: Proofs/Extract*.lean, Proofs/Sp800155.lean; model:
Model/Extract.lean, Model/Sp800155.lean; the property's own wording: Spec/Extract.lean).

The model describes the code WITH the two fix commits of this property (D10, D17); the witnesses
`C16_old_*` are about the previous object-name logic.  One deviation from the property text remains in
the code (a URI locator in the event log is fetched verbatim, and before the attestation's
certificate-table entry is looked at): the full statements are kept as `def`s, refuted by
`C16_finding_D19` / `C16_finding_D19b`, and the proved `_partial` theorems name the excluded case.
-/
namespace GceTcb.Extract
open GceTcb GceTcb.Sp800155 GceTcb.Spec.Extract

/-! ## Names: the regenerated constants are the specified ones -/

/-- Obligation over `Gen.Names` (rewritten from the source on every run): base URL, bucket, family
    prefixes, technology segments, extension, locator enum and precedence, measurement sizes, the
    Google variable GUID / name and the manufacturer are what the property names. -/
theorem C16_constants_as_specified :
    Gen.Names.gcsBaseURL = baseURL ∧ Gen.Names.bucket = bucket ∧
    Gen.Names.familyPrefixKnown = family ∧ Gen.Names.tdxFamilyPrefix = family ∧
    Gen.Names.familyPrefixUnknown = unknownFamily ∧
    Gen.Names.sevTech = sevTech ∧ Gen.Names.tdxTech = tdxTech ∧
    Gen.Names.sevExt = ext ∧ Gen.Names.tdxExt = ext ∧
    Gen.Names.knownFamilyIDs = [Gen.Names.gceUefiFamilyID, Gen.Names.gceFwCertGUID] ∧
    Gen.Names.sevMeasurementSize = measurementSize ∧ Gen.Names.tdxMrTdSize = measurementSize ∧
    Gen.Names.rimLocationRaw = locRaw ∧ Gen.Names.rimLocationURI = locURI ∧
    Gen.Names.rimLocationLocal = locLocal ∧ Gen.Names.rimLocationVariable = locVariable ∧
    Gen.Names.evNoAction = evNoAction ∧ Gen.Names.locatorPrecedence = precedence ∧
    Gen.Names.googleEfiVariable = googleVariableGUID ∧ Gen.Names.sp800155Variable = rimVariableName ∧
    Gen.Names.eventFirmwareManufacturerStr = manufacturer ∧ Gen.Names.gceFirmwareManufacturerBytes = manufacturer ∧
    Gen.Names.uriEventPrefix = family ∧ Gen.Names.uriEventExt = signedFirmwareExt :=
  ⟨rfl, rfl, rfl, rfl, rfl, rfl, rfl, rfl, rfl, rfl, rfl, rfl, rfl, rfl, rfl, rfl, rfl, rfl, rfl, rfl, rfl, rfl, rfl, rfl⟩

/-- The code's names are `<family prefix>/<technology>/<hex(measurement)>.binarypb` under the one
    bucket URL, for every measurement. -/
theorem C16_names_as_specified (m : Bytes) (obj : String) :
    sevObjectName Gen.Names.gceUefiFamilyID m = name sevTech m ∧
    sevObjectName Gen.Names.gceFwCertGUID m = name sevTech m ∧
    tdxObjectName m = name tdxTech m ∧
    gceTcbURL obj = url obj := by
  have h1 : familyIDObjectPrefix Gen.Names.gceUefiFamilyID = family := by decide
  have h2 : familyIDObjectPrefix Gen.Names.gceFwCertGUID = family := by decide
  refine ⟨?_, ?_, rfl, rfl⟩
  · unfold sevObjectName; rw [h1]; rfl
  · unfold sevObjectName; rw [h2]; rfl

/-! ## Injectivity and separation -/

/-- Hex encoding is injective on all byte strings. -/
theorem C16_hex_injective (a b : Bytes) (h : hexEncode a = hexEncode b) : a = b := hex_injective a b h

/-- The object name (and the URL) is injective in the measurement, for every family and both
    technologies, for measurements of ANY lengths. -/
theorem C16_name_injective (fam : String) (a b : Bytes) :
    (sevObjectName fam a = sevObjectName fam b → a = b) ∧
    (tdxObjectName a = tdxObjectName b → a = b) ∧
    (gceTcbURL (sevObjectName fam a) = gceTcbURL (sevObjectName fam b) → a = b) ∧
    (gceTcbURL (tdxObjectName a) = gceTcbURL (tdxObjectName b) → a = b) :=
  ⟨objectName_injective _ _ _ a b, objectName_injective _ _ _ a b,
   fun h => objectName_injective _ _ _ a b (gceTcbURL_injective _ _ h),
   fun h => objectName_injective _ _ _ a b (gceTcbURL_injective _ _ h)⟩

/-- SEV-SNP and TDX names never collide, and names under different family prefixes never collide —
    for all measurements of all lengths; likewise for the URLs. -/
theorem C16_tech_separated (f1 f2 : String) (a b : Bytes) :
    sevObjectName f1 a ≠ tdxObjectName b ∧
    gceTcbURL (sevObjectName f1 a) ≠ gceTcbURL (tdxObjectName b) ∧
    (familyIDObjectPrefix f1 ≠ familyIDObjectPrefix f2 → sevObjectName f1 a ≠ sevObjectName f2 b) := by
  have hsep : sevObjectName f1 a ≠ tdxObjectName b := by
    unfold sevObjectName tdxObjectName
    rcases familyIDObjectPrefix_cases f1 with h | h
    · rw [h]
      exact objectName_tech_separated family _ _ _ _ a b (by decide) (by decide) (by decide) (by decide)
    · rw [h]
      exact objectName_prefix_separated _ _ _ _ _ _ a b (by decide) (by decide) (by decide)
  refine ⟨hsep, fun h => hsep (gceTcbURL_injective _ _ h), ?_⟩
  intro hne
  unfold sevObjectName
  rcases familyIDObjectPrefix_cases f1 with h1 | h1 <;> rcases familyIDObjectPrefix_cases f2 with h2 | h2
  · exact absurd (h1.trans h2.symm) hne
  · rw [h1, h2]; exact objectName_prefix_separated _ _ _ _ _ _ a b (by decide) (by decide) (by decide)
  · rw [h1, h2]; exact objectName_prefix_separated _ _ _ _ _ _ a b (by decide) (by decide) (by decide)
  · exact absurd (h1.trans h2.symm) hne

/-- Non-vacuity: concrete names; a known and an unknown family do get different prefixes. -/
example : sevObjectName Gen.Names.gceUefiFamilyID [0x01, 0xab] = "ovmf_x64_csm/sevsnp/01ab.binarypb" ∧
    tdxObjectName [0x01, 0xab] = "ovmf_x64_csm/tdx/01ab.binarypb" ∧
    gceTcbURL "x" = "https://storage.googleapis.com/gce_tcb_integrity/x" ∧
    familyIDObjectPrefix Gen.Names.gceUefiFamilyID ≠ familyIDObjectPrefix "" := by decide

/-! ## The emitted events parse back to what was emitted -/

/-- For every hash `H`, every string encoding, every image and every 16 random bytes: if `makeEvents`
    succeeds it yields exactly two events that parse back (through the event-log decoder) to the
    variable-locator event and the URI-locator event under the same reference-manifest GUID; the
    variable locator is the regenerated `rimVar`, the URI locator is the bucket URL of
    `ovmf_x64_csm/<hex(H image)>.fd.signed`, and both name the Google firmware manufacturer. -/
theorem C16_events_roundtrip (H : Bytes → Bytes) (strBytes : String → Bytes) (random image : Bytes) (evs : List Bytes)
    (hr : random.length = 16) (h : makeEvents H strBytes random image = some evs) :
    ∃ v u ve ue, evs = [v, u] ∧ parseEventData v = some ve ∧ parseEventData u = some ue ∧
      ve.guid = rimUUID random ∧ ue.guid = rimUUID random ∧
      ve.rimLocatorType = locVariable ∧ ve.rimLocator = Gen.Names.rimVar ∧
      ue.rimLocatorType = locURI ∧
      ue.rimLocator = strBytes (url (family ++ "/" ++ hexEncode (H image) ++ signedFirmwareExt)) ∧
      ve.firmwareManufacturerStr = manufacturer ∧ ue.firmwareManufacturerStr = manufacturer := by
  unfold makeEvents at h
  split at h
  · next v u hv hu =>
    simp only [Option.some.injEq] at h
    have hg := rimUUID_length random hr
    have i1 : Gen.Names.eventPlatformManufacturerID < 2 ^ 32 := by decide
    have i2 : Gen.Names.eventFirmwareManufacturerID < 2 ^ 32 := by decide
    have i3 : Gen.Names.rimLocationVariable < 2 ^ 32 := by decide
    have i4 : Gen.Names.rimLocationURI < 2 ^ 32 := by decide
    have i5 : (0 : Nat) < 2 ^ 32 := by decide
    have pv := parse_marshal (varEvent (rimUUID random)) v hv hg i1 i2 i3 i5
    have pu := parse_marshal (uriEvent strBytes (rimUUID random) (H image)) u hu hg i1 i2 i4 i5
    exact ⟨v, u, _, _, h.symm, pv, pu, rfl, rfl, rfl, rfl, rfl, rfl, rfl, rfl⟩
  · simp at h

/-- The emitted variable locator decodes to the Google GUID and the UCS-2 name "FirmwareRIM", i.e. to
    the efivarfs entry `FirmwareRIM-a2858e46-a37f-456a-8c79-0c1fe48b65ff`. -/
theorem C16_variable_locator_is_FirmwareRIM :
    ∃ g n, variableLocatorDecode Gen.Names.rimVar = some (g, n) ∧
      uuidString g = googleVariableGUID ∧ ucs2toUTF8 n = .ok rimVariableName := by
  refine ⟨[0xa2, 0x85, 0x8e, 0x46, 0xa3, 0x7f, 0x45, 0x6a, 0x8c, 0x79, 0x0c, 0x1f, 0xe4, 0x8b, 0x65, 0xff],
    [70, 0, 105, 0, 114, 0, 109, 0, 119, 0, 97, 0, 114, 0, 101, 0, 82, 0, 73, 0, 77, 0, 0, 0], by decide, by decide, ?_⟩
  simp [ucs2toUTF8, decodeUtf16, isSurrogate]
  decide

set_option maxRecDepth 8000 in
/-- Non-vacuity: `makeEvents` does succeed (here with a 2-byte "hash" and a 3-byte URL encoding). -/
example : (makeEvents (fun _ => [0xaa, 0xbb]) (fun _ => [1, 2, 3]) (List.replicate 16 0xff) [1]).isSome = true := by decide

/-! ## Local first -/

/-- FULL STRENGTH for the event log: when the event log holds a raw or UEFI-variable locator that can
    be read (raw first, manufacturer filter applied) and ForceFetch is off, `Endorsement` returns those
    bytes, asks the getter nothing and consults neither quote nor provider. -/
theorem C16_local_first_eventlog (env : Env) (o : Options) (b : Bytes)
    (hf : o.forceFetch = false) (h : eventLogLocal env o = some b) :
    (endorsement env o).out = .ok b ∧ (endorsement env o).urls = [] ∧ (endorsement env o).provCalls = 0 := by
  obtain ⟨hout, hurls⟩ := eventLogLocal_some env o b h
  have hl : o.eventLog.isSome = true := by
    unfold eventLogLocal at h
    split at h
    · next hl => rw [hl]; rfl
    · simp at h
  rw [endorsement_eventlog_ok env o b hf hl hout]
  refine ⟨hout, hurls, ?_⟩
  rcases fromEventLog_cases env o with ⟨c, hc⟩ | ⟨evs, e, _, _, hc⟩
  · rw [hc] at hout; simp at hout
  · rw [hc]
    unfold locate
    split
    · rfl
    · split
      · split
        · split <;> rfl
        · rfl
      · split
        · split
          · rfl
          · split
            · rfl
            · unfold readVariable
              split
              · split
                · rfl
                · split <;> rfl
              · rfl
              · rfl
        · rfl

/-- The full local-first statement of the property. -/
def LocalFirstFull : Prop :=
  ∀ (env : Env) (o : Options) (b : Bytes), o.forceFetch = false → o.reader.isSome = true →
    localEvidence env o = some b →
    (endorsement env o).out = .ok b ∧ (endorsement env o).urls = []

/-- PARTIAL (what is missing: the case in which the event-log phase itself went to the network, i.e. a
    URI locator was selected — see `C16_finding_D19`): with ForceFetch off, a reader configured and no
    URL requested by the event-log phase, local evidence — the event log's raw or variable locator,
    then the supplied attestation's certificate-table entry, then the provider's — is returned byte for
    byte and the getter is asked nothing. -/
theorem C16_local_first_partial (env : Env) (o : Options) (b : Bytes)
    (hf : o.forceFetch = false) (hr : o.reader.isSome = true)
    (hnouri : (fromEventLog env o).urls = [])
    (h : localEvidence env o = some b) :
    (endorsement env o).out = .ok b ∧ (endorsement env o).urls = [] := by
  unfold localEvidence at h
  cases hel : eventLogLocal env o with
  | some b' =>
    rw [hel] at h
    simp only [Option.some.injEq] at h
    subst h
    have := C16_local_first_eventlog env o b' hf hel
    exact ⟨this.1, this.2.1⟩
  | none =>
    rw [hel] at h
    simp only at h
    -- the endorsement continues with the quote phase, with no URL requested so far
    have hcont : ∃ paths, endorsement env o = quotePhase fromQuote false env o [] paths := by
      by_cases hl : o.eventLog.isSome = true
      · obtain ⟨c, hc⟩ := eventLogLocal_none env o hel hr hnouri
        exact ⟨_, by rw [endorsement_eventlog_err env o c hf hl hc, hnouri]⟩
      · exact ⟨[], endorsement_skip_eventlog env o (Or.inl (by simpa using hl))⟩
    obtain ⟨paths, hcont⟩ := hcont
    rw [hcont]
    cases hq : certTableEntry o.quote with
    | some b' =>
      rw [hq] at h
      simp only [Option.some.injEq] at h
      subst h
      obtain ⟨m, hq', hb⟩ := certTableEntry_some o.quote b' hq
      rw [quotePhase_supplied_entry env o [] paths m b' hf hq' hb]
      exact ⟨rfl, rfl⟩
    | none =>
      rw [hq] at h
      simp only at h
      split at h
      · simp at h
      · next hfull =>
        split at h
        · next t hp =>
          obtain ⟨m, ht, hb⟩ := certTableEntry_some t b h
          subst ht
          rw [quotePhase_provider_entry env o [] paths m b hf hq (by simpa using hfull) hp hb]
          exact ⟨rfl, rfl⟩
        · simp at h

/-- FINDING D19 (code as it is): with only a URI locator in the event log and a certificate-table
    entry in the supplied attestation, the network is asked first and its answer is returned. -/
theorem C16_finding_D19 : ¬ LocalFirstFull := by
  intro hfull
  have := hfull
    { secureJoin := fun _ _ => none, readFile := fun _ => none, get := fun _ => some [1] }
    { provider := none, hasGetter := true, manufacturer := [],
      eventLog := some (.parsed [⟨3, some ⟨[], 1, [104]⟩⟩]), reader := some "/efi",
      quote := some (.sev (List.replicate 48 0) (some [7])), forceFetch := false }
    [7] rfl rfl (by decide)
  revert this
  decide

/-- Non-vacuity of the local-first theorems: a log with a raw locator, and a quote with a
    certificate-table entry next to an unreadable log. -/
example :
    let env : Env := { secureJoin := fun _ _ => none, readFile := fun _ => none, get := fun _ => some [1] }
    let o1 : Options := { provider := none, hasGetter := true, manufacturer := [], eventLog := some (.parsed [⟨3, some ⟨[], 0, [9, 9]⟩⟩]),
                          reader := some "/efi", quote := none, forceFetch := false }
    let o2 : Options := { o1 with eventLog := some .unreadable, quote := some (.sev (List.replicate 48 0) (some [7])) }
    eventLogLocal env o1 = some [9, 9] ∧ localEvidence env o2 = some [7] ∧ (fromEventLog env o2).urls = [] := by decide

/-! ## Fetch only when forced or needed; only for full-length measurements -/

/-- Every URL handed to the getter is either built by extraction from the object name of the supplied
    or the provided quote, whose measurement is then exactly 48 bytes long, or is the verbatim URI
    locator of the event that the (unforced) event-log phase selected. -/
theorem C16_fetch_url_classified (env : Env) (o : Options) (u : Url) (hu : u ∈ (endorsement env o).urls) :
    (∃ tee, (o.quote = some tee ∨ o.provider = some (some (some tee))) ∧ (teeMeasurement tee).length = 48 ∧
        u = .derived (gceTcbURL (teeObjectName tee))) ∨
    (o.forceFetch = false ∧ ∃ evs e, o.eventLog = some (.parsed evs) ∧ selectEvent o.manufacturer evs = some e ∧
        e.locType = locURI ∧ u = .verbatim e.locator) := by
  have viaLog : u ∈ (fromEventLog env o).urls → o.forceFetch = false →
      (o.forceFetch = false ∧ ∃ evs e, o.eventLog = some (.parsed evs) ∧ selectEvent o.manufacturer evs = some e ∧
        e.locType = locURI ∧ u = .verbatim e.locator) := fun h hf => ⟨hf, fromEventLog_urls_verbatim env o u h⟩
  have viaQuote : ∀ urls paths, u ∈ (quotePhase fromQuote false env o urls paths).urls → u ∈ urls ∨
      (∃ tee, (o.quote = some tee ∨ o.provider = some (some (some tee))) ∧ (teeMeasurement tee).length = 48 ∧
        u = .derived (gceTcbURL (teeObjectName tee))) := by
    intro urls paths h
    rcases quotePhase_urls env o urls paths with he | ⟨tee, hsrc, hl, _, he⟩
    · rw [he] at h; exact Or.inl h
    · rw [he] at h
      rcases List.mem_append.mp h with h' | h'
      · exact Or.inl h'
      · right; exact ⟨tee, hsrc, hl, by simpa using h'⟩
  unfold endorsement endorsementWith at hu
  split at hu
  · next hc =>
    have hf : o.forceFetch = false := by
      simp only [Bool.and_eq_true, Bool.not_eq_eq_eq_not, Bool.not_true] at hc; exact hc.2
    split at hu
    · exact Or.inr (viaLog hu hf)
    · exact Or.inr (viaLog hu hf)
    · rcases viaQuote _ _ hu with h | h
      · exact Or.inr (viaLog h hf)
      · exact Or.inl h
  · rcases viaQuote _ _ hu with h | h
    · simp at h
    · exact Or.inl h

/-- FULL STRENGTH: EVERY URL that extraction builds (every `Url.derived`) is
    `GCETcbURL(objectName m)` for the 48-byte measurement `m` of the supplied or the provided quote —
    never the bucket root, never a name from a truncated measurement. Same for the two other sites. -/
theorem C16_fetch_url_full_length (env : Env) (o : Options) (s : String)
    (hu : Url.derived s ∈ (endorsement env o).urls) :
    ∃ tee, (o.quote = some tee ∨ o.provider = some (some (some tee))) ∧ (teeMeasurement tee).length = 48 ∧
      s = gceTcbURL (teeObjectName tee) ∧
      (s = url (name sevTech (teeMeasurement tee)) ∨ s = url (name tdxTech (teeMeasurement tee))) := by
  rcases C16_fetch_url_classified env o _ hu with ⟨tee, hsrc, hl, he⟩ | ⟨_, _, _, _, _, _, he⟩
  · simp only [Url.derived.injEq] at he
    refine ⟨tee, hsrc, hl, he, ?_⟩
    cases tee with
    | sev m x =>
      left; rw [he]
      show gceTcbURL (sevObjectName Gen.Names.gceUefiFamilyID m) = url (name sevTech m)
      rw [(C16_names_as_specified m "").1]; rfl
    | tdx m =>
      right; rw [he]
      show gceTcbURL (tdxObjectName m) = url (name tdxTech m)
      rw [(C16_names_as_specified m "").2.2.1]; rfl
  · simp at he

/-- The validator closure of `verify` and `SevValidate`'s own fetch request only the URL of a 48-byte
    report measurement. -/
theorem C16_fetch_url_full_length_sites (fam : String) (m : Option Bytes) (m' : Bytes) (a b c : Bool) (u : Url) :
    (u ∈ closureFetch fam m a b c → ∃ x, m = some x ∧ x.length = 48 ∧ u = .derived (gceTcbURL (sevObjectName fam x))) ∧
    (u ∈ sevValidateFetch m' a c → m'.length = 48 ∧ u = .derived (gceTcbURL (sevObjectName Gen.Names.gceUefiFamilyID m'))) := by
  constructor
  · intro h
    unfold closureFetch at h
    split at h
    · simp at h
    · next x =>
      split at h
      · simp at h
      · next hl =>
        split at h
        · split at h
          · exact ⟨x, rfl, Decidable.of_not_not hl, by simpa using h⟩
          · simp at h
        · simp at h
  · intro h
    unfold sevValidateFetch at h
    split at h
    · simp at h
    · split at h
      · simp at h
      · split at h
        · simp at h
        · next hl => exact ⟨Decidable.of_not_not hl, by simpa using h⟩

/-- The strict reading of "a network fetch is only ever issued for a URL derived from a full-length
    measurement". -/
def AllFetchesFromMeasurement : Prop :=
  ∀ (env : Env) (o : Options) (u : Url), u ∈ (endorsement env o).urls → ∃ s, u = .derived s

/-- FINDING D19b (code as it is): the URI locator of the event log is handed to the getter verbatim. -/
theorem C16_finding_D19b : ¬ AllFetchesFromMeasurement := by
  intro h
  have := h
    { secureJoin := fun _ _ => none, readFile := fun _ => none, get := fun _ => some [1] }
    { provider := none, hasGetter := true, manufacturer := [],
      eventLog := some (.parsed [⟨3, some ⟨[], 1, [104]⟩⟩]), reader := some "/efi",
      quote := none, forceFetch := false }
    (.verbatim [104]) (by decide)
  obtain ⟨s, hs⟩ := this
  simp at hs

/-- A URL is built and fetched only when the fetch is forced or no local evidence exists (no
    readable raw/variable locator, no certificate-table entry in the supplied quote, none in the
    provider's quote when that is the one consulted). -/
theorem C16_no_fetch_unless_forced_or_needed (env : Env) (o : Options) (s : String)
    (hu : Url.derived s ∈ (endorsement env o).urls) :
    o.forceFetch = true ∨ localEvidence env o = none := by
  cases hf : o.forceFetch with
  | true => left; rfl
  | false =>
    right
    have notInLog : Url.derived s ∉ (fromEventLog env o).urls := by
      intro h
      obtain ⟨_, _, _, _, _, he⟩ := fromEventLog_urls_verbatim env o _ h
      simp at he
    cases hle : localEvidence env o with
    | none => rfl
    | some b =>
      exfalso
      unfold localEvidence at hle
      cases hel : eventLogLocal env o with
      | some b' =>
        have := C16_local_first_eventlog env o b' hf hel
        rw [this.2.1] at hu; simp at hu
      | none =>
        rw [hel] at hle
        simp only at hle
        -- whichever way the event-log phase ended, the quote phase (if reached) starts from its URLs
        have hq : ∀ urls paths, Url.derived s ∉ urls → Url.derived s ∉ (quotePhase fromQuote false env o urls paths).urls := by
          intro urls paths hn
          cases hq : certTableEntry o.quote with
          | some b' =>
            obtain ⟨m, hq', hb⟩ := certTableEntry_some o.quote b' hq
            rw [quotePhase_supplied_entry env o urls paths m b' hf hq' hb]; exact hn
          | none =>
            rw [hq] at hle
            simp only at hle
            split at hle
            · simp at hle
            · next hfull =>
              split at hle
              · next t hp =>
                obtain ⟨m, ht, hb⟩ := certTableEntry_some t b hle
                subst ht
                rw [quotePhase_provider_entry env o urls paths m b hf hq (by simpa using hfull) hp hb]; exact hn
              · simp at hle
        rcases endorsement_cases env o with h | h | h
        · rw [h] at hu; exact notInLog hu
        · rw [h] at hu; exact hq _ _ notInLog hu
        · rw [h] at hu; exact hq _ _ (by simp) hu

/-- With ForceFetch the event log is not consulted: no variable is opened and no URI locator fetched. -/
theorem C16_force_skips_eventlog (env : Env) (o : Options) (hf : o.forceFetch = true) :
    (endorsement env o).paths = [] ∧ ∀ loc, Url.verbatim loc ∉ (endorsement env o).urls := by
  rw [endorsement_skip_eventlog env o (Or.inr hf)]
  refine ⟨quotePhase_paths .., ?_⟩
  intro loc h
  rcases quotePhase_urls env o [] [] with he | ⟨tee, _, _, _, he⟩
  · rw [he] at h; simp at h
  · rw [he] at h; simp at h

/-- A forced fetch after a local hit asks for the object named after the quote's 48-byte
    measurement (and returns what the getter returns). -/
theorem C16_forced_fetch_after_local_hit (env : Env) (o : Options) (m blob : Bytes)
    (hf : o.forceFetch = true) (hg : o.hasGetter = true) (hm : m.length = 48)
    (hq : o.quote = some (.sev m (some blob))) :
    (endorsement env o).urls = [.derived (url (name sevTech m))] ∧ (endorsement env o).provCalls = 0 := by
  rw [endorsement_skip_eventlog env o (Or.inr hf)]
  unfold quotePhase
  rw [hq]
  have h48 : m.length = Gen.Names.sevMeasurementSize := hm
  have hn := (C16_names_as_specified m (name sevTech m)).1
  have hu := (C16_names_as_specified m (name sevTech m)).2.2.2
  simp only [fromQuote, h48, if_true, hf, Bool.not_true, Bool.and_false, Bool.false_eq_true, if_false]
  unfold fetchPhase
  simp only [hg, if_true, Bool.false_eq_true, if_false, hn, hu]
  cases env.get (Url.derived (url (name sevTech m))) <;> exact ⟨rfl, rfl⟩

/-- Non-vacuity: a forced fetch over a quote that carries the endorsement locally. -/
example :
    let env : Env := { secureJoin := fun _ _ => none, readFile := fun _ => none, get := fun _ => some [1] }
    let o : Options := { provider := none, hasGetter := true, manufacturer := [], eventLog := none, reader := none,
                         quote := some (.sev (List.replicate 48 0) (some [7])), forceFetch := true }
    (endorsement env o).out = .ok [1] ∧ (endorsement env o).urls.length = 1 := by decide

/-! ## Witnesses on the previous object-name logic (D10, D17) -/

set_option maxRecDepth 8000 in
/-- D10 on the OLD logic: ForceFetch over a quote whose certificate table carries the endorsement
    requests the bucket ROOT (empty object name) and returns that body; so does an unreadable quote;
    a certificate-table-only input (1-byte measurement) yields a URL named after one byte. -/
theorem C16_old_forcefetch_root_url :
    let env : Env := { secureJoin := fun _ _ => none, readFile := fun _ => none, get := fun _ => some [1] }
    let o : Options := { provider := none, hasGetter := true, manufacturer := [], eventLog := none, reader := none,
                         quote := some (.sev (List.replicate 48 0) (some [7])), forceFetch := true }
    (endorsementOld env o).urls = [.derived (gceTcbURL "")] ∧ (endorsementOld env o).out = .ok [1] ∧
    (endorsementOld env { o with quote := none, forceFetch := false }).urls = [.derived (gceTcbURL "")] ∧
    (endorsementOld env { o with quote := some (.sev [0] none) }).urls =
      [.derived (gceTcbURL (sevObjectName Gen.Names.gceUefiFamilyID [0]))] ∧
    -- the fixed code on the same three inputs: right object, no fetch, no fetch
    (endorsement env o).urls = [.derived (gceTcbURL (sevObjectName Gen.Names.gceUefiFamilyID (List.replicate 48 0)))] ∧
    (endorsement env { o with quote := none, forceFetch := false }).urls = [] ∧
    (endorsement env { o with quote := some (.sev [0] none) }).urls = [] := by
  decide

/-- D17 on the OLD logic of `extractEndorsement`: the 4-byte measurement "blah" of the repository's own
    test produces a request; the gated code requests nothing. -/
theorem C16_old_sevvalidate_short_url :
    sevValidateFetchOld [98, 108, 97, 104] false true =
      [.derived (gceTcbURL (sevObjectName Gen.Names.gceUefiFamilyID [98, 108, 97, 104]))] ∧
    sevValidateFetch [98, 108, 97, 104] false true = [] := by
  decide

/-! ## Confinement -/

/-- PARTIAL (lexical; symlink resolution and TOCTOU between join and open belong to
    filepath-securejoin and the kernel): under the contract of `secureJoin` — its result is lexically
    inside the root — every path `Endorsement` opens is inside the configured efivarfs root, for every
    event log, every variable name and GUID. -/
theorem C16_confined (env : Env) (o : Options) (root : String)
    (hsj : ∀ r u p, env.secureJoin r u = some p → Inside r p) (hr : o.reader = some root) :
    ∀ p ∈ (endorsement env o).paths, Inside root p := by
  intro p hp
  obtain ⟨root', u, hr', hj⟩ := fromEventLog_paths env o p (endorsementWith_paths _ _ env o p hp)
  rw [hr] at hr'
  simp only [Option.some.injEq] at hr'
  rw [hr']
  exact hsj root' u p hj

/-- Same for the reader alone, for every GUID and every name (including undecodable ones). -/
theorem C16_confined_reader (env : Env) (root : String) (guid name : Bytes)
    (hsj : ∀ r u p, env.secureJoin r u = some p → Inside r p) :
    ∀ p ∈ (readVariable env root guid name).paths, Inside root p := by
  intro p hp
  obtain ⟨u, hu⟩ := readVariable_paths env root guid name p hp
  exact hsj root u p hu

/-- The contract is satisfiable: the lexical behaviour of filepath-securejoin (no symlinks below the
    root) meets it for every root and every unsafe path — so the hypothesis of `C16_confined` is not
    vacuous, and `..`, `/`, NUL and over-long components are covered by it. -/
theorem C16_secureJoinLex_meets_contract (root u p : String) (h : secureJoinLex root u = some p) : Inside root p :=
  secureJoinLex_inside root u p h

set_option maxRecDepth 8000 in
/-- Non-vacuity: hostile names resolve inside the root (or are refused). -/
example : secureJoinLex "/efi" "../../etc/passwd-x" = some "/efi/etc/passwd-x" ∧
    secureJoinLex "/efi" "a/../../b/./c//d" = some "/efi/b/c/d" ∧
    secureJoinLex "/efi" "/abs" = some "/efi/abs" ∧
    secureJoinLex "/efi" "a\x00b" = none := by decide

end GceTcb.Extract
