import GceTcb.Proofs.Commit
import GceTcb.Proofs.ManifestFS
/-
C14 — Commit retries are bounded, fresh and honest.

`retrySubmit c e budget script` is the model of endorse.RetrySubmit running the real change function
(endorse.changeEndorsements) against a version-control backend whose behaviour in attempt k is
`script[k]` (which call fails, is the error retriable, what that workspace contains).  The theorems
are about the log of backend calls (`Ev`) and hold for every budget (any integer), every script
(any length, any contents) and every request configuration on a real (non-dry-run) run.

Reading (DESIGN §6): a negative budget behaves as zero retries, so the bound is
1 ≤ attempts ≤ max(budget, 0) + 1.

Names: the candidate name, --out_dir, --snapshot_dir and the image name in `Cfg` are ARBITRARY texts;
every path argument is computed the way endorse/commit.go computes it (`relOut`, `relSnap`, `basename`
through the model of Go's path.Clean / path.Join, Model/Paths.lean), so every theorem below is about
arbitrary names. The `…_paths` theorems say what those paths are.
-/
namespace GceTcb.Commit
open GceTcb.Manifest

/-- At most max(budget,0)+1 attempts, for every integer budget and every script. -/
theorem C14_attempts_le (c : Cfg) (e : Entry) (budget : Int) (script : List Attempt)
    (hd : c.dryRun = false) :
    (attempts (retrySubmit c e budget script).1 : Int) ≤ max budget 0 + 1 := by
  have gen : ∀ (script : List Attempt) (tries : Nat),
      (attempts (retryLoop c e budget tries script).1 : Int) ≤ max (budget - tries) 0 + 1 := by
    intro script
    induction script with
    | nil => intro tries; simp [retryLoop, attempts]; omega
    | cons a rest ih =>
      intro tries
      have h1 := (attempt_counts c e tries a hd).1
      rcases retryLoop_cases c e budget tries a rest with ⟨_, h'⟩ | ⟨_, _, h'⟩ | ⟨_, _, _, h'⟩ | ⟨_, _, hb, h'⟩ <;>
        rw [h']
      · show (attempts (attempt c e tries a).1 : Int) ≤ _
        rw [h1]; omega
      · show (attempts (_ ++ _) : Int) ≤ _
        simp only [attempts, List.countP_append] at h1 ⊢
        rw [h1]; simp [isGetOps, evRetriable]; omega
      · show (attempts (_ ++ _) : Int) ≤ _
        simp only [attempts, List.countP_append] at h1 ⊢
        rw [h1]; simp [isGetOps, evRetriable]; omega
      · show (attempts (_ ++ _ :: _) : Int) ≤ _
        have := ih (tries + 1)
        have hq : isGetOps (evRetriable tries true) = false := rfl
        simp only [attempts, List.countP_append, List.countP_cons, hq] at h1 this ⊢
        rw [h1]
        simp only [Bool.false_eq_true, if_false, Nat.add_zero]
        omega
  have := gen script 0
  simpa [retrySubmit] using this

/-- At least one attempt is always made (given the environment answers at all). -/
theorem C14_attempts_ge (c : Cfg) (e : Entry) (budget : Int) (script : List Attempt)
    (hd : c.dryRun = false) (hs : script ≠ []) :
    1 ≤ attempts (retrySubmit c e budget script).1 := by
  cases script with
  | nil => exact absurd rfl hs
  | cons a rest =>
    have h1 := (attempt_counts c e 0 a hd).1
    unfold retrySubmit
    rcases retryLoop_cases c e budget 0 a rest with ⟨_, h'⟩ | ⟨_, _, h'⟩ | ⟨_, _, _, h'⟩ | ⟨_, _, _, h'⟩ <;>
      rw [h'] <;> simp only [attempts, List.countP_append] at h1 ⊢ <;> omega

/-- The loop never asks the environment for more than max(budget,0)+1 attempts: a script that long
    is never exhausted (so `Res.exhausted` is not an outcome of the code, only of short scripts). -/
theorem C14_never_exhausted (c : Cfg) (e : Entry) (budget : Int) (script : List Attempt)
    (hlen : (max budget 0).toNat + 1 ≤ script.length) :
    (retrySubmit c e budget script).2 ≠ .exhausted := by
  have gen : ∀ (script : List Attempt) (tries : Nat),
      (max (budget - tries) 0).toNat + 1 ≤ script.length →
      (retryLoop c e budget tries script).2 ≠ .exhausted := by
    intro script
    induction script with
    | nil => intro tries h; simp at h
    | cons a rest ih =>
      intro tries hl
      rcases retryLoop_cases c e budget tries a rest with ⟨_, h'⟩ | ⟨_, _, h'⟩ | ⟨_, _, _, h'⟩ | ⟨_, _, hb, h'⟩ <;>
        rw [h'] <;> try (simp; done)
      apply ih (tries + 1)
      simp only [List.length_cons] at hl
      omega
  exact gen script 0 (by simpa using hlen)

/-- A retry happens only after an error the backend marks retriable: every GetChangeOps call other
    than the first event is immediately preceded by a RetriableError query answered `true`; and
    nothing at all follows a query answered `false`. -/
theorem C14_retry_only_retriable (c : Cfg) (e : Entry) (budget : Int) (script : List Attempt)
    (hd : c.dryRun = false) (x y : Ev) (hxy : Consecutive (retrySubmit c e budget script).1 x y) :
    (y.kind = .getOps → x.kind = .retriable ∧ x.ok = true) ∧
    (x.kind = .retriable → x.ok = true ∧ y.kind = .getOps ∧ y.ws = x.ws + 1) := by
  have hs := adj_of_consecutive Step _ (retryLoop_adj c e budget hd script 0) x y hxy
  refine ⟨?_, hs.afterRetriable⟩
  intro hy
  -- go through what may precede a getOps
  cases hk : x.kind with
  | retriable => exact ⟨rfl, (hs.afterRetriable hk).1⟩
  | result => exact absurd hk hs.afterResult
  | destroy => have := (hs.afterDestroy hk).1; rw [hy] at this; cases this
  | commit =>
    cases ho : x.ok with
    | true => have := hs.afterCommit hk ho; rw [this] at hy; simp [evResult] at hy
    | false => have := hs.afterFailedOp (Or.inr hk) ho; rw [this] at hy; simp [evDestroy] at hy
  | getOps =>
    cases ho : x.ok with
    | true => have := (hs.afterOk (Or.inl hk) ho).2; rw [hy] at this; simp [Kind.isOp, Kind.isPlan] at this
    | false => have := (hs.afterFailedGet hk ho).1; rw [hy] at this; cases this
  | readManifest | readFile | writeFiles | chmod | writeManifest =>
    cases ho : x.ok with
    | true =>
      have := (hs.afterOk (Or.inr (by rw [hk]; rfl)) ho).2
      rw [hy] at this; simp [Kind.isOp, Kind.isPlan] at this
    | false =>
      have := hs.afterFailedOp (Or.inl (by rw [hk]; rfl)) ho
      rw [this] at hy; simp [evDestroy] at hy

/-- The first backend call of a run is GetChangeOps for attempt 0. -/
theorem C14_starts_with_getOps (c : Cfg) (e : Entry) (budget : Int) (script : List Attempt)
    (hd : c.dryRun = false) (x : Ev) (hx : (retrySubmit c e budget script).1.head? = some x) :
    ∃ ok, x = evGetOps 0 ok :=
  retryLoop_head c e budget hd 0 script x hx

/-- Every attempt starts from a fresh workspace: a ChangeOps call (read, write, mode change, commit,
    destroy) is always made on the workspace of the immediately preceding event, which is either that
    attempt's successful GetChangeOps or an earlier call of the same attempt — never on a workspace
    obtained in an earlier attempt; a call other than Destroy only follows a successful call; and a
    GetChangeOps after a retry asks for the next workspace (ids strictly increase). -/
theorem C14_fresh_workspace_each_attempt (c : Cfg) (e : Entry) (budget : Int) (script : List Attempt)
    (hd : c.dryRun = false) (x y : Ev) (hxy : Consecutive (retrySubmit c e budget script).1 x y)
    (hy : y.kind.isOp = true) :
    y.ws = x.ws ∧ (x.kind = .getOps ∨ x.kind.isPlan = true ∨ x.kind = .commit) ∧
    (y.kind ≠ .destroy → x.ok = true) := by
  have hs := adj_of_consecutive Step _ (retryLoop_adj c e budget hd script 0) x y hxy
  cases hk : x.kind with
  | retriable => have := (hs.afterRetriable hk).2.1; rw [this] at hy; simp [Kind.isOp, Kind.isPlan] at hy
  | result => exact absurd hk hs.afterResult
  | destroy => have := (hs.afterDestroy hk).1; rw [this] at hy; simp [Kind.isOp, Kind.isPlan] at hy
  | commit =>
    cases ho : x.ok with
    | true => have := hs.afterCommit hk ho; rw [this] at hy; simp [evResult, Kind.isOp, Kind.isPlan] at hy
    | false => have := hs.afterFailedOp (Or.inr hk) ho; rw [this]; simp [evDestroy]
  | getOps =>
    cases ho : x.ok with
    | true => exact ⟨(hs.afterOk (Or.inl hk) ho).1, by simp, by simp⟩
    | false => have := (hs.afterFailedGet hk ho).1; rw [this] at hy; simp [Kind.isOp, Kind.isPlan] at hy
  | readManifest | readFile | writeFiles | chmod | writeManifest =>
    cases ho : x.ok with
    | true => exact ⟨(hs.afterOk (Or.inr (by rw [hk]; rfl)) ho).1, by simp [Kind.isPlan], by simp⟩
    | false =>
      have := hs.afterFailedOp (Or.inl (by rw [hk]; rfl)) ho
      rw [this]; simp [evDestroy, Kind.isPlan]


/-- The manifest written in an attempt is the merge of the new entry into the manifest read in THAT
    attempt's workspace (after a successful read of it in the same workspace), never one remembered
    from an earlier attempt. -/
theorem C14_manifest_reread (c : Cfg) (e : Entry) (budget : Int) (script : List Attempt)
    (hd : c.dryRun = false) (ev : Ev) (hev : ev ∈ (retrySubmit c e budget script).1)
    (hk : ev.kind = .writeManifest) :
    ∃ a, script[ev.ws]? = some a ∧ a.manifest ≠ .garbage ∧
      ev.manifest = addEntry a.manifest.entries e ∧
      (⟨ev.ws, .readManifest, true, relOut c manifestFile, []⟩ : Ev) ∈ (retrySubmit c e budget script).1 := by
  obtain ⟨j, a, h1, h2, h3, h4, _, h6⟩ := retryLoop_writeManifest c e budget hd script 0 ev hev hk
  have : ev.ws = j := by omega
  exact ⟨a, by rw [this]; exact h1, h3, h4, h6⟩

/-- Entries committed by someone else between attempts are never dropped: every entry present in
    the manifest as read in the attempt, other than ones the new entry replaces (same path or same
    digest), is in the manifest that attempt writes; and so is the new entry. -/
theorem C14_no_dropped_entries (c : Cfg) (e : Entry) (budget : Int) (script : List Attempt)
    (hd : c.dryRun = false) (ev : Ev) (hev : ev ∈ (retrySubmit c e budget script).1)
    (hk : ev.kind = .writeManifest) (a : Attempt) (ha : script[ev.ws]? = some a) :
    e ∈ ev.manifest ∧
    ∀ x ∈ a.manifest.entries, x.path ≠ e.path → x.digest ≠ e.digest → x ∈ ev.manifest := by
  obtain ⟨a', h1, _, h3, _⟩ := C14_manifest_reread c e budget script hd ev hev hk
  rw [ha] at h1; cases h1
  rw [h3]
  exact ⟨addEntry_mem_new _ _, fun x hx hp hdg => addEntry_keeps _ _ x hx hp hdg⟩

/-- Every attempt that obtained a workspace and did not commit it destroys it, exactly once; a
    committed workspace is not destroyed. -/
theorem C14_failed_workspaces_released (c : Cfg) (e : Entry) (budget : Int) (script : List Attempt)
    (hd : c.dryRun = false) (k : Nat) (hg : evGetOps k true ∈ (retrySubmit c e budget script).1) :
    (evCommit k true ∈ (retrySubmit c e budget script).1 ∧
      (retrySubmit c e budget script).1.count (evDestroy k) = 0) ∨
    (evCommit k true ∉ (retrySubmit c e budget script).1 ∧
      (retrySubmit c e budget script).1.count (evDestroy k) = 1) :=
  retryLoop_released c e budget hd script 0 k hg

/-- Success is reported exactly when some attempt's TryCommit succeeded. -/
theorem C14_success_iff_commit (c : Cfg) (e : Entry) (budget : Int) (script : List Attempt)
    (hd : c.dryRun = false) :
    (retrySubmit c e budget script).2 = .ok ↔
      ∃ ev ∈ (retrySubmit c e budget script).1, ev.kind = .commit ∧ ev.ok = true := by
  have h := (retryLoop_counts c e budget hd script 0).2
  unfold retrySubmit
  constructor
  · intro hok
    rw [hok] at h
    have : 0 < (retryLoop c e budget 0 script).1.countP isCommitOk := by rw [h]; simp
    obtain ⟨ev, hev, hp⟩ := List.countP_pos_iff.mp this
    exact ⟨ev, hev, by simpa [isCommitOk] using hp⟩
  · rintro ⟨ev, hev, hk, ho⟩
    have : 0 < (retryLoop c e budget 0 script).1.countP isCommitOk :=
      List.countP_pos_iff.mpr ⟨ev, hev, by simp [isCommitOk, hk, ho]⟩
    by_cases hr : (retryLoop c e budget 0 script).2 = .ok
    · exact hr
    · rw [if_neg hr] at h; omega

/-- Result is recorded exactly once on success and never on failure; it is recorded immediately
    after the successful TryCommit, for that commit. -/
theorem C14_result_once (c : Cfg) (e : Entry) (budget : Int) (script : List Attempt)
    (hd : c.dryRun = false) :
    (retrySubmit c e budget script).1.countP isResult =
      (if (retrySubmit c e budget script).2 = .ok then 1 else 0) ∧
    (retrySubmit c e budget script).1.countP isCommitOk =
      (if (retrySubmit c e budget script).2 = .ok then 1 else 0) ∧
    (∀ x y, Consecutive (retrySubmit c e budget script).1 x y →
      (x.kind = .commit → x.ok = true → y = evResult x.ws true y.arg) ∧
      (y.kind = .result → x.kind = .commit ∧ x.ok = true ∧ x.ws = y.ws)) := by
  refine ⟨(retryLoop_counts c e budget hd script 0).1, (retryLoop_counts c e budget hd script 0).2, ?_⟩
  intro x y hxy
  have hs := adj_of_consecutive Step _ (retryLoop_adj c e budget hd script 0) x y hxy
  refine ⟨hs.afterCommit, ?_⟩
  intro hy
  cases hk : x.kind with
  | retriable => have := (hs.afterRetriable hk).2.1; rw [hy] at this; cases this
  | result => exact absurd hk hs.afterResult
  | destroy => have := (hs.afterDestroy hk).1; rw [hy] at this; cases this
  | commit =>
    cases ho : x.ok with
    | true => have := hs.afterCommit hk ho; rw [this]; simp [evResult]
    | false => have := hs.afterFailedOp (Or.inr hk) ho; rw [this] at hy; simp [evDestroy] at hy
  | getOps =>
    cases ho : x.ok with
    | true => have := (hs.afterOk (Or.inl hk) ho).2; rw [hy] at this; simp [Kind.isOp, Kind.isPlan] at this
    | false => have := (hs.afterFailedGet hk ho).1; rw [hy] at this; cases this
  | readManifest | readFile | writeFiles | chmod | writeManifest =>
    cases ho : x.ok with
    | true =>
      have := (hs.afterOk (Or.inr (by rw [hk]; rfl)) ho).2
      rw [hy] at this; simp [Kind.isOp, Kind.isPlan] at this
    | false =>
      have := hs.afterFailedOp (Or.inl (by rw [hk]; rfl)) ho
      rw [this] at hy; simp [evDestroy] at hy

/-! ### arbitrary names: the paths of the workspace calls -/

/-- Workspace paths are computed per attempt the same way: every read, write and mode change of every
    attempt is made on one of the paths fixed by the request configuration (`planArgs c`: in manifest mode
    the manifest at ReleasePath(Join(out_dir, "manifest.textproto")) and the endorsement at
    ReleasePath(Join(out_dir, cleaned basename)); in snapshot mode the snapshot files) — whatever the
    attempt's number, the failures before it and the contents of its workspace. -/
theorem C14_workspace_paths (c : Cfg) (e : Entry) (budget : Int) (script : List Attempt)
    (hd : c.dryRun = false) :
    ∀ ev ∈ (retrySubmit c e budget script).1, ev.kind.isPlan = true → (ev.kind, ev.arg) ∈ planArgs c :=
  retryLoop_plan_events c e budget hd script 0

/-- … so two attempts make the same kind of call on the same path (manifest mode). -/
theorem C14_same_paths_every_attempt (c : Cfg) (e : Entry) (budget : Int) (script : List Attempt)
    (hd : c.dryRun = false) (hs : c.snapshot = false) :
    ∀ x ∈ (retrySubmit c e budget script).1, ∀ y ∈ (retrySubmit c e budget script).1,
      x.kind.isPlan = true → x.kind = y.kind → x.arg = y.arg := by
  intro x hx y hy hk hxy
  have h1 := C14_workspace_paths c e budget script hd x hx hk
  have h2 := C14_workspace_paths c e budget script hd y hy (hxy ▸ hk)
  simp only [planArgs, hs, Bool.false_eq_true, if_false, List.mem_cons, Prod.mk.injEq, List.not_mem_nil, or_false] at h1 h2
  rcases h1 with ⟨k1, a1⟩ | ⟨k1, a1⟩ | ⟨k1, a1⟩ | ⟨k1, a1⟩ | ⟨k1, a1⟩ <;>
    rcases h2 with ⟨k2, a2⟩ | ⟨k2, a2⟩ | ⟨k2, a2⟩ | ⟨k2, a2⟩ | ⟨k2, a2⟩ <;>
    first
    | (exact absurd (k1.symm.trans (hxy.trans k2)) (by decide))
    | (rw [a1, a2])

/-- A candidate name whose cleaned basename is rooted or climbs out of the output directory ("/rc0",
    "../x", "../out/rc0") never reaches the workspace: for every budget and script the only ChangeOps call
    of the change function is the manifest read, nothing is probed, written or re-moded, and the submission
    never reports success. -/
theorem C14_refused_name_paths (c : Cfg) (e : Entry) (budget : Int) (script : List Attempt)
    (hd : c.dryRun = false) (hs : c.snapshot = false) (hn : nameOk c.cand = false) :
    (retrySubmit c e budget script).2 ≠ .ok ∧
    ∀ ev ∈ (retrySubmit c e budget script).1, ev.kind.isPlan = true → ev.kind = .readManifest :=
  retryLoop_refused c e budget hd hs hn script 0

/-- The endorsement path recorded with the commit is the canonical name: `Result` gets the cleaned
    basename (a clean local path: path.Clean leaves it alone, it neither is rooted nor climbs), "" in
    snapshot mode; and the endorsement's own path is never the manifest's. -/
theorem C14_result_paths (c : Cfg) (e : Entry) (budget : Int) (script : List Attempt)
    (hd : c.dryRun = false) :
    (∀ ev ∈ (retrySubmit c e budget script).1, ev.kind = .result →
      ev.arg = (if c.snapshot then "" else basename c.cand) ∧
      (c.snapshot = false → Paths.LocalClean (basename c.cand) ∧ Paths.pclean (basename c.cand) = basename c.cand)) ∧
    (nameOk c.cand = true → relOut c (basename c.cand) ≠ relOut c manifestFile) := by
  constructor
  · have gen : ∀ (script : List Attempt) (tries : Nat), ∀ ev ∈ (retryLoop c e budget tries script).1,
        ev.kind = .result → ev.arg = (if c.snapshot then "" else basename c.cand) ∧
          (c.snapshot = false → nameOk c.cand = true) := by
      intro script
      induction script with
      | nil => intro tries ev hev; simp [retryLoop] at hev
      | cons a rest ih =>
        intro tries ev hev hk
        rcases mem_retryLoop_cons c e budget tries a rest ev hev with h | ⟨b, h⟩ | ⟨_, h, _⟩
        · exact attempt_result_arg c e tries a hd ev h hk
        · subst h; simp [evRetriable] at hk
        · exact ih (tries + 1) ev h hk
    intro ev hev hk
    obtain ⟨h1, h2⟩ := gen script 0 ev hev hk
    refine ⟨h1, fun hs => ?_⟩
    have hl := nameOk_local c.cand (h2 hs)
    exact ⟨hl, hl.pclean_eq⟩
  · intro hn
    exact fullOut_ne_manifest ⟨.concat, c.root, c.outDir⟩ (nameOk_local c.cand hn) (basename_ne_manifestFile c.cand)

/-! ### non-vacuity: concrete runs that exercise the clauses -/

/-- uncanonical names everywhere (candidate "x/../sub//rc0", out dir "./out//"): a retriable commit failure,
    then success — both attempts work on the same cleaned paths and Result gets the canonical name. -/
example :
    let r := retrySubmit exCfgNames exEntryNames 1 [⟨some 6, true, .notFound, false⟩, ⟨none, false, .notFound, false⟩]
    r.2 = .ok ∧ attempts r.1 = 2 ∧
    (⟨0, .writeFiles, true, "R/out/sub/rc0.binarypb", []⟩ : Ev) ∈ r.1 ∧
    (⟨1, .writeFiles, true, "R/out/sub/rc0.binarypb", []⟩ : Ev) ∈ r.1 ∧
    (⟨1, .writeManifest, true, "R/out/manifest.textproto", [exEntryNames]⟩ : Ev) ∈ r.1 ∧
    evResult 1 true "sub/rc0.binarypb" ∈ r.1 := by
  decide +kernel

/-- a climbing name with --overwrite: one attempt that reads the manifest and stops; permanent error. -/
example :
    nameOk exCfgClimb.cand = false ∧
    retrySubmit exCfgClimb exEntry 3 [⟨none, false, .notFound, true⟩, ⟨none, false, .notFound, false⟩] =
      ([evGetOps 0 true, ⟨0, .readManifest, true, "R/out/manifest.textproto", []⟩, evDestroy 0, evRetriable 0 false], .err) := by
  decide +kernel


/-- budget 2: a retriable commit failure, then a retriable manifest-write failure while a concurrent
    writer has added `exOther2`, then success: three attempts, two destroys, one result, and the
    committed manifest keeps both foreign entries. -/
example :
    let script : List Attempt :=
      [⟨some 6, true, .ok [exOther], false⟩, ⟨some 5, true, .ok [exOther, exOther2], false⟩,
       ⟨none, false, .ok [exOther, exOther2], false⟩]
    let r := retrySubmit exCfg exEntry 2 script
    r.2 = .ok ∧ attempts r.1 = 3 ∧ r.1.count (evDestroy 0) = 1 ∧ r.1.count (evDestroy 1) = 1 ∧
    r.1.count (evDestroy 2) = 0 ∧ r.1.countP isResult = 1 ∧
    (⟨2, .writeManifest, true, "R/out/manifest.textproto", [exOther, exOther2, exEntry]⟩ : Ev) ∈ r.1 := by
  decide

/-- negative budget: exactly one attempt, then ErrNoRetries although the error was retriable;
    zero budget with a permanent error: one attempt and the error itself. -/
example :
    (retrySubmit exCfg exEntry (-2) [⟨some 0, true, .notFound, false⟩, ⟨none, true, .notFound, false⟩]).2 = .noRetries ∧
    attempts (retrySubmit exCfg exEntry (-2) [⟨some 0, true, .notFound, false⟩, ⟨none, true, .notFound, false⟩]).1 = 1 ∧
    (retrySubmit exCfg exEntry 0 [⟨some 3, false, .notFound, false⟩]).2 = .err ∧
    (retrySubmit exCfg exEntry 0 [⟨some 3, false, .notFound, false⟩]).1 =
      [evGetOps 0 true, ⟨0, .readManifest, true, "R/out/manifest.textproto", []⟩,
       ⟨0, .readFile, true, "R/out/rc0.binarypb", []⟩, ⟨0, .writeFiles, false, "R/out/rc0.binarypb", []⟩,
       evDestroy 0, evRetriable 0 false] := by
  decide

/-- the budget bound is tight: budget 1 with two retriable failures makes exactly 2 attempts. -/
example :
    attempts (retrySubmit exCfg exEntry 1 [⟨some 6, true, .notFound, false⟩, ⟨some 6, true, .notFound, false⟩,
      ⟨none, true, .notFound, false⟩]).1 = 2 := by
  decide

end GceTcb.Commit
