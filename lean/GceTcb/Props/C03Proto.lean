import GceTcb.Props.C03
import GceTcb.Proofs.ProtoPipeline
import GceTcb.Proofs.ProtoWireTotal
import GceTcb.Proofs.ProtoWireTyped
import GceTcb.Model.EndorseTables
/-
C03 (continued) — the protobuf law of C03 / C06 as a theorem.

`Props/C03.lean` assumes `Laws P`, one of whose fields is `unmarshal (marshal g) = some g`.  Here the
wire format of the five endorsement messages is a Lean codec (`Model/ProtoWire.lean`, compared with
google.golang.org/protobuf byte for byte and value for value on every run, stream `c03proto`), the
law is proved for it, and the C03 main theorems are re-proved with protobuf instantiated by the codec;
what remains assumed is RSA-PSS and X.509 (`CryptoLaws`).

Canonical form.  Messages are Lean records; a Go map is represented by its association list, and the
canonical representative has strictly ascending keys (`SortedKeys`) — `canon…` sorts and removes
overwritten duplicates, and is the identity on such lists.  `Wf…` says that every scalar fits the Go
type of its field (uint32 / uint64 / int64 / int32) and that no unknown-field bytes are attached.
All round trips are for encodings shorter than 2^64 bytes (a length prefix is a uint64).
-/
namespace GceTcb.C03Proto
open GceTcb GceTcb.ProtoWire GceTcb.ProtoEndorse GceTcb.Pipeline GceTcb.Policy

/-! ## varints, length prefixes, single fields -/

/-- protowire.ConsumeVarint (AppendVarint n ++ rest) = (n, rest) for every uint64 n. -/
theorem C03_proto_varint_roundtrip (n : Nat) (rest : Bytes) (h : n < 2 ^ 64) :
    decodeVarint (encodeVarint n ++ rest) = some (n, rest) := by
  rw [decodeVarint_encodeVarint, Nat.mod_eq_of_lt h]

/-- an encoded varint has between 1 and 10 bytes -/
theorem C03_proto_varint_size (n : Nat) : 1 ≤ (encodeVarint n).length ∧ (encodeVarint n).length ≤ 10 :=
  encodeVarint_length n

/-- varint encodings are prefix-free: from equal concatenations both the value and the rest follow -/
theorem C03_proto_varint_prefix_free (a b : Nat) (r₁ r₂ : Bytes) (ha : a < 2 ^ 64) (hb : b < 2 ^ 64)
    (h : encodeVarint a ++ r₁ = encodeVarint b ++ r₂) : a = b ∧ r₁ = r₂ := by
  have h1 := C03_proto_varint_roundtrip a r₁ ha
  rw [h, C03_proto_varint_roundtrip b r₂ hb] at h1
  simp only [Option.some.injEq, Prod.mk.injEq] at h1
  exact ⟨h1.1.symm, h1.2.symm⟩

/-- whatever ConsumeVarint accepts is a uint64, and it consumed at least one byte -/
theorem C03_proto_varint_decoded (b : Bytes) (v : Nat) (r : Bytes) (h : decodeVarint b = some (v, r)) :
    v < 2 ^ 64 ∧ r.length < b.length :=
  ⟨decodeVarint_bound b v r h, decodeVarint_lt b v r h⟩

/-- protowire.ConsumeBytes (AppendBytes p ++ rest) = (p, rest): length-delimited values are self-delimiting -/
theorem C03_proto_len_roundtrip (p rest : Bytes) (h : p.length < 2 ^ 64) :
    decodeLen (encodeVarint p.length ++ (p ++ rest)) = some (p, rest) :=
  decodeLen_encode p rest h

/-- every emitted field reads back as itself whatever follows it (fields are prefix-free), hence the
    field loop recovers exactly the list of fields that was emitted -/
theorem C03_proto_fields_roundtrip (fs : List Field) (hs : ∀ f ∈ fs, f.Shape) (hsz : (encFields fs).length < 2 ^ 64) :
    (∀ f ∈ fs, ∀ rest, readField (encField f ++ rest) = some (f, rest)) ∧ parseFields (encFields fs) = some fs :=
  ⟨good_of_shape fs hs hsz, parseFields_encFields fs (good_of_shape fs hs hsz)⟩

/-! ## totality: the decoders terminate, for the right reason -/

/-- reading one field consumes at least one byte -/
theorem C03_proto_progress (b : Bytes) (f : Field) (r : Bytes) (h : readField b = some (f, r)) :
    r.length < b.length := readField_lt b f r h

/-- The field loop (`for len(b) > 0`) is run with fuel = number of bytes; more fuel never changes its
    result, so `none` always means malformed input, never exhausted fuel. -/
theorem C03_proto_fuel_fields (b : Bytes) (n : Nat) (h : b.length ≤ n) : parseFieldsF n b = parseFields b :=
  parseFieldsF_fuel n b.length b h (Nat.le_refl _)

/-- the same for the iterative skipper of unknown groups -/
theorem C03_proto_fuel_groups (b : Bytes) (st : List Nat) (n : Nat) (h : b.length ≤ n) :
    skipGroups n st b = skipGroups b.length st b :=
  skipGroups_fuel n b.length st b h (Nat.le_refl _)

/-- at most one loop iteration (one field) per input byte: decoding is linear in the input -/
theorem C03_proto_iterations (b : Bytes) (fs : List Field) (h : parseFields b = some fs) : fs.length ≤ b.length :=
  parseFieldsF_length b.length b fs h

/-- Whatever bytes the decoder accepts — encodings or not — the result is well-typed (every scalar fits
    the Go type of its field) and canonical (the measurement map has strictly ascending keys, so
    `canon` fixes it): an untrusted payload can only ever yield a message of the proved form. -/
theorem C03_proto_decoded_typed (b : Bytes) (g : WGolden) (h : decodeGolden b = some g) :
    TypedGolden g ∧ canonGolden g = g := ⟨decodeGolden_typed b g h, decodeGolden_canon b g h⟩

theorem C03_proto_decoded_typed_parts (b : Bytes) :
    (∀ s, decodeSevSnp b = some s → TypedSevSnp s) ∧ (∀ d, decodeTdx b = some d → TypedTdx d) ∧
    (∀ t, decodeTimestamp b = some t → TypedTimestamp t) :=
  ⟨fun s h => decodeSevSnp_typed b s h, fun d h => decodeTdx_typed b d h, fun t h => decodeTimestamp_typed b t h⟩

/-! ## the five messages: Unmarshal ∘ Marshal -/

theorem C03_proto_timestamp_roundtrip (t : WTimestamp) (hw : WfTimestamp t) :
    decodeTimestamp (encodeTimestamp t) = some t := decodeTimestamp_encode t hw

theorem C03_proto_row_roundtrip (r : WRow) (hw : WfRow r) (hsz : (encodeRow r).length < 2 ^ 64) :
    decodeRow (encodeRow r) = some r := decodeRow_encode r hw hsz

theorem C03_proto_tdx_roundtrip (d : WTdx) (hw : WfTdx d) (hsz : (encodeTdx d).length < 2 ^ 64) :
    decodeTdx (encodeTdx d) = some d := decodeTdx_encode d hw hsz

theorem C03_proto_entry_roundtrip (k : Nat) (v : Bytes) (hk : k < 4294967296) (hsz : (encodeEntry k v).length < 2 ^ 64) :
    decodeEntry (encodeEntry k v) = some (k, v) := decodeEntry_encode k v hk hsz

/-- proto.Marshal (map entries in any order, duplicates allowed: later wins) then Unmarshal -/
theorem C03_proto_sevsnp_roundtrip_raw (s : WSevSnp) (hw : WfSevSnp s) (hsz : (encodeSevSnpRaw s).length < 2 ^ 64) :
    decodeSevSnp (encodeSevSnpRaw s) = some (canonSevSnp s) := decodeSevSnp_encodeRaw s hw hsz

/-- MarshalOptions{Deterministic: true} then Unmarshal -/
theorem C03_proto_sevsnp_roundtrip (s : WSevSnp) (hw : WfSevSnp s) (hsz : (encodeSevSnp s).length < 2 ^ 64) :
    decodeSevSnp (encodeSevSnp s) = some (canonSevSnp s) := by
  unfold encodeSevSnp at *
  rw [decodeSevSnp_encodeRaw _ (wf_canonSevSnp s hw) hsz, canonSevSnp_idem]

theorem C03_proto_golden_roundtrip_raw (g : WGolden) (hw : WfGolden g) (hsz : (encodeGoldenRaw g).length < 2 ^ 64) :
    decodeGolden (encodeGoldenRaw g) = some (canonGolden g) := decodeGolden_encodeRaw g hw hsz

theorem C03_proto_golden_roundtrip (g : WGolden) (hw : WfGolden g) (hsz : (encodeGolden g).length < 2 ^ 64) :
    decodeGolden (encodeGolden g) = some (canonGolden g) := by
  unfold encodeGolden at *
  rw [decodeGolden_encodeRaw _ (wf_canonGolden g hw) hsz, canonGolden_idem]

theorem C03_proto_endorsement_roundtrip (e : WEndorsement) (hw : WfEndorsement e)
    (hsz : (encodeEndorsement e).length < 2 ^ 64) : decodeEndorsement (encodeEndorsement e) = some e :=
  decodeEndorsement_encode e hw hsz

/-! ## canonical form, determinism, injectivity -/

/-- `canon` is the identity exactly on messages whose map is in canonical form … -/
theorem C03_proto_canon_id (s : WSevSnp) : canonSevSnp s = s ↔ SortedKeys s.measurements := by
  constructor
  · intro h
    have : normMap s.measurements = s.measurements := by
      have := congrArg WSevSnp.measurements h
      simpa [canonSevSnp] using this
    exact this ▸ normMap_is_sorted s.measurements
  · intro h
    cases s
    simp only [canonSevSnp, WSevSnp.mk.injEq, true_and, and_true] at h ⊢
    exact normMap_sorted _ h

/-- … is idempotent, and its result is always in canonical form -/
theorem C03_proto_canon_idem (g : WGolden) :
    canonGolden (canonGolden g) = canonGolden g ∧ ∀ s, (canonGolden g).sevSnp = some s → SortedKeys s.measurements := by
  refine ⟨canonGolden_idem g, ?_⟩
  intro s hs
  simp only [canonGolden, Option.map_eq_some_iff] at hs
  obtain ⟨s0, _, rfl⟩ := hs
  exact normMap_is_sorted _

/-- Go's map iteration order does not matter: every listing of the same duplicate-free entries denotes
    the same map, so the verifier reads the same message whatever order proto.Marshal emitted, and the
    deterministic encoding does not depend on it at all. -/
theorem C03_proto_map_order (s : WSevSnp) (l' : List (Nat × Bytes)) (hn : (s.measurements.map (·.1)).Nodup)
    (hp : l'.Perm s.measurements) :
    canonSevSnp { s with measurements := l' } = canonSevSnp s ∧
    encodeSevSnp { s with measurements := l' } = encodeSevSnp s := by
  have h := normMap_perm s.measurements l' hn hp
  have hc : canonSevSnp { s with measurements := l' } = canonSevSnp s := by simp [canonSevSnp, h]
  exact ⟨hc, by unfold encodeSevSnp; rw [hc]⟩

/-- injectivity: two well-formed messages with the same encoding are the same message (up to the
    representation of the map) — no two different documents share a payload -/
theorem C03_proto_golden_injective (g₁ g₂ : WGolden) (h₁ : WfGolden g₁) (h₂ : WfGolden g₂)
    (hsz : (encodeGoldenRaw g₁).length < 2 ^ 64) (h : encodeGoldenRaw g₁ = encodeGoldenRaw g₂) :
    canonGolden g₁ = canonGolden g₂ := by
  have e1 := decodeGolden_encodeRaw g₁ h₁ hsz
  have e2 := decodeGolden_encodeRaw g₂ h₂ (h ▸ hsz)
  rw [h, e2] at e1
  exact (Option.some.inj e1).symm

theorem C03_proto_sevsnp_injective (s₁ s₂ : WSevSnp) (h₁ : WfSevSnp s₁) (h₂ : WfSevSnp s₂)
    (hsz : (encodeSevSnpRaw s₁).length < 2 ^ 64) (h : encodeSevSnpRaw s₁ = encodeSevSnpRaw s₂) :
    canonSevSnp s₁ = canonSevSnp s₂ := by
  have e1 := decodeSevSnp_encodeRaw s₁ h₁ hsz
  have e2 := decodeSevSnp_encodeRaw s₂ h₂ (h ▸ hsz)
  rw [h, e2] at e1
  exact (Option.some.inj e1).symm

theorem C03_proto_endorsement_injective (e₁ e₂ : WEndorsement) (h₁ : WfEndorsement e₁) (h₂ : WfEndorsement e₂)
    (hsz : (encodeEndorsement e₁).length < 2 ^ 64) (h : encodeEndorsement e₁ = encodeEndorsement e₂) : e₁ = e₂ := by
  have e1 := decodeEndorsement_encode e₁ h₁ hsz
  have e2 := decodeEndorsement_encode e₂ h₂ (h ▸ hsz)
  rw [h, e2] at e1
  exact (Option.some.inj e1).symm

/-- determinism: the deterministic encoding is a function of the canonical form alone -/
theorem C03_proto_deterministic (g₁ g₂ : WGolden) (h : canonGolden g₁ = canonGolden g₂) :
    encodeGolden g₁ = encodeGolden g₂ := by
  unfold encodeGolden; rw [h]

/-! ## what the signer builds -/

/-- regenerated table: the supported VMSA counts are strictly ascending, fit uint32, the production
    policy fits uint64 -/
theorem C03_proto_tables :
    Endorse.genTables.vmsaCounts.Pairwise (· < ·) ∧ (∀ k ∈ Endorse.genTables.vmsaCounts, k < 4294967296) ∧
    Endorse.genTables.policy < 18446744073709551616 := by
  refine ⟨by decide, by decide, by decide⟩

/-- `canon m = m` for every document endorse.GoldenMeasurement + endorse.SignDoc build -/
theorem C03_proto_signer_canon (P : Endorse.Prims) (T : Endorse.Tables) (c : Endorse.Ctx) (g d : Endorse.Golden)
    (keys : Option Endorse.Keys) (ts : Int × Nat) (sig : Bytes) (hT : T.vmsaCounts.Pairwise (· < ·))
    (hg : Endorse.goldenMeasurement P T c = .ok g) (hs : Endorse.signDoc keys ts g = .ok (d, sig)) :
    canonGolden (ofGolden d) = ofGolden d := signer_canon P T c g d keys ts sig hT hg hs

/-- … and that document is well-formed for the wire when the request's values fit their Go types -/
theorem C03_proto_signer_wf (P : Endorse.Prims) (T : Endorse.Tables) (c : Endorse.Ctx) (g d : Endorse.Golden)
    (keys : Option Endorse.Keys) (ts : Int × Nat) (sig : Bytes) (hT : T.vmsaCounts.Pairwise (· < ·))
    (hty : GoTyped T c ts) (hg : Endorse.goldenMeasurement P T c = .ok g)
    (hs : Endorse.signDoc keys ts g = .ok (d, sig)) : WfGolden (ofGolden d) :=
  signer_wf P T c g d keys ts sig hT hty hg hs

/-- The verifier's Unmarshal of the payload SignDoc marshalled (proto.Marshal: the measurement map in
    ANY iteration order `σ`) is exactly the document SignDoc held. -/
theorem C03_proto_signer_roundtrip (P : Endorse.Prims) (T : Endorse.Tables) (c : Endorse.Ctx) (g d : Endorse.Golden)
    (keys : Option Endorse.Keys) (ts : Int × Nat) (sig : Bytes) (hT : T.vmsaCounts.Pairwise (· < ·))
    (hty : GoTyped T c ts) (hg : Endorse.goldenMeasurement P T c = .ok g)
    (hs : Endorse.signDoc keys ts g = .ok (d, sig))
    (σ : List (Nat × Bytes) → List (Nat × Bytes)) (hσ : ∀ l, (σ l).Perm l)
    (hsz : (encodeGoldenRaw (reorderGolden σ (ofGolden d))).length < 2 ^ 64) :
    decodeGolden (encodeGoldenRaw (reorderGolden σ (ofGolden d))) = some (ofGolden d) := by
  rw [decodeGolden_encodeRaw _ (wf_reorderGolden σ hσ _ (signer_wf P T c g d keys ts sig hT hty hg hs)) hsz,
    canon_reorderGolden σ hσ _ (signer_canon P T c g d keys ts sig hT hg hs)]

/-! ## C03 with protobuf discharged -/

/-- The protobuf law of `Laws` for the codec instance: for every representable document and every map
    iteration order, `unmarshal (marshal g) = some g`; the other two laws are the crypto assumptions. -/
theorem C03_proto_laws (X : Crypto) (hX : CryptoLaws X) (ord : List (Nat × Bytes) → List (Nat × Bytes))
    (hord : ∀ l, (ord l).Perm l) :
    (∀ k m, (wirePrims X ord).checkSig k m ((wirePrims X ord).sign k m) = true) ∧
    (∀ g, Representable g → ((wirePrims X ord).marshal g).length < 2 ^ 64 →
      (wirePrims X ord).unmarshal ((wirePrims X ord).marshal g) = some g) ∧
    (∀ (c r : Cert) (now : Nat), c.issuer = r.subject → r.issuer = r.subject → r.isCA = true →
      r.valid now → c.valid now → (wirePrims X ord).verifyChain c [r] now = true) :=
  ⟨hX.sig_ok, fun g hg hsz => unmarshal_marshal_wire X hX ord hord g hg hsz, hX.chain_ok⟩

/-- The law as `Laws` states it — for EVERY `g : Golden`, whose `clSpec` is an unbounded `Nat` — holds
    for no byte codec with a uint64 field: 2^64 and 0 marshal alike.  (So the restriction to
    representable documents above is necessary, and `Laws refPrims` is satisfiable only because the
    reference wire format is the identity.) -/
theorem C03_proto_laws_need_range (X : Crypto) (ord : List (Nat × Bytes) → List (Nat × Bytes)) :
    ¬ Laws (wirePrims X ord) := by
  intro h
  have h1 := h.unmarshal_marshal ⟨[], 18446744073709551616, [], 0, none, none, none⟩
  have h0 := h.unmarshal_marshal ⟨[], 0, [], 0, none, none, none⟩
  have e : (wirePrims X ord).marshal ⟨[], 18446744073709551616, [], 0, none, none, none⟩ =
      (wirePrims X ord).marshal ⟨[], 0, [], 0, none, none, none⟩ := by
    simp [wirePrims, marshalGolden, toWire, encodeGoldenRaw, goldenFields, optVarint]
  rw [e, h0] at h1
  simp at h1

/-- `verify_endorse` of Props/C03 with the protobuf law supplied for the one document involved -/
theorem C03_proto_verify_endorse {β : Type} (P : Prims β)
    (hsig : ∀ k m, P.checkSig k m (P.sign k m) = true)
    (hchain : ∀ (c r : Cert) (now : Nat), c.issuer = r.subject → r.issuer = r.subject → r.isCA = true →
      r.valid now → c.valid now → P.verifyChain c [r] now = true)
    (cd : Nat) (ca : CA) (hw : WellFormed ca)
    (r : Request) (hp : hasProvenance r) (t : Nat) (hr : ca.root.valid t) (hs : ca.primary.valid t)
    (hum : P.unmarshal (P.marshal ⟨r.digest, r.clSpec, r.commit, r.timestamp, some ca.primary, r.sev, r.tdx⟩) =
      some ⟨r.digest, r.clSpec, r.commit, r.timestamp, some ca.primary, r.sev, r.tdx⟩)
    (ed : Bytes) (hed : ed = [] ∨ ed = r.digest) (so : Option SNPOptions)
    (hso : ∀ o, so = some o → snp r.sev o = true) :
    verifyEndorsement P cd (endorse P ca r) ⟨some [ca.root], t, ed, so⟩ = true := by
  unfold verifyEndorsement endorse
  simp only [hum]
  have hprov : (decide (r.timestamp > cd) && r.clSpec == 0 && r.commit.isEmpty) = false := by
    rcases hp with h | h
    · have : (r.clSpec == 0) = false := by simpa using h
      simp [this]
    · have : r.commit.isEmpty = false := by
        cases hc : r.commit with
        | nil => exact absurd hc h
        | cons _ _ => rfl
      simp [this]
  have hchain' : P.verifyChain ca.primary [ca.root] t = true :=
    hchain ca.primary ca.root t hw.prim_issuer hw.root_self hw.root_ca hr hs
  have hsig' : P.checkSig ca.primary.subject
      (P.marshal ⟨r.digest, r.clSpec, r.commit, r.timestamp, some ca.primary, r.sev, r.tdx⟩)
      (P.sign ca.primaryKey (P.marshal ⟨r.digest, r.clSpec, r.commit, r.timestamp, some ca.primary, r.sev, r.tdx⟩)) = true := by
    rw [hw.prim_key]; exact hsig _ _
  have hdig : (!ed.isEmpty && ed != r.digest) = false := by
    rcases hed with h | h
    · simp [h]
    · simp [h]
  simp only [gt_iff_lt, hprov, Bool.false_eq_true, if_false, hchain', Bool.not_true, hsig', hdig]
  cases so with
  | none => rfl
  | some o => exact hso o rfl

/-- the request's values fit the wire (the certificate is filled in by the signer) -/
def RepresentableReq (r : Request) : Prop :=
  Representable ⟨r.digest, r.clSpec, r.commit, r.timestamp, none, r.sev, r.tdx⟩

theorem C03_proto_rep_with_cert (r : Request) (h : RepresentableReq r) (c : Cert) :
    Representable ⟨r.digest, r.clSpec, r.commit, r.timestamp, some c, r.sev, r.tdx⟩ :=
  ⟨h.clSpec, h.timestamp, h.sev, h.tdx⟩

/-- C03 main theorem with the protobuf hypothesis discharged: over real payload bytes — marshalled by
    the codec in any map order, signed, stored, unmarshalled by the codec — the endorsement the pipeline
    writes verifies under the authority's root at any time inside both validity windows, after
    bootstrap and any number of rotations.  Assumed: RSA-PSS and X.509 (`CryptoLaws`) only. -/
theorem C03_signed_verifies_wire (X : Crypto) (hX : CryptoLaws X) (ord : List (Nat × Bytes) → List (Nat × Bytes))
    (hord : ∀ l, (ord l).Perm l) (L : Lifetimes) (cd t0 : Nat) (rots : List Nat)
    (r : Request) (hp : hasProvenance r) (hrep : RepresentableReq r) (t : Nat)
    (hr : (history L t0 rots).root.valid t) (hs : (history L t0 rots).primary.valid t)
    (hsz : (endorse (wirePrims X ord) (history L t0 rots) r).payload.length < 2 ^ 64) :
    verifyEndorsement (wirePrims X ord) cd (endorse (wirePrims X ord) (history L t0 rots) r)
      ⟨some [(history L t0 rots).root], t, [], none⟩ = true :=
  C03_proto_verify_endorse (wirePrims X ord) hX.sig_ok hX.chain_ok cd _ (wf_history L t0 rots) r hp t hr hs
    (unmarshal_marshal_wire X hX ord hord _ (C03_proto_rep_with_cert r hrep _) hsz) [] (Or.inl rfl) none
    (by intro o h; cases h)

/-- … also when the verifier names the firmware digest … -/
theorem C03_signed_verifies_digest_wire (X : Crypto) (hX : CryptoLaws X) (ord : List (Nat × Bytes) → List (Nat × Bytes))
    (hord : ∀ l, (ord l).Perm l) (L : Lifetimes) (cd t0 : Nat) (rots : List Nat)
    (r : Request) (hp : hasProvenance r) (hrep : RepresentableReq r) (t : Nat)
    (hr : (history L t0 rots).root.valid t) (hs : (history L t0 rots).primary.valid t)
    (hsz : (endorse (wirePrims X ord) (history L t0 rots) r).payload.length < 2 ^ 64) :
    verifyEndorsement (wirePrims X ord) cd (endorse (wirePrims X ord) (history L t0 rots) r)
      ⟨some [(history L t0 rots).root], t, r.digest, none⟩ = true :=
  C03_proto_verify_endorse (wirePrims X ord) hX.sig_ok hX.chain_ok cd _ (wf_history L t0 rots) r hp t hr hs
    (unmarshal_marshal_wire X hX ord hord _ (C03_proto_rep_with_cert r hrep _) hsz) r.digest (Or.inr rfl) none
    (by intro o h; cases h)

/-- … and after further rotations (the root is invariant, the payload carries its certificate). -/
theorem C03_old_endorsements_survive_wire (X : Crypto) (hX : CryptoLaws X) (ord : List (Nat × Bytes) → List (Nat × Bytes))
    (hord : ∀ l, (ord l).Perm l) (L : Lifetimes) (cd t0 : Nat) (rots later : List Nat)
    (r : Request) (hp : hasProvenance r) (hrep : RepresentableReq r) (t : Nat)
    (hr : (history L t0 rots).root.valid t) (hs : (history L t0 rots).primary.valid t)
    (hsz : (endorse (wirePrims X ord) (history L t0 rots) r).payload.length < 2 ^ 64) :
    verifyEndorsement (wirePrims X ord) cd (endorse (wirePrims X ord) (history L t0 rots) r)
      ⟨some [(history L t0 (rots ++ later)).root], t, [], none⟩ = true := by
  have hroot : (history L t0 (rots ++ later)).root = (history L t0 rots).root := by
    unfold history
    rw [List.foldl_append, root_rotations]
  rw [hroot]
  exact C03_signed_verifies_wire X hX ord hord L cd t0 rots r hp hrep t hr hs hsz

/-- The stored bytes are the signed bytes: an independent signature check over the emitted payload under
    the key of the certificate the payload carries succeeds (inspect output, raw form). -/
theorem C03_bytes_verbatim_wire (X : Crypto) (hX : CryptoLaws X) (ord : List (Nat × Bytes) → List (Nat × Bytes))
    (hord : ∀ l, (ord l).Perm l) (ca : CA) (hw : WellFormed ca) (r : Request) (hrep : RepresentableReq r)
    (hsz : (endorse (wirePrims X ord) ca r).payload.length < 2 ^ 64) :
    inspectCert (wirePrims X ord) (endorse (wirePrims X ord) ca r) = some ca.primary ∧
    X.checkSig ca.primary.subject (inspectPayload (endorse (wirePrims X ord) ca r))
      (inspectSignature (endorse (wirePrims X ord) ca r)) = true := by
  constructor
  · have := unmarshal_marshal_wire X hX ord hord _ (C03_proto_rep_with_cert r hrep ca.primary) hsz
    simp only [inspectCert, endorse]
    rw [show (wirePrims X ord).unmarshal = unmarshalGolden X from rfl,
      show (wirePrims X ord).marshal = marshalGolden X ord from rfl, this]
    rfl
  · simp only [inspectPayload, inspectSignature, endorse]
    rw [hw.prim_key]; exact hX.sig_ok _ _


/-! ## non-vacuity -/

/-- the sample document of the harness (tag `sample`): timestamp, provenance, a two-key measurement map
    listed in descending order, one TDX row -/
def sampleGolden : WGolden :=
  ⟨some ⟨1725148800, 5, []⟩, 7, [0xc0, 0xde], [], [0xd1, 0xd2, 0xd3], [],
   some ⟨3, [(2, [0xaa]), (1, [0xbb])], [], [], 196608, [], [], []⟩,
   some ⟨1, [⟨16, true, [0xcc], []⟩], []⟩, []⟩

def samplePayloadRaw : Bytes :=
  [0x0a, 0x08, 0x08, 0x80, 0xdd, 0xce, 0xb6, 0x06, 0x10, 0x05, 0x10, 0x07, 0x1a, 0x02, 0xc0, 0xde, 0x2a, 0x03, 0xd1, 0xd2,
   0xd3, 0x3a, 0x14, 0x08, 0x03, 0x12, 0x05, 0x08, 0x02, 0x12, 0x01, 0xaa, 0x12, 0x05, 0x08, 0x01, 0x12, 0x01, 0xbb, 0x28,
   0x80, 0x80, 0x0c, 0x42, 0x0b, 0x08, 0x01, 0x12, 0x07, 0x08, 0x10, 0x10, 0x01, 0x1a, 0x01, 0xcc]

/-- kernel-evaluated: the bytes Go's proto.Marshal produces for the sample (map order 2, 1) are the
    Lean encoding, and the Lean decoder reads them back with the map in canonical order -/
example : encodeGoldenRaw sampleGolden = samplePayloadRaw := by decide +kernel
example : decodeGolden samplePayloadRaw = some (canonGolden sampleGolden) := by decide +kernel
example : (canonGolden sampleGolden).sevSnp.map (·.measurements) = some [(1, [0xbb]), (2, [0xaa])] := by decide

/-- the sample meets the hypotheses of the round-trip theorems -/
example : WfGolden sampleGolden ∧ (encodeGoldenRaw sampleGolden).length < 2 ^ 64 := by
  refine ⟨⟨by decide, ?_, ?_, ?_, rfl⟩, by decide⟩
  · intro t ht
    simp only [sampleGolden, Option.some.injEq] at ht
    subst ht
    exact ⟨by decide, by decide, by decide, by decide, rfl⟩
  · intro s hs
    simp only [sampleGolden, Option.some.injEq] at hs
    subst hs
    exact ⟨by decide, by decide, by decide, rfl⟩
  · intro d hd
    simp only [sampleGolden, Option.some.injEq] at hd
    subst hd
    refine ⟨by decide, ?_, rfl⟩
    intro r hr
    simp only [List.mem_singleton] at hr
    subst hr
    exact ⟨by decide, rfl⟩

/-- malformed inputs are rejected by evaluation: truncated length, eleven-byte varint, tenth byte 2,
    stray end-group, field number 0, reserved wire type; an unknown group is kept verbatim -/
example : decodeGolden [0x1a, 0x05, 0x01] = none := by decide
example : decodeVarint [0x80, 0x80, 0x80, 0x80, 0x80, 0x80, 0x80, 0x80, 0x80, 0x80, 0x01] = none := by decide
example : decodeVarint [0xff, 0xff, 0xff, 0xff, 0xff, 0xff, 0xff, 0xff, 0xff, 0x02] = none := by decide
example : decodeVarint [0xff, 0xff, 0xff, 0xff, 0xff, 0xff, 0xff, 0xff, 0xff, 0x01] = some (18446744073709551615, []) := by decide
example : decodeVarint [0x80, 0x00] = some (0, []) := by decide      -- non-minimal encodings are accepted
example : decodeGolden [0x0c] = none := by decide
example : decodeGolden [0x00, 0x00] = none := by decide
example : decodeGolden [0x0e, 0x00] = none := by decide
example : (decodeGolden [0x4b, 0x08, 0x01, 0x4c, 0x10, 0x07]).map (fun g => (g.clSpec, g.unknown)) =
    some (7, [0x4b, 0x08, 0x01, 0x4c]) := by decide
/-- a known field with the wrong wire type is an unknown field, not an error -/
example : (decodeGolden [0x12, 0x01, 0x09]).map (fun g => (g.clSpec, g.unknown)) = some (0, [0x12, 0x01, 0x09]) := by decide

/-- a model of `CryptoLaws`: signatures record signer and message, certificates are written in unary -/
def unary (n : Nat) : Bytes := List.replicate n 1 ++ [0]

def unaryDec : Bytes → Option (Nat × Bytes)
  | [] => none
  | b :: r => if b = 0 then some (0, r) else
    match unaryDec r with
    | none => none
    | some (n, r') => some (n + 1, r')

theorem C03_proto_unary_roundtrip (n : Nat) (rest : Bytes) : unaryDec (unary n ++ rest) = some (n, rest) := by
  induction n with
  | zero => simp [unary, unaryDec]
  | succ n ih =>
    have : unary (n + 1) ++ rest = 1 :: (unary n ++ rest) := by simp [unary, List.replicate_succ]
    rw [this, unaryDec]
    simp [ih]

def refCrypto : Crypto where
  sign := fun k m => UInt8.ofNat k :: m
  checkSig := fun k m s => s == UInt8.ofNat k :: m
  verifyChain := refPrims.verifyChain
  certDer := fun c => unary c.subject ++ (unary c.issuer ++ (unary c.notBefore ++ (unary c.notAfter ++ [if c.isCA then 1 else 0])))
  parseCert := fun b =>
    match unaryDec b with
    | none => none
    | some (s, b1) =>
      match unaryDec b1 with
      | none => none
      | some (i, b2) =>
        match unaryDec b2 with
        | none => none
        | some (nb, b3) =>
          match unaryDec b3 with
          | none => none
          | some (na, b4) => some ⟨s, i, nb, na, b4 == [1]⟩

example : CryptoLaws refCrypto := by
  refine ⟨?_, ?_, ?_, ?_⟩
  · intro k m; simp [refCrypto]
  · intro c r now h1 h2 h3 h4 h5
    simp [refCrypto, refPrims, h1, h2, h3, h4.1, h4.2, h5.1, h5.2]
  · intro c
    simp only [refCrypto, C03_proto_unary_roundtrip]
    cases c with
    | mk s i nb na ca => cases ca <;> simp
  · intro c
    simp [refCrypto, unary]

/-- a representable request with provenance exists (so `C03_signed_verifies_wire` is not vacuous) -/
example : RepresentableReq ⟨[1], 7, [], 1725148800, some ⟨196608, 3, [(1, [0xbb]), (2, [0xaa])], [], []⟩,
    some [⟨16, true, [0xcc]⟩]⟩ := by
  refine ⟨by decide, by decide, ?_, ?_⟩
  · intro s hs
    simp only [Option.some.injEq] at hs
    subst hs
    refine ⟨by decide, by decide, by unfold SortedKeys; decide, by decide⟩
  · intro rows hr r hm
    simp only [Option.some.injEq] at hr
    subst hr
    simp only [List.mem_singleton] at hm
    subst hm
    decide

end GceTcb.C03Proto
