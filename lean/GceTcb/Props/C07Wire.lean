import GceTcb.Props.C07Dec
import GceTcb.Proofs.DecWire
/-
C07, verifier-glue half (continued) — protobuf unmarshalling of the endorsement inside the theorems.

`Props/C07Dec.lean` quantifies over every `Parsers` value; the totality and cost of the decoders
themselves are "measured, not proved", and the linear bounds assume `SizeLaw`.  Here the two protobuf
parsers of the endorsement (container, golden measurement) are the Lean wire codec
(`Model/ProtoWire.lean`; tied to google.golang.org/protobuf by stream `c03proto`, and through
verify.Endorsement itself by streams `c01wire` / `c07wire`), mapped into the model's parse shapes with the
nil-ness Go's Unmarshal leaves (`Model/DecWire.lean`).  For this instance:

  (a) no panic: verify.Endorsement end to end, for ALL byte strings (`C07_dec_wire_no_panic_Endorsement`);
      the codec itself is a total function whose loops run on fuel that is never exhausted
      (C03_proto_fuel_fields / _groups), so `none` is always "malformed", never "gave up";
  (b) cost, the unmarshalling INCLUDED: the instrumented decoders — proved to return exactly what the plain
      ones return — perform at most one loop iteration per input byte over ALL nesting levels together and
      allocate at most K·|input| (K = bytes per heap object), on accepted and on rejected inputs alike
      (`C07_dec_wire_unmarshal_cost_*`); the size law holds (`C07_dec_wire_size_law`), so
      `C07_dec_linear_Endorsement` holds without `SizeLaw` (`C07_dec_wire_linear_Endorsement_glue`) and
      verify.Endorsement as a whole costs at most (K + 4)·|input| (`C07_dec_wire_linear_Endorsement`);
  (c) the shapes: which inputs leave a nil message pointer, a nil map, and that an empty `bytes` field is
      indistinguishable from an absent one (`C07_dec_wire_shape_*`).

Still parameters (every theorem holds for all their values): crypto/x509 parsing and chain building,
RSA-PSS verification, go-sev-guest / go-tdx-guest decoders and validators, pem, hex / base64, parsepath.
-/
namespace GceTcb.C07Wire
open GceTcb GceTcb.ProtoWire GceTcb.DecTotal GceTcb.DecWire GceTcb.C07Dec

variable {Cert Roots Time : Type}

/-! ## (a) no panic -/

/-- verify.Endorsement, unmarshalling included: no byte string makes it panic -/
theorem C07_dec_wire_no_panic_Endorsement (K : Nat) (P : Parsers Cert Roots Time) (ser : Bytes)
    (o : Options Roots Time) : NoPanic (endorsementE2E K P ser (some o)) :=
  C07_dec_no_panic_Endorsement (wireParsers P) ser o

/-- the outcome is the glue model's outcome for the codec instance (the trace is what is added) -/
theorem C07_dec_wire_e2e_out (K : Nat) (P : Parsers Cert Roots Time) (ser : Bytes) (o : Option (Options Roots Time)) :
    (endorsementE2E K P ser o).out = (endorsement (wireParsers P) ser o).out := rfl

/-- the other entry points that unmarshal an endorsement: instances of the general theorems -/
theorem C07_dec_wire_no_panic_others (P : Parsers Cert Roots Time) :
    (∀ e o, NoPanic (endorsementProto (wireParsers P) (some e) (some o))) ∧
    (∀ o att ser, NoPanic (snpClosure (wireParsers P) (some o) att ser)) ∧
    (∀ e o, NoPanic (sevPolicy (wireParsers P) e (some o))) ∧
    (∀ e o, NoPanic (tdxPolicy (wireParsers P) e (some o))) ∧
    (∀ att o, NoPanic (sevValidate (wireParsers P) att (some o))) ∧
    (∀ b o, NoPanic (tdxValidate (wireParsers P) b (some o))) ∧
    (∀ i e paths, NoPanic (inspectMask (wireParsers P) (some (some i)) (some e) paths)) :=
  ⟨fun e o => C07_dec_no_panic_EndorsementProto _ e o, fun o att ser => C07_dec_no_panic_SNPValidateFunc _ o att ser,
   fun e o => C07_dec_no_panic_SevPolicy _ e o, fun e o => C07_dec_no_panic_TdxPolicy _ e o,
   fun att o => C07_dec_no_panic_SevValidate _ att o, fun b o => C07_dec_no_panic_TdxValidate _ b o,
   fun i e paths => C07_dec_no_panic_InspectMask _ i e paths⟩

/-! ## (b) cost of the unmarshalling -/

/-- the instrumented decoders decide and return exactly what the plain decoders do -/
theorem C07_dec_wire_unmarshal_same (K : Nat) (b : Bytes) :
    (decodeGoldenM K b).out = toOut (decodeGolden b) ∧ (decodeEndorsementM b).out = toOut (decodeEndorsement b) :=
  ⟨decodeGoldenM_out K b, decodeEndorsementM_out b⟩

theorem C07_dec_wire_unmarshal_same_nested (K : Nat) (b : Bytes) :
    (∀ m, (decodeSevSnpIntoM K m b).out = toOut (decodeSevSnpInto m b)) ∧
    (∀ m, (decodeTdxIntoM K m b).out = toOut (decodeTdxInto m b)) ∧
    (∀ m, (decodeTimestampIntoM m b).out = toOut (decodeTimestampInto m b)) ∧
    (decodeRowM b).out = toOut (decodeRow b) ∧ (decodeEntryM b).out = toOut (decodeEntry b) :=
  ⟨fun m => decodeSevSnpIntoM_out K m b, fun m => decodeTdxIntoM_out K m b, fun m => decodeTimestampIntoM_out m b,
   decodeRowM_out b, decodeEntryM_out b⟩

/-- every field read occupies at least the bytes of its canonical re-encoding (a canonical tag is never
    longer than the tag on the wire), so what is kept of unknown fields never exceeds the input -/
theorem C07_dec_wire_field_weight (b : Bytes) (f : Field) (r : Bytes) (h : readField b = some (f, r)) :
    f.unknownBytes.length + r.length ≤ b.length ∧ (∀ p, f.val = .len p → p.length + 2 ≤ f.unknownBytes.length) :=
  ⟨readField_weight b f r h, fun p hp => readField_len_weight b f r p h hp⟩

/-- proto.Unmarshal into VMGoldenMeasurement, all nesting levels together (timestamp, sev_snp and its map
    entries, tdx and its rows): at most one loop iteration per input byte, at most K·|input| bytes
    allocated — for EVERY byte string, also when the input is rejected half-way. -/
theorem C07_dec_wire_unmarshal_cost_golden (K : Nat) (hK : 1 ≤ K) (b : Bytes) :
    (decodeGoldenM K b).tr.ticks ≤ b.length ∧ (decodeGoldenM K b).tr.alloc ≤ K * b.length :=
  decodeGoldenM_cost K hK b

/-- proto.Unmarshal into VMLaunchEndorsement: at most |input| iterations and |input| bytes copied -/
theorem C07_dec_wire_unmarshal_cost_endorsement (b : Bytes) :
    (decodeEndorsementM b).tr.ticks ≤ b.length ∧ (decodeEndorsementM b).tr.alloc ≤ b.length :=
  decodeEndorsementM_cost b

/-- nested decoders, each started from any message already held (merge) -/
theorem C07_dec_wire_unmarshal_cost_nested (K : Nat) (hK : 1 ≤ K) (b : Bytes) :
    (∀ m, (decodeSevSnpIntoM K m b).tr.ticks ≤ b.length ∧ (decodeSevSnpIntoM K m b).tr.alloc ≤ K * b.length) ∧
    (∀ m, (decodeTdxIntoM K m b).tr.ticks ≤ b.length ∧ (decodeTdxIntoM K m b).tr.alloc ≤ K * b.length) ∧
    (∀ m, (decodeTimestampIntoM m b).tr.ticks ≤ b.length ∧ (decodeTimestampIntoM m b).tr.alloc ≤ K * b.length) :=
  ⟨fun m => decodeSevSnpIntoM_cost K hK m b, fun m => decodeTdxIntoM_cost K hK m b,
   fun m => decodeTimestampIntoM_cost K hK m b⟩

/-- The size of the decoded structure, as a statement about the decoded VALUE alone (independent of the cost
    accounting): the bytes held by every byte-string field and every unknown-field buffer at every nesting
    level, plus one per heap object (embedded message, TDX row, map entry), are at most the number of input
    bytes — no additive constant.  With objects of at most K bytes: the structure occupies ≤ K·|input|. -/
theorem C07_dec_wire_structure_size (b : Bytes) :
    (∀ g, decodeGolden b = some g → heldGolden g ≤ b.length) ∧
    (∀ e, decodeEndorsement b = some e → heldEndorsement e ≤ b.length) :=
  ⟨fun g h => decodeGolden_held b g h, fun e h => decodeEndorsement_held b e h⟩

theorem C07_dec_wire_nMeas (g : WGolden) : nMeas (pGoldenOfWire g) = (g.sevSnp.map (·.measurements.length)).getD 0 := by
  unfold nMeas pGoldenOfWire
  cases g.sevSnp with
  | none => rfl
  | some s =>
    simp only [Option.map_some, Option.bind_some, pSevOfWire, Option.getD_some]
    cases hm : s.measurements <;> simp

theorem C07_dec_wire_nRows (g : WGolden) : nRows (pGoldenOfWire g) = (g.tdx.map (·.measurements.length)).getD 0 := by
  unfold nRows pGoldenOfWire
  cases g.tdx with
  | none => rfl
  | some d => simp [pTdxOfWire]

/-- The size law of `C07Dec.SizeLaw`, proved for the codec: a decoded golden measurement has no more map
    entries and rows than its encoding has bytes; the payload (and signature) a container carries is no
    longer than the container. -/
theorem C07_dec_wire_size_law (P : Parsers Cert Roots Time) :
    (∀ b g, (wireParsers P).unmarshalGolden b = some g → nMeas g + nRows g ≤ b.length) ∧
    (∀ b e, (wireParsers P).unmarshalEndorsement b = some e → e.payload.length ≤ b.length ∧
      e.signature.length ≤ b.length) := by
  constructor
  · intro b g h
    have h' : (decodeGolden b).map pGoldenOfWire = some g := h
    obtain ⟨w, hw, rfl⟩ := Option.map_eq_some_iff.mp h'
    have := decodeGolden_entriesRows b w hw
    rw [C07_dec_wire_nMeas, C07_dec_wire_nRows]
    exact this
  · intro b e h
    have h' : (decodeEndorsement b).map pEndorsementOfWire = some e := h
    obtain ⟨w, hw, rfl⟩ := Option.map_eq_some_iff.mp h'
    exact decodeEndorsement_sizes b w hw

/-- `C07_dec_linear_Endorsement` with the `SizeLaw` hypothesis removed: the glue's own cost ≤ 1·|input| + 0 -/
theorem C07_dec_wire_linear_Endorsement_glue (P : Parsers Cert Roots Time) (ser : Bytes) (o : Options Roots Time) :
    CostLe (endorsement (wireParsers P) ser (some o)) (1 * ser.length + 0) := by
  refine costLe_mono (C07_dec_cost_bound_Endorsement (wireParsers P) ser o) ?_
  unfold goldenOf
  cases he : (wireParsers P).unmarshalEndorsement ser with
  | none => simp
  | some e =>
    cases hg : (wireParsers P).unmarshalGolden e.payload with
    | none => simp [hg]
    | some g =>
      have h1 := (C07_dec_wire_size_law P).1 _ _ hg
      have h2 := ((C07_dec_wire_size_law P).2 _ _ he).1
      simp [hg]; omega

/-- … likewise `C07_dec_linear_TdxPolicy`: cost ≤ 2·|payload| -/
theorem C07_dec_wire_linear_TdxPolicy (P : Parsers Cert Roots Time) (e : PEndorsement) (o : TdxPolicyOptions) :
    CostLe (tdxPolicy (wireParsers P) (some e) (some o)) (2 * e.payload.length + 0) := by
  refine costLe_mono (C07_dec_cost_bound_TdxPolicy (wireParsers P) (some e) (some o)) ?_
  simp only [PEndorsement.getPayload, Option.map_some, Option.getD_some]
  cases h : (wireParsers P).unmarshalGolden e.payload with
  | none => simp
  | some g => have := (C07_dec_wire_size_law P).1 _ _ h; simp; omega

theorem C07_dec_wire_unmarshal_trace_cost (K : Nat) (hK : 1 ≤ K) (ser : Bytes) :
    (unmarshalTrace K ser).ticks ≤ 2 * ser.length ∧ (unmarshalTrace K ser).alloc ≤ (K + 1) * ser.length := by
  obtain ⟨c1, c2⟩ := decodeEndorsementM_cost ser
  unfold unmarshalTrace
  have ho := decodeEndorsementM_out ser
  cases hd : decodeEndorsement ser with
  | none =>
    rw [hd] at ho
    simp only [toOut] at ho
    simp only [ho]
    have : ser.length ≤ (K + 1) * ser.length := Nat.le_mul_of_pos_left _ (by omega)
    omega
  | some e =>
    rw [hd] at ho
    simp only [toOut] at ho
    simp only [ho]
    obtain ⟨g1, g2⟩ := decodeGoldenM_cost K hK e.serializedUefiGolden
    have hsz := (decodeEndorsement_sizes ser e hd).1
    have hk : K * e.serializedUefiGolden.length ≤ K * ser.length := Nat.mul_le_mul_left K hsz
    simp only [Trace.add]
    rw [Nat.add_mul, Nat.one_mul]
    omega

/-- (b) verify.Endorsement END TO END — both Unmarshal calls and the glue — for every byte string, every
    value of the remaining parsers and every options value: at most 3·|input| loop iterations, at most
    (K + 1)·|input| bytes allocated by the unmarshalling plus what the glue allocates; in the cost measure
    of `C07Dec` (iterations + allocation) at most (K + 4)·|input|. -/
theorem C07_dec_wire_linear_Endorsement (K : Nat) (hK : 1 ≤ K) (P : Parsers Cert Roots Time) (ser : Bytes)
    (o : Options Roots Time) :
    (endorsementE2E K P ser (some o)).tr.ticks ≤ 3 * ser.length ∧
    CostLe (endorsementE2E K P ser (some o)) ((K + 4) * ser.length) := by
  obtain ⟨u1, u2⟩ := C07_dec_wire_unmarshal_trace_cost K hK ser
  have hg := C07_dec_wire_linear_Endorsement_glue P ser o
  unfold CostLe Trace.cost at hg ⊢
  simp only [endorsementE2E, Trace.add]
  rw [Nat.add_mul] at u2 ⊢
  constructor <;> omega

/-! ## (c) the shapes Unmarshal leaves -/

/-- an embedded message is a nil pointer exactly when the input has no length-delimited field with its
    number (timestamp = 1, sev_snp = 7, tdx = 8); an occurrence with EMPTY contents gives a non-nil message -/
theorem C07_dec_wire_shape_absent_message (b : Bytes) (g : WGolden) (fs : List Field)
    (hp : parseFields b = some fs) (h : decodeGolden b = some g) :
    ((pGoldenOfWire g).timestamp.isSome = hasLen 1 fs) ∧ ((pGoldenOfWire g).sevSnp.isSome = hasLen 7 fs) ∧
    ((pGoldenOfWire g).tdx.isSome = hasLen 8 fs) := by
  obtain ⟨_, _, _, _, h1, h7, h8⟩ := decodeGolden_last b g fs hp h
  simp only [pGoldenOfWire, Option.isSome_map]
  exact ⟨h1, h7, h8⟩

/-- the measurement map is nil exactly when it has no entry; TDX rows are never nil pointers -/
theorem C07_dec_wire_shape_map_rows (s : WSevSnp) (d : WTdx) :
    ((pSevOfWire s).measurements = none ↔ s.measurements = []) ∧
    (∀ m, (pSevOfWire s).measurements = some m → m = s.measurements ∧ m ≠ []) ∧
    (∀ r ∈ (pTdxOfWire d).rows, r.isSome) := by
  refine ⟨?_, ?_, ?_⟩
  · unfold pSevOfWire
    cases hm : s.measurements <;> simp
  · intro m hm
    unfold pSevOfWire at hm
    cases hs : s.measurements with
    | nil => simp [hs] at hm
    | cons x xs =>
      simp only [hs, List.isEmpty_cons, Bool.false_eq_true, if_false, Option.some.injEq] at hm
      subst hm
      exact ⟨rfl, by simp⟩
  · intro r hr
    simp only [pTdxOfWire, List.mem_map] at hr
    obtain ⟨x, _, rfl⟩ := hr
    rfl

/-- A `bytes` field that is present with no contents is the same as an absent one: appending `22 00`
    (cert, length 0) — or the like for commit 1a, digest 2a — to a payload whose field is empty changes
    nothing in the decoded record.  (After a NON-empty occurrence it resets the field: last wins.) -/
theorem C07_dec_wire_shape_empty_bytes (b : Bytes) (g : WGolden) (h : decodeGolden b = some g) :
    (g.commit = [] → decodeGolden (b ++ [0x1a, 0x00]) = some g) ∧
    (g.cert = [] → decodeGolden (b ++ [0x22, 0x00]) = some g) ∧
    (g.digest = [] → decodeGolden (b ++ [0x2a, 0x00]) = some g) ∧
    (decodeGolden (b ++ [0x22, 0x00])).map (·.cert) = some [] := by
  obtain ⟨fa, hp, _⟩ := decodeInto_parses stepGolden .zero g b h
  have key : ∀ u, decodeGolden (b ++ u) = decodeInto stepGolden g u := by
    intro u
    unfold decodeGolden at h ⊢
    exact decodeInto_append stepGolden .zero g b u fa hp h
  have p1 : parseFields [0x1a, 0x00] = some [⟨3, .len [], [0]⟩] := by decide
  have p2 : parseFields [0x22, 0x00] = some [⟨4, .len [], [0]⟩] := by decide
  have p3 : parseFields [0x2a, 0x00] = some [⟨5, .len [], [0]⟩] := by decide
  refine ⟨?_, ?_, ?_, ?_⟩
  · intro he
    rw [key]; unfold decodeInto; rw [p1]
    simp only [foldFields, stepGolden]
    cases g; simp_all
  · intro he
    rw [key]; unfold decodeInto; rw [p2]
    simp only [foldFields, stepGolden]
    cases g; simp_all
  · intro he
    rw [key]; unfold decodeInto; rw [p3]
    simp only [foldFields, stepGolden]
    cases g; simp_all
  · rw [key]; unfold decodeInto; rw [p2]
    simp [foldFields, stepGolden]

/-! ## non-vacuity -/

/-- a 60-byte payload: timestamp, cl_spec, certificate, digest, two map entries (listed 2 then 1), one row -/
def samplePayload : Bytes :=
  [0x0a, 0x08, 0x08, 0x80, 0xdd, 0xce, 0xb6, 0x06, 0x10, 0x05, 0x10, 0x07, 0x22, 0x01, 0xc0, 0x2a, 0x03, 0xd1, 0xd2,
   0xd3, 0x3a, 0x14, 0x08, 0x03, 0x12, 0x05, 0x08, 0x02, 0x12, 0x01, 0xaa, 0x12, 0x05, 0x08, 0x01, 0x12, 0x01, 0xbb, 0x28,
   0x80, 0x80, 0x0c, 0x42, 0x0b, 0x08, 0x01, 0x12, 0x07, 0x08, 0x10, 0x10, 0x01, 0x1a, 0x01, 0xcc]

def sampleContainer : Bytes := encodeEndorsement ⟨samplePayload, [0x5a, 0x5b], []⟩

/-- the instrumented decoders on the sample: 6 top-level fields + 2 (timestamp) + 4 (sev_snp) + 2·2 (map entries)
    + 2 (tdx) + 3 (row) = 21 iterations ≤ 55 bytes; 6 objects of 64 bytes + 7 bytes copied -/
example : (decodeGoldenM 64 samplePayload).out = toOut (decodeGolden samplePayload) ∧
    (decodeGoldenM 64 samplePayload).tr.ticks = 21 ∧ (decodeGoldenM 64 samplePayload).tr.alloc = 391 ∧
    samplePayload.length = 55 := by decide +kernel

/-- a rejected input is charged for the work done before the malformed field: three fields, then a
    truncated length-delimited field -/
example : (decodeGoldenM 64 [0x10, 0x07, 0x22, 0x01, 0xc0, 0x2a, 0x01, 0xd1, 0x3a, 0x05, 0x08]).out = .err "wire" ∧
    (decodeGoldenM 64 [0x10, 0x07, 0x22, 0x01, 0xc0, 0x2a, 0x01, 0xd1, 0x3a, 0x05, 0x08]).tr.ticks = 3 ∧
    (decodeGoldenM 64 [0x10, 0x07, 0x22, 0x01, 0xc0, 0x2a, 0x01, 0xd1, 0x3a, 0x05, 0x08]).tr.alloc = 2 := by
  decide +kernel

/-- the row bomb: n two-byte fields `12 00` inside tdx are n rows — n objects from 2n + 4 bytes, the worst
    ratio the format allows; the bound K·|input| is within a factor 2 of it -/
example : (decodeGoldenM 64 [0x42, 0x06, 0x12, 0x00, 0x12, 0x00, 0x12, 0x00]).tr.alloc = 64 + 3 * 64 ∧
    ((decodeGolden [0x42, 0x06, 0x12, 0x00, 0x12, 0x00, 0x12, 0x00]).map (fun g => nRows (pGoldenOfWire g))) = some 3 := by
  decide +kernel

/-- the decoded sample holds 7 bytes in 6 objects: 13 ≤ 55 -/
example : (decodeGolden samplePayload).map heldGolden = some 13 := by decide +kernel

/-- shapes: `3a 00` is a present, empty VMSevSnp whose map is nil; no field 7 is a nil VMSevSnp -/
example : (decodeGolden [0x3a, 0x00]).map (fun g => (pGoldenOfWire g).sevSnp) = some (some ⟨0, 0, none, [], []⟩) ∧
    (decodeGolden [0x10, 0x07]).map (fun g => (pGoldenOfWire g).sevSnp) = some none := by decide +kernel

/-- parsers that know the sample certificate and signature -/
def sampleParsers : Parsers Unit Unit Unit :=
  { C07Dec.deepParsers with
    parseCert := fun b => if b == [0xc0] then some () else none
    checkSig := fun _ m s => m == samplePayload && s == [0x5a, 0x5b] }

def sampleOptions : Options Unit Unit :=
  { snp := some ⟨some [0xaa], 2⟩, roots := some (), expectedUefiSha384 := [0xd1, 0xd2, 0xd3], now := (),
    endorsement := none, getter := none }

/-- end to end on the sample container: accepted; 61 input bytes, 2 + 21 + 0 iterations -/
example : (endorsementE2E 64 sampleParsers sampleContainer (some sampleOptions)).out = .ok () ∧
    (endorsementE2E 64 sampleParsers sampleContainer (some sampleOptions)).tr.ticks = 23 ∧
    sampleContainer.length = 61 := by decide +kernel

/-- … and rejected (at the signature) with one payload byte changed, after the same unmarshalling work -/
example : (endorsementE2E 64 sampleParsers (encodeEndorsement ⟨samplePayload.set 11 8, [0x5a, 0x5b], []⟩)
    (some sampleOptions)).out = .err "signature" := by decide +kernel

end GceTcb.C07Wire
