import GceTcb.Proofs.EndorseCli
import GceTcb.Props.C06
import GceTcb.Gen.EndorseFlags
import GceTcb.Proofs.ProtoWire
/-
C06 at the command line — the document the `endorse` COMMAND signs describes the image and the command line.

`cliRun P Pr T E fl keys vcs vcss` (Model/EndorseCli.lean) is the whole command: cobra's flag values `fl`, the
file system and environment `E` → `ecOf` (flag parsing, PersistentPreRunE, InitContext: the endorse.Context)
→ `requestOf` → `VF.virtualFirmware` (the pipeline model of C06 / C15).  The theorems hold for every command
line, file system, environment, parameter (`kds.ParseProductLine`, `time.Parse`, `proto.Unmarshal`,
`uuid.Parse`, the measurement functions, SHA-384), key material and back-end behaviour.
-/
namespace GceTcb.EndorseCli
open GceTcb GceTcb.Endorse GceTcb.Endorse.Spec GceTcb.VF

/-! ### obligations on the regenerated command-line facts -/

/-- The model's flag table is the table the extractor reads off the `…Var(&dest, "name", default, …)` calls of
    endorseCommand.AddFlags (through the helpers of cmd/flags.go) and output.Options.AddFlags: a new flag, a
    changed default or a flag bound to another field breaks this. -/
theorem C06_cli_flag_table : flagTable = Gen.EndorseFlags.flags := by decide

/-- The defaults the model's command-line record starts from are the defaults of the table. -/
theorem C06_cli_defaults :
    ∀ row ∈ renderDefaults {}, ∃ t ∈ flagTable, t.1 = row.1 ∧ t.2.2.1 = row.2 := by decide

/-- `kds.ParseProductLine` as the extractor observes it on the linked function agrees with the model's table on
    every probed spelling; the default product, the SHA-1 size and the measurement size are the linked values. -/
theorem C06_cli_product_table :
    (∀ p ∈ Gen.EndorseFlags.productLines, (productTable.find? (fun q => q.1 == p.1)).map (·.2) = p.2) ∧
    defaultProduct = Gen.EndorseFlags.defaultProduct ∧ sha1Size = Gen.EndorseFlags.sha1Size ∧
    measurementSize = Gen.EndorseFlags.measurementSize := by decide

/-- The functions the model was written from still have the statement skeleton it was written from: order of
    the checks in PersistentPreRunE, InitContext, scrtmMain, validateSnpFlags, timeFlag.Set,
    amdProductFlag.Set; the two side-file spellings; the composition order and the function RunE runs. -/
theorem C06_cli_source_skeleton :
    Skeleton.preRunSteps = Gen.EndorseFlags.preRunSteps ∧ Skeleton.initSteps = Gen.EndorseFlags.initSteps ∧
    Skeleton.scrtmSteps = Gen.EndorseFlags.scrtmSteps ∧
    Skeleton.validateSnpSteps = Gen.EndorseFlags.validateSnpSteps ∧
    Skeleton.timeSetSteps = Gen.EndorseFlags.timeSetSteps ∧
    Skeleton.productSetSteps = Gen.EndorseFlags.productSetSteps ∧
    Skeleton.scrtmSpellings = Gen.EndorseFlags.scrtmSpellings ∧
    Skeleton.composeOrder = Gen.EndorseFlags.composeOrder ∧ Skeleton.composeRun = Gen.EndorseFlags.composeRun ∧
    Skeleton.persistentPreRunE = Gen.EndorseFlags.persistentPreRunE ∧
    Skeleton.ecAllocated = Gen.EndorseFlags.ecAllocated ∧ Skeleton.uefiSuffix = Gen.EndorseFlags.uefiSuffix :=
  ⟨rfl, rfl, rfl, rfl, rfl, rfl, rfl, rfl, rfl, rfl, rfl, rfl⟩

/-! ### the S_CRTM side file -/

/-- First spelling `<stem>_scrtm_ver.pb` readable and non-empty: its version is THE version, whatever the
    second spelling holds. -/
theorem C06_cli_side_first (P : Params) (E : Env) (uefi : String) (b : Bytes) (v : Nat)
    (h1 : E.readFile (sidePath1 uefi) = some b) (hb : b ≠ []) (hv : P.unmarshalScrtm b = some v) :
    scrtmMain P E uefi = .ok (true, v) ∧ sideSvn P E uefi = v := by
  have hr : readFirst E (scrtmPaths uefi) = b := by
    simp only [scrtmPaths, readFirst]
    rw [show String.ofList (trimSuffix ".fd".toList uefi.toList) ++ "_scrtm_ver.pb" = sidePath1 uefi from rfl, h1]
  have hl : (b.length == 0) = false := by
    cases b with
    | nil => exact absurd rfl hb
    | cons x xs => rfl
  have : scrtmMain P E uefi = .ok (true, v) := by
    unfold scrtmMain
    rw [hr, hl, hv]
    rfl
  exact ⟨this, by unfold sideSvn; rw [this]⟩

/-- First spelling unreadable, second spelling `<image>.scrtm.pb` readable and non-empty: its version. -/
theorem C06_cli_side_second (P : Params) (E : Env) (uefi : String) (b : Bytes) (v : Nat)
    (h1 : E.readFile (sidePath1 uefi) = none) (h2 : E.readFile (sidePath2 uefi) = some b) (hb : b ≠ [])
    (hv : P.unmarshalScrtm b = some v) :
    scrtmMain P E uefi = .ok (true, v) ∧ sideSvn P E uefi = v := by
  have hr : readFirst E (scrtmPaths uefi) = b := by
    simp only [scrtmPaths, readFirst]
    rw [show String.ofList (trimSuffix ".fd".toList uefi.toList) ++ "_scrtm_ver.pb" = sidePath1 uefi from rfl, h1]
    simp only
    rw [show uefi ++ ".scrtm.pb" = sidePath2 uefi from rfl, h2]
  have hl : (b.length == 0) = false := by
    cases b with
    | nil => exact absurd rfl hb
    | cons x xs => rfl
  have : scrtmMain P E uefi = .ok (true, v) := by
    unfold scrtmMain
    rw [hr, hl, hv]
    rfl
  exact ⟨this, by unfold sideSvn; rw [this]⟩

/-- No side file in either spelling: no version, SVN 0. -/
theorem C06_cli_side_absent (P : Params) (E : Env) (uefi : String)
    (h1 : E.readFile (sidePath1 uefi) = none) (h2 : E.readFile (sidePath2 uefi) = none) :
    scrtmMain P E uefi = .ok (false, 0) ∧ sideSvn P E uefi = 0 := by
  have hr : readFirst E (scrtmPaths uefi) = [] := by
    simp only [scrtmPaths, readFirst]
    rw [show String.ofList (trimSuffix ".fd".toList uefi.toList) ++ "_scrtm_ver.pb" = sidePath1 uefi from rfl, h1]
    simp only
    rw [show uefi ++ ".scrtm.pb" = sidePath2 uefi from rfl, h2]
  have : scrtmMain P E uefi = .ok (false, 0) := by
    unfold scrtmMain
    rw [hr]
    rfl
  exact ⟨this, by unfold sideSvn; rw [this]⟩

/-- The side file that is consulted does not decode: the command is refused (never a guessed SVN). -/
theorem C06_cli_side_corrupt (P : Params) (Pr : Prims) (T : Tables) (E : Env) (fl : CliFlags) (keys : Option Keys)
    (vcs : Option (List Commit.Attempt)) (vcss : List (List Commit.Attempt))
    (hne : readFirst E (scrtmPaths fl.uefi) ≠ []) (hv : P.unmarshalScrtm (readFirst E (scrtmPaths fl.uefi)) = none) :
    (cliRun P Pr T E fl keys vcs vcss).effects = [] ∧ (cliRun P Pr T E fl keys vcs vcss).result.isOk = false := by
  apply cliRun_refused
  cases he : ecOf P Pr.parseUuid E fl with
  | err e => rfl
  | panic s => rfl
  | ok r =>
    obtain ⟨ec, ow⟩ := r
    obtain ⟨commit, ts, prod, ok, v, img, svsm, m, A, _, _⟩ := (ecOf_ok_explicit P _ E fl ec ow).mp he
    have := A.sideFile
    unfold scrtmMain at this
    have hl : ((readFirst E (scrtmPaths fl.uefi)).length == 0) = false := by
      cases hh : readFirst E (scrtmPaths fl.uefi) with
      | nil => exact absurd hh hne
      | cons x xs => rfl
    rw [hl, hv] at this
    cases this

/-- For an image `<stem>.fd` the first spelling is `<stem>_scrtm_ver.pb` beside it — whatever the directory
    names contain (the defect repaired by `fix: the S_CRTM side file <stem>_scrtm_ver.pb is looked up beside
    the image` was a first-occurrence replacement). -/
theorem C06_cli_side_path (stem : String) : sidePath1 (stem ++ ".fd") = stem ++ "_scrtm_ver.pb" := by
  unfold sidePath1 trimSuffix
  have h : (".fd".toList).isSuffixOf (stem ++ ".fd").toList = true := by
    rw [String.toList_append, List.isSuffixOf_iff_suffix]
    exact List.suffix_append _ _
  rw [if_pos h, String.toList_append, List.length_append]
  simp

/-! ### the request: what the command line names -/

/-- The stored product after all `--snp_product` occurrences: none given → the default (Milan);
    otherwise an empty value changes nothing and a non-empty one must parse and wins. -/
theorem C06_cli_product_rules (P : Params) (cur : Nat) (v : String) (vs : List String) :
    productSetAll P cur [] = .ok cur ∧
    productSetAll P cur ("" :: vs) = productSetAll P cur vs ∧
    (∀ p, v ≠ "" → P.parseProduct v = some p → productSetAll P cur (v :: vs) = productSetAll P p vs) ∧
    (v ≠ "" → P.parseProduct v = none → productSetAll P cur (v :: vs) = .err "parse:product") := by
  refine ⟨rfl, ?_, ?_, ?_⟩
  · simp [productSetAll, productSet]
  · intro p hv hp
    simp [productSetAll, productSet, hv, hp]
  · intro hv hp
    simp [productSetAll, productSet, hv, hp]

/-- The stored time after all `--timestamp` occurrences (Go's zero time = "not set"): an empty value changes
    nothing; the first non-empty value must parse and is stored; once a non-zero time is stored any further
    occurrence is an error. -/
theorem C06_cli_timestamp_rules (P : Params) (v : String) (vs : List String) (t : Int × Nat) :
    timeSetAll P zeroTime [] = .ok zeroTime ∧
    timeSetAll P zeroTime ("" :: vs) = timeSetAll P zeroTime vs ∧
    (v ≠ "" → P.parseTime v = some t → timeSetAll P zeroTime (v :: vs) = timeSetAll P t vs) ∧
    (v ≠ "" → P.parseTime v = none → timeSetAll P zeroTime (v :: vs) = .err "parse:timestamp") ∧
    (t ≠ zeroTime → timeSetAll P t (v :: vs) = .err "parse:time-already-set") := by
  refine ⟨rfl, ?_, ?_, ?_, ?_⟩
  · simp [timeSetAll, timeSet]
  · intro hv hp
    simp [timeSetAll, timeSet, hv, hp]
  · intro hv hp
    simp [timeSetAll, timeSet, hv, hp]
  · intro ht
    simp [timeSetAll, timeSet, ht]

/-- (a) For every accepted command line the endorse.Context handed to the pipeline carries: a section for
    exactly the technologies added; in EVERY one of them the SVN of the side file (0 when there is none); the
    product, VMSA count, ids, machine shapes and early-accept flag named on the command line; clspec and the
    decoded --commit; the --timestamp, or the time of the run when none (or the zero time) is given; the bytes
    of the file at --uefi and its base name; the SVSM inputs; and the mode flags, directories, candidate name
    and retry budget unchanged. -/
theorem C06_cli_request (P : Params) (U : String → Option Bytes) (E : Env) (fl : CliFlags) (ec : EC) (ow : Bool)
    (h : ecOf P U E fl = .ok (ec, ow)) :
    (ec.snp.isSome = fl.addSnp ∧ ec.tdx.isSome = fl.addTdx) ∧
    (∀ r, ec.snp = some r → r.svn = sideSvn P E fl.uefi ∧ r.familyId = fl.snpFamilyId ∧
        r.imageId = fl.snpImageId ∧ r.launchVmsas = fl.snpLaunchVmsas ∧
        productSetAll P defaultProduct fl.snpProduct = .ok r.product) ∧
    (∀ t, ec.tdx = some t → t.svn = sideSvn P E fl.uefi ∧
        t.includeEarlyAccept = fl.tdxIncludeEarlyAccept ∧ t.machineShapes = fl.tdxMachineShapes) ∧
    (ec.clSpec = fl.clspec ∧ hexDecode fl.commit = some ec.commit) ∧
    (∃ ts, timeSetAll P zeroTime fl.timestamp = .ok ts ∧ ec.timestamp = if ts = zeroTime then E.now else ts) ∧
    (E.readFile fl.uefi = some ec.image ∧ ec.imageName = pathBase fl.uefi) ∧
    (readSvsm E fl.svsmPath = .ok ec.svsmImage ∧
      readSvsmMeasurement P E fl.svsmSnpMeasurementPath = .ok ec.svsmSnpMeasurement) ∧
    (ec.dryRun = fl.dryRun ∧ ec.measurementOnly = fl.measurementOnly ∧ ow = fl.overwrite ∧
      ec.snapshotDir = fl.snapshotDir ∧ ec.candidateName = fl.candidateName ∧ ec.outDir = fl.outDir ∧
      ec.commitRetries = fl.commitRetries ∧ ec.releaseBranch = fl.releaseBranch) := by
  obtain ⟨commit, ts, prod, ok, v, img, svsm, m, A, rfl, rfl⟩ := (ecOf_ok_explicit P U E fl ec ow).mp h
  have hsv : ∀ x : Nat, (if ok = true then v else 0) = sideSvn P E fl.uefi := by
    intro _
    unfold sideSvn
    rw [A.sideFile]
    cases ok <;> rfl
  refine ⟨⟨?_, ?_⟩, ?_, ?_, ⟨rfl, A.commitHex⟩, ⟨ts, A.time, ?_⟩, ⟨A.image, rfl⟩, ⟨A.svsmImage, A.svsmMeasurement⟩,
    ⟨rfl, rfl, rfl, rfl, rfl, rfl, rfl, rfl⟩⟩
  · rw [ecFinal_snp]
    cases fl.addSnp <;> rfl
  · rw [ecFinal_tdx]
    cases fl.addTdx <;> rfl
  · intro r hr
    rw [ecFinal_snp] at hr
    cases ha : fl.addSnp with
    | false => rw [ha] at hr; cases hr
    | true =>
      rw [ha] at hr
      simp only [if_true, Option.some.injEq] at hr
      subst hr
      exact ⟨hsv 0, rfl, rfl, rfl, A.product⟩
  · intro t ht
    rw [ecFinal_tdx] at ht
    cases ha : fl.addTdx with
    | false => rw [ha] at ht; cases ht
    | true =>
      rw [ha] at ht
      simp only [if_true, Option.some.injEq] at ht
      subst ht
      exact ⟨hsv 0, rfl, rfl⟩
  · exact ecFinal_timestamp E fl commit ts prod ok v img svsm m

/-- The common cases spelled out: one `--timestamp v` that parses to a non-zero time is the request's (and the
    document's) timestamp; no `--timestamp` at all means the time of the run; one `--snp_product v` kds knows is
    the product measured for; no `--snp_product` means Milan. -/
theorem C06_cli_single_values (P : Params) (U : String → Option Bytes) (E : Env) (fl : CliFlags) (ec : EC) (ow : Bool)
    (h : ecOf P U E fl = .ok (ec, ow)) :
    (∀ v t, fl.timestamp = [v] → v ≠ "" → P.parseTime v = some t → t ≠ zeroTime → ec.timestamp = t) ∧
    (fl.timestamp = [] → ec.timestamp = E.now) ∧
    (∀ v p r, fl.snpProduct = [v] → v ≠ "" → P.parseProduct v = some p → ec.snp = some r → r.product = p) ∧
    (∀ r, fl.snpProduct = [] → ec.snp = some r → r.product = 1) := by
  obtain ⟨_, hsnp, _, _, ⟨ts, hts, htse⟩, _⟩ := C06_cli_request P U E fl ec ow h
  refine ⟨?_, ?_, ?_, ?_⟩
  · intro v t hv hne hp hz
    rw [hv] at hts
    simp only [timeSetAll, timeSet, hne, hp, if_true, if_false] at hts
    cases hts
    rw [htse, if_neg hz]
  · intro hv
    rw [hv] at hts
    cases hts
    rw [htse, if_pos rfl]
  · intro v p r hv hne hp hr
    have := (hsnp r hr).2.2.2.2
    rw [hv] at this
    simp only [productSetAll, productSet, hne, hp, if_false] at this
    cases this; rfl
  · intro r hv hr
    have := (hsnp r hr).2.2.2.2
    rw [hv] at this
    simp only [productSetAll, Outcome.ok.injEq] at this
    exact this.symm

/-- The historic seeded change in one line: with BOTH technologies added, both sections carry the same SVN —
    the side file's. -/
theorem C06_cli_svn_every_technology (P : Params) (U : String → Option Bytes) (E : Env) (fl : CliFlags) (ec : EC)
    (ow : Bool) (h : ecOf P U E fl = .ok (ec, ow)) (hs : fl.addSnp = true) (ht : fl.addTdx = true) :
    ∃ r t, ec.snp = some r ∧ ec.tdx = some t ∧ r.svn = sideSvn P E fl.uefi ∧ t.svn = sideSvn P E fl.uefi := by
  obtain ⟨⟨h1, h2⟩, h3, h4, _⟩ := C06_cli_request P U E fl ec ow h
  rw [hs] at h1
  rw [ht] at h2
  obtain ⟨r, hr⟩ := Option.isSome_iff_exists.mp h1
  obtain ⟨t, htt⟩ := Option.isSome_iff_exists.mp h2
  exact ⟨r, t, hr, htt, (h3 r hr).1, (h4 t htt).1⟩

/-- `--add_snp=false` drops every SNP flag value, `--add_tdx=false` every TDX one; with neither the command
    gets as far as the pipeline's own refusal, and nothing else happens. -/
theorem C06_cli_dropped_technologies (P : Params) (U : String → Option Bytes) (E : Env) (fl : CliFlags) (ec : EC)
    (ow : Bool) (h : ecOf P U E fl = .ok (ec, ow)) :
    (fl.addSnp = false → ec.snp = none ∧ launchVmsasOf ec.snp = 0) ∧ (fl.addTdx = false → ec.tdx = none) := by
  obtain ⟨⟨h1, h2⟩, _⟩ := C06_cli_request P U E fl ec ow h
  constructor
  · intro hs
    rw [hs] at h1
    have : ec.snp = none := by cases hh : ec.snp with
      | none => rfl
      | some r => rw [hh] at h1; cases h1
    exact ⟨this, by rw [this]; rfl⟩
  · intro ht
    rw [ht] at h2
    cases hh : ec.tdx with
    | none => rfl
    | some r => rw [hh] at h2; cases h2

/-! ### the document the command signs -/

/-- `C06_cli_document`: every document the command hands to the signer describes the image at --uefi and the
    command line.  `img` is the content of the file at --uefi; the digest is its hash; clspec / commit /
    timestamp are the command line's (the time of the run when no timestamp is given); the SNP section exists
    iff --add_snp, carries the side file's SVN, the ids of the command line (default family, random image id
    when empty), one measurement per named count (the whole supported table for 0), each the launch digest of
    THIS image for that count and the named product; the TDX section exists iff --add_tdx, carries the side
    file's SVN and one (two with early accept) row per named shape in order plus the default row, each
    labelled and valued for this image (`WrittenRow`, see C06_tdx_rows / C06_no_placeholder). -/
theorem C06_cli_document (P : Params) (Pr : Prims) (T : Tables) (E : Env) (fl : CliFlags) (keys : Option Keys)
    (vcs : Option (List Commit.Attempt)) (vcss : List (List Commit.Attempt)) (hT : T.vmsaCounts.Nodup)
    (k : String) (d : Golden) (hsign : Eff.sign k d ∈ (cliRun P Pr T E fl keys vcs vcss).effects) :
    ∃ img commit ts prod,
      E.readFile fl.uefi = some img ∧ hexDecode fl.commit = some commit ∧
      timeSetAll P zeroTime fl.timestamp = .ok ts ∧ productSetAll P defaultProduct fl.snpProduct = .ok prod ∧
      fl.measurementOnly = false ∧
      d.digest = Pr.sha384 img ∧ d.clSpec = fl.clspec ∧ d.commit = commit ∧
      d.timestamp = some (if ts = zeroTime then E.now else ts) ∧
      (fl.addSnp = false → d.snp = none) ∧
      (fl.addSnp = true → ∃ s, d.snp = some s ∧ s.svn = sideSvn P E fl.uefi ∧
        s.measurements.map (·.1) = snpCounts T.vmsaCounts fl.snpLaunchVmsas ∧
        (∀ p ∈ s.measurements, Pr.launchDigest img p.1 prod = .ok p.2) ∧
        Pr.parseUuid (if fl.snpFamilyId = "" then T.familyId else fl.snpFamilyId) = some s.familyId ∧
        Pr.parseUuid (if fl.snpImageId = "" then E.rndImageId else fl.snpImageId) = some s.imageId ∧
        s.policy = T.policy ∧ readSvsmMeasurement P E fl.svsmSnpMeasurementPath = .ok s.svsm) ∧
      (fl.addTdx = false → d.tdx = none) ∧
      (fl.addTdx = true → ∃ t, d.tdx = some t ∧ t.svn = sideSvn P E fl.uefi ∧
        Paired (WrittenRow Pr T img) (tdxConfigs fl.tdxMachineShapes fl.tdxIncludeEarlyAccept) t.rows) := by
  cases he : ecOf P Pr.parseUuid E fl with
  | err e =>
    have := (cliRun_refused P Pr T E fl keys vcs vcss (by rw [he]; rfl)).1
    rw [this] at hsign; cases hsign
  | panic s => exact absurd he (ecOf_no_panic P _ E fl s)
  | ok r =>
    obtain ⟨ec, ow⟩ := r
    rw [cliRun_accepted P Pr T E fl keys vcs vcss ec ow he] at hsign
    obtain ⟨hmo, g, hg, hin⟩ := (sign_mem_iff Pr T _ keys _ _ vcs vcss k d).mp hsign
    obtain ⟨hd1, hd2, hd3, hd4, hd5, hd6⟩ := signDocEff_docs keys _ g k d hin
    obtain ⟨⟨ts1, ts2⟩, hsnp, htdx, ⟨hcl, hcm⟩, ⟨ts, hts, htse⟩, ⟨himg, _⟩, ⟨_, hsm⟩, ⟨_, hmo', _⟩⟩ :=
      C06_cli_request P Pr.parseUuid E fl ec ow he
    have hdig := C06_digest Pr T _ g hg
    obtain ⟨hf1, hf2, hf3, hf4⟩ := C06_fields Pr T _ g hg
    obtain ⟨hk0, hk⟩ := C06_snp_keys Pr T _ g hT hg
    obtain ⟨hr0, hr⟩ := C06_tdx_rows Pr T _ g hg
    -- the product, for the statement
    have hprod : ∃ prod, productSetAll P defaultProduct fl.snpProduct = .ok prod ∧
        ∀ r, ec.snp = some r → r.product = prod := by
      obtain ⟨commit, ts', prod, ok, v, img', svsm, m, A, _, _⟩ := (ecOf_ok_explicit P _ E fl ec ow).mp he
      refine ⟨prod, A.product, ?_⟩
      intro r hr'
      have := (hsnp r hr').2.2.2.2
      rw [A.product] at this
      cases this; rfl
    obtain ⟨prod, hprod1, hprod2⟩ := hprod
    refine ⟨ec.image, ec.commit, ts, prod, himg, hcm, hts, hprod1, ?_, ?_, ?_, ?_, ?_, ?_, ?_, ?_, ?_⟩
    · rw [← hmo']; exact hmo
    · rw [hd1, hdig]; rfl
    · rw [hd4, hf1]; exact hcl
    · rw [hd5, hf2]; rfl
    · rw [hd6, htse]
    · intro hs
      rw [hd2]
      apply hk0
      show ec.snp = none
      rw [hs] at ts1
      cases hh : ec.snp with
      | none => rfl
      | some r => rw [hh] at ts1; cases ts1
    · intro hs
      rw [hs] at ts1
      obtain ⟨r, hr'⟩ := Option.isSome_iff_exists.mp ts1
      obtain ⟨s, hgs, hkeys, hvals⟩ := hk r hr'
      obtain ⟨e1, e2, e3, e4, e5⟩ := hsnp r hr'
      obtain ⟨f1, f2, f3, f4, f5⟩ := hf3 r s hr' hgs
      refine ⟨s, by rw [hd2]; exact hgs, by rw [f1, e1], by rw [hkeys, e4], ?_, ?_, ?_, f4, ?_⟩
      · intro p hp
        have := hvals p hp
        rw [hprod2 r hr'] at this
        exact this
      · rw [← f2]; unfold canonFamily; rw [e2]
      · rw [← f3]; unfold canonImage; rw [e3]; rfl
      · rw [f5]; exact hsm
    · intro ht
      rw [hd3]
      apply hr0
      show ec.tdx = none
      rw [ht] at ts2
      cases hh : ec.tdx with
      | none => rfl
      | some r => rw [hh] at ts2; cases ts2
    · intro ht
      rw [ht] at ts2
      obtain ⟨t, ht'⟩ := Option.isSome_iff_exists.mp ts2
      obtain ⟨dd, hgd, hsvn, hp⟩ := hr t ht'
      obtain ⟨e1, e2, e3⟩ := htdx t ht'
      refine ⟨dd, by rw [hd3]; exact hgd, by rw [hsvn, e1], ?_⟩
      rw [e2, e3] at hp
      exact hp

/-! ### the SCRTMVersion wire format -/

/-- The SCRTMVersion message `endorse` itself writes when it snapshots an image (`proto.Marshal` of
    `SCRTMVersion{Version: w}`: field 1 as a varint, omitted when zero) is read back by the Lean wire codec that
    instantiates `proto.Unmarshal` as `uint32(w)`, for every 64-bit `w` (an SVN ≥ 2^31 is a negative enum, which
    Go sign-extends to 64 bits before writing: `w = svn + 2^64 - 2^32`); in particular every SVN below 2^31
    round-trips, the empty file is version 0, and a truncated field is refused. -/
theorem C06_cli_scrtm_wire (w : Nat) :
    unmarshalScrtmWire (ProtoWire.encFields (ProtoWire.optVarint 1 w)) = some (w % 2 ^ 64 % 2 ^ 32) ∧
    (w < 2 ^ 31 → unmarshalScrtmWire (ProtoWire.encFields (ProtoWire.optVarint 1 w)) = some w) ∧
    unmarshalScrtmWire [] = some 0 ∧ unmarshalScrtmWire [8] = none := by
  have hgood : ∀ f ∈ ProtoWire.optVarint 1 w, f.Good := by
    intro f hf
    unfold ProtoWire.optVarint at hf
    split at hf
    · cases hf
    · simp only [List.mem_singleton] at hf
      subst hf
      exact ProtoWire.good_fVarint 1 w ⟨by decide, by decide⟩
  have main : unmarshalScrtmWire (ProtoWire.encFields (ProtoWire.optVarint 1 w)) = some (w % 2 ^ 64 % 2 ^ 32) := by
    unfold unmarshalScrtmWire
    rw [ProtoWire.decodeInto_encFields scrtmStep 0 _ hgood]
    have := ProtoWire.fold_optVarint scrtmStep 1 w 0 (fun x => x % 2 ^ 32) [] rfl rfl
    simpa [ProtoWire.foldFields] using this
  refine ⟨main, ?_, by decide, by decide⟩
  intro hw
  rw [main]
  congr 1
  omega

/-! ### non-vacuity -/

/-- An accepted command line with both technologies and both side-file spellings (in a directory whose name
    contains ".fd"): both requests carry SVN 5 (the first spelling's), product Genoa (2), the wall-clock time. -/
example :
    (match ecOf exParams exPrims.parseUuid exEnv exFlags with
     | .ok (ec, _) => (ec.snp.map (fun r => (r.svn, r.product, r.launchVmsas)), ec.tdx.map (·.svn), ec.timestamp,
         ec.imageName, ec.image)
     | _ => (none, none, (0, 0), "", [])) =
      (some (5, 2, 2), some 5, (42, 0), "fw.fd", [0xAA]) := by decide

/-- … and the refusals are reachable: unknown product, second timestamp, commit of 2 bytes, no ".fd", bad id. -/
example :
    errClass (ecOf exParams exPrims.parseUuid exEnv { exFlags with snpProduct := ["Rome"] }) = "parse:product" ∧
    errClass (ecOf exParams exPrims.parseUuid exEnv { exFlags with timestamp := ["T", "T"] }) = "parse:time-already-set" ∧
    errClass (ecOf exParams exPrims.parseUuid exEnv { exFlags with commit := "0102" }) = "prerun:commit-length" ∧
    errClass (ecOf exParams exPrims.parseUuid exEnv { exFlags with uefi := "fw.bin" }) = "prerun:uefi-suffix" ∧
    errClass (ecOf exParams exPrims.parseUuid exEnv { exFlags with snpFamilyId := "nope" }) = "prerun:family_id" ∧
    errClass (ecOf exParams exPrims.parseUuid exEnv exFlags) = "accepted" := by
  decide

end GceTcb.EndorseCli
