import GceTcb.Proofs.ToolChain
import GceTcb.Proofs.ToolChainToy
import GceTcb.Props.C12Cli
import GceTcb.Model.ToolChainRef
/-
C03 at the level of the shipped TOOLS — whatever `endorse` writes after `bootstrap; rotate; …` is accepted by
`gcetcbendorsement verify --root_cert <the CA's root> <file>`, also after further key rotations.

The objects: `ToolChain.run K w steps` (Model/ToolChain.lean) composes `KeyCli.cliStep` (bootstrap / rotate / wipeout
command lines), `EndorseCli.cliRun` (the `endorse` command line) and `RpCli.run` (the relying party's command lines)
over one shared world: the key directory and CA store (`World.keys`), every other file (`World.files`).  A history is
a list of `Step`s; `step K w s` is one command line: the new world and its result class ("ok" = exit status 0).

Hypotheses of the theorems, all explicit:
* `Agree K` — the contracts of the third-party code BETWEEN the tools (protobuf, DER/PEM, RSA-PSS, crypto/x509 path
  validation), see Proofs/ToolChain.lean;
* `K.W.guard = true` — gcsca.upload as repaired (the two "fix:" commits of C12);
* `KeyCli.CliCleanRun` — every ACCEPTED bootstrap line of the history runs on a clean store (what `accepted` means:
  `C12_cli_accept_iff`).  It cannot be dropped: `C03_tools_finding_rebootstrap` is a history with a second
  `bootstrap --overwrite --keep_going` after which `endorse` exits 0 and `verify` refuses what it wrote;
* the `endorse` line exits 0, is not `--dry_run`, not `--measurement_only`, not in snapshot mode, and carries
  provenance (`--clspec ≠ 0`; the shipped nonprod application sets 123 itself);
* the verification time lies inside the validity of the root and of the signing certificate embedded in the file.
Nothing is assumed about rejected or failing key-management lines in between: the histories are arbitrary lists of
command lines with arbitrary flag texts, environments and times.
-/
namespace GceTcb.ToolChain
open GceTcb GceTcb.KeyHistory

variable {Cert Roots R Q : Type}

/-! ### the key directory and the store agree -/

/-- After every history of key-management command lines whose accepted bootstraps run on a clean store: for every
    key version the authority records a certificate for, the key the key directory holds under that name (if it
    still holds one) is the key that certificate certifies.  (New invariant; with `C12_cli_history` it is what makes
    signer and verifier meet.) -/
theorem C03_tools_key_bound (W : KeyCli.Wiring) (hg : W.guard = true) (pt : String → Option (Int × Nat))
    (h : List (KeyCli.Env × KeyCli.CliFlags)) (hc : KeyCli.CliCleanRun W pt State.init h)
    (n : KName) (c : KeyHistory.Cert) (k : Nat) (hn : n ≠ rootName)
    (hcert : certificate (KeyCli.cliRun W pt State.init h).ca n = some c)
    (hlive : KeyHistory.get (KeyCli.cliRun W pt State.init h).km.live n = some k) : c.subjectKey = k := by
  obtain ⟨_, hb⟩ := InvBound_cliRun hg pt h State.init (Inv_init W.cfg) Bound_init hc
  unfold certificate at hcert
  cases he : KeyHistory.get (KeyCli.cliRun W pt State.init h).ca.entries n with
  | none => simp [he] at hcert
  | some p => simp only [he] at hcert; exact hb n p c k he hcert hlive hn

/-- A `rotate` command line — whatever its flags, accepted or refused, successful or failing half-way — leaves the
    root certificate the authority serves (the object at `--root_path`) exactly as it was. -/
theorem C03_tools_rotate_keeps_root (W : KeyCli.Wiring) (hg : W.guard = true) (pt : String → Option (Int × Nat))
    (h : List (KeyCli.Env × KeyCli.CliFlags)) (hc : KeyCli.CliCleanRun W pt State.init h)
    (later : List (KeyCli.Env × KeyCli.CliFlags)) (hr : RotateOnly later) :
    bundle W.cfg (KeyCli.cliRun W pt State.init (h ++ later)).ca = bundle W.cfg (KeyCli.cliRun W pt State.init h).ca := by
  rw [cliRun_append]
  exact bundle_rotations hg pt later hr _ (InvBound_cliRun hg pt h State.init (Inv_init W.cfg) Bound_init hc).1

/-! ### what `endorse` writes -/

/-- An `endorse` line that exits 0 (not dry-run, not measurement-only, not snapshot mode) after any clean-run
    history wrote ONE file: at `ReleasePath(out_dir/basename(candidate))`, holding the endorsement of the measured
    document with the DER of the CURRENT PRIMARY's recorded certificate embedded and the CA's root object as bundle,
    signed by the key the key directory holds under the primary's name — which is the key that certificate
    certifies. -/
theorem C03_tools_endorse_writes (K : Kit Cert Roots R Q) (hg : K.W.guard = true) (w0 : World)
    (h0 : w0.keys = State.init) (h : List (KeyCli.Env × KeyCli.CliFlags))
    (hc : KeyCli.CliCleanRun K.W K.pt State.init h)
    (KE : KeyCli.Env) (wf : KeyCli.CliFlags) (E : EndorseEnv) (fl : EndorseCli.CliFlags)
    (hres : (endorseRun K (run K w0 (keySteps h)).1 KE wf E fl).result = .ok ())
    (hmo : fl.measurementOnly = false) (hdry : fl.dryRun = false) (hsnap : fl.snapshotDir = "") :
    ∃ r g c rt, EndorseCli.contextOf K.EP K.Pr.parseUuid (endorseEnvOf K (run K w0 (keySteps h)).1 KE wf E) fl = .ok r ∧
      Endorse.goldenMeasurement K.Pr K.T r.ctx = .ok g ∧
      certificate (KeyCli.cliRun K.W K.pt State.init h).ca (KeyCli.cliRun K.W K.pt State.init h).ca.primarySigning = some c ∧
      bundle K.W.cfg (KeyCli.cliRun K.W K.pt State.init h).ca = some rt ∧
      endorseWrites K (run K w0 (keySteps h)).1 KE wf E fl =
        some (outPathOf r.fl.cfg, stored K.C c (docOf K.C g c rt r.ts)) := by
  obtain ⟨r, g, c, rt, k, h1, h2, h3, h4, h5, _, _, h8⟩ := endorse_ok K _ KE wf E fl hres hmo hdry hsnap
  have hk : (run K w0 (keySteps h)).1.keys = KeyCli.cliRun K.W K.pt State.init h := by rw [run_keySteps, h0]
  rw [hk] at h3 h4 h5
  have := C03_tools_key_bound K.W hg K.pt h hc _ c k
    (InvBound_cliRun hg K.pt h State.init (Inv_init K.W.cfg) Bound_init hc).1.1.ps_ne_root h3 h5
  subst this
  exact ⟨r, g, c, rt, h1, h2, h3, h4, h8⟩

/-! ### the main theorems -/

/-- **Whatever the signer produces verifies.**  After any history of key-management command lines on a clean store
    (accepted bootstraps on a clean store; anything else: arbitrary lines, also refused or failing ones), with the root
    object copied to `q`: an `endorse` line that exits 0 (not dry-run, not measurement-only, with provenance) wrote a
    file `p` on which `gcetcbendorsement verify --root_cert q p` exits 0 at every time inside the validity of the
    root and of the primary's certificate. -/
theorem C03_tools_signed_verifies (K : Kit Cert Roots R Q) (hA : Agree K) (hg : K.W.guard = true) (w0 : World)
    (h0 : w0.keys = State.init) (h : List (KeyCli.Env × KeyCli.CliFlags))
    (hc : KeyCli.CliCleanRun K.W K.pt State.init h) (q : String) (hq : q ≠ "")
    (KE : KeyCli.Env) (wf : KeyCli.CliFlags) (E : EndorseEnv) (fl : EndorseCli.CliFlags)
    (hres : (endorseRun K (run K w0 (keySteps h ++ [.exportRoot q])).1 KE wf E fl).result = .ok ())
    (hmo : fl.measurementOnly = false) (hdry : fl.dryRun = false) (hsnap : fl.snapshotDir = "")
    (hprov : fl.clspec ≠ 0) :
    ∃ p rt c, bundle K.W.cfg (KeyCli.cliRun K.W K.pt State.init h).ca = some rt ∧
      certificate (KeyCli.cliRun K.W K.pt State.init h).ca (KeyCli.cliRun K.W K.pt State.init h).ca.primarySigning = some c ∧
      (p ≠ q → ∀ now, validAt rt now → validAt c now →
        (step K (run K w0 (keySteps h ++ [.exportRoot q, .endorse KE wf E fl])).1 (.rp now (verifyLine q p))).2 = "ok") := by
  obtain ⟨hi, hb⟩ := InvBound_cliRun hg K.pt h State.init (Inv_init K.W.cfg) Bound_init hc
  have hroot := KeyCli.RootInv_cliRun K.W K.pt h State.init (RootInv_empty K.W.cfg)
  -- the world after the key history and the export
  have hk : (run K w0 (keySteps h)).1 = { w0 with keys := KeyCli.cliRun K.W K.pt State.init h } := by
    rw [run_keySteps, h0]
  have hw1 : (run K w0 (keySteps h ++ [.exportRoot q])).1 = (exportRoot K (run K w0 (keySteps h)).1 q).1 := by
    rw [run_append]; rfl
  have hkeys1 : (run K w0 (keySteps h ++ [.exportRoot q])).1.keys = KeyCli.cliRun K.W K.pt State.init h := by
    rw [hw1, hk]; unfold exportRoot; split <;> rfl
  obtain ⟨p, content, rt, c, hwr, hrt, hcert, _, _, _, hver⟩ :=
    endorse_then_verify K hA _ (by rw [hkeys1]; exact hi) (by rw [hkeys1]; exact hb) (by rw [hkeys1]; exact hroot)
      KE wf E fl hres hmo hdry hsnap hprov
  rw [hkeys1] at hrt hcert
  refine ⟨p, rt, c, hrt, hcert, fun hpq now hvr hvc => ?_⟩
  -- the export wrote the root object to q
  have hq1 : (run K w0 (keySteps h ++ [.exportRoot q])).1.read q = some (K.C.rootPem rt) := by
    rw [hw1, hk]
    simp only [exportRoot, hrt, World.read, get_put_self]
  -- the world after the endorse step
  have hw2 : (run K w0 (keySteps h ++ [.exportRoot q, .endorse KE wf E fl])).1 =
      (step K (run K w0 (keySteps h ++ [.exportRoot q])).1 (.endorse KE wf E fl)).1 := by
    have : keySteps h ++ [Step.exportRoot q, Step.endorse KE wf E fl] =
        (keySteps h ++ [Step.exportRoot q]) ++ [Step.endorse KE wf E fl] := by simp
    rw [this, run_append]; rfl
  apply hver _ q now hq
  · rw [hw2]; simp only [step, hwr, World.read, get_put_self]
  · rw [hw2]; simp only [step, hwr, World.read]
    rw [get_put_ne _ _ _ _ (fun e => hpq e.symm)]
    exact hq1
  · exact hvr
  · exact hvc

/-- **Endorsements written before later rotations still verify, under the root exported AFTER them.**  Between the
    `endorse` and the export of the root there may be any number of further `rotate` lines (any flags, accepted or
    not): the root object is the same, and the file carries its own signing certificate. -/
theorem C03_tools_old_endorsements_survive (K : Kit Cert Roots R Q) (hA : Agree K) (hg : K.W.guard = true) (w0 : World)
    (h0 : w0.keys = State.init) (h later : List (KeyCli.Env × KeyCli.CliFlags))
    (hc : KeyCli.CliCleanRun K.W K.pt State.init h) (hrot : RotateOnly later) (q : String) (hq : q ≠ "")
    (KE : KeyCli.Env) (wf : KeyCli.CliFlags) (E : EndorseEnv) (fl : EndorseCli.CliFlags)
    (hres : (endorseRun K (run K w0 (keySteps h)).1 KE wf E fl).result = .ok ())
    (hmo : fl.measurementOnly = false) (hdry : fl.dryRun = false) (hsnap : fl.snapshotDir = "")
    (hprov : fl.clspec ≠ 0) :
    ∃ p rt c, bundle K.W.cfg (KeyCli.cliRun K.W K.pt State.init h).ca = some rt ∧
      certificate (KeyCli.cliRun K.W K.pt State.init h).ca (KeyCli.cliRun K.W K.pt State.init h).ca.primarySigning = some c ∧
      (p ≠ q → ∀ now, validAt rt now → validAt c now →
        (step K (run K w0 (keySteps h ++ [.endorse KE wf E fl] ++ keySteps later ++ [.exportRoot q])).1
          (.rp now (verifyLine q p))).2 = "ok") := by
  obtain ⟨hi, hb⟩ := InvBound_cliRun hg K.pt h State.init (Inv_init K.W.cfg) Bound_init hc
  have hroot := KeyCli.RootInv_cliRun K.W K.pt h State.init (RootInv_empty K.W.cfg)
  have hk : (run K w0 (keySteps h)).1 = { w0 with keys := KeyCli.cliRun K.W K.pt State.init h } := by
    rw [run_keySteps, h0]
  have hkeys1 : (run K w0 (keySteps h)).1.keys = KeyCli.cliRun K.W K.pt State.init h := by rw [hk]
  obtain ⟨p, content, rt, c, hwr, hrt, hcert, _, _, _, hver⟩ :=
    endorse_then_verify K hA _ (by rw [hkeys1]; exact hi) (by rw [hkeys1]; exact hb) (by rw [hkeys1]; exact hroot)
      KE wf E fl hres hmo hdry hsnap hprov
  rw [hkeys1] at hrt hcert
  refine ⟨p, rt, c, hrt, hcert, fun hpq now hvr hvc => ?_⟩
  -- the world after the endorse step: same keys, the file at p
  let w2 := (step K (run K w0 (keySteps h)).1 (.endorse KE wf E fl)).1
  have hw2keys : w2.keys = KeyCli.cliRun K.W K.pt State.init h := by
    show (step K (run K w0 (keySteps h)).1 (.endorse KE wf E fl)).1.keys = _
    simp only [step, hwr]; exact hkeys1
  have hw2p : w2.read p = some content := by
    show (step K (run K w0 (keySteps h)).1 (.endorse KE wf E fl)).1.read p = _
    simp only [step, hwr, World.read, get_put_self]
  -- after the later rotations
  let w3 := (run K w2 (keySteps later)).1
  have hw3 : w3 = { w2 with keys := KeyCli.cliRun K.W K.pt w2.keys later } := run_keySteps K later w2
  have hrt3 : bundle K.W.cfg w3.keys.ca = some rt := by
    rw [hw3]; simp only []
    rw [hw2keys, bundle_rotations hg K.pt later hrot _ hi]; exact hrt
  have hfinal : (run K w0 (keySteps h ++ [.endorse KE wf E fl] ++ keySteps later ++ [.exportRoot q])).1 =
      (exportRoot K w3 q).1 := by
    rw [run_append, run_append, run_append]; rfl
  rw [hfinal]
  apply hver _ q now hq
  · simp only [exportRoot, hrt3, World.read]
    rw [get_put_ne _ _ _ _ (fun e => hpq e)]
    rw [hw3]; exact hw2p
  · simp only [exportRoot, hrt3, World.read, get_put_self]
  · exact hvr
  · exact hvc

/-- **A kept root survives everything.**  Once the relying party holds a copy `q` of the root object and the file `p`,
    NO later key-management command line matters — further rotations, a `wipeout` of certificates and keys, even a new
    `bootstrap` of another authority: `verify --root_cert q p` still exits 0 inside both validity windows.  (What a
    wipeout does take away is the CA's OWN copy of the root: `C03_tools_wipeout_drops_root`.) -/
theorem C03_tools_kept_root_survives_wipeout (K : Kit Cert Roots R Q) (hA : Agree K) (hg : K.W.guard = true) (w0 : World)
    (h0 : w0.keys = State.init) (h anything : List (KeyCli.Env × KeyCli.CliFlags))
    (hc : KeyCli.CliCleanRun K.W K.pt State.init h) (q : String) (hq : q ≠ "")
    (KE : KeyCli.Env) (wf : KeyCli.CliFlags) (E : EndorseEnv) (fl : EndorseCli.CliFlags)
    (hres : (endorseRun K (run K w0 (keySteps h ++ [.exportRoot q])).1 KE wf E fl).result = .ok ())
    (hmo : fl.measurementOnly = false) (hdry : fl.dryRun = false) (hsnap : fl.snapshotDir = "")
    (hprov : fl.clspec ≠ 0) :
    ∃ p rt c, bundle K.W.cfg (KeyCli.cliRun K.W K.pt State.init h).ca = some rt ∧
      certificate (KeyCli.cliRun K.W K.pt State.init h).ca (KeyCli.cliRun K.W K.pt State.init h).ca.primarySigning = some c ∧
      (p ≠ q → ∀ now, validAt rt now → validAt c now →
        (step K (run K w0 (keySteps h ++ [.exportRoot q, .endorse KE wf E fl] ++ keySteps anything)).1
          (.rp now (verifyLine q p))).2 = "ok") := by
  obtain ⟨hi, hb⟩ := InvBound_cliRun hg K.pt h State.init (Inv_init K.W.cfg) Bound_init hc
  have hroot := KeyCli.RootInv_cliRun K.W K.pt h State.init (RootInv_empty K.W.cfg)
  have hk : (run K w0 (keySteps h)).1 = { w0 with keys := KeyCli.cliRun K.W K.pt State.init h } := by
    rw [run_keySteps, h0]
  have hw1 : (run K w0 (keySteps h ++ [.exportRoot q])).1 = (exportRoot K (run K w0 (keySteps h)).1 q).1 := by
    rw [run_append]; rfl
  have hkeys1 : (run K w0 (keySteps h ++ [.exportRoot q])).1.keys = KeyCli.cliRun K.W K.pt State.init h := by
    rw [hw1, hk]; unfold exportRoot; split <;> rfl
  obtain ⟨p, content, rt, c, hwr, hrt, hcert, _, _, _, hver⟩ :=
    endorse_then_verify K hA _ (by rw [hkeys1]; exact hi) (by rw [hkeys1]; exact hb) (by rw [hkeys1]; exact hroot)
      KE wf E fl hres hmo hdry hsnap hprov
  rw [hkeys1] at hrt hcert
  refine ⟨p, rt, c, hrt, hcert, fun hpq now hvr hvc => ?_⟩
  have hq1 : (run K w0 (keySteps h ++ [.exportRoot q])).1.read q = some (K.C.rootPem rt) := by
    rw [hw1, hk]
    simp only [exportRoot, hrt, World.read, get_put_self]
  have hsplit : keySteps h ++ [Step.exportRoot q, Step.endorse KE wf E fl] ++ keySteps anything =
      (keySteps h ++ [Step.exportRoot q]) ++ [Step.endorse KE wf E fl] ++ keySteps anything := by simp
  generalize hw1g : (run K w0 (keySteps h ++ [.exportRoot q])).1 = w1 at hwr hq1 hres hver
  have hw2p : (step K w1 (.endorse KE wf E fl)).1.read p = some content := by
    simp only [step, hwr, World.read, get_put_self]
  have hw2q : (step K w1 (.endorse KE wf E fl)).1.read q = some (K.C.rootPem rt) := by
    simp only [step, hwr, World.read]
    rw [get_put_ne _ _ _ _ (fun e => hpq e.symm)]
    exact hq1
  generalize hw2g : (step K w1 (.endorse KE wf E fl)).1 = w2 at hw2p hw2q
  have hfinal : (run K w0 (keySteps h ++ [.exportRoot q, .endorse KE wf E fl] ++ keySteps anything)).1 =
      { w2 with keys := KeyCli.cliRun K.W K.pt w2.keys anything } := by
    rw [hsplit, run_append, run_append, hw1g]
    have : (run K w1 [Step.endorse KE wf E fl]).1 = w2 := by rw [← hw2g]; rfl
    rw [this]
    exact run_keySteps K anything w2
  rw [hfinal]
  exact hver _ q now hq hw2p hw2q hvr hvc

/-! ### `sev validate` / `tdx validate` on the written endorsement -/

/-- **`sev validate --launch_vmsas n` accepts a report carrying the measurement the written endorsement lists for
    `n`.**  After any clean-run history, an `endorse` line that exits 0 wrote a file `p`; on every later world that
    still has `p` and a copy `q` of the root object of that moment, `gcetcbendorsement sev validate --launch_vmsas n
    --endorsement p --root_cert q ATT` exits 0 at every time inside both validity windows when ATT is an SEV-SNP
    attestation whose 48-byte measurement is the one the document lists for `n ≠ 0` — provided the third-party checks
    the model leaves abstract (policy derivation `sevPolicyOptions`, go-sev-guest's report validation
    `snpBaseChecks`) pass. -/
theorem C03_tools_sev_validate_listed (K : Kit Cert Roots R Q) (hA : Agree K) (hg : K.W.guard = true) (w0 : World)
    (h0 : w0.keys = State.init) (h : List (KeyCli.Env × KeyCli.CliFlags))
    (hc : KeyCli.CliCleanRun K.W K.pt State.init h)
    (KE : KeyCli.Env) (wf : KeyCli.CliFlags) (E : EndorseEnv) (fl : EndorseCli.CliFlags)
    (hres : (endorseRun K (run K w0 (keySteps h)).1 KE wf E fl).result = .ok ())
    (hmo : fl.measurementOnly = false) (hdry : fl.dryRun = false) (hsnap : fl.snapshotDir = "")
    (hprov : fl.clspec ≠ 0) :
    ∃ p rt c d, endorseWrites K (run K w0 (keySteps h)).1 KE wf E fl = some (p, stored K.C c d) ∧
      bundle K.W.cfg (KeyCli.cliRun K.W K.pt State.init h).ca = some rt ∧
      ∀ (w' : World) (q a s : String) (n now : Nat) (content : Bytes) (sa : Verify.Attestation)
        (sd : Endorse.SnpDoc) (vopts : Nat),
        q ≠ "" → p ≠ "" → w'.read p = some (stored K.C c d) → w'.read q = some (K.C.rootPem rt) →
        w'.read a = some content → K.RW.P.parseAttestation content = some (.sevSnp sa) →
        sa.measurement.length = 48 → K.RW.L.parseUint s = some n → n < 2 ^ 32 → n ≠ 0 →
        d.snp = some sd → Verify.lookupNat sd.measurements n = some sa.measurement →
        K.RW.P.v.sevPolicyOptions ⟨K.C.marshalGolden d, K.C.signPss c.subjectKey (K.C.marshalGolden d)⟩ n false
          (K.RW.tagS none) = some vopts →
        K.RW.P.v.snpBaseChecks sa.tag vopts = true →
        validAt rt now → validAt c now →
        (step K w' (.rp now (sevLine s p q a))).2 = "ok" := by
  obtain ⟨hi, hb⟩ := InvBound_cliRun hg K.pt h State.init (Inv_init K.W.cfg) Bound_init hc
  have hroot := KeyCli.RootInv_cliRun K.W K.pt h State.init (RootInv_empty K.W.cfg)
  have hkeys1 : (run K w0 (keySteps h)).1.keys = KeyCli.cliRun K.W K.pt State.init h := by rw [run_keySteps, h0]
  obtain ⟨p, rt, c, d, hwr, hrt, _, hrp, hsp, hiss, hcert, hts, hpv, _⟩ :=
    endorse_facts K _ (by rw [hkeys1]; exact hi) (by rw [hkeys1]; exact hb) (by rw [hkeys1]; exact hroot)
      KE wf E fl hres hmo hdry hsnap hprov
  rw [hkeys1] at hrt
  refine ⟨p, rt, c, d, hwr, hrt, ?_⟩
  intro w' q a s n now content sa sd vopts hq hpne hp hr ha hpa hlen hs hn hn0 hsd hl hpol hbase hvr hvc
  have := sev_validate_written hA w' now rt c d s p q a n hq hpne hs hn hp hr content sa ha hpa hlen vopts hpol hbase
    (snp_listed d sd n sa.measurement hsd hn0 hl) hcert hts hpv hrp hsp hiss hvr hvc
  simp only [step, this]
  rfl

/-- **`tdx validate --ram_gib g` on the written endorsement**: exits 0 at every time inside both validity windows on a
    TDX quote, provided the third-party checks (`tdxPolicyOptions`: gcetcbendorsement.TdxPolicy for that RAM size and
    validate.PolicyToOptions; `tdxQuoteChecks`: go-tdx-guest's validation of the quote against the derived options,
    which is where the MRTD is compared) pass.  That the derived policy admits every MRTD the document lists for its
    RAM size is `C03_every_listed_mrtd_accepted` (Props/C03.lean) through `C02_cli_tdx_named_mrtd`'s reading. -/
theorem C03_tools_tdx_validate_listed (K : Kit Cert Roots R Q) (hA : Agree K) (hg : K.W.guard = true) (w0 : World)
    (h0 : w0.keys = State.init) (h : List (KeyCli.Env × KeyCli.CliFlags))
    (hc : KeyCli.CliCleanRun K.W K.pt State.init h)
    (KE : KeyCli.Env) (wf : KeyCli.CliFlags) (E : EndorseEnv) (fl : EndorseCli.CliFlags)
    (hres : (endorseRun K (run K w0 (keySteps h)).1 KE wf E fl).result = .ok ())
    (hmo : fl.measurementOnly = false) (hdry : fl.dryRun = false) (hsnap : fl.snapshotDir = "")
    (hprov : fl.clspec ≠ 0) :
    ∃ p rt c d, endorseWrites K (run K w0 (keySteps h)).1 KE wf E fl = some (p, stored K.C c d) ∧
      bundle K.W.cfg (KeyCli.cliRun K.W K.pt State.init h).ca = some rt ∧
      ∀ (w' : World) (q a s : String) (g : Int) (now : Nat) (content : Bytes) (qt vopts : Nat),
        q ≠ "" → p ≠ "" → w'.read p = some (stored K.C c d) → w'.read q = some (K.C.rootPem rt) →
        w'.read a = some content → K.RW.P.parseAttestation content = some (.tdx qt) →
        K.RW.L.parseInt s = some g → -(2 ^ 63 : Int) ≤ g → g < 2 ^ 63 →
        K.RW.P.v.tdxPolicyOptions ⟨K.C.marshalGolden d, K.C.signPss c.subjectKey (K.C.marshalGolden d)⟩
          (RpCli.ramTag g) false (K.RW.tagT none) = some vopts →
        K.RW.P.v.tdxQuoteChecks qt vopts = true →
        validAt rt now → validAt c now →
        (step K w' (.rp now (tdxLine s p q a))).2 = "ok" := by
  obtain ⟨hi, hb⟩ := InvBound_cliRun hg K.pt h State.init (Inv_init K.W.cfg) Bound_init hc
  have hroot := KeyCli.RootInv_cliRun K.W K.pt h State.init (RootInv_empty K.W.cfg)
  have hkeys1 : (run K w0 (keySteps h)).1.keys = KeyCli.cliRun K.W K.pt State.init h := by rw [run_keySteps, h0]
  obtain ⟨p, rt, c, d, hwr, hrt, _, hrp, hsp, hiss, hcert, hts, hpv, _⟩ :=
    endorse_facts K _ (by rw [hkeys1]; exact hi) (by rw [hkeys1]; exact hb) (by rw [hkeys1]; exact hroot)
      KE wf E fl hres hmo hdry hsnap hprov
  rw [hkeys1] at hrt
  refine ⟨p, rt, c, d, hwr, hrt, ?_⟩
  intro w' q a s g now content qt vopts hq hpne hp hr ha hpa hs hg1 hg2 hpol hquote hvr hvc
  have := tdx_validate_written hA w' now rt c d s p q a g hq hpne hs hg1 hg2 hp hr content qt ha hpa vopts hpol hquote
    hcert hts hpv hrp hsp hiss hvr hvc
  simp only [step, this]
  rfl

/-- …and in the measurement reading of the same command line (Model/Policy.lean, the reading `C02_cli_tdx_named_mrtd`
    is stated in): a quote carrying the MRTD of a row the written document lists is accepted by `tdx validate
    --ram_gib <that row's RAM size>` — `rows` is what the policy derivation decodes from the written payload
    (`PolicyPrims.goldenTdx`), well-formed (48-byte MRTDs); `otherChecks` stands for every other third-party check. -/
theorem C03_tools_tdx_validate_listed_mrtd (K : Kit Cert Roots R Q) (hA : Agree K) (hg : K.W.guard = true) (w0 : World)
    (h0 : w0.keys = State.init) (h : List (KeyCli.Env × KeyCli.CliFlags))
    (hc : KeyCli.CliCleanRun K.W K.pt State.init h)
    (KE : KeyCli.Env) (wf : KeyCli.CliFlags) (E : EndorseEnv) (fl : EndorseCli.CliFlags)
    (hres : (endorseRun K (run K w0 (keySteps h)).1 KE wf E fl).result = .ok ())
    (hmo : fl.measurementOnly = false) (hdry : fl.dryRun = false) (hsnap : fl.snapshotDir = "")
    (hprov : fl.clspec ≠ 0) :
    ∃ p rt c d, endorseWrites K (run K w0 (keySteps h)).1 KE wf E fl = some (p, stored K.C c d) ∧
      bundle K.W.cfg (KeyCli.cliRun K.W K.pt State.init h).ca = some rt ∧
      ∀ (M : RpCli.MeasurePrims) (w' : World) (q a s : String) (now : Nat) (content : Bytes)
        (rows : List Policy.TdxRow) (row : Policy.TdxRow),
        q ≠ "" → p ≠ "" → w'.read p = some (stored K.C c d) → w'.read q = some (K.C.rootPem rt) →
        w'.read a = some content → M.quoteMrtd content = some row.mrtd →
        K.RW.G.goldenTdx ⟨K.C.marshalGolden d, K.C.signPss c.subjectKey (K.C.marshalGolden d)⟩ = some (some rows) →
        (∀ x ∈ rows, x.mrtd.length = Policy.mrTdSize) → row ∈ rows → row.ramGib < 4294967296 →
        K.RW.L.parseInt s = some (row.ramGib : Int) →
        M.otherChecks content ⟨K.C.marshalGolden d, K.C.signPss c.subjectKey (K.C.marshalGolden d)⟩ = true →
        RpCli.measure K.RW M (rpEnv w' now) (tdxLine s p q a) = true := by
  obtain ⟨hi, hb⟩ := InvBound_cliRun hg K.pt h State.init (Inv_init K.W.cfg) Bound_init hc
  have hroot := KeyCli.RootInv_cliRun K.W K.pt h State.init (RootInv_empty K.W.cfg)
  have hkeys1 : (run K w0 (keySteps h)).1.keys = KeyCli.cliRun K.W K.pt State.init h := by rw [run_keySteps, h0]
  obtain ⟨p, rt, c, d, hwr, hrt, _, _, _, _, _, _, _, _⟩ :=
    endorse_facts K _ (by rw [hkeys1]; exact hi) (by rw [hkeys1]; exact hb) (by rw [hkeys1]; exact hroot)
      KE wf E fl hres hmo hdry hsnap hprov
  rw [hkeys1] at hrt
  refine ⟨p, rt, c, d, hwr, hrt, ?_⟩
  intro M w' q a s now content rows row hq hpne hp hr ha hm hrows hwf hmem hram hs hother
  exact tdx_measure_written hA M w' now rt c d s p q a hq hpne rows row hs hram hp hr content ha hm hrows hwf hmem hother

/-! ### what breaks it -/

/-- An accepted `wipeout` that selects the certificates removes the CA's own root object: there is nothing left to
    export, on any store. -/
theorem C03_tools_wipeout_drops_root (K : Kit Cert Roots R Q) (w : World) (E : KeyCli.Env) (f : KeyCli.CliFlags)
    (hd : KeyCli.Handed) (o : Flags) (c : KeyCli.WipeCtx)
    (hc : KeyCli.cmdOf K.W K.pt E w.keys f = .ok hd) (hcmd : hd.cmd = .wipeout o c) (hsel : c.ca = true) (q : String) :
    (step K (step K w (.key E f)).1 (.exportRoot q)).2 = "none" := by
  have : (KeyCli.cliStep K.W K.pt E w.keys f).1.ca = CA.empty := by
    unfold KeyCli.cliStep
    simp only [hc, hcmd, KeyCli.libStep, wipeout, hsel, if_true]
  simp only [step, exportRoot, this]
  have hb : bundle K.W.cfg CA.empty = none := by
    unfold bundle; cases K.W.cfg.ca <;> rfl
  rw [hb]

/-- Without a root file the relying party refuses: `verify --root_cert q p` with no file at `q` does not exit 0,
    whatever `p` holds (there is no getter in this world, so an absent flag value is refused as well). -/
theorem C03_tools_verify_needs_root (K : Kit Cert Roots R Q) (w : World) (now : Nat) (q p : String)
    (hq : w.read q = none) : (step K w (.rp now (verifyLine q p))).2 = "err" := by
  simp only [step, rp_verify_eq, Verify.cliVerify]
  cases he : Verify.readEndorsement K.RW.P.vp ⟨w.read, none, now⟩ p with
  | error c => rfl
  | ok e =>
    have : Verify.rootOfTrust K.RW.P.vp ⟨w.read, none, now⟩ q = .error (if q != "" then "root-read" else "no-getter") := by
      unfold Verify.rootOfTrust
      by_cases h : (q != "") = true
      · simp [h, hq]
      · simp [h]
    simp only [this]
    rfl

/-! ### a bootstrap over a populated store: why `CliCleanRun` is a hypothesis -/

/-- FULL STATEMENT of the invariant without the clean-store hypothesis (fails today, see
    `C03_tools_finding_rebootstrap`; tool-level form of the known findings C12-K1…K4). -/
def C03_tools_key_bound_any_history : Prop :=
  ∀ (W : KeyCli.Wiring), W.guard = true → ∀ (pt : String → Option (Int × Nat))
    (h : List (KeyCli.Env × KeyCli.CliFlags)) (n : KName) (c : KeyHistory.Cert) (k : Nat), n ≠ rootName →
    certificate (KeyCli.cliRun W pt State.init h).ca n = some c →
    KeyHistory.get (KeyCli.cliRun W pt State.init h).km.live n = some k → c.subjectKey = k

/-- `bootstrap --timestamp 2024-09-01…; bootstrap --timestamp 2024-10-01… --overwrite --keep_going` on the shipped
    wiring (both lines accepted, both exit 0) -/
def exRebootKg : List (KeyCli.Env × KeyCli.CliFlags) :=
  [(KeyCli.exEnv, KeyCli.exB "2024-09-01T00:00:00Z"),
   (KeyCli.exEnv, { KeyCli.exB "2024-10-01T12:00:00+02:00" with overwrite := true, keepGoing := true })]

/-- Witness (confirmed on the real tools: known findings C03-T1 / C03-T2): after the second bootstrap the key directory
    holds key 3 under `primarySigningKey`, while the certificate the store records for that name — kept by
    gcsca.upload because of `--keep_going` — certifies key 1 and is issued by the OLD root (key 0); the root object is
    the NEW root (key 2). -/
theorem C03_tools_finding_rebootstrap : ¬ C03_tools_key_bound_any_history := by
  intro hfull
  have h := hfull KeyCli.exW rfl KeyCli.exPt exRebootKg firstName
    ⟨2, 2, "GCE-uefi-signer", "GCE-cc-tcb-root", 1, 1, 0, 0, false, 1, 13, 63892368000, 64050134400⟩ 3
    (by decide) (by decide) (by decide)
  revert h; decide

/-- …and what `endorse` then does, for EVERY codec: both accepted lines exit 0, SignDoc over that store succeeds,
    embeds the kept certificate (key 1, issued by key 0) and signs with key 3 — a file no verifier holding the CA's
    root object (key 2) can accept. -/
theorem C03_tools_finding_rebootstrap_signs_uncertified (C : Codec Cert) (ts : Int × Nat) (g d : Endorse.Golden)
    (sig : Bytes)
    (h : Endorse.signDoc (some (keysOf C KeyCli.exW.cfg (KeyCli.cliRun KeyCli.exW KeyCli.exPt State.init exRebootKg))) ts g
      = .ok (d, sig)) :
    ∃ c rt, d.cert = C.certDer c ∧ c.subjectKey = 1 ∧ c.signerKey = 0 ∧
      bundle KeyCli.exW.cfg (KeyCli.cliRun KeyCli.exW KeyCli.exPt State.init exRebootKg).ca = some rt ∧
      rt.subjectKey = 2 ∧ sig = C.signPss 3 (C.marshalGolden d) := by
  obtain ⟨c, rt, k, h1, h2, h3, h4, h5⟩ := signDoc_keysOf _ _ _ _ _ _ _ h
  have e1 : certificate (KeyCli.cliRun KeyCli.exW KeyCli.exPt State.init exRebootKg).ca
      (KeyCli.cliRun KeyCli.exW KeyCli.exPt State.init exRebootKg).ca.primarySigning =
      some ⟨2, 2, "GCE-uefi-signer", "GCE-cc-tcb-root", 1, 1, 0, 0, false, 1, 13, 63892368000, 64050134400⟩ := by decide
  have e2 : KeyHistory.get (KeyCli.cliRun KeyCli.exW KeyCli.exPt State.init exRebootKg).km.live
      (KeyCli.cliRun KeyCli.exW KeyCli.exPt State.init exRebootKg).ca.primarySigning = some 3 := by decide
  have e3 : (bundle KeyCli.exW.cfg (KeyCli.cliRun KeyCli.exW KeyCli.exPt State.init exRebootKg).ca).map (·.subjectKey)
      = some 2 := by decide
  rw [e1] at h1; rw [e2] at h3
  cases h1; cases h3
  rw [h2] at e3
  refine ⟨⟨2, 2, "GCE-uefi-signer", "GCE-cc-tcb-root", 1, 1, 0, 0, false, 1, 13, 63892368000, 64050134400⟩, rt, ?_,
    rfl, rfl, h2, by simpa using e3, h5⟩
  rw [h4]; rfl

/-! ### non-vacuity -/

/-- a reference kit (Model/ToolChainRef.lean: the Lean protobuf codec on both sides, text certificates, a signature
    that records key and message) on the shipped wiring -/
def exKit : Kit KeyHistory.Cert (List KeyHistory.Cert) Unit Unit :=
  Ref.kit true KeyCli.exPt (fun _ => some (List.replicate 16 7))

def exEndorse : EndorseCli.CliFlags :=
  { addSnp := true, uefi := "fw.fd", clspec := 123, snpLaunchVmsas := 2, timestamp := ["2025-01-01T00:00:00-08:00"] }

def exEE : EndorseEnv := ⟨(1790000000, 0), "id", "out"⟩

/-- a world with a clean store and a firmware image -/
def exW0 : World := ⟨State.init, [("fw.fd", [1])], .notFound⟩

/-- The hypotheses of the main theorems (other than the third-party contracts `Agree`) are met by a concrete history
    of the shipped wiring: `bootstrap; rotate; rotate --rotated_key_serial_override 2^63; rotate` is a clean run, the
    export finds a root, the `endorse` line exits 0 on the world after it, is not dry-run / measurement-only /
    snapshot, carries provenance — and there are times inside both validity windows. -/
example :
    exW0.keys = State.init ∧ KeyCli.CliCleanRun exKit.W exKit.pt State.init KeyCli.exGood ∧
    (endorseRun exKit (run exKit exW0 (keySteps KeyCli.exGood ++ [.exportRoot "kept.crt"])).1 KeyCli.exEnv
      (KeyCli.exB "") exEE exEndorse).result = .ok () ∧
    exEndorse.measurementOnly = false ∧ exEndorse.dryRun = false ∧ exEndorse.snapshotDir = "" ∧ exEndorse.clspec ≠ 0 ∧
    (∃ rt c, bundle exKit.W.cfg (KeyCli.cliRun exKit.W exKit.pt State.init KeyCli.exGood).ca = some rt ∧
      certificate (KeyCli.cliRun exKit.W exKit.pt State.init KeyCli.exGood).ca
        (KeyCli.cliRun exKit.W exKit.pt State.init KeyCli.exGood).ca.primarySigning = some c ∧
      validAt rt (1800000000 + 62167219200) ∧ validAt c (1800000000 + 62167219200)) := by
  refine ⟨rfl, ⟨fun _ _ => ⟨rfl, rfl, rfl⟩, ⟨fun h => by simp [KeyCli.exR] at h, ⟨fun h => by simp [KeyCli.exR] at h,
    ⟨fun h => by simp [KeyCli.exR] at h, trivial⟩⟩⟩⟩, by decide +kernel, rfl, rfl, rfl, by decide, ?_⟩
  refine ⟨⟨1, 1, "GCE-cc-tcb-root", "GCE-cc-tcb-root", 1, 0, 0, 0, true, 96, 13, 63892368000, 64681286400⟩,
    ⟨9223372036854775809, 9223372036854775809, "GCE-uefi-signer", "GCE-cc-tcb-root", 1, 4, 0, 0, false, 1, 13,
      63957219200, 64114985600⟩, by decide +kernel, by decide +kernel, ?_, ?_⟩ <;> (unfold validAt; decide)

/-- a kit whose reading side satisfies the third-party contracts for ALL documents (Proofs/ToolChainToy.lean: unbounded
    length-prefixed encodings, opaque certificates), on the shipped wiring with the reference measuring side -/
def exToy : Kit Bytes (List Bytes) Unit Unit :=
  Toy.kit KeyCli.exW KeyCli.exPt (Ref.eparams KeyCli.exPt) (Ref.eprims fun _ => some (List.replicate 16 7))
    Endorse.genTables

/-- **All hypotheses of `C03_tools_signed_verifies` hold together** — `Agree` included — for a concrete kit and the
    history `bootstrap; rotate; rotate --rotated_key_serial_override 2^63; rotate; export; endorse`: the theorem
    applies and yields its conclusion for it. -/
example : Agree exToy ∧
    ∃ p rt c, bundle exToy.W.cfg (KeyCli.cliRun exToy.W exToy.pt State.init KeyCli.exGood).ca = some rt ∧
      certificate (KeyCli.cliRun exToy.W exToy.pt State.init KeyCli.exGood).ca
        (KeyCli.cliRun exToy.W exToy.pt State.init KeyCli.exGood).ca.primarySigning = some c ∧
      (p ≠ "kept.crt" → ∀ now, validAt rt now → validAt c now →
        (step exToy (run exToy exW0 (keySteps KeyCli.exGood ++
          [.exportRoot "kept.crt", .endorse KeyCli.exEnv (KeyCli.exB "") exEE exEndorse])).1
          (.rp now (verifyLine "kept.crt" p))).2 = "ok") :=
  ⟨Toy.agree _ _ _ _ _,
   C03_tools_signed_verifies exToy (Toy.agree _ _ _ _ _) rfl exW0 rfl KeyCli.exGood
    ⟨fun _ _ => ⟨rfl, rfl, rfl⟩, ⟨fun h => by simp [KeyCli.exR] at h, ⟨fun h => by simp [KeyCli.exR] at h,
      ⟨fun h => by simp [KeyCli.exR] at h, trivial⟩⟩⟩⟩
    "kept.crt" (by decide) KeyCli.exEnv (KeyCli.exB "") exEE exEndorse (by decide +kernel) rfl rfl rfl (by decide)⟩

end GceTcb.ToolChain
