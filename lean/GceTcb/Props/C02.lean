import GceTcb.Model.Policy
/-
C02 — Accepted attestations carry an endorsed measurement for the named configuration.

Reading (DESIGN §6 C02): for a named launch-VMSA count `n ≠ 0` the listed values are the table entry
for `n` and, for `n = 1`, also the SVSM measurement; for TDX the rows whose `ram_gib` equals the named
size (after Go's `uint32` conversion of the caller's `int`).  Report measurements are 48 bytes (the
closure's gate).  Third-party checks are the concrete functions in Model/Policy.lean copied from the
pinned go-sev-guest / go-tdx-guest sources.
-/
namespace GceTcb.Policy
open GceTcb

theorem mem_of_any_eq {l : List (Nat × Bytes)} {m : Bytes}
    (h : l.any (fun p => p.2 == m) = true) : m ∈ l.map (·.2) := by
  simp only [List.any_eq_true, beq_iff_eq] at h
  obtain ⟨p, hp, rfl⟩ := h
  exact List.mem_map_of_mem hp

/-- verify.SNP with a named VMSA count accepts only a measurement listed for that count. -/
theorem C02_snp_named (s : SevSnp) (m : Bytes) (n : Nat) (hn : n ≠ 0)
    (h : snp (some s) ⟨some m, n⟩ = true) : m ∈ listedFor s n := by
  simp only [snp, hn, ne_eq, not_false_eq_true, if_true, Option.getD_some] at h
  unfold listedFor
  split at h
  · exact absurd h (by simp)
  · split at h
    · rename_i hc
      simp only [Bool.and_eq_true, beq_iff_eq, Bool.not_eq_true'] at hc
      obtain ⟨⟨h1, h2⟩, h3⟩ := hc
      apply List.mem_append.mpr; right
      subst h3
      simp [h1, h2]
    · split at h
      · exact absurd h (by simp)
      · rename_i mm hm
        apply List.mem_append.mpr; left
        simp only [beq_iff_eq] at h
        simp [hm, h]

/-- verify.SNP with no named count accepts only a measurement listed somewhere in the endorsement. -/
theorem C02_snp_any (s : SevSnp) (m : Bytes) (h : snp (some s) ⟨some m, 0⟩ = true) :
    m ∈ allListed s := by
  simp only [snp, ne_eq, not_true_eq_false, if_false, Bool.or_eq_true, beq_iff_eq] at h
  unfold allListed
  rcases h with h | h
  · simp [h]
  · exact List.mem_cons_of_mem _ (mem_of_any_eq h)

/-- A request naming a count for which nothing is listed is rejected, and so is an endorsement
    without SEV-SNP data. -/
theorem C02_snp_absent (s : SevSnp) (o : SNPOptions) (m : Bytes) (hn : o.vmsas ≠ 0)
    (hm : o.measurement = some m) (hl : listedFor s o.vmsas = []) :
    snp (some s) o = false ∧ snp none o = false := by
  refine ⟨?_, rfl⟩
  cases hs : snp (some s) o with
  | false => rfl
  | true =>
    have : snp (some s) ⟨some m, o.vmsas⟩ = true := by
      rw [← hm]; exact hs
    have := C02_snp_named s m o.vmsas hn this
    rw [hl] at this
    cases this

/-- The validator closure: 48-byte gate, expected firmware digest, then verify.SNP. -/
theorem C02_closure (g : Option SevSnp) (gd ed rm : Bytes) (n : Nat)
    (h : closureMeasurement g gd ed rm n = true) :
    rm.length = 48 ∧ (ed ≠ [] → gd = ed) ∧
    ∃ s, g = some s ∧ (n ≠ 0 → rm ∈ listedFor s n) ∧ (n = 0 → rm ∈ allListed s) := by
  unfold closureMeasurement at h
  split at h
  · exact absurd h (by simp)
  · rename_i hl
    split at h
    · exact absurd h (by simp)
    · rename_i hd
      refine ⟨by simpa using hl, ?_, ?_⟩
      · intro hne
        simp only [Bool.and_eq_true, bne_iff_ne, ne_eq, not_and, Decidable.not_not] at hd
        have : ed.length ≠ 0 := by
          intro h0; exact hne (List.eq_nil_of_length_eq_zero h0)
        exact (hd (by simpa using this)).symm
      · cases g with
        | none => simp [snp] at h
        | some s =>
          refine ⟨s, rfl, fun hn => C02_snp_named s rm n hn h, fun hn => ?_⟩
          subst hn; exact C02_snp_any s rm h

/-- SevValidate (measurement path): success implies the report measurement is 48 bytes and listed,
    and when the caller named a VMSA count it is byte-equal to the table entry for that count. -/
theorem C02_sevValidate {R : Type} (pem : Pem) (dflt : SevPolicy R) (g : Option SevSnp)
    (gd rm : Bytes) (base : Option (SevPolicy R)) (ow : Bool) (n : Nat) (other : Bool)
    (h : sevValidateMeasurement pem dflt g gd rm base ow n other = true) :
    rm.length = 48 ∧ ∃ s, g = some s ∧ (n ≠ 0 → rm ∈ listedFor s n) ∧ (n = 0 → rm ∈ allListed s) := by
  unfold sevValidateMeasurement at h
  split at h
  · exact absurd h (by simp)
  · simp only [Bool.and_eq_true] at h
    have := C02_closure g gd [] rm n h.2
    exact ⟨this.1, this.2.2⟩

/-- Naming a VMSA count with no table entry makes SevValidate fail already at policy derivation. -/
theorem C02_sevValidate_absent {R : Type} (pem : Pem) (dflt : SevPolicy R) (s : SevSnp)
    (gd rm : Bytes) (base : Option (SevPolicy R)) (ow : Bool) (n : Nat) (other : Bool)
    (hn : n ≠ 0) (hl : mlookup s.measurements n = none) :
    sevValidateMeasurement pem dflt (some s) gd rm base ow n other = false := by
  have hp : sevPolicy pem dflt (some s) ⟨base, n, ow, true⟩ = none := by
    have hm : ∀ p1 : SevPolicy R, setMeasurement pem s p1 ⟨base, n, ow, true⟩ = none := by
      intro p1; simp [setMeasurement, hn, hl]
    simp only [sevPolicy, modifyPolicy, hm]
    split
    · rfl
    · split <;> rfl
  simp [sevValidateMeasurement, hp]

theorem byteCheck_eq {given required : Bytes} (hr : required.length = mrTdSize)
    (h : byteCheck given required = true) : required = given := by
  unfold byteCheck at h
  have h0 : ¬ (mrTdSize = 0) := by decide
  simp only [hr, h0, if_false, ne_eq, not_true_eq_false, beq_iff_eq] at h
  exact h

/-- TdxPolicy (with the repair): a derived policy always carries a non-empty allow-list of 48-byte
    MRTDs, each copied from a row for the requested RAM size. -/
theorem C02_tdxPolicy_allowlist {Q R : Type} (eq : Q) (er : R) (rs : List TdxRow)
    (o : TdxPolicyOptions Q R) (p : TdxPolicy Q R) (h : tdxPolicy eq er (some rs) o = some p) :
    ∃ b, p.body = some b ∧ b.anyMrTd ≠ [] ∧
      ∀ v ∈ b.anyMrTd, v.length = mrTdSize ∧
        ∃ r ∈ rs, (o.ramGib = 0 ∨ r.ramGib = u32 o.ramGib) ∧ r.mrtd = v := by
  simp only [tdxPolicy] at h
  split at h
  · cases h
  · rename_i hlen
    split at h
    · cases h
    · rename_i hne
      have hsel : ∀ v ∈ (rs.filter (fun m => o.ramGib == 0 || m.ramGib == u32 o.ramGib)).map (·.mrtd),
          v.length = mrTdSize ∧ ∃ r ∈ rs, (o.ramGib = 0 ∨ r.ramGib = u32 o.ramGib) ∧ r.mrtd = v := by
        intro v hv
        obtain ⟨r, hr, rfl⟩ := List.mem_map.mp hv
        have hf := List.mem_filter.mp hr
        constructor
        · simp only [List.any_eq_true, not_exists, not_and] at hlen
          have := hlen r hr
          simpa using this
        · refine ⟨r, hf.1, ?_, rfl⟩
          simpa using hf.2
      have hnonempty : (rs.filter (fun m => o.ramGib == 0 || m.ramGib == u32 o.ramGib)).map (·.mrtd) ≠ [] := by
        intro hh
        apply hne
        simpa using hh
      unfold modifyTdxPolicy at h
      split at h
      · cases h; exact ⟨_, rfl, hnonempty, hsel⟩
      · split at h
        · cases h
        · cases h; exact ⟨_, rfl, hnonempty, hsel⟩

/-- TdxValidate (measurement path): success implies the quote's MRTD is byte-equal to the MRTD of a
    row of the endorsement for the RAM size the caller named (any row when none was named). -/
theorem C02_tdxValidate {Q R : Type} (eq : Q) (er : R) (rows : Option (List TdxRow)) (mrtd : Bytes)
    (base : Option (TdxPolicy Q R)) (ow : Bool) (ram : Int) (other : Bool)
    (h : tdxValidateMeasurement eq er rows mrtd base ow ram other = true) :
    ∃ rs, rows = some rs ∧ ∃ r ∈ rs, (ram = 0 ∨ r.ramGib = u32 ram) ∧ r.mrtd = mrtd := by
  unfold tdxValidateMeasurement at h
  split at h
  · exact absurd h (by simp)
  · rename_i p hp
    cases rows with
    | none => simp [tdxPolicy] at hp
    | some rs =>
      obtain ⟨b, hb, hne, hall⟩ := C02_tdxPolicy_allowlist eq er rs ⟨base, ram, ow⟩ p hp
      refine ⟨rs, rfl, ?_⟩
      simp only [hb, Option.map_some, Option.getD_some, Bool.and_eq_true] at h
      have hany := h.2
      unfold byteCheckAny at hany
      have : b.anyMrTd.isEmpty = false := by
        cases hq : b.anyMrTd with
        | nil => exact absurd hq hne
        | cons _ _ => rfl
      simp only [this, Bool.false_eq_true, if_false, List.any_eq_true] at hany
      obtain ⟨v, hv, hc⟩ := hany
      obtain ⟨hl, r, hr, hram, hrv⟩ := hall v hv
      exact ⟨r, hr, hram, by rw [hrv]; exact byteCheck_eq hl hc⟩

/-- A request naming a RAM size for which the endorsement lists no row is rejected. -/
theorem C02_tdx_absent {Q R : Type} (eq : Q) (er : R) (rs : List TdxRow) (mrtd : Bytes)
    (base : Option (TdxPolicy Q R)) (ow : Bool) (ram : Int) (other : Bool) (hr : ram ≠ 0)
    (hno : ∀ r ∈ rs, r.ramGib ≠ u32 ram) :
    tdxValidateMeasurement eq er (some rs) mrtd base ow ram other = false := by
  cases hh : tdxValidateMeasurement eq er (some rs) mrtd base ow ram other with
  | false => rfl
  | true =>
    obtain ⟨rs', hrs, r, hrm, hc, _⟩ := C02_tdxValidate eq er (some rs) mrtd base ow ram other hh
    cases hrs
    rcases hc with hc | hc
    · exact absurd hc hr
    · exact absurd hc (hno r hrm)

/-- Non-vacuity: a two-row table, a named count, the listed measurement accepted and its one-bit
    neighbour rejected; a TDX table where the named size selects the second row. -/
example :
    let m4 : Bytes := List.replicate 48 4
    let m8 : Bytes := List.replicate 48 8
    let s : SevSnp := ⟨0x30000, 1, [(4, m4), (8, m8)], [], []⟩
    snp (some s) ⟨some m8, 8⟩ = true ∧ snp (some s) ⟨some m4, 8⟩ = false ∧
    snp (some s) ⟨some (5 :: List.replicate 47 4), 4⟩ = false ∧
    tdxValidateMeasurement () () (some [⟨16, false, m4⟩, ⟨32, false, m8⟩]) m8 (none : Option (TdxPolicy Unit Unit)) false 32 true = true ∧
    tdxValidateMeasurement () () (some [⟨16, false, m4⟩, ⟨32, false, m8⟩]) m4 (none : Option (TdxPolicy Unit Unit)) false 32 true = false := by
  decide

end GceTcb.Policy
