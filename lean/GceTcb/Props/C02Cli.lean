import GceTcb.Proofs.RpCli
import GceTcb.Props.C02
import GceTcb.Gen.RpFlags
/-
C02 at the command line — "the configuration the caller named" includes naming it on the command line:
`gcetcbendorsement sev validate --launch_vmsas N` / `tdx validate --ram_gib N` validate the configuration N.

`--launch_vmsas` / `--ram_gib` are PERSISTENT flags defined on the parent commands `sev` / `tdx`; the sub-commands
`validate` (and `policy`) inherit them, and their RunE must take them from the parent's struct.  The defect D2b was
exactly there: `validate` did not forward them, so configuration 0 ("any listed measurement") was validated
whatever the command line named.  The theorems below are about the wiring as repaired (commit 2362f53); the
pre-repair wiring is kept as `callOfPreRepair` for the witnesses.

The measurement reading (`measure`) interprets the options record the command line produces with the measurement
model of Model/Policy.lean (Props/C02.lean), for every choice of the primitives.
-/
namespace GceTcb.RpCli
open GceTcb

variable {Cert Roots Time R Q : Type}

/-! ### obligations on the regenerated command-line facts -/

/-- Where the two configuration flags live: defined on `sev` / `tdx` as persistent flags (uint32 / int, default
    0), seen from `validate` and `policy` below them, and from no other command. -/
theorem C02_cli_flag_scope :
    ("sev", "persistent", "launch_vmsas", "Uint32", "0", "sevCommand.launchVmsas") ∈ Gen.RpFlags.flags ∧
    ("tdx", "persistent", "ram_gib", "Int", "0", "tdxCommand.ramGiB") ∈ Gen.RpFlags.flags ∧
    flagTable = Gen.RpFlags.flags ∧
    (∀ c ∈ ["sev", "sev validate", "sev policy"], ownerOf c "launch_vmsas" = some "sev") ∧
    (∀ c ∈ ["", "verify", "tdx", "tdx validate", "tdx policy", "extract", "inspect", "inspect mask"],
      ownerOf c "launch_vmsas" = none) ∧
    (∀ c ∈ ["tdx", "tdx validate", "tdx policy"], ownerOf c "ram_gib" = some "tdx") ∧
    (∀ c ∈ ["", "verify", "sev", "sev validate", "sev policy", "extract", "inspect", "inspect mask"],
      ownerOf c "ram_gib" = none) :=
  ⟨by decide, by decide, by decide, by decide, by decide, by decide, by decide⟩

/-- The RunE bodies take the configuration from the parent command's struct (`s`, obtained with sevFrom / tdxFrom)
    and put it into the field of the options record that names the configuration to validate; the statement
    skeletons of the four functions are the ones the model was written from. -/
theorem C02_cli_wiring :
    ("ExpectedLaunchVmsas", "s.launchVmsas") ∈ Skeleton.wiringOf Gen.RpFlags.wiring "sevValidateCommand.runE" ∧
    ("ExpectedRAMGiB", "s.ramGiB") ∈ Skeleton.wiringOf Gen.RpFlags.wiring "tdxValidateCommand.runE" ∧
    ("LaunchVmsas", "s.launchVmsas") ∈ Skeleton.wiringOf Gen.RpFlags.wiring "sevPolicyCommand.runE" ∧
    ("RAMGiB", "s.ramGiB") ∈ Skeleton.wiringOf Gen.RpFlags.wiring "tdxPolicyCommand.runE" ∧
    Skeleton.wiring = Gen.RpFlags.wiring ∧
    Skeleton.sevValidateRunSteps = Gen.RpFlags.sevValidateRunSteps ∧
    Skeleton.tdxValidateRunSteps = Gen.RpFlags.tdxValidateRunSteps ∧
    Skeleton.sevValidatePreRunSteps = Gen.RpFlags.sevValidatePreRunSteps ∧
    Skeleton.tdxValidatePreRunSteps = Gen.RpFlags.tdxValidatePreRunSteps ∧
    Skeleton.sevPreRunSteps = Gen.RpFlags.sevPreRunSteps ∧ Skeleton.tdxPreRunSteps = Gen.RpFlags.tdxPreRunSteps ∧
    commands = Gen.RpFlags.commands :=
  ⟨by decide, by decide, by decide, by decide, by decide, rfl, rfl, rfl, rfl, rfl, rfl, rfl⟩

/-! ### the configuration named is the configuration validated -/

/-- `sev validate`: the options record handed to SevValidate carries, as ExpectedLaunchVmsas, the value written in
    the LAST `--launch_vmsas` occurrence of the command line (none: 0), a 32-bit value; `--overwrite` likewise. -/
theorem C02_cli_sev_config_forwarded (W : World Cert Roots Time R Q) (E : Env Time) (cl : CmdLine)
    (content : Bytes) (o : SevValidateOptions Roots Time R) (hv : cl.cmd = "sev validate")
    (h : callOf W.P W.L E cl = .ok (.sevValidate content o)) :
    o.expectedLaunchVmsas = namedVmsas W.L cl ∧ namedVmsas W.L cl < 2 ^ 32 ∧ o.overwrite = namedOverwrite cl := by
  have hw := callOf_ok_wellFormed _ _ _ _ _ h
  cases hh : helpFlag cl with
  | true =>
    rw [callOf_help _ _ _ _ hw (by simp [hv]) hh] at h
    cases h
  | false =>
    rw [callOf_sevValidate _ _ _ _ hw hv hh] at h
    obtain ⟨base, att, content', oe, rot, _, _, _, _, _, hc⟩ := sevValidateCall_ok _ _ _ _ _ h
    cases hc
    exact ⟨parsed_sevLaunchVmsas W.L cl (Or.inl hv), namedVmsas_lt W.L cl hw (Or.inl hv), parsed_sevOverwrite W.L cl (Or.inl hv)⟩

/-- `tdx validate`: ExpectedRAMGiB is the value written in the last `--ram_gib` occurrence (none: 0). -/
theorem C02_cli_tdx_config_forwarded (W : World Cert Roots Time R Q) (E : Env Time) (cl : CmdLine)
    (content : Bytes) (o : TdxValidateOptions Roots Time R Q) (hv : cl.cmd = "tdx validate")
    (h : callOf W.P W.L E cl = .ok (.tdxValidate content o)) :
    o.expectedRAMGiB = namedRamGiB W.L cl ∧ o.overwrite = namedOverwrite cl := by
  have hw := callOf_ok_wellFormed _ _ _ _ _ h
  cases hh : helpFlag cl with
  | true =>
    rw [callOf_help _ _ _ _ hw (by simp [hv]) hh] at h
    cases h
  | false =>
    rw [callOf_tdxValidate _ _ _ _ hw hv hh] at h
    obtain ⟨base, att, content', oe, rot, _, _, _, _, _, hc⟩ := tdxValidateCall_ok _ _ _ _ _ h
    cases hc
    exact ⟨parsed_tdxRamGiB W.L cl (Or.inl hv), parsed_tdxOverwrite W.L cl (Or.inl hv)⟩

/-- The policy commands forward the same flags: LaunchVmsas / RAMGiB of the policy options are the named values. -/
theorem C02_cli_policy_config_forwarded (W : World Cert Roots Time R Q) (E : Env Time) (cl : CmdLine)
    (c : Call Roots Time R Q) (h : callOf W.P W.L E cl = .ok c) :
    (cl.cmd = "sev policy" → ∀ e o out, c = .sevPolicy e o out → o.launchVmsas = namedVmsas W.L cl) ∧
    (cl.cmd = "tdx policy" → ∀ e o out, c = .tdxPolicy e o out → o.ramGib = namedRamGiB W.L cl) := by
  have hw := callOf_ok_wellFormed _ _ _ _ _ h
  constructor
  · intro hv e o out hc
    subst hc
    cases hh : helpFlag cl with
    | true =>
      rw [callOf_help _ _ _ _ hw (by simp [hv]) hh] at h
      cases h
    | false =>
      rw [callOf_sevPolicy _ _ _ _ hw hv hh] at h
      obtain ⟨base, path, out', e', _, _, _, _, hc⟩ := sevPolicyCall_ok _ _ _ _ _ h
      cases hc
      exact parsed_sevLaunchVmsas W.L cl (Or.inr hv)
  · intro hv e o out hc
    subst hc
    cases hh : helpFlag cl with
    | true =>
      rw [callOf_help _ _ _ _ hw (by simp [hv]) hh] at h
      cases h
    | false =>
      rw [callOf_tdxPolicy _ _ _ _ hw hv hh] at h
      obtain ⟨base, path, out', e', _, _, _, _, hc⟩ := tdxPolicyCall_ok _ _ _ _ _ h
      cases hc
      exact parsed_tdxRamGiB W.L cl (Or.inr hv)

/-- a validate command line whose measurement reading accepts reached the library call -/
theorem C02_cli_measure_call (W : World Cert Roots Time R Q) (M : MeasurePrims) (E : Env Time) (cl : CmdLine)
    (h : measure W M E cl = true) : ∃ c, callOf W.P W.L E cl = .ok c ∧ measureCall W.G M c = true := by
  unfold measure at h
  cases hc : callOf W.P W.L E cl with
  | ok c => exact ⟨c, rfl, by simpa [hc] using h⟩
  | err c => simp [hc] at h
  | panic s => simp [hc] at h

/-- C02 through `sev validate`: when the command line is accepted (measurement reading), the report's measurement is
    48 bytes and is one the endorsement lists for the VMSA count NAMED ON THE COMMAND LINE (table entry for that
    count; for one VMSA also the SVSM measurement); when none (or 0) is named, one it lists at all. -/
theorem C02_cli_sev_named_measurement (W : World Cert Roots Time R Q) (M : MeasurePrims) (E : Env Time)
    (cl : CmdLine) (hv : cl.cmd = "sev validate") (h : measure W M E cl = true) :
    ∃ content o rm e s, callOf W.P W.L E cl = .ok (.sevValidate content o) ∧
      M.reportMeasurement content = some rm ∧ W.G.goldenSev e = some (some s) ∧ rm.length = 48 ∧
      (namedVmsas W.L cl ≠ 0 → rm ∈ Policy.listedFor s (namedVmsas W.L cl)) ∧
      (namedVmsas W.L cl = 0 → rm ∈ Policy.allListed s) := by
  obtain ⟨c, hc, hm⟩ := C02_cli_measure_call W M E cl h
  have hw := callOf_ok_wellFormed _ _ _ _ _ hc
  cases hh : helpFlag cl with
  | true =>
    rw [callOf_help _ _ _ _ hw (by simp [hv]) hh] at hc
    cases hc
    simp [measureCall] at hm
  | false =>
    have hc' := hc
    rw [callOf_sevValidate _ _ _ _ hw hv hh] at hc'
    obtain ⟨base, att, content, oe, rot, _, _, _, _, _, hcc⟩ := sevValidateCall_ok _ _ _ _ _ hc'
    subst hcc
    have hn := parsed_sevLaunchVmsas W.L cl (Or.inl hv)
    simp only [measureCall, measureSev] at hm
    cases hrm : M.reportMeasurement content with
    | none => simp [hrm] at hm
    | some rm =>
      simp only [hrm] at hm
      split at hm
      · cases hm
      · rename_i e _
        cases hg : W.G.goldenSev e with
        | none => simp [hg] at hm
        | some g =>
          simp only [hg] at hm
          obtain ⟨hlen, s, hs, h1, h2⟩ := Policy.C02_sevValidate _ _ _ _ _ _ _ _ _ hm
          subst hs
          rw [hn] at h1 h2
          exact ⟨content, _, rm, e, s, hc, hrm, hg, hlen, h1, h2⟩

/-- C02 through `tdx validate`: an accepted quote's MRTD is the MRTD of a row of the endorsement for the RAM size
    named on the command line (after Go's uint32 conversion of the `int`; any row when 0 or none is named). -/
theorem C02_cli_tdx_named_mrtd (W : World Cert Roots Time R Q) (M : MeasurePrims) (E : Env Time)
    (cl : CmdLine) (hv : cl.cmd = "tdx validate") (h : measure W M E cl = true) :
    ∃ content o mrtd e rs, callOf W.P W.L E cl = .ok (.tdxValidate content o) ∧
      M.quoteMrtd content = some mrtd ∧ W.G.goldenTdx e = some (some rs) ∧
      ∃ r ∈ rs, (namedRamGiB W.L cl = 0 ∨ r.ramGib = Policy.u32 (namedRamGiB W.L cl)) ∧ r.mrtd = mrtd := by
  obtain ⟨c, hc, hm⟩ := C02_cli_measure_call W M E cl h
  have hw := callOf_ok_wellFormed _ _ _ _ _ hc
  cases hh : helpFlag cl with
  | true =>
    rw [callOf_help _ _ _ _ hw (by simp [hv]) hh] at hc
    cases hc
    simp [measureCall] at hm
  | false =>
    have hc' := hc
    rw [callOf_tdxValidate _ _ _ _ hw hv hh] at hc'
    obtain ⟨base, att, content, oe, rot, _, _, _, _, _, hcc⟩ := tdxValidateCall_ok _ _ _ _ _ hc'
    subst hcc
    have hn := parsed_tdxRamGiB W.L cl (Or.inl hv)
    simp only [measureCall, measureTdx] at hm
    cases hq : M.quoteMrtd content with
    | none => simp [hq] at hm
    | some mrtd =>
      simp only [hq] at hm
      split at hm
      · cases hm
      · rename_i e _
        cases hg : W.G.goldenTdx e with
        | none => simp [hg] at hm
        | some rows =>
          simp only [hg] at hm
          obtain ⟨rs, hrs, r, hr, hram, hm'⟩ := Policy.C02_tdxValidate _ _ _ _ _ _ _ _ hm
          subst hrs
          rw [hn] at hram
          exact ⟨content, _, mrtd, e, rs, hc, hq, hg, r, hr, hram, hm'⟩

/-- A value that is not a 32-bit unsigned numeral in ANY `--launch_vmsas` occurrence (`sev validate`, `sev policy`),
    or not a 64-bit numeral in any `--ram_gib` occurrence (`tdx …`), refuses the command line before anything is
    read: the tool never substitutes a default for a malformed configuration. -/
theorem C02_cli_malformed_config_rejected (W : World Cert Roots Time R Q) (E : Env Time) (cl : CmdLine) (v : String)
    (h : (cl.cmd = "sev validate" ∨ cl.cmd = "sev policy") ∧ ("launch_vmsas", v) ∈ cl.flags ∧
           (∀ n, W.L.parseUint v = some n → 2 ^ 32 ≤ n) ∨
         (cl.cmd = "tdx validate" ∨ cl.cmd = "tdx policy") ∧ ("ram_gib", v) ∈ cl.flags ∧
           (∀ i, W.L.parseInt v = some i → i < -(2 ^ 63) ∨ 2 ^ 63 ≤ i)) :
    run W E cl = ⟨[], .err "parse"⟩ := by
  have hnw : wellFormed W.L cl = false := by
    cases hw : wellFormed W.L cl with
    | false => rfl
    | true =>
      exfalso
      simp only [wellFormed, Bool.and_eq_true, List.all_eq_true] at hw
      rcases h with ⟨hc, hm, hbad⟩ | ⟨hc, hm, hbad⟩
      · have hok := hw.2 _ hm
        have hk : kindOf cl.cmd "launch_vmsas" = some "Uint32" := by
          rcases hc with hc | hc <;> rw [hc]
          · exact kind_sevValidate_launch
          · exact kind_sevPolicy_launch
        simp only [flagOk, hk] at hok
        cases hp : W.L.parseUint v with
        | none => simp [hp] at hok
        | some n =>
          simp [hp] at hok
          have := hbad n hp
          omega
      · have hok := hw.2 _ hm
        have hk : kindOf cl.cmd "ram_gib" = some "Int" := by
          rcases hc with hc | hc <;> rw [hc] <;> decide
        simp only [flagOk, hk] at hok
        cases hp : W.L.parseInt v with
        | none => simp [hp] at hok
        | some i =>
          simp [hp] at hok
          have := hbad i hp
          omega
  simp [run, callOf, hnw]

/-- Naming a VMSA count for which the endorsement lists no table entry: refused. -/
theorem C02_cli_absent_config_rejected (W : World Cert Roots Time R Q) (M : MeasurePrims) (E : Env Time)
    (cl : CmdLine) (hv : cl.cmd = "sev validate") (hn : namedVmsas W.L cl ≠ 0)
    (hno : ∀ e s, W.G.goldenSev e = some (some s) → Policy.listedFor s (namedVmsas W.L cl) = []) :
    measure W M E cl = false := by
  cases hm : measure W M E cl with
  | false => rfl
  | true =>
    obtain ⟨_, _, rm, e, s, _, _, hg, _, h1, _⟩ := C02_cli_sev_named_measurement W M E cl hv hm
    have := h1 hn
    rw [hno e s hg] at this
    cases this

/-! ### the pre-repair wiring (D2b), as a witness -/

/-- What D2b was: with the pre-repair wiring EVERY `sev validate` / `tdx validate` command line validates
    configuration 0, whatever it names. -/
theorem C02_cli_prerepair_drops_config (W : World Cert Roots Time R Q) (E : Env Time) (cl : CmdLine)
    (c : Call Roots Time R Q) (h : callOfPreRepair W.P W.L E cl = .ok c) :
    (∀ content o, c = .sevValidate content o → o.expectedLaunchVmsas = 0) ∧
    (∀ content o, c = .tdxValidate content o → o.expectedRAMGiB = 0) := by
  unfold callOfPreRepair at h
  cases hc : callOf W.P W.L E cl with
  | err e => simp [hc] at h
  | panic s => simp [hc] at h
  | ok c0 =>
    simp only [hc] at h
    injection h with h
    subst h
    constructor
    · intro content o hco
      cases c0 <;> simp [dropNamedConfig] at hco
      obtain ⟨_, ho⟩ := hco
      rw [← ho]
    · intro content o hco
      cases c0 <;> simp [dropNamedConfig] at hco
      obtain ⟨_, ho⟩ := hco
      rw [← ho]

open ExampleM in
/-- Non-vacuity: naming the configuration the report was launched with is accepted; naming another one is refused. -/
example :
    measure W M E (sevLine "4") = true ∧ measure W M E (sevLine "8") = false ∧
    measure W M E (sevLine "16") = false ∧
    measure W M E (tdxLine "16") = true ∧ measure W M E (tdxLine "32") = false ∧
    measure W M E (tdxLine "64") = false := by decide

open ExampleM in
/-- D2b as a witness: `sev validate --launch_vmsas 8` on a report carrying the measurement listed for FOUR VMSAs —
    not listed for the 8 named — is accepted by the pre-repair wiring and refused by the repaired one; the same
    for `tdx validate --ram_gib 32` on a quote carrying the 16 GiB MRTD. -/
theorem C02_cli_prerepair_witness :
    measurePreRepair W M E (sevLine "8") = true ∧ m4 ∉ Policy.listedFor ⟨0x30000, 1, [(4, m4), (8, m8)], [], []⟩ 8 ∧
    measure W M E (sevLine "8") = false ∧
    measurePreRepair W M E (tdxLine "32") = true ∧ measure W M E (tdxLine "32") = false := by decide

end GceTcb.RpCli
