import GceTcb.Proofs.PathAccess
/-
C19 — Field-path inspection returns exactly the addressed value.
Property theorems only (helper lemmas live in Proofs/PathScan.lean, Proofs/PathParse.lean and
Proofs/PathAccess.lean).

The theorems are about the repaired tree (two `fix:` commits: the descriptor cursor of
access.go PathValues advances past a map index; parse.go accessIdent refuses a field access applied
directly to a repeated field).  The behaviour of the original tree is kept in the model under
`Variant.orig`, and the two `C19_old_*` theorems are witnesses that the original code violates the
property.

`Schema.wf` states what protobuf guarantees of real descriptors (field numbers unique within a
message, every field knows its containing message, map keys are scalars); the harness sends the real
descriptors and the driver evaluates `Schema.wf` on them on every run.  `Typed sch (.msg root) v`
says that `v` is a message of type `root`; the driver evaluates the sound checker `typedB` on every
generated message.
-/
namespace GceTcb.Path
open GceTcb

/-- Every non-eof token the scanner returns advances the position and stays inside the input. -/
theorem C19_scan_progress (buf : Str) (pos : Nat) (tok : Token) (pos' : Nat)
    (h : scan buf pos = .ok (tok, pos')) (hne : tok.kind ≠ .eof) : pos < pos' ∧ pos' ≤ buf.length := by
  obtain ⟨t, p', hs, hcase⟩ := scan_total buf pos
  rw [hs] at h
  simp only [Outcome.ok.injEq, Prod.mk.injEq] at h
  obtain ⟨rfl, rfl⟩ := h
  rcases hcase with ⟨he, _, _⟩ | ⟨_, h1, h2⟩
  · exact absurd he hne
  · exact ⟨h1, h2⟩

/-- An eof token is returned exactly at the end of the input and does not move the position. -/
theorem C19_scan_eof (buf : Str) (pos : Nat) (tok : Token) (pos' : Nat)
    (h : scan buf pos = .ok (tok, pos')) (he : tok.kind = .eof) : pos' = pos ∧ buf.length ≤ pos := by
  obtain ⟨t, p', hs, hcase⟩ := scan_total buf pos
  rw [hs] at h
  simp only [Outcome.ok.injEq, Prod.mk.injEq] at h
  obtain ⟨rfl, rfl⟩ := h
  rcases hcase with ⟨_, h1, h2⟩ | ⟨hne, _, _⟩
  · exact ⟨h1, h2⟩
  · exact absurd he hne

/-- The scanner never panics (no index or slice out of range, the string loop's fuel suffices) and
    never fails: from every position of every byte string it returns a token. -/
theorem C19_no_panic_scan (buf : Str) (pos : Nat) : ∃ tok pos', scan buf pos = .ok (tok, pos') := by
  obtain ⟨t, p', hs, _⟩ := scan_total buf pos
  exact ⟨t, p', hs⟩

/-- Parsing never panics, for every schema, root and path string — in particular the fuel
    `length + 1` of the parse loop is never exhausted (justified by `C19_scan_progress`), so
    `parsePath` is the terminating Go loop.  Holds for the original and the repaired parser. -/
theorem C19_no_panic_parse (V : Variant) (sch : Schema) (root s : Str) :
    (parsePathV V sch root s).isPanic = false := by
  unfold parsePathV
  split
  · rfl
  · exact parseLoop_not_panic V sch root s _ _ _ (by omega) (by omega)

/-- Main theorem: a successfully parsed path evaluates, on every well-typed message of the root
    type, to exactly what the descriptor-free field-by-field walk yields — the same values along the
    path (the addressed value last), or the same error (list index out of range, map key absent). -/
theorem C19_parse_eval (sch : Schema) (hwf : sch.wf = true) (root s : Str) (p : List Step)
    (h : parsePath sch root s = .ok p) (v : Value) (hv : Typed sch (.msg root) v) :
    pathValues sch p v = walk p v := by
  obtain ⟨md, steps, d, hl, hp, hok⟩ := parsePath_sound h
  obtain ⟨fs, hvm, _⟩ := typed_msg_inv hv
  subst hvm hp
  have hname := (lookupMsg_some hl).1
  unfold pathValues pathValuesV walk
  simp only [hl]
  unfold evalFrom walkFrom
  simp only [evalStep, Desc.fullName, hname, walkStep, ne_eq, not_true_eq_false, if_false]
  exact evalFrom_eq_walkFrom hwf hok 1 _ _ (by simpa [DescTyped, hname] using hv)

/-- Evaluation of a parsed path on a well-typed message never panics (no `Value.Message/List/Map`
    on a value of another shape, no `Message.Get` with a foreign descriptor, no `List.Get` out of
    range, no `Map.Get` with a key of the wrong Go type). -/
theorem C19_no_panic_eval (sch : Schema) (hwf : sch.wf = true) (root s : Str) (p : List Step)
    (h : parsePath sch root s = .ok p) (v : Value) (hv : Typed sch (.msg root) v) :
    (pathValues sch p v).isPanic = false := by
  rw [C19_parse_eval sch hwf root s p h v hv]
  exact walkFrom_not_panic _ _ _

/-- The same two statements with the decidable hypothesis the driver evaluates on every generated
    message. -/
theorem C19_parse_eval_checked (sch : Schema) (hwf : sch.wf = true) (root s : Str) (p : List Step)
    (h : parsePath sch root s = .ok p) (v : Value) (hv : typedB sch root v = true) :
    pathValues sch p v = walk p v ∧ (pathValues sch p v).isPanic = false :=
  ⟨C19_parse_eval sch hwf root s p h v (typedB_sound hv),
   C19_no_panic_eval sch hwf root s p h v (typedB_sound hv)⟩

/-- Raw ("bin") form, and the automatic form on a non-terminal writer, write exactly the bytes. -/
theorem C19_raw_bytes (b : Str) (term : Bool) :
    writeBytesForm b .raw term = b ∧ writeBytesForm b .auto false = b := ⟨rfl, rfl⟩

/-- Mask with one path that addresses a `bytes` field writes exactly that field's bytes in raw form
    (and in automatic form when the writer is not a terminal). -/
theorem C19_raw_bytes_mask (sch : Schema) (root : Str) (src : Value) (ps : Str) (path : List Step)
    (vs : List Value) (s : Scalar) (term : Bool)
    (hp : parsePath sch root ps = .ok path) (he : pathValues sch path src = .ok vs)
    (hl : vs.getLast? = some (.scalar s)) (hb : s.cls = .bytes) :
    maskPaths sch root src .raw term [ps] 0 (some []) = .ok (some s.str) ∧
    maskPaths sch root src .auto false [ps] 0 (some []) = .ok (some s.str) := by
  constructor <;>
    simp [maskPaths, hp, he, hl, marshalValue, hb, writeBytesForm]

/-! ### concrete schema and message for the witnesses and the non-vacuity examples -/

namespace Ex

def T : Str := asc "t.Test"
def N : Str := asc "t.Test.Nested"

def fld (parent : Str) (n : Nat) (name : String) (c : Card) (k : Kind) (ref : Str) : Field :=
  { number := n, name := asc name, card := c, kind := k, ref := ref, parent := parent }

/-- the shape of the repository's test message: nested messages, lists, a map for every key kind
    the parser can cast, plus a `sint32`-keyed map and a map with scalar values -/
def sch : Schema := [
  { name := T, fields := [
      fld T 1 "nested" .single .message N,
      fld T 2 "repeats" .list .message T,
      fld T 3 "int32repeats" .list .int32 [],
      fld T 4 "strkeymap" (.map .string) .message N,
      fld T 5 "boolkeymap" (.map .bool) .message T,
      fld T 6 "int32keymap" (.map .int32) .message T,
      fld T 7 "int64keymap" (.map .int64) .message T,
      fld T 8 "uint32keymap" (.map .uint32) .message T,
      fld T 9 "uint64keymap" (.map .uint64) .message T,
      fld T 10 "sintkeymap" (.map .sint32) .bytes [],
      fld T 11 "blobs" (.map .uint32) .bytes [] ] },
  { name := N, fields := [
      fld N 1 "intfield" .single .int32 [],
      fld N 2 "stringfield" .single .string [],
      fld N 3 "bytesfield" .single .bytes [],
      fld N 4 "nested" .single .message T ] } ]

def i32 (n : Int) : Value := .scalar ⟨.i32, n, []⟩

def inner : Value := .msg T [(3, .list [i32 7, i32 8]), (1, .msg N [(1, i32 5), (3, .scalar ⟨.bytes, 0, [1, 2, 255]⟩)])]

def v : Value := .msg T [
  (1, .msg N [(2, .scalar ⟨.str, 0, asc "hi"⟩), (4, inner)]),
  (2, .list [inner, .msg T []]),
  (4, .map .str [(⟨.str, 0, [107, 34, 195, 169]⟩, .msg N [(1, i32 9)])]),
  (5, .map .bool [(⟨.bool, 1, []⟩, inner)]),
  (6, .map .i32 [(⟨.i32, -4, []⟩, inner)]),
  (7, .map .i64 [(⟨.i64, -9223372036854775808, []⟩, inner)]),
  (8, .map .u32 [(⟨.u32, 4294967295, []⟩, inner)]),
  (9, .map .u64 [(⟨.u64, 18446744073709551615, []⟩, inner)]),
  (11, .map .u32 [(⟨.u32, 2, []⟩, .scalar ⟨.bytes, 0, [222, 173]⟩)]) ]

/-- parse with the repaired parser, evaluate with the repaired evaluator, return the addressed value -/
def get (path : String) : Outcome (Option Value) :=
  (parsePath sch T (asc path)).bind (fun p => (pathValues sch p v).bind (fun vs => .ok vs.getLast?))

end Ex

/-- Witness (D12): on the ORIGINAL evaluator the descriptor cursor is not advanced past a map index;
    for a well-formed schema, a parsed path and a well-typed message, evaluation differs from the
    walk: `int32keymap[-4].int32repeats` fails with "missing-field" although the field is there. -/
theorem C19_old_cursor_breaks :
    ∃ (sch : Schema) (root s : Str) (p : List Step) (v : Value),
      sch.wf = true ∧ parsePathV .orig sch root s = .ok p ∧ Typed sch (.msg root) v ∧
      pathValuesV .orig sch p v = .err "missing-field" ∧
      walk p v = .ok [v, .map .i32 [(⟨.i32, -4, []⟩, Ex.inner)], Ex.inner, .list [Ex.i32 7, Ex.i32 8]] ∧
      pathValuesV .orig sch p v ≠ walk p v := by
  refine ⟨Ex.sch, Ex.T, asc "int32keymap[-4].int32repeats",
    [.root Ex.T, .field (Ex.fld Ex.T 6 "int32keymap" (.map .int32) .message Ex.T), .mapIndex ⟨.i32, -4, []⟩,
     .field (Ex.fld Ex.T 3 "int32repeats" .list .int32 [])], Ex.v, by decide, by rfl,
    typedB_sound (by decide), by rfl, by rfl, ?_⟩
  intro h
  have h1 : pathValuesV .orig Ex.sch
      [.root Ex.T, .field (Ex.fld Ex.T 6 "int32keymap" (.map .int32) .message Ex.T), .mapIndex ⟨.i32, -4, []⟩,
       .field (Ex.fld Ex.T 3 "int32repeats" .list .int32 [])] Ex.v = .err "missing-field" := by rfl
  rw [h1] at h
  have h2 : walk [.root Ex.T, .field (Ex.fld Ex.T 6 "int32keymap" (.map .int32) .message Ex.T),
      .mapIndex ⟨.i32, -4, []⟩, .field (Ex.fld Ex.T 3 "int32repeats" .list .int32 [])] Ex.v =
      .ok [Ex.v, .map .i32 [(⟨.i32, -4, []⟩, Ex.inner)], Ex.inner, .list [Ex.i32 7, Ex.i32 8]] := by rfl
  rw [h2] at h
  cases h

/-- Witness (second defect, found while modelling): the ORIGINAL parser accepts a field access
    applied directly to a repeated message field (`repeats.nested`), and evaluating the parsed path on
    a well-typed message panics in `Value.Message` — with the real endorsement type the path
    `tdx.measurements.ram_gib` crashes `inspect mask`. -/
theorem C19_old_list_field_panics :
    ∃ (sch : Schema) (root s : Str) (p : List Step) (v : Value),
      sch.wf = true ∧ parsePathV .orig sch root s = .ok p ∧ Typed sch (.msg root) v ∧
      pathValuesV .orig sch p v = .panic "value.message" := by
  exact ⟨Ex.sch, Ex.T, asc "repeats.nested",
    [.root Ex.T, .field (Ex.fld Ex.T 2 "repeats" .list .message Ex.T),
     .field (Ex.fld Ex.T 1 "nested" .single .message Ex.N)], Ex.v, by decide, by rfl,
    typedB_sound (by decide), by rfl⟩

/-! ### non-vacuity -/

/-- the hypotheses of `C19_parse_eval` are met by the example schema and message -/
example : Ex.sch.wf = true ∧ Typed Ex.sch (.msg Ex.T) Ex.v := ⟨by decide, typedB_sound (by decide)⟩

/-- a path through nested messages (explicit root), ending in a bytes field -/
example : Ex.get "(t.Test).nested.nested.nested.bytesfield" = .ok (some (.scalar ⟨.bytes, 0, [1, 2, 255]⟩)) := by rfl
/-- a list index, then a list of scalars (hex index) -/
example : Ex.get "repeats[0].int32repeats[0x1]" = .ok (some (Ex.i32 8)) := by rfl
/-- an unpopulated field of an empty list element yields the default -/
example : Ex.get "repeats[1].nested.intfield" = .ok (some (Ex.i32 0)) := by rfl
/-- list index out of range: an error, the same the walk reports -/
example : Ex.get "repeats[2]" = .err "range" := by rfl
/-- map keys of every castable key kind (the string key is `k"é` in UTF-8, written with escapes);
    fields other than 1 and 2 of the map value are reachable -/
example : Ex.get "strkeymap[\"k\\\"\\u00e9\"].intfield" = .ok (some (Ex.i32 9)) := by rfl
example : Ex.get "boolkeymap[true].int32repeats[0]" = .ok (some (Ex.i32 7)) := by rfl
example : Ex.get "int32keymap[-4].int32repeats[1]" = .ok (some (Ex.i32 8)) := by rfl
example : Ex.get "int64keymap[-0x8000000000000000].nested.intfield" = .ok (some (Ex.i32 5)) := by rfl
example : Ex.get "uint32keymap[037777777777].int32repeats" = .ok (some (.list [Ex.i32 7, Ex.i32 8])) := by rfl
example : Ex.get "uint64keymap[18446744073709551615].nested.bytesfield" =
    .ok (some (.scalar ⟨.bytes, 0, [1, 2, 255]⟩)) := by rfl
example : Ex.get "blobs[2]" = .ok (some (.scalar ⟨.bytes, 0, [222, 173]⟩)) := by rfl
/-- absent key: error; out-of-range key literal, wrong key type, unsupported key kind: parse errors -/
example : Ex.get "int32keymap[5]" = .err "key" := by rfl
example : Ex.get "int32keymap[0x80000000]" = .err "key-kind" := by rfl
example : Ex.get "uint32keymap[-1]" = .err "key-kind" := by rfl
example : Ex.get "boolkeymap[1]" = .err "key-kind" := by rfl
example : Ex.get "sintkeymap[1]" = .err "key-kind" := by rfl
/-- the repaired parser refuses what made the original evaluator panic -/
example : Ex.get "repeats.nested" = .err "list-field" := by rfl
/-- scanner progress on a string literal with escapes, and on an illegal byte -/
example : scan (asc "'a\\x41\\101'.x") 0 = .ok (⟨.strlit, 0, asc "aAA"⟩, 11) := by rfl
example : scan (asc "nested nested") 6 = .ok (⟨.illegal, 6, []⟩, 7) := by rfl
/-- raw bytes through Mask -/
example : maskPaths Ex.sch Ex.T Ex.v .raw true [asc "blobs[2]"] 0 (some []) = .ok (some [222, 173]) := by rfl

end GceTcb.Path
