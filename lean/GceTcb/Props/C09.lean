import GceTcb.Proofs.Reentrancy
import GceTcb.Gen.ClosureWrites
/-
C09 — Validation functions are re-entrant.
Property theorems only (model: Model/Reentrancy.lean over Model/Verify.lean; lemmas: Proofs/Reentrancy.lean).

The theorems hold for every choice of the primitives, every number of threads, all inputs and every
schedule.  They are conditional on the two write lists being empty; that the lists regenerated from the
current source ARE empty is the obligation `C09_no_shared_writes` (it breaks when a store to the
caller's options is reintroduced).  Steps are atomic and sequentially consistent; the Go memory model
itself (a data race is undefined behaviour) is outside the model.
-/
namespace GceTcb.Reentrancy
open GceTcb GceTcb.Verify

variable {Cert Roots Time : Type}

/-- Obligation on the regenerated facts: neither the validator closure (with its same-package callees)
    nor the constructor stores anything through captured variables or parameter pointers. -/
theorem C09_no_shared_writes :
    Gen.ClosureWrites.closureWrites = [] ∧ Gen.ClosureWrites.constructorWrites = [] := by decide

/-- Invariant: with no shared stores, the caller's options are the same after every schedule prefix. -/
theorem C09_shared_constant {n : Nat} (cfg : Cfg Cert Roots Time) (hc : cfg.constructorWrites = [])
    (hw : cfg.closureWrites = []) (calls : Fin n → Call) (σ : List (Fin n)) :
    (runSched cfg calls σ).shared = initShared cfg :=
  runSched_shared cfg hc hw calls σ

/-- Isolation: with no shared stores, for every number of threads, all inputs and every complete
    schedule (any interleaving of concurrent invocations, any order of successive ones, one validator
    or several constructed from the same options value), each invocation's result is the result it gets
    when run alone. -/
theorem C09_isolated {n : Nat} (cfg : Cfg Cert Roots Time) (hc : cfg.constructorWrites = [])
    (hw : cfg.closureWrites = []) (calls : Fin n → Call) (σ : List (Fin n)) (hσ : Complete cfg σ) :
    results cfg calls σ = fun i => runAlone cfg (calls i) := by
  funext i
  have hfuel : fuel cfg = 7 := by simp [fuel, hc, hw]
  have hi : 6 ≤ σ.count i := by have := hσ i; omega
  simp only [results, runAlone]
  rw [runSched_locals cfg hc hw calls σ i, runSched_locals cfg hc hw (fun _ => calls i) _ 0]
  have hcount : (List.replicate (fuel cfg) (0 : Fin 1)).count 0 = 7 := by
    rw [hfuel]; decide
  rw [hcount, iter_stable cfg hc hw (calls i) (σ.count i) hi, iter_stable cfg hc hw (calls i) 7 (by omega)]

/-- A thread that finished got its isolated result even when the schedule is not complete
    (other threads may be anywhere). -/
theorem C09_finished_is_isolated {n : Nat} (cfg : Cfg Cert Roots Time) (hc : cfg.constructorWrites = [])
    (hw : cfg.closureWrites = []) (calls : Fin n → Call) (σ : List (Fin n)) (i : Fin n) (r : Res)
    (hr : results cfg calls σ i = some r) : runAlone cfg (calls i) = some r := by
  have hfuel : fuel cfg = 7 := by simp [fuel, hc, hw]
  simp only [results] at hr
  rw [runSched_locals cfg hc hw calls σ i] at hr
  simp only [runAlone]
  have hcount : (List.replicate (fuel cfg) (0 : Fin 1)).count 0 = 7 := by
    rw [hfuel]; decide
  rw [runSched_locals cfg hc hw (fun _ => calls i) _ 0, hcount, iter_stable cfg hc hw (calls i) 7 (by omega)]
  -- the thread is done after `count i σ` steps; so the state is stable from there on
  by_cases hk : 6 ≤ σ.count i
  · rw [iter_stable cfg hc hw (calls i) _ hk] at hr; exact hr
  · -- fewer than six steps, yet done: further steps do not change a finished thread
    have hdone : ∃ r', (iter (stepL cfg (calls i)) (σ.count i) initLocal).phase = .done r' := by
      cases hp : (iter (stepL cfg (calls i)) (σ.count i) initLocal).phase <;>
        simp [Local.result, hp] at hr
      exact ⟨_, rfl⟩
    obtain ⟨r', hr'⟩ := hdone
    have hstay : ∀ d, iter (stepL cfg (calls i)) (σ.count i + d) initLocal =
        iter (stepL cfg (calls i)) (σ.count i) initLocal := by
      intro d
      induction d with
      | zero => rfl
      | succ d ih =>
        show stepL cfg (calls i) (iter (stepL cfg (calls i)) (σ.count i + d) initLocal) = _
        rw [ih]; exact stepL_done cfg (calls i) _ r' hr'
    have := hstay (6 - σ.count i)
    rw [show σ.count i + (6 - σ.count i) = 6 by omega] at this
    rw [this]; exact hr

/-- The isolated result is the validator closure of the C01 model applied to this call alone: it depends
    only on the call's attestation and serialized endorsement and on the options as configured. -/
theorem C09_alone_is_closure (cfg : Cfg Cert Roots Time) (hc : cfg.constructorWrites = [])
    (hw : cfg.closureWrites = []) (call : Call) :
    runAlone cfg call = some (snpClosure cfg.P cfg.familyID cfg.opts call.att call.serialized) := by
  have hfuel : fuel cfg = 7 := by simp [fuel, hc, hw]
  simp only [runAlone]
  have hcount : (List.replicate (fuel cfg) (0 : Fin 1)).count 0 = 7 := by
    rw [hfuel]; decide
  rw [runSched_locals cfg hc hw (fun _ => call) _ 0, hcount, iter_stable cfg hc hw call 7 (by omega)]
  exact iter_six_is_closure cfg hc hw call

/-- A report whose measurement is not endorsed is rejected whatever other validations are in flight:
    if the endorsement the call is checked against (pre-supplied, serialized argument, or fetched for
    this report's measurement) does not list the report's measurement for the configured VMSA count,
    the call is not accepted under any complete schedule, whatever the other threads validate. -/
theorem C09_unendorsed_rejected {n : Nat} (cfg : Cfg Cert Roots Time) (hc : cfg.constructorWrites = [])
    (hw : cfg.closureWrites = []) (calls : Fin n → Call) (σ : List (Fin n)) (hσ : Complete cfg σ)
    (i : Fin n) (a : Attestation) (hatt : (calls i).att = some a)
    (hun : ∀ e g, usedEndorsement cfg (calls i) a = some e → cfg.P.unmarshalGolden e.payload = some g →
      snp g ⟨some a.measurement, (cfg.opts.snp.getD ⟨none, 0⟩).expectedLaunchVMSAs⟩ ≠ none) :
    results cfg calls σ i ≠ some accept := by
  rw [C09_isolated cfg hc hw calls σ hσ]
  simp only [C09_alone_is_closure cfg hc hw]
  intro h
  obtain ⟨e, g, he, hu, hl⟩ := snpClosure_accept_listed cfg (calls i) a hatt (Option.some.inj h)
  exact hun e g he hu hl

/-- The current source: the regenerated write lists are empty, so isolation holds for the validator as
    it is written now. -/
theorem C09_isolated_current_source {n : Nat} (P : Prims Cert Roots Time) (familyID : String)
    (opts : Options Roots Time) (calls : Fin n → Call) (σ : List (Fin n))
    (hσ : Complete (⟨P, familyID, opts, Gen.ClosureWrites.constructorWrites, Gen.ClosureWrites.closureWrites⟩ :
      Cfg Cert Roots Time) σ) :
    results ⟨P, familyID, opts, Gen.ClosureWrites.constructorWrites, Gen.ClosureWrites.closureWrites⟩ calls σ =
      fun i => some (snpClosure P familyID opts (calls i).att (calls i).serialized) := by
  have h := C09_no_shared_writes
  rw [C09_isolated _ h.2 h.1 calls σ hσ]
  funext i
  exact C09_alone_is_closure _ h.2 h.1 (calls i)

/-! ### The hypothesis matters: the behaviour of the code before the fix, on the same model -/

open Example in
/-- Witness for the old behaviour (non-empty write set): a complete two-thread schedule under which the
    unendorsed report is ACCEPTED although it is rejected when run alone — so the emptiness hypothesis
    of `C09_isolated` cannot be dropped, and the obligation `C09_no_shared_writes` is what carries it. -/
theorem C09_shared_store_witness :
    Complete oldCfg badSchedule ∧
    runAlone oldCfg (calls 0) = some (reject "snp:measurement-not-listed") ∧
    results oldCfg calls badSchedule 0 = some accept := by
  refine ⟨?_, by decide, by decide⟩
  intro i
  have : fuel oldCfg = 9 := by decide
  rw [this]
  match i with
  | 0 => decide
  | 1 => decide

open Example in
/-- Non-vacuity of `C09_isolated`: the fixed configuration meets the hypotheses, the same schedule is
    complete for it, and it yields the isolated results: unendorsed rejected, endorsed accepted. -/
example :
    newCfg.constructorWrites = [] ∧ newCfg.closureWrites = [] ∧
    results newCfg calls badSchedule 0 = some (reject "snp:measurement-not-listed") ∧
    results newCfg calls badSchedule 1 = some accept ∧
    runAlone newCfg (calls 1) = some accept := by
  decide

end GceTcb.Reentrancy
