import GceTcb.Proofs.SecureJoin
import GceTcb.Proofs.SecureJoinEnv
import GceTcb.Proofs.SecureJoinText
/-
C16 — confinement clause, over an abstract file system: "resolving a UEFI-variable locator never
reads outside the configured efivarfs root".

Property theorems only. Models: Model/SecureJoin.lean (filepath-securejoin v0.2.5 SecureJoinVFS,
filepath.Clean/Join, the kernel's path resolution for lstat / readlink / open), Model/SecureJoinEnv.lean
(Extract.Env instantiated by them; the historic variants of varBasename); lemmas: Proofs/SecureJoin.lean,
Proofs/SecureJoinEnv.lean.

What is proved: for EVERY file system (any lookup function: every finite tree of directories, files
and symbolic links with absolute / relative / dangling / looping targets is one), every working
directory, every cleaned root text, every unsafe path text and every pair of expansion limits —
(a) the text SecureJoin returns is the root extended by normal components; (b) if the file system
shows the same at join time and at read time (`Unchanged`, the TOCTOU boundary, an explicit
hypothesis), what os.ReadFile opens for that text lies in the subtree of what the root denotes — because
the join's walk leaves no symbolic link in the text below the root; (c) hence for the repository's
varBasename / ReadVariable / extract.Endorsement with any name bytes and GUID. What is NOT guaranteed
is exhibited: a file system that changes between join and read (d), a root text that Clean changes
the meaning of, and the two historic variants of varBasename.
-/
namespace GceTcb.SecureJoin
open GceTcb GceTcb.Extract

/-! ## (a) the joined path is lexically inside the root -/

/-- (a) The former library contract, now a theorem about the model of the library: for every file
    system, root and unsafe path, a successful SecureJoin returns the cleaned root ("" counts as "/")
    extended by components none of which is empty, ".", ".." or contains '/'. -/
theorem C16_fs_join_inside (fs : FS) (klim lim : Nat) (cwd : List Name) (root p out : PathStr)
    (hj : secureJoin fs klim lim cwd root p = .ok out) : LexInside root out :=
  secureJoin_lexInside fs klim lim cwd root p out hj

/-- (a) for a cleaned root other than "/" and ".": the root's own text, then "/c" for each normal
    component — the form `Inside` of Props/C16.lean asks of the `secureJoin` parameter. -/
theorem C16_fs_join_inside_clean (fs : FS) (klim lim : Nat) (cwd : List Name) (root p out : PathStr)
    (hclean : clean root = root) (h1 : root ≠ ['/']) (h2 : root ≠ ['.'])
    (hj : secureJoin fs klim lim cwd root p = .ok out) :
    ∃ comps, AllNormal comps ∧ out = root ++ comps.flatMap ('/' :: ·) :=
  (secureJoin_lexInside fs klim lim cwd root p out hj).clean_root hclean h1 h2

/-- (a) The contract that `C16_confined` / `C16_confined_reader` (Props/C16.lean) ASSUME of their
    `secureJoin` parameter — `Inside r p` for every successful join — HOLDS of the model of the
    library over every file system, for every cleaned root other than "/" and ".". -/
theorem C16_fs_join_meets_contract (fsJoin fsRead : FS) (klim lim : Nat) (cwd : List Name)
    (content : Nat → Bytes) (get : Url → Option Bytes) (root u p : String)
    (hclean : clean root.toList = root.toList) (h1 : root.toList ≠ ['/']) (h2 : root.toList ≠ ['.'])
    (h : (envOf fsJoin fsRead klim lim cwd content get).secureJoin root u = some p) : Inside root p := by
  have hj := envOf_secureJoin fsJoin fsRead klim lim cwd content get root u p h
  obtain ⟨comps, hn, hout⟩ := (secureJoin_lexInside fsJoin klim lim cwd _ _ _ hj).clean_root hclean h1 h2
  exact inside_of_lex root p comps hn hout

/-- The model is the code: the line-by-line transcription of SecureJoinVFS on path texts
    (`secureJoinText`: `for remainingPath != ""`, the cut at the first separator,
    `filepath.Join("/", currentPath, part)`, Lstat, the IsNotExist / symlink tests, `linksWalked`,
    Readlink, `dest + "/" + remainingPath`, the two final Joins) returns, for every file system and
    every input, what the component model `secureJoin` returns — so (a)–(c) are theorems about the
    transcription. -/
theorem C16_fs_text_transcription (fs : FS) (klim lim : Nat) (cwd : List Name) (root p : PathStr) :
    secureJoinText fs klim lim cwd root p = secureJoin fs klim lim cwd root p :=
  secureJoinText_eq fs klim lim cwd root p

/-! ## (b) what is opened lies below the root -/

/-- The walk invariant: the result is the root extended by normal components, and EVERY PREFIX of it
    denotes — if anything — something below what the root denotes: no component of the joined path is a
    symbolic link, the join has already resolved them inside the root. -/
theorem C16_fs_walk_invariant (fs : FS) (klim lim : Nat) (cwd : List Name) (root p out : PathStr)
    (hclean : clean root = root) (hj : secureJoin fs klim lim cwd root p = .ok out) :
    ∃ fin, AllNormal fin ∧ out = goJoin root (renderAbs fin) ∧
      ∀ pre, pre <+: fin → ∀ loc e l, denote fs klim cwd (goJoin root (renderAbs pre)) = .ok loc e l →
        ∃ R eR lR, denote fs klim cwd root = .ok R eR lR ∧ R <+: loc := by
  obtain ⟨fin, hs, hout⟩ := secureJoin_ok fs klim lim cwd root p out hj
  have hroot := clean_ne_nil_of_fixed root hclean
  have hrem := splitSlash_no_slash p
  have hn := sj_normal fs klim cwd root lim _ fin hrem hs
  refine ⟨fin, hn, hout, ?_⟩
  intro pre hpre loc e l hd
  obtain ⟨t, ht⟩ := hpre
  refine denote_under_below fs klim cwd root hclean pre (fun c hc => hn c (by rw [← ht]; exact List.mem_append_left _ hc)) ?_ loc e l hd
  intro R lR hR
  have := (sj_nolink fs klim cwd root hroot R lR hR lim _ fin hrem hs).2
  rw [← ht] at this
  exact NoLink.prefix fs pre t R this

/-- (b) For every file system, working directory, cleaned root and unsafe path: if the file system is
    UNCHANGED between the join and the read, whatever the kernel resolves the joined path to when
    os.ReadFile opens it (following symbolic links, the last component included) is a node of the
    subtree of the node the root denotes. -/
theorem C16_fs_read_confined (fsJoin fsRead : FS) (hsame : Unchanged fsJoin fsRead)
    (klim lim : Nat) (cwd : List Name) (root p out : PathStr) (hclean : clean root = root)
    (hj : secureJoin fsJoin klim lim cwd root p = .ok out)
    (loc : List Name) (e : Entry) (l : Nat) (hr : resolve fsRead klim cwd true out = .ok loc e l) :
    ∃ R eR lR, denote fsRead klim cwd root = .ok R eR lR ∧ R <+: loc := by
  have hd := resolve_follow_ok fsRead klim cwd out loc e l hr
  rw [denote_congr fsJoin fsRead hsame] at hd ⊢
  exact denote_join_below fsJoin klim lim cwd root p out hclean hj loc e l hd

/-- (b) in terms of os.ReadFile: the regular file whose bytes are returned lies below the root. -/
theorem C16_fs_readFile_confined (fsJoin fsRead : FS) (hsame : Unchanged fsJoin fsRead)
    (klim lim : Nat) (cwd : List Name) (root p out : PathStr) (hclean : clean root = root)
    (hj : secureJoin fsJoin klim lim cwd root p = .ok out)
    (loc : List Name) (i : Nat) (hr : readFile fsRead klim cwd out = .data loc i) :
    ∃ R eR lR, denote fsRead klim cwd root = .ok R eR lR ∧ R <+: loc := by
  obtain ⟨l, hl⟩ := readFile_data fsRead klim cwd out loc i hr
  exact C16_fs_read_confined fsJoin fsRead hsame klim lim cwd root p out hclean hj loc _ l hl

/-- (b) for every finite tree of directories, regular files and symbolic links. -/
theorem C16_fs_read_confined_tree (entries : List (Name × Tree)) (klim lim : Nat) (cwd : List Name)
    (root p out : PathStr) (hclean : clean root = root)
    (hj : secureJoin (Tree.toFS entries) klim lim cwd root p = .ok out)
    (loc : List Name) (i : Nat) (hr : readFile (Tree.toFS entries) klim cwd out = .data loc i) :
    ∃ R eR lR, denote (Tree.toFS entries) klim cwd root = .ok R eR lR ∧ R <+: loc :=
  C16_fs_readFile_confined _ _ (fun _ => rfl) klim lim cwd root p out hclean hj loc i hr

/-! ## (c) the repository's varBasename / ReadVariable / extract.Endorsement -/

/-- varBasename of the extraction model over the instantiated world is `varPath` on the decoded
    name: SecureJoin(Root, name + "-" + guid). -/
theorem C16_fs_varBasename_is_varPath (fsJoin fsRead : FS) (klim lim : Nat) (cwd : List Name)
    (content : Nat → Bytes) (get : Url → Option Bytes) (root : String) (guid name : Bytes) (p : String)
    (h : varBasename (envOf fsJoin fsRead klim lim cwd content get) root guid name = .ok p) :
    ∃ base, ucs2toUTF8 name = .ok base ∧
      varPath fsJoin klim lim cwd root.toList base.toList (uuidString guid).toList = .ok p.toList := by
  unfold varBasename at h
  split at h
  · next b hb =>
    split at h
    · next q hq =>
      simp only [Outcome.ok.injEq] at h
      refine ⟨b, hb, ?_⟩
      have := envOf_secureJoin fsJoin fsRead klim lim cwd content get root _ q hq
      rw [← h]
      simpa [varPath, String.toList_append] using this
    · simp at h
  · simp at h
  · simp at h

/-- (c) For ANY name bytes (whatever UTF-16 decodes them to: slashes, "..", NUL, absolute) and any
    GUID: the path varBasename returns, opened by os.ReadFile on an unchanged file system, is a file
    below the efivarfs root. -/
theorem C16_fs_varBasename_confined (fsJoin fsRead : FS) (hsame : Unchanged fsJoin fsRead)
    (klim lim : Nat) (cwd : List Name) (content : Nat → Bytes) (get : Url → Option Bytes)
    (root : String) (hclean : clean root.toList = root.toList) (guid name : Bytes) (p : String)
    (hp : varBasename (envOf fsJoin fsRead klim lim cwd content get) root guid name = .ok p)
    (loc : List Name) (i : Nat) (hr : readFile fsRead klim cwd p.toList = .data loc i) :
    ∃ R eR lR, denote fsRead klim cwd root.toList = .ok R eR lR ∧ R <+: loc := by
  obtain ⟨u, hu⟩ := varBasename_join _ root guid name p hp
  have hj := envOf_secureJoin fsJoin fsRead klim lim cwd content get root u p hu
  exact C16_fs_readFile_confined fsJoin fsRead hsame klim lim cwd _ _ _ hclean hj loc i hr

/-- (c) ReadVariable end to end: bytes it returns are the contents (less the 4-byte attribute
    header) of a regular file that lies below the efivarfs root. -/
theorem C16_fs_readVariable_confined (fsJoin fsRead : FS) (hsame : Unchanged fsJoin fsRead)
    (klim lim : Nat) (cwd : List Name) (content : Nat → Bytes) (get : Url → Option Bytes)
    (root : String) (hclean : clean root.toList = root.toList) (guid name : Bytes) (out : Bytes)
    (h : (readVariable (envOf fsJoin fsRead klim lim cwd content get) root guid name).out = .ok out) :
    ∃ loc i R eR lR, fsRead.look loc = .ent (.file i) ∧ out = (content i).drop 4 ∧
      denote fsRead klim cwd root.toList = .ok R eR lR ∧ R <+: loc := by
  obtain ⟨p, c, hp, hc, hout⟩ := readVariable_ok _ root guid name out h
  obtain ⟨loc, i, hrd, hci⟩ := envOf_readFile fsJoin fsRead klim lim cwd content get p c hc
  obtain ⟨R, eR, lR, hR, hpre⟩ := C16_fs_varBasename_confined fsJoin fsRead hsame klim lim cwd content get
    root hclean guid name p hp loc i hrd
  obtain ⟨l, hl⟩ := readFile_data fsRead klim cwd p.toList loc i hrd
  exact ⟨loc, i, R, eR, lR, resolve_file_look fsRead klim cwd true p.toList loc i l hl, by rw [hout, hci], hR, hpre⟩

/-- (c) extract.Endorsement: every path the whole extraction opens is a secure join under the
    configured reader root, and what is read through it lies below that root. This discharges the
    `secureJoin` contract hypothesis of `C16_confined` by the model of the library. -/
theorem C16_fs_endorsement_confined (fsJoin fsRead : FS) (hsame : Unchanged fsJoin fsRead)
    (klim lim : Nat) (cwd : List Name) (content : Nat → Bytes) (get : Url → Option Bytes)
    (o : Options) (root : String) (hr : o.reader = some root) (hclean : clean root.toList = root.toList) :
    ∀ p ∈ (endorsement (envOf fsJoin fsRead klim lim cwd content get) o).paths,
      LexInside root.toList p.toList ∧
      ∀ loc i, readFile fsRead klim cwd p.toList = .data loc i →
        ∃ R eR lR, denote fsRead klim cwd root.toList = .ok R eR lR ∧ R <+: loc := by
  intro p hp
  obtain ⟨root', u, hr', hj⟩ := fromEventLog_paths _ o p (endorsementWith_paths _ _ _ o p hp)
  rw [hr] at hr'
  simp only [Option.some.injEq] at hr'
  subst hr'
  have hj' := envOf_secureJoin fsJoin fsRead klim lim cwd content get root u p hj
  exact ⟨secureJoin_lexInside fsJoin klim lim cwd _ _ _ hj',
    fun loc i hrd => C16_fs_readFile_confined fsJoin fsRead hsame klim lim cwd _ _ _ hclean hj' loc i hrd⟩

/-- Non-vacuity of (a)–(c): on a file system whose root holds links that point outside it (absolute,
    relative with "..", a chain of them) the join re-roots every one of them, the hypotheses of the
    theorems are met, and the file opened is the one INSIDE the root (file 3), not its copies outside
    (files 8, 9); a dangling link gives a path inside the root that does not exist; a loop is ELOOP. -/
example :
    varPath fsLinks 40 255 [] "/efi".toList "abs/Var".toList guidT = .ok ("/efi/sub/Var-".toList ++ guidT) ∧
    varPath fsLinks 40 255 [] "/efi".toList "up/Var".toList guidT = .ok ("/efi/sub/Var-".toList ++ guidT) ∧
    varPath fsLinks 40 255 [] "/efi".toList "c1/Var".toList guidT = .ok ("/efi/sub/Var-".toList ++ guidT) ∧
    varPath fsLinks 40 255 [] "/efi".toList "in/../../../Var".toList guidT = .ok ("/efi/Var-".toList ++ guidT) ∧
    readFile fsLinks 40 [] ("/efi/sub/Var-".toList ++ guidT) = .data [("efi").toList, "sub".toList, "Var-".toList ++ guidT] 3 ∧
    readFile fsLinks 40 [] ("/efi/up/Var-".toList ++ guidT) = .data ["sub".toList, "Var-".toList ++ guidT] 9 ∧
    varPath fsLinks 40 255 [] "/efi".toList "dangling/Var".toList guidT = .ok ("/efi/nowhere/Var-".toList ++ guidT) ∧
    varPath fsLinks 40 255 [] "/efi".toList "loop/Var".toList guidT = .err .loop ∧
    clean "/efi".toList = "/efi".toList ∧
    denote fsLinks 40 [] "/efi".toList = .ok ["efi".toList] .dir 40 := by decide +kernel

/-- Non-vacuity of the hypotheses taken together: an instance of (b) on that file system. -/
example : ∃ R eR lR, denote fsLinks 40 [] "/efi".toList = .ok R eR lR ∧
    R <+: ["efi".toList, "sub".toList, "Var-".toList ++ guidT] :=
  C16_fs_readFile_confined fsLinks fsLinks (fun _ => rfl) 40 255 [] "/efi".toList ("abs/Var-".toList ++ guidT)
    ("/efi/sub/Var-".toList ++ guidT) (by decide +kernel) (by decide +kernel) _ 3 (by decide +kernel)

/-- Non-vacuity of (c) on name BYTES: ReadVariable for the UCS-2 name "abs/Var" (abs -> /sub, a
    directory outside the root holding file 9) returns file 3 from inside the root. -/
example : (readVariable (envOf fsLinks fsLinks 40 255 [] contentW (fun _ => none)) "/efi" guidB nameAbsVar).out = .ok [3] ∧
    readVariableVia varBasename = readVariable := by
  constructor
  · decide +kernel
  · rfl

/-! ## What is not guaranteed -/

/-- Historic variant 1 (seeded changes C16-B, C16-F), for EVERY file system and cleaned root: with
    the GUID suffix appended after the join, the name ".." — like every name the join takes to the
    root itself — yields the text `<root>-<guid>`, which is not the root extended by components. -/
theorem C16_fs_old_suffix_after_join_path (fs : FS) (klim lim : Nat) (cwd : List Name) (root g : PathStr)
    (hclean : clean root = root) :
    varPathSuffixAfterJoin fs klim lim cwd root dotdot g = .ok (root ++ '-' :: g) ∧
    ∀ comps : List Name, root ++ '-' :: g ≠ root ++ comps.flatMap ('/' :: ·) := by
  constructor
  · have : secureJoin fs klim lim cwd root dotdot = .ok (goJoin root (renderAbs [])) := by
      cases lim <;> rfl
    simp only [varPathSuffixAfterJoin, this, goJoin_root root hclean]
  · intro comps h
    have := List.append_cancel_left h
    cases comps with
    | nil => simp at this
    | cons c cs => simp at this

/-- Historic variant 1, the escape: on a file system with a sibling `/efi-<guid>` of the root, the
    name ".." makes the variant read that sibling (file 7), which is not below the root; the present
    code, on the same file system and name, stays inside (`/efi/..-<guid>`, absent). -/
theorem C16_fs_old_suffix_after_join_escapes :
    varPathSuffixAfterJoin fsSibling 40 255 [] "/efi".toList dotdot guidT = .ok ("/efi-".toList ++ guidT) ∧
    readFile fsSibling 40 [] ("/efi-".toList ++ guidT) = .data ["efi-".toList ++ guidT] 7 ∧
    denote fsSibling 40 [] "/efi".toList = .ok ["efi".toList] .dir 40 ∧
    ¬ ["efi".toList] <+: ["efi-".toList ++ guidT] ∧
    varPath fsSibling 40 255 [] "/efi".toList dotdot guidT = .ok ("/efi/..-".toList ++ guidT) ∧
    readFile fsSibling 40 [] ("/efi/..-".toList ++ guidT) = .err .noent := by decide +kernel

/-- Historic variant 1 on name bytes, through ReadVariable: for the UCS-2 name ".." the variant
    returns the contents of the sibling (file 7); the present code fails to read. -/
theorem C16_fs_old_suffix_after_join_reads_sibling :
    (readVariableVia varBasenameSuffixAfterJoin (envOf fsSibling fsSibling 40 255 [] contentW (fun _ => none))
      "/efi" guidB nameDotDot).out = .ok [7] ∧
    (readVariable (envOf fsSibling fsSibling 40 255 [] contentW (fun _ => none)) "/efi" guidB nameDotDot).out = .err "read" := by
  decide +kernel

/-- Historic variant 2 (seeded change C16-C): skipping SecureJoin for a separator-free entry follows a
    symbolic link in the final component — absolute or climbing with ".." — to a file outside the
    root (file 9); the present code re-roots the same links (`/efi/secret`, absent). -/
theorem C16_fs_old_no_join_follows_final_symlink :
    varPathNoJoin fsFinalLink 40 255 [] "/efi".toList "Var".toList guidT = .ok ("/efi/Var-".toList ++ guidT) ∧
    readFile fsFinalLink 40 [] ("/efi/Var-".toList ++ guidT) = .data ["secret".toList] 9 ∧
    varPathNoJoin fsFinalLink 40 255 [] "/efi".toList "Rel".toList guidT = .ok ("/efi/Rel-".toList ++ guidT) ∧
    readFile fsFinalLink 40 [] ("/efi/Rel-".toList ++ guidT) = .data ["secret".toList] 9 ∧
    denote fsFinalLink 40 [] "/efi".toList = .ok ["efi".toList] .dir 40 ∧
    ¬ ["efi".toList] <+: ["secret".toList] ∧
    varPath fsFinalLink 40 255 [] "/efi".toList "Var".toList guidT = .ok "/efi/secret".toList ∧
    varPath fsFinalLink 40 255 [] "/efi".toList "Rel".toList guidT = .ok "/efi/secret".toList ∧
    readFile fsFinalLink 40 [] "/efi/secret".toList = .err .noent := by decide +kernel

/-- Historic variant 2 on name bytes, through ReadVariable: for the UCS-2 names "Var" and "Rel" the
    variant returns the contents of /secret (file 9); the present code fails to read. -/
theorem C16_fs_old_no_join_reads_outside :
    (readVariableVia varBasenameNoJoin (envOf fsFinalLink fsFinalLink 40 255 [] contentW (fun _ => none))
      "/efi" guidB nameVar).out = .ok [9] ∧
    (readVariableVia varBasenameNoJoin (envOf fsFinalLink fsFinalLink 40 255 [] contentW (fun _ => none))
      "/efi" guidB nameRel).out = .ok [9] ∧
    (readVariable (envOf fsFinalLink fsFinalLink 40 255 [] contentW (fun _ => none)) "/efi" guidB nameVar).out = .err "read" ∧
    (readVariable (envOf fsFinalLink fsFinalLink 40 255 [] contentW (fun _ => none)) "/efi" guidB nameRel).out = .err "read" := by
  decide +kernel

/-- (d) on name bytes, through ReadVariable with the join on the file system before and the read on
    the file system after: the contents of /secret (file 9) are returned. -/
theorem C16_fs_toctou_reads_outside :
    (readVariable (envOf fsBefore fsAfter 40 255 [] contentW (fun _ => none)) "/efi" guidB nameVar).out = .ok [9] ∧
    (readVariable (envOf fsBefore fsBefore 40 255 [] contentW (fun _ => none)) "/efi" guidB nameVar).out = .ok [1] := by
  decide +kernel

/-- (d) The remaining assumption is necessary. Two states that differ at ONE location (the variable's
    entry, a regular file at join time, replaced by a symbolic link before the read): the join on the
    first returns a path inside the root, os.ReadFile on the second opens /secret (file 9) outside it.
    `Unchanged` fails for exactly that location. -/
theorem C16_fs_toctou_witness :
    clean "/efi".toList = "/efi".toList ∧
    varPath fsBefore 40 255 [] "/efi".toList "Var".toList guidT = .ok ("/efi/Var-".toList ++ guidT) ∧
    readFile fsBefore 40 [] ("/efi/Var-".toList ++ guidT) = .data ["efi".toList, "Var-".toList ++ guidT] 1 ∧
    readFile fsAfter 40 [] ("/efi/Var-".toList ++ guidT) = .data ["secret".toList] 9 ∧
    denote fsAfter 40 [] "/efi".toList = .ok ["efi".toList] .dir 40 ∧
    ¬ ["efi".toList] <+: ["secret".toList] ∧
    ¬ Unchanged fsBefore fsAfter ∧
    (∀ l, l ≠ ["efi".toList, "Var-6a7b6885-92bc-40cd-9fb5-300f9d1eb0ed".toList] → fsAfter.look l = fsBefore.look l) := by
  refine ⟨by decide +kernel, by decide +kernel, by decide +kernel, by decide +kernel, by decide +kernel,
    by decide +kernel, ?_, ?_⟩
  · intro h
    have := h ["efi".toList, "Var-".toList ++ guidT]
    revert this
    decide +kernel
  · intro l hl
    simp only [fsAfter, FS.update, if_neg hl]

/-- The hypothesis `clean root = root` is necessary too: for a root text whose meaning Clean changes
    ("/a/l/../r" with /a/l a link to /x/y: the kernel means /x/r, Clean writes "/a/r") SecureJoin
    checks one directory and returns a path in another, where the entry is a link out. -/
theorem C16_fs_unclean_root_witness :
    clean "/a/l/../r".toList = "/a/r".toList ∧
    denote fsUncleanRoot 40 [] "/a/l/../r".toList = .ok ["x".toList, "r".toList] .dir 39 ∧
    secureJoin fsUncleanRoot 40 255 [] "/a/l/../r".toList "v".toList = .ok "/a/r/v".toList ∧
    readFile fsUncleanRoot 40 [] "/a/r/v".toList = .data ["secret".toList] 9 := by decide +kernel

end GceTcb.SecureJoin
