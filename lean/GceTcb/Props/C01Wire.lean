import GceTcb.Props.C01
import GceTcb.Proofs.VerifyWire
import GceTcb.Proofs.ProtoWireTyped
import GceTcb.Proofs.ProtoEndorse
/-
C01 (continued) — "accepted endorsements are authentic" over RAW BYTES.

`Props/C01.lean` holds for every `Prims`, two of whose fields are the protobuf unmarshals of the
endorsement container and of the golden measurement; `Authentic` is stated in terms of them.  Here those two
fields are the Lean wire codec (`Model/ProtoWire.lean`, compared with google.golang.org/protobuf on every
run by stream `c03proto`, and through the verifier itself by stream `c01wire`): `wirePrims X` overrides
exactly them in an arbitrary `X`, so X.509 parsing / path building, RSA-PSS and the third-party validators
stay parameters about which nothing is assumed.  What becomes expressible only now:

  (a) acceptance of `verify.Endorsement(bytes, opts)` in terms of the bytes: the container is a sequence of
      fields, the payload it carries decodes to a well-typed golden measurement, the certificate inside
      chains, and the signature verifies over EXACTLY the payload bytes carried (`C01_wire_accept_authentic`;
      all nine entry points: `C01_wire_accept_authentic_all`);
  (b) "no change to a signed endorsement is ever accepted" at byte level: a container with the same
      signature and ANY other payload byte string is accepted only if that signature also verifies over the
      other byte string (`C01_wire_no_change_accepted`), hence never when signature values bind their
      message (`C01_wire_changed_payload_rejected`); and byte strings that decode to the same message —
      over-long tag, appended unknown field, exchanged fields, another map order — ARE other byte strings
      (`C01_wire_same_message_*`), so re-encoding a signed payload is such a change;
  (c) which endorsement a concatenation of containers denotes (protobuf merges: last payload, last
      signature — `C01_wire_concat`, `C01_wire_concat_encoded`), that acceptance still means authenticity of
      THAT one (`C01_wire_concat_accept_authentic`), and that trailing bytes which are not fields reject
      (`C01_wire_trailing_garbage`); inside the payload the certificate that is checked is the LAST
      field 4 (`C01_wire_accept_last_cert`).
-/
namespace GceTcb.C01Wire
open GceTcb GceTcb.ProtoWire GceTcb.Verify GceTcb.VerifyWire

variable {Cert Roots Time : Type}

/-- `Authentic` for the codec instance, spelled out over bytes -/
theorem C01_wire_authentic_iff (X : Prims Cert Roots Time) (e : Endorsement) (r : Roots) (now : Time) :
    Authentic (wirePrims X) e r now ↔
      ∃ g c, decodeGolden e.payload = some g ∧ g.cert ≠ [] ∧ X.parseCert g.cert = some c ∧
        X.verifyChain c r now = true ∧ X.checkSigPss256 c e.payload e.signature = true := by
  constructor
  · rintro ⟨g, c, hg, hne, hp, hv, hs⟩
    have hg' : (decodeGolden e.payload).map goldenOfWire = some g := hg
    obtain ⟨w, hw, rfl⟩ := Option.map_eq_some_iff.mp hg'
    exact ⟨w, c, hw, hne, hp, hv, hs⟩
  · rintro ⟨w, c, hw, hne, hp, hv, hs⟩
    refine ⟨goldenOfWire w, c, ?_, hne, hp, hv, hs⟩
    show (decodeGolden e.payload).map goldenOfWire = _
    rw [hw]; rfl

/-- (a) verify.Endorsement over raw container bytes.  Acceptance implies: the bytes are a sequence of
    protobuf fields (`fs`) whose last length-delimited field 1 is the payload and whose last
    length-delimited field 2 is the signature; the payload decodes to a golden measurement that is
    well-typed and canonical; its certificate is non-empty, parses, chains to the caller's roots at the
    caller's time; and the signature verifies under that certificate over exactly the payload bytes the
    container carries. -/
theorem C01_wire_accept_authentic (X : Prims Cert Roots Time) (bytes : Bytes) (o : Options Roots Time)
    (h : endorsement (wirePrims X) bytes o = accept) :
    ∃ (fs : List Field) (e : WEndorsement) (g : WGolden) (c : Cert) (r : Roots),
      parseFields bytes = some fs ∧ decodeEndorsement bytes = some e ∧
      e.serializedUefiGolden = lastLenD 1 [] fs ∧ e.signature = lastLenD 2 [] fs ∧
      decodeGolden e.serializedUefiGolden = some g ∧ TypedGolden g ∧ canonGolden g = g ∧
      g.cert ≠ [] ∧ X.parseCert g.cert = some c ∧ o.roots = some r ∧ X.verifyChain c r o.now = true ∧
      X.checkSigPss256 c e.serializedUefiGolden e.signature = true := by
  obtain ⟨e0, r, he, hr, ha⟩ := endorsement_accept (wirePrims X) bytes o h
  have he' : (decodeEndorsement bytes).map endorsementOfWire = some e0 := he
  obtain ⟨e, hde, rfl⟩ := Option.map_eq_some_iff.mp he'
  obtain ⟨g, c, hg, hne, hp, hv, hs⟩ := (C01_wire_authentic_iff X _ r o.now).mp ha
  obtain ⟨fs, hfs, _⟩ := decodeInto_parses stepEndorsement .zero e bytes hde
  have hsh := decodeEndorsement_fields bytes fs hfs
  rw [hde] at hsh
  have hsh' := Option.some.inj hsh
  refine ⟨fs, e, g, c, r, hfs, hde, ?_, ?_, hg, decodeGolden_typed _ g hg, decodeGolden_canon _ g hg, hne, hp, hr,
    hv, hs⟩
  · rw [hsh']
  · rw [hsh']

/-- (a) for every entry point (library, SNP validator closure, SevValidate, TdxValidate, the three CLI
    commands): `C01_accept_authentic` with the codec instance, authenticity spelled out over bytes. -/
theorem C01_wire_accept_authentic_all (X : Prims Cert Roots Time) (ep : EntryPoint) (inp : Input Roots Time ep)
    (h : run (wirePrims X) ep inp = accept) :
    ∃ e r g c, endorsementUsed (wirePrims X) ep inp = some e ∧ callerRoots (wirePrims X) ep inp = some r ∧
      decodeGolden e.payload = some g ∧ TypedGolden g ∧ g.cert ≠ [] ∧ X.parseCert g.cert = some c ∧
      X.verifyChain c r (callerNow ep inp) = true ∧ X.checkSigPss256 c e.payload e.signature = true := by
  obtain ⟨e, r, he, hr, ha⟩ := C01_accept_authentic (wirePrims X) ep inp h
  obtain ⟨g, c, hg, hne, hp, hv, hs⟩ := (C01_wire_authentic_iff X e r _).mp ha
  exact ⟨e, r, g, c, he, hr, hg, decodeGolden_typed _ g hg, hne, hp, hv, hs⟩

/-- where the bytes come from, for the entry points that take them: what `endorsementUsed` is for
    verify.Endorsement — the codec's reading of the caller's bytes -/
theorem C01_wire_endorsement_used (X : Prims Cert Roots Time) (bytes : Bytes) (o : Options Roots Time) :
    endorsementUsed (wirePrims X) .endorsement (bytes, o) = (decodeEndorsement bytes).map endorsementOfWire := rfl

/-! ## (b) no change to a signed endorsement is accepted -/

/-- Injectivity-free form.  Take any container `b'` whose signature field equals the signature `sig` of an
    endorsement and whose payload is whatever byte string `e'.serializedUefiGolden`.  If `b'` is accepted —
    under any options — then `sig` verifies, under the certificate `b'`'s own payload carries, over `b'`'s
    payload bytes.  So a changed payload under an unchanged signature needs one signature value that
    verifies over two byte strings. -/
theorem C01_wire_no_change_accepted (X : Prims Cert Roots Time) (b' : Bytes) (o' : Options Roots Time)
    (e' : WEndorsement) (sig : Bytes) (hd' : decodeEndorsement b' = some e') (hsig : e'.signature = sig)
    (hacc' : endorsement (wirePrims X) b' o' = accept) :
    ∃ g' c', decodeGolden e'.serializedUefiGolden = some g' ∧ X.parseCert g'.cert = some c' ∧
      X.checkSigPss256 c' e'.serializedUefiGolden sig = true := by
  obtain ⟨_, e2, g, c, _, _, hde, _, _, hg, _, _, _, hp, _, _, hs⟩ := C01_wire_accept_authentic X b' o' hacc'
  rw [hd'] at hde
  cases hde
  exact ⟨g, c, hg, hp, hsig ▸ hs⟩

/-- signature values bind their message: one value never verifies over two different byte strings
    (whatever the certificates).  The unforgeability assumption on RSA-PSS in the form this property
    needs; `refSig` below satisfies it. -/
def SigBinds (X : Prims Cert Roots Time) : Prop :=
  ∀ c c' m m' s, X.checkSigPss256 c m s = true → X.checkSigPss256 c' m' s = true → m = m'

/-- "No change … is ever accepted", byte level: when `b` is accepted, every container with the same
    signature field and a payload that differs AS A BYTE STRING is rejected, under every option set. -/
theorem C01_wire_changed_payload_rejected (X : Prims Cert Roots Time) (hX : SigBinds X) (b b' : Bytes)
    (o o' : Options Roots Time) (e e' : WEndorsement) (hd : decodeEndorsement b = some e)
    (hd' : decodeEndorsement b' = some e') (hsig : e'.signature = e.signature)
    (hne : e'.serializedUefiGolden ≠ e.serializedUefiGolden) (hacc : endorsement (wirePrims X) b o = accept) :
    endorsement (wirePrims X) b' o' ≠ accept := by
  intro hacc'
  obtain ⟨_, e2, _, c, _, _, hde, _, _, _, _, _, _, _, _, _, hs⟩ := C01_wire_accept_authentic X b o hacc
  rw [hd] at hde
  cases hde
  obtain ⟨_, c', _, _, hs'⟩ := C01_wire_no_change_accepted X b' o' e' e.signature hd' hsig hacc'
  exact hne (hX _ _ _ _ _ hs' hs)

/-- Same message, other bytes (1): the first tag of a payload written in two bytes instead of one.  The
    field loop reads the same fields, so every decoder of the codec returns the same message — and the
    byte strings differ, so (b) applies: the original signature does not cover the re-encoding. -/
theorem C01_wire_same_message_overlong_tag (v : Nat) (hv : v < 128) (rest : Bytes) :
    UInt8.ofNat (v + 128) :: 0 :: rest ≠ UInt8.ofNat v :: rest ∧
    decodeGolden (UInt8.ofNat (v + 128) :: 0 :: rest) = decodeGolden (UInt8.ofNat v :: rest) ∧
    decodeEndorsement (UInt8.ofNat (v + 128) :: 0 :: rest) = decodeEndorsement (UInt8.ofNat v :: rest) := by
  refine ⟨?_, ?_, ?_⟩
  · intro h
    have := congrArg List.length h
    simp at this
  · unfold decodeGolden decodeInto; rw [parseFields_overlong v hv rest]
  · unfold decodeEndorsement decodeInto; rw [parseFields_overlong v hv rest]

/-- Same message, other bytes (2): a field with a number the golden measurement does not know, appended.
    The verifier reads the same golden measurement from both; the byte strings differ. -/
theorem C01_wire_same_message_unknown_appended (p u : Bytes) (g : WGolden) (f : Field)
    (hg : decodeGolden p = some g) (hu : readField u = some (f, [])) (hn : 9 ≤ f.num) :
    p ++ u ≠ p ∧ unmarshalGolden (p ++ u) = unmarshalGolden p := by
  refine ⟨?_, unmarshalGolden_append_unknown p u g f hg hu hn⟩
  intro h
  have hl := congrArg List.length h
  have hlt := readField_lt u f [] hu
  rw [List.length_append] at hl
  simp only [List.length_nil] at hlt
  omega

/-- Same message, other bytes (3): field order.  Two adjacent fields of a payload exchanged — one of them a
    plain field of the golden measurement (cl_spec, commit, cert, digest, ca_bundle), the other any field
    with another number (plain, embedded message, unknown) — give another byte string and the same golden
    measurement, everywhere in the payload (`a`, `b`: any sequences of fields before and after). -/
theorem C01_wire_same_message_field_order (a u1 u2 b : Bytes) (fa fb : List Field) (f1 f2 : Field)
    (ha : parseFields a = some fa) (hu1 : readField u1 = some (f1, [])) (hu2 : readField u2 = some (f2, []))
    (hb : parseFields b = some fb) (h1 : PlainKnown f1) (hne : f2.num ≠ f1.num) :
    a ++ (u1 ++ (u2 ++ b)) ≠ a ++ (u2 ++ (u1 ++ b)) ∧
    decodeGolden (a ++ (u1 ++ (u2 ++ b))) = decodeGolden (a ++ (u2 ++ (u1 ++ b))) := by
  refine ⟨?_, decodeGolden_swap a u1 u2 b fa fb f1 f2 ha hu1 hu2 hb h1 hne⟩
  intro h
  have h' := List.append_cancel_left h
  have r1 := readField_append u1 f1 [] (u2 ++ b) hu1
  have r2 := readField_append u2 f2 [] (u1 ++ b) hu2
  rw [h', r2] at r1
  simp only [Option.some.injEq, Prod.mk.injEq] at r1
  exact hne (by rw [r1.1])

/-- Same message, other bytes (4): Go's map iteration order.  proto.Marshal may list the SEV-SNP
    measurement map in any order `σ`; every listing of a canonical well-formed document decodes to that
    document, so two listings that differ as byte strings are the same message — and a signature made over
    one listing does not cover the other (a verifier that re-marshalled before checking would be wrong
    both ways). -/
theorem C01_wire_same_message_map_order (g : WGolden) (hw : WfGolden g) (hc : canonGolden g = g)
    (σ : List (Nat × Bytes) → List (Nat × Bytes)) (hσ : ∀ l, (σ l).Perm l)
    (hsz : (encodeGoldenRaw g).length < 2 ^ 64)
    (hsz' : (encodeGoldenRaw (ProtoEndorse.reorderGolden σ g)).length < 2 ^ 64) :
    decodeGolden (encodeGoldenRaw (ProtoEndorse.reorderGolden σ g)) = decodeGolden (encodeGoldenRaw g) := by
  rw [decodeGolden_encodeRaw _ (ProtoEndorse.wf_reorderGolden σ hσ g hw) hsz',
    ProtoEndorse.canon_reorderGolden σ hσ g hc, decodeGolden_encodeRaw g hw hsz, hc]

/-! ## (c) concatenated containers, trailing bytes, duplicated fields -/

/-- Two containers back to back are ONE endorsement: the second is unmarshalled into the first.  Payload =
    the last length-delimited field 1 of the second container if it has one, else the first container's;
    signature likewise with field 2; unknown fields accumulate. -/
theorem C01_wire_concat (b1 b2 : Bytes) (e1 : WEndorsement) (fs2 : List Field)
    (h1 : decodeEndorsement b1 = some e1) (h2 : parseFields b2 = some fs2) :
    decodeEndorsement (b1 ++ b2) = some ⟨lastLenD 1 e1.serializedUefiGolden fs2, lastLenD 2 e1.signature fs2,
      e1.unknown ++ unkEnd fs2⟩ :=
  decodeEndorsement_concat b1 b2 e1 fs2 h1 h2

/-- … so acceptance of the concatenation is authenticity of THAT merged endorsement: the signature that
    verified is the last one, over the last payload. -/
theorem C01_wire_concat_accept_authentic (X : Prims Cert Roots Time) (b1 b2 : Bytes) (e1 : WEndorsement)
    (fs2 : List Field) (o : Options Roots Time) (h1 : decodeEndorsement b1 = some e1)
    (h2 : parseFields b2 = some fs2) (h : endorsement (wirePrims X) (b1 ++ b2) o = accept) :
    ∃ g c r, decodeGolden (lastLenD 1 e1.serializedUefiGolden fs2) = some g ∧ g.cert ≠ [] ∧
      X.parseCert g.cert = some c ∧ o.roots = some r ∧ X.verifyChain c r o.now = true ∧
      X.checkSigPss256 c (lastLenD 1 e1.serializedUefiGolden fs2) (lastLenD 2 e1.signature fs2) = true := by
  obtain ⟨_, e, g, c, r, _, hde, _, _, hg, _, _, hne, hp, hr, hv, hs⟩ := C01_wire_accept_authentic X _ o h
  rw [C01_wire_concat b1 b2 e1 fs2 h1 h2] at hde
  cases hde
  exact ⟨g, c, r, hg, hne, hp, hr, hv, hs⟩

/-- Both parts made by the marshaller (proto3 omits empty fields): the second endorsement's non-empty parts
    replace the first's.  In particular a payload-only container followed by a signature-only container is
    the pair (payload, signature), and `(p₁,s₁) ++ (∅,s₂)` is `(p₁,s₂)`. -/
theorem C01_wire_concat_encoded (p1 s1 p2 s2 : Bytes)
    (hz1 : (encodeEndorsement ⟨p1, s1, []⟩).length < 2 ^ 64) (hz2 : (encodeEndorsement ⟨p2, s2, []⟩).length < 2 ^ 64) :
    decodeEndorsement (encodeEndorsement ⟨p1, s1, []⟩ ++ encodeEndorsement ⟨p2, s2, []⟩) =
      some ⟨if p2 = [] then p1 else p2, if s2 = [] then s1 else s2, []⟩ := by
  rw [C01_wire_concat _ _ ⟨p1, s1, []⟩ _ (decodeEndorsement_encode _ ⟨rfl⟩ hz1)
    (parseFields_encodeEndorsement p2 s2 hz2)]
  simp only [lastLenD, lastD_append, unkEnd_append]
  have a1 := lastLenD_optBytes_same 1 p1 p2
  have a2 := lastLenD_optBytes_other 1 2 (lastLenD 1 p1 (optBytes 1 p2)) s2 (by decide)
  have a3 := lastLenD_optBytes_other 2 1 s1 p2 (by decide)
  have a4 := lastLenD_optBytes_same 2 (lastLenD 2 s1 (optBytes 1 p2)) s2
  simp only [lastLenD] at a1 a2 a3 a4
  rw [a2, a1, a4, a3, unkEnd_optBytes 1 p2 (Or.inl rfl), unkEnd_optBytes 2 s2 (Or.inr rfl)]
  rfl

/-- Trailing bytes that are not themselves a sequence of fields: the container is rejected, before
    anything is verified. -/
theorem C01_wire_trailing_garbage (X : Prims Cert Roots Time) (b1 b2 : Bytes) (e1 : WEndorsement)
    (o : Options Roots Time) (h1 : decodeEndorsement b1 = some e1) (h2 : parseFields b2 = none) :
    endorsement (wirePrims X) (b1 ++ b2) o = reject "endorsement-unmarshal" := by
  have hd : (wirePrims X).unmarshalEndorsement (b1 ++ b2) = none := by
    show (decodeEndorsement (b1 ++ b2)).map endorsementOfWire = none
    rw [decodeEndorsement_concat_garbage b1 b2 e1 h1 h2]; rfl
  simp only [endorsement, hd]

/-- A duplicated signature field: the LAST occurrence is the one that is checked, the first is never
    looked at (two containers with different first signatures and equal last ones get the same verdict). -/
theorem C01_wire_duplicate_signature_last (X : Prims Cert Roots Time) (p s s' sl : Bytes) (o : Options Roots Time)
    (hz : (encFields [fLen 1 p, fLen 2 s, fLen 2 sl]).length < 2 ^ 64 ∧
      (encFields [fLen 1 p, fLen 2 s', fLen 2 sl]).length < 2 ^ 64) :
    endorsement (wirePrims X) (encFields [fLen 1 p, fLen 2 s, fLen 2 sl]) o =
    endorsement (wirePrims X) (encFields [fLen 1 p, fLen 2 s', fLen 2 sl]) o := by
  · have sh : ∀ (x : Bytes), ∀ f ∈ [fLen 1 p, fLen 2 x, fLen 2 sl], f.Shape := by
      intro x f hf
      simp only [List.mem_cons, List.not_mem_nil, or_false] at hf
      rcases hf with rfl | rfl | rfl
      · exact Or.inr ⟨1, p, numOk_lit (by decide) (by decide), rfl⟩
      · exact Or.inr ⟨2, x, numOk_lit (by decide) (by decide), rfl⟩
      · exact Or.inr ⟨2, sl, numOk_lit (by decide) (by decide), rfl⟩
    have d1 := decodeEndorsement_fields _ _ (parseFields_encFields _ (good_of_shape _ (sh s) hz.1))
    have d2 := decodeEndorsement_fields _ _ (parseFields_encFields _ (good_of_shape _ (sh s') hz.2))
    have u1 : (wirePrims X).unmarshalEndorsement (encFields [fLen 1 p, fLen 2 s, fLen 2 sl]) = some ⟨p, sl⟩ := by
      show (decodeEndorsement _).map endorsementOfWire = _
      rw [d1]; simp [lastLenD, lastD, isLen, fLen, endorsementOfWire]
    have u2 : (wirePrims X).unmarshalEndorsement (encFields [fLen 1 p, fLen 2 s', fLen 2 sl]) = some ⟨p, sl⟩ := by
      show (decodeEndorsement _).map endorsementOfWire = _
      rw [d2]; simp [lastLenD, lastD, isLen, fLen, endorsementOfWire]
    simp only [endorsement, u1, u2]

/-- Inside the payload the same rule: the certificate that is parsed and chained is the LAST length-delimited
    field 4 of the payload (a payload carrying two certificates is judged by the last one). -/
theorem C01_wire_accept_last_cert (X : Prims Cert Roots Time) (e : Endorsement) (o : Options Roots Time)
    (fs : List Field) (hp : parseFields e.payload = some fs) (h : endorsementProto (wirePrims X) e o = accept) :
    ∃ c r, lastLenD 4 [] fs ≠ [] ∧ X.parseCert (lastLenD 4 [] fs) = some c ∧ o.roots = some r ∧
      X.verifyChain c r o.now = true ∧ X.checkSigPss256 c e.payload e.signature = true := by
  obtain ⟨r, hr, ha⟩ := endorsementProto_accept (wirePrims X) e o h
  obtain ⟨g, c, hg, hne, hpc, hv, hs⟩ := (C01_wire_authentic_iff X e r o.now).mp ha
  obtain ⟨_, _, hcert, _⟩ := decodeGolden_last e.payload g fs hp hg
  rw [hcert] at hne hpc
  exact ⟨c, r, hne, hpc, hr, hv, hs⟩

/-! ## non-vacuity: a concrete world over real bytes -/

/-- a golden measurement with provenance, a certificate, a two-entry measurement map and one TDX row -/
def sampleGolden : WGolden :=
  ⟨some ⟨1725148800, 5, []⟩, 7, [], [0xC0], [0xd1, 0xd2], [],
   some ⟨3, [(1, List.replicate 48 7), (2, List.replicate 48 8)], [], [], 196608, [], [], []⟩,
   some ⟨1, [⟨16, true, List.replicate 48 9, []⟩], []⟩, []⟩

def samplePayload : Bytes := encodeGoldenRaw sampleGolden

/-- signatures name the signer and repeat the message: a signature value verifies over one message only -/
def refX : Prims Nat String Nat :=
  { Example.P with
    timeFromNil := some ⟨0, 0⟩     -- timeproto.From as repaired (nil-safe getters)
    parseCert := fun b => if b == [0xC0] then some 1 else if b == [0xC1] then some 2 else none
    verifyChain := fun c r t => c == 1 && r == "caller-roots" && decide (100 ≤ t ∧ t ≤ 200)
    checkSigPss256 := fun c m s => s == UInt8.ofNat c :: m }

def sampleSig : Bytes := 1 :: samplePayload
def sampleContainer : Bytes := encodeEndorsement ⟨samplePayload, sampleSig, []⟩

example : SigBinds refX := by
  intro c c' m m' s h h'
  simp only [refX, beq_iff_eq] at h h'
  rw [h] at h'
  exact (List.cons.inj h').2

/-- the genuine container is accepted inside the validity window, also with the measurement named … -/
example : endorsement (wirePrims refX) sampleContainer (Example.opts 150) = accept := by decide +kernel
example : endorsement (wirePrims refX) sampleContainer
    { Example.opts 150 with snp := some ⟨some (List.replicate 48 8), 2⟩ } = accept := by decide +kernel
/-- … and rejected outside it, or with a flipped signature byte -/
example : endorsement (wirePrims refX) sampleContainer (Example.opts 201) = reject "chain" := by decide +kernel
example : endorsement (wirePrims refX) (encodeEndorsement ⟨samplePayload, 2 :: samplePayload, []⟩) (Example.opts 150)
    = reject "signature" := by decide +kernel

/-- (b) the same message in other bytes under the original signature: over-long first tag (0x0a → 0x8a 0x00),
    an appended unknown field — both rejected at the signature check, although the golden measurement
    the verifier reads is the same -/
example : samplePayload.head? = some 0x0a := by decide +kernel
example : unmarshalGolden (0x8a :: 0x00 :: samplePayload.tail) = unmarshalGolden samplePayload := by decide +kernel
example : endorsement (wirePrims refX) (encodeEndorsement ⟨0x8a :: 0x00 :: samplePayload.tail, sampleSig, []⟩)
    (Example.opts 150) = reject "signature" := by decide +kernel
example : endorsement (wirePrims refX) (encodeEndorsement ⟨samplePayload ++ [0xf8, 0x7f, 0x01], sampleSig, []⟩)
    (Example.opts 150) = reject "signature" := by decide +kernel

/-- (c) concatenations: genuine ++ a signature-only container carrying a bad signature is rejected (the LAST
    signature counts); bad-signature container ++ genuine-signature-only container is accepted; a
    payload-only container followed by a signature-only container is the endorsement; trailing garbage
    rejects before anything is verified; a second certificate field appended to the payload replaces the first -/
example : endorsement (wirePrims refX) (sampleContainer ++ encodeEndorsement ⟨[], [0x66], []⟩) (Example.opts 150)
    = reject "signature" := by decide +kernel
example : endorsement (wirePrims refX)
    (encodeEndorsement ⟨samplePayload, [0x66], []⟩ ++ encodeEndorsement ⟨[], sampleSig, []⟩) (Example.opts 150)
    = accept := by decide +kernel
example : endorsement (wirePrims refX)
    (encodeEndorsement ⟨samplePayload, [], []⟩ ++ encodeEndorsement ⟨[], sampleSig, []⟩) (Example.opts 150)
    = accept := by decide +kernel
/-- an EMPTY occurrence of the payload field after the genuine one resets the payload (last wins): the
    endorsement is then the empty golden measurement under the genuine signature — rejected, no certificate -/
example : endorsement (wirePrims refX) (sampleContainer ++ [0x0a, 0x00]) (Example.opts 150)
    = reject "no-cert" := by decide +kernel
example : endorsement (wirePrims refX) (sampleContainer ++ [0x0a, 0x05, 0x01]) (Example.opts 150)
    = reject "endorsement-unmarshal" := by decide +kernel
example : endorsement (wirePrims refX)
    (encodeEndorsement ⟨samplePayload ++ [0x22, 0x01, 0xC1], 1 :: (samplePayload ++ [0x22, 0x01, 0xC1]), []⟩)
    (Example.opts 150) = reject "chain" := by decide +kernel

end GceTcb.C01Wire
